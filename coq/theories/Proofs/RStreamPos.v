(* ReplaceSource stream, part 2 (P2, POSITIONS): when the inner chunks are reported where
   they start and carry line feeds only as their last byte, so are the chunks streamed by
   the ReplaceSource, and the end position is that of the spliced text. *)
From RS Require Import Base.Prelude Base.Text Rope.RopeModel Stream.Types Stream.Leaves
  Stream.Replace Stream.Tree Checkers.ChkTree
  Proofs.RopeWf Proofs.StreamText Proofs.StreamLeaves Proofs.ReplaceSort Proofs.ReplaceText
  Proofs.RStreamText.
Require Import Lia List ZArith.

Local Open Scope N_scope.

(* ------------------------------------------------------------------ *)
(* u32 wrap-around                                                     *)
(* ------------------------------------------------------------------ *)
Lemma wrap32_small n : n < two32 -> wrap32 n = n.
Proof. intros H. unfold wrap32. apply N.mod_small. exact H. Qed.

Lemma wrap32z_small z n : z = Z.of_N n -> n < two32 -> wrap32z z = n.
Proof.
  intros -> H. unfold wrap32z. unfold two32 in H. rewrite Z.mod_small by lia. apply N2Z.id.
Qed.

(* ------------------------------------------------------------------ *)
(* chunks with a line feed at most as last byte                         *)
(* ------------------------------------------------------------------ *)
Definition nl_last (t : text) : Prop :=
  exists body, no_nl body /\ (t = body \/ t = body ++ [10]).

Definition nl_lastb (t : text) : bool :=
  match rev t with [] => true | _ :: r => forallb (fun c => negb (c =? 10)) r end.

Lemma no_nl_forallb (t : text) : forallb (fun c => negb (c =? 10)) t = true <-> no_nl t.
Proof.
  unfold no_nl. rewrite forallb_forall, Forall_forall. split; intros H x Hx.
  - specialize (H x Hx). apply negb_true_iff in H. apply N.eqb_neq in H. exact H.
  - apply negb_true_iff. apply N.eqb_neq. apply H. exact Hx.
Qed.

Lemma nl_lastb_iff (t : text) : nl_lastb t = true <-> nl_last t.
Proof.
  unfold nl_lastb, nl_last. split.
  - destruct (rev t) as [|x r] eqn:E.
    + intros _. exists []. split; [constructor|left].
      rewrite <- (rev_involutive t), E. reflexivity.
    + intros H. apply no_nl_forallb in H.
      assert (Ht : t = rev r ++ [x]) by (rewrite <- (rev_involutive t), E; reflexivity).
      destruct (N.eq_dec x 10) as [->|Hx].
      * exists (rev r). split; [apply no_nl_rev; exact H|right; exact Ht].
      * exists t. split; [|left; reflexivity]. rewrite Ht. apply no_nl_app; [apply no_nl_rev; exact H|].
        constructor; [exact Hx|constructor].
  - intros [b [Hb [->| ->]]].
    + destruct (rev b) as [|x r] eqn:E; [reflexivity|]. apply no_nl_forallb.
      apply no_nl_rev in Hb. rewrite E in Hb. inversion Hb. assumption.
    + rewrite rev_app_distr. cbn [rev app]. apply no_nl_forallb. apply no_nl_rev. exact Hb.
Qed.

Lemma nl_last_nil : nl_last [].
Proof. exists []. split; [constructor|left; reflexivity]. Qed.

Lemma nl_last_no_nl t : no_nl t -> nl_last t.
Proof. intros H. exists t. split; [exact H|left; reflexivity]. Qed.

Lemma piece_nl_last' p : piece_shape p -> nl_last p.
Proof. intros [b [Hb [->| [-> _]]]]; exists b; split; auto. Qed.

Lemma no_nl_drop n a : no_nl a -> no_nl (drop n a).
Proof.
  intros H. unfold no_nl in *. rewrite Forall_forall in *. intros x Hx. apply H.
  unfold drop in Hx. rewrite <- (firstn_skipn (N.to_nat n) a). apply in_or_app. right. exact Hx.
Qed.

Lemma no_nl_app_inv a b : no_nl (a ++ b) -> no_nl a /\ no_nl b.
Proof. intros H. apply Forall_app in H. exact H. Qed.

(* strict prefixes of such a chunk have no line feed *)
Lemma nl_last_take t n : nl_last t -> n < len t -> no_nl (take n t).
Proof.
  intros [b [Hb [->| ->]]] Hn.
  - apply no_nl_take. exact Hb.
  - rewrite len_app in Hn. change (len [10]) with 1 in Hn.
    rewrite take_app_l by lia. apply no_nl_take. exact Hb.
Qed.

Lemma nl_last_slice t x y : nl_last t -> y < len t -> no_nl (slice x y t).
Proof.
  intros Ht Hy. destruct (N.le_gt_cases x y) as [Hxy|Hxy].
  - unfold slice. rewrite take_drop_comm. replace (x + (y - x)) with y by lia.
    apply no_nl_drop. apply nl_last_take; assumption.
  - rewrite slice_empty by lia. constructor.
Qed.

Lemma nl_last_drop t n : nl_last t -> nl_last (drop n t).
Proof.
  intros [b [Hb [->| ->]]].
  - apply nl_last_no_nl. apply no_nl_drop. exact Hb.
  - destruct (N.le_gt_cases n (len b)) as [H|H].
    + rewrite drop_app_l by exact H. exists (drop n b). split; [apply no_nl_drop; exact Hb|right; reflexivity].
    + rewrite drop_app_r by lia. apply nl_last_no_nl.
      replace (n - len b) with ((n - len b - 1) + 1) by lia. rewrite drop_succ_cons, drop_nil. constructor.
Qed.

Lemma ends_with_nl_drop t n : n < len t -> ends_with_nl (drop n t) = ends_with_nl t.
Proof.
  intros H. rewrite <- (take_drop n t) at 2. unfold ends_with_nl. rewrite last_byte_app.
  destruct (last_byte (drop n t)) eqn:E; [reflexivity|].
  apply last_byte_none in E. apply (f_equal len) in E. rewrite len_drop, len_nil in E. lia.
Qed.

Lemma nl_last_advance t l c : nl_last t ->
  advance l c t = if ends_with_nl t then (l + 1, 0) else (l, c + len t).
Proof.
  intros [b [Hb [->| ->]]].
  - rewrite ends_with_nl_no_nl by exact Hb. apply advance_no_nl. exact Hb.
  - rewrite ends_with_nl_snoc. change (10 =? NL) with true. cbn iota. apply advance_nl_end. exact Hb.
Qed.

Lemma nl_last_full_take t : nl_last t -> no_nl (take (len t) t) -> ends_with_nl t = false.
Proof.
  intros _ H. rewrite take_all in H by lia. apply ends_with_nl_no_nl. exact H.
Qed.

(* NLL: every chunk of an event list has that shape *)
Definition NLL (evs : list event) : Prop :=
  Forall (fun ot => match ot with Some t => nl_last t | None => True end) (chunk_texts evs).

Lemma NLL_nil : NLL [].
Proof. constructor. Qed.

Lemma NLL_app a b : NLL a -> NLL b -> NLL (a ++ b).
Proof. unfold NLL. rewrite chunk_texts_app. intros Ha Hb. apply Forall_app. split; assumption. Qed.

Lemma NLL_one t m : nl_last t -> NLL [EChunk (Some t) m].
Proof. intros H. constructor; [exact H|constructor]. Qed.

Lemma NLL_chunk t m evs : nl_last t -> NLL evs -> NLL (EChunk (Some t) m :: evs).
Proof. intros H H2. constructor; assumption. Qed.

Lemma NLL_silent evs : chunk_texts evs = [] -> NLL evs.
Proof. unfold NLL. intros ->. constructor. Qed.

(* ------------------------------------------------------------------ *)
(* positions as pairs; a budget that keeps them below 2^32              *)
(* ------------------------------------------------------------------ *)
Definition psum (p : N * N) : N := fst p + snd p.

Lemma psum_advance t : forall l c, psum (advance l c t) <= l + c + len t.
Proof.
  induction t as [|b t IH]; intros l c; cbn [advance].
  - unfold psum. cbn [fst snd]. rewrite len_nil. lia.
  - rewrite len_cons. destruct (b =? NL).
    + specialize (IH (l + 1) 0). lia.
    + specialize (IH l (c + 1)). lia.
Qed.

Lemma psum_adv p t : psum (adv p t) <= psum p + len t.
Proof. unfold adv. pose proof (psum_advance t (fst p) (snd p)). unfold psum at 2. lia. Qed.

Lemma advance_col_le t : forall l c, snd (advance l c t) <= c + len t.
Proof.
  induction t as [|b t IH]; intros l c; cbn [advance].
  - cbn [snd]. lia.
  - rewrite len_cons. destruct (b =? NL).
    + specialize (IH (l + 1) 0). lia.
    + specialize (IH l (c + 1)). lia.
Qed.

Lemma adv_no_nl p t : no_nl t -> adv p t = (fst p, snd p + len t).
Proof. intros H. unfold adv. apply advance_no_nl. exact H. Qed.

(* ------------------------------------------------------------------ *)
(* the offset invariant                                                *)
(* ------------------------------------------------------------------ *)
(* p: the true position of the output emitted so far; (L, C): the true position in the
   inner text of the inner offset reached *)
Definition off (st : rstate) (line : Z) : Z := if (line =? rs_cline st)%Z then rs_coff st else 0%Z.

Definition PI (st : rstate) (p : N * N) (L C : N) : Prop :=
  Z.of_N (fst p) = (Z.of_N L + rs_loff st)%Z /\
  Z.of_N (snd p) = (Z.of_N C + off st (Z.of_N L + rs_loff st))%Z /\
  (rs_cline st <= Z.of_N L + rs_loff st)%Z.

Definition offs (st : rstate) : Z * Z * Z := (rs_loff st, rs_coff st, rs_cline st).

Lemma offs_inv a b : offs a = offs b ->
  rs_loff a = rs_loff b /\ rs_coff a = rs_coff b /\ rs_cline a = rs_cline b.
Proof. unfold offs. intros H. inversion H. auto. Qed.

Lemma PI_offs st st' p L C : offs st' = offs st -> PI st p L C -> PI st' p L C.
Proof.
  intros H. apply offs_inv in H. destruct H as [H1 [H2 H3]].
  unfold PI, off. rewrite H1, H2, H3. auto.
Qed.

Ltac zb :=
  repeat match goal with
  | |- context [(?a =? ?b)%Z] => destruct (Z.eqb_spec a b)
  | H : context [(?a =? ?b)%Z] |- _ => destruct (Z.eqb_spec a b)
  end.

Lemma out_col_PI st p L C line gc :
  PI st p L C -> line = (Z.of_N L + rs_loff st)%Z -> gc = C -> snd p < two32 ->
  out_col st line gc = snd p.
Proof.
  intros [H1 [H2 H3]] -> -> Hb. unfold out_col. apply wrap32z_small; [|exact Hb].
  unfold off in H2. lia.
Qed.

Lemma line_PI st p L C line :
  PI st p L C -> line = (Z.of_N L + rs_loff st)%Z -> fst p < two32 -> wrap32z line = fst p.
Proof. intros [H1 _] -> Hb. apply wrap32z_small; [lia|exact Hb]. Qed.

(* dropping k bytes of the inner line *)
Lemma drop_cols_PI st p L C k line :
  PI st p L C -> line = (Z.of_N L + rs_loff st)%Z -> PI (drop_cols st line k) p L (C + k).
Proof.
  intros [H1 [H2 H3]] ->. unfold PI, off, drop_cols in *.
  destruct (Z.eqb_spec (rs_cline st) (Z.of_N L + rs_loff st)) as [E|E];
    cbn [set_offs rs_loff rs_coff rs_cline]; zb; repeat split; lia.
Qed.

(* dropping the rest of the inner chunk *)
Lemma skip_whole_PI st p L C k line (nl : bool) gc :
  PI st p L C -> line = (Z.of_N L + rs_loff st)%Z -> gc = C ->
  PI (skip_whole st line nl gc k) p (if nl then L + 1 else L) (if nl then 0 else C + k).
Proof.
  intros HP -> ->. unfold skip_whole. destruct nl; [|apply drop_cols_PI; [exact HP|reflexivity]].
  destruct HP as [H1 [H2 H3]]. unfold PI, off in *.
  destruct (Z.eqb_spec (rs_cline st) (Z.of_N L + rs_loff st)) as [E|E];
    cbn [set_offs rs_loff rs_coff rs_cline]; zb; repeat split; lia.
Qed.

Lemma offs_drop_cols_pos st q line k : offs (drop_cols (set_pos st q) line k) = offs (drop_cols st line k).
Proof. unfold drop_cols. cbn [set_pos rs_cline]. destruct (rs_cline st =? line)%Z; reflexivity. Qed.

(* ------------------------------------------------------------------ *)
(* Good + NLL                                                          *)
(* ------------------------------------------------------------------ *)
Definition GoodN (evs : list event) (p : N * N) (t : text) : Prop := Good evs p t /\ NLL evs.

Lemma GoodN_nil p : GoodN [] p [].
Proof. split; [apply Good_nil|apply NLL_nil]. Qed.

Lemma GoodN_app a b p ta tb : GoodN a p ta -> GoodN b (adv p ta) tb -> GoodN (a ++ b) p (ta ++ tb).
Proof. intros [A1 A2] [B1 B2]. split; [apply Good_app; assumption|apply NLL_app; assumption]. Qed.

Lemma GoodN_one t m p : g_line m = fst p -> g_col m = snd p -> nl_last t -> GoodN [EChunk (Some t) m] p t.
Proof. intros H1 H2 H3. split; [apply Good_one; assumption|apply NLL_one; exact H3]. Qed.

Lemma GoodN_chunk t m evs p x :
  g_line m = fst p -> g_col m = snd p -> nl_last t -> GoodN evs (adv p t) x ->
  GoodN (EChunk (Some t) m :: evs) p (t ++ x).
Proof.
  intros H1 H2 H3 [A1 A2]. split; [apply Good_chunk; assumption|apply NLL_chunk; assumption].
Qed.

Lemma GoodN_silent evs p : chunk_texts evs = [] -> GoodN evs p [].
Proof.
  intros H. split; [split; [apply Reass_silent; exact H|]|apply NLL_silent; exact H].
  unfold WP. assert (chunks_of evs = []) as ->; [|reflexivity].
  induction evs as [|e evs IH]; [reflexivity|]. destruct e; cbn [chunk_texts] in H; [discriminate| |]; apply IH; exact H.
Qed.

(* ------------------------------------------------------------------ *)
(* replacement content                                                 *)
(* ------------------------------------------------------------------ *)
Lemma emit_content_pos ls : lines_shape ls -> forall st line gc mo name st' line' evs p L,
  emit_content st ls line gc mo name = (st', line', evs) ->
  PI st p L gc -> line = (Z.of_N L + rs_loff st)%Z ->
  psum p + len (concat ls) < two32 ->
  GoodN evs p (concat ls) /\ PI st' (adv p (concat ls)) L gc /\ line' = (Z.of_N L + rs_loff st')%Z.
Proof.
  induction 1 as [|b Hne Hb|b ls Hb Hls IH]; intros st line gc mo name st' line' evs p L H HP Hl Hbud.
  - cbn [emit_content] in H. inversion H. subst. cbn [concat]. rewrite adv_nil.
    split; [apply GoodN_nil|]. split; [exact HP|reflexivity].
  - cbn [emit_content is_nil andb] in H. rewrite (ends_with_nl_no_nl b Hb) in H. cbn [negb] in H.
    cbn [concat] in *. rewrite app_nil_r in *.
    assert (Hfst : fst p < two32) by (unfold psum in Hbud; lia).
    assert (Hsnd : snd p < two32) by (unfold psum in Hbud; lia).
    rewrite (adv_no_nl p b Hb).
    destruct (Z.eqb_spec (rs_cline st) line) as [E|E]; inversion H; subst st' line' evs; clear H.
    + split.
      { apply GoodN_one; cbn [g_line g_col].
        - apply (line_PI st p L gc); assumption.
        - apply (out_col_PI st p L gc); auto.
        - apply nl_last_no_nl. exact Hb. }
      split; [|cbn [set_offs rs_loff]; exact Hl]. destruct HP as [H1 [H2 H3]]. unfold PI, off in *.
      cbn [set_offs rs_loff rs_coff rs_cline fst snd]. subst line. zb; repeat split; lia.
    + split.
      { apply GoodN_one; cbn [g_line g_col].
        - apply (line_PI st p L gc); assumption.
        - apply (out_col_PI st p L gc); auto.
        - apply nl_last_no_nl. exact Hb. }
      split; [|cbn [set_offs rs_loff]; exact Hl]. destruct HP as [H1 [H2 H3]]. unfold PI, off in *.
      cbn [set_offs rs_loff rs_coff rs_cline fst snd]. subst line. zb; repeat split; lia.
  - cbn [emit_content] in H. rewrite ends_with_nl_snoc in H. change (10 =? NL) with true in H.
    cbn [negb] in H. rewrite andb_false_r in H.
    match type of H with context [emit_content ?a ls ?l2 ?c ?d ?e] =>
      destruct (emit_content a ls l2 c d e) as [[st2 line2] evs2] eqn:E2; set (st1 := a) in * end.
    inversion H. subst st' line' evs. clear H.
    cbn [concat] in *. rewrite len_app in Hbud.
    assert (Hfst : fst p < two32) by (unfold psum in Hbud; lia).
    assert (Hsnd : snd p < two32) by (unfold psum in Hbud; lia).
    assert (Hadv : adv p (b ++ [10]) = (fst p + 1, 0)) by (unfold adv; apply advance_nl_end; exact Hb).
    assert (HP1 : PI st1 (fst p + 1, 0) L gc).
    { destruct HP as [H1 [H2 H3]]. unfold PI, off in *. unfold st1.
      cbn [set_offs rs_loff rs_coff rs_cline fst snd]. subst line. zb; repeat split; lia. }
    assert (Hl1 : (line + 1)%Z = (Z.of_N L + rs_loff st1)%Z).
    { unfold st1. cbn [set_offs rs_loff]. lia. }
    assert (Hbud1 : psum (fst p + 1, 0) + len (concat ls) < two32).
    { unfold psum in *. cbn [fst snd]. rewrite len_app in Hbud. change (len [10]) with 1 in Hbud. lia. }
    destruct (IH st1 (line + 1)%Z gc mo None st2 line2 evs2 (fst p + 1, 0) L E2 HP1 Hl1 Hbud1) as [A1 [A2 A3]].
    split.
    { apply GoodN_chunk; cbn [g_line g_col].
      - apply (line_PI st p L gc); assumption.
      - apply (out_col_PI st p L gc); auto.
      - exists b. split; [exact Hb|right; reflexivity].
      - rewrite Hadv. exact A1. }
    rewrite adv_app, Hadv. split; [exact A2|exact A3].
Qed.

(* ------------------------------------------------------------------ *)
(* the head of a loop iteration: chunk part before the replacement,     *)
(* name declaration, replacement content                                *)
(* ------------------------------------------------------------------ *)
Definition clen (rs : list repl) : N := len (concat (map r_content rs)).

Lemma clen_cons r rs : clen (r :: rs) = len (r_content r) + clen rs.
Proof. unfold clen. cbn [map concat]. apply len_app. Qed.

Lemma len_slice {A} (x y : N) (l : list A) : x <= y -> y <= len l -> len (slice x y l) = y - x.
Proof. intros H1 H2. unfold slice. rewrite len_take, len_drop. lia. Qed.

Definition loop_head (st : rstate) (v : cvars) (r : repl) (chunk : text) (gl : N)
  : rstate * cvars * list event :=
  let line := (Z.of_N gl + rs_loff st)%Z in
  let '(st1, v1, ev1) := loop_pre st v r chunk line in
  let '(st2, name_idx, ev_name) := loop_name st1 v1 r in
  let '(st3, _, ev2) := emit_content st2 (split_lines (r_content r)) line (v_gc v1) (v_orig v1) name_idx in
  (st3, v1, ev1 ++ ev_name ++ ev2).

Lemma repl_loop_cons_head r rest' st v chunk gl end_pos :
  repl_loop (r :: rest') st v chunk gl end_pos =
  if negb (r_start r <? end_pos) then (st, v, [], false) else
  let '(st3, v1, evh) := loop_head st v r chunk gl in
  let rend := new_rend st3 r in
  let st4 := set_rest_rend st3 rest' rend in
  let offset := (Z.of_N (len chunk) - Z.of_N end_pos + Z.of_N rend - Z.of_N (v_cpos v1))%Z in
  if (0 <? offset)%Z then
    if end_pos <=? rend then
      (set_pos (skip_whole st4 (Z.of_N gl + rs_loff st4)%Z (ends_with_nl chunk) (v_gc v1)
                  (len chunk - v_cpos v1)) end_pos, v1, evh, true)
    else
      let k := Z.to_N offset in
      let '(st6, v3, ev3, early) :=
        repl_loop rest' (drop_cols (set_pos st4 (rs_pos st4 + k)) (Z.of_N gl + rs_loff st4)%Z k)
          (mkV (v_cpos v1 + k) (wrap32 (v_gc v1 + k))
               (adv_col st4 (v_orig v1) (slice (v_cpos v1) (v_cpos v1 + k) chunk)))
          chunk gl end_pos in
      (st6, v3, evh ++ ev3, early)
  else
    let '(st6, v3, ev3, early) := repl_loop rest' st4 v1 chunk gl end_pos in
    (st6, v3, evh ++ ev3, early).
Proof.
  rewrite repl_loop_cons. destruct (negb (r_start r <? end_pos)); [reflexivity|].
  unfold loop_head. cbn zeta.
  destruct (loop_pre st v r chunk (Z.of_N gl + rs_loff st)%Z) as [[st1 v1] ev1].
  destruct (loop_name st1 v1 r) as [[st2 ni] evn].
  destruct (emit_content st2 (split_lines (r_content r)) (Z.of_N gl + rs_loff st)%Z (v_gc v1) (v_orig v1) ni)
    as [[st3 l3] ev2].
  destruct (0 <? _)%Z.
  - destruct (end_pos <=? new_rend st3 r); [reflexivity|].
    match goal with |- context [repl_loop rest' ?a ?b chunk gl end_pos] =>
      destruct (repl_loop rest' a b chunk gl end_pos) as [[[st6 v3] ev3] early] end.
    rewrite <- !app_assoc. reflexivity.
  - match goal with |- context [repl_loop rest' ?a ?b chunk gl end_pos] =>
      destruct (repl_loop rest' a b chunk gl end_pos) as [[[st6 v3] ev3] early] end.
    rewrite <- !app_assoc. reflexivity.
Qed.

Lemma loop_pre_pos (cs : N) (chunk : text) (gl gc0 : N) st v r p st1 v1 ev1 :
  nl_last chunk -> gc0 + len chunk < two32 ->
  rs_pos st = cs + v_cpos v -> v_cpos v <= len chunk -> no_nl (take (v_cpos v) chunk) ->
  v_gc v = gc0 + v_cpos v -> PI st p gl (gc0 + v_cpos v) ->
  r_start r < cs + len chunk -> fst p < two32 -> snd p < two32 ->
  loop_pre st v r chunk (Z.of_N gl + rs_loff st)%Z = (st1, v1, ev1) ->
  exists t1, GoodN ev1 p t1 /\ len t1 = v_cpos v1 - v_cpos v /\ v_cpos v <= v_cpos v1 /\
             offs st1 = offs st /\ rs_rest st1 = rs_rest st /\ rs_rend st1 = rs_rend st /\
             rs_pos st1 = cs + v_cpos v1 /\ v_cpos v1 <= len chunk /\ no_nl (take (v_cpos v1) chunk) /\
             v_gc v1 = gc0 + v_cpos v1 /\ PI st1 (adv p t1) gl (gc0 + v_cpos v1).
Proof.
  intros Hnl Hgc Hpos Hcp Hnn Hvg HP Hs Hfst Hsnd E1.
  unfold loop_pre in E1.
  destruct (N.ltb_spec (rs_pos st) (r_start r)) as [L|L]; inversion E1; subst st1 v1 ev1; clear E1.
  - set (o := r_start r - rs_pos st) in *.
    assert (Ho : v_cpos v + o < len chunk) by lia.
    assert (Hpiece : no_nl (slice (v_cpos v) (v_cpos v + o) chunk)) by (apply nl_last_slice; assumption).
    assert (Hlen : len (slice (v_cpos v) (v_cpos v + o) chunk) = o) by (rewrite len_slice; lia).
    exists (slice (v_cpos v) (v_cpos v + o) chunk). cbn [v_cpos v_gc set_pos rs_rest rs_rend rs_pos].
    split.
    { apply GoodN_one; cbn [g_line g_col].
      - apply (line_PI st p gl (gc0 + v_cpos v)); auto.
      - apply (out_col_PI st p gl (gc0 + v_cpos v)); auto.
      - apply nl_last_no_nl. exact Hpiece. }
    split; [lia|]. split; [lia|]. split; [reflexivity|]. split; [reflexivity|]. split; [reflexivity|].
    split; [lia|]. split; [lia|]. split; [apply nl_last_take; assumption|].
    split; [rewrite Hvg, wrap32_small by lia; lia|].
    rewrite (adv_no_nl p _ Hpiece), Hlen.
    destruct HP as [H1 [H2 H3]]. unfold PI, off in *. cbn [set_pos rs_loff rs_coff rs_cline fst snd].
    zb; repeat split; lia.
  - exists []. split; [apply GoodN_nil|]. rewrite len_nil, adv_nil.
    split; [lia|]. split; [lia|]. split; [reflexivity|]. split; [reflexivity|]. split; [reflexivity|].
    repeat (split; [assumption|]). exact HP.
Qed.

Lemma loop_head_pos (cs : N) (chunk : text) (gl gc0 : N) st v r p st3 v1 evh :
  nl_last chunk -> gc0 + len chunk < two32 ->
  rs_pos st = cs + v_cpos v -> v_cpos v <= len chunk -> no_nl (take (v_cpos v) chunk) ->
  v_gc v = gc0 + v_cpos v -> PI st p gl (gc0 + v_cpos v) ->
  r_start r < cs + len chunk ->
  psum p + (len chunk - v_cpos v) + len (r_content r) < two32 ->
  loop_head st v r chunk gl = (st3, v1, evh) ->
  exists txt, GoodN evh p txt /\
    psum (adv p txt) + (len chunk - v_cpos v1) <= psum p + (len chunk - v_cpos v) + len (r_content r) /\
    rs_rest st3 = rs_rest st /\ rs_rend st3 = rs_rend st /\
    rs_pos st3 = cs + v_cpos v1 /\ v_cpos v1 <= len chunk /\ no_nl (take (v_cpos v1) chunk) /\
    v_gc v1 = gc0 + v_cpos v1 /\ PI st3 (adv p txt) gl (gc0 + v_cpos v1).
Proof.
  intros Hnl Hgc Hpos Hcp Hnn Hvg HP Hs Hbud H. unfold loop_head in H.
  destruct (loop_pre st v r chunk (Z.of_N gl + rs_loff st)%Z) as [[st1 v1'] ev1] eqn:E1.
  destruct (loop_name st1 v1' r) as [[st2 ni] evn] eqn:E2.
  destruct (emit_content st2 (split_lines (r_content r)) (Z.of_N gl + rs_loff st)%Z (v_gc v1') (v_orig v1') ni)
    as [[st3' l3] ev2] eqn:E3.
  inversion H. subst st3' v1' evh. clear H.
  assert (Hfst : fst p < two32) by (unfold psum in Hbud; lia).
  assert (Hsnd : snd p < two32) by (unfold psum in Hbud; lia).
  pose proof (loop_pre_pos cs chunk gl gc0 _ _ _ _ _ _ _ Hnl Hgc Hpos Hcp Hnn Hvg HP Hs Hfst Hsnd E1) as S1.
  destruct S1 as [t1 [G1 [Hl1 [Hle1 [O1 [R1 [Re1 [P1 [C1 [N1 [V1 PI1]]]]]]]]]]].
  (* step 2 *)
  destruct (loop_name_text _ _ _ _ _ _ E2) as [K2 [Sil2 [O2a [O2b O2c]]]].
  apply core_inv in K2. destruct K2 as [K2a [K2b K2c]].
  assert (PI2 : PI st2 (adv p t1) gl (v_gc v1)).
  { rewrite V1. apply (PI_offs st1); [unfold offs; congruence|exact PI1]. }
  (* step 3 *)
  pose proof (psum_adv p t1) as Hps1.
  assert (Hl3 : (Z.of_N gl + rs_loff st)%Z = (Z.of_N gl + rs_loff st2)%Z).
  { apply offs_inv in O1. destruct O1 as [O1 _]. rewrite O2a, O1. reflexivity. }
  assert (Hbud3 : psum (adv p t1) + len (concat (split_lines (r_content r))) < two32).
  { rewrite concat_split_lines. lia. }
  destruct (emit_content_pos _ (split_lines_shape (r_content r)) _ _ _ _ _ _ _ _ _ _ E3 PI2 Hl3 Hbud3)
    as [G3 [PI3 _]].
  destruct (emit_content_text _ _ _ _ _ _ _ _ _ E3) as [K3 _].
  apply core_inv in K3. destruct K3 as [K3a [K3b K3c]].
  rewrite concat_split_lines in G3, PI3.
  exists (t1 ++ r_content r). split.
  { apply GoodN_app; [exact G1|]. change (r_content r) with ([] ++ r_content r).
    apply GoodN_app; [apply GoodN_silent; exact Sil2|]. rewrite adv_nil. exact G3. }
  rewrite adv_app.
  pose proof (psum_adv (adv p t1) (r_content r)) as Hps3.
  split; [lia|]. split; [congruence|]. split; [congruence|]. split; [congruence|].
  split; [exact C1|]. split; [exact N1|]. split; [exact V1|].
  rewrite <- V1. exact PI3.
Qed.

(* ------------------------------------------------------------------ *)
(* the while loop                                                      *)
(* ------------------------------------------------------------------ *)
Lemma repl_loop_pos (cs : N) (chunk : text) (gl gc0 : N) :
  nl_last chunk -> gc0 + len chunk < two32 ->
  forall rest st v p,
  rs_rest st = rest ->
  rs_pos st = cs + v_cpos v -> v_cpos v <= len chunk -> no_nl (take (v_cpos v) chunk) ->
  v_gc v = gc0 + v_cpos v -> PI st p gl (gc0 + v_cpos v) ->
  psum p + (len chunk - v_cpos v) + clen rest < two32 ->
  forall st' v' evs early,
  repl_loop rest st v chunk gl (cs + len chunk) = (st', v', evs, early) ->
  exists txt, GoodN evs p txt /\
    psum (adv p txt) + (if early then 0 else len chunk - v_cpos v') + clen (rs_rest st')
      <= psum p + (len chunk - v_cpos v) + clen rest /\
    if early then
      PI st' (adv p txt) (fst (advance gl gc0 chunk)) (snd (advance gl gc0 chunk))
    else
      rs_pos st' = cs + v_cpos v' /\ v_cpos v' <= len chunk /\ no_nl (take (v_cpos v') chunk) /\
      v_gc v' = gc0 + v_cpos v' /\ PI st' (adv p txt) gl (gc0 + v_cpos v').
Proof.
  intros Hnl Hgc.
  induction rest as [|r rest' IH]; intros st v p Hrest Hpos Hcp Hnn Hvg HP Hbud st' v' evs early H.
  - rewrite repl_loop_nil in H. inversion H. subst st' v' evs early. clear H.
    exists []. rewrite adv_nil. split; [apply GoodN_nil|]. rewrite Hrest. split; [lia|].
    repeat (split; [assumption|]). exact HP.
  - rewrite repl_loop_cons_head in H.
    destruct (N.ltb_spec (r_start r) (cs + len chunk)) as [Hs|Hs]; cbn [negb] in H.
    2:{ inversion H. subst st' v' evs early. clear H.
        exists []. rewrite adv_nil. split; [apply GoodN_nil|]. rewrite Hrest. split; [lia|].
        repeat (split; [assumption|]). exact HP. }
    rewrite clen_cons in Hbud. rewrite clen_cons.
    destruct (loop_head st v r chunk gl) as [[st3 v1] evh] eqn:EH.
    destruct (loop_head_pos cs chunk gl gc0 st v r p st3 v1 evh Hnl Hgc Hpos Hcp Hnn Hvg HP Hs) with (2 := EH)
      as [th [GH [BH [R3 [Re3 [P3 [C3 [N3 [V3 PI3]]]]]]]]]; [lia|].
    cbn zeta in H.
    set (rend := new_rend st3 r) in *.
    set (st4 := set_rest_rend st3 rest' rend) in *.
    assert (O4 : offs st4 = offs st3) by reflexivity.
    assert (PI4 : PI st4 (adv p th) gl (gc0 + v_cpos v1)) by (apply (PI_offs st3); assumption).
    assert (P4 : rs_pos st4 = cs + v_cpos v1) by exact P3.
    destruct (0 <? Z.of_N (len chunk) - Z.of_N (cs + len chunk) + Z.of_N rend - Z.of_N (v_cpos v1))%Z eqn:EO.
    + apply Z.ltb_lt in EO.
      destruct (N.leb_spec (cs + len chunk) rend) as [EE|EE].
      * (* the rest of the chunk is replaced *)
        match type of H with context [skip_whole ?a ?b ?c ?d ?e] =>
          pose proof (core_skip_whole a b c d e) as K;
          pose proof (skip_whole_PI a (adv p th) gl (gc0 + v_cpos v1) e b c d PI4 eq_refl V3) as PI5;
          set (st5 := skip_whole a b c d e) in * end.
        apply core_inv in K. destruct K as [K1 [K2 K3]].
        inversion H. subst st' v' evs early. clear H.
        exists th. split; [exact GH|]. cbn [set_pos rs_rest]. rewrite K2.
        change (rs_rest st4) with rest'. split; [lia|].
        apply (PI_offs st5); [reflexivity|].
        rewrite (nl_last_advance chunk gl gc0 Hnl).
        destruct (ends_with_nl chunk); cbn [fst snd]; [exact PI5|].
        replace (gc0 + len chunk) with (gc0 + v_cpos v1 + (len chunk - v_cpos v1)) by lia. exact PI5.
      * (* part of the chunk is replaced *)
        set (k := Z.to_N (Z.of_N (len chunk) - Z.of_N (cs + len chunk) + Z.of_N rend - Z.of_N (v_cpos v1))) in *.
        assert (Hk : v_cpos v1 + k < len chunk) by lia.
        match type of H with context [repl_loop rest' ?a ?b chunk gl _] =>
          destruct (repl_loop rest' a b chunk gl (cs + len chunk)) as [[[st6 v3] ev3] early3] eqn:E6;
          set (st5 := a) in *; set (v2 := b) in * end.
        inversion H. subst st' v' evs early. clear H.
        assert (K : core st5 = core (set_pos st4 (rs_pos st4 + k))) by (unfold st5; apply core_drop_cols).
        apply core_inv in K. destruct K as [K1 [K2 K3]]. cbn [set_pos rs_pos rs_rest rs_rend] in K1, K2, K3.
        assert (PI5 : PI st5 (adv p th) gl (gc0 + (v_cpos v1 + k))).
        { rewrite N.add_assoc. unfold st5. apply (PI_offs (drop_cols st4 (Z.of_N gl + rs_loff st4) k)).
          - apply offs_drop_cols_pos.
          - apply drop_cols_PI; [exact PI4|reflexivity]. }
        destruct (IH st5 v2 (adv p th)) with (8 := E6) as [t3 [G3 [B3 D3]]].
        { exact K2. }
        { unfold v2. cbn [v_cpos]. lia. }
        { unfold v2. cbn [v_cpos]. lia. }
        { unfold v2. cbn [v_cpos]. apply nl_last_take; assumption. }
        { unfold v2. cbn [v_cpos v_gc]. rewrite V3, wrap32_small by lia. lia. }
        { unfold v2. cbn [v_cpos]. exact PI5. }
        { unfold v2. cbn [v_cpos]. lia. }
        exists (th ++ t3). rewrite adv_app. split; [apply GoodN_app; assumption|].
        unfold v2 in B3. cbn [v_cpos] in B3. split; [lia|]. exact D3.
    + apply Z.ltb_ge in EO.
      destruct (repl_loop rest' st4 v1 chunk gl (cs + len chunk)) as [[[st6 v3] ev3] early3] eqn:E6.
      inversion H. subst st' v' evs early. clear H.
      destruct (IH st4 v1 (adv p th)) with (8 := E6) as [t3 [G3 [B3 D3]]];
        [reflexivity|exact P4|exact C3|exact N3|exact V3|exact PI4|lia|].
      exists (th ++ t3). rewrite adv_app. split; [apply GoodN_app; assumption|].
      split; [lia|]. exact D3.
Qed.

(* ------------------------------------------------------------------ *)
(* one inner chunk                                                     *)
(* ------------------------------------------------------------------ *)
Lemma chunk_entry_pos st chunk m p L C st1 v1 early :
  nl_last chunk -> g_line m = L -> g_col m = C -> C + len chunk < two32 ->
  PI st p L C ->
  chunk_entry st chunk m = (st1, v1, early) ->
  rs_rest st1 = rs_rest st /\
  if early then PI st1 p (fst (advance L C chunk)) (snd (advance L C chunk))
  else rs_pos st1 = rs_pos st + v_cpos v1 /\ v_cpos v1 <= len chunk /\ no_nl (take (v_cpos v1) chunk) /\
       v_gc v1 = C + v_cpos v1 /\ PI st1 p L (C + v_cpos v1).
Proof.
  intros Hnl HL HC Hb HP H. unfold chunk_entry in H. rewrite HL, HC in H.
  assert (Hnone : (st, mkV 0 C (m_orig m), false) = (st1, v1, early) ->
                  rs_rest st1 = rs_rest st /\
                  if early then PI st1 p (fst (advance L C chunk)) (snd (advance L C chunk))
                  else rs_pos st1 = rs_pos st + v_cpos v1 /\ v_cpos v1 <= len chunk /\ no_nl (take (v_cpos v1) chunk) /\
                       v_gc v1 = C + v_cpos v1 /\ PI st1 p L (C + v_cpos v1)).
  { intros H0. inversion H0. subst st1 v1 early. cbn [v_cpos v_gc]. split; [reflexivity|].
    rewrite !N.add_0_r. split; [reflexivity|]. split; [lia|]. split; [constructor|]. split; [reflexivity|exact HP]. }
  destruct (rs_rend st) as [re|]; [|apply Hnone; exact H].
  destruct (N.ltb_spec (rs_pos st) re) as [L1|L1]; [|apply Hnone; exact H]. clear Hnone.
  destruct (N.leb_spec (rs_pos st + len chunk) re) as [L2|L2]; inversion H; subst st1 v1 early; clear H.
  - match goal with |- context [skip_whole ?a ?b ?c ?d ?e] =>
      pose proof (core_skip_whole a b c d e) as K;
      pose proof (skip_whole_PI a p L C e b c d HP eq_refl eq_refl) as PI5;
      set (st5 := skip_whole a b c d e) in * end.
    apply core_inv in K. destruct K as [K1 [K2 K3]]. cbn [set_pos rs_rest]. split; [exact K2|].
    apply (PI_offs st5); [reflexivity|].
    rewrite (nl_last_advance chunk L C Hnl). destruct (ends_with_nl chunk); exact PI5.
  - set (cpos := re - rs_pos st) in *.
    match goal with |- context [drop_cols ?a ?b ?c] =>
      pose proof (core_drop_cols a b c) as K; set (st5 := drop_cols a b c) in * end.
    apply core_inv in K. destruct K as [K1 [K2 K3]]. cbn [set_pos rs_pos rs_rest rs_rend] in K1, K2, K3.
    cbn [v_cpos v_gc]. split; [exact K2|]. split; [exact K1|]. split; [lia|].
    split; [apply nl_last_take; [exact Hnl|lia]|]. split; [apply wrap32_small; lia|].
    unfold st5. apply (PI_offs (drop_cols st (Z.of_N L + rs_loff st) cpos)).
    + apply offs_drop_cols_pos.
    + apply drop_cols_PI; [exact HP|reflexivity].
Qed.

Lemma replace_chunk_pos st chunk m p L C st' evs :
  nl_last chunk -> g_line m = L -> g_col m = C -> C + len chunk < two32 ->
  PI st p L C -> psum p + len chunk + clen (rs_rest st) < two32 ->
  replace_chunk st chunk m = (st', evs) ->
  exists txt, GoodN evs p txt /\
    psum (adv p txt) + clen (rs_rest st') <= psum p + len chunk + clen (rs_rest st) /\
    PI st' (adv p txt) (fst (advance L C chunk)) (snd (advance L C chunk)).
Proof.
  intros Hnl HL HC Hb HP Hbud H. rewrite replace_chunk_eq in H. cbn zeta in H.
  destruct (chunk_entry st chunk m) as [[st1 v1] early] eqn:E1.
  destruct (chunk_entry_pos _ _ _ _ _ _ _ _ _ Hnl HL HC Hb HP E1) as [A1 A2].
  destruct early.
  - inversion H. subst st' evs. clear H. exists []. rewrite adv_nil.
    split; [apply GoodN_nil|]. rewrite A1. split; [lia|exact A2].
  - destruct A2 as [A2 [A3 [A4 [A5 A6]]]]. rewrite HL in H.
    destruct (repl_loop (rs_rest st1) st1 v1 chunk L (rs_pos st + len chunk)) as [[[st2 v2] ev2] early2] eqn:E2.
    destruct (repl_loop_pos (rs_pos st) chunk L C Hnl Hb (rs_rest st1) st1 v1 p eq_refl A2 A3 A4 A5 A6)
      with (2 := E2) as [txt [B1 [B2 B3]]]; [rewrite A1; lia|].
    rewrite A1 in B2.
    destruct early2; cbv iota in B2.
    + inversion H. subst st' evs. clear H. exists txt. split; [exact B1|]. split; [lia|exact B3].
    + inversion H. subst st' evs. clear H. destruct B3 as [B3 [B4 [B5 [B6 B7]]]].
      cbn [set_pos rs_rest].
      assert (Hfst : fst (adv p txt) < two32) by (unfold psum in *; lia).
      assert (Hsnd : snd (adv p txt) < two32) by (unfold psum in *; lia).
      destruct (N.ltb_spec (v_cpos v2) (len chunk)) as [L1|L1].
      * exists (txt ++ drop (v_cpos v2) chunk). rewrite adv_app.
        set (p2 := adv p txt) in *.
        assert (Hd : nl_last (drop (v_cpos v2) chunk)) by (apply nl_last_drop; exact Hnl).
        split.
        { apply GoodN_app; [exact B1|]. fold p2. apply GoodN_one; cbn [g_line g_col].
          - apply (line_PI st2 p2 L (C + v_cpos v2)); auto.
          - apply (out_col_PI st2 p2 L (C + v_cpos v2)); auto.
          - exact Hd. }
        pose proof (psum_adv p2 (drop (v_cpos v2) chunk)) as Hps. rewrite len_drop in Hps.
        split; [lia|].
        apply (PI_offs st2); [reflexivity|].
        unfold adv. rewrite (nl_last_advance _ (fst p2) (snd p2) Hd), (nl_last_advance chunk L C Hnl).
        rewrite ends_with_nl_drop by exact L1. rewrite len_drop.
        destruct B7 as [H1 [H2 H3]]. unfold PI, off in *.
        destruct (ends_with_nl chunk); cbn [fst snd]; zb; repeat split; lia.
      * exists txt. rewrite app_nil_r. split; [exact B1|]. split; [lia|].
        apply (PI_offs st2); [reflexivity|].
        assert (v_cpos v2 = len chunk) by lia.
        rewrite (nl_last_advance chunk L C Hnl).
        rewrite (nl_last_full_take chunk Hnl) by congruence. cbn [fst snd]. congruence.
Qed.

(* ------------------------------------------------------------------ *)
(* the fold over the inner events                                      *)
(* ------------------------------------------------------------------ *)
Lemma NLL_cons_inv t m evs : NLL (EChunk (Some t) m :: evs) -> nl_last t /\ NLL evs.
Proof. unfold NLL. cbn [chunk_texts]. intros H. inversion H. auto. Qed.

Lemma replace_events_pos : forall ievs st p L C rest_t st' evs,
  Reass ievs rest_t -> WP ievs (L, C) -> NLL ievs ->
  C + len rest_t < two32 ->
  PI st p L C -> psum p + len rest_t + clen (rs_rest st) < two32 ->
  replace_events st ievs = (st', evs) ->
  exists txt, GoodN evs p txt /\
    psum (adv p txt) + clen (rs_rest st') <= psum p + len rest_t + clen (rs_rest st) /\
    PI st' (adv p txt) (fst (advance L C rest_t)) (snd (advance L C rest_t)).
Proof.
  induction ievs as [|e ievs IH]; intros st p L C rest_t st' evs HR HW HN Hb HP Hbud H.
  - cbn [replace_events] in H. inversion H. subst st' evs.
    destruct HR as [ts [H1 H2]]. cbn in H1. inversion H1. subst ts. cbn in H2. subst rest_t.
    exists []. rewrite adv_nil. split; [apply GoodN_nil|]. split; [lia|exact HP].
  - cbn [replace_events] in H.
    destruct (replace_event st e) as [st1 o1] eqn:E1.
    destruct (replace_events st1 ievs) as [st2 o2] eqn:E2.
    inversion H. subst st' evs. clear H.
    destruct e as [t m|i n c|i n].
    + apply Reass_chunk_inv in HR. destruct HR as [t' [x' [-> [-> HR]]]].
      apply WP_chunk_inv in HW. destruct HW as [t'' [Ht [HL [HC HW]]]]. inversion Ht. subst t''. clear Ht.
      cbn [fst snd] in HL, HC. apply NLL_cons_inv in HN. destruct HN as [Hnl HN].
      cbn [replace_event] in E1. rewrite len_app in Hb, Hbud.
      destruct (replace_chunk_pos st t' m p L C st1 o1 Hnl HL HC) with (4 := E1) as [txt1 [A1 [A2 A3]]];
        [lia|exact HP|lia|].
      unfold adv in HW. cbn [fst snd] in HW.
      pose proof (advance_col_le t' L C) as Hcol.
      destruct (advance L C t') as [L' C'] eqn:EA. cbn [fst snd] in *.
      destruct (IH st1 (adv p txt1) L' C' x' st2 o2 HR HW HN) with (4 := E2) as [txt2 [B1 [B2 B3]]];
        [lia|exact A3|lia|].
      exists (txt1 ++ txt2). rewrite adv_app. split; [apply GoodN_app; assumption|]. split; [rewrite len_app; lia|].
      rewrite advance_app, EA. exact B3.
    + destruct (replace_event_silent st (ESource i n c) st1 o1 I E1) as [A1 [A2 [A3 [A4 A5]]]].
      apply core_inv in A1. destruct A1 as [A1a [A1b A1c]].
      assert (HP1 : PI st1 p L C) by (apply (PI_offs st); [unfold offs; congruence|exact HP]).
      destruct (IH st1 p L C rest_t st2 o2 HR HW HN Hb HP1) with (2 := E2) as [txt2 [B1 [B2 B3]]];
        [rewrite A1b; exact Hbud|].
      exists txt2. split.
      { change txt2 with ([] ++ txt2). apply GoodN_app; [apply GoodN_silent; exact A2|rewrite adv_nil; exact B1]. }
      rewrite A1b in B2. split; [exact B2|exact B3].
    + destruct (replace_event_silent st (EName i n) st1 o1 I E1) as [A1 [A2 [A3 [A4 A5]]]].
      apply core_inv in A1. destruct A1 as [A1a [A1b A1c]].
      assert (HP1 : PI st1 p L C) by (apply (PI_offs st); [unfold offs; congruence|exact HP]).
      destruct (IH st1 p L C rest_t st2 o2 HR HW HN Hb HP1) with (2 := E2) as [txt2 [B1 [B2 B3]]];
        [rewrite A1b; exact Hbud|].
      exists txt2. split.
      { change txt2 with ([] ++ txt2). apply GoodN_app; [apply GoodN_silent; exact A2|rewrite adv_nil; exact B1]. }
      rewrite A1b in B2. split; [exact B2|exact B3].
Qed.

(* ------------------------------------------------------------------ *)
(* P2                                                                  *)
(* ------------------------------------------------------------------ *)
Theorem replace_stream_Good (sorted : list repl) (ievs : list event) (T : text) :
  Forall ordered sorted -> Reass ievs T -> WP ievs (1, 0) -> NLL ievs ->
  len T + clen sorted + 1 < two32 ->
  let r := replace_stream sorted ievs (advance 1 0 T) in
  Good (fst r) (1, 0) (splice T sorted 0) /\ NLL (fst r) /\ snd r = advance 1 0 (splice T sorted 0).
Proof.
  intros Hord HR HW HN Hb. cbn zeta.
  pose proof (replace_stream_Reass sorted ievs T (advance 1 0 T) Hord HR) as HRe.
  unfold replace_stream in *.
  destruct (replace_events (replace_init sorted) ievs) as [st evs] eqn:E.
  assert (HP0 : PI (replace_init sorted) (1, 0) 1 0).
  { unfold PI, off. cbn [replace_init rs_loff rs_coff rs_cline fst snd]. repeat split; cbn; lia. }
  destruct (replace_events_pos ievs (replace_init sorted) (1, 0) 1 0 T st evs HR HW HN) with (4 := E)
    as [txt [A1 [A2 A3]]]; [lia|exact HP0|unfold psum; cbn [fst snd replace_init rs_rest]; lia|].
  cbn [replace_init rs_rest] in A2. unfold psum at 2 in A2. cbn [fst snd] in A2.
  rewrite emit_remainder_content in *.
  set (gi := advance 1 0 T) in *.
  set (rem := concat (map r_content (rs_rest st))) in *.
  destruct (emit_content st (split_lines rem) (Z.of_N (fst gi) + rs_loff st)%Z (snd gi) None None)
    as [[st' line'] evs'] eqn:E2.
  assert (Hbud2 : psum (adv (1, 0) txt) + len (concat (split_lines rem)) < two32).
  { rewrite concat_split_lines. unfold clen in *. fold rem in A2. lia. }
  destruct (emit_content_pos _ (split_lines_shape rem) _ _ _ _ _ _ _ _ _ _ E2 A3 eq_refl Hbud2)
    as [B1 [B2 B3]].
  rewrite concat_split_lines in B1, B2, Hbud2.
  cbn [fst snd] in *.
  assert (G : GoodN (evs ++ evs') (1, 0) (txt ++ rem)) by (apply GoodN_app; assumption).
  destruct G as [[G1 G2] G3].
  assert (Htxt : txt ++ rem = splice T sorted 0) by (apply (Reass_fun _ _ _ G1 HRe)).
  rewrite <- Htxt. split; [split; assumption|]. split; [exact G3|].
  pose proof (psum_adv (adv (1, 0) txt) rem) as Hps.
  set (p2 := adv (adv (1, 0) txt) rem) in *.
  change (advance 1 0 (txt ++ rem)) with (adv (1, 0) (txt ++ rem)). rewrite adv_app. fold p2.
  rewrite (surjective_pairing p2). f_equal.
  - apply (line_PI st' p2 (fst gi) (snd gi)); [exact B2|exact B3|unfold psum in *; lia].
  - apply (out_col_PI st' p2 (fst gi) (snd gi)); [exact B2|exact B3|reflexivity|unfold psum in *; lia].
Qed.

(* ------------------------------------------------------------------ *)
(* boolean statements                                                  *)
(* ------------------------------------------------------------------ *)
Definition chunks_nl_last (evs : list event) : bool :=
  forallb (fun ot => match ot with Some t => nl_lastb t | None => true end) (chunk_texts evs).

Lemma chunks_nl_last_iff evs : chunks_nl_last evs = true <-> NLL evs.
Proof.
  unfold chunks_nl_last, NLL. rewrite forallb_forall, Forall_forall.
  split; intros H x Hx; specialize (H x Hx); destruct x as [t|]; auto; apply nl_lastb_iff; exact H.
Qed.

Lemma clen_perm a b : Permutation.Permutation a b -> clen a = clen b.
Proof.
  induction 1 as [|x a b _ IH|x y a|a b c _ IH1 _ IH2].
  - reflexivity.
  - rewrite !clen_cons, IH. reflexivity.
  - rewrite !clen_cons. lia.
  - congruence.
Qed.

Lemma clen_sort rs : clen (sort_repls rs) = clen rs.
Proof. apply clen_perm. apply sort_repls_perm. Qed.

(* P2 *)
Theorem replace_stream_positioned (sorted : list repl) (ievs : list event) (T : text) :
  Forall (fun r => r_start r <= r_end r) sorted ->
  reassembles ievs T = true ->
  well_positioned (chunks_of ievs) 1 0 = true ->
  chunks_nl_last ievs = true ->
  len T + len (concat (map r_content sorted)) + 1 < 4294967296 ->
  let r := replace_stream sorted ievs (advance 1 0 T) in
  reassembles (fst r) (splice T sorted 0) = true /\
  well_positioned (chunks_of (fst r)) 1 0 = true /\
  chunks_nl_last (fst r) = true /\
  snd r = advance 1 0 (splice T sorted 0).
Proof.
  intros H1 H2 H3 H4 H5.
  apply reassembles_iff in H2. apply chunks_nl_last_iff in H4.
  pose proof (replace_stream_Good sorted ievs T H1 H2 H3 H4 H5) as [[A1 A2] [A3 A4]].
  cbn zeta. split; [apply reassembles_iff; exact A1|]. split; [exact A2|].
  split; [apply chunks_nl_last_iff; exact A3|exact A4].
Qed.

(* P2 for the stream of ReplaceSource::stream_chunks (replacements in insertion order) *)
Theorem replace_source_stream_positioned (rs : list repl) (ievs : list event) (T : text) :
  Forall (fun r => r_start r <= r_end r) rs ->
  reassembles ievs T = true ->
  well_positioned (chunks_of ievs) 1 0 = true ->
  chunks_nl_last ievs = true ->
  len T + len (concat (map r_content rs)) + 1 < 4294967296 ->
  let r := replace_stream (sort_repls rs) ievs (advance 1 0 T) in
  reassembles (fst r) (replace_source_text T rs) = true /\
  well_positioned (chunks_of (fst r)) 1 0 = true /\
  chunks_nl_last (fst r) = true /\
  snd r = advance 1 0 (replace_source_text T rs).
Proof.
  intros H1 H2 H3 H4 H5. rewrite replace_source_text_splice.
  apply replace_stream_positioned; try assumption.
  - apply sort_repls_ordered. exact H1.
  - change (len (concat (map r_content (sort_repls rs)))) with (clen (sort_repls rs)).
    rewrite clen_sort. exact H5.
Qed.

(* Why the size bound: reported lines and columns go through `as u32` (wrap32z).  A chunk on
   inner line 2^32 is re-emitted on line 0, so without the bound the statement fails for inner
   texts of 2^32 bytes or more (no such witness can be evaluated; this evaluation shows the wrap). *)
Example wrap_needs_bound :
  chunks_of (fst (replace_stream [] [EChunk (Some [120]) (mkMapping 4294967296 0 None)] (4294967296, 1)))
  = [(Some [120], mkMapping 0 0 None)].
Proof. vm_compute. reflexivity. Qed.

Print Assumptions replace_stream_positioned.
Print Assumptions replace_source_stream_positioned.
