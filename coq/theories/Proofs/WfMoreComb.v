(* C11 for trees with combined-map leaves (class `rshape2` of CombLeafTree.v: leaves may be
   SourceMapSources WITH an inner source map inside the domain `c09_wf`).
     stream_wf_tree2     every stream (any options, any store) is `stream_wf`;
     strict_tree2        the text-less stream with columns reports its segments at STRICTLY
                         increasing positions, each on a line >= 1 and strictly before the end;
     events_map_wf       (event level, reused by WfMoreWarm.v) a well-formed event list inside
                         the encoder's domain whose segments are strict / inside the text encodes
                         to a map that passes every clause of `map_wf`;
     get_map_wf2, get_map_map_wf2   the analogues of WfAllMap.v, both column settings;
     map_of_wf2, chk_C11_tree2      the extracted checker accepts the model's observations of
                         such trees after ANY warming history, outside the class K1
                         (a root SourceMapSource WITH an inner map is outside K1: its map()
                         goes through get_map);
     chk_C11_tree2_k1, chk_C11_tree2_any   inside K1 the only other verdict is 51. *)
From RS Require Import Base.Prelude Base.Text Rope.RopeModel Codec.Vlq Codec.CodecSpec
  Checkers.ChkCodec Stream.Types Stream.Leaves Stream.Concat Stream.Replace Stream.Combined Stream.Tree
  Api.ApiTree Sem.Attr Checkers.ChkTree Checkers.ChkCombined
  Proofs.CodecKept Proofs.CodecMain Proofs.StreamText Proofs.StreamLeaves Proofs.StreamMap Proofs.StreamConcat
  Proofs.StreamTree Proofs.WfStream Proofs.WfFinal Proofs.WfMap Proofs.RStreamText Proofs.RStreamPos
  Proofs.RStreamTree Proofs.AttrCodec Proofs.AttrSms Proofs.AttrLeaves Proofs.LawConcatAttr Proofs.LawWrappers
  Proofs.CacheReplay Proofs.FinalDense Proofs.FinalReplace Proofs.FinalConcat Proofs.FinalTree
  Proofs.ReplAttrStream Proofs.ReplAttrOrigin Proofs.ReplAttrTree
  Proofs.LinesBase Proofs.LinesSelf Proofs.LinesConcat Proofs.LinesTree
  Proofs.CombAllSpec Proofs.CombAllT12 Proofs.CombLeafBase Proofs.CombLeafTree Proofs.CombLeafTreeCols
  Proofs.CombLeafTreeLines Proofs.CombAllTop Proofs.CombLeafExample Proofs.WfAllStrict Proofs.WfAllMap Proofs.WfAllChk.
Require Import Lia List.

Local Open Scope N_scope.

(* ------------------------------------------------------------------ *)
(* G1 a: every stream is well-formed                                    *)
(* ------------------------------------------------------------------ *)
Theorem stream_wf_tree2 (s : src) (st : store) (o : opts) :
  rshape2 s = true -> treeA s = true -> stream_wf (fst (fst (stream st s o))) 0 0 = true.
Proof. intros H1 H2. apply dense_stream_wf. apply dense2_tree_any; assumption. Qed.

(* ------------------------------------------------------------------ *)
(* the text-carrying stream with columns has no empty chunk             *)
(* ------------------------------------------------------------------ *)
Theorem tidy2_tree : forall s, rshape2 s = true -> treeA s = true -> rsmall s = true -> tidy_all s.
Proof.
  apply (src_ind' (fun s => rshape2 s = true -> treeA s = true -> rsmall s = true -> tidy_all s)).
  - intros b v _ H2 H3. apply (tidy_tree (SRaw b v) eq_refl H2 H3).
  - intros v _ H2 H3. apply (tidy_tree (SRawString v) eq_refl H2 H3).
  - intros v _ H2 H3. apply (tidy_tree (SRawBuffer v) eq_refl H2 H3).
  - intros v n _ H2 H3. apply (tidy_tree (SOriginal v n) eq_refl H2 H3).
  - intros v n m og i r H1 H2 H3. destruct i as [im|].
    + cbn [rshape2] in H1. apply c09_wfb_iff in H1. intros st. unfold LawWrappers.evs_of, o10. cbn [stream fst].
      destruct (combined_text_good v n m og im r H1 H2 true) as [_ [_ [Ne D]]]. split; assumption.
    + apply (tidy_tree (SMapped v n m og None r) eq_refl H2 H3).
  - intros cs IH Hsh HA Hsm st. pose proof (rshape2_concat cs Hsh) as Hsh'.
    pose proof (treeA_concat cs HA) as Ha'. pose proof (rsmall_concat cs Hsm) as Hsm'.
    assert (Hall : Forall tidy_all cs).
    { rewrite Forall_forall in *. intros c Hc. apply IH; [exact Hc|apply Hsh'|apply Ha'|apply Hsm']; exact Hc. }
    destruct (Nat.eq_dec (length cs) 1) as [E|E].
    + destruct cs as [|c [|c2 r]]; try discriminate. inversion Hall as [|? ? Hc _]. apply Hc.
    + pose proof (kid_streams_tidy cs Hall st) as Hk.
      assert (Hkd : Forall (fun k => dense (fst k) 0 0 = true) (fst (kid_streams st cs (mkOpts true false)))).
      { eapply Forall_impl; [|exact Hk]. intros k [A _]. exact A. }
      assert (Hkn : Forall (fun k => no_empty_chunks (fst k) = true) (fst (kid_streams st cs (mkOpts true false)))).
      { eapply Forall_impl; [|exact Hk]. intros k [_ A]. exact A. }
      pose proof (concat_kids_ta st cs true E Hkd) as [A1 [A2 _]].
      split; [exact A2|]. rewrite ne_tas. unfold o10. rewrite A1. apply ne_flat_tas. exact Hkn.
  - intros i rs IH Hsh HA Hsm st. cbn [rshape2 rsmall] in Hsh, Hsm.
    apply andb_true_iff in Hsm. destruct Hsm as [Hsm1 Hsm2].
    assert (HAi : treeA i = true /\ forallb (repl_ok (source i)) rs = true).
    { unfold treeA in *. cbn [tree_wf tree_ascii] in HA. apply andb_true_iff in HA. destruct HA as [Hw Ha].
      apply andb_true_iff in Hw. destruct Hw as [Hw1 Hw2]. apply andb_true_iff in Ha. destruct Ha as [Ha1 _].
      rewrite Hw1, Ha1. split; [reflexivity|exact Hw2]. }
    destruct HAi as [HAi Hrs].
    pose proof (IH Hsh HAi Hsm1 st) as [D N0].
    pose proof (rshape2_stream_good st i true Hsh HAi Hsm1) as G.
    unfold LawWrappers.evs_of in *. unfold o10 in *. rewrite stream_replace_eq.
    destruct (stream st i (mkOpts true false)) as [[ievs gi] st1]. cbn [fst snd] in *.
    destruct G as [G1 _].
    apply (ReplAttrOrigin.replace_stream_dense rs ievs (source i) gi (repl_ok_ordered _ _ Hrs) G1 N0 D).
  - intros id i _ Hsh. discriminate.
Qed.

(* ------------------------------------------------------------------ *)
(* G1 b: strictness                                                     *)
(* ------------------------------------------------------------------ *)
(* the combined leaf: positions are those of the outer splitter *)
Lemma same_tp_strict a b gi : same_tp a b -> strict_ok b gi -> strict_ok a gi.
Proof.
  intros [_ H] [S B]. unfold strict_ok. rewrite H. split; [exact S|].
  rewrite <- Forall_map with (f := mpos) (P := fun p => plt p gi) in *. rewrite H. exact B.
Qed.

Lemma combined_strict v n m og im r : c09_wf v m n og im ->
  strict_ok (fst (combined_stream v m n og im r oF)) (snd (combined_stream v m n og im r oF)).
Proof.
  intros Hwf. rewrite combined_snd.
  apply (same_tp_strict _ (fst (sm_stream v m oF))).
  - apply combined_same_tp. exact Hwf.
  - apply sm_strict. destruct Hwf as [H _]. exact H.
Qed.

Definition sgood2 (s : src) : Prop :=
  forall st, rshape2 s = true -> treeA s = true -> rsmall s = true ->
    strict_ok (fst (fst (stream st s oF))) (snd (fst (stream st s oF))).

Lemma concat_sgood2 cs : Forall sgood2 cs -> sgood2 (SConcat cs).
Proof.
  intros IH st Hsh Ha Hsm.
  pose proof (rshape2_concat cs Hsh) as Hsh'. pose proof (treeA_concat cs Ha) as Ha'.
  pose proof (rsmall_concat cs Hsm) as Hsm'. rewrite Forall_forall in IH.
  destruct (Nat.eq_dec (length cs) 1) as [E|E].
  { destruct cs as [|c [|c2 r]]; try discriminate.
    assert (Hin : In c [c]) by (left; reflexivity).
    change (stream st (SConcat [c]) oF) with (stream st c oF).
    apply (IH c Hin st (Hsh' c Hin) (Ha' c Hin) (Hsm' c Hin)). }
  assert (PF : forall c, In c cs -> forall st0, snd (stream st0 c oF) = st0).
  { intros c Hin st0. apply (tgood2_all c (Hsh' c Hin) (Ha' c Hin) (Hsm' c Hin) st0). }
  rewrite (stream_concat_fold st cs oF E).
  rewrite (kid_streams_pure oF cs PF st). cbn [fst snd final_source oF].
  set (trs := map (fun c => (fst (stream st c oF), source c)) cs : list kid).
  assert (E1 : map (fun c => fst (stream st c oF)) cs = map fst trs).
  { unfold trs. rewrite map_map. apply map_ext. intros c. reflexivity. }
  assert (Hk : Forall kidS trs).
  { unfold trs. rewrite Forall_map. apply Forall_forall. intros c Hin. split.
    - apply (tgood2_all c (Hsh' c Hin) (Ha' c Hin) (Hsm' c Hin) st).
    - unfold tr_events, tr_info. cbn [fst snd].
      apply (IH c Hin st (Hsh' c Hin) (Ha' c Hin) (Hsm' c Hin)). }
  rewrite E1. destruct (concat_kidS trs Hk) as [_ X]. exact X.
Qed.

Lemma replace_sgood2 i rs : sgood2 (SReplace i rs).
Proof.
  intros st Hsh Ha Hsm.
  pose proof (rgood2_all (SReplace i rs) Hsh Ha Hsm st true) as [[A1 A2] [A3 [A4 A5]]]. cbn zeta in *.
  pose proof (tidy2_tree (SReplace i rs) Hsh Ha Hsm st) as [_ T2]. unfold LawWrappers.evs_of, o10 in T2.
  change (stream st (SReplace i rs) oF) with (stream st (SReplace i rs) (mkOpts true false)).
  apply (text_stream_strict _ (source (SReplace i rs))); assumption.
Qed.

Lemma rshape_sgood2 s : rshape s = true -> sgood2 s.
Proof. intros H1 st _ H2 H3. apply (sgood_all s st H1 H2 H3). Qed.

Lemma sgood2_all : forall s, sgood2 s.
Proof.
  apply src_ind'.
  - intros b v. apply rshape_sgood2. reflexivity.
  - intros v. apply rshape_sgood2. reflexivity.
  - intros v. apply rshape_sgood2. reflexivity.
  - intros v n. apply rshape_sgood2. reflexivity.
  - intros v n m og i r. destruct i as [im|]; [|apply rshape_sgood2; reflexivity].
    intros st Hsh _ _. cbn [rshape2] in Hsh. apply c09_wfb_iff in Hsh.
    cbn [stream fst snd]. apply combined_strict. exact Hsh.
  - intros cs IH. apply concat_sgood2. exact IH.
  - intros i rs _. apply replace_sgood2.
  - intros id i _ st Hsh. discriminate.
Qed.

Theorem strict_tree2 (st : store) (s : src) :
  rshape2 s = true -> treeA s = true -> rsmall s = true ->
  let r := stream st s (mkOpts true true) in
  sstrict (map mpos (chunk_mappings (fst (fst r)))) /\
  Forall (fun m => 1 <= g_line m /\ plt (mpos m) (advance 1 0 (source s))) (chunk_mappings (fst (fst r))).
Proof.
  intros H1 H2 H3. cbn zeta. destruct (sgood2_all s st H1 H2 H3) as [A B]. fold oF.
  destruct (tgood2_all s H1 H2 H3 st) as [Hk _]. pose proof (kid_facts _ Hk) as F.
  destruct Hk as [_ [_ [Hi _]]]. unfold tr_events, tr_info, tr_text in *. cbn [fst snd] in *.
  split; [exact A|]. rewrite <- Hi. apply Forall_forall. intros m Hm.
  rewrite Forall_forall in B, F. split; [apply (F m Hm)|apply (B m Hm)].
Qed.

(* ------------------------------------------------------------------ *)
(* event level: a strict, inside, well-formed event list encodes to a   *)
(* well-formed map                                                      *)
(* ------------------------------------------------------------------ *)
(* what the encoder is fed, per column setting *)
Definition segs_good (t : text) (cols : bool) (ms : list mapping) : Prop :=
  if cols then sstrict (map mpos ms) /\ Forall (seg_inside t) ms
  else ssorted ms /\ Forall (fun m => 1 <= g_line m) ms /\
       Forall (fun m => is_mapped m = true -> seg_inside t m) ms.

Theorem events_map_parts (t : text) (cols : bool) (evs : list event) (m : smap) :
  stream_wf evs 0 0 = true -> enc_domain (chunk_mappings evs) = true ->
  segs_good t cols (chunk_mappings evs) ->
  map_of_events cols evs = Some m ->
  sorted_by pos_lt (decode_mappings (sm_mappings m)) = true /\
  Forall (seg_inside t) (decode_mappings (sm_mappings m)) /\
  tables_clause m = true /\ alphabet_clause m = true.
Proof.
  intros Hwf Hd Hg Hm.
  pose proof (map_of_events_tables cols evs m Hwf Hd Hm) as T.
  pose proof (map_of_events_alphabet cols evs m Hm) as A.
  rewrite (map_of_events_mappings _ _ _ Hm), (enc_domain_roundtrip cols _ Hd).
  split; [|split; [|split; [exact T|exact A]]]; destruct cols; cbn [segs_good] in Hg.
  - destruct Hg as [S _]. apply sstrict_sorted_lt. apply sstrict_kept. exact S.
  - destruct Hg as [S [L _]]. apply sstrict_sorted_lt. apply line_firsts_from_strict; [exact S|].
    eapply Forall_impl; [|exact L]. cbn beta. intros x Hx. lia.
  - destruct Hg as [_ I0]. apply kept_from_Forall. exact I0.
  - destruct Hg as [_ [_ I0]]. apply line_firsts_from_inside. exact I0.
Qed.

Theorem events_map_wf (t : text) (cols : bool) (evs : list event) :
  stream_wf evs 0 0 = true -> enc_domain (chunk_mappings evs) = true ->
  segs_good t cols (chunk_mappings evs) ->
  map_wf t (map_of_events cols evs) = true.
Proof.
  intros Hwf Hd Hg. destruct (map_of_events cols evs) as [m|] eqn:Hm; [|reflexivity].
  destruct (events_map_parts t cols evs m Hwf Hd Hg Hm) as [A [B [C D]]].
  apply map_wf_intro; assumption.
Qed.

(* ------------------------------------------------------------------ *)
(* the streamed segments of a tree of the class                         *)
(* ------------------------------------------------------------------ *)
Lemma cols_stream_inside2 st s : rshape2 s = true -> treeA s = true -> rsmall s = true ->
  let ms := chunk_mappings (fst (fst (stream st s (mkOpts true true)))) in
  sstrict (map mpos ms) /\ Forall (seg_inside (source s)) ms.
Proof.
  intros H1 H2 H3. cbn zeta.
  destruct (strict_tree2 st s H1 H2 H3) as [A B]. cbn zeta in A, B.
  destruct (final_stream_facts2 st s H1 H2 H3) as [_ [P _]]. cbn zeta in P. apply positions_cm in P.
  split; [exact A|]. apply Forall_forall. intros m Hm. rewrite Forall_forall in B, P.
  destruct (B m Hm) as [B1 B2]. split; [exact B1|]. split; [apply (P m Hm)|].
  apply plt_pos_ltb in B2. exact B2.
Qed.

Lemma lines_stream_inside2 st s : rshape2 s = true -> treeA s = true -> rsmall s = true ->
  let ms := chunk_mappings (fst (fst (stream st s (mkOpts false true)))) in
  ssorted ms /\ Forall (fun m => 1 <= g_line m) ms /\
  Forall (fun m => is_mapped m = true -> seg_inside (source s) m) ms.
Proof.
  intros H1 H2 H3. cbn zeta.
  destruct (final_stream_facts_lines2 st s H1 H2 H3) as [D [P [E [So [_ Sb]]]]]. cbn zeta in *.
  apply positions_cm in P. rewrite (fsegs_dense _ D), Forall_map in Sb.
  split; [apply sorted_ssorted; exact So|]. split.
  - eapply Forall_impl; [|exact P]. cbn beta. intros m Hm. apply is_position_ple in Hm. apply Hm.
  - apply Forall_forall. intros m Hm Hmp. rewrite Forall_forall in P, Sb.
    specialize (Sb m Hm). unfold seg_before in Sb. cbn [rsF fst snd] in Sb.
    assert (Ha : amap (optF (kfile (fst (fst (stream st s (mkOpts false true)))))
                             (kname (fst (fst (stream st s (mkOpts false true))))) (m_orig m)) = true).
    { unfold is_mapped in Hmp. destruct (m_orig m); [reflexivity|discriminate]. }
    destruct (Sb Ha) as [S1 S2]. rewrite E in S2. split; [exact S1|]. split; [apply (P m Hm)|].
    apply plt_pos_ltb. exact S2.
Qed.

Lemma stream_segs_good2 st s cols : rshape2 s = true -> treeA s = true -> rsmall s = true ->
  segs_good (source s) cols (chunk_mappings (fst (fst (stream st s (mkOpts cols true))))).
Proof.
  intros H1 H2 H3. destruct cols; cbn [segs_good].
  - apply (cols_stream_inside2 st s H1 H2 H3).
  - apply (lines_stream_inside2 st s H1 H2 H3).
Qed.

(* ------------------------------------------------------------------ *)
(* G1 c: get_map                                                        *)
(* ------------------------------------------------------------------ *)
Theorem get_map_wf2 (st st' : store) (s : src) (cols : bool) (m : smap) :
  rshape2 s = true -> treeA s = true -> rsmall s = true ->
  forallb mapping_small (chunk_mappings (fst (fst (stream st s (mkOpts cols true))))) = true ->
  get_map st s cols = (Some m, st') ->
  sorted_by pos_lt (decode_mappings (sm_mappings m)) = true /\
  Forall (seg_inside (source s)) (decode_mappings (sm_mappings m)) /\
  tables_clause m = true /\ alphabet_clause m = true.
Proof.
  intros H1 H2 H3 Hsm Hg.
  assert (Hd : enc_domain (chunk_mappings (fst (fst (stream st s (mkOpts cols true))))) = true).
  { destruct cols; [apply final_enc_domain2|apply final_enc_domain_lines2]; assumption. }
  rewrite get_map_eq in Hg. pose proof (f_equal fst Hg) as Hm. cbn [fst] in Hm.
  apply (events_map_parts (source s) cols (fst (fst (stream st s (mkOpts cols true)))) m).
  - apply stream_wf_tree2; assumption.
  - exact Hd.
  - apply stream_segs_good2; assumption.
  - exact Hm.
Qed.

Theorem get_map_map_wf2 (st st' : store) (s : src) (cols : bool) (om : option smap) :
  rshape2 s = true -> treeA s = true -> rsmall s = true ->
  forallb mapping_small (chunk_mappings (fst (fst (stream st s (mkOpts cols true))))) = true ->
  get_map st s cols = (om, st') -> map_wf (source s) om = true.
Proof.
  intros H1 H2 H3 Hsm Hg. destruct om as [m|]; [|reflexivity].
  destruct (get_map_wf2 st st' s cols m H1 H2 H3 Hsm Hg) as [A [B [C D]]].
  apply map_wf_intro; assumption.
Qed.

Lemma get_map_fst_wf2 st s cols :
  rshape2 s = true -> treeA s = true -> rsmall s = true ->
  forallb mapping_small (chunk_mappings (fst (fst (stream st s (mkOpts cols true))))) = true ->
  map_wf (source s) (fst (get_map st s cols)) = true.
Proof.
  intros H1 H2 H3 H4. apply (get_map_map_wf2 st (snd (get_map st s cols)) s cols); try assumption.
  destruct (get_map st s cols); reflexivity.
Qed.

(* ------------------------------------------------------------------ *)
(* G1 d: map() and the checker                                          *)
(* ------------------------------------------------------------------ *)
Theorem map_of_wf2 : forall s st cols,
  rshape2 s = true -> treeA s = true -> rsmall s = true -> k1_shape s = false ->
  forallb mapping_small (chunk_mappings (fst (fst (stream st (map_target s) (mkOpts cols true))))) = true ->
  map_wf (source s) (fst (map_of st s cols)) = true.
Proof.
  induction s as [b v|v|v|v n|v n m og im rm|cs|i IH rs|id i IH]; intros st cols H1 H2 H3 Hk Hs.
  - reflexivity.
  - reflexivity.
  - reflexivity.
  - apply (get_map_fst_wf2 st (SOriginal v n) cols); assumption.
  - destruct im as [x|]; [|cbn [k1_shape] in Hk; discriminate].
    change (map_of st (SMapped v n m og (Some x) rm) cols) with (get_map st (SMapped v n m og (Some x) rm) cols).
    apply (get_map_fst_wf2 st (SMapped v n m og (Some x) rm) cols); assumption.
  - apply (get_map_fst_wf2 st (SConcat cs) cols); assumption.
  - cbn [map_of map_target] in *. destruct rs as [|r rs]; cbn [is_nil] in *.
    + cbn [rshape2 rsmall k1_shape is_nil andb] in *. apply andb_true_iff in H3. destruct H3 as [H3 _].
      change (source (SReplace i [])) with (source i).
      apply IH; try assumption. apply (treeA_replace_inner i []). exact H2.
    + apply (get_map_fst_wf2 st (SReplace i (r :: rs)) cols); assumption.
  - discriminate.
Qed.

(* trees of the class contain no CachedSource: a warming history runs nothing *)
Lemma find_cached_rshape2 : forall s id, rshape2 s = true -> find_cached s id = None.
Proof.
  apply (src_ind' (fun s => forall id, rshape2 s = true -> find_cached s id = None)).
  - reflexivity.
  - reflexivity.
  - reflexivity.
  - reflexivity.
  - reflexivity.
  - intros cs IH id Hsh. cbn [rshape2] in Hsh. cbn [find_cached].
    induction cs as [|c cs IHcs]; [reflexivity|].
    cbn [forallb] in Hsh. apply andb_true_iff in Hsh. destruct Hsh as [Hc Hcs].
    inversion IH as [|? ? IHc IHrest]; subst. rewrite (IHc id Hc). apply IHcs; assumption.
  - intros i rs IH id Hsh. cbn [rshape2] in Hsh. cbn [find_cached]. apply IH. exact Hsh.
  - intros id i _ id' Hsh. discriminate.
Qed.

Lemma run_warm_rshape2 s : rshape2 s = true -> forall ws st, run_warm st s ws = st.
Proof.
  intros Hsh. induction ws as [|[id w] ws IH]; intros st; [reflexivity|].
  cbn [run_warm]. rewrite (find_cached_rshape2 s id Hsh). apply IH.
Qed.

Lemma api_tree_rshape2 s ws : rshape2 s = true -> api_tree s ws = api_tree s [].
Proof. intros Hsh. unfold api_tree. rewrite (run_warm_rshape2 s Hsh ws). reflexivity. Qed.

(* the checker accepts the model's observations outside the class K1, after any warming history *)
Theorem chk_C11_tree2 (s : src) (ws : list (N * wop)) :
  rshape2 s = true -> treeA s = true -> rsmall s = true -> k1_shape s = false ->
  enc_small [] s ->
  chk_C11 s (api_tree s ws) = 0.
Proof.
  intros H1 H2 H3 Hk Hs. rewrite (api_tree_rshape2 s ws H1).
  rewrite (chk_C11_unfold s [] H2 (fun o => stream_wf_tree2 s [] o H1 H2)
             (api_tree s []) eq_refl eq_refl eq_refl).
  rewrite (map_of_wf2 s [] true H1 H2 H3 Hk (Hs true)), (map_of_wf2 s [] false H1 H2 H3 Hk (Hs false)).
  reflexivity.
Qed.

Theorem chk_C11_tree2_k1 (s : src) (ws : list (N * wop)) :
  rshape2 s = true -> treeA s = true -> k1_shape s = true ->
  chk_C11 s (api_tree s ws) = 0 \/ chk_C11 s (api_tree s ws) = 51.
Proof.
  intros H1 H2 Hk. rewrite (api_tree_rshape2 s ws H1).
  rewrite (chk_C11_unfold s [] H2 (fun o => stream_wf_tree2 s [] o H1 H2)
             (api_tree s []) eq_refl eq_refl eq_refl).
  rewrite Hk. destruct (map_wf (source s) (fst (map_of [] s true))); cbn [negb]; [|right; reflexivity].
  destruct (map_wf (source s) (fst (map_of [] s false))); cbn [negb]; [left|right]; reflexivity.
Qed.

Corollary chk_C11_tree2_any (s : src) (ws : list (N * wop)) :
  rshape2 s = true -> treeA s = true -> rsmall s = true -> enc_small [] s ->
  chk_C11 s (api_tree s ws) = 0 \/ (k1_shape s = true /\ chk_C11 s (api_tree s ws) = 51).
Proof.
  intros H1 H2 H3 Hs. destruct (k1_shape s) eqn:Hk.
  - destruct (chk_C11_tree2_k1 s ws H1 H2 Hk) as [E|E]; [left; exact E|right; split; [reflexivity|exact E]].
  - left. apply chk_C11_tree2; assumption.
Qed.

(* a root SourceMapSource WITH an inner map is outside K1 *)
Lemma k1_shape_combined v n m og im r : k1_shape (SMapped v n m og (Some im) r) = false.
Proof. reflexivity. Qed.

(* the hypotheses are satisfiable: the trees of CombLeafExample.v (combined leaves under
   ConcatSource / ReplaceSource nodes, both values of remove_original_source), any history *)
Example chk_C11_examples (r : bool) (ws : list (N * wop)) :
  chk_C11 (ex_leaf r) (api_tree (ex_leaf r) ws) = 0 /\
  chk_C11 (ex_nested r) (api_tree (ex_nested r) ws) = 0 /\
  chk_C11 (um_tree r) (api_tree (um_tree r) ws) = 0.
Proof.
  assert (E : forall s, (forall cols, forallb mapping_small
              (chunk_mappings (fst (fst (stream [] (map_target s) (mkOpts cols true))))) = true) -> enc_small [] s)
    by (intros s H; exact H).
  destruct r; (split; [|split]);
    (apply chk_C11_tree2;
     [vm_compute; reflexivity|vm_compute; reflexivity|vm_compute; reflexivity|vm_compute; reflexivity|
      apply E; intros [|]; vm_compute; reflexivity]).
Qed.

Print Assumptions stream_wf_tree2.
Print Assumptions tidy2_tree.
Print Assumptions strict_tree2.
Print Assumptions events_map_wf.
Print Assumptions get_map_wf2.
Print Assumptions get_map_map_wf2.
Print Assumptions map_of_wf2.
Print Assumptions chk_C11_tree2.
Print Assumptions chk_C11_tree2_k1.
Print Assumptions chk_C11_tree2_any.
Print Assumptions chk_C11_examples.
