(* Stream proofs, part 3b: the source-map driven splitter (columns = true, final_source =
   false) on ARBITRARY maps.  With the guard of sm_full_step (a mapping that lies before the
   current position is ignored) no sortedness and no "inside the text" hypothesis is needed:
   after any prefix of the mappings the emitted chunks tile the text from (1,0) to the current
   position (positions beyond a line end / beyond the last line are clamped by `prefix`), and
   the position only moves forward. *)
From RS Require Import Base.Prelude Base.Text Rope.RopeModel Codec.Vlq Codec.CodecSpec
  Stream.Types Stream.Leaves Stream.Replace Stream.Tree Sem.Attr Checkers.ChkTree
  Proofs.StreamText Proofs.StreamLeaves Proofs.StreamMap.
Require Import Lia List.

Local Open Scope N_scope.

Lemma ple_refl p : ple p p.
Proof. unfold ple. lia. Qed.

Lemma ple_trans p q r : ple p q -> ple q r -> ple p r.
Proof. unfold ple. lia. Qed.

Section Any.
Variable ls : list text.
Variable V : N -> N -> Prop.
Hypothesis SOK : Forall starts_ok ls.
Variables fl fc : N.
Hypothesis Hend : fl <= len ls + 1 /\ (fl = len ls + 1 -> fc = 0).

(* one mapping, wherever it lies *)
Lemma step_any st m :
  Inv fl fc st -> V (g_line m) (g_col m) ->
  Inv fl fc (fst (sm_full_step ls fl fc st m)) /\
  ple (fpos st) (fpos (fst (sm_full_step ls fl fc st m))) /\
  tiles ls V (snd (sm_full_step ls fl fc st m)) (fpos st) (fpos (fst (sm_full_step ls fl fc st m))).
Proof.
  intros HI HV. destruct (step_guard st m) eqn:G.
  - rewrite sm_full_step_skip by exact G. cbn [fst snd].
    split; [exact HI|]. split; [apply ple_refl|apply T_nil].
  - apply step_guard_false in G.
    pose proof (step_spec ls V SOK fl fc Hend st m HI G HV) as [A1 [A2 A3]].
    rewrite A1. split; [exact A2|]. split; [exact G|exact A3].
Qed.

(* any list of mappings *)
Lemma loop_any : forall ms st,
  Inv fl fc st -> Forall (fun m => V (g_line m) (g_col m)) ms ->
  Inv fl fc (fst (sm_full_loop ls fl fc st ms)) /\
  ple (fpos st) (fpos (fst (sm_full_loop ls fl fc st ms))) /\
  tiles ls V (snd (sm_full_loop ls fl fc st ms)) (fpos st) (fpos (fst (sm_full_loop ls fl fc st ms))).
Proof.
  induction ms as [|m ms IH]; intros st HI HV.
  - cbn [sm_full_loop fst snd]. split; [exact HI|]. split; [apply ple_refl|apply T_nil].
  - cbn [sm_full_loop]. inversion HV as [|? ? HVm HVms]. subst.
    pose proof (step_any st m HI HVm) as [A1 [A2 A3]].
    destruct (sm_full_step ls fl fc st m) as [st1 e1]. cbn [fst snd] in *.
    pose proof (IH st1 A1 HVms) as [B1 [B2 B3]].
    destruct (sm_full_loop ls fl fc st1 ms) as [st2 e2]. cbn [fst snd] in *.
    split; [exact B1|]. split; [exact (ple_trans _ _ _ A2 B2)|].
    apply (tiles_app ls V e1 e2 (fpos st) (fpos st1)); [exact A3|exact B3].
Qed.

End Any.

(* the whole stream: loop + final flush *)
Lemma full_tiles_any ls V fl fc ms :
  Forall starts_ok ls -> end_ok ls fl fc ->
  Forall (fun m => V (g_line m) (g_col m)) ms -> V fl fc ->
  exists q,
    tiles ls V (snd (sm_full_loop ls fl fc (mkF 1 0 false None) ms) ++
                snd (sm_full_step ls fl fc (fst (sm_full_loop ls fl fc (mkF 1 0 false None) ms)) (unmapped fl fc)))
          (1, 0) q /\ prefix ls q = concat ls.
Proof.
  intros SOK He HV HVe.
  assert (Hend : fl <= len ls + 1 /\ (fl = len ls + 1 -> fc = 0)).
  { destruct He as [[A B]|[A _]]; lia. }
  assert (HI0 : Inv fl fc (mkF 1 0 false None)).
  { split; [cbn; lia|cbn; discriminate]. }
  pose proof (loop_any ls V SOK fl fc Hend ms _ HI0 HV) as [A1 [_ A2]].
  destruct (sm_full_loop ls fl fc (mkF 1 0 false None) ms) as [st evs]. cbn [fst snd] in *.
  change (fpos (mkF 1 0 false None)) with (1, 0) in A2.
  pose proof (step_any ls V SOK fl fc Hend st (unmapped fl fc) A1 HVe) as [B1 [B2 B3]].
  destruct (step_guard st (unmapped fl fc)) eqn:G.
  - (* the flush is skipped: the position is already past the end *)
    rewrite sm_full_step_skip in * by exact G. cbn [fst snd] in *. rewrite app_nil_r.
    apply step_guard_true in G. exists (fpos st). split; [exact A2|].
    apply (prefix_end ls fl fc); [exact He|]. intros Hlt. apply G.
    unfold plt in Hlt. unfold ple, mpos. cbn [unmapped g_line g_col fst snd] in *. lia.
  - apply step_guard_false in G.
    pose proof (step_spec ls V SOK fl fc Hend st (unmapped fl fc) A1 G HVe) as [C1 [_ C3]].
    exists (fl, fc). split.
    + apply (tiles_app ls V evs _ (1, 0) (fpos st)); [exact A2|exact C3].
    + apply (prefix_end ls fl fc); [exact He|]. unfold plt. cbn [fst snd]. lia.
Qed.

Lemma sm_full_tiles_any t m V fl fc :
  let ls := split_lines t in
  is_nil ls = false -> lines_end_info ls = (fl, fc) ->
  Forall starts_ok ls ->
  Forall (fun mp => V (g_line mp) (g_col mp)) (decode_mappings (sm_mappings m)) ->
  V fl fc ->
  exists evs q, fst (sm_stream_full t m) =
                  announce_sources m (sm_sources m) 0 ++ announce_names (sm_names m) 0 ++ evs /\
                tiles ls V evs (1, 0) q /\ prefix ls q = t.
Proof.
  intros ls Hnil Hinfo SOK HV HVe.
  assert (Hne : ls <> []) by (apply is_nil_false; exact Hnil).
  pose proof (end_info_ok ls fl fc Hne Hinfo) as [He _].
  pose proof (full_tiles_any ls V fl fc _ SOK He HV HVe) as [q [H1 H2]].
  unfold sm_stream_full. fold ls. rewrite Hnil, Hinfo.
  destruct (sm_full_loop ls fl fc (mkF 1 0 false None) (decode_mappings (sm_mappings m))) as [st evs].
  cbn [fst snd] in H1.
  destruct (sm_full_step ls fl fc st (unmapped fl fc)) as [st' evs']. cbn [fst snd] in *.
  exists (evs ++ evs'), q. split; [reflexivity|]. split; [exact H1|].
  rewrite H2. apply concat_split_lines.
Qed.

(* THE POINT OF THE FIX: every text no line of which starts with a continuation byte (every
   valid UTF-8 text is one), EVERY map: segments going backwards, duplicated, beyond a line
   end, beyond the last line, on line 0, in any order.
   (For texts that are not valid UTF-8 the statement stays false, `cex_full_reassembles`.) *)
Theorem sm_stream_full_reassembles_any (t : text) (m : smap) :
  lines_ok t = true ->
  reassembles (fst (sm_stream_full t m)) t = true.
Proof.
  intros Hok. apply reassembles_iff.
  destruct (is_nil (split_lines t)) eqn:Hnil.
  - unfold sm_stream_full. rewrite Hnil. cbn [fst].
    apply is_nil_true in Hnil. rewrite (split_lines_nil t Hnil). apply Reass_nil.
  - destruct (lines_end_info (split_lines t)) as [fl fc] eqn:Hinfo.
    destruct (sm_full_tiles_any t m (fun _ _ => True) fl fc Hnil Hinfo (lines_ok_forall t Hok))
      as [evs [q [E [Ht Hq]]]].
    { apply Forall_forall. intros; exact I. }
    { exact I. }
    rewrite E. apply Reass_nochunk_app; [apply announce_sources_chunks|].
    apply Reass_nochunk_app; [apply announce_names_chunks|].
    apply tiles_reass in Ht. destruct Ht as [x [Hx Hp]].
    rewrite prefix_start in Hp. cbn [app] in Hp. rewrite <- Hq, Hp. exact Hx.
Qed.

Corollary sm_stream_full_reassembles_any_utf8 (t : text) (m : smap) :
  valid_utf8 t = true ->
  reassembles (fst (sm_stream_full t m)) t = true.
Proof. intros H. apply sm_stream_full_reassembles_any. apply valid_utf8_lines_ok. exact H. Qed.

(* the reported positions, on ASCII text, for every map whose segments lie on the text (in any
   order): sortedness is not needed either *)
Theorem sm_stream_full_positioned_any (t : text) (m : smap) :
  ascii t = true ->
  segs_ok t (decode_mappings (sm_mappings m)) = true ->
  well_positioned (chunks_of (fst (sm_stream_full t m))) 1 0 = true.
Proof.
  intros Ha Hseg.
  destruct (is_nil (split_lines t)) eqn:Hnil.
  - unfold sm_stream_full. rewrite Hnil. reflexivity.
  - destruct (lines_end_info (split_lines t)) as [fl fc] eqn:Hinfo.
    pose proof (end_info_ok _ fl fc (is_nil_false _ Hnil) Hinfo) as [_ HVe].
    destruct (sm_full_tiles_any t m (Vb (split_lines t)) fl fc Hnil Hinfo
                (lines_ok_forall t (ascii_lines_ok t Ha)) (segs_ok_forall t _ Hseg) HVe)
      as [evs [q [E [Ht Hq]]]].
    rewrite E. change (WP (announce_sources m (sm_sources m) 0 ++ announce_names (sm_names m) 0 ++ evs) (1, 0)).
    apply WP_nochunk_app; [apply announce_sources_chunks|].
    apply WP_nochunk_app; [apply announce_names_chunks|].
    pose proof (tiles_wp (split_lines t) (Vb (split_lines t))
                  (HG_lines _ (split_lines_shape t))
                  (HV_ascii _ (split_lines_shape t) (ascii_lines t Ha)) evs (1, 0) q Ht) as Hw.
    rewrite prefix_start in Hw. apply Hw. intros _. reflexivity.
Qed.

(* ------------------------------------------------------------------ *)
(* wild maps, computed                                                  *)
(* ------------------------------------------------------------------ *)
(* "é\nab\nç" (multi-byte, three lines, no final line break) with mappings
   "KAAA,DAAA,U;CAAA,DAAA;;EAAA;AAAA,AAAA;;;;A" = segments (1,5) (1,4) (1,14) (2,1) (2,0)
   (4,2) (5,0) (5,0) (9,0): beyond the end of line 1, backwards, far beyond, backwards inside
   line 2, no segment on line 3, a duplicate and segments beyond the last line *)
Example any_wild_1 :
  let t := [195; 169; 10; 97; 98; 10; 195; 167] in
  let m := mkSmap None [75;65;65;65;44;68;65;65;65;44;85;59;67;65;65;65;44;68;65;65;65;59;59;69;65;65;65;59;65;65;65;65;44;65;65;65;65;59;59;59;59;65]
             [[120]] [] [] None None in
  (valid_utf8 t, sorted_by pos_le (decode_mappings (sm_mappings m)),
   map (fun x => (g_line x, g_col x)) (decode_mappings (sm_mappings m)),
   chunk_texts (fst (sm_stream_full t m)),
   reassembles (fst (sm_stream_full t m)) t)
  = (true, false,
     [(1, 5); (1, 4); (1, 14); (2, 1); (2, 0); (4, 2); (5, 0); (5, 0); (9, 0)],
     [Some [195; 169; 10]; Some [97]; Some [98; 10]; Some [195; 167]], true).
Proof. vm_compute. reflexivity. Qed.

Print Assumptions sm_stream_full_reassembles_any.
Print Assumptions sm_stream_full_reassembles_any_utf8.
Print Assumptions sm_stream_full_positioned_any.
