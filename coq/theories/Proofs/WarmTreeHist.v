(* C10 for caches nested inside trees, part 6 (W3): histories.
   Every answer of every history of observer calls on a tree of the class - from the empty
   store, from any sound store, and after any warm-up history of calls on inner CachedSource
   nodes - is `answer_equiv` to the answer of the freshly built cache-free tree `uncache s`;
   hence also to the answer of the freshly built tree itself (thist form, C14 repeatability) and,
   for a root CachedSource, of the freshly built wrapped tree (chist form, C10), and the
   extracted checker `chk_hist` accepts. *)
From RS Require Import Base.Prelude Base.Text Rope.RopeModel Codec.Vlq Codec.CodecSpec
  Checkers.ChkCodec Stream.Types Stream.Leaves Stream.Concat Stream.Replace Stream.Combined Stream.Tree
  Api.ApiTree Sem.Attr Sem.HashEq Api.ApiHist Checkers.ChkTree Checkers.ChkHist
  Proofs.StreamText Proofs.StreamLeaves Proofs.StreamConcat Proofs.StreamTree Proofs.RStreamTree
  Proofs.AttrCodec Proofs.LawWrappers
  Proofs.CacheStore Proofs.CacheReplay Proofs.FinalConcat Proofs.FinalCache
  Proofs.ColdCache Proofs.ColdCacheTree Proofs.ColdCacheRoot Proofs.BoundsPos
  Proofs.WarmTreeDefs Proofs.WarmTreeNodes Proofs.WarmTreeMain.
Require Import Lia List.

Local Open Scope N_scope.

(* ------------------------------------------------------------------ *)
(* the cache-free tree has no cache ids                                 *)
(* ------------------------------------------------------------------ *)
Lemma nocache_ids : forall s, has_cached s = false -> ids s = [].
Proof.
  apply (src_ind' (fun s => has_cached s = false -> ids s = [])); cbn [has_cached ids]; try reflexivity.
  - intros cs IH H. induction IH as [|c cs Hc _ IHl]; [reflexivity|].
    cbn [existsb] in H. apply orb_false_iff in H. destruct H as [H1 H2].
    cbn [flat_map]. rewrite (Hc H1), (IHl H2). reflexivity.
  - intros i rs IH H. apply IH. exact H.
  - intros k i _ H. discriminate.
Qed.

Lemma uncache_distinct s : ids_distinct (uncache s).
Proof. unfold ids_distinct. rewrite (nocache_ids _ (uncache_nocache s)). constructor. Qed.

Lemma Forall2_same {A} (R : A -> A -> Prop) : (forall x, R x x) -> forall l, Forall2 R l l.
Proof. intros H. induction l; constructor; auto. Qed.

(* ------------------------------------------------------------------ *)
(* one observer call                                                    *)
(* ------------------------------------------------------------------ *)
Section Hist.
Variable s : src.
Hypothesis Hd : ids_distinct s.
Hypothesis Hcl : cls s.

Let W := warm_all s Hd s (incl_refl _) Hcl.
Let WR := warm_all (uncache s) (uncache_distinct s) (uncache s) (incl_refl _) (cls_uncache s Hcl).

Lemma ref_stream_text c :
  let r := stream [] (uncache s) (mkOpts c false) in
  reassembles (fst (fst r)) (source s) = true /\ snd (fst r) = advance 1 0 (source s) /\
  attr_of_stream (fst (fst r)) c = refA s c.
Proof.
  cbn zeta. destruct (ref_TG c s Hcl) as [_ [Hr [_ [_ [_ [Hi [Ha _]]]]]]].
  split; [apply reassembles_iff; exact Hr|]. split; [exact Hi|exact Ha].
Qed.

Lemma ref_stream_final c :
  let r := stream [] (uncache s) (mkOpts c true) in
  snd (fst r) = advance 1 0 (source s) /\
  attr_of_final_events (fst (fst r)) (source s) c = refA s c.
Proof.
  cbn zeta. destruct WR as [_ [B _]]. destruct (B [] c (sound_empty _)) as [T _].
  destruct T as [[_ [_ [Hi _]]] [_ [Ha _]]]. unfold tr_info, tr_text in Hi. cbn [fst snd] in Hi.
  rewrite uncache_source in Hi, Ha. rewrite refA_uncache in Ha. split; assumption.
Qed.

Lemma ref_map c : attr_of_map (fst (map_of [] (uncache s) c)) (source s) c = refA s c.
Proof.
  destruct WR as [_ [_ M]]. destruct (M [] c (sound_empty _)) as [[E _] _].
  rewrite uncache_source, refA_uncache in E. exact E.
Qed.

Theorem hop_warm (st : store) (op : hop) : Sound st s ->
  answer_equiv (source s) op (fst (run_hop st s op)) (fst (run_hop [] (uncache s) op)) = true /\
  Sound (snd (run_hop st s op)) s.
Proof.
  intros Hs. destruct op as [| | | |c|c f| |]; cbn [run_hop fst snd].
  - rewrite uncache_source. split; [apply text_eqb_refl|exact Hs].
  - rewrite uncache_buffer. split; [apply text_eqb_refl|exact Hs].
  - rewrite uncache_size. split; [apply N.eqb_refl|exact Hs].
  - rewrite uncache_rope. split; [apply opt_text_eqb_refl|exact Hs].
  - (* map() *)
    destruct W as [_ [_ M]]. destruct (M st c Hs) as [[E _] S]. pose proof (ref_map c) as R.
    destruct (map_of st s c) as [m st']. destruct (map_of [] (uncache s) c) as [m0 st0]. cbn [fst snd] in *.
    split; [|exact S]. cbn [answer_equiv]. apply attr_list_ok. rewrite E, R. reflexivity.
  - destruct f.
    + (* text-less stream *)
      destruct W as [_ [B _]]. destruct (B st c Hs) as [T S]. pose proof (ref_stream_final c) as R. cbn zeta in R.
      destruct (stream st s (mkOpts c true)) as [[evs gi] st'].
      destruct (stream [] (uncache s) (mkOpts c true)) as [[evs0 gi0] st0]. cbn [fst snd] in *.
      split; [|exact S]. destruct T as [[_ [_ [Hi _]]] [_ [Ha _]]]. unfold tr_info, tr_text in Hi. cbn [fst snd] in Hi, Ha.
      destruct R as [R1 R2]. cbn [answer_equiv]. rewrite Hi, R1, gi_eqb_refl. cbn [andb].
      apply attr_list_ok. rewrite Ha, R2. reflexivity.
    + (* text-carrying stream *)
      destruct W as [A _]. destruct (A st c Hs) as [T S]. pose proof (ref_stream_text c) as R. cbn zeta in R.
      destruct (stream st s (mkOpts c false)) as [[evs gi] st'].
      destruct (stream [] (uncache s) (mkOpts c false)) as [[evs0 gi0] st0]. cbn [fst snd] in *.
      split; [|exact S]. destruct T as [_ [Hr [_ [_ [_ [Hi [Ha _]]]]]]]. cbn [fst snd] in Hr, Hi, Ha.
      destruct R as [R0 [R1 R2]]. cbn [answer_equiv]. rewrite Hi, R1, gi_eqb_refl. cbn [andb].
      apply reassembles_iff in Hr. rewrite Hr, R0. cbn [andb].
      apply attr_list_ok. rewrite Ha, R2. reflexivity.
  - split; [reflexivity|exact Hs].
  - split; [reflexivity|exact Hs].
Qed.

(* ------------------------------------------------------------------ *)
(* every history, from any sound store                                  *)
(* ------------------------------------------------------------------ *)
Theorem history_warm_from : forall (ops : list hop) (st : store) (i : N), Sound st s ->
  answers_equiv (source s) ops (fst (run_hops st s ops)) (fresh_answers (uncache s) ops) i = 0 /\
  Sound (snd (run_hops st s ops)) s.
Proof.
  induction ops as [|op ops IH]; intros st i Hs; [split; [reflexivity|exact Hs]|].
  cbn [run_hops fresh_answers map]. destruct (hop_warm st op Hs) as [He Hs1].
  destruct (run_hop st s op) as [x st1]. cbn [fst snd] in He, Hs1.
  destruct (IH st1 (i + 1) Hs1) as [IH1 IH2].
  destruct (run_hops st1 s ops) as [as_ st2]. cbn [fst snd] in *.
  cbn [answers_equiv]. rewrite He. split; [exact IH1|exact IH2].
Qed.

(* W3: from the empty store *)
Theorem history_warm (ops : list hop) :
  answers_equiv (source s) ops (fst (run_hops [] s ops)) (fresh_answers (uncache s) ops) 0 = 0.
Proof. apply (history_warm_from ops [] 0 (sound_empty s)). Qed.

(* ------------------------------------------------------------------ *)
(* warm-up histories on inner CachedSource nodes                        *)
(* ------------------------------------------------------------------ *)
Lemma find_cached_sub : forall t id node, find_cached t id = Some node ->
  incl (nodes node) (nodes t) /\ (cls t -> cls node).
Proof.
  apply (src_ind' (fun t => forall id node, find_cached t id = Some node ->
                            incl (nodes node) (nodes t) /\ (cls t -> cls node))); try (intros; discriminate).
  - intros cs IH id node H. cbn [find_cached] in H.
    assert (G : exists c, In c cs /\ find_cached c id = Some node).
    { revert H. clear IH. induction cs as [|c cs IHc]; intros H; [discriminate|].
      destruct (find_cached c id) as [x|] eqn:E.
      - inversion H. subst x. exists c. split; [left; reflexivity|exact E].
      - destruct (IHc H) as [c' [Hc' E']]. exists c'. split; [right; exact Hc'|exact E']. }
    destruct G as [c [Hc E]]. rewrite Forall_forall in IH. destruct (IH c Hc id node E) as [A B]. split.
    + intros x Hx. apply (nodes_child cs c Hc). apply A. exact Hx.
    + intros Hcls. apply B. apply (cls_concat cs c Hcls Hc).
  - intros i rs IH id node H. cbn [find_cached] in H. destruct (IH id node H) as [A B]. split.
    + exact A.
    + intros Hcls. apply B. apply (cls_replace i rs Hcls).
  - intros k i IH id node H. cbn [find_cached] in H. destruct (k =? id).
    + inversion H. subst node. split; [apply incl_refl|exact (fun X => X)].
    + destruct (IH id node H) as [A B]. split.
      * intros x Hx. cbn [nodes]. right. apply A. exact Hx.
      * intros Hcls. apply B. apply (cls_cached k i Hcls).
Qed.

Lemma wop_sound (st : store) (node : src) (w : wop) :
  incl (nodes node) (nodes s) -> cls node -> Sound st s -> Sound (run_wop st node w) s.
Proof.
  intros Hin Hn Hs. destruct (warm_all s Hd node Hin Hn) as [A [B M]].
  destruct w as [c|c f]; cbn [run_wop].
  - apply (M st c Hs).
  - destruct f; [apply (B st c Hs)|apply (A st c Hs)].
Qed.

Theorem warm_sound : forall (ws : list (N * wop)) (st : store), Sound st s -> Sound (run_warm st s ws) s.
Proof.
  induction ws as [|[id w] ws IH]; intros st Hs; [exact Hs|].
  cbn [run_warm]. destruct (find_cached s id) as [node|] eqn:E; [|apply IH; exact Hs].
  destruct (find_cached_sub s id node E) as [A B]. apply IH. apply wop_sound; [exact A|apply B; exact Hcl|exact Hs].
Qed.

(* W3: after any warm-up *)
Theorem history_warm_after (ws : list (N * wop)) (ops : list hop) :
  answers_equiv (source s) ops (fst (run_hops (run_warm [] s ws) s ops)) (fresh_answers (uncache s) ops) 0 = 0.
Proof. apply (history_warm_from ops _ 0 (warm_sound ws [] (sound_empty s))). Qed.

(* the reference "the freshly built tree itself" (api_thist; the repeatability clause of C14) *)
Corollary history_warm_self (ws : list (N * wop)) (ops : list hop) :
  answers_equiv (source s) ops (fst (run_hops (run_warm [] s ws) s ops)) (fresh_answers s ops) 0 = 0.
Proof.
  rewrite (answers_equiv_same (source s) ops _ _ _ _ 0
             (Forall2_same ans_same ans_same_refl _) (fresh_answers_uncache s ops Hd)).
  apply history_warm_after.
Qed.

End Hist.

(* ------------------------------------------------------------------ *)
(* the statements with the hypotheses spelled out                       *)
(* ------------------------------------------------------------------ *)
Theorem warm_history_transparent (s : src) (ws : list (N * wop)) (ops : list hop) :
  ids_distinct s -> k2_shape s = false -> rshape (uncache s) = true -> treeA s = true ->
  rsmall (uncache s) = true -> tiny (uncache s) = true ->
  answers_equiv (source s) ops (fst (run_hops (run_warm [] s ws) s ops)) (fresh_answers (uncache s) ops) 0 = 0.
Proof. intros H1 H2 H3 H4 H5 H6. apply history_warm_after; [exact H1|repeat split; assumption]. Qed.

(* C10, checker form: the root is a CachedSource, the reference the freshly built wrapped tree *)
Theorem warm_chist_transparent (id : N) (a : src) (ops : list hop) :
  ids_distinct (SCached id a) -> k2_shape a = false -> rshape (uncache a) = true -> treeA a = true ->
  rsmall (uncache a) = true -> tiny (uncache a) = true ->
  let '(ans, ref) := api_chist (SCached id a) ops in
  answers_equiv (source (SCached id a)) ops ans ref 0 = 0.
Proof.
  intros H1 H2 H3 H4 H5 H6. cbn [api_chist].
  assert (Hcl : cls (SCached id a)) by (repeat split; assumption).
  assert (Hda : ids_distinct a) by (unfold ids_distinct in *; cbn [ids] in H1; inversion H1; assumption).
  rewrite (answers_equiv_same (source (SCached id a)) ops _ _ _ _ 0
             (Forall2_same ans_same ans_same_refl _) (fresh_answers_uncache a ops Hda)).
  apply (history_warm (SCached id a) H1 Hcl ops).
Qed.

Theorem chk_hist_warm_chist (id : N) (a : src) (ops : list hop) :
  ids_distinct (SCached id a) -> k2_shape a = false -> rshape (uncache a) = true -> treeA a = true ->
  rsmall (uncache a) = true -> tiny (uncache a) = true ->
  chk_hist (SCached id a) ops (fst (api_chist (SCached id a) ops)) (snd (api_chist (SCached id a) ops)) = 0.
Proof.
  intros H1 H2 H3 H4 H5 H6. pose proof (warm_chist_transparent id a ops H1 H2 H3 H4 H5 H6) as E.
  unfold chk_hist. replace (treeA (SCached id a)) with (treeA a) by reflexivity. rewrite H4. cbn [negb].
  destruct (api_chist (SCached id a) ops) as [ans ref] eqn:Ea. cbn [fst snd]. rewrite E.
  cbn [api_chist] in Ea. inversion Ea. subst ans.
  rewrite (all_equal_const _ _ (hashes_const (SCached id a) ops [])). reflexivity.
Qed.

(* C14 repeatability form: the object itself, fresh for each call *)
Theorem chk_hist_warm_thist (s : src) (ops : list hop) :
  ids_distinct s -> k2_shape s = false -> rshape (uncache s) = true -> treeA s = true ->
  rsmall (uncache s) = true -> tiny (uncache s) = true ->
  chk_hist s ops (fst (api_thist s ops)) (snd (api_thist s ops)) = 0.
Proof.
  intros H1 H2 H3 H4 H5 H6. assert (Hcl : cls s) by (repeat split; assumption).
  pose proof (history_warm_self s H1 Hcl [] ops) as E. cbn [run_warm] in E.
  unfold chk_hist, api_thist. rewrite H4. cbn [negb fst snd]. rewrite E.
  rewrite (all_equal_const _ _ (hashes_const s ops [])). reflexivity.
Qed.

(* `rsmall` follows from `tiny`: the class from the input-side hypotheses alone *)
Lemma tiny_cls (s : src) :
  k2_shape s = false -> rshape (uncache s) = true -> treeA s = true -> tiny (uncache s) = true -> cls s.
Proof.
  intros H1 H2 H3 H4. split; [exact H1|]. split; [exact H2|]. split; [exact H3|]. split; [|exact H4].
  apply tiny_rsmall; [apply treeA_uncache; exact H3|exact H4].
Qed.

(* ------------------------------------------------------------------ *)
(* tests: the statements are not vacuous; the hypotheses are needed      *)
(* ------------------------------------------------------------------ *)
(* the bundler's shape: Concat[Cached(..), Cached(Concat[Cached(..), .., Replace(Cached(..),[])]), Cached(SourceMapSource), ..] *)
Definition w_o1 := SOriginal [97; 98; 10; 99; 59; 100] [102].
Definition w_o2 := SOriginal [123; 10; 10; 120; 121] [103].
Definition w_o3 := SOriginal [122; 59; 10] [104].
Definition w_sm := SMapped [97; 98] [109] (mkSmap None [67; 65; 65; 65] [[115; 49]] [] [] None None) None None false.
Definition w_tree := SConcat [SCached 1 w_o1;
                              SCached 2 (SConcat [SCached 3 w_o2; SRaw false [65; 10; 66]; SReplace (SCached 5 w_o3) []]);
                              SCached 4 w_sm; w_o3].
Definition w_ops := [OStream true false; OStream false false; OStream true true; OStream false true; OMap true; OMap false].
(* calls on inner nodes, in different option sets on different nodes *)
Definition w_warm := [(3, WStream true false); (2, WMap false); (1, WStream false true); (5, WMap true);
                      (2, WStream true true); (4, WMap true); (4, WStream false false); (3, WMap false);
                      (5, WStream false false)].

Example w_tree_hyps :
  (ids_distinctb w_tree, k2_shape w_tree, rshape (uncache w_tree), treeA w_tree, rsmall (uncache w_tree),
   tiny (uncache w_tree)) = (true, false, true, true, true, true).
Proof. vm_compute. reflexivity. Qed.

(* an instance of the theorem, and the same recomputed *)
Example w_tree_instance :
  answers_equiv (source w_tree) (w_ops ++ w_ops) (fst (run_hops (run_warm [] w_tree w_warm) w_tree (w_ops ++ w_ops)))
                (fresh_answers (uncache w_tree) (w_ops ++ w_ops)) 0 = 0.
Proof.
  apply warm_history_transparent; try (vm_compute; reflexivity).
  apply ids_distinctb_spec. vm_compute. reflexivity.
Qed.

Example w_tree_recomputed :
  answers_equiv (source w_tree) (w_ops ++ w_ops) (fst (run_hops (run_warm [] w_tree w_warm) w_tree (w_ops ++ w_ops)))
                (fresh_answers (uncache w_tree) (w_ops ++ w_ops)) 0 = 0.
Proof. vm_compute. reflexivity. Qed.

(* `k2_shape s = false` cannot be dropped: ColdCacheRoot.cached_root_two_keys_counterexample
   (a ReplaceSource with replacements above a warm CachedSource; known finding K2).
   `ids_distinct s` cannot be dropped: ColdCache.repeated_sibling_counterexample and *)
Example shared_id_counterexample :
  let s := SConcat [SCached 1 (SOriginal [97; 10] [102]); SCached 1 (SOriginal [98; 98; 98] [103])] in
  (ids_distinctb s, k2_shape s, rshape (uncache s), treeA s, tiny (uncache s)) = (false, false, true, true, true) /\
  answers_equiv (source s) [OStream true false] (fst (run_hops [] s [OStream true false]))
                (fresh_answers (uncache s) [OStream true false]) 0 = 1.
Proof. vm_compute. split; reflexivity. Qed.

Print Assumptions hop_warm.
Print Assumptions history_warm.
Print Assumptions history_warm_after.
Print Assumptions warm_history_transparent.
Print Assumptions warm_chist_transparent.
Print Assumptions chk_hist_warm_chist.
Print Assumptions chk_hist_warm_thist.
