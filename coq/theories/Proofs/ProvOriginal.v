(* Z2, Z3, Z4: property C04 for a single OriginalSource.  The source map of
   OriginalSource(v, n) agrees with the independent provenance semantics Sem/Prov.v:
   columns = true   (a) every mapped segment starts on a byte tagged with exactly its original
                        file / line / column, (b) every byte resolves to its own file and line
                        and to a column <= its own, exactly its own on statement starts;
   columns = false  (f) every output line is attributed to file n and its own line;
   and the checker chk_C04 accepts the model's own observations. *)
From RS Require Import Base.Prelude Base.Text Rope.RopeModel Codec.Vlq Codec.CodecSpec
  Checkers.ChkCodec Stream.Types Stream.Leaves Stream.Replace Stream.Tree Api.ApiTree
  Sem.Attr Sem.Prov Checkers.ChkTree Checkers.ChkProv
  Proofs.CodecKept Proofs.CodecEnc Proofs.CodecMain Proofs.StreamText Proofs.StreamLeaves Proofs.StreamMap
  Proofs.AttrCodec Proofs.AttrSms Proofs.AttrLeaves Proofs.ProvTokens.
Require Import Lia List.

Local Open Scope N_scope.

(* ------------------------------------------------------------------ *)
(* the tagged bytes of an OriginalSource, as one list                   *)
(* ------------------------------------------------------------------ *)
Fixpoint otg (n : text) (t : text) (marks : list bool) (l c : N) (s : bool) : list (N * N * ptag) :=
  match t, marks with
  | b :: t', m :: marks' =>
    if b =? NL then (l, c, POrig n l c false s) :: otg n t' marks' (l + 1) 0 true
    else (l, c, POrig n l c m false) :: otg n t' marks' l (c + 1) false
  | _, _ => []
  end.

Lemma tagged_orig n t : forall marks l c s,
  tagged t (orig_tags n t marks l c s) l c = otg n t marks l c s.
Proof.
  induction t as [|b t IH]; intros marks l c s; [reflexivity|].
  destruct marks as [|m marks]; [reflexivity|].
  cbn [orig_tags otg]. destruct (b =? NL) eqn:E; cbn [tagged]; rewrite E, IH; reflexivity.
Qed.

Lemma otg_tags n t : forall marks l c s,
  map snd (otg n t marks l c s) = orig_tags n t marks l c s.
Proof.
  induction t as [|b t IH]; intros marks l c s; [reflexivity|].
  destruct marks as [|m marks]; [reflexivity|].
  cbn [orig_tags otg]. destruct (b =? NL); cbn [map snd]; rewrite IH; reflexivity.
Qed.

Lemma otg_length n t : forall marks l c s, length marks = length t ->
  length (otg n t marks l c s) = length t.
Proof.
  induction t as [|b t IH]; intros marks l c s H; [reflexivity|].
  destruct marks as [|m marks]; [discriminate|]. cbn [length] in H.
  cbn [otg]. destruct (b =? NL); cbn [length]; rewrite IH by lia; reflexivity.
Qed.

(* the `line_start` flag after a text *)
Fixpoint ls_after (a : text) (s : bool) : bool :=
  match a with
  | [] => s
  | b :: a' => ls_after a' (b =? NL)
  end.

Lemma otg_app n a : forall ma b mb l c s, length ma = length a ->
  otg n (a ++ b) (ma ++ mb) l c s =
  otg n a ma l c s ++ otg n b mb (fst (advance l c a)) (snd (advance l c a)) (ls_after a s).
Proof.
  induction a as [|x a IH]; intros ma b mb l c s H.
  - destruct ma; [reflexivity|discriminate].
  - destruct ma as [|m ma]; [discriminate|]. cbn [length] in H.
    cbn [app otg advance ls_after]. destruct (x =? NL); rewrite IH by lia; reflexivity.
Qed.

Lemma ends_with_nl_cons2 b c r : ends_with_nl (b :: c :: r) = ends_with_nl (c :: r).
Proof.
  unfold ends_with_nl. change (b :: c :: r) with ([b] ++ c :: r). rewrite last_byte_app.
  destruct (last_byte (c :: r)) eqn:E; [reflexivity|]. apply last_byte_none in E. discriminate.
Qed.

Lemma ls_after_ends a : forall s, a <> [] -> ls_after a s = ends_with_nl a.
Proof.
  induction a as [|b a IH]; intros s H; [contradiction|].
  destruct a as [|c r]; [reflexivity|].
  cbn [ls_after]. rewrite ends_with_nl_cons2. apply (IH (c =? NL)). discriminate.
Qed.

(* every entry carries its own position, file n *)
Lemma otg_self n t : forall marks l c s x, In x (otg n t marks l c s) ->
  exists l' c' st e, x = (l', c', POrig n l' c' st e).
Proof.
  induction t as [|b t IH]; intros marks l c s x H; [contradiction|].
  destruct marks as [|m marks]; [contradiction|]. cbn [otg] in H.
  destruct (b =? NL); destruct H as [H|H]; try (eapply IH; exact H);
    subst x; do 4 eexists; reflexivity.
Qed.

Lemma tag_at_in tg l c g : In (l, c, g) tg ->
  exists g', tag_at tg l c = Some g' /\ In (l, c, g') tg.
Proof.
  induction tg as [|[[l' c'] g0] tg IH]; intros H; [contradiction|].
  cbn [tag_at]. destruct ((l' =? l) && (c' =? c)) eqn:E.
  - apply andb_true_iff in E. destruct E as [E1 E2]. apply N.eqb_eq in E1. apply N.eqb_eq in E2. subst.
    exists g0. split; [reflexivity|left; reflexivity].
  - destruct H as [H|H].
    + inversion H. subst. rewrite !N.eqb_refl in E. discriminate.
    + destruct (IH H) as [g' [H1 H2]]. exists g'. split; [exact H1|right; exact H2].
Qed.

Lemma otg_tag_at n t marks l0 c0 s l c g : In (l, c, g) (otg n t marks l0 c0 s) ->
  exists st e, tag_at (otg n t marks l0 c0 s) l c = Some (POrig n l c st e).
Proof.
  intros H. destruct (tag_at_in _ l c g H) as [g' [H1 H2]].
  destruct (otg_self n t marks l0 c0 s _ H2) as (l' & c' & st & e & E).
  inversion E. subst. exists st, e. exact H1.
Qed.

(* ------------------------------------------------------------------ *)
(* byte_ok through the attribution list                                 *)
(* ------------------------------------------------------------------ *)
Definition byte_ok_a (a : attr) (g : ptag) : bool :=
  match g with
  | PRaw => match a with None => true | Some _ => false end
  | PRepl => true
  | POrig f ol oc stmt empty_break =>
    if empty_break then true
    else match a with
         | Some loc =>
           text_eqb f (l_file loc) && (ol =? l_line loc)
           && (if stmt then oc =? l_col loc else l_col loc <=? oc)
         | None => false
         end
  end.

Fixpoint all2 (xs : list attr) (gs : list ptag) : bool :=
  match xs, gs with
  | a :: xs', g :: gs' => byte_ok_a a g && all2 xs' gs'
  | _, _ => true
  end.

Lemma byte_ok_all2 segs t : forall tags l c,
  forallb (byte_ok segs) (tagged t tags l c) = all2 (attr_by_pos segs true t l c) tags.
Proof.
  induction t as [|b t IH]; intros tags l c; [reflexivity|].
  destruct tags as [|g tags]; [reflexivity|].
  cbn [tagged forallb attr_by_pos all2].
  assert (E : byte_ok segs (l, c, g) = byte_ok_a (seg_lookup segs l c None) g) by reflexivity.
  rewrite E. destruct (b =? NL); rewrite IH; reflexivity.
Qed.

Lemma all2_app a1 : forall g1 a2 g2, length a1 = length g1 ->
  all2 (a1 ++ a2) (g1 ++ g2) = all2 a1 g1 && all2 a2 g2.
Proof.
  induction a1 as [|a a1 IH]; intros g1 a2 g2 H.
  - destruct g1; [reflexivity|discriminate].
  - destruct g1 as [|g g1]; [discriminate|]. cbn [length] in H. cbn [app all2].
    rewrite IH by lia. apply andb_assoc.
Qed.

Lemma attr_by_pos_nil cols t : forall l c, attr_by_pos [] cols t l c = map (fun _ => None) t.
Proof.
  induction t as [|b t IH]; intros l c; [reflexivity|]. cbn [attr_by_pos map].
  destruct cols; cbn [seg_lookup seg_first_mapped]; (f_equal; destruct (b =? NL); apply IH).
Qed.

(* ------------------------------------------------------------------ *)
(* one token                                                            *)
(* ------------------------------------------------------------------ *)
Lemma not_lone_shape tk : piece_shape tk -> lone tk = false ->
  exists c0 b' tl, tk = c0 :: b' ++ tl /\ c0 <> 10 /\ no_nl b' /\ (tl = [] \/ tl = [10]).
Proof.
  intros [body [Hb Hp]] Hl. destruct body as [|c0 b'].
  - destruct Hp as [->|[_ H]]; [discriminate|contradiction].
  - inversion Hb as [|? ? Hc0 Hb']. subst.
    exists c0, b'. destruct Hp as [->|[-> _]].
    + exists [10]. repeat split; auto.
    + exists []. rewrite app_nil_r. repeat split; auto.
Qed.

Lemma otg_tail n line col b' : no_nl b' -> forall tl col', (tl = [] \/ tl = [10]) -> col <= col' ->
  all2 (map (fun _ => Some (mkLoc n line col None)) (b' ++ tl))
       (map snd (otg n (b' ++ tl) (map (fun _ => false) (b' ++ tl)) line col' false)) = true.
Proof.
  induction 1 as [|x b' Hx Hb IH]; intros tl col' Htl Hc.
  - destruct Htl as [->| ->]; [reflexivity|].
    cbn [app map otg]. change (10 =? NL) with true. cbn [map snd all2 byte_ok_a l_file l_line l_col].
    rewrite text_eqb_refl, N.eqb_refl. replace (col <=? col') with true by (symmetry; apply N.leb_le; lia).
    reflexivity.
  - cbn [app map otg]. replace (x =? NL) with false by (symmetry; apply N.eqb_neq; exact Hx).
    cbn [map snd all2 byte_ok_a l_file l_line l_col].
    rewrite text_eqb_refl, N.eqb_refl. replace (col <=? col') with true by (symmetry; apply N.leb_le; lia).
    cbn [andb]. apply IH; [exact Htl|lia].
Qed.

Lemma otg_token n tk line col s : piece_shape tk -> lone tk = false ->
  (exists rest, otg n tk (tok_marks tk) line col s = (line, col, POrig n line col true false) :: rest) /\
  all2 (map (fun _ => Some (mkLoc n line col None)) tk) (map snd (otg n tk (tok_marks tk) line col s)) = true.
Proof.
  intros Hp Hl. destruct (not_lone_shape tk Hp Hl) as (c0 & b' & tl & -> & Hc0 & Hb & Htl).
  assert (E0 : (c0 =? NL) = false) by (apply N.eqb_neq; exact Hc0).
  cbn [tok_marks otg]. rewrite E0. cbn [andb negb]. split; [eexists; reflexivity|].
  cbn [map snd all2 byte_ok_a l_file l_line l_col]. rewrite text_eqb_refl, !N.eqb_refl. cbn [andb].
  apply otg_tail; [exact Hb|exact Htl|lia].
Qed.

Lemma nxt_col_zero tk col : tk <> [] -> (nxt_col tk col =? 0) = ends_with_nl tk.
Proof.
  intros H. unfold nxt_col. destruct (ends_with_nl tk); [reflexivity|].
  apply N.eqb_neq. destruct tk; [contradiction|]. rewrite slen_cons. lia.
Qed.

Lemma tok_marks_len tk : length (tok_marks tk) = length tk.
Proof. apply tok_marks_length. Qed.

(* the tagged list of a token list, one token at a time *)
Lemma otg_tokens_cons n tk toks line col : piece_shape tk ->
  otg n (concat (tk :: toks)) (token_starts (tk :: toks)) line col (col =? 0) =
  otg n tk (tok_marks tk) line col (col =? 0)
  ++ otg n (concat toks) (token_starts toks) (nxt_line tk line) (nxt_col tk col) (nxt_col tk col =? 0).
Proof.
  intros Hp. cbn [concat]. rewrite token_starts_cons, otg_app by apply tok_marks_len.
  rewrite (nxt_advance tk line col Hp). cbn [fst snd].
  pose proof (piece_nonempty tk Hp) as Hne.
  rewrite (ls_after_ends tk _ Hne), (nxt_col_zero tk col Hne). reflexivity.
Qed.

(* ------------------------------------------------------------------ *)
(* all tokens: clause (b) on the chunk stream, clause (a) on its mappings *)
(* ------------------------------------------------------------------ *)
Lemma snth_one (n : text) : nth_opt [n] 0 = Some n.
Proof. reflexivity. Qed.

Lemma tokens_all2 n toks : forall line col,
  Forall piece_shape toks -> tok_ok (col =? 0) toks ->
  all2 (attr_cover (rsegs_of_events (fst (original_tokens toks false line col)) [n] []))
       (map snd (otg n (concat toks) (token_starts toks) line col (col =? 0))) = true.
Proof.
  induction toks as [|tk toks IH]; intros line col Hp Hok; [reflexivity|].
  inversion Hp as [|x0 l0 Htk Hp']; subst x0 l0. destruct Hok as [Hlone Hok'].
  pose proof (piece_nonempty tk Htk) as Hne.
  rewrite (otg_tokens_cons n tk toks line col Htk), map_app, original_tokens_cons.
  specialize (IH (nxt_line tk line) (nxt_col tk col) Hp').
  rewrite (nxt_col_zero tk col Hne) in IH. specialize (IH Hok').
  rewrite <- (nxt_col_zero tk col Hne) in IH.
  destruct (lone tk) eqn:El.
  - pose proof (lone_eq tk El) as Etk. specialize (Hlone Etk). subst tk.
    cbn [app rsegs_of_events unmapped g_line g_col m_orig attr_cover].
    rewrite all2_app by reflexivity. rewrite IH, andb_true_r.
    rewrite Hlone. reflexivity.
  - cbn [app rsegs_of_events orig_at g_line g_col m_orig o_src o_line o_col o_name attr_cover].
    rewrite snth_one. rewrite all2_app.
    + rewrite IH, andb_true_r. apply (otg_token n tk line col (col =? 0) Htk El).
    + rewrite !map_length, otg_length by apply tok_marks_len. reflexivity.
Qed.

Lemma tokens_segs n toks : forall line col,
  Forall piece_shape toks ->
  forall m, In m (chunk_mappings (fst (original_tokens toks true line col))) ->
  exists l c g, m = orig_at l c /\
    In (l, c, g) (otg n (concat toks) (token_starts toks) line col (col =? 0)).
Proof.
  induction toks as [|tk toks IH]; intros line col Hp m Hin; [contradiction|].
  inversion Hp as [|x0 l0 Htk Hp']; subst x0 l0.
  rewrite (otg_tokens_cons n tk toks line col Htk). rewrite original_tokens_cons in Hin.
  assert (Hrest : In m (chunk_mappings (fst (original_tokens toks true (nxt_line tk line) (nxt_col tk col)))) ->
          exists l c g, m = orig_at l c /\
            In (l, c, g) (otg n tk (tok_marks tk) line col (col =? 0)
                          ++ otg n (concat toks) (token_starts toks) (nxt_line tk line) (nxt_col tk col)
                               (nxt_col tk col =? 0))).
  { intros H. destruct (IH _ _ Hp' m H) as (l & c & g & E & Hi). exists l, c, g. split; [exact E|].
    apply in_or_app. right. exact Hi. }
  destruct (lone tk) eqn:El; cbn [app chunk_mappings] in Hin; [apply Hrest; exact Hin|].
  destruct Hin as [Hin|Hin]; [|apply Hrest; exact Hin].
  destruct (otg_token n tk line col (col =? 0) Htk El) as [[rest Er] _].
  exists line, col, (POrig n line col true false). split; [symmetry; exact Hin|].
  apply in_or_app. left. rewrite Er. left. reflexivity.
Qed.

(* ------------------------------------------------------------------ *)
(* the map built by map()                                               *)
(* ------------------------------------------------------------------ *)
Lemma fold_tables_chunks : forall evs T, only_chunks evs = true -> fold_left tables_event evs T = T.
Proof.
  induction evs as [|e evs IH]; intros T H; [reflexivity|].
  destruct e as [t m|i n c|i n]; try discriminate.
  cbn [only_chunks forallb is_chunk andb] in H. cbn [fold_left tables_event]. apply IH. exact H.
Qed.

Lemma map_of_events_source0 cols n v chunks : only_chunks chunks = true ->
  map_of_events cols (ESource 0 n (Some v) :: chunks) =
  if is_nil (encode_mappings cols (chunk_mappings chunks)) then None
  else Some (mkSmap None (encode_mappings cols (chunk_mappings chunks)) [n] [v] [] None None).
Proof.
  intros H. unfold map_of_events. cbn [chunk_mappings fold_left].
  rewrite (fold_tables_chunks chunks _ H). reflexivity.
Qed.

(* segments of a map with the single source n, no root, whose decoded mappings are all `orig_at` *)
Lemma rsegs_single enc n v : forall l c g st,
  In (l, c, g) (rsegs_of_map (mkSmap None enc [n] [v] [] None None)) ->
  (forall m, In m (decode_mappings enc) -> exists l' c', m = orig_at l' c' /\ st l' c') ->
  g = Some (mkLoc n l c None) /\ st l c.
Proof.
  intros l c g st Hin Hall. unfold rsegs_of_map in Hin. cbn [sm_mappings] in Hin.
  apply in_map_iff in Hin. destruct Hin as [m [E Hm]].
  destruct (Hall m Hm) as (l' & c' & -> & Hst).
  cbn [orig_at g_line g_col m_orig] in E. inversion E. subst. split; [|exact Hst].
  reflexivity.
Qed.

(* ------------------------------------------------------------------ *)
(* lines of the tagged bytes; lengths; surviving files                  *)
(* ------------------------------------------------------------------ *)
Definition mcount (p : N * N) : N := if snd p =? 0 then fst p - 1 else fst p.

Lemma marks_count_mcount v : marks_count v = mcount (gen_info v).
Proof. unfold marks_count, mcount. destruct (gen_info v). reflexivity. Qed.

Lemma advance_same_line t : forall l c, fst (advance l c t) = l -> c <= snd (advance l c t).
Proof.
  induction t as [|b t IH]; intros l c H; [cbn; lia|]. cbn [advance] in *.
  destruct (b =? NL).
  - pose proof (advance_line_ge (l + 1) 0 t). lia.
  - specialize (IH l (c + 1) H). lia.
Qed.

Lemma otg_lines n t : forall marks l0 c0 s l c g, In (l, c, g) (otg n t marks l0 c0 s) ->
  l0 <= l /\ l <= mcount (advance l0 c0 t).
Proof.
  induction t as [|b t IH]; intros marks l0 c0 s l c g H; [contradiction|].
  destruct marks as [|m marks]; [contradiction|]. cbn [otg] in H. cbn [advance].
  destruct (b =? NL).
  - destruct H as [H|H].
    + inversion H. subst. split; [lia|]. pose proof (advance_line_ge (l + 1) 0 t) as Hg.
      unfold mcount. destruct (snd (advance (l + 1) 0 t) =? 0); lia.
    + destruct (IH _ _ _ _ _ _ _ H). split; [lia|assumption].
  - destruct H as [H|H].
    + inversion H. subst. split; [lia|]. pose proof (advance_line_ge l (c + 1) t) as Hg.
      pose proof (advance_same_line t l (c + 1)) as Hs.
      unfold mcount. destruct (snd (advance l (c + 1) t) =? 0) eqn:E; [|lia].
      apply N.eqb_eq in E. destruct (N.eq_dec (fst (advance l (c + 1) t)) l) as [El|El]; [|lia].
      specialize (Hs El). lia.
    + destruct (IH _ _ _ _ _ _ _ H). split; [lia|assumption].
Qed.

Lemma self_first_orig n tg :
  (forall x, In x tg -> exists l' c' st e, x = (l', c', POrig n l' c' st e)) ->
  forall l c g, In (l, c, g) tg -> first_orig_of_line tg l = Some (n, l).
Proof.
  induction tg as [|x tg IH]; intros Hself l c g Hin; [contradiction|].
  destruct (Hself x (or_introl eq_refl)) as (l' & c' & st & e & ->).
  cbn [first_orig_of_line]. destruct (l' =? l) eqn:E.
  - apply N.eqb_eq in E. subst. reflexivity.
  - destruct Hin as [Hin|Hin].
    + inversion Hin. subst. rewrite N.eqb_refl in E. discriminate.
    + apply (IH (fun y Hy => Hself y (or_intror Hy)) l c g Hin).
Qed.

Lemma otg_first_orig n t marks l0 c0 s l c g : In (l, c, g) (otg n t marks l0 c0 s) ->
  first_orig_of_line (otg n t marks l0 c0 s) l = Some (n, l).
Proof. apply self_first_orig. apply otg_self. Qed.

Lemma stmt_starts_length t : forall a b c, length (stmt_starts t a b c) = length t.
Proof.
  induction t as [|x t IH]; intros a b c; [reflexivity|]. cbn [stmt_starts].
  destruct (x =? NL); [cbn [length]; rewrite IH; reflexivity|].
  destruct (is_sep x); cbn [length]; rewrite IH; reflexivity.
Qed.

Lemma orig_tags_length n t : forall marks l c s, length marks = length t ->
  length (orig_tags n t marks l c s) = length t.
Proof.
  induction t as [|b t IH]; intros marks l c s H; [reflexivity|].
  destruct marks as [|m marks]; [discriminate|]. cbn [length] in H.
  cbn [orig_tags]. destruct (b =? NL); cbn [length]; rewrite IH by lia; reflexivity.
Qed.

Lemma surviving_forallb (P : text -> bool) n t : P n = true -> forall marks l c s,
  forallb P (surviving_files (orig_tags n t marks l c s)) = true.
Proof.
  intros HP. induction t as [|b t IH]; intros marks l c s; [reflexivity|].
  destruct marks as [|m marks]; [reflexivity|]. cbn [orig_tags].
  destruct (b =? NL).
  - unfold surviving_files in *. cbn [flat_map]. destruct s; cbn [app forallb]; [|rewrite HP]; apply IH.
  - unfold surviving_files in *. cbn [flat_map app forallb]. rewrite HP. apply IH.
Qed.

Lemma all2_none_surviving (t : text) : forall gs, all2 (map (fun _ => None) t) gs = true ->
  length (map (fun _ : N => @None loc) t) = length gs -> surviving_files gs = [].
Proof.
  induction t as [|b t IH]; intros gs H Hl.
  - destruct gs; [reflexivity|discriminate].
  - destruct gs as [|g gs]; [discriminate|]. cbn [map length] in Hl. cbn [map all2] in H.
    apply andb_true_iff in H. destruct H as [H1 H2].
    unfold surviving_files in *. cbn [flat_map]. rewrite IH; [|exact H2|cbn [map] in *; lia].
    destruct g as [|f ol oc stmt eb|]; try reflexivity. destruct eb; [reflexivity|discriminate].
Qed.

Lemma ascii_valid_fuel t : ascii t = true -> forall k, (length t <= k)%nat -> valid_utf8_fuel k t = true.
Proof.
  induction t as [|b t IH]; intros H k Hk.
  - destruct k; reflexivity.
  - destruct (ascii_cons b t H) as [Hb Ht]. destruct k as [|k]; [cbn in Hk; lia|].
    cbn [valid_utf8_fuel]. replace (b <? 128) with true by (symmetry; apply N.ltb_lt; exact Hb).
    apply IH; [exact Ht|cbn [length] in Hk; lia].
Qed.

Lemma ascii_valid t : ascii t = true -> valid_utf8 t = true.
Proof. intros H. unfold valid_utf8. apply ascii_valid_fuel; [exact H|lia]. Qed.

Section Original.
Variables (v n : text).
Hypothesis Hlen : len v < 1073741823.

Definition otg_v : list (N * N * ptag) :=
  otg n v (stmt_starts v true false false) 1 0 true.

Lemma tagged_original : tagged v (original_prov v n) 1 0 = otg_v.
Proof. unfold original_prov, otg_v. apply tagged_orig. Qed.

Lemma otg_v_tokens :
  otg_v = otg n (concat (potential_tokens v)) (token_starts (potential_tokens v)) 1 0 (0 =? 0).
Proof. unfold otg_v. rewrite concat_potential_tokens, token_starts_stmt_starts. reflexivity. Qed.

Let ms1 := chunk_mappings (fst (original_tokens (potential_tokens v) true 1 0)).

Lemma ms1_domain : enc_domain ms1 = true.
Proof.
  destruct (original_cols_domain v n Hlen) as [_ He].
  rewrite original_stream_cols_fst in He. exact He.
Qed.

Lemma map1_eq (st : store) :
  fst (map_of st (SOriginal v n) true) =
  if is_nil (encode_full ms1) then None
  else Some (mkSmap None (encode_full ms1) [n] [v] [] None None).
Proof.
  rewrite map_of_original, original_stream_cols_fst.
  apply (map_of_events_source0 true n v _ (tokens_only _ true 1 0)).
Qed.

Definition segs_of (m : option smap) : list rseg :=
  match m with Some m => rsegs_of_map m | None => [] end.

(* Z2 (a) *)
Lemma original_seg_ok (st : store) :
  forallb (seg_ok (tagged v (original_prov v n) 1 0)) (segs_of (fst (map_of st (SOriginal v n) true))) = true.
Proof.
  rewrite tagged_original, map1_eq.
  destruct (is_nil (encode_full ms1)); [reflexivity|]. cbn [segs_of].
  apply forallb_forall. intros [[l c] g] Hin.
  destruct (rsegs_single _ n v l c g (fun l c => exists g, In (l, c, g) otg_v) Hin) as [-> [g' Hg']].
  - intros m Hm. rewrite (decode_encode ms1 ms1_domain) in Hm.
    apply (kept_from_In ms1 None) in Hm.
    destruct (tokens_segs n (potential_tokens v) 1 0 (potential_tokens_pieces v) m Hm) as (l' & c' & g' & E & Hi).
    exists l', c'. split; [exact E|]. exists g'. rewrite otg_v_tokens. exact Hi.
  - unfold otg_v in *. destruct (otg_tag_at n v _ 1 0 true l c g' Hg') as (s & e & Ht).
    cbn [seg_ok]. rewrite Ht. cbn [l_file l_line l_col]. rewrite text_eqb_refl, !N.eqb_refl. reflexivity.
Qed.

(* Z2 (b) *)
Lemma original_byte_ok (st : store) :
  forallb (byte_ok (segs_of (fst (map_of st (SOriginal v n) true)))) (tagged v (original_prov v n) 1 0) = true.
Proof.
  rewrite byte_ok_all2.
  assert (E : attr_by_pos (segs_of (fst (map_of st (SOriginal v n) true))) true v 1 0 =
              attr_of_map (fst (map_of st (SOriginal v n) true)) v true).
  { destruct (fst (map_of st (SOriginal v n) true)); [reflexivity|]. apply attr_by_pos_nil. }
  rewrite E. pose proof (original_attr_cols v n Hlen st) as Ha. cbn [source] in Ha. rewrite Ha.
  rewrite stream_original, original_stream_cols_fst. unfold attr_of_stream. rewrite rsegs_source0.
  pose proof (tokens_all2 n (potential_tokens v) 1 0 (potential_tokens_pieces v) (potential_tokens_ok v)) as H.
  rewrite <- otg_v_tokens in H. unfold otg_v in H. rewrite otg_tags in H. exact H.
Qed.

(* Z2.  (The hypothesis `ascii v = true` of the property's domain is not needed in the model:
   OriginalSource columns are byte offsets on both sides.) *)
Theorem original_c04_cols (st : store) :
  let m1 := fst (map_of st (SOriginal v n) true) in
  let tg := tagged v (original_prov v n) 1 0 in
  let segs := match m1 with Some m => rsegs_of_map m | None => [] end in
  forallb (seg_ok tg) segs = true /\ forallb (byte_ok segs) tg = true.
Proof. split; [apply original_seg_ok|apply original_byte_ok]. Qed.

(* ------------------------------------------------------------------ *)
(* Z3: columns = false                                                  *)
(* ------------------------------------------------------------------ *)
Let ms0 := chunk_mappings (original_line_marks (N.to_nat (marks_count v)) 1).

Lemma ms0_domain : enc_domain ms0 = true.
Proof.
  destruct (original_lines_domain v n Hlen) as [_ He].
  rewrite original_stream_lines_final_fst in He. exact He.
Qed.

Lemma map0_eq (st : store) :
  fst (map_of st (SOriginal v n) false) =
  if is_nil (encode_lines ms0) then None
  else Some (mkSmap None (encode_lines ms0) [n] [v] [] None None).
Proof.
  rewrite map_of_original, original_stream_lines_final_fst.
  apply (map_of_events_source0 false n v _ (marks_only _ 1)).
Qed.

Lemma ms0_first l : 1 <= l -> l <= marks_count v ->
  first_mapped (decode_mappings (encode_lines ms0)) l = Some (0, l).
Proof.
  intros H1 H2. rewrite (lines_only_decode ms0 ms0_domain). unfold line_firsts.
  rewrite first_mapped_line_firsts by lia. unfold ms0. rewrite (marks_first v Hlen), N2Nat.id.
  replace (1 <=? l) with true by (symmetry; apply N.leb_le; lia).
  replace (l <? 1 + marks_count v) with true by (symmetry; apply N.ltb_lt; lia). reflexivity.
Qed.

Lemma segs0_first (st : store) l : 1 <= l -> l <= marks_count v ->
  seg_first_mapped (segs_of (fst (map_of st (SOriginal v n) false))) l = Some (mkLoc n l 0 None).
Proof.
  intros H1 H2. pose proof (ms0_first l H1 H2) as Hf. rewrite map0_eq.
  destruct (is_nil (encode_lines ms0)) eqn:En.
  - apply is_nil_true in En. rewrite En, decode_nil in Hf. discriminate.
  - cbn [segs_of]. rewrite rsegs_of_map_F, seg_first_mapped_map. cbn [sm_mappings]. rewrite Hf. reflexivity.
Qed.

Theorem original_c04_lines (st : store) :
  let m0 := fst (map_of st (SOriginal v n) false) in
  let tg := tagged v (original_prov v n) 1 0 in
  let segs0 := match m0 with Some m => rsegs_of_map m | None => [] end in
  forallb (line_ok tg segs0) tg = true.
Proof.
  cbn zeta. fold (segs_of (fst (map_of st (SOriginal v n) false))). rewrite tagged_original.
  apply forallb_forall. intros [[l c] g] Hin. unfold otg_v in *.
  pose proof (otg_lines n v _ 1 0 true l c g Hin) as [Hl1 Hl2].
  rewrite <- gen_info_advance, <- marks_count_mcount in Hl2.
  cbn [line_ok]. rewrite (otg_first_orig n v _ 1 0 true l c g Hin), (segs0_first st l Hl1 Hl2).
  cbn [l_file l_line]. rewrite text_eqb_refl, N.eqb_refl. reflexivity.
Qed.

(* ------------------------------------------------------------------ *)
(* Z4: the checker accepts the model's observations                     *)
(* ------------------------------------------------------------------ *)
Hypothesis Hv : ascii v = true.
Hypothesis Hn : ascii n = true.

Lemma original_domain : c04_domain (SOriginal v n) = true.
Proof.
  unfold c04_domain, treeA. cbn [tree_wf tree_ascii c04_kinds originals names_determine_content forallb].
  rewrite (ascii_valid v Hv), (ascii_valid n Hn), Hv, Hn. reflexivity.
Qed.

Lemma original_prov_len : len (original_prov v n) = len v.
Proof.
  unfold len, original_prov. rewrite orig_tags_length; [reflexivity|apply stmt_starts_length].
Qed.

Lemma original_sources_ok (st : store) :
  match fst (map_of st (SOriginal v n) true) with
  | Some m => nodup_texts (sm_sources m)
              && forallb (file_listed m (originals (SOriginal v n))) (surviving_files (original_prov v n))
  | None => is_nil (surviving_files (original_prov v n))
  end = true.
Proof.
  pose proof (original_byte_ok st) as Hb. rewrite map1_eq in *.
  destruct (is_nil (encode_full ms1)).
  - (* no mapping at all: every byte is the line break of an empty line *)
    cbn [segs_of] in Hb. rewrite byte_ok_all2, attr_by_pos_nil in Hb.
    rewrite (all2_none_surviving _ _ Hb); [reflexivity|].
    rewrite map_length. unfold original_prov. rewrite orig_tags_length; [reflexivity|apply stmt_starts_length].
  - cbn [sm_sources nodup_texts existsb negb andb originals]. unfold original_prov.
    apply surviving_forallb. unfold file_listed. cbn [sm_sources sm_contents map fst snd find_text].
    rewrite text_eqb_refl. rewrite !snth_one. apply text_eqb_refl.
Qed.

Theorem original_chk_C04 : chk_C04 (SOriginal v n) (api_tree (SOriginal v n) []) = 0.
Proof.
  unfold chk_C04. rewrite original_domain. cbn [negb].
  cbn [api_tree to_source to_maps run_warm source prov has_replace].
  rewrite original_prov_len, N.eqb_refl. cbn [negb andb].
  pose proof (original_seg_ok []) as H1. pose proof (original_byte_ok []) as H2.
  pose proof (original_sources_ok []) as H5. pose proof (original_c04_lines []) as H6.
  cbn zeta in H6. unfold segs_of in H1, H2.
  rewrite H1, H2, H5, H6. reflexivity.
Qed.

End Original.

(* a non-vacuous instance: "a;b\n\n{ c" has four mapped segments and one exempt empty-line break *)
Example original_c04_example :
  let v := [97; 59; 98; 10; 10; 123; 32; 99] in
  let n := [102] in
  (match fst (map_of [] (SOriginal v n) true) with Some m => rsegs_of_map m | None => [] end,
   chk_C04 (SOriginal v n) (api_tree (SOriginal v n) []))
  = ([(1, 0, Some (mkLoc n 1 0 None)); (1, 2, Some (mkLoc n 1 2 None));
      (3, 0, Some (mkLoc n 3 0 None)); (3, 2, Some (mkLoc n 3 2 None))], 0).
Proof. vm_compute. reflexivity. Qed.

Print Assumptions original_c04_cols.
Print Assumptions original_c04_lines.
Print Assumptions original_chk_C04.
