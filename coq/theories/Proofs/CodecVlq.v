(* VLQ level facts about the codec model:
   - T1  vlq_roundtrip (+ compositional form, + alphabet of encode_vlq)
   - T8  encode_alphabet
   - the bit-level lemma for the decoder accumulator (acc_or_spec) and the
     agreement of final_value with the spec's sign/magnitude reading. *)
From RS Require Import Base.Prelude Codec.Vlq Codec.CodecSpec Proofs.CodecAlphabet.

Local Open Scope N_scope.

(* sign/magnitude reading of a raw VLQ value, as written in vlq_ints_aux *)
Definition zz (t : N) : Z := if N.odd t then (- Z.of_N (t / 2))%Z else Z.of_N (t / 2).

(* ------------------------------------------------------------------ *)
(* bit facts *)

Lemma land31 n : N.land n 31 = n mod 32.
Proof. change 31 with (N.ones 5). rewrite N.land_ones. reflexivity. Qed.

Lemma shiftr5 n : N.shiftr n 5 = n / 32.
Proof. rewrite N.shiftr_div_pow2. reflexivity. Qed.

Lemma lor_disjoint a q p : a < 2 ^ p -> N.lor a (q * 2 ^ p) = a + q * 2 ^ p.
Proof.
  intros Ha.
  assert (Hl : N.land a (q * 2 ^ p) = 0).
  { apply N.bits_inj. intro n. rewrite N.land_spec, N.bits_0.
    destruct (N.lt_ge_cases n p) as [Hn|Hn].
    - rewrite N.mul_pow2_bits_low by exact Hn. apply andb_false_r.
    - rewrite <- (N.mod_small a (2 ^ p)) by exact Ha.
      rewrite N.mod_pow2_bits_high by exact Hn. reflexivity. }
  rewrite <- N.lxor_lor by exact Hl. symmetry. apply N.add_nocarry_lxor. exact Hl.
Qed.

Lemma lor32 d : d < 32 -> N.lor d 32 = d + 32.
Proof.
  intros Hd. change 32 with (1 * 2 ^ 5) at 1 2. rewrite lor_disjoint; [reflexivity|exact Hd].
Qed.

Lemma mod32_lt n : n mod 32 < 32.
Proof. apply N.mod_lt. discriminate. Qed.

(* ------------------------------------------------------------------ *)
(* vlq_digits read back by the spec *)

Lemma b64_digit_cont n :
  b64_digit (b64_char (N.lor (n mod 32) 32)) = Some (n mod 32 + 32).
Proof.
  pose proof (mod32_lt n) as H.
  rewrite lor32 by exact H. apply b64_digit_char. lia.
Qed.

Lemma b64_digit_last n : b64_digit (b64_char (n mod 32)) = Some (n mod 32).
Proof. pose proof (mod32_lt n) as H. apply b64_digit_char. lia. Qed.

Lemma vlq_digits_S f n :
  vlq_digits (S f) n =
  if 0 <? n / 32 then b64_char (N.lor (n mod 32) 32) :: vlq_digits f (n / 32)
  else [b64_char (n mod 32)].
Proof. cbn [vlq_digits]. rewrite land31, shiftr5. reflexivity. Qed.

Lemma vlq_ints_digits (rest : text) : forall f n acc k p,
  n < 32 ^ N.of_nat (S f) ->
  vlq_ints_aux (vlq_digits (S f) n ++ rest) acc k p =
  match vlq_ints_aux rest 0 1 false with
  | Some r => Some (zz (acc + n * k) :: r)
  | None => None
  end.
Proof.
  induction f as [|f IH]; intros n acc k p Hn.
  - assert (Hd : n / 32 = 0) by (apply N.div_small; exact Hn).
    rewrite vlq_digits_S, Hd. cbn [N.ltb N.compare app].
    cbn [vlq_ints_aux]. rewrite b64_digit_last.
    assert (Hm : n mod 32 = n) by (apply N.mod_small; exact Hn).
    rewrite !Hm.
    assert (Hle : (32 <=? n) = false) by (apply N.leb_gt; exact Hn).
    rewrite Hle. reflexivity.
  - rewrite vlq_digits_S.
    destruct (0 <? n / 32) eqn:E.
    + rewrite <- app_comm_cons. cbn [vlq_ints_aux]. rewrite b64_digit_cont.
      assert (Hle : (32 <=? n mod 32 + 32) = true) by (apply N.leb_le; apply N.le_add_l).
      rewrite Hle.
      assert (Hm : (n mod 32 + 32) mod 32 = n mod 32).
      { pose proof (mod32_lt n).
        replace (n mod 32 + 32) with (n mod 32 + 1 * 32) by lia.
        rewrite N.mod_add by discriminate. apply N.mod_small. assumption. }
      rewrite Hm.
      rewrite IH.
      * replace (acc + n mod 32 * k + n / 32 * (k * 32)) with (acc + n * k); [reflexivity|].
        assert (Hq : n = 32 * (n / 32) + n mod 32) by apply N.div_mod'.
        set (q := n / 32) in *. set (r := n mod 32) in *. rewrite Hq. ring.
      * apply N.div_lt_upper_bound; [discriminate|].
        rewrite Nat2N.inj_succ, N.pow_succ_r' in Hn. exact Hn.
    + apply N.ltb_ge in E. assert (Hd : n / 32 = 0) by (apply N.le_0_r; exact E).
      assert (Hn' : n < 32).
      { rewrite (N.div_mod' n 32), Hd, N.mul_0_r, N.add_0_l. apply mod32_lt. }
      cbn [app]. cbn [vlq_ints_aux]. rewrite b64_digit_last.
      assert (Hm : n mod 32 = n) by (apply N.mod_small; exact Hn').
      rewrite !Hm.
      assert (Hle : (32 <=? n) = false) by (apply N.leb_gt; exact Hn').
      rewrite Hle. reflexivity.
Qed.

(* ------------------------------------------------------------------ *)
(* vlq_num on the encoder's domain *)

Lemma vlq_num_small a b :
  (Z.abs (Z.of_N a - Z.of_N b) < 2 ^ 31)%Z ->
  vlq_num a b = if b <=? a then 2 * (a - b) else 2 * (b - a) + 1.
Proof.
  intros H. unfold vlq_num, wrap32. rewrite !N.shiftl_mul_pow2. change (2 ^ 1) with 2.
  destruct (b <=? a) eqn:E.
  - apply N.leb_le in E. rewrite N.mod_small; [lia|]. unfold two32. lia.
  - apply N.leb_gt in E. rewrite N.mod_small; [lia|]. unfold two32. lia.
Qed.

Lemma zz_even x : zz (2 * x) = Z.of_N x.
Proof.
  unfold zz. rewrite N.odd_mul. change (N.odd 2) with false. cbn [andb].
  rewrite N.mul_comm, N.div_mul by discriminate. reflexivity.
Qed.

Lemma zz_odd x : zz (2 * x + 1) = (- Z.of_N x)%Z.
Proof.
  unfold zz. rewrite N.add_comm, N.odd_add_mul_2. change (N.odd 1) with true. cbn iota.
  rewrite (N.mul_comm 2 x), N.div_add by discriminate. change (1 / 2) with 0.
  rewrite N.add_0_l. reflexivity.
Qed.

Lemma zz_vlq_num a b :
  (Z.abs (Z.of_N a - Z.of_N b) < 2 ^ 31)%Z ->
  zz (vlq_num a b) = (Z.of_N a - Z.of_N b)%Z /\ vlq_num a b < 32 ^ N.of_nat 7.
Proof.
  intros H. rewrite vlq_num_small by exact H.
  change (32 ^ N.of_nat 7) with 34359738368.
  destruct (b <=? a) eqn:E.
  - apply N.leb_le in E. rewrite zz_even. split; lia.
  - apply N.leb_gt in E. rewrite zz_odd. split; lia.
Qed.

(* the two range hypotheses of T1 are not needed *)
Lemma vlq_ints_encode_app (a b : N) (rest : text) :
  (Z.abs (Z.of_N a - Z.of_N b) < 2 ^ 31)%Z ->
  vlq_ints_aux (encode_vlq a b ++ rest) 0 1 false =
  match vlq_ints_aux rest 0 1 false with
  | Some r => Some ((Z.of_N a - Z.of_N b)%Z :: r)
  | None => None
  end.
Proof.
  intros H. destruct (zz_vlq_num a b H) as [Hz Hlt].
  unfold encode_vlq. rewrite vlq_ints_digits by exact Hlt.
  rewrite N.add_0_l, N.mul_1_r, Hz. reflexivity.
Qed.

(* T1, compositional form *)
Theorem vlq_roundtrip_app (a b : N) (rest : text) :
  a < two32 -> b < two32 -> (Z.abs (Z.of_N a - Z.of_N b) < 2 ^ 31)%Z ->
  vlq_ints_aux (encode_vlq a b ++ rest) 0 1 false =
  match vlq_ints_aux rest 0 1 false with
  | Some r => Some ((Z.of_N a - Z.of_N b)%Z :: r)
  | None => None
  end.
Proof. intros _ _ H. apply vlq_ints_encode_app. exact H. Qed.

(* T1 *)
Theorem vlq_roundtrip (a b : N) :
  a < two32 -> b < two32 -> (Z.abs (Z.of_N a - Z.of_N b) < 2 ^ 31)%Z ->
  vlq_ints (encode_vlq a b) = Some [(Z.of_N a - Z.of_N b)%Z].
Proof.
  intros Ha Hb H. unfold vlq_ints.
  rewrite <- (app_nil_r (encode_vlq a b)).
  rewrite vlq_roundtrip_app by assumption. reflexivity.
Qed.

Lemma encode_vlq_same a : encode_vlq a a = [chA].
Proof.
  unfold encode_vlq, vlq_num. rewrite N.leb_refl, N.sub_diag. reflexivity.
Qed.

Lemma encode_vlq_succ a : encode_vlq (a + 1) a = [67].
Proof.
  unfold encode_vlq, vlq_num.
  assert (E : (a <=? a + 1) = true) by (apply N.leb_le; lia). rewrite E.
  replace (a + 1 - a) with 1 by lia. reflexivity.
Qed.

(* ------------------------------------------------------------------ *)
(* alphabet of the encoder output (T8) *)

Definition digit_char (c : N) : Prop := c < 128 /\ b64_digit c <> None.
Definition map_char (c : N) : Prop := c < 128 /\ (b64_digit c <> None \/ c = 44 \/ c = 59).

Lemma digit_char_b64 d : d < 64 -> digit_char (b64_char d).
Proof.
  intros H. split; [apply b64_char_ascii; exact H|].
  rewrite b64_digit_char by exact H. discriminate.
Qed.

Lemma vlq_digits_alphabet : forall f n, Forall digit_char (vlq_digits f n).
Proof.
  induction f as [|f IH]; intros n; [constructor|].
  rewrite vlq_digits_S. pose proof (mod32_lt n) as Hm.
  destruct (0 <? n / 32).
  - constructor; [|apply IH]. rewrite lor32 by exact Hm. apply digit_char_b64. lia.
  - constructor; [|constructor]. apply digit_char_b64. lia.
Qed.

Lemma encode_vlq_alphabet a b : Forall digit_char (encode_vlq a b).
Proof. apply vlq_digits_alphabet. Qed.

(* every byte of encode_vlq is a base64 digit, hence neither ',' nor ';' *)
Theorem encode_vlq_digits a b c : In c (encode_vlq a b) -> b64_digit c <> None.
Proof.
  intros H. pose proof (encode_vlq_alphabet a b) as F. rewrite Forall_forall in F.
  apply F in H. apply H.
Qed.

Lemma digit_not_sep c : b64_digit c <> None -> c <> 44 /\ c <> 59.
Proof.
  intros H. split; intros ->; apply H; reflexivity.
Qed.

Lemma digit_map_char c : digit_char c -> map_char c.
Proof. intros [H1 H2]. split; auto. Qed.

Lemma map_char_chA : map_char chA.
Proof. split; [reflexivity|]. left. discriminate. Qed.
Lemma map_char_67 : map_char 67.
Proof. split; [reflexivity|]. left. discriminate. Qed.
Lemma map_char_semi : map_char semi.
Proof. split; [reflexivity|]. right. right. reflexivity. Qed.
Lemma map_char_comma : map_char comma.
Proof. split; [reflexivity|]. right. left. reflexivity. Qed.

Lemma map_char_vlq a b : Forall map_char (encode_vlq a b).
Proof.
  eapply Forall_impl; [|apply encode_vlq_alphabet]. apply digit_map_char.
Qed.

Lemma map_char_semis n : Forall map_char (repeat semi n).
Proof. induction n; cbn [repeat]; constructor; auto using map_char_semi. Qed.

Local Hint Resolve map_char_vlq map_char_semis map_char_chA map_char_67
  map_char_semi map_char_comma : mapchar.

Ltac mapchar_tac :=
  repeat (first [ apply Forall_app; split | apply Forall_cons | apply Forall_nil ]);
  auto with mapchar.

Lemma enc_step_alphabet e m : Forall map_char (snd (enc_step e m)).
Proof.
  unfold enc_step.
  destruct (enc_skip e m); [constructor|].
  destruct (e_line e <? g_line m); [|destruct (e_initial e)];
  (destruct (m_orig m) as [o|];
   [destruct (o_name o); destruct (o_src o =? e_src e); destruct (o_col o =? e_ocol e)|]);
  cbv beta iota zeta; cbn [snd]; mapchar_tac.
Qed.

Lemma enc_run_alphabet : forall ms e, Forall map_char (snd (enc_run e ms)).
Proof.
  induction ms as [|m ms IH]; intros e; cbn [enc_run]; [constructor|].
  pose proof (enc_step_alphabet e m) as H1.
  destruct (enc_step e m) as [e1 o1]. specialize (IH e1).
  destruct (enc_run e1 ms) as [e2 o2]. cbn [snd] in *. apply Forall_app. split; assumption.
Qed.

Lemma lenc_step_alphabet e m : Forall map_char (snd (lenc_step e m)).
Proof.
  unfold lenc_step.
  destruct (m_orig m) as [o|]; [|constructor].
  destruct (le_last e =? g_line m); [constructor|].
  destruct (o_src o =? le_src e); [destruct (o_line o =? le_oline e + 1)|];
  cbn [snd]; mapchar_tac.
Qed.

Lemma lenc_run_alphabet : forall ms e, Forall map_char (snd (lenc_run e ms)).
Proof.
  induction ms as [|m ms IH]; intros e; cbn [lenc_run]; [constructor|].
  pose proof (lenc_step_alphabet e m) as H1.
  destruct (lenc_step e m) as [e1 o1]. specialize (IH e1).
  destruct (lenc_run e1 ms) as [e2 o2]. cbn [snd] in *. apply Forall_app. split; assumption.
Qed.

(* T8 *)
Theorem encode_alphabet (ms : list mapping) (c : N) :
  In c (encode_full ms) \/ In c (encode_lines ms) ->
  c < 128 /\ (b64_digit c <> None \/ c = 44 \/ c = 59).
Proof.
  intros [H|H].
  - pose proof (enc_run_alphabet ms enc_init) as F. rewrite Forall_forall in F. apply (F c H).
  - pose proof (lenc_run_alphabet ms lenc_init) as F. rewrite Forall_forall in F. apply (F c H).
Qed.

Lemma encode_full_bytes ms : Forall (fun c => c < 256) (encode_full ms).
Proof.
  eapply Forall_impl; [|apply (enc_run_alphabet ms enc_init)].
  intros c [H _]. lia.
Qed.

Lemma encode_lines_bytes ms : Forall (fun c => c < 256) (encode_lines ms).
Proof.
  eapply Forall_impl; [|apply (lenc_run_alphabet ms lenc_init)].
  intros c [H _]. lia.
Qed.

(* ------------------------------------------------------------------ *)
(* the decoder's accumulator *)

Lemma two64_pow : two64 = 2 ^ 64.
Proof. reflexivity. Qed.

(* OR-ing a 5-bit group at bit position pos (dropping positions >= 64 and
   truncating to 64 bits) is addition modulo 2^64 *)
Lemma acc_or_spec (acc dg pos : N) :
  acc < 2 ^ pos ->
  acc_or (acc mod two64) dg pos = (acc + dg * 2 ^ pos) mod two64.
Proof.
  intros Hacc. unfold acc_or. rewrite N.shiftl_mul_pow2.
  destruct (pos <? 64) eqn:E.
  - apply N.ltb_lt in E.
    assert (Hp : 2 ^ 64 = 2 ^ (64 - pos) * 2 ^ pos).
    { rewrite <- N.pow_add_r. f_equal. lia. }
    assert (Hle : 2 ^ pos <= 2 ^ 64) by (apply N.pow_le_mono_r; [discriminate|lia]).
    assert (Hsm : acc mod two64 = acc) by (apply N.mod_small; rewrite two64_pow; lia).
    rewrite Hsm.
    assert (Hq : (dg * 2 ^ pos) mod two64 = dg mod 2 ^ (64 - pos) * 2 ^ pos).
    { rewrite two64_pow, Hp. apply N.mul_mod_distr_r; apply N.pow_nonzero; discriminate. }
    rewrite Hq, lor_disjoint by exact Hacc.
    rewrite <- Hq.
    rewrite <- (N.add_mod_idemp_r acc (dg * 2 ^ pos)) by discriminate.
    symmetry. apply N.mod_small.
    rewrite Hq, two64_pow, Hp.
    assert (Hr : dg mod 2 ^ (64 - pos) < 2 ^ (64 - pos))
      by (apply N.mod_lt; apply N.pow_nonzero; discriminate).
    set (r := dg mod 2 ^ (64 - pos)) in *. set (Q := 2 ^ (64 - pos)) in *. set (P := 2 ^ pos) in *.
    assert (Hm : (r + 1) * P <= Q * P) by (apply N.mul_le_mono_r; lia).
    lia.
  - apply N.ltb_ge in E.
    replace (dg * 2 ^ pos) with (dg * 2 ^ (pos - 64) * two64).
    + rewrite N.mod_add by discriminate. reflexivity.
    + rewrite two64_pow, <- N.mul_assoc, <- N.pow_add_r. do 2 f_equal. lia.
Qed.

(* the decoder's reading of a completed accumulator agrees with the spec's
   sign/magnitude reading whenever the raw value fits in 63 bits *)
Lemma final_value_zz (t : N) : t < two63 -> final_value (t mod two64) = zz t.
Proof.
  intros Ht. unfold two63 in Ht.
  rewrite N.mod_small by (unfold two64; lia).
  unfold final_value, signed64, zz.
  assert (E : (t <? two63) = true) by (apply N.ltb_lt; exact Ht).
  rewrite E, N.bit0_odd.
  rewrite Z.shiftr_div_pow2 by lia. change (2 ^ 1)%Z with 2%Z.
  rewrite N2Z.inj_div. reflexivity.
Qed.

(* adding a decoded delta to a u32 slot: no wrap-around when the spec's sum is a u32 *)
Lemma wrap_final (cur : N) (t : N) :
  cur < two32 ->
  (0 <= Z.of_N cur + zz t)%Z -> (Z.of_N cur + zz t < Z.of_N two32)%Z ->
  wrap32z (Z.of_N cur + final_value (t mod two64)) = Z.to_N (Z.of_N cur + zz t).
Proof.
  intros Hc H0 H1. unfold two32 in *.
  assert (Hm : (Z.abs (zz t) < 4294967296)%Z) by lia.
  assert (Ht : t < two63).
  { unfold two63. unfold zz in Hm.
    assert (Hq : t = 2 * (t / 2) + t mod 2) by apply N.div_mod'.
    assert (Hr : t mod 2 < 2) by (apply N.mod_lt; discriminate).
    set (q := t / 2) in *. destruct (N.odd t); lia. }
  rewrite final_value_zz by exact Ht.
  unfold wrap32z. rewrite Z.mod_small by lia. reflexivity.
Qed.

Print Assumptions vlq_roundtrip.
Print Assumptions vlq_roundtrip_app.
Print Assumptions encode_vlq_digits.
Print Assumptions encode_alphabet.
Print Assumptions acc_or_spec.
Print Assumptions wrap_final.
