(* C03, checker level, for trees with BOTH combined-map leaves and CachedSource nodes in ANY warm
   state (class `cls2` of WarmCombDefs.v, every cache id once).  ChkMoreWarmC03.v for `cls2`.
     chk_C03_warm2     verdict 0 outside the class K1 after ANY warm-up history;
     chk_C03_warm2_any inside K1 the only other verdict is 51.
   The two attribution clauses are `warm_map2` / `warm_text2` (both sides = the reference).  For
   the "None exactly when no chunk is mapped" clauses the store invariant `SoundW` (WarmCombWf.v)
   is extended by `Mp3` (ChkMoreWarmC03.v, unchanged): every map a cache holds under a text-less
   key (c, true), and under a key (c, false) of a node whose wrapped source is outside K1, has a
   mapped segment (`mp`).  The event-level facts (`text_mce_has_some`, `map_none_iff`,
   `events_mp`) are those of ChkMoreWarmC03.v.  [A combined leaf is outside K1: its map() is
   built from its text-less stream, and `events_mp` applies.] *)
From RS Require Import Base.Prelude Base.Text Rope.RopeModel Codec.Vlq Codec.CodecSpec
  Checkers.ChkCodec Stream.Types Stream.Leaves Stream.Concat Stream.Replace Stream.Combined Stream.Tree
  Api.ApiTree Sem.Attr Sem.HashEq Api.ApiHist Checkers.ChkTree Checkers.ChkHist
  Proofs.CodecKept Proofs.CodecEnc Proofs.CodecMain Proofs.StreamText Proofs.StreamLeaves Proofs.StreamMap Proofs.StreamConcat Proofs.StreamTree
  Proofs.WfStream Proofs.WfFinal Proofs.WfMap Proofs.RStreamText Proofs.RStreamPos Proofs.RStreamTree
  Proofs.AttrCodec Proofs.AttrSms Proofs.AttrLeaves Proofs.LawConcatAttr Proofs.LawWrappers
  Proofs.CacheStore Proofs.CacheReplay Proofs.FinalDense Proofs.FinalReplace Proofs.FinalConcat Proofs.FinalTree Proofs.FinalCache
  Proofs.ReplAttrStream Proofs.ReplAttrOrigin Proofs.ReplAttrSms Proofs.ReplAttrTree
  Proofs.LinesBase Proofs.LinesSelf Proofs.LinesConcat Proofs.LinesTree
  Proofs.ColdCache Proofs.ColdCacheTree Proofs.BoundsPos Proofs.BoundsOrig Proofs.BoundsIdx Proofs.BoundsAll
  Proofs.CombLeafTree
  Proofs.WarmTreeDefs Proofs.WarmTreeReplay Proofs.WarmTreeCodec Proofs.WarmTreeNodes Proofs.WarmTreeMain Proofs.WarmTreeHist
  Proofs.WfAllStrict Proofs.WfAllMap Proofs.WfAllChk Proofs.WfMoreComb Proofs.WfMoreWarm
  Proofs.ChkModelC02 Proofs.ChkModelC03 Proofs.ChkMoreWarmC03
  Proofs.WarmCombBounds Proofs.WarmCombDefs Proofs.WarmCombReplay Proofs.WarmCombCodec Proofs.WarmCombNodes
  Proofs.WarmCombMain Proofs.WarmCombHist Proofs.WarmCombWf.
Require Import Lia List.
Import ListNotations.

Local Open Scope N_scope.

(* ================================================================== *)
(* the extended store invariant                                         *)
(* ================================================================== *)
Definition SoundM (st : store) (U : src) : Prop := SoundW st U /\ Mp3 st U.

Theorem soundM_empty (U : src) : SoundM [] U.
Proof. split; [apply soundW_empty|]. intros id inner _ c f v H. discriminate. Qed.

Lemma FG_mp2 c s r : cls2 s -> FG2 c s r -> mp (map_of_events c (fst r)) = true.
Proof. intros Hcl H. apply events_mp. apply (FG_domain2 c s r Hcl H). Qed.

Lemma TG_mp2 c s r : cls2 s -> TG2 c s r -> mp (map_of_events c (fst r)) = true.
Proof. intros Hcl H. apply (FG_mp2 c s r Hcl). apply FG_of_TG2. exact H. Qed.

(* ================================================================== *)
(* the induction: every call keeps `Mp3`                                *)
(* ================================================================== *)
Section WarmM.
Variable U : src.
Hypothesis HU : ids_distinct U.

Definition keepsM (s : src) : Prop :=
  (forall st c f, SoundM st U -> Mp3 (snd (stream st s (mkOpts c f))) U) /\
  (forall st c, SoundM st U ->
     (k1_shape s = false -> mp (fst (map_of st s c)) = true) /\ Mp3 (snd (map_of st s c)) U).

Definition PWM (s : src) : Prop := incl (nodes s) (nodes U) -> cls2 s -> keepsM s.

Lemma stream_soundM s : incl (nodes s) (nodes U) -> cls2 s -> keepsM s ->
  forall st c f, SoundM st U -> SoundM (snd (stream st s (mkOpts c f))) U.
Proof.
  intros Hin Hcl [K _] st c f Hs. split; [|apply K; exact Hs].
  destruct (warmW_all U HU s Hin Hcl) as [A [B _]]. destruct f.
  - apply (B st c (proj1 Hs)).
  - apply (A st c (proj1 Hs)).
Qed.

(* map() of a node that streams *)
Lemma get_map_keepsM s : incl (nodes s) (nodes U) -> cls2 s ->
  (forall st c f, SoundM st U -> Mp3 (snd (stream st s (mkOpts c f))) U) ->
  forall st c, SoundM st U ->
    mp (fst (Tree.get_map st s c)) = true /\ Mp3 (snd (Tree.get_map st s c)) U.
Proof.
  intros Hin Hcl K st c Hs. destruct (warmW_all U HU s Hin Hcl) as [_ [B _]].
  destruct (B st c (proj1 Hs)) as [[F _] _]. pose proof (K st c true Hs) as S.
  unfold Tree.get_map. destruct (stream st s (mkOpts c true)) as [[evs gi] st']. cbn [fst snd] in *.
  split; [apply (FG_mp2 c s (evs, gi) Hcl F)|exact S].
Qed.

Lemma nocache_keeps_streamM s : has_cached s = false ->
  forall st c f, SoundM st U -> Mp3 (snd (stream st s (mkOpts c f))) U.
Proof. intros Hn st c f Hs. rewrite (nocache_stream s st _ Hn). cbn [snd]. exact (proj2 Hs). Qed.

(* the children of a ConcatSource, the store threaded through *)
Lemma kids_keepM (c f : bool) : forall cs,
  (forall ch, In ch cs -> incl (nodes ch) (nodes U) /\ cls2 ch /\ keepsM ch) ->
  forall st, SoundM st U -> SoundM (snd (kid_streams st cs (mkOpts c f))) U.
Proof.
  induction cs as [|ch cs IH]; intros Hall st Hs; [exact Hs|].
  cbn [kid_streams]. destruct (Hall ch (or_introl eq_refl)) as [H1 [H2 H3]].
  pose proof (stream_soundM ch H1 H2 H3 st c f Hs) as S1.
  destruct (stream st ch (mkOpts c f)) as [[evs gi] st1]. cbn [snd] in S1.
  pose proof (IH (fun x Hx => Hall x (or_intror Hx)) st1 S1) as S2.
  destruct (kid_streams st1 cs (mkOpts c f)) as [ks st2]. cbn [snd] in *. exact S2.
Qed.

Theorem warmM_all : forall s, PWM s.
Proof.
  apply (src_ind' PWM); unfold PWM.
  - (* SRaw *) intros b v _ Hcl. split; [apply nocache_keeps_streamM; reflexivity|].
    intros st c Hs. cbn [map_of fst snd]. split; [reflexivity|exact (proj2 Hs)].
  - intros v _ Hcl. split; [apply nocache_keeps_streamM; reflexivity|].
    intros st c Hs. cbn [map_of fst snd]. split; [reflexivity|exact (proj2 Hs)].
  - intros v _ Hcl. split; [apply nocache_keeps_streamM; reflexivity|].
    intros st c Hs. cbn [map_of fst snd]. split; [reflexivity|exact (proj2 Hs)].
  - (* SOriginal *) intros v n Hin Hcl.
    pose proof (nocache_keeps_streamM (SOriginal v n) eq_refl) as K. split; [exact K|].
    intros st c Hs. change (map_of st (SOriginal v n) c) with (Tree.get_map st (SOriginal v n) c).
    destruct (get_map_keepsM _ Hin Hcl K st c Hs) as [A B]. split; [intros _; exact A|exact B].
  - (* SMapped *) intros v n m og i r Hin Hcl.
    pose proof (nocache_keeps_streamM (SMapped v n m og i r) eq_refl) as K. split; [exact K|].
    intros st c Hs. destruct i as [im|].
    + (* a combined leaf: map() is built from the text-less stream *)
      change (map_of st (SMapped v n m og (Some im) r) c) with (Tree.get_map st (SMapped v n m og (Some im) r) c).
      destruct (get_map_keepsM _ Hin Hcl K st c Hs) as [A B]. split; [intros _; exact A|exact B].
    + cbn [map_of fst snd k1_shape]. split; [discriminate|exact (proj2 Hs)].
  - (* SConcat *) intros cs IH Hin Hcl. rewrite Forall_forall in IH.
    assert (Hkids : forall ch, In ch cs -> incl (nodes ch) (nodes U) /\ cls2 ch /\ keepsM ch).
    { intros ch Hch.
      assert (H1 : incl (nodes ch) (nodes U)) by (intros x Hx; apply Hin; apply (nodes_child cs ch Hch); exact Hx).
      pose proof (cls2_concat cs ch Hcl Hch) as H2. split; [exact H1|]. split; [exact H2|apply (IH ch Hch H1 H2)]. }
    assert (K : forall st c f, SoundM st U -> Mp3 (snd (stream st (SConcat cs) (mkOpts c f))) U).
    { intros st c f Hs. destruct (Nat.eq_dec (length cs) 1) as [E|E].
      - destruct cs as [|ch [|c2 r]]; try discriminate.
        change (stream st (SConcat [ch]) (mkOpts c f)) with (stream st ch (mkOpts c f)).
        destruct (Hkids ch (or_introl eq_refl)) as [_ [_ [X _]]]. apply X. exact Hs.
      - rewrite (stream_concat_fold st cs _ E). cbn [snd]. apply (kids_keepM c f cs Hkids st Hs). }
    split; [exact K|]. intros st c Hs.
    change (map_of st (SConcat cs) c) with (Tree.get_map st (SConcat cs) c).
    destruct (get_map_keepsM _ Hin Hcl K st c Hs) as [A B]. split; [intros _; exact A|exact B].
  - (* SReplace *) intros i rs IH Hin Hcl. destruct (cls2_replace i rs Hcl) as [Hci Hnc].
    destruct rs as [|r rs].
    + destruct (IH Hin Hci) as [IS IM]. split.
      * intros st c f Hs. rewrite replace_nil_stream_eq. cbn [snd columns]. apply IS. exact Hs.
      * intros st c Hs. change (map_of st (SReplace i []) c) with (map_of st i c).
        cbn [k1_shape is_nil andb]. apply IM. exact Hs.
    + assert (Hn : has_cached (SReplace i (r :: rs)) = false) by (apply Hnc; discriminate).
      pose proof (nocache_keeps_streamM _ Hn) as K. split; [exact K|]. intros st c Hs.
      change (map_of st (SReplace i (r :: rs)) c) with (Tree.get_map st (SReplace i (r :: rs)) c).
      destruct (get_map_keepsM _ Hin Hcl K st c Hs) as [A B]. split; [intros _; exact A|exact B].
  - (* SCached *) intros id i IH Hin Hcl. pose proof (cls2_cached id i Hcl) as Hci.
    assert (Hnode : In (id, i) (nodes U)) by (apply Hin; left; reflexivity).
    assert (Hin' : incl (nodes i) (nodes U)) by (intros x Hx; apply Hin; right; exact Hx).
    destruct (IH Hin' Hci) as [IS IM]. destruct (warmW_all U HU i Hin' Hci) as [IA [IB _]].
    split.
    + intros st c f Hs. cbn [stream].
      destruct (cache_get (store_get st id) (mkOpts c f)) as [v|] eqn:G.
      * destruct v as [m|]; cbn [snd]; exact (proj2 Hs).
      * pose proof (IS st c f Hs) as S.
        assert (M : mp (map_of_events c (fst (fst (stream st i (mkOpts c f))))) = true).
        { destruct f.
          - destruct (IB st c (proj1 Hs)) as [[T _] _]. apply (FG_mp2 c i _ Hci T).
          - destruct (IA st c (proj1 Hs)) as [[T _] _]. apply (TG_mp2 c i _ Hci T). }
        destruct (stream st i (mkOpts c f)) as [[evs gi] st']. cbn [fst snd columns] in *.
        apply (mp3_put U st' id i c f _ HU Hnode S). intros _. exact M.
    + intros st c Hs. cbn [map_of k1_shape].
      destruct (cache_get (store_get st id) (mkOpts c false)) as [v|] eqn:G.
      * cbn [fst snd]. split; [|exact (proj2 Hs)].
        intros Hk. apply (proj2 Hs id i Hnode c false v G). right. exact Hk.
      * destruct (IM st c Hs) as [E S]. destruct (map_of st i c) as [m st']. cbn [fst snd] in *.
        assert (We : entry_mp i false m) by (intros [X|X]; [discriminate|apply E; exact X]).
        pose proof (mp3_put U st' id i c false m HU Hnode S We) as S'.
        split; [|exact S']. intros Hk.
        destruct (cache_get (store_get (store_put st' id (mkOpts c false) m) id) (mkOpts c false)) as [m'|] eqn:G';
          [apply (S' id i Hnode c false m' G'); right; exact Hk|apply E; exact Hk].
Qed.

End WarmM.

(* ================================================================== *)
(* the statements                                                       *)
(* ================================================================== *)
Section GM.
Variable s : src.
Hypothesis Hd : ids_distinct s.
Hypothesis Hcl : cls2 s.

Let W2 := warmW_all s Hd s (incl_refl _) Hcl.
Let W3 := warmM_all s Hd s (incl_refl _) Hcl.

(* the invariant is preserved by every call and every warm-up history *)
Lemma wop_soundM (st : store) (node : src) (w : wop) :
  incl (nodes node) (nodes s) -> cls2 node -> SoundM st s -> SoundM (run_wop st node w) s.
Proof.
  intros Hin Hn Hs. destruct (warmM_all s Hd node Hin Hn) as [A M].
  destruct (warmW_all s Hd node Hin Hn) as [A2 [B2 M2]].
  destruct w as [c|c f]; cbn [run_wop].
  - split; [apply (M2 st c (proj1 Hs))|apply (M st c Hs)].
  - split; [|apply (A st c f Hs)]. destruct f; [apply (B2 st c (proj1 Hs))|apply (A2 st c (proj1 Hs))].
Qed.

Theorem warm_soundM : forall (ws : list (N * wop)) (st : store), SoundM st s -> SoundM (run_warm st s ws) s.
Proof.
  induction ws as [|[id w] ws IH]; intros st Hs; [exact Hs|].
  cbn [run_warm]. destruct (find_cached s id) as [node|] eqn:E; [|apply IH; exact Hs].
  destruct (find_cached_sub2 s id node E) as [A B]. apply IH. apply wop_soundM; [exact A|apply B; exact Hcl|exact Hs].
Qed.

(* clauses 1, 2: map() attributes every position as the text-carrying stream of the same store *)
Theorem warm_map_text2 (st : store) (c : bool) : SoundW st s ->
  attr_of_map (fst (map_of st s c)) (source s) c =
  attr_of_stream (fst (fst (stream st s (mkOpts c false)))) c.
Proof.
  intros Hs. destruct W2 as [A [_ M]]. destruct (M st c Hs) as [[Em _] _].
  destruct (A st c Hs) as [[[_ [_ [_ [_ [_ [_ [Ht _]]]]]]] _] _]. rewrite Em, Ht. reflexivity.
Qed.

(* clauses 3, 4: outside K1, None exactly when no chunk is mapped *)
Theorem warm_map_none2 (st : store) (c : bool) : SoundM st s -> k1_shape s = false ->
  is_none (fst (map_of st s c)) =
  negb (mapped_chunk_exists (fst (fst (stream st s (mkOpts c false))))).
Proof.
  intros Hs Hk. pose proof (warm_map_text2 st c (proj1 Hs)) as Ea.
  destruct W2 as [A [_ M]]. destruct (M st c (proj1 Hs)) as [[_ Gm] [Wf _]].
  destruct (A st c (proj1 Hs)) as [[_ Ne] _].
  destruct W3 as [_ M3]. destruct (M3 st c Hs) as [Mp _].
  rewrite (text_mce_has_some _ c Ne), <- Ea. apply map_none_iff.
  - apply Wf. exact Hk.
  - intros m Em. rewrite Em in Gm. destruct Gm as [[_ [P _]] _]. exact P.
  - apply Mp. exact Hk.
Qed.

Lemma cls2_treeAM : treeA s = true.
Proof. pose proof Hcl as [_ [_ [A _]]]. exact A. Qed.

(* the extracted checker, over any SoundM store *)
Theorem chk_C03_warm2_store (st : store) (o : tree_obs) : SoundM st s ->
  to_source o = source s ->
  to_streams o = map (fun op => fst (stream st s op)) all_opts ->
  to_maps o = [fst (map_of st s true); fst (map_of st s false)] ->
  (k1_shape s = false -> chk_C03 s o = 0) /\ (chk_C03 s o = 0 \/ chk_C03 s o = 51).
Proof.
  intros Hs E1 E2 E3.
  rewrite (chk_C03_unfold s st o cls2_treeAM E1 E2 E3 (fun c => warm_map_text2 st c (proj1 Hs))).
  destruct (k1_shape s) eqn:Hk.
  - split; [discriminate|].
    destruct (negb (Bool.eqb _ _)); [right; reflexivity|].
    destruct (negb (Bool.eqb _ _)); [right|left]; reflexivity.
  - rewrite (warm_map_none2 st true Hs Hk), (warm_map_none2 st false Hs Hk), !Bool.eqb_reflx.
    split; [intros _; reflexivity|left; reflexivity].
Qed.

(* after ANY warm-up history, outside K1 *)
Theorem chk_C03_warm2 (ws : list (N * wop)) : k1_shape s = false -> chk_C03 s (api_tree s ws) = 0.
Proof.
  intros Hk.
  destruct (chk_C03_warm2_store (run_warm [] s ws) (api_tree s ws) (warm_soundM ws [] (soundM_empty s))
              eq_refl eq_refl eq_refl) as [X _].
  apply X. exact Hk.
Qed.

Theorem chk_C03_warm2_any (ws : list (N * wop)) :
  chk_C03 s (api_tree s ws) = 0 \/ (k1_shape s = true /\ chk_C03 s (api_tree s ws) = 51).
Proof.
  destruct (chk_C03_warm2_store (run_warm [] s ws) (api_tree s ws) (warm_soundM ws [] (soundM_empty s))
              eq_refl eq_refl eq_refl) as [X Y].
  destruct (k1_shape s) eqn:Hk.
  - destruct Y as [Y|Y]; [left; exact Y|right; split; [reflexivity|exact Y]].
  - left. apply X. reflexivity.
Qed.

End GM.

(* ================================================================== *)
(* the statements with the hypotheses spelled out                       *)
(* ================================================================== *)
Theorem C03_warm_comb_checker (s : src) (ws : list (N * wop)) :
  ids_distinct s -> k2_shape s = false -> rshape2 (uncache s) = true -> treeA s = true ->
  tiny2 (uncache s) = true -> k1_shape s = false ->
  chk_C03 s (api_tree s ws) = 0.
Proof. intros H1 H2 H3 H4 H5 Hk. apply chk_C03_warm2; [exact H1|apply tiny2_cls2; assumption|exact Hk]. Qed.

Theorem C03_warm_comb_checker_any (s : src) (ws : list (N * wop)) :
  ids_distinct s -> k2_shape s = false -> rshape2 (uncache s) = true -> treeA s = true ->
  tiny2 (uncache s) = true ->
  chk_C03 s (api_tree s ws) = 0 \/ (k1_shape s = true /\ chk_C03 s (api_tree s ws) = 51).
Proof. intros H1 H2 H3 H4 H5. apply chk_C03_warm2_any; [exact H1|apply tiny2_cls2; assumption]. Qed.

(* ================================================================== *)
(* tests                                                                *)
(* ================================================================== *)
(* the trees of WarmCombHist.v (combined leaves beneath CachedSource nodes), any warm-up history *)
Example wc_tree_C03 (r : bool) (ws : list (N * wop)) :
  chk_C03 (wc_tree r) (api_tree (wc_tree r) ws) = 0 /\ chk_C03 (wc_small r) (api_tree (wc_small r) ws) = 0.
Proof.
  split; apply C03_warm_comb_checker; try (destruct r; vm_compute; reflexivity).
  - apply wc_tree_distinct.
  - apply wc_small_distinct.
Qed.

Example wc_tree_C03_recomputed (r : bool) : chk_C03 (wc_tree r) (api_tree (wc_tree r) wc_warm) = 0.
Proof. destruct r; vm_compute; reflexivity. Qed.

Print Assumptions soundM_empty.
Print Assumptions warmM_all.
Print Assumptions warm_soundM.
Print Assumptions warm_map_text2.
Print Assumptions warm_map_none2.
Print Assumptions chk_C03_warm2_store.
Print Assumptions chk_C03_warm2.
Print Assumptions chk_C03_warm2_any.
Print Assumptions C03_warm_comb_checker.
Print Assumptions C03_warm_comb_checker_any.
Print Assumptions wc_tree_C03.
