(* Input-side size bounds, part 3 (B3, indices): the streams of a tree of the class announce at
   most `asrc s` sources and `anam s` names (a ConcatSource announces at most what its children
   announce, a ReplaceSource at most one more name per replacement); the announcements are
   dense (FinalDense.v), so every source / name index of a segment is below these counts. *)
From RS Require Import Base.Prelude Base.Text Rope.RopeModel Codec.Vlq Codec.CodecSpec
  Checkers.ChkCodec Stream.Types Stream.Leaves Stream.Concat Stream.Replace Stream.Combined Stream.Tree
  Sem.Attr Checkers.ChkTree
  Proofs.RopeWf Proofs.ReplaceSort Proofs.CodecKept Proofs.StreamText Proofs.StreamLeaves Proofs.StreamMap Proofs.StreamConcat Proofs.StreamTree
  Proofs.WfStream Proofs.WfFinal Proofs.RStreamText Proofs.RStreamPos Proofs.RStreamTree
  Proofs.AttrCodec Proofs.AttrSms Proofs.AttrLeaves Proofs.LawConcatAttr Proofs.LawWrappers
  Proofs.CacheReplay Proofs.FinalDense Proofs.FinalReplace Proofs.FinalConcat Proofs.FinalTree
  Proofs.ReplAttrStream Proofs.BoundsPos.
Require Import Lia List ZArith Permutation.

Local Open Scope N_scope.

(* ------------------------------------------------------------------ *)
(* counting announcements                                              *)
(* ------------------------------------------------------------------ *)
Fixpoint nS (evs : list event) : N :=
  match evs with
  | [] => 0
  | ESource _ _ _ :: evs' => 1 + nS evs'
  | _ :: evs' => nS evs'
  end.

Fixpoint nN (evs : list event) : N :=
  match evs with
  | [] => 0
  | EName _ _ :: evs' => 1 + nN evs'
  | _ :: evs' => nN evs'
  end.

Lemma nS_app a b : nS (a ++ b) = nS a + nS b.
Proof. induction a as [|e a IH]; [reflexivity|]. destruct e; cbn [app nS]; rewrite IH; lia. Qed.

Lemma nN_app a b : nN (a ++ b) = nN a + nN b.
Proof. induction a as [|e a IH]; [reflexivity|]. destruct e; cbn [app nN]; rewrite IH; lia. Qed.

Lemma only_chunks_n evs : only_chunks evs = true -> nS evs = 0 /\ nN evs = 0.
Proof.
  unfold only_chunks. induction evs as [|e evs IH]; intros H; [split; reflexivity|].
  cbn [forallb] in H. apply andb_true_iff in H. destruct H as [H1 H2].
  destruct e; cbn [is_chunk] in H1; try discriminate. cbn [nS nN]. apply IH. exact H2.
Qed.

Lemma chunk_ok_only ns nn evs : Forall (chunk_ok ns nn) evs -> only_chunks evs = true.
Proof.
  unfold only_chunks. induction 1 as [|e evs He _ IH]; [reflexivity|].
  cbn [forallb]. rewrite IH. destruct e; cbn [chunk_ok] in He; try contradiction. reflexivity.
Qed.

(* dense announcements: indices are below the number of announcements *)
Definition idx_lt (a b : N) (m : mapping) : Prop :=
  match m_orig m with
  | Some o => o_src o < a /\ match o_name o with Some n => n < b | None => True end
  | None => True
  end.

Lemma idx_lt_mono a b a' b' m : a <= a' -> b <= b' -> idx_lt a b m -> idx_lt a' b' m.
Proof.
  unfold idx_lt. intros H1 H2. destruct (m_orig m) as [o|]; [|auto]. intros [A B].
  split; [lia|]. destruct (o_name o); [lia|exact I].
Qed.

Lemma dense_idx : forall evs ns nn, dense evs ns nn = true ->
  Forall (idx_lt (ns + nS evs) (nn + nN evs)) (chunk_mappings evs).
Proof.
  induction evs as [|e evs IH]; intros ns nn H; [constructor|].
  destruct e as [t m|i n c|i n]; cbn [dense chunk_mappings nS nN] in *.
  - apply andb_true_iff in H. destruct H as [H1 H2]. constructor.
    + unfold idx_lt. destruct (m_orig m) as [o|]; [|exact I].
      apply andb_true_iff in H1. destruct H1 as [A B]. apply N.ltb_lt in A. split; [lia|].
      destruct (o_name o); [apply N.ltb_lt in B; lia|exact I].
    + apply IH. exact H2.
  - apply andb_true_iff in H. destruct H as [_ H2]. specialize (IH _ _ H2).
    eapply Forall_impl; [|exact IH]. intros m. apply idx_lt_mono; lia.
  - apply andb_true_iff in H. destruct H as [_ H2]. specialize (IH _ _ H2).
    eapply Forall_impl; [|exact IH]. intros m. apply idx_lt_mono; lia.
Qed.

(* ------------------------------------------------------------------ *)
(* leaves                                                              *)
(* ------------------------------------------------------------------ *)
Lemma raw_stream_n t f : nS (fst (raw_stream t f)) = 0 /\ nN (fst (raw_stream t f)) = 0.
Proof.
  unfold raw_stream. destruct f; cbn [fst]; [split; reflexivity|].
  apply only_chunks_n. apply raw_chunks_only.
Qed.

Lemma line_chunks_only : forall ls i, only_chunks (original_line_chunks ls i) = true.
Proof. induction ls as [|l ls IH]; intros i; [reflexivity|]. cbn [original_line_chunks]. apply IH. Qed.

Lemma original_stream_n v name o :
  nS (fst (original_stream v name o)) = 1 /\ nN (fst (original_stream v name o)) = 0.
Proof.
  unfold original_stream. destruct (columns o).
  - pose proof (tokens_only (potential_tokens v) (final_source o) 1 0) as H.
    destruct (original_tokens (potential_tokens v) (final_source o) 1 0) as [evs gi]. cbn [fst] in *.
    destruct (only_chunks_n _ H) as [A B]. cbn [nS nN]. rewrite A, B. split; reflexivity.
  - destruct (final_source o).
    + destruct (gen_info v) as [gl gc]. cbn [fst].
      destruct (only_chunks_n _ (marks_only (N.to_nat (if gc =? 0 then gl - 1 else gl)) 1)) as [A B].
      cbn [nS nN]. rewrite A, B. split; reflexivity.
    + cbn [fst]. destruct (only_chunks_n _ (line_chunks_only (split_lines v) 1)) as [A B].
      cbn [nS nN]. rewrite A, B. split; reflexivity.
Qed.

Lemma announce_sources_n m srcs : forall i,
  nS (announce_sources m srcs i) = len srcs /\ nN (announce_sources m srcs i) = 0.
Proof.
  induction srcs as [|s srcs IH]; intros i; [split; reflexivity|].
  cbn [announce_sources nS nN]. destruct (IH (i + 1)) as [A B]. rewrite A, B, len_cons. split; lia.
Qed.

Lemma announce_names_n names : forall i,
  nS (announce_names names i) = 0 /\ nN (announce_names names i) = len names.
Proof.
  induction names as [|s names IH]; intros i; [split; reflexivity|].
  cbn [announce_names nS nN]. destruct (IH (i + 1)) as [A B]. rewrite A, B, len_cons. split; lia.
Qed.

Lemma sm_stream_n t m o :
  nS (fst (sm_stream t m o)) <= len (sm_sources m) /\ nN (fst (sm_stream t m o)) <= len (sm_names m).
Proof.
  unfold sm_stream. destruct (columns o), (final_source o).
  - unfold sm_stream_final. destruct (gen_info t) as [rl rc].
    destruct ((rl =? 1) && (rc =? 0)); cbn [fst]; [cbn; lia|].
    rewrite !nS_app, !nN_app.
    destruct (announce_sources_n m (sm_sources m) 0) as [A1 A2].
    destruct (announce_names_n (sm_names m) 0) as [B1 B2].
    destruct (only_chunks_n _ (final_loop_chunks rl rc (decode_mappings (sm_mappings m)) 0)) as [C1 C2].
    lia.
  - unfold sm_stream_full. destruct (is_nil (split_lines t)); [cbn; lia|].
    destruct (lines_end_info (split_lines t)) as [fl fc].
    pose proof (loop_only (split_lines t) fl fc (decode_mappings (sm_mappings m)) (mkF 1 0 false None)) as L.
    destruct (sm_full_loop (split_lines t) fl fc (mkF 1 0 false None) (decode_mappings (sm_mappings m)))
      as [st evs]. cbn [snd] in L.
    pose proof (step_only (split_lines t) fl fc st (unmapped fl fc)) as S.
    destruct (sm_full_step (split_lines t) fl fc st (unmapped fl fc)) as [st' evs']. cbn [fst snd] in *.
    rewrite !nS_app, !nN_app.
    destruct (announce_sources_n m (sm_sources m) 0) as [A1 A2].
    destruct (announce_names_n (sm_names m) 0) as [B1 B2].
    destruct (only_chunks_n _ L) as [C1 C2]. destruct (only_chunks_n _ S) as [D1 D2]. lia.
  - unfold sm_stream_lines_final. destruct (gen_info t) as [rl rc].
    destruct ((rl =? 1) && (rc =? 0)); cbn [fst]; [cbn; lia|].
    rewrite !nS_app, !nN_app.
    destruct (announce_sources_n m (sm_sources m) 0) as [A1 A2].
    match goal with |- context [sm_lines_final_loop ?ms ?c ?f] =>
      destruct (only_chunks_n _ (lines_final_loop_chunks f ms c)) as [C1 C2] end.
    lia.
  - unfold sm_stream_lines_full. destruct (is_nil (split_lines t)); [cbn; lia|].
    pose proof (lines_full_loop_only (split_lines t) (decode_mappings (sm_mappings m)) 1) as L.
    destruct (sm_lines_full_loop (split_lines t) (decode_mappings (sm_mappings m)) 1) as [cur evs].
    cbn [fst snd] in *. rewrite !nS_app, !nN_app.
    destruct (announce_sources_n m (sm_sources m) 0) as [A1 A2].
    destruct (only_chunks_n _ L) as [C1 C2].
    destruct (only_chunks_n _ (whole_lines_only (split_lines t) 1 cur (len (split_lines t) + 1))) as [D1 D2].
    lia.
Qed.

(* ------------------------------------------------------------------ *)
(* ConcatSource                                                        *)
(* ------------------------------------------------------------------ *)
Lemma concat_event_n final st e :
  nS (snd (concat_event final st e)) <= nS [e] /\ nN (snd (concat_event final st e)) <= nN [e].
Proof.
  destruct e as [chunk m|i name content|i name]; cbn [concat_event].
  - cbn [snd]. rewrite nS_app, nN_app.
    destruct (c_close st && negb ((g_line m =? 1) && (g_col m =? 0))); cbn [nS nN closer];
      (destruct (m_orig m) as [o|]; [destruct (lm_get (c_src_idx st) (o_src o))|]); cbn [nS nN]; lia.
  - destruct (find_text (c_sources st) name 0); cbn [snd nS nN]; lia.
  - destruct (find_text (c_names st) name 0); cbn [snd nS nN]; lia.
Qed.

Lemma n_cons e evs : nS (e :: evs) = nS [e] + nS evs /\ nN (e :: evs) = nN [e] + nN evs.
Proof. split; [apply (nS_app [e] evs)|apply (nN_app [e] evs)]. Qed.

Lemma concat_events_n final : forall evs st,
  nS (snd (concat_events final st evs)) <= nS evs /\ nN (snd (concat_events final st evs)) <= nN evs.
Proof.
  induction evs as [|e evs IH]; intros st; [cbn; lia|].
  cbn [concat_events]. pose proof (concat_event_n final st e) as [A1 A2].
  destruct (concat_event final st e) as [st1 o1]. specialize (IH st1).
  destruct (concat_events final st1 evs) as [st2 o2]. cbn [snd] in *.
  destruct (n_cons e evs) as [E1 E2]. rewrite nS_app, nN_app, E1, E2. lia.
Qed.

Lemma concat_child_n final st evs gi :
  nS (snd (concat_child final st evs gi)) <= nS evs /\ nN (snd (concat_child final st evs gi)) <= nN evs.
Proof.
  unfold concat_child. pose proof (concat_events_n final evs (concat_child_start st)) as A.
  destruct (concat_events final (concat_child_start st) evs) as [st1 o1]. cbn [snd] in A.
  unfold concat_child_end. cbn [snd]. rewrite nS_app, nN_app.
  destruct (c_close st1 && negb ((fst gi =? 1) && (snd gi =? 0))); cbn [nS nN closer]; lia.
Qed.

Definition sumS (kids : list (list event * (N * N))) : N := fold_right (fun k acc => nS (fst k) + acc) 0 kids.
Definition sumN (kids : list (list event * (N * N))) : N := fold_right (fun k acc => nN (fst k) + acc) 0 kids.

Lemma concat_fold_n final : forall (kids : list (list event * (N * N))) st out,
  nS (snd (concat_fold final kids (st, out))) <= nS out + sumS kids /\
  nN (snd (concat_fold final kids (st, out))) <= nN out + sumN kids.
Proof.
  induction kids as [|k kids IH]; intros st out; [cbn; lia|].
  rewrite concat_fold_cons. cbn [fst snd].
  pose proof (concat_child_n final st (fst k) (snd k)) as A.
  destruct (concat_child final st (fst k) (snd k)) as [st' o]. cbn [fst snd] in *.
  specialize (IH st' (out ++ o)). rewrite nS_app, nN_app in IH.
  unfold sumS, sumN in *. cbn [fold_right]. lia.
Qed.

(* ------------------------------------------------------------------ *)
(* ReplaceSource: at most one new name per replacement                   *)
(* ------------------------------------------------------------------ *)
Lemma rest_drop_cols st l k : rs_rest (drop_cols st l k) = rs_rest st.
Proof. unfold drop_cols. destruct (rs_cline st =? l)%Z; reflexivity. Qed.

Lemma rest_skip_whole st l nl gc k : rs_rest (skip_whole st l nl gc k) = rs_rest st.
Proof.
  unfold skip_whole. destruct nl; [|apply rest_drop_cols].
  destruct (rs_cline st =? l)%Z; reflexivity.
Qed.

Lemma emit_content_n gc mo ls : forall st line name,
  rs_rest (fst (fst (emit_content st ls line gc mo name))) = rs_rest st /\
  only_chunks (snd (emit_content st ls line gc mo name)) = true.
Proof.
  induction ls as [|cl ls IH]; intros st line name.
  - cbn [emit_content fst snd]. split; reflexivity.
  - cbn [emit_content].
    destruct (is_nil ls && negb (ends_with_nl cl)); [destruct (rs_cline st =? line)%Z|];
      match goal with |- context [emit_content ?s ls ?l gc mo None] =>
        pose proof (IH s l None) as [A B];
        destruct (emit_content s ls l gc mo None) as [[st2 line2] evs] end;
      cbn [fst snd] in *; (split; [rewrite A; reflexivity|exact B]).
Qed.

Lemma rl_pre_n r st v chunk line :
  rs_rest (fst (fst (rl_pre r st v chunk line))) = rs_rest st /\
  only_chunks (snd (rl_pre r st v chunk line)) = true.
Proof. unfold rl_pre. destruct (rs_pos st <? r_start r); cbn [fst snd]; split; reflexivity. Qed.

Lemma rl_name_n r st1 v1 :
  rs_rest (fst (fst (rl_name r st1 v1))) = rs_rest st1 /\
  nS (snd (rl_name r st1 v1)) = 0 /\ nN (snd (rl_name r st1 v1)) <= 1.
Proof.
  unfold rl_name. destruct (r_name r) as [nm|]; [destruct (v_orig v1) as [o|]|]; cbn zeta.
  - destruct (find_text (rs_names st1) nm 0) as [g|]; cbn [fst snd rs_rest nS nN]; repeat split; lia.
  - cbn [fst snd nS nN]. repeat split; lia.
  - cbn [fst snd nS nN]. repeat split; lia.
Qed.

Lemma repl_loop_n chunk gl end_pos : forall rest st v, rs_rest st = rest ->
  nS (snd (fst (repl_loop rest st v chunk gl end_pos))) = 0 /\
  nN (snd (fst (repl_loop rest st v chunk gl end_pos)))
    + len (rs_rest (fst (fst (fst (repl_loop rest st v chunk gl end_pos))))) <= len rest.
Proof.
  induction rest as [|r rest' IH]; intros st v Hr.
  - cbn [repl_loop fst snd nS nN]. rewrite Hr. cbn. lia.
  - rewrite repl_loop_eq. destruct (negb (r_start r <? end_pos)).
    { cbn [fst snd nS nN]. rewrite Hr. lia. }
    cbn zeta.
    pose proof (rl_pre_n r st v chunk (Z.of_N gl + rs_loff st)%Z) as [A1 A2].
    destruct (rl_pre r st v chunk (Z.of_N gl + rs_loff st)%Z) as [[st1 v1] ev1]. cbn [fst snd] in A1, A2.
    pose proof (rl_name_n r st1 v1) as [B1 [B2 B3]].
    destruct (rl_name r st1 v1) as [[st2 name_idx] ev_name]. cbn [fst snd] in B1, B2, B3.
    pose proof (emit_content_n (v_gc v1) (v_orig v1) (split_lines (r_content r)) st2
                  (Z.of_N gl + rs_loff st)%Z name_idx) as [C1 C2].
    destruct (emit_content st2 (split_lines (r_content r)) (Z.of_N gl + rs_loff st)%Z (v_gc v1) (v_orig v1) name_idx)
      as [[st3 l3] ev2]. cbn [fst snd] in C1, C2.
    destruct (only_chunks_n _ A2) as [A3 A4]. destruct (only_chunks_n _ C2) as [C3 C4].
    assert (E4 : rs_rest (rl_st4 r rest' st3) = rest') by reflexivity.
    assert (HoS : nS (ev1 ++ ev_name ++ ev2) = 0) by (rewrite !nS_app; lia).
    assert (HoN : nN (ev1 ++ ev_name ++ ev2) <= 1) by (rewrite !nN_app; lia).
    set (st4 := rl_st4 r rest' st3) in *. clearbody st4.
    rewrite len_cons.
    match goal with |- context [(0 <? ?off)%Z] => destruct (0 <? off)%Z end.
    + match goal with |- context [end_pos <=? ?re] => destruct (end_pos <=? re) end.
      * cbn [fst snd]. split; [exact HoS|].
        change (rs_rest (set_pos ?s _)) with (rs_rest s). rewrite rest_skip_whole, E4. lia.
      * match goal with |- context [repl_loop rest' ?s5 ?v2 chunk gl end_pos] =>
          assert (E5 : rs_rest s5 = rest')
            by (rewrite rest_drop_cols; exact E4);
          pose proof (IH s5 v2 E5) as [K1 K2];
          destruct (repl_loop rest' s5 v2 chunk gl end_pos) as [[[st6 v3] ev3] early] end.
        cbn [fst snd] in *.
        rewrite 2!app_assoc, <- (app_assoc ev1), nS_app, nN_app. split; lia.
    + pose proof (IH st4 v1 E4) as [K1 K2].
      destruct (repl_loop rest' st4 v1 chunk gl end_pos) as [[[st6 v3] ev3] early].
      cbn [fst snd] in *.
      rewrite 2!app_assoc, <- (app_assoc ev1), nS_app, nN_app. split; lia.
Qed.

Lemma rc_pre_n st chunk m : rs_rest (fst (fst (rc_pre st chunk m))) = rs_rest st.
Proof.
  unfold rc_pre. cbn zeta.
  destruct (match rs_rend st with Some re => if rs_pos st <? re then Some re else None | None => None end)
    as [re|]; [|reflexivity].
  destruct (rs_pos st + len chunk <=? re); cbn [fst snd].
  - change (rs_rest (set_pos ?s _)) with (rs_rest s). apply rest_skip_whole.
  - rewrite rest_drop_cols. reflexivity.
Qed.

Lemma replace_chunk_n st chunk m :
  nS (snd (replace_chunk st chunk m)) = 0 /\
  nN (snd (replace_chunk st chunk m)) + len (rs_rest (fst (replace_chunk st chunk m))) <= len (rs_rest st).
Proof.
  rewrite WfStream.replace_chunk_eq. cbn zeta.
  pose proof (rc_pre_n st chunk m) as A1.
  destruct (rc_pre st chunk m) as [[st1 v1] early]. cbn [fst snd] in A1.
  destruct early; [cbn [fst snd nS nN]; rewrite A1; split; lia|].
  pose proof (repl_loop_n chunk (g_line m) (rs_pos st + len chunk) (rs_rest st1) st1 v1 eq_refl) as [B1 B2].
  destruct (repl_loop (rs_rest st1) st1 v1 chunk (g_line m) (rs_pos st + len chunk)) as [[[st2 v2] ev2] early2].
  cbn [fst snd] in B1, B2. rewrite A1 in B2.
  destruct early2; cbn [fst snd]; [split; [exact B1|exact B2]|].
  change (rs_rest (set_pos ?s _)) with (rs_rest s). rewrite nS_app, nN_app.
  destruct (v_cpos v2 <? len chunk); cbn [nS nN]; split; lia.
Qed.

Lemma replace_event_n st e :
  nS (snd (replace_event st e)) <= nS [e] /\
  nN (snd (replace_event st e)) + len (rs_rest (fst (replace_event st e))) <= nN [e] + len (rs_rest st).
Proof.
  destruct e as [t m|i name content|i name]; cbn [replace_event].
  - destruct t as [chunk|]; [|cbn [fst snd nS nN]; lia].
    destruct (replace_chunk_n st chunk m) as [A B]. cbn [nS nN]. lia.
  - cbn [fst snd nS nN rs_rest]. lia.
  - destruct (find_text (rs_names st) name 0); cbn [fst snd nS nN rs_rest]; lia.
Qed.

Lemma replace_events_n : forall evs st,
  nS (snd (replace_events st evs)) <= nS evs /\
  nN (snd (replace_events st evs)) + len (rs_rest (fst (replace_events st evs))) <= nN evs + len (rs_rest st).
Proof.
  induction evs as [|e evs IH]; intros st; [cbn [replace_events fst snd nS nN]; lia|].
  cbn [replace_events]. pose proof (replace_event_n st e) as [A1 A2].
  destruct (replace_event st e) as [st1 o1]. cbn [fst snd] in A1, A2.
  specialize (IH st1). destruct (replace_events st1 evs) as [st2 o2]. cbn [fst snd] in *.
  destruct (n_cons e evs) as [E1 E2]. rewrite nS_app, nN_app, E1, E2. lia.
Qed.

Theorem replace_stream_n (sorted : list repl) (ievs : list event) (gi : N * N) :
  nS (fst (replace_stream sorted ievs gi)) <= nS ievs /\
  nN (fst (replace_stream sorted ievs gi)) <= nN ievs + len sorted.
Proof.
  unfold replace_stream.
  pose proof (replace_events_n ievs (replace_init sorted)) as [A1 A2].
  destruct (replace_events (replace_init sorted) ievs) as [st evs]. cbn [fst snd] in A1, A2.
  change (rs_rest (replace_init sorted)) with sorted in A2.
  rewrite emit_remainder_content.
  pose proof (emit_content_n (snd gi) None (split_lines (concat (map r_content (rs_rest st))))
                st (Z.of_N (fst gi) + rs_loff st)%Z None) as [_ B].
  destruct (emit_content st (split_lines (concat (map r_content (rs_rest st))))
              (Z.of_N (fst gi) + rs_loff st)%Z (snd gi) None None) as [[st' line'] evs'].
  cbn [fst snd] in *. destruct (only_chunks_n _ B) as [B1 B2]. rewrite nS_app, nN_app. lia.
Qed.

Lemma len_sort_repls rs : len (sort_repls rs) = len rs.
Proof. unfold len. f_equal. apply Permutation_length. apply sort_repls_perm. Qed.

(* ------------------------------------------------------------------ *)
(* trees                                                               *)
(* ------------------------------------------------------------------ *)
Definition cnt_all (s : src) : Prop :=
  forall o st, nS (fst (fst (stream st s o))) <= asrc s /\ nN (fst (fst (stream st s o))) <= anam s.

Lemma kid_streams_n o cs : Forall cnt_all cs -> forall st,
  sumS (fst (kid_streams st cs o)) <= fold_right (fun c acc => asrc c + acc) 0 cs /\
  sumN (fst (kid_streams st cs o)) <= fold_right (fun c acc => anam c + acc) 0 cs.
Proof.
  induction 1 as [|c cs Hc _ IH]; intros st; [cbn; lia|].
  cbn [kid_streams]. specialize (Hc o st).
  destruct (stream st c o) as [[evs gi] st1]. specialize (IH st1).
  destruct (kid_streams st1 cs o) as [ks st2]. cbn [fst snd] in *.
  unfold sumS, sumN in *. cbn [fold_right fst]. lia.
Qed.

Theorem cnt_tree : forall s, rshape s = true -> cnt_all s.
Proof.
  apply (src_ind' (fun s => rshape s = true -> cnt_all s)).
  - intros b v _ o st. cbn [stream fst asrc anam]. destruct (raw_stream_n (source (SRaw b v)) (final_source o)). lia.
  - intros v _ o st. cbn [stream fst asrc anam]. destruct (raw_stream_n (source (SRawString v)) (final_source o)). lia.
  - intros v _ o st. cbn [stream fst asrc anam]. destruct (raw_stream_n (source (SRawBuffer v)) (final_source o)). lia.
  - intros v n _ o st. cbn [stream fst asrc anam]. destruct (original_stream_n v n o). lia.
  - intros v n m og i r Hsh o st. cbn [rshape] in Hsh. destruct i as [im|]; [discriminate|].
    cbn [stream fst asrc anam]. apply sm_stream_n.
  - intros cs IH Hsh o st. cbn [rshape] in Hsh.
    assert (Hall : Forall cnt_all cs).
    { rewrite Forall_forall in *. rewrite forallb_forall in Hsh. intros c Hc. apply IH; [exact Hc|apply Hsh; exact Hc]. }
    destruct (Nat.eq_dec (length cs) 1) as [E|E].
    + destruct cs as [|c [|c2 r]]; try discriminate. inversion Hall as [|? ? Hc _].
      specialize (Hc o st). cbn [asrc anam fold_right]. cbn [stream]. lia.
    + rewrite (stream_concat_fold st cs o E). cbn [fst asrc anam].
      pose proof (concat_fold_n (final_source o) (fst (kid_streams st cs o)) concat_init []) as [A1 A2].
      pose proof (kid_streams_n o cs Hall st) as [B1 B2]. cbn [nS nN] in A1, A2. lia.
  - intros i rs IH Hsh o st. cbn [rshape] in Hsh. cbn [stream asrc anam].
    pose proof (IH Hsh (mkOpts (columns o) false) st) as [A1 A2].
    destruct (stream st i (mkOpts (columns o) false)) as [[ievs gi] st']. cbn [fst snd] in *.
    pose proof (replace_stream_n (sort_repls rs) ievs gi) as [B1 B2]. rewrite len_sort_repls in B2. lia.
  - intros id i _ Hsh. discriminate.
Qed.

(* every index of a segment is below the number of sources / names the tree can announce *)
Theorem idx_bound (st : store) (s : src) (o : opts) :
  rshape s = true -> treeA s = true ->
  Forall (idx_lt (asrc s) (anam s)) (chunk_mappings (fst (fst (stream st s o)))).
Proof.
  intros H1 H2. pose proof (dense_tree_any s st o H1 H2) as Hd.
  pose proof (cnt_tree s H1 o st) as [A B].
  eapply Forall_impl; [|apply (dense_idx _ 0 0 Hd)]. intros m. apply idx_lt_mono; lia.
Qed.

(* B3, indices *)
Theorem idx_small (st : store) (s : src) (o : opts) :
  rshape s = true -> treeA s = true -> tiny s = true ->
  Forall (idx_lt K30 K30) (chunk_mappings (fst (fst (stream st s o)))).
Proof.
  intros H1 H2 H3. destruct (tiny_parts s H3) as [_ [A [B _]]].
  eapply Forall_impl; [|apply (idx_bound st s o H1 H2)]. intros m.
  apply idx_lt_mono; unfold KB, K30 in *; lia.
Qed.

Print Assumptions replace_stream_n.
Print Assumptions cnt_tree.
Print Assumptions idx_bound.
Print Assumptions idx_small.
