(* Stream proofs, part 5: tree-level corollary (L7) for trees built from raw leaves,
   OriginalSource, SourceMapSource without inner map, and ConcatSource. *)
From RS Require Import Base.Prelude Base.Text Rope.RopeModel Codec.Vlq Codec.CodecSpec
  Stream.Types Stream.Leaves Stream.Concat Stream.Replace Stream.Combined Stream.Tree
  Checkers.ChkTree
  Proofs.StreamText Proofs.StreamLeaves Proofs.StreamMap Proofs.StreamConcat.
Require Import Lia List.

Local Open Scope N_scope.

(* ------------------------------------------------------------------ *)
(* the class of trees                                                  *)
(* ------------------------------------------------------------------ *)
(* SourceMapSource leaves: no inner map, decoded segments sorted, and no line of the text
   starts with a continuation byte (`lines_ok`, true of valid UTF-8; see StreamMap.v for why
   it cannot be dropped) *)
Fixpoint simple (s : src) : bool :=
  match s with
  | SRaw _ _ | SRawString _ | SRawBuffer _ | SOriginal _ _ => true
  | SMapped v _ m _ None _ => lines_ok v && sorted_by pos_le (decode_mappings (sm_mappings m))
  | SMapped _ _ _ _ (Some _) _ => false
  | SConcat cs => forallb simple cs
  | SReplace _ _ | SCached _ _ => false
  end.

(* for positions: SourceMapSource texts are ASCII and their segments lie on the text *)
Fixpoint simple_pos (s : src) : bool :=
  match s with
  | SMapped v _ m _ _ _ => ascii v && segs_ok v (decode_mappings (sm_mappings m))
  | SConcat cs => forallb simple_pos cs
  | _ => true
  end.

(* ------------------------------------------------------------------ *)
(* induction on source trees                                           *)
(* ------------------------------------------------------------------ *)
Section SrcInd.
Variable P : src -> Prop.
Hypothesis HRaw : forall b v, P (SRaw b v).
Hypothesis HRawString : forall v, P (SRawString v).
Hypothesis HRawBuffer : forall v, P (SRawBuffer v).
Hypothesis HOriginal : forall v n, P (SOriginal v n).
Hypothesis HMapped : forall v n m o i r, P (SMapped v n m o i r).
Hypothesis HConcat : forall cs, Forall P cs -> P (SConcat cs).
Hypothesis HReplace : forall i rs, P i -> P (SReplace i rs).
Hypothesis HCached : forall id i, P i -> P (SCached id i).

Fixpoint src_ind' (s : src) : P s :=
  match s with
  | SRaw b v => HRaw b v
  | SRawString v => HRawString v
  | SRawBuffer v => HRawBuffer v
  | SOriginal v n => HOriginal v n
  | SMapped v n m o i r => HMapped v n m o i r
  | SConcat cs =>
    HConcat cs ((fix go (l : list src) : Forall P l :=
                   match l with
                   | [] => Forall_nil P
                   | c :: l' => Forall_cons c (src_ind' c) (go l')
                   end) cs)
  | SReplace i rs => HReplace i rs (src_ind' i)
  | SCached id i => HCached id i (src_ind' i)
  end.
End SrcInd.

(* ------------------------------------------------------------------ *)
(* the statement proved by induction                                   *)
(* ------------------------------------------------------------------ *)
Definition tree_good (s : src) : Prop :=
  forall st cols, simple s = true ->
    let r := stream st s (mkOpts cols false) in
    Reass (fst (fst r)) (source s) /\ snd (fst r) = advance 1 0 (source s) /\ snd r = st /\
    (simple_pos s = true -> WP (fst (fst r)) (1, 0)).

Definition cfold_step (o : opts) (acc : cstate * list event * store) (c : src)
  : cstate * list event * store :=
  let '(cst, evs, st0) := acc in
  let '(cevs, gi, st1) := stream st0 c o in
  let '(cst', out) := concat_child (final_source o) cst cevs gi in
  (cst', evs ++ out, st1).

Lemma cfold_step_eq o cst evs st c :
  cfold_step o (cst, evs, st) c =
  let '(cevs, gi, st1) := stream st c o in
  let '(cst', out) := concat_child (final_source o) cst cevs gi in
  (cst', evs ++ out, st1).
Proof. reflexivity. Qed.

Lemma stream_concat_eq st cs o :
  stream st (SConcat cs) o =
  match cs with
  | [c] => stream st c o
  | _ =>
    let '(cst, evs, st') := fold_left (cfold_step o) cs (concat_init, [], st) in
    (evs, concat_result cst, st')
  end.
Proof. destruct cs as [|c [|c2 r]]; reflexivity. Qed.

Lemma cfold_spec cols cs : Forall tree_good cs -> forallb simple cs = true ->
  forall cst evs st T, cinv (cst, evs) T ->
  let r := fold_left (cfold_step (mkOpts cols false)) cs (cst, evs, st) in
  cinv (fst r) (T ++ concat (map source cs)) /\ snd r = st /\
  (WP evs (1, 0) -> forallb simple_pos cs = true -> WP (snd (fst r)) (1, 0)).
Proof.
  induction 1 as [|c cs Hc _ IH]; intros Hs cst evs st T HI.
  - cbn [fold_left map concat fst snd]. rewrite app_nil_r. split; [exact HI|]. split; [reflexivity|].
    intros H _. exact H.
  - cbn [forallb] in Hs. apply andb_true_iff in Hs. destruct Hs as [Hs1 Hs2].
    cbn [fold_left]. rewrite cfold_step_eq.
    pose proof (Hc st cols Hs1) as [A1 [A2 [A3 A4]]]. cbn zeta in A1, A2, A3, A4.
    destruct (stream st c (mkOpts cols false)) as [[cevs gi] st1]. cbn [fst snd] in *. subst st1.
    cbn [final_source].
    pose proof (cinv_step (cst, evs) T cevs gi (source c) HI A1 A2) as [B1 B2]. cbn zeta in B1, B2.
    cbn [fst snd] in B1, B2.
    destruct (concat_child false cst cevs gi) as [cst' out]. cbn [fst snd] in *.
    pose proof (IH Hs2 cst' (evs ++ out) st (T ++ source c) B1) as [C1 [C2 C3]]. cbn zeta in C1, C2, C3.
    cbn [map concat]. rewrite app_assoc. split; [exact C1|]. split; [exact C2|].
    intros Hw Hp. cbn [forallb] in Hp. apply andb_true_iff in Hp. destruct Hp as [Hp1 Hp2].
    apply C3; [|exact Hp2]. apply B2; [exact Hw|apply A4; exact Hp1].
Qed.

Lemma tree_good_all : forall s, tree_good s.
Proof.
  apply src_ind'.
  - (* SRaw *) intros b v st cols _. cbn zeta. cbn [stream fst snd final_source].
    split; [apply raw_stream_good|]. split; [apply raw_stream_end|]. split; [reflexivity|].
    intros _. apply raw_stream_good.
  - (* SRawString *) intros v st cols _. cbn zeta. cbn [stream fst snd final_source].
    split; [apply raw_stream_good|]. split; [apply raw_stream_end|]. split; [reflexivity|].
    intros _. apply raw_stream_good.
  - (* SRawBuffer *) intros v st cols _. cbn zeta. cbn [stream fst snd final_source].
    split; [apply raw_stream_good|]. split; [apply raw_stream_end|]. split; [reflexivity|].
    intros _. apply raw_stream_good.
  - (* SOriginal *) intros v n st cols _. cbn zeta. cbn [stream fst snd source].
    split; [apply original_stream_good; reflexivity|]. split; [apply original_stream_end|].
    split; [reflexivity|]. intros _. apply original_stream_good. reflexivity.
  - (* SMapped *) intros v n m o i r st cols Hs. cbn [simple] in Hs.
    destruct i as [im|]; [discriminate|]. apply andb_true_iff in Hs. destruct Hs as [Hok Hsorted].
    cbn zeta. cbn [stream fst snd source].
    split; [|split; [apply sm_stream_end|split; [reflexivity|]]].
    + apply reassembles_iff. unfold sm_stream. cbn [columns final_source]. destruct cols.
      * apply sm_stream_full_reassembles_partial; assumption.
      * apply sm_stream_lines_full_reassembles.
    + cbn [simple_pos]. intros Hp. apply andb_true_iff in Hp. destruct Hp as [Ha Hseg].
      unfold sm_stream. cbn [columns final_source]. destruct cols.
      * apply sm_stream_full_positioned_partial; assumption.
      * apply sm_stream_lines_full_positioned.
  - (* SConcat *) intros cs IH st cols Hs. cbn [simple] in Hs. cbn zeta. rewrite stream_concat_eq.
    cbn [source simple_pos].
    pose proof (cfold_spec cols cs IH Hs concat_init [] st [] cinv_init) as [[A1 [A2 A3]] [A4 A5]].
    cbn zeta in *. cbn [app] in *.
    destruct cs as [|c [|c2 r]].
    + cbn [fold_left fst snd map concat]. split; [apply Reass_nil|]. split; [reflexivity|].
      split; [reflexivity|]. intros _. apply WP_nil.
    + inversion IH as [|? ? Hc _]. subst. cbn [forallb] in Hs. rewrite andb_true_r in Hs.
      pose proof (Hc st cols Hs) as [B1 [B2 [B3 B4]]]. cbn zeta in *.
      cbn [map concat]. rewrite app_nil_r. split; [exact B1|]. split; [exact B2|]. split; [exact B3|].
      cbn [forallb]. rewrite andb_true_r. exact B4.
    + destruct (fold_left (cfold_step (mkOpts cols false)) (c :: c2 :: r) (concat_init, [], st))
        as [[cst evs] st']. cbn [fst snd] in *.
      split; [exact A2|]. split; [exact A3|]. split; [exact A4|].
      intros Hp. apply A5; [apply WP_nil|exact Hp].
  - (* SReplace *) intros i rs _ st cols Hs. discriminate.
  - (* SCached *) intros id i _ st cols Hs. discriminate.
Qed.

(* ------------------------------------------------------------------ *)
(* L7                                                                  *)
(* ------------------------------------------------------------------ *)
Theorem simple_stream_reassembles (st : store) (s : src) (cols : bool) :
  simple s = true ->
  let '(evs, gi, st') := stream st s (mkOpts cols false) in
  reassembles evs (source s) = true /\ gi = advance 1 0 (source s) /\ st' = st.
Proof.
  intros Hs. pose proof (tree_good_all s st cols Hs) as [A1 [A2 [A3 _]]]. cbn zeta in *.
  destruct (stream st s (mkOpts cols false)) as [[evs gi] st']. cbn [fst snd] in *.
  split; [apply reassembles_iff; exact A1|]. split; assumption.
Qed.

Theorem simple_stream_positioned (st : store) (s : src) (cols : bool) :
  simple s = true -> simple_pos s = true ->
  let '(evs, gi, st') := stream st s (mkOpts cols false) in
  well_positioned (chunks_of evs) 1 0 = true.
Proof.
  intros Hs Hp. pose proof (tree_good_all s st cols Hs) as [_ [_ [_ A4]]]. cbn zeta in *.
  destruct (stream st s (mkOpts cols false)) as [[evs gi] st']. cbn [fst snd] in *.
  apply A4. exact Hp.
Qed.

(* ------------------------------------------------------------------ *)
(* the same, on the checkers' domains (tree_wf / treeA of ChkTree.v)     *)
(* ------------------------------------------------------------------ *)
Fixpoint simple_shape (s : src) : bool :=
  match s with
  | SMapped _ _ _ _ (Some _) _ => false
  | SReplace _ _ | SCached _ _ => false
  | SConcat cs => forallb simple_shape cs
  | _ => true
  end.

Fixpoint maps_sorted (s : src) : bool :=
  match s with
  | SMapped _ _ m _ _ _ => sorted_by pos_le (decode_mappings (sm_mappings m))
  | SConcat cs => forallb maps_sorted cs
  | _ => true
  end.

Lemma wf_simple : forall s,
  simple_shape s = true -> tree_wf s = true -> maps_sorted s = true -> simple s = true.
Proof.
  apply (src_ind' (fun s => simple_shape s = true -> tree_wf s = true -> maps_sorted s = true -> simple s = true));
    try (intros; reflexivity); try (intros; discriminate).
  - intros v n m o i r Hsh Hwf Hso. cbn [simple_shape tree_wf maps_sorted simple] in *.
    destruct i as [im|]; [discriminate|]. apply andb_true_iff in Hwf. destruct Hwf as [Hv _].
    rewrite (valid_utf8_lines_ok v Hv), Hso. reflexivity.
  - intros cs IH Hsh Hwf Hso. cbn [simple_shape tree_wf maps_sorted simple] in *.
    rewrite Forall_forall in IH. apply forallb_forall. intros c Hc.
    rewrite forallb_forall in Hsh, Hwf, Hso. apply IH; [exact Hc|apply Hsh|apply Hwf|apply Hso]; exact Hc.
Qed.

Lemma treeA_simple : forall s,
  simple_shape s = true -> treeA s = true -> simple s = true /\ simple_pos s = true.
Proof.
  unfold treeA.
  apply (src_ind' (fun s => simple_shape s = true -> tree_wf s && tree_ascii s = true ->
                            simple s = true /\ simple_pos s = true));
    try (intros; split; reflexivity); try (intros; discriminate).
  - intros v n m o i r Hsh H. cbn [simple_shape tree_wf tree_ascii simple simple_pos] in *.
    destruct i as [im|]; [discriminate|]. apply andb_true_iff in H. destruct H as [_ H].
    rewrite andb_true_r in H. apply andb_true_iff in H. destruct H as [H _].
    apply andb_true_iff in H. destruct H as [H Hmc]. apply andb_true_iff in H. destruct H as [H _].
    apply andb_true_iff in H. destruct H as [Hav _].
    pose proof (map_consistent_ok v m Hmc) as [Hso Hseg].
    rewrite (ascii_lines_ok v Hav), Hso, Hav, Hseg. split; reflexivity.
  - intros cs IH Hsh H. cbn [simple_shape tree_wf tree_ascii simple simple_pos] in *.
    apply andb_true_iff in H. destruct H as [Hwf Hasc].
    rewrite Forall_forall in IH. rewrite forallb_forall in Hsh, Hwf, Hasc.
    split; apply forallb_forall; intros c Hc;
      (destruct (IH c Hc (Hsh c Hc)) as [A B];
       [rewrite (Hwf c Hc), (Hasc c Hc); reflexivity|assumption]).
Qed.

(* valid UTF-8 texts (tree_wf), SourceMapSource segments sorted: C01's text-mode clauses *)
Theorem wf_stream_reassembles (st : store) (s : src) (cols : bool) :
  simple_shape s = true -> tree_wf s = true -> maps_sorted s = true ->
  let '(evs, gi, st') := stream st s (mkOpts cols false) in
  reassembles evs (source s) = true /\ gi = advance 1 0 (source s) /\ st' = st.
Proof. intros H1 H2 H3. apply simple_stream_reassembles. apply wf_simple; assumption. Qed.

(* ASCII trees with consistent maps (treeA): C01's and C02's text-mode clauses *)
Theorem treeA_stream_good (st : store) (s : src) (cols : bool) :
  simple_shape s = true -> treeA s = true ->
  let '(evs, gi, st') := stream st s (mkOpts cols false) in
  reassembles evs (source s) = true /\ well_positioned (chunks_of evs) 1 0 = true /\
  gi = advance 1 0 (source s) /\ st' = st.
Proof.
  intros H1 H2. destruct (treeA_simple s H1 H2) as [Hs Hp].
  pose proof (simple_stream_reassembles st s cols Hs) as A.
  pose proof (simple_stream_positioned st s cols Hs Hp) as B.
  destruct (stream st s (mkOpts cols false)) as [[evs gi] st']. destruct A as [A1 [A2 A3]].
  split; [exact A1|]. split; [exact B|]. split; assumption.
Qed.

Print Assumptions simple_stream_reassembles.
Print Assumptions simple_stream_positioned.
Print Assumptions wf_stream_reassembles.
Print Assumptions treeA_stream_good.
