(* E5 restated with the checker's hypothesis: when the binary leaves hold valid
   UTF-8 (`all_leaves_valid`, Checkers/ChkTree.v), equal normal forms - hence,
   on the delimited class, equal hasher streams - have equal text views.
   Kept apart from HashInjective.v because it depends on Proofs/ViewsUtf8.v. *)
From Coq Require Import List NArith Bool Lia.
From RS Require Import Base.Prelude Base.Text Rope.RopeModel Stream.Types Stream.Replace
  Stream.Tree Sem.HashEq Checkers.ChkTree Proofs.ViewsUtf8 Proofs.HashEqBasic
  Proofs.HashInjective.
Import ListNotations.
Open Scope N_scope.

Lemma all_leaves_valid_lossless (s : src) : all_leaves_valid s = true -> lossless s = true.
Proof.
  induction s as [b v|v|v|v n|v n m o i r|cs IH|inner rs IH|id inner IH]
    using src_nested_ind; intros H; try reflexivity.
  - destruct b; [|reflexivity]. cbn [all_leaves_valid] in H. cbn [lossless].
    apply text_eqb_eq. apply utf8_lossy_valid. exact H.
  - cbn [all_leaves_valid] in H. cbn [lossless].
    induction IH as [|x l Hx HF IHl]; [reflexivity|].
    cbn [forallb] in H |- *. apply andb_true_iff in H. destruct H as [H1 H2].
    rewrite (Hx H1), (IHl H2). reflexivity.
  - cbn [all_leaves_valid] in H. cbn [lossless]. exact (IH H).
  - cbn [all_leaves_valid] in H. cbn [lossless]. exact (IH H).
Qed.

Theorem norm_views_valid (a b : src) :
  all_leaves_valid a = true -> all_leaves_valid b = true ->
  norm a = norm b -> source a = source b /\ buffer a = buffer b.
Proof.
  intros Va Vb. apply norm_views_partial; apply all_leaves_valid_lossless; assumption.
Qed.

Corollary hash_eq_views_valid (a b : src) :
  delimited a = true -> delimited b = true ->
  all_leaves_valid a = true -> all_leaves_valid b = true ->
  hash_events a = hash_events b -> source a = source b /\ buffer a = buffer b.
Proof.
  intros Da Db Va Vb. apply hash_eq_views; try assumption;
    apply all_leaves_valid_lossless; assumption.
Qed.

Print Assumptions norm_views_valid.
Print Assumptions hash_eq_views_valid.
