(* A SourceMapSource WITH an inner source map as a LEAF of the tree theorems, part 2
   (L1 c, d for columns = true).
   Both attributions of the combined leaf are pointwise images, under `resolve_combined`, of the
   corresponding attributions of the outer splitter: looking up by position and covering by
   chunks both commute with a transformer `f` of attributions with `f None = None`.  Hence
     (c) the text-less stream, looked up by position, attributes every byte of v as the
         text-carrying stream does by covering;
     (d) a chunk is mapped in one mode iff one is mapped in the other - also when
         `remove_original_source` turns mapped outer segments into unmapped ones: a mapped
         segment of the text-less outer stream is seen by the byte at its own position, and a
         mapped chunk of the text-carrying stream carries a byte. *)
From RS Require Import Base.Prelude Base.Text Rope.RopeModel Codec.Vlq Codec.CodecSpec
  Checkers.ChkCodec Stream.Types Stream.Leaves Stream.Concat Stream.Replace Stream.Combined Stream.Tree
  Sem.Attr Checkers.ChkTree Checkers.ChkCombined
  Proofs.CodecKept Proofs.StreamText Proofs.StreamLeaves Proofs.StreamMap Proofs.StreamConcat Proofs.StreamTree
  Proofs.WfStream Proofs.WfFinal Proofs.RStreamText Proofs.RStreamPos Proofs.RStreamTree
  Proofs.AttrCodec Proofs.AttrSms Proofs.AttrLeaves Proofs.LawConcatAttr Proofs.LawWrappers
  Proofs.CacheReplay Proofs.FinalDense Proofs.FinalReplace Proofs.FinalConcat Proofs.FinalTree
  Proofs.CombAllSpec Proofs.CombAllT12 Proofs.CombAllChk Proofs.CombLeafBase.
Require Import Lia List.

Local Open Scope N_scope.

(* ------------------------------------------------------------------ *)
(* looking up and covering commute with a pointwise transformer         *)
(* ------------------------------------------------------------------ *)
Lemma seg_lookup_on f : forall segs l c best,
  seg_lookup (map (on_seg f) segs) l c (f best) = f (seg_lookup segs l c best).
Proof.
  induction segs as [|[[sl sc] a] segs IH]; intros l c best; [reflexivity|].
  cbn [map on_seg fst snd seg_lookup]. destruct ((sl =? l) && (sc <=? c)); apply IH.
Qed.

Lemma abp_cols_on f segs : f None = None -> forall t l c,
  attr_by_pos (map (on_seg f) segs) true t l c = map f (attr_by_pos segs true t l c).
Proof.
  intros Hf. induction t as [|b t IH]; intros l c; [reflexivity|]. cbn [attr_by_pos map].
  rewrite <- Hf at 1. rewrite seg_lookup_on. f_equal. destruct (b =? NL); apply IH.
Qed.

Lemma cover_on f : forall chs, attr_cover (map (on_attr f) chs) = map f (attr_cover chs).
Proof.
  induction chs as [|[[t|] [[l c] a]] chs IH]; [reflexivity| |].
  - cbn [map on_attr fst snd attr_cover]. rewrite IH, map_app, map_map. reflexivity.
  - cbn [map on_attr fst snd attr_cover]. exact IH.
Qed.

Lemma final_events_on f a b t : f None = None ->
  fsegs a [] [] = map (on_seg f) (fsegs b [] []) ->
  attr_of_final_events a t true = map f (attr_of_final_events b t true).
Proof.
  intros Hf H. unfold attr_of_final_events. fold (fsegs a [] []). fold (fsegs b [] []).
  rewrite H. apply abp_cols_on. exact Hf.
Qed.

Lemma stream_cols_on f a b :
  rsegs_of_events a [] [] = map (on_attr f) (rsegs_of_events b [] []) ->
  attr_of_stream a true = map f (attr_of_stream b true).
Proof. intros H. unfold attr_of_stream. rewrite H. apply cover_on. Qed.

(* ------------------------------------------------------------------ *)
(* mapped segments of the outer text-less stream are visible             *)
(* ------------------------------------------------------------------ *)
Lemma final_loop_mapped_in rl rc : forall ms al,
  Forall (fun x => is_mapped x = true -> In x ms /\ plt (mpos x) (rl, rc))
         (chunk_mappings (sm_final_loop ms rl rc al)).
Proof.
  induction ms as [|m ms IH]; intros al; [constructor|]. cbn [sm_final_loop].
  assert (W : forall al', Forall (fun x => is_mapped x = true -> In x (m :: ms) /\ plt (mpos x) (rl, rc))
                                 (chunk_mappings (sm_final_loop ms rl rc al'))).
  { intros al'. eapply Forall_impl; [|apply (IH al')]. cbn beta. intros x Hx Hm.
    destruct (Hx Hm) as [A B]. split; [right; exact A|exact B]. }
  destruct ((rl <=? g_line m) && ((rc <=? g_col m) || (rl <? g_line m))) eqn:Esk; [apply W|].
  destruct (m_orig m) as [o|] eqn:Eo.
  - cbn [chunk_mappings]. constructor; [|apply W]. intros _. split; [left; reflexivity|].
    unfold plt, mpos. cbn [fst snd]. apply andb_false_iff in Esk.
    destruct Esk as [E|E]; [apply N.leb_gt in E; left; exact E|].
    apply orb_false_iff in E. destruct E as [E1 E2]. apply N.leb_gt in E1. apply N.ltb_ge in E2. lia.
  - destruct (al =? g_line m); [|apply W]. cbn [chunk_mappings]. constructor; [|apply W].
    intros H. discriminate.
Qed.

Lemma sm_final_cm v m :
  chunk_mappings (fst (sm_stream_final v m)) =
  if (fst (advance 1 0 v) =? 1) && (snd (advance 1 0 v) =? 0) then []
  else chunk_mappings (sm_final_loop (decode_mappings (sm_mappings m)) (fst (advance 1 0 v)) (snd (advance 1 0 v)) 0).
Proof.
  unfold sm_stream_final. rewrite gen_info_advance. destruct (advance 1 0 v) as [rl rc]. cbn [fst snd].
  destruct ((rl =? 1) && (rc =? 0)); cbn [fst]; [reflexivity|].
  rewrite !chunk_mappings_app, (chunk_mappings_chunks_of (announce_sources _ _ _)), announce_sources_chunks.
  rewrite (chunk_mappings_chunks_of (announce_names _ _)), announce_names_chunks. reflexivity.
Qed.

Lemma sm_final_fsegs v m :
  fsegs (fst (sm_stream_final v m)) [] [] =
  map (rsF (fileM m) (fileT (sm_names m))) (chunk_mappings (fst (sm_stream_final v m))).
Proof.
  unfold sm_stream_final, fsegs. destruct (gen_info v) as [rl rc].
  destruct ((rl =? 1) && (rc =? 0)); cbn [fst]; [reflexivity|].
  rewrite (rsegs_sm_both m _ (final_loop_chunks rl rc _ 0)), map_map. cbn [snd].
  rewrite !chunk_mappings_app, (chunk_mappings_chunks_of (announce_sources _ _ _)), announce_sources_chunks.
  rewrite (chunk_mappings_chunks_of (announce_names _ _)), announce_names_chunks. cbn [map app].
  rewrite chunk_mappings_chunks_of, map_map. reflexivity.
Qed.

Lemma sm_final_seg_visible v m : map_consistent v m = true ->
  forall x, In x (chunk_mappings (fst (sm_stream_final v m))) -> is_mapped x = true ->
  In (optF (fileM m) (fileT (sm_names m)) (m_orig x)) (attr_of_map (Some m) v true).
Proof.
  intros Hc x Hx Hm. pose proof (map_consistent_pos v m Hc) as Hpos.
  assert (Hlt : lt_sorted (decode_mappings (sm_mappings m))).
  { apply sorted_lt_sorted. unfold map_consistent in Hc. apply andb_true_iff in Hc. destruct Hc as [Hc _].
    apply andb_true_iff in Hc. destruct Hc as [Hc _]. exact Hc. }
  rewrite sm_final_cm in Hx. destruct (advance 1 0 v) as [rl rc] eqn:Eadv. cbn [fst snd] in Hx.
  destruct ((rl =? 1) && (rc =? 0)); [destruct Hx|].
  pose proof (final_loop_mapped_in rl rc (decode_mappings (sm_mappings m)) 0) as F.
  rewrite Forall_forall in F. destruct (F x Hx Hm) as [Hin Hp].
  rewrite Forall_forall in Hpos. pose proof (Hpos x Hin) as Hxp. unfold seg_pos in Hxp.
  apply is_position_split in Hxp. destruct Hxp as [a [b [Ev Ea]]].
  destruct b as [|y b].
  { exfalso. rewrite app_nil_r in Ev. subst a. rewrite Eadv in Ea. inversion Ea; subst.
    unfold plt, mpos in Hp. cbn [fst snd] in Hp. lia. }
  apply in_split in Hin. destruct Hin as [pre [post Ems]].
  rewrite attr_of_map_some, Ev, attr_by_fun_app, Ea. cbn [fst snd attr_by_fun].
  apply in_or_app. right. left.
  rewrite Ems, (lookup_own pre x post) by (rewrite <- Ems; exact Hlt). reflexivity.
Qed.

(* ------------------------------------------------------------------ *)
(* the combined leaf                                                   *)
(* ------------------------------------------------------------------ *)
Lemma on_attr_seg_ne f ch : f None = None -> seg_ne ch -> seg_ne (on_attr f ch).
Proof.
  intros Hf H. unfold seg_ne, seg_mapped, on_attr in *. cbn [fst snd]. intros Ha. apply H.
  destruct (snd (snd ch)); [reflexivity|]. rewrite Hf in Ha. discriminate.
Qed.

Lemma in_has_some a l : In a l -> asome a = true -> has_some l = true.
Proof.
  intros H Ha. unfold has_some. apply existsb_exists. exists a. split; assumption.
Qed.

Section Leaf.
Variables (v name : text) (m : smap) (given : option text) (im : smap) (remove : bool).
Hypothesis Hwf : c09_wf v m name given im.
Hypothesis HA : treeA (SMapped v name m given (Some im) remove) = true.

Let F := fst (combined_stream v m name given im remove oF).
Let T := fst (combined_stream v m name given im remove oT).

Lemma combined_final_attr_on :
  attr_of_final_events F v true =
  map (RC name m given im remove true) (attr_of_final_events (fst (sm_stream v m oF)) v true).
Proof.
  apply final_events_on; [reflexivity|]. apply (combined_fsegs v name m given im remove Hwf oF).
Qed.

Lemma combined_text_attr_on :
  attr_of_stream T true = map (RC name m given im remove true) (attr_of_stream (fst (sm_stream v m oT)) true).
Proof. apply stream_cols_on. apply (combined_rsegs_on v name m given im remove Hwf oT). Qed.

(* L1 (c), columns = true *)
Theorem combined_final_text_attr : attr_of_final_events F v true = attr_of_stream T true.
Proof.
  rewrite combined_final_attr_on, combined_text_attr_on.
  rewrite (sm_final_text_attr v m (leaf_ascii v name m given im remove HA) (wf_consistent v name m given im Hwf)).
  reflexivity.
Qed.

(* L1 (d), columns = true *)
Theorem combined_mapped_same : mapped_chunk_exists F = mapped_chunk_exists T.
Proof.
  pose proof combined_final_text_attr as EQ.
  pose proof (wf_consistent v name m given im Hwf) as Hc.
  destruct (mapped_chunk_exists T) eqn:E1.
  - (* a mapped text chunk carries a byte, which the text-less stream attributes too *)
    rewrite (mce_rsegs _ [] []) in E1.
    assert (Hne : Forall seg_ne (rsegs_of_events T [] [])).
    { unfold T. rewrite (combined_rsegs_on v name m given im remove Hwf oT), Forall_map.
      eapply Forall_impl; [|apply (ne_mapped_segs _ [] [] (sm_full_ne v m))].
      intros ch. apply on_attr_seg_ne. reflexivity. }
    pose proof (cover_has_some_intro _ Hne E1) as S.
    change (attr_cover (rsegs_of_events T [] [])) with (attr_of_stream T true) in S.
    rewrite <- EQ in S. unfold attr_of_final_events in S. apply lookup_has_some in S.
    rewrite (mce_fsegs _ [] []). exact S.
  - destruct (mapped_chunk_exists F) eqn:E2; [|reflexivity]. exfalso.
    rewrite (mce_fsegs _ [] []) in E2. unfold F in E2.
    rewrite (combined_fsegs v name m given im remove Hwf oF) in E2.
    unfold smapped in E2. apply existsb_exists in E2. destruct E2 as [s' [Hs' Hm']].
    apply in_map_iff in Hs'. destruct Hs' as [s [<- Hs]].
    change (fst (sm_stream v m oF)) with (fst (sm_stream_final v m)) in Hs.
    rewrite sm_final_fsegs in Hs. apply in_map_iff in Hs. destruct Hs as [x [<- Hx]].
    unfold on_seg, rsF in Hm'. cbn [fst snd columns oF] in Hm'.
    assert (Hmx : is_mapped x = true).
    { unfold is_mapped. destruct (m_orig x); [reflexivity|discriminate]. }
    pose proof (sm_final_seg_visible v m Hc x Hx Hmx) as Hin.
    rewrite <- (sm_final_attr v m Hc) in Hin.
    apply (in_map (RC name m given im remove true)) in Hin.
    change (fst (sm_stream_final v m)) with (fst (sm_stream v m oF)) in Hin.
    rewrite <- combined_final_attr_on, EQ in Hin.
    pose proof (in_has_some _ _ Hin Hm') as S. unfold attr_of_stream in S.
    apply cover_has_some in S. rewrite <- (mce_rsegs _ [] []) in S. congruence.
Qed.

End Leaf.

(* the statements on `stream`, for any store *)
Section LeafStream.
Variables (v name : text) (m : smap) (given : option text) (im : smap) (remove : bool).
Let s := SMapped v name m given (Some im) remove.
Hypothesis HA : treeA s = true.
Hypothesis Hwf : c09_wf v m name given im.

Theorem comb_leaf_attr_cols (st : store) :
  attr_of_final_events (fst (fst (stream st s (mkOpts true true)))) v true =
  attr_of_stream (fst (fst (stream st s (mkOpts true false)))) true.
Proof. unfold s. cbn [stream fst]. apply combined_final_text_attr; assumption. Qed.

Theorem comb_leaf_mapped_cols (st : store) :
  mapped_chunk_exists (fst (fst (stream st s (mkOpts true true)))) =
  mapped_chunk_exists (fst (fst (stream st s (mkOpts true false)))).
Proof. unfold s. cbn [stream fst]. apply combined_mapped_same; assumption. Qed.

End LeafStream.

Print Assumptions comb_leaf_attr_cols.
Print Assumptions comb_leaf_mapped_cols.
