(* C04, checker level, for trees with CachedSource nodes in ANY warm state, part 3: clause 5 (the
   sources / sourcesContent tables of the map with columns) and the checker.
   The store invariant is extended by `Tb5`: every map a cache holds under a key (true, f) has a
   duplicate-free `sources` table without sourceRoot, filled in step with `sourcesContent`,
   every listed file is an OriginalSource of the wrapped source with its content, and every file
   with surviving text below the cache is listed (`TE`).  A replayed map announces exactly its
   tables (`replay_tinvw`); a ConcatSource de-duplicates (ProvConcatTables / LawConcatAttr); a
   cold cache stores the tables of the stream it forwards (`map_tables`).  A cache that holds
   None replays a raw stream: by attribution (= reference) no original text survives below it.
     warm_c04_tables      clause 5 over any store satisfying the invariants;
     chk_C04_warm         chk_C04 s (api_tree s ws) = 0 after ANY warm-up history. *)
From RS Require Import Base.Prelude Base.Text Rope.RopeModel Codec.Vlq Codec.CodecSpec
  Checkers.ChkCodec Stream.Types Stream.Leaves Stream.Concat Stream.Replace Stream.Combined Stream.Tree
  Api.ApiTree Sem.Attr Sem.Prov Sem.HashEq Api.ApiHist Checkers.ChkTree Checkers.ChkHist Checkers.ChkProv
  Proofs.CodecKept Proofs.CodecEnc Proofs.CodecMain Proofs.StreamText Proofs.StreamLeaves Proofs.StreamMap Proofs.StreamConcat Proofs.StreamTree
  Proofs.WfStream Proofs.WfFinal Proofs.WfMap Proofs.RStreamText Proofs.RStreamPos Proofs.RStreamTree
  Proofs.AttrCodec Proofs.AttrSms Proofs.AttrLeaves Proofs.LawConcatAttr Proofs.LawWrappers
  Proofs.CacheStore Proofs.CacheReplay Proofs.FinalDense Proofs.FinalReplace Proofs.FinalConcat Proofs.FinalTree Proofs.FinalCache
  Proofs.ReplAttrStream Proofs.ReplAttrTree Proofs.ProvOriginal
  Proofs.ProvConcatBytes Proofs.ProvConcatSegs Proofs.ProvConcatTables Proofs.ProvConcatLines
  Proofs.ProvReplaceBytes Proofs.ProvReplaceSegs Proofs.ProvReplaceTables
  Proofs.ColdCache Proofs.ColdCacheTree Proofs.BoundsPos Proofs.BoundsOrig Proofs.BoundsIdx Proofs.BoundsAll
  Proofs.WarmTreeDefs Proofs.WarmTreeReplay Proofs.WarmTreeCodec Proofs.WarmTreeNodes Proofs.WarmTreeMain Proofs.WarmTreeHist
  Proofs.StreamMapAny Proofs.ReplAttrOrigin Proofs.ProvReplaceExact Proofs.WfAllStrict Proofs.WfAllMap Proofs.WfAllChk Proofs.WfMoreComb Proofs.WfMoreWarm
  Proofs.ChkMoreProvCold Proofs.ChkMoreProvWarm Proofs.ChkMoreProvWarmSegs.
Require Import Lia List.
Import ListNotations.

Local Open Scope N_scope.



Notation anns := contents_of_events.

(* ================================================================== *)
(* the tables of a stream, surviving files only                         *)
(* ================================================================== *)
Record tinvw (s : src) (evs : list event) : Prop := mkTw {
  tw_nodup : nodup_texts (map fst (anns evs)) = true;
  tw_orig : forall n c, In (n, c) (anns evs) -> exists v, c = Some v /\ In (n, v) (originals s);
  tw_files : forall f l c b, In (POrig f l c b false) (prov s) -> In f (map fst (anns evs)) }.

Lemma tinv_tinvw s evs : tinv s evs -> tinvw s evs.
Proof. intros [I1 I2 I3]. constructor; [exact I1|exact I2|]. intros f l c b. apply I3. Qed.

(* the tables of a stored map *)
Definition TE (inner : src) (v : option smap) : Prop :=
  match v with
  | Some m => exists A : list (text * option text),
      sm_root m = None /\ sm_sources m = map fst A /\ sm_contents m = map getc A /\
      nodup_texts (map fst A) = true /\
      (forall n c, In (n, c) A -> exists x, c = Some x /\ In (n, x) (originals inner)) /\
      (forall f l c b, In (POrig f l c b false) (prov inner) -> In f (map fst A))
  | None => True
  end.

Lemma events_TE s evs : dense evs 0 0 = true -> tinvw s evs -> TE s (map_of_events true evs).
Proof.
  intros Hd [I1 I2 I3]. destruct (map_of_events true evs) as [m|] eqn:Em; [|exact I].
  assert (Hsome : forall p, In p (anns evs) -> snd p <> None).
  { intros [n c] Hp. destruct (I2 n c Hp) as [v [-> _]]. discriminate. }
  destruct (map_tables evs m Hd Hsome Em) as [Es Ec].
  exists (anns evs). split; [|split; [exact Es|split; [exact Ec|split; [exact I1|split; [exact I2|exact I3]]]]].
  unfold map_of_events in Em. destruct (is_nil (encode_mappings true (chunk_mappings evs))); [discriminate|].
  inversion Em. reflexivity.
Qed.

(* ================================================================== *)
(* the announcements of a replayed map                                  *)
(* ================================================================== *)
Lemma seq_map_A : forall A : list (text * option text), (forall p, In p A -> exists x, snd p = Some x) ->
  map (fun i => (nth i (map fst A) [], nth_error (map getc A) i)) (seq 0 (length A)) = A.
Proof.
  induction A as [|p A IH]; intros H; [reflexivity|]. cbn [length seq map nth nth_error]. f_equal.
  - destruct p as [n c]. destruct (H (n, c) (or_introl eq_refl)) as [x Hx]. cbn [snd] in Hx. subst c. reflexivity.
  - rewrite <- seq_shift, map_map. rewrite <- (IH (fun p Hp => H p (or_intror Hp))) at 2.
    apply map_ext. intros i. reflexivity.
Qed.

Lemma exp_sources_A m (A : list (text * option text)) : sm_root m = None -> sm_sources m = map fst A ->
  sm_contents m = map getc A -> (forall p, In p A -> exists x, snd p = Some x) -> exp_sources m = A.
Proof.
  intros Hr Es Ec Hs. unfold exp_sources. rewrite map_map, Es, Ec, map_length.
  transitivity (map (fun i => (nth i (map fst A) [], nth_error (map getc A) i)) (seq 0 (length A)));
    [|apply (seq_map_A A Hs)].
  apply map_ext. intros i. unfold get_source. rewrite Hr. unfold nth_opt. rewrite Nat2N.id. reflexivity.
Qed.

Lemma anns_announce_names : forall ns i, anns (announce_names ns i) = [].
Proof. induction ns as [|n ns IH]; intros i; [reflexivity|]. cbn [announce_names contents_of_events]. apply IH. Qed.

Lemma advance_start_nil (t : text) : advance 1 0 t = (1, 0) -> t = [].
Proof.
  destruct t as [|b t]; [reflexivity|]. intros H. pose proof (advance_plt b t 1 0) as P. rewrite H in P.
  unfold plt in P. cbn [fst snd] in P. lia.
Qed.

Lemma replay_anns t m f :
  anns (fst (sm_stream t m (mkOpts true f))) = exp_sources m \/
  (t = [] /\ anns (fst (sm_stream t m (mkOpts true f))) = []).
Proof.
  unfold sm_stream. cbn [columns final_source]. destruct f.
  - unfold sm_stream_final. pose proof (gen_info_advance t) as Hg. destruct (gen_info t) as [rl rc].
    destruct ((rl =? 1) && (rc =? 0)) eqn:E.
    + right. apply andb_true_iff in E. destruct E as [E1 E2]. apply N.eqb_eq in E1. apply N.eqb_eq in E2. subst rl rc.
      split; [apply advance_start_nil; symmetry; exact Hg|reflexivity].
    + left. cbn [fst]. rewrite !contents_app, announce_sources_exp, anns_announce_names.
      rewrite (only_chunks_contents _ (final_loop_chunks rl rc _ 0)), !app_nil_r. reflexivity.
  - unfold sm_stream_full. destruct (is_nil (split_lines t)) eqn:Hnil.
    + right. split; [apply split_lines_nil; apply is_nil_true; exact Hnil|reflexivity].
    + left. destruct (lines_end_info (split_lines t)) as [fl fc].
      pose proof (loop_only (split_lines t) fl fc (decode_mappings (sm_mappings m)) (mkF 1 0 false None)) as O1.
      destruct (sm_full_loop (split_lines t) fl fc (mkF 1 0 false None) (decode_mappings (sm_mappings m))) as [st evs].
      pose proof (step_only (split_lines t) fl fc st (unmapped fl fc)) as O2.
      destruct (sm_full_step (split_lines t) fl fc st (unmapped fl fc)) as [st' evs']. cbn [fst snd] in *.
      rewrite !contents_app, announce_sources_exp, anns_announce_names.
      rewrite (only_chunks_contents _ O1), (only_chunks_contents _ O2), !app_nil_r. reflexivity.
Qed.

Lemma surviving_intro f l c b tags : In (POrig f l c b false) tags -> In f (surviving_files tags).
Proof. intros H. unfold surviving_files. apply in_flat_map. exists (POrig f l c b false). split; [exact H|left; reflexivity]. Qed.

Theorem replay_tinvw (inner : src) (v : option smap) (f : bool) :
  length (prov inner) = length (source inner) -> TE inner v ->
  (v = None -> surviving_files (prov inner) = []) ->
  tinvw inner (fst (replay (source inner) v (mkOpts true f))).
Proof.
  intros Hlen Ht Hn.
  assert (Hempty : forall evs, anns evs = [] ->
            (forall f0 l c b, ~ In (POrig f0 l c b false) (prov inner)) -> tinvw inner evs).
  { intros evs E Hno. constructor; rewrite E; [reflexivity|intros n c []|].
    intros f0 l c b Hin. exfalso. apply (Hno f0 l c b Hin). }
  destruct v as [m|]; cbn [replay final_source].
  - destruct Ht as [A [Hr [Es [Ec [Hnd [Ho Hf]]]]]].
    assert (Hs : forall p, In p A -> exists x, snd p = Some x).
    { intros [n c] Hp. destruct (Ho n c Hp) as [x [-> _]]. exists x. reflexivity. }
    destruct (replay_anns (source inner) m f) as [E|[Et E]].
    + rewrite (exp_sources_A m A Hr Es Ec Hs) in E. constructor; rewrite E; assumption.
    + apply Hempty; [exact E|]. intros f0 l c b Hin. rewrite Et in Hlen.
      destruct (prov inner); [destruct Hin|discriminate].
  - apply Hempty.
    + unfold raw_stream. destruct f; [reflexivity|]. cbn [fst]. apply only_chunks_contents. apply raw_chunks_only.
    + intros f0 l c b Hin. apply surviving_intro in Hin. rewrite (Hn eq_refl) in Hin. destruct Hin.
Qed.

(* ================================================================== *)
(* ConcatSource, both modes                                             *)
(* ================================================================== *)
Lemma concat_tinvw fin cs (kids : list (list event * (N * N))) :
  (forall k, In k kids -> exists ch, In ch cs /\ tinvw ch (fst k)) ->
  (forall ch, In ch cs -> exists k, In k kids /\ tinvw ch (fst k)) ->
  tinvw (SConcat cs) (snd (concat_fold fin kids (concat_init, []))).
Proof.
  intros H1 H2.
  pose proof (concat_fold_contents [] fin kids concat_init [] eq_refl) as [A _].
  pose proof (concat_fold_anns_incl fin kids concat_init []) as B. cbn [contents_of_events app] in B.
  constructor.
  - rewrite A. apply concat_fold_nodup. reflexivity.
  - intros n0 c0 Hin. apply B in Hin. apply in_flat_map in Hin. destruct Hin as [k [Hk Hin]].
    destruct (H1 k Hk) as [ch [Hch T]]. destruct (tw_orig _ _ T n0 c0 Hin) as [v [-> Hv]].
    exists v. split; [reflexivity|]. cbn [originals]. apply in_flat_map. exists ch. split; assumption.
  - intros f l c0 b Hin. cbn [prov] in Hin. apply in_flat_map in Hin. destruct Hin as [ch [Hch Hin]].
    destruct (H2 ch Hch) as [k [Hk T]]. pose proof (tw_files _ _ T f l c0 b Hin) as Hf.
    assert (Hall : In f (map fst (flat_map (fun k => anns (fst k)) kids))).
    { apply in_map_iff in Hf. destruct Hf as [p [Ep Hp0]]. apply in_map_iff. exists p. split; [exact Ep|].
      apply in_flat_map. exists k. split; [exact Hk|exact Hp0]. }
    destruct (cfind_in f _ Hall) as [c1 E1].
    destruct (concat_fold_contents f fin kids concat_init [] eq_refl) as [_ B2].
    cbn [contents_of_events app] in B2. rewrite E1 in B2. destruct (cfind_some _ _ _ B2) as [X _].
    apply in_map_iff. exists (f, c1). split; [reflexivity|exact X].
Qed.

Lemma tinvw_single ch evs : tinvw ch evs -> tinvw (SConcat [ch]) evs.
Proof.
  intros [I1 I2 I3]. constructor; [exact I1| |].
  - intros n c Hin. cbn [originals flat_map]. rewrite app_nil_r. apply I2. exact Hin.
  - intros f l c b Hin. cbn [prov flat_map] in Hin. rewrite app_nil_r in Hin. apply (I3 f l c b Hin).
Qed.

(* ================================================================== *)
(* the induction                                                        *)
(* ================================================================== *)
Section Tables.
Variable U : src.
Hypothesis HU : ids_distinct U.

Definition Tb5 (st : store) : Prop :=
  forall id inner, In (id, inner) (nodes U) ->
  forall f v, cache_get (store_get st id) (mkOpts true f) = Some v -> TE inner v.

Definition Inv5 (st : store) : Prop := Sound st U /\ Tb5 st.

Lemma tb5_put st id inner c f v : In (id, inner) (nodes U) -> Tb5 st -> (c = true -> TE inner v) ->
  Tb5 (store_put st id (mkOpts c f) v).
Proof.
  intros Hin Hs Hv id' inner' Hin' f' x H. apply store_put_get_inv in H.
  destruct H as [H|[Ei [Eo [Ex _]]]].
  - apply (Hs id' inner' Hin' f' x H).
  - subst id' x. inversion Eo. subst c f'.
    rewrite (nodes_inj U HU id inner' inner Hin' Hin). apply Hv. reflexivity.
Qed.

Definition good5 (s : src) : Prop :=
  cls s /\ pshape (uncache s) = true /\ c04_kinds s false = true /\ csmall (uncache s) = true.

Lemma good5_concat cs ch : good5 (SConcat cs) -> In ch cs -> good5 ch.
Proof.
  intros [Hcl [Hp [Hk Hc]]] Hch. split; [apply (cls_concat cs ch Hcl Hch)|]. split; [|split].
  - cbn [uncache pshape] in Hp. rewrite forallb_map in Hp. rewrite forallb_forall in Hp. apply Hp. exact Hch.
  - cbn [c04_kinds] in Hk. rewrite forallb_forall in Hk. apply Hk. exact Hch.
  - cbn [uncache csmall] in Hc. rewrite forallb_map in Hc. rewrite forallb_forall in Hc. apply Hc. exact Hch.
Qed.

Lemma good5_cached id i : good5 (SCached id i) -> good5 i.
Proof. intros H. exact H. Qed.

Lemma good5_replace i rs : good5 (SReplace i rs) -> has_cached (SReplace i rs) = false /\ good5 i.
Proof.
  intros [Hcl [Hp [Hk Hc]]]. cbn [c04_kinds] in Hk. split; [apply (kinds_true_nocache i Hk)|].
  split; [apply (cls_replace i rs Hcl)|]. split; [exact Hp|]. split; [apply kinds_mono; exact Hk|exact Hc].
Qed.

Lemma good5_stream_prov s : good5 s ->
  length (prov s) = length (source s) /\ all2 (refA s true) (prov s) = true.
Proof.
  intros [Hcl [Hp [_ Hc]]]. destruct (cls_uncache s Hcl) as [_ [_ [HA [Hsm _]]]]. rewrite uncache_idem in Hsm.
  rewrite <- uncache_prov, <- uncache_source. apply (pshape_stream_prov [] (uncache s) Hp HA Hsm Hc).
Qed.

(* a cache that holds None: no original text survives below it *)
Lemma none_entry_surviving s : good5 s -> good_entry s true None -> surviving_files (prov s) = [].
Proof.
  intros Hg [Ea _]. destruct (good5_stream_prov s Hg) as [Hl Hb]. cbn [attr_of_map] in Ea. rewrite <- Ea in Hb.
  apply (all2_none_surviving _ _ Hb). rewrite map_length. symmetry. exact Hl.
Qed.

Definition concl5 (s : src) : Prop :=
  (forall st c f, Inv5 st ->
     (c = true -> tinvw s (fst (fst (stream st s (mkOpts c f))))) /\
     Inv5 (snd (stream st s (mkOpts c f)))) /\
  (forall st c, Inv5 st ->
     (c = true -> TE s (fst (map_of st s c))) /\ Inv5 (snd (map_of st s c))).

Definition PT (s : src) : Prop := incl (nodes s) (nodes U) -> good5 s -> concl5 s.

Lemma nocache_stream_concl5 s : good5 s -> has_cached s = false ->
  forall st c f, Inv5 st ->
    (c = true -> tinvw s (fst (fst (stream st s (mkOpts c f))))) /\
    Inv5 (snd (stream st s (mkOpts c f))).
Proof.
  intros [_ [Hp _]] Hn st c f Hs. split.
  - intros ->. rewrite (uncache_id s Hn) in Hp. apply tinv_tinvw. apply (tb2_all s st f Hp).
  - rewrite (nocache_stream s st _ Hn). exact Hs.
Qed.

Lemma get_map_concl5 s : incl (nodes s) (nodes U) -> good5 s ->
  (forall st c f, Inv5 st ->
     (c = true -> tinvw s (fst (fst (stream st s (mkOpts c f))))) /\
     Inv5 (snd (stream st s (mkOpts c f)))) ->
  forall st c, Inv5 st ->
    (c = true -> TE s (fst (Tree.get_map st s c))) /\ Inv5 (snd (Tree.get_map st s c)).
Proof.
  intros Hin Hg K st c Hs. destruct Hg as [Hcl _].
  destruct (warm_all U HU s Hin Hcl) as [_ [B _]]. destruct (B st c (proj1 Hs)) as [[[K1 _] _] _].
  destruct (K st c true Hs) as [G S]. unfold Tree.get_map.
  destruct (stream st s (mkOpts c true)) as [[evs gi] st']. cbn [fst snd] in *.
  split; [|exact S]. intros ->. apply (events_TE s evs K1 (G eq_refl)).
Qed.

Definition kid_hyp5 (ch : src) : Prop := incl (nodes ch) (nodes U) /\ good5 ch /\ concl5 ch.

Lemma kids_inv5 (c f : bool) : forall cs, (forall ch, In ch cs -> kid_hyp5 ch) ->
  forall st, Inv5 st -> Inv5 (snd (kid_streams st cs (mkOpts c f))).
Proof.
  induction cs as [|ch cs IH]; intros Hall st Hs; [exact Hs|].
  cbn [kid_streams]. destruct (Hall ch (or_introl eq_refl)) as [_ [_ [K _]]].
  destruct (K st c f Hs) as [_ S1].
  destruct (stream st ch (mkOpts c f)) as [[evs gi] st1]. cbn [snd] in S1.
  pose proof (IH (fun x Hx => Hall x (or_intror Hx)) st1 S1) as S2.
  destruct (kid_streams st1 cs (mkOpts c f)) as [ks st2]. cbn [snd] in *. exact S2.
Qed.

Lemma kids_pairs (f : bool) : forall cs, (forall ch, In ch cs -> kid_hyp5 ch) ->
  forall st, Inv5 st ->
  (forall k, In k (fst (kid_streams st cs (mkOpts true f))) -> exists ch, In ch cs /\ tinvw ch (fst k)) /\
  (forall ch, In ch cs -> exists k, In k (fst (kid_streams st cs (mkOpts true f))) /\ tinvw ch (fst k)).
Proof.
  induction cs as [|ch cs IH]; intros Hall st Hs.
  - cbn [kid_streams fst]. split; [intros k []|intros c []].
  - cbn [kid_streams]. destruct (Hall ch (or_introl eq_refl)) as [_ [_ [K _]]].
    destruct (K st true f Hs) as [G S1]. specialize (G eq_refl).
    destruct (stream st ch (mkOpts true f)) as [[evs gi] st1]. cbn [fst snd] in *.
    destruct (IH (fun x Hx => Hall x (or_intror Hx)) st1 S1) as [P1 P2].
    destruct (kid_streams st1 cs (mkOpts true f)) as [ks st2]. cbn [fst] in *. split.
    + intros k [<-|Hk]; [exists ch; split; [left; reflexivity|exact G]|].
      destruct (P1 k Hk) as [c' [Hc' T]]. exists c'. split; [right; exact Hc'|exact T].
    + intros c' [<-|Hc']; [exists (evs, gi); split; [left; reflexivity|exact G]|].
      destruct (P2 c' Hc') as [k [Hk T]]. exists k. split; [right; exact Hk|exact T].
Qed.

Theorem warm5_all : forall s, PT s.
Proof.
  apply (src_ind' PT); unfold PT.
  - (* SRaw *) intros b v _ Hg. split; [apply nocache_stream_concl5; [exact Hg|reflexivity]|].
    intros st c Hs. cbn [map_of fst snd]. split; [intros _; exact I|exact Hs].
  - intros v _ Hg. split; [apply nocache_stream_concl5; [exact Hg|reflexivity]|].
    intros st c Hs. cbn [map_of fst snd]. split; [intros _; exact I|exact Hs].
  - intros v _ Hg. split; [apply nocache_stream_concl5; [exact Hg|reflexivity]|].
    intros st c Hs. cbn [map_of fst snd]. split; [intros _; exact I|exact Hs].
  - (* SOriginal *) intros v n Hin Hg.
    pose proof (nocache_stream_concl5 (SOriginal v n) Hg eq_refl) as K. split; [exact K|].
    intros st c Hs. change (map_of st (SOriginal v n) c) with (Tree.get_map st (SOriginal v n) c).
    apply get_map_concl5; assumption.
  - (* SMapped *) intros v n m og i r _ [_ [Hp _]]. destruct i; discriminate.
  - (* SConcat *) intros cs IH Hin Hg. rewrite Forall_forall in IH.
    assert (Hkids : forall ch, In ch cs -> kid_hyp5 ch).
    { intros ch Hch.
      assert (H1 : incl (nodes ch) (nodes U)) by (intros x Hx; apply Hin; apply (nodes_child cs ch Hch); exact Hx).
      pose proof (good5_concat cs ch Hg Hch) as H2. split; [exact H1|]. split; [exact H2|apply (IH ch Hch H1 H2)]. }
    assert (K : forall st c f, Inv5 st ->
              (c = true -> tinvw (SConcat cs) (fst (fst (stream st (SConcat cs) (mkOpts c f))))) /\
              Inv5 (snd (stream st (SConcat cs) (mkOpts c f)))).
    { intros st c f Hs. destruct (Nat.eq_dec (length cs) 1) as [E|E].
      - destruct cs as [|ch [|c2 r]]; try discriminate.
        change (stream st (SConcat [ch]) (mkOpts c f)) with (stream st ch (mkOpts c f)).
        destruct (Hkids ch (or_introl eq_refl)) as [_ [_ [X _]]]. destruct (X st c f Hs) as [X1 X2].
        split; [intros Hc; apply tinvw_single; apply X1; exact Hc|exact X2].
      - rewrite (stream_concat_fold st cs _ E). cbn [fst snd final_source]. split.
        + intros ->. destruct (kids_pairs f cs Hkids st Hs) as [P1 P2]. apply concat_tinvw; assumption.
        + apply (kids_inv5 c f cs Hkids st Hs). }
    split; [exact K|]. intros st c Hs.
    change (map_of st (SConcat cs) c) with (Tree.get_map st (SConcat cs) c).
    apply get_map_concl5; assumption.
  - (* SReplace *) intros i rs IH Hin Hg. destruct (good5_replace i rs Hg) as [Hn Hgi].
    pose proof (nocache_stream_concl5 _ Hg Hn) as K. split; [exact K|].
    destruct rs as [|r rs].
    + intros st c Hs. change (map_of st (SReplace i []) c) with (map_of st i c).
      destruct (IH Hin Hgi) as [_ IM]. destruct (IM st c Hs) as [E S]. split; [|exact S].
      intros Hc. specialize (E Hc). destruct (fst (map_of st i c)) as [m|]; [|exact I]. exact E.
    + intros st c Hs.
      change (map_of st (SReplace i (r :: rs)) c) with (Tree.get_map st (SReplace i (r :: rs)) c).
      apply get_map_concl5; assumption.
  - (* SCached *) intros id i IH Hin Hg. pose proof (good5_cached id i Hg) as Hgi. pose proof Hgi as [Hci _].
    assert (Hnode : In (id, i) (nodes U)) by (apply Hin; left; reflexivity).
    assert (Hin' : incl (nodes i) (nodes U)) by (intros x Hx; apply Hin; right; exact Hx).
    destruct (IH Hin' Hgi) as [IS IM]. destruct (warm_all U HU i Hin' Hci) as [IA [IB IMs]].
    destruct (good5_stream_prov i Hgi) as [Hlen _].
    assert (TEc : forall v, TE (SCached id i) v = TE i v) by (intros v; reflexivity).
    assert (TIc : forall evs, tinvw i evs -> tinvw (SCached id i) evs).
    { intros evs [I1 I2 I3]. constructor; assumption. }
    split.
    + intros st c f Hs. cbn [stream].
      destruct (cache_get (store_get st id) (mkOpts c f)) as [v|] eqn:G.
      * assert (X : c = true -> tinvw (SCached id i) (fst (replay (source i) v (mkOpts c f)))).
        { intros ->. apply TIc. apply replay_tinvw; [exact Hlen|apply (proj2 Hs id i Hnode f v G)|].
          intros ->. apply (none_entry_surviving i Hgi). apply (proj1 Hs id i Hnode true f None G). }
        destruct v as [m|]; cbn [replay fst snd] in *; (split; [exact X|exact Hs]).
      * destruct (IS st c f Hs) as [Gx S].
        assert (Hd : dense (fst (fst (stream st i (mkOpts c f)))) 0 0 = true).
        { destruct f; [destruct (IB st c (proj1 Hs)) as [[[K1 _] _] _]; exact K1
                      |destruct (IA st c (proj1 Hs)) as [[K1 _] _]; exact K1]. }
        assert (Ent : good_entry i c (map_of_events c (fst (fst (stream st i (mkOpts c f)))))).
        { destruct f; [apply (entry_of_final c i _ Hci); apply (IB st c (proj1 Hs))
                      |apply (entry_of_text c i _ Hci); apply (IA st c (proj1 Hs))]. }
        destruct (stream st i (mkOpts c f)) as [[evs gi] st']. cbn [fst snd columns] in *.
        split; [intros Hc; apply TIc; apply Gx; exact Hc|]. split.
        -- apply (sound_put U st' id i c f _ HU Hnode (proj1 S) Ent).
        -- apply (tb5_put st' id i c f _ Hnode (proj2 S)). intros ->. apply (events_TE i evs Hd (Gx eq_refl)).
    + intros st c Hs. cbn [map_of]. rewrite TEc.
      destruct (cache_get (store_get st id) (mkOpts c false)) as [v|] eqn:G.
      * cbn [fst snd]. split; [|exact Hs]. intros ->. apply (proj2 Hs id i Hnode false v G).
      * destruct (IM st c Hs) as [E S]. destruct (IMs st c (proj1 Hs)) as [Ent _].
        destruct (map_of st i c) as [m st']. cbn [fst snd] in *.
        pose proof (sound_put U st' id i c false m HU Hnode (proj1 S) Ent) as S1.
        pose proof (tb5_put st' id i c false m Hnode (proj2 S) E) as S2.
        split; [|split; assumption]. intros ->.
        destruct (cache_get (store_get (store_put st' id (mkOpts true false) m) id) (mkOpts true false)) as [m'|] eqn:G';
          [apply (S2 id i Hnode false m' G')|apply E; reflexivity].
Qed.

End Tables.

(* ================================================================== *)
(* clause 5 and the checker                                             *)
(* ================================================================== *)
Lemma file_listed_A s (A : list (text * option text)) m f :
  names_determine_content (originals s) = true ->
  (forall n c, In (n, c) A -> exists v, c = Some v /\ In (n, v) (originals s)) ->
  sm_sources m = map fst A -> sm_contents m = map getc A ->
  In f (map fst A) -> file_listed m (originals s) f = true.
Proof.
  intros Hn I2 Es Ec Hf. unfold file_listed. rewrite Es, Ec.
  destruct (find_text_in _ f 0 Hf) as [i Ei]. rewrite Ei.
  pose proof (find_text_nth0 _ _ _ Ei) as Ni.
  destruct (nth_opt_map_inv _ _ _ _ Ni) as [[f' c] [Np Ef]]. cbn [fst] in Ef. subst f'.
  rewrite (nth_opt_map getc _ _ _ Np).
  destruct (I2 f c (nth_opt_In _ _ _ Np)) as [v [-> Hv]]. cbn [getc snd].
  assert (Hfo : In f (map fst (originals s))).
  { apply in_map_iff. exists (f, v). split; [reflexivity|exact Hv]. }
  destruct (find_text_in _ f 0 Hfo) as [k Ek]. rewrite Ek.
  pose proof (find_text_nth0 _ _ _ Ek) as Nk.
  destruct (nth_opt_map_inv _ _ _ _ Nk) as [[f' v'] [Nq Ef]]. cbn [fst] in Ef. subst f'.
  rewrite (nth_opt_map snd _ _ _ Nq). cbn [snd].
  apply text_eqb_eq. apply (names_determine_in _ Hn f v v' Hv (nth_opt_In _ _ _ Nq)).
Qed.

Section FindCached.
Variable Fc : text -> option text.

Lemma find_cached_good : forall t id node, find_cached t id = Some node ->
  (good4 Fc t -> good4 Fc node) /\ (good5 t -> good5 node).
Proof.
  apply (src_ind' (fun t => forall id node, find_cached t id = Some node ->
                            (good4 Fc t -> good4 Fc node) /\ (good5 t -> good5 node))); try (intros; discriminate).
  - intros cs IH id node H. cbn [find_cached] in H.
    assert (G : exists c, In c cs /\ find_cached c id = Some node).
    { revert H. clear IH. induction cs as [|c cs IHc]; intros H; [discriminate|].
      destruct (find_cached c id) as [x|] eqn:E.
      - inversion H. subst x. exists c. split; [left; reflexivity|exact E].
      - destruct (IHc H) as [c' [Hc' E']]. exists c'. split; [right; exact Hc'|exact E']. }
    destruct G as [c [Hc E]]. rewrite Forall_forall in IH. destruct (IH c Hc id node E) as [A B]. split.
    + intros Hg. apply A. apply (good4_concat Fc cs c Hg Hc).
    + intros Hg. apply B. apply (good5_concat cs c Hg Hc).
  - intros i rs IH id node H. cbn [find_cached] in H. destruct (IH id node H) as [A B]. split.
    + intros Hg. apply A. apply (good4_replace Fc i rs Hg).
    + intros Hg. apply B. apply (good5_replace i rs Hg).
  - intros k i IH id node H. cbn [find_cached] in H. destruct (k =? id).
    + inversion H. subst node. split; exact (fun X => X).
    + destruct (IH id node H) as [A B]. split.
      * intros Hg. apply A. apply (good4_cached Fc k i Hg).
      * intros Hg. apply B. apply (good5_cached k i Hg).
Qed.
End FindCached.

Section C04Final.
Variable s : src.
Hypothesis Hd : ids_distinct s.
Hypothesis Hcl : cls s.
Hypothesis Hp : pshape (uncache s) = true.
Hypothesis Hc : csmall (uncache s) = true.
Hypothesis Hdm : c04_domain s = true.

Let Fc := fc_of (originals s).

Let FcOK : forall f v, Fc f = Some v -> len v < two32 /\ ascii v = true.
Proof.
  intros f v H. destruct (cls_uncache s Hcl) as [_ [_ [HA _]]].
  apply (fc_of_ok (uncache s) Hc HA f v). rewrite uncache_originals. exact H.
Qed.

Let Hkinds : c04_kinds s false = true.
Proof. rewrite c04_domain_split in Hdm. apply andb_true_iff in Hdm. apply Hdm. Qed.

Let G4 : good4 Fc s.
Proof.
  split; [exact Hcl|]. split; [exact Hp|]. split; [exact Hkinds|].
  apply (fc_of_side s (c04_domain_names s Hdm)).
Qed.

Let G5 : good5 s.
Proof. split; [exact Hcl|]. split; [exact Hp|]. split; [exact Hkinds|exact Hc]. Qed.

(* the three invariants together *)
Definition All5 (st : store) : Prop := Sound st s /\ Sg4 s st /\ Tb5 s st.

Lemma all5_empty : All5 [].
Proof.
  split; [apply sound_empty|]. split; intros id inner _ f v H; discriminate.
Qed.

Lemma wop_all5 (st : store) (node : src) (w : wop) :
  incl (nodes node) (nodes s) -> good4 Fc node -> good5 node -> All5 st -> All5 (run_wop st node w).
Proof.
  intros Hin H4 H5 [S0 [S4 S5]].
  destruct (warm4_all Fc FcOK s Hd node Hin H4) as [A4 M4].
  destruct (warm5_all s Hd node Hin H5) as [A5 M5].
  destruct w as [c|c f]; cbn [run_wop].
  - destruct (M4 st c (conj S0 S4)) as [_ [X0 X4]]. destruct (M5 st c (conj S0 S5)) as [_ [_ X5]].
    split; [exact X0|split; assumption].
  - destruct (A4 st c f (conj S0 S4)) as [_ [X0 X4]]. destruct (A5 st c f (conj S0 S5)) as [_ [_ X5]].
    split; [exact X0|split; assumption].
Qed.

Theorem warm_all5 : forall (ws : list (N * wop)) (st : store), All5 st -> All5 (run_warm st s ws).
Proof.
  induction ws as [|[id w] ws IH]; intros st Hs; [exact Hs|].
  cbn [run_warm]. destruct (find_cached s id) as [node|] eqn:E; [|apply IH; exact Hs].
  destruct (find_cached_sub s id node E) as [A _]. destruct (find_cached_good Fc s id node E) as [B4 B5].
  apply IH. apply wop_all5; [exact A|apply B4; exact G4|apply B5; exact G5|exact Hs].
Qed.

(* clause 1 *)
Theorem warm_c04_segs (st : store) : All5 st ->
  forallb (ChkProv.seg_ok (tagged (source s) (prov s) 1 0)) (segs_of (fst (map_of st s true))) = true.
Proof.
  intros [S0 [S4 _]]. destruct (warm4_all Fc FcOK s Hd s (incl_refl _) G4) as [_ M4].
  destruct (M4 st true (conj S0 S4)) as [E _]. specialize (E eq_refl). unfold SE in E.
  apply forallb_forall. intros sg Hin. apply seg_on_seg_ok. rewrite Forall_forall in E. apply E. exact Hin.
Qed.

(* clause 5 *)
Theorem warm_c04_tables (st : store) : All5 st ->
  match fst (map_of st s true) with
  | Some m => nodup_texts (sm_sources m) && forallb (file_listed m (originals s)) (surviving_files (prov s))
  | None => is_nil (surviving_files (prov s))
  end = true.
Proof.
  intros [S0 [_ S5]]. destruct (warm5_all s Hd s (incl_refl _) G5) as [_ M5].
  destruct (M5 st true (conj S0 S5)) as [E _]. specialize (E eq_refl).
  destruct (warm_all s Hd s (incl_refl _) Hcl) as [_ [_ Ms]]. destruct (Ms st true S0) as [Ent _].
  destruct (fst (map_of st s true)) as [m|].
  - destruct E as [A [_ [Es [Ec [Hnd [Ho Hf]]]]]]. apply andb_true_iff. split; [rewrite Es; exact Hnd|].
    apply forallb_forall. intros f Hin. destruct (surviving_in f _ Hin) as (l & c & b & Hg).
    apply (file_listed_A s A m f (c04_domain_names s Hdm) Ho Es Ec). apply (Hf f l c b Hg).
  - rewrite (none_entry_surviving s G5 Ent). reflexivity.
Qed.

(* the checker over any store satisfying the invariants *)
Theorem chk_C04_warm_store (st : store) (o : tree_obs) : All5 st ->
  to_source o = source s ->
  to_maps o = [fst (map_of st s true); fst (map_of st s false)] ->
  chk_C04 s o = 0.
Proof.
  intros Hs E1 E2.
  apply (chk_C04_warm_from s Hd Hcl Hp Hc st o (proj1 Hs) Hdm E1 E2 (warm_c04_segs st Hs) (warm_c04_tables st Hs)).
Qed.

(* after ANY warm-up history *)
Theorem chk_C04_warm (ws : list (N * wop)) : chk_C04 s (api_tree s ws) = 0.
Proof.
  apply (chk_C04_warm_store (run_warm [] s ws) (api_tree s ws) (warm_all5 ws [] all5_empty) eq_refl eq_refl).
Qed.

End C04Final.

(* the statement with the hypotheses spelled out *)
Theorem C04_warm_checker (s : src) (ws : list (N * wop)) :
  ids_distinct s -> c04_domain s = true -> pshape (uncache s) = true ->
  tiny (uncache s) = true -> csmall (uncache s) = true ->
  chk_C04 s (api_tree s ws) = 0.
Proof.
  intros Hd Hdm Hp Ht Hc. apply chk_C04_warm; try assumption.
  pose proof Hdm as Hk. rewrite c04_domain_split in Hk. apply andb_true_iff in Hk. destruct Hk as [Hk _].
  apply tiny_cls; [|apply (pshape_rshape _ Hp)|apply (c04_domain_treeA s Hdm)|exact Ht].
  clear - Hk. revert Hk.
  assert (G : forall t b, c04_kinds t b = true -> k2_shape t = false).
  { apply (src_ind' (fun t => forall b, c04_kinds t b = true -> k2_shape t = false)); cbn [c04_kinds k2_shape];
      try (intros; reflexivity).
    - intros cs IH b H. rewrite Forall_forall in IH. rewrite forallb_forall in H.
      destruct (existsb k2_shape cs) eqn:E; [|reflexivity]. apply existsb_exists in E. destruct E as [c [Hc E]].
      rewrite (IH c Hc b (H c Hc)) in E. discriminate.
    - intros i rs IH b H. rewrite (kinds_true_nocache i H), (IH true H), andb_false_r. reflexivity.
    - intros id i IH b H. apply andb_true_iff in H. destruct H as [_ H]. apply (IH b H). }
  apply G.
Qed.

(* tests: the trees of ChkMoreProvCold.v, any warm-up history *)
Example chk_C04_warm_examples (ws : list (N * wop)) :
  chk_C04 pc_tree (api_tree pc_tree ws) = 0 /\ chk_C04 pc_norepl (api_tree pc_norepl ws) = 0.
Proof.
  split; apply C04_warm_checker; try (vm_compute; reflexivity); apply ids_distinctb_spec; vm_compute; reflexivity.
Qed.

Example chk_C04_warm_recomputed :
  chk_C04 pc_tree (api_tree pc_tree [(3, WStream true false); (2, WMap true); (1, WStream true true);
                                     (9, WStream true false); (2, WStream false false)]) = 0.
Proof. vm_compute. reflexivity. Qed.

Print Assumptions replay_tinvw.
Print Assumptions concat_tinvw.
Print Assumptions warm5_all.
Print Assumptions warm_all5.
Print Assumptions warm_c04_segs.
Print Assumptions warm_c04_tables.
Print Assumptions chk_C04_warm_store.
Print Assumptions chk_C04_warm.
Print Assumptions C04_warm_checker.
Print Assumptions chk_C04_warm_examples.
