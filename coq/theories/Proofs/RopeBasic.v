(* Basic facts about the piece-table model: flat string of constructors. *)
From RS Require Import Base.Prelude Base.Text Rope.RopeModel.

Lemma map_fst_with_offsets (ts : list text) (s : N) : map fst (with_offsets ts s) = ts.
Proof.
  revert s. induction ts as [|t ts IH]; intros s; cbn [with_offsets map fst]; [reflexivity|].
  rewrite IH. reflexivity.
Qed.

Lemma concat_filter_nonempty (ts : list text) :
  concat (filter (fun t => negb (is_nil t)) ts) = concat ts.
Proof.
  induction ts as [|t ts IH]; [reflexivity|].
  cbn [filter concat]. destruct t as [|c t]; cbn [is_nil negb].
  - exact IH.
  - cbn [concat]. rewrite IH. reflexivity.
Qed.

Lemma is_nil_true {A} (l : list A) : is_nil l = true -> l = [].
Proof. destruct l; [reflexivity|discriminate]. Qed.

Lemma flat_from_iter (ts : list text) : flat (rope_from_iter ts) = concat ts.
Proof.
  unfold rope_from_iter.
  destruct (is_nil (with_offsets (filter (fun t => negb (is_nil t)) ts) 0)) eqn:E.
  - apply is_nil_true in E.
    assert (H : map fst (with_offsets (filter (fun t => negb (is_nil t)) ts) 0) = []) by (rewrite E; reflexivity).
    rewrite map_fst_with_offsets in H.
    rewrite <- concat_filter_nonempty. rewrite H. reflexivity.
  - cbn [flat]. rewrite map_fst_with_offsets. apply concat_filter_nonempty.
Qed.

Lemma concat_app_single (ps : list (text * N)) (v : text) (k : N) :
  concat (map fst (ps ++ [(v, k)])) = concat (map fst ps) ++ v.
Proof. rewrite map_app, concat_app. cbn [map fst concat]. rewrite app_nil_r. reflexivity. Qed.

Lemma flat_add (r : rope) (v : text) : flat (rope_add r v) = flat r ++ v.
Proof.
  unfold rope_add. destruct (is_nil v) eqn:Ev.
  - apply is_nil_true in Ev. subst. rewrite app_nil_r. reflexivity.
  - destruct r as [s|ps].
    + destruct (is_nil s) eqn:Es.
      * apply is_nil_true in Es. subst. reflexivity.
      * cbn [flat map fst concat]. rewrite app_nil_r. reflexivity.
    + cbn [flat]. apply concat_app_single.
Qed.

Lemma flat_append (r o : rope) : flat (rope_append r o) = flat r ++ flat o.
Proof.
  destruct r as [s|ps], o as [t|qs]; unfold rope_append.
  - destruct (is_nil t) eqn:Et.
    + apply is_nil_true in Et. subst. cbn [flat]. rewrite app_nil_r. reflexivity.
    + destruct (is_nil s) eqn:Es.
      * apply is_nil_true in Es. subst. reflexivity.
      * cbn [flat map fst concat]. rewrite app_nil_r. reflexivity.
  - destruct (is_nil s) eqn:Es.
    + apply is_nil_true in Es. subst. reflexivity.
    + cbn [flat map fst concat]. rewrite map_fst_with_offsets. reflexivity.
  - destruct (is_nil t) eqn:Et.
    + apply is_nil_true in Et. subst. cbn [flat]. rewrite app_nil_r. reflexivity.
    + cbn [flat]. apply concat_app_single.
  - destruct (is_nil qs) eqn:Eq.
    + apply is_nil_true in Eq. subst. cbn [flat map concat]. rewrite app_nil_r. reflexivity.
    + cbn [flat]. rewrite map_app, concat_app, map_fst_with_offsets. reflexivity.
Qed.
