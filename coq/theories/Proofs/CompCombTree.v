(* C06 for cache-free trees WITH combined-map leaves (K1): ALL clauses of chk_C06 on the model's
   own observations (Api/ApiCheck.v: api_comp) for a ConcatSource / ReplaceSource whose children
   are trees built from raw leaves, OriginalSource, SourceMapSource with or without an inner map,
   ConcatSource and ReplaceSource (class rshape2 / treeA / rsmall of CombLeafTree.v).
   CompLinesTree.v re-run with the per-leaf facts of CombLeafTree.v / CombLeafTreeLines.v /
   WfMoreComb.v / ChkMoreComb.v.  The only new ingredient is the bound on the recorded contents
   (clause 4 of the ReplaceSource, ReplAttrCols.contents_small) for a combined leaf: it announces
   contents of its outer map, of its inner map, and the text of the inner source (the one
   supplied, else the one the outer map carries) - CombAllT12.combined_contents - so `csmall2`
   asks all three to be below 2^32 bytes. *)
From RS Require Import Base.Prelude Base.Text Rope.RopeModel Codec.Vlq Codec.CodecSpec
  Stream.Types Stream.Leaves Stream.Concat Stream.Replace Stream.Combined Stream.Tree
  Api.ApiTree Sem.Attr Sem.HashEq Api.ApiHist Checkers.ChkTree Checkers.ChkHist Checkers.ChkComp Checkers.ChkCombined Api.ApiCheck
  Proofs.StreamText Proofs.StreamLeaves Proofs.StreamConcat Proofs.StreamTree
  Proofs.WfStream Proofs.WfFinal Proofs.ReplaceSort Proofs.ReplaceText
  Proofs.RStreamText Proofs.RStreamPos Proofs.RStreamTree
  Proofs.AttrCodec Proofs.AttrSms Proofs.LawConcatAttr Proofs.LawWrappers
  Proofs.FinalDense Proofs.FinalTree
  Proofs.ReplAttrRef Proofs.ReplAttrStream Proofs.ReplAttrOrigin Proofs.ReplAttrCols Proofs.ReplAttrTree
  Proofs.LinesBase Proofs.LinesTree Proofs.WfAllChk
  Proofs.CompLinesBridge Proofs.CompLinesConcat Proofs.CompLinesReplace Proofs.CompLinesTree
  Proofs.CombAllSpec Proofs.CombAllInner Proofs.CombAllStep Proofs.CombAllT12 Proofs.CombAllTop
  Proofs.CombLeafTree Proofs.CombLeafTreeLines Proofs.WfMoreComb Proofs.ChkMoreComb.
Require Import Lia List.
Import ListNotations.

Local Open Scope N_scope.

(* ------------------------------------------------------------------ *)
(* contents below 2^32 bytes, as a condition on the tree                *)
(* ------------------------------------------------------------------ *)
Definition texts_small (l : list text) : bool := forallb (fun c => len c <? two32) l.

Fixpoint csmall2 (s : src) : bool :=
  match s with
  | SOriginal v _ => len v <? two32
  | SMapped _ _ m og i _ =>
    texts_small (sm_contents m) &&
    match i with
    | Some im => texts_small (sm_contents im) && match og with Some t => len t <? two32 | None => true end
    | None => true
    end
  | SConcat cs => forallb csmall2 cs
  | SReplace inner _ => csmall2 inner
  | SCached _ inner => csmall2 inner
  | _ => true
  end.

(* on the class without combined leaves it is ReplAttrTree.csmall *)
Lemma rshape_csmall2 : forall s, RStreamTree.rshape s = true -> csmall2 s = csmall s.
Proof.
  apply (src_ind' (fun s => RStreamTree.rshape s = true -> csmall2 s = csmall s)); try (intros; reflexivity).
  - intros v n m og i r H. destruct i; [discriminate|]. cbn [csmall2 csmall]. apply andb_true_r.
  - intros cs IH H. cbn [RStreamTree.rshape csmall2 csmall] in *. rewrite forallb_forall in H.
    rewrite Forall_forall in IH. induction cs as [|c cs IHl]; [reflexivity|]. cbn [forallb].
    rewrite (IH c (or_introl eq_refl) (H c (or_introl eq_refl))). f_equal.
    apply IHl; intros x Hx; [apply IH|apply H]; right; exact Hx.
  - intros i rs IH H. cbn [RStreamTree.rshape csmall2 csmall] in *. apply IH. exact H.
  - intros id i _ H. discriminate.
Qed.

(* ------------------------------------------------------------------ *)
(* the combined leaf                                                    *)
(* ------------------------------------------------------------------ *)
Lemma src_pairs_contents mm : forall srcs i,
  src_pairs mm srcs i = contents_of_events (announce_sources mm srcs i).
Proof.
  induction srcs as [|s srcs IH]; intros i; [reflexivity|].
  unfold src_pairs in *. cbn [announce_sources map contents_of_events]. f_equal. apply IH.
Qed.

Section LeafC.
Variables (v name : text) (m : smap) (given : option text) (im : smap) (remove : bool).
Hypothesis Hwf : c09_wf v m name given im.
Hypothesis Hm : texts_small (sm_contents m) = true.
Hypothesis Him : texts_small (sm_contents im) = true.
Hypothesis Hg : match given with Some t => len t <? two32 | None => true end = true.

Lemma files_small : forall p, In p (FILES m im name given) -> small_pair p.
Proof.
  intros p Hp. unfold FILES in Hp. apply in_app_or in Hp. destruct Hp as [Hp|Hp].
  - apply filter_In in Hp. destruct Hp as [Hp _]. unfold SPfull in Hp. rewrite src_pairs_contents in Hp.
    apply (announce_sources_csm m Hm (sm_sources m) 0 p Hp).
  - apply in_app_or in Hp. destruct Hp as [Hp|Hp].
    + unfold ISfull in Hp. rewrite src_pairs_contents in Hp.
      apply (announce_sources_csm im Him (sm_sources im) 0 p Hp).
    + destruct Hp as [<-|[]]. unfold small_pair. cbn [snd]. unfold original, original_of.
      destruct given as [t|]; [apply N.ltb_lt; exact Hg|].
      destruct (outer_content_of m (sm_sources m) 0 name) as [c|] eqn:E; [|exact I].
      pose proof (outer_content_in m name _ _ _ E) as Hc. unfold texts_small in Hm.
      rewrite forallb_forall in Hm. apply N.ltb_lt. apply Hm. exact Hc.
Qed.

Lemma combined_csm o : csm (fst (combined_stream v m name given im remove o)).
Proof.
  intros p Hp. pose proof (combined_contents v m name given im remove o Hwf) as F.
  rewrite Forall_forall in F. apply files_small. apply F. exact Hp.
Qed.

End LeafC.

(* ------------------------------------------------------------------ *)
(* the tree                                                             *)
(* ------------------------------------------------------------------ *)
Theorem csmall2_tree : forall s, rshape2 s = true -> treeA s = true -> csmall2 s = true -> csm_all s.
Proof.
  apply (src_ind' (fun s => rshape2 s = true -> treeA s = true -> csmall2 s = true -> csm_all s)).
  - intros b v _ H2 H3. apply (csmall_tree (SRaw b v) eq_refl H2 eq_refl).
  - intros v _ H2 H3. apply (csmall_tree (SRawString v) eq_refl H2 eq_refl).
  - intros v _ H2 H3. apply (csmall_tree (SRawBuffer v) eq_refl H2 eq_refl).
  - intros v n _ H2 H3. apply (csmall_tree (SOriginal v n) eq_refl H2 H3).
  - intros v n m og i r Hsh HA Hc. destruct i as [im|].
    + intros st. cbn [rshape2] in Hsh. apply c09_wfb_iff in Hsh. cbn [csmall2] in Hc.
      apply andb_true_iff in Hc. destruct Hc as [Hc1 Hc]. apply andb_true_iff in Hc. destruct Hc as [Hc2 Hc3].
      unfold evs_of. cbn [stream fst]. apply combined_csm; assumption.
    + apply (csmall_tree (SMapped v n m og None r) eq_refl HA).
      cbn [csmall2] in Hc. rewrite andb_true_r in Hc. exact Hc.
  - (* ConcatSource *)
    intros cs IH Hsh HA Hc st. cbn [rshape2 csmall2] in Hsh, Hc.
    assert (Hall : Forall csm_all cs).
    { rewrite Forall_forall in *. rewrite forallb_forall in Hsh, Hc. intros c Hin.
      apply IH; [exact Hin|apply Hsh; exact Hin|apply (treeA_concat cs HA c Hin)|apply Hc; exact Hin]. }
    destruct (Nat.eq_dec (length cs) 1) as [E|E].
    + destruct cs as [|c [|c2 r]]; try discriminate. inversion Hall as [|? ? Hc1 _]. apply Hc1.
    + unfold evs_of. rewrite (stream_concat_fold st cs _ E). cbn [fst snd o10 final_source].
      apply concat_fold_csm; [apply csm_nil; reflexivity|]. apply (kid_streams_csm cs Hall st).
  - (* ReplaceSource *)
    intros i rs IH Hsh HA Hc st. cbn [rshape2 csmall2] in Hsh, Hc.
    destruct (treeA_replace_inv i rs HA) as [HAi _].
    pose proof (IH Hsh HAi Hc st) as K. unfold evs_of, o10 in *. rewrite stream_replace_eq.
    destruct (stream st i (mkOpts true false)) as [[ievs gi] st1]. cbn [fst snd] in *.
    intros p Hp. rewrite replace_stream_contents in Hp. apply K. exact Hp.
  - intros id i _ Hsh. discriminate.
Qed.

(* ------------------------------------------------------------------ *)
(* the streams of a tree of the class                                   *)
(* ------------------------------------------------------------------ *)
Lemma tree_stream_facts2 (st : store) (s : src) (cols : bool) :
  rshape2 s = true -> treeA s = true -> rsmall s = true ->
  let r := stream st s (mkOpts cols false) in
  reassembles (evs_of r) (source s) = true /\ chunks_nl_last (evs_of r) = true /\ snd r = st.
Proof.
  intros H1 H2 H3. pose proof (rgood2_all s H1 H2 H3 st cols) as [[A1 _] [A3 [_ A5]]]. cbn zeta in *.
  unfold evs_of. split; [apply reassembles_iff; exact A1|]. split; [apply chunks_nl_last_iff; exact A3|exact A5].
Qed.

Lemma kids_pure2 (cols : bool) (cs : list src) (st : store) :
  rshape2 (SConcat cs) = true -> treeA (SConcat cs) = true -> rsmall (SConcat cs) = true ->
  kid_streams st cs (mkOpts cols false) = (map (fun c => fst (stream st c (mkOpts cols false))) cs, st).
Proof.
  intros Hsh Ha Hsm. apply kid_streams_pure. intros c Hin st0.
  apply (tree_stream_facts2 st0 c cols (rshape2_concat cs Hsh c Hin) (treeA_concat cs Ha c Hin) (rsmall_concat cs Hsm c Hin)).
Qed.

Lemma kids_dense2 (o : opts) (cs : list src) (st : store) :
  rshape2 (SConcat cs) = true -> treeA (SConcat cs) = true ->
  Forall (fun k : list event * (N * N) => dense (fst k) 0 0 = true) (map (fun c => fst (stream st c o)) cs).
Proof.
  intros Hsh Ha. rewrite Forall_map. apply Forall_forall. intros c Hin.
  apply dense2_tree_any; [apply (rshape2_concat cs Hsh c Hin)|apply (treeA_concat cs Ha c Hin)].
Qed.

(* ------------------------------------------------------------------ *)
(* ConcatSource: clauses 1, 2, 3                                         *)
(* ------------------------------------------------------------------ *)
Theorem concat_tree_clauses2 (st : store) (cs : list src) :
  rshape2 (SConcat cs) = true -> treeA (SConcat cs) = true -> rsmall (SConcat cs) = true ->
  let c10 := evs_of (stream st (SConcat cs) (mkOpts true false)) in
  let c00 := evs_of (stream st (SConcat cs) (mkOpts false false)) in
  let k10 := map (fun c => evs_of (stream st c (mkOpts true false))) cs in
  let k00 := map (fun c => evs_of (stream st c (mkOpts false false))) cs in
  attr_of_stream c10 true = concat_expected k10 /\
  (bindings_consistent (flat_map contents_of_events k10) = true -> contents_preserved c10 k10 = true) /\
  attr_of_stream c00 false = line_first_bytes (source (SConcat cs)) (concat_expected k00) None 0 [].
Proof.
  intros Hsh Ha Hsm c10 c00 k10 k00.
  pose proof (tree_stream_facts2 st (SConcat cs) false Hsh Ha Hsm) as [R0 [N0 _]]. cbn zeta in R0, N0. fold c00 in R0, N0.
  destruct (Nat.eq_dec (length cs) 1) as [E|E].
  - destruct cs as [|c [|c2 r]]; try discriminate.
    assert (E1 : c10 = evs_of (stream st c (mkOpts true false))) by reflexivity.
    assert (E0 : c00 = evs_of (stream st c (mkOpts false false))) by reflexivity.
    unfold k10, k00. cbn [map]. rewrite <- E1, <- E0, !concat_expected_one.
    split; [reflexivity|]. split; [intros _; apply contents_preserved_same; reflexivity|].
    apply (lines_bridge c00 _ R0 N0).
  - pose proof (kids_dense2 (mkOpts true false) cs st Hsh Ha) as D1.
    pose proof (kids_dense2 (mkOpts false false) cs st Hsh Ha) as D0.
    unfold c10, c00, k10, k00, evs_of in *.
    rewrite (stream_concat_fold st cs _ E), (kids_pure2 true cs st Hsh Ha Hsm) in *.
    rewrite (stream_concat_fold st cs (mkOpts false false) E), (kids_pure2 false cs st Hsh Ha Hsm) in *.
    cbn [fst snd final_source] in *.
    fold (evs_of) in *.
    change (map (fun c => fst (fst (stream st c (mkOpts true false)))) cs)
      with (map (fun c => evs_of (stream st c (mkOpts true false))) cs).
    change (map (fun c => fst (fst (stream st c (mkOpts false false)))) cs)
      with (map (fun c => evs_of (stream st c (mkOpts false false))) cs).
    rewrite !kids_evs.
    split; [apply list_eqb_attr_eq; apply concat_attr_expected; exact D1|].
    split; [intros Hb; apply concat_contents_preserved; assumption|].
    apply (concat_lines_attr _ _ D0 R0 N0).
Qed.

(* ------------------------------------------------------------------ *)
(* ReplaceSource: clauses 4, 5, 6                                        *)
(* ------------------------------------------------------------------ *)
Theorem replace_tree_clauses2 (st : store) (inner : src) (rs : list repl) :
  rshape2 inner = true -> treeA (SReplace inner rs) = true -> rsmall (SReplace inner rs) = true ->
  csmall2 inner = true ->
  let c10 := evs_of (stream st (SReplace inner rs) (mkOpts true false)) in
  let c00 := evs_of (stream st (SReplace inner rs) (mkOpts false false)) in
  let k10 := evs_of (stream st inner (mkOpts true false)) in
  let k00 := evs_of (stream st inner (mkOpts false false)) in
  (bindings_consistent (contents_of_events k10) = true -> attr_of_stream c10 true = replace_reference k10 rs) /\
  contents_preserved c10 [k10] = true /\
  attr_of_stream c00 false
  = line_first_bytes (source (SReplace inner rs)) (replace_reference k00 rs) None 0 [].
Proof.
  intros Hsh HA Hsm Hc c10 c00 k10 k00.
  destruct (treeA_replace_inv inner rs HA) as [HAi Hrs].
  pose proof (repl_ok_ordered _ _ Hrs) as Hord.
  cbn [rsmall] in Hsm. apply andb_true_iff in Hsm. destruct Hsm as [Hsmi Hsz]. apply N.ltb_lt in Hsz.
  assert (F : forall cols,
    let r := stream st inner (mkOpts cols false) in
    reassembles (fst (fst r)) (source inner) = true /\ no_empty_chunks (fst (fst r)) = true /\
    dense (fst (fst r)) 0 0 = true /\ well_positioned (chunks_of (fst (fst r))) 1 0 = true /\
    chunks_nl_last (fst (fst r)) = true /\ snd (fst r) = advance 1 0 (source inner)).
  { intros cols. cbn zeta.
    pose proof (rshape2_stream_good st inner cols Hsh HAi Hsmi) as G.
    pose proof (rshape2_no_empty st inner cols Hsh HAi Hsmi) as Ne.
    pose proof (dense2_tree_any inner st (mkOpts cols false) Hsh HAi) as D.
    pose proof (rshape2_stream_nl_last st inner cols Hsh HAi Hsmi) as Nl.
    destruct (stream st inner (mkOpts cols false)) as [[evs gi] st']. cbn [fst snd] in *.
    destruct G as [G1 [G2 [G3 _]]]. repeat split; assumption. }
  split; [|split].
  - intros Hb. pose proof (F true) as [Fr [Fne [Fd _]]]. cbn zeta in *.
    pose proof (csm_contents_small _ (csmall2_tree inner Hsh HAi Hc st)) as Fs.
    unfold c10, k10, evs_of, o10 in *. rewrite stream_replace_eq.
    destruct (stream st inner (mkOpts true false)) as [[ievs gi] st1]. cbn [fst snd] in *.
    apply (replace_attr_full rs ievs (source inner) gi Hord Fr Fne Fd Hb Fs).
  - unfold c10, k10, evs_of. rewrite stream_replace_eq.
    destruct (stream st inner (mkOpts true false)) as [[ievs gi] st1]. cbn [fst snd].
    apply replace_contents_preserved.
  - pose proof (F false) as [Fr [Fne [Fd [Fw [Fn Fg]]]]]. cbn zeta in *.
    unfold c00, k00, evs_of in *. rewrite stream_replace_eq.
    destruct (stream st inner (mkOpts false false)) as [[ievs gi] st1]. cbn [fst snd] in *. subst gi.
    apply (replace_lines_attr rs ievs (source inner) Hord Fr Fw Fn Fne Fd Hsz).
Qed.

(* ------------------------------------------------------------------ *)
(* the model's own observations                                         *)
(* ------------------------------------------------------------------ *)
Lemma api_comp_concat2 (cs : list src) (ws : list (N * wop)) : rshape2 (SConcat cs) = true ->
  api_comp (SConcat cs) ws =
  (evs_of (stream [] (SConcat cs) (mkOpts true false)), evs_of (stream [] (SConcat cs) (mkOpts false false)),
   map (fun c => evs_of (stream [] c (mkOpts true false))) cs,
   map (fun c => evs_of (stream [] c (mkOpts false false))) cs).
Proof.
  intros Hsh. unfold api_comp. rewrite (run_warm_rshape2 (SConcat cs) Hsh ws []).
  f_equal; [f_equal|]; apply map_ext_in; intros c Hin;
    rewrite (run_warm_rshape2 c (rshape2_concat cs Hsh c Hin) ws []); reflexivity.
Qed.

Lemma api_comp_replace2 (inner : src) (rs : list repl) (ws : list (N * wop)) : rshape2 inner = true ->
  api_comp (SReplace inner rs) ws =
  (evs_of (stream [] (SReplace inner rs) (mkOpts true false)), evs_of (stream [] (SReplace inner rs) (mkOpts false false)),
   [evs_of (stream [] inner (mkOpts true false))], [evs_of (stream [] inner (mkOpts false false))]).
Proof.
  intros Hsh. unfold api_comp. rewrite (run_warm_rshape2 (SReplace inner rs) Hsh ws []).
  cbn [map]. rewrite (run_warm_rshape2 inner Hsh ws []). reflexivity.
Qed.

(* ConcatSource: clauses 9, 1, 2, 3 never fire *)
Theorem C06_concat_checker2 (cs : list src) (ws : list (N * wop)) :
  rshape2 (SConcat cs) = true -> treeA (SConcat cs) = true -> rsmall (SConcat cs) = true ->
  let '(c10, c00, k10, k00) := api_comp (SConcat cs) ws in
  chk_C06 (SConcat cs) (source (SConcat cs)) c10 c00 k10 k00 =
  if bindings_consistent (flat_map contents_of_events k10) then 0 else 100.
Proof.
  intros Hsh HA Hsm. rewrite (api_comp_concat2 cs ws Hsh).
  pose proof (concat_tree_clauses2 [] cs Hsh HA Hsm) as [C1 [C2 C3]]. cbn zeta in C1, C2, C3.
  unfold chk_C06. rewrite HA. cbn [negb].
  destruct (bindings_consistent _) eqn:Hb; cbn [negb]; [|reflexivity].
  rewrite slen_map', N.eqb_refl. cbn [negb].
  rewrite C1, (list_eqb_attr_refl attr_eqb attr_eqb_refl). cbn [negb].
  rewrite (C2 eq_refl). cbn [negb].
  rewrite C3, (list_eqb_attr_refl attr_eqb_fl attr_eqb_fl_refl). reflexivity.
Qed.

(* ReplaceSource: clauses 9, 4, 5, 6 never fire *)
Theorem C06_replace_checker2 (inner : src) (rs : list repl) (ws : list (N * wop)) :
  rshape2 inner = true -> treeA (SReplace inner rs) = true -> rsmall (SReplace inner rs) = true ->
  csmall2 inner = true ->
  let '(c10, c00, k10, k00) := api_comp (SReplace inner rs) ws in
  chk_C06 (SReplace inner rs) (source (SReplace inner rs)) c10 c00 k10 k00 =
  if bindings_consistent (flat_map contents_of_events k10) then 0 else 100.
Proof.
  intros Hsh HA Hsm Hc. rewrite (api_comp_replace2 inner rs ws Hsh).
  pose proof (replace_tree_clauses2 [] inner rs Hsh HA Hsm Hc) as [C4 [C5 C6]]. cbn zeta in C4, C5, C6.
  unfold chk_C06. rewrite HA. cbn [negb flat_map]. rewrite app_nil_r.
  destruct (bindings_consistent _) eqn:Hb; cbn [negb]; [|reflexivity].
  rewrite (C4 eq_refl), (list_eqb_attr_refl attr_eqb attr_eqb_refl). cbn [negb].
  rewrite C5. cbn [negb].
  rewrite C6, (list_eqb_attr_refl attr_eqb_fl attr_eqb_fl_refl). reflexivity.
Qed.

(* K1: every composite of the class *)
Theorem C06_tree2 (s : src) (ws : list (N * wop)) :
  composite s = true -> rshape2 s = true -> treeA s = true -> rsmall s = true -> csmall2 s = true ->
  let '(c10, c00, k10, k00) := api_comp s ws in
  bindings_consistent (flat_map contents_of_events k10) = true ->
  chk_C06 s (source s) c10 c00 k10 k00 = 0.
Proof.
  intros Hcomp Hsh HA Hsm Hc. destruct s as [| | | | |cs|inner rs|]; try discriminate.
  - pose proof (C06_concat_checker2 cs ws Hsh HA Hsm) as K.
    destruct (api_comp (SConcat cs) ws) as [[[c10 c00] k10] k00]. intros Hb. rewrite Hb in K. exact K.
  - pose proof (C06_replace_checker2 inner rs ws Hsh HA Hsm Hc) as K.
    destruct (api_comp (SReplace inner rs) ws) as [[[c10 c00] k10] k00]. intros Hb. rewrite Hb in K. exact K.
Qed.

Print Assumptions rshape_csmall2.
Print Assumptions combined_csm.
Print Assumptions csmall2_tree.
Print Assumptions concat_tree_clauses2.
Print Assumptions replace_tree_clauses2.
Print Assumptions C06_concat_checker2.
Print Assumptions C06_replace_checker2.
Print Assumptions C06_tree2.
