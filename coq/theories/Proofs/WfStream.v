(* C11, stream part: `stream_wf` (announced indices dense from zero in order of first
   announcement, every index used by a chunk announced earlier).
   W1: leaves.  W2: ConcatSource.  W3: ReplaceSource.  W4: trees. *)
From RS Require Import Base.Prelude Base.Text Rope.RopeModel Codec.Vlq Codec.CodecSpec
  Stream.Types Stream.Leaves Stream.Concat Stream.Replace Stream.Combined Stream.Tree
  Sem.Attr Checkers.ChkTree
  Proofs.StreamText Proofs.StreamLeaves Proofs.StreamMap Proofs.StreamConcat Proofs.StreamTree.
Require Import Lia List.

Local Open Scope N_scope.

(* ------------------------------------------------------------------ *)
(* LinearMap                                                           *)
(* ------------------------------------------------------------------ *)
Lemma lm_set_same {A} (d : A) (v : A) : forall k l, nth_error (lm_set d l k v) k = Some v.
Proof.
  induction k as [|k IH]; intros [|x l]; cbn [lm_set nth_error]; try reflexivity; apply IH.
Qed.

Lemma lm_set_other {A} (d : A) (v : A) : forall k l j x, j <> k ->
  nth_error l j = Some x -> nth_error (lm_set d l k v) j = Some x.
Proof.
  induction k as [|k IH]; intros [|y l] j x Hne H; destruct j as [|j]; cbn [lm_set nth_error] in *;
    try discriminate; try contradiction; try exact H.
  apply IH; [congruence|exact H].
Qed.

Lemma lm_set_length {A} (d : A) (v : A) : forall k l,
  length (lm_set d l k v) = Nat.max (length l) (S k).
Proof.
  induction k as [|k IH]; intros [|x l]; cbn [lm_set length]; try rewrite IH; cbn [length]; lia.
Qed.

Lemma lm_get_insert_same {A} (d : A) l k v : lm_get (lm_insert d l k v) k = Some v.
Proof. unfold lm_get, lm_insert, nth_opt. apply lm_set_same. Qed.

Lemma lm_get_insert_other {A} (d : A) l k v j x : j <> k ->
  lm_get l j = Some x -> lm_get (lm_insert d l k v) j = Some x.
Proof.
  unfold lm_get, lm_insert, nth_opt. intros Hne H. apply lm_set_other; [lia|exact H].
Qed.

Lemma lm_insert_len {A} (d : A) l k v : len (lm_insert d l k v) = N.max (len l) (k + 1).
Proof. unfold len, lm_insert. rewrite lm_set_length. lia. Qed.

Lemma find_text_bound tbl t : forall i g, find_text tbl t i = Some g -> i <= g /\ g < i + len tbl.
Proof.
  induction tbl as [|x tbl IH]; intros i g H; cbn [find_text] in H; [discriminate|].
  rewrite slen_cons. destruct (text_eqb x t).
  - inversion H. lia.
  - apply IH in H. lia.
Qed.

(* ------------------------------------------------------------------ *)
(* stream_wf with counters                                             *)
(* ------------------------------------------------------------------ *)
(* the counters after an event list *)
Fixpoint cnt (evs : list event) (ns nn : N) : N * N :=
  match evs with
  | [] => (ns, nn)
  | ESource i _ _ :: evs' => cnt evs' (if i =? ns then ns + 1 else ns) nn
  | EName i _ :: evs' => cnt evs' ns (if i =? nn then nn + 1 else nn)
  | EChunk _ _ :: evs' => cnt evs' ns nn
  end.

Lemma stream_wf_app a : forall b ns nn,
  stream_wf (a ++ b) ns nn =
  stream_wf a ns nn && stream_wf b (fst (cnt a ns nn)) (snd (cnt a ns nn)).
Proof.
  induction a as [|e a IH]; intros b ns nn; [reflexivity|].
  destruct e as [t m|i n c|i n]; cbn [app stream_wf cnt]; rewrite IH, andb_assoc; reflexivity.
Qed.

Lemma cnt_app a : forall b ns nn,
  cnt (a ++ b) ns nn = cnt b (fst (cnt a ns nn)) (snd (cnt a ns nn)).
Proof.
  induction a as [|e a IH]; intros b ns nn; [reflexivity|].
  destruct e as [t m|i n c|i n]; cbn [app cnt]; apply IH.
Qed.

(* well formed from (ns, nn), ending with the counters (ns', nn') *)
Definition wf_to (evs : list event) (ns nn ns' nn' : N) : Prop :=
  stream_wf evs ns nn = true /\ cnt evs ns nn = (ns', nn').

Lemma wf_to_nil ns nn : wf_to [] ns nn ns nn.
Proof. split; reflexivity. Qed.

Lemma wf_to_app a b ns nn ns1 nn1 ns2 nn2 :
  wf_to a ns nn ns1 nn1 -> wf_to b ns1 nn1 ns2 nn2 -> wf_to (a ++ b) ns nn ns2 nn2.
Proof.
  intros [A1 A2] [B1 B2]. split.
  - rewrite stream_wf_app, A1, A2. exact B1.
  - rewrite cnt_app, A2. exact B2.
Qed.

Lemma wf_to_wf evs ns nn ns' nn' : wf_to evs ns nn ns' nn' -> stream_wf evs ns nn = true.
Proof. intros [H _]. exact H. Qed.

(* chunks whose indices are below the counters *)
Definition orig_ok (ns nn : N) (mo : option orig) : Prop :=
  match mo with
  | Some o => o_src o < ns /\ match o_name o with Some n => n < nn | None => True end
  | None => True
  end.

Definition chunk_ok (ns nn : N) (e : event) : Prop :=
  match e with EChunk _ m => orig_ok ns nn (m_orig m) | _ => False end.

Lemma orig_ok_mono ns nn ns' nn' mo : ns <= ns' -> nn <= nn' -> orig_ok ns nn mo -> orig_ok ns' nn' mo.
Proof.
  intros H1 H2. destruct mo as [o|]; [|intros; exact I]. cbn [orig_ok]. intros [A B].
  split; [lia|]. destruct (o_name o); [lia|exact I].
Qed.

Lemma chunk_ok_mono ns nn ns' nn' e : ns <= ns' -> nn <= nn' -> chunk_ok ns nn e -> chunk_ok ns' nn' e.
Proof. intros H1 H2. destruct e; cbn [chunk_ok]; [apply orig_ok_mono; assumption|tauto|tauto]. Qed.

Lemma chunks_ok_mono ns nn ns' nn' evs : ns <= ns' -> nn <= nn' ->
  Forall (chunk_ok ns nn) evs -> Forall (chunk_ok ns' nn') evs.
Proof. intros H1 H2 H. eapply Forall_impl; [|exact H]. intros e. apply chunk_ok_mono; assumption. Qed.

Lemma chunks_wf ns nn evs : Forall (chunk_ok ns nn) evs -> wf_to evs ns nn ns nn.
Proof.
  induction 1 as [|e evs He _ IH]; [apply wf_to_nil|].
  destruct e as [t m|i n c|i n]; cbn [chunk_ok] in He; try contradiction.
  destruct IH as [I1 I2]. split; cbn [stream_wf cnt]; [|exact I2].
  rewrite I1, andb_true_r. destruct (m_orig m) as [o|]; [|reflexivity].
  cbn [orig_ok] in He. destruct He as [A B]. apply andb_true_iff. split; [apply N.ltb_lt; exact A|].
  destruct (o_name o); [apply N.ltb_lt; exact B|reflexivity].
Qed.

Lemma chunk_ok_unmapped ns nn t l c : chunk_ok ns nn (EChunk t (unmapped l c)).
Proof. exact I. Qed.

(* ------------------------------------------------------------------ *)
(* W1: raw leaves                                                      *)
(* ------------------------------------------------------------------ *)
Lemma raw_chunks_ok ns nn ls : forall line, Forall (chunk_ok ns nn) (raw_chunks ls line).
Proof.
  induction ls as [|l ls IH]; intros line; cbn [raw_chunks]; constructor; [exact I|apply IH].
Qed.

Theorem raw_stream_wf (t : text) (b : bool) : stream_wf (fst (raw_stream t b)) 0 0 = true.
Proof.
  unfold raw_stream. destruct b; cbn [fst]; [reflexivity|].
  apply (wf_to_wf _ 0 0 0 0). apply chunks_wf. apply raw_chunks_ok.
Qed.

(* ------------------------------------------------------------------ *)
(* W1: OriginalSource                                                  *)
(* ------------------------------------------------------------------ *)
Lemma orig_at_ok t l c : chunk_ok 1 0 (EChunk t (orig_at l c)).
Proof. cbn. split; [lia|exact I]. Qed.

Lemma original_tokens_ok final toks : forall line col,
  Forall (chunk_ok 1 0) (fst (original_tokens toks final line col)).
Proof.
  induction toks as [|tk toks IH]; intros line col; [constructor|].
  cbn [original_tokens].
  destruct (ends_with_nl tk).
  - specialize (IH (line + 1) 0). destruct (original_tokens toks final (line + 1) 0) as [evs gi].
    cbn [fst] in *. apply Forall_app. split; [|exact IH].
    destruct (true && (len tk =? 1)); [destruct final|];
      repeat (first [apply Forall_nil | apply Forall_cons]); try exact I; try apply orig_at_ok.
  - specialize (IH line (col + len tk)). destruct (original_tokens toks final line (col + len tk)) as [evs gi].
    cbn [fst andb] in *. apply Forall_app. split; [|exact IH].
    apply Forall_cons; [apply orig_at_ok|apply Forall_nil].
Qed.

Lemma original_line_marks_ok n : forall line, Forall (chunk_ok 1 0) (original_line_marks n line).
Proof.
  induction n as [|n IH]; intros line; cbn [original_line_marks]; constructor; [apply orig_at_ok|apply IH].
Qed.

Lemma original_line_chunks_ok ls : forall line, Forall (chunk_ok 1 0) (original_line_chunks ls line).
Proof.
  induction ls as [|l ls IH]; intros line; cbn [original_line_chunks]; constructor; [apply orig_at_ok|apply IH].
Qed.

Lemma announce0_wf n c evs : Forall (chunk_ok 1 0) evs -> stream_wf (ESource 0 n c :: evs) 0 0 = true.
Proof. intros H. cbn [stream_wf]. change (0 =? 0) with true. cbn iota. apply (chunks_wf 1 0 evs H). Qed.

Theorem original_stream_wf (v name : text) (o : opts) :
  stream_wf (fst (original_stream v name o)) 0 0 = true.
Proof.
  unfold original_stream. destruct (columns o).
  - pose proof (original_tokens_ok (final_source o) (potential_tokens v) 1 0) as H.
    destruct (original_tokens (potential_tokens v) (final_source o) 1 0) as [evs gi]. cbn [fst] in *.
    apply announce0_wf. exact H.
  - destruct (final_source o).
    + destruct (gen_info v) as [gl gc]. cbn [fst]. apply announce0_wf. apply original_line_marks_ok.
    + cbn [fst]. apply announce0_wf. apply original_line_chunks_ok.
Qed.

(* ------------------------------------------------------------------ *)
(* W1: SourceMapSource without inner map                               *)
(* ------------------------------------------------------------------ *)
Lemma announce_sources_wf m srcs : forall i nn,
  wf_to (announce_sources m srcs i) i nn (i + len srcs) nn.
Proof.
  induction srcs as [|s srcs IH]; intros i nn.
  - cbn [announce_sources]. rewrite slen_nil, N.add_0_r. apply wf_to_nil.
  - cbn [announce_sources]. destruct (IH (i + 1) nn) as [A B]. split; cbn [stream_wf cnt].
    + rewrite N.leb_refl, N.eqb_refl. exact A.
    + rewrite N.eqb_refl, B, slen_cons. f_equal. lia.
Qed.

Lemma announce_names_wf names : forall i ns,
  wf_to (announce_names names i) ns i ns (i + len names).
Proof.
  induction names as [|s names IH]; intros i ns.
  - cbn [announce_names]. rewrite slen_nil, N.add_0_r. apply wf_to_nil.
  - cbn [announce_names]. destruct (IH (i + 1) ns) as [A B]. split; cbn [stream_wf cnt].
    + rewrite N.leb_refl, N.eqb_refl. exact A.
    + rewrite N.eqb_refl, B, slen_cons. f_equal. lia.
Qed.

Definition seg_ok (ns nn : N) (mp : mapping) : Prop := orig_ok ns nn (m_orig mp).

Lemma segs_inside_ok t m ms : segs_inside t m ms = true ->
  Forall (seg_ok (len (sm_sources m)) (len (sm_names m))) ms.
Proof.
  induction ms as [|mp ms IH]; [constructor|]. cbn [segs_inside]. intros H.
  apply andb_true_iff in H. destruct H as [H H3]. apply andb_true_iff in H. destruct H as [_ H2].
  constructor; [|apply IH; exact H3]. unfold seg_ok. destruct (m_orig mp) as [o|]; [|exact I].
  cbn [orig_ok]. apply andb_true_iff in H2. destruct H2 as [H2 Hn]. apply andb_true_iff in H2.
  destruct H2 as [Hs _]. apply N.ltb_lt in Hs. split; [exact Hs|].
  destruct (o_name o); [apply N.ltb_lt; exact Hn|exact I].
Qed.

Lemma map_consistent_segs t m : map_consistent t m = true ->
  Forall (seg_ok (len (sm_sources m)) (len (sm_names m))) (decode_mappings (sm_mappings m)).
Proof.
  unfold map_consistent. intros H. apply andb_true_iff in H. destruct H as [H _].
  apply andb_true_iff in H. destruct H as [_ H]. apply (segs_inside_ok t m). exact H.
Qed.

(* columns, final *)
Lemma sm_final_loop_ok ns nn rl rc ms : Forall (seg_ok ns nn) ms ->
  forall active, Forall (chunk_ok ns nn) (sm_final_loop ms rl rc active).
Proof.
  induction 1 as [|m ms Hm _ IH]; intros active; [constructor|]. cbn [sm_final_loop].
  destruct ((rl <=? g_line m) && ((rc <=? g_col m) || (rl <? g_line m))); [apply IH|].
  unfold seg_ok in Hm. destruct (m_orig m) as [o|] eqn:E.
  - constructor; [|apply IH]. cbn [chunk_ok]. rewrite E. exact Hm.
  - destruct (active =? g_line m); [constructor; [exact I|]|]; apply IH.
Qed.

(* columns, text *)
Lemma whole_lines_ok ns nn ls : forall i cur target, Forall (chunk_ok ns nn) (whole_lines ls i cur target).
Proof.
  induction ls as [|l ls IH]; intros i cur target; cbn [whole_lines]; [constructor|].
  destruct ((cur <=? i) && (i <? target)); [constructor; [exact I|]|]; apply IH.
Qed.

Lemma sm_full_step_ok ns nn ls fl fc st m :
  orig_ok ns nn (f_orig st) -> orig_ok ns nn (m_orig m) ->
  orig_ok ns nn (f_orig (fst (sm_full_step ls fl fc st m))) /\
  Forall (chunk_ok ns nn) (snd (sm_full_step ls fl fc st m)).
Proof.
  intros Hst Hm. rewrite sm_full_step_eq.
  destruct (step_guard st m); [split; [exact Hst|constructor]|].
  assert (P1 : orig_ok ns nn (f_orig (fst (ph1 ls st m))) /\ Forall (chunk_ok ns nn) (snd (ph1 ls st m))).
  { unfold ph1. destruct (f_active st && (f_line st <=? len ls)); [|split; [exact Hst|constructor]].
    destruct (line_at ls (f_line st)) as [line|]; [|split; [exact Hst|constructor]].
    destruct (negb (g_line m =? f_line st)); cbn [fst snd f_orig]; (split; [exact Hst|]);
      match goal with |- context [is_nil ?x] => destruct (is_nil x) end;
      repeat constructor; exact Hst. }
  destruct (ph1 ls st m) as [st1 ev1]. cbn [fst snd] in P1. destruct P1 as [H1 E1].
  assert (P2 : orig_ok ns nn (f_orig (fst (ph2 ls st1 m))) /\ Forall (chunk_ok ns nn) (snd (ph2 ls st1 m))).
  { unfold ph2. destruct ((f_line st1 <? g_line m) && (0 <? f_col st1)); [|split; [exact H1|constructor]].
    cbn [fst snd f_orig]. split; [exact H1|]. destruct (f_line st1 <=? len ls); [|constructor].
    destruct (line_at ls (f_line st1)); [|constructor]. cbv zeta.
    match goal with |- context [is_nil ?x] => destruct (is_nil x) end; repeat constructor. }
  destruct (ph2 ls st1 m) as [st2 ev2]. cbn [fst snd] in P2. destruct P2 as [H2 E2].
  assert (P3 : orig_ok ns nn (f_orig (fst (ph3 ls st2 m))) /\ Forall (chunk_ok ns nn) (snd (ph3 ls st2 m))).
  { unfold ph3. destruct (f_line st2 <? g_line m); [|split; [exact H2|constructor]].
    cbn [fst snd f_orig]. split; [exact H2|apply whole_lines_ok]. }
  destruct (ph3 ls st2 m) as [st3 ev3]. cbn [fst snd] in P3. destruct P3 as [H3 E3].
  assert (P4 : orig_ok ns nn (f_orig (fst (ph4 ls st3 m))) /\ Forall (chunk_ok ns nn) (snd (ph4 ls st3 m))).
  { unfold ph4. destruct (f_col st3 <? g_col m); [|split; [exact H3|constructor]].
    cbn [fst snd f_orig]. split; [exact H3|]. destruct (f_line st3 <=? len ls); [|constructor].
    destruct (line_at ls (f_line st3)); [|constructor]. cbv zeta.
    match goal with |- context [is_nil ?x] => destruct (is_nil x) end; repeat constructor. }
  destruct (ph4 ls st3 m) as [st4 ev4]. cbn [fst snd] in P4. destruct P4 as [H4 E4].
  cbn [fst snd]. split.
  - unfold ph5. destruct (m_orig m) as [o|]; [|exact H4].
    destruct ((g_line m <? fl) || ((g_line m =? fl) && (g_col m <? fc))); [exact Hm|exact H4].
  - repeat (apply Forall_app; split); assumption.
Qed.

Lemma sm_full_loop_ok ns nn ls fl fc ms : Forall (seg_ok ns nn) ms -> forall st,
  orig_ok ns nn (f_orig st) ->
  orig_ok ns nn (f_orig (fst (sm_full_loop ls fl fc st ms))) /\
  Forall (chunk_ok ns nn) (snd (sm_full_loop ls fl fc st ms)).
Proof.
  induction 1 as [|m ms Hm _ IH]; intros st Hst; [split; [exact Hst|constructor]|].
  cbn [sm_full_loop]. pose proof (sm_full_step_ok ns nn ls fl fc st m Hst Hm) as [A B].
  destruct (sm_full_step ls fl fc st m) as [st1 e1]. cbn [fst snd] in A, B.
  pose proof (IH st1 A) as [C D]. destruct (sm_full_loop ls fl fc st1 ms) as [st2 e2].
  cbn [fst snd] in *. split; [exact C|apply Forall_app; split; assumption].
Qed.

(* lines *)
Lemma strip_ok ns nn o : orig_ok ns nn (Some o) -> orig_ok ns 0 (Some (strip_name o)).
Proof. cbn. intros [A _]. split; [exact A|exact I]. Qed.

Lemma sm_lines_final_loop_ok ns nn fin ms : Forall (seg_ok ns nn) ms ->
  forall cur, Forall (chunk_ok ns 0) (sm_lines_final_loop ms cur fin).
Proof.
  induction 1 as [|m ms Hm _ IH]; intros cur; [constructor|]. cbn [sm_lines_final_loop].
  unfold seg_ok in Hm. destruct (m_orig m) as [o|]; [|apply IH].
  destruct ((cur <=? g_line m) && (g_line m <=? fin)); [|apply IH].
  constructor; [|apply IH]. cbn [chunk_ok m_orig]. apply (strip_ok ns nn). exact Hm.
Qed.

Lemma sm_lines_full_loop_ok ns nn ls ms : Forall (seg_ok ns nn) ms ->
  forall cur, Forall (chunk_ok ns 0) (snd (sm_lines_full_loop ls ms cur)).
Proof.
  induction 1 as [|m ms Hm _ IH]; intros cur; [constructor|]. cbn [sm_lines_full_loop].
  unfold seg_ok in Hm. destruct (m_orig m) as [o|]; [|apply IH].
  destruct ((g_line m <? cur) || (len ls <? g_line m)); [apply IH|].
  specialize (IH (g_line m + 1)). destruct (sm_lines_full_loop ls ms (g_line m + 1)) as [cur' evs].
  cbn [snd] in *. apply Forall_app. split; [apply whole_lines_ok|]. apply Forall_app. split; [|exact IH].
  destruct (line_at ls (g_line m)); constructor; [|constructor].
  cbn [chunk_ok m_orig]. apply (strip_ok ns nn). exact Hm.
Qed.

(* sources 0..n-1, then names 0..k-1, then chunks *)
Lemma announced_wf m evs :
  Forall (chunk_ok (len (sm_sources m)) (len (sm_names m))) evs ->
  stream_wf (announce_sources m (sm_sources m) 0 ++ announce_names (sm_names m) 0 ++ evs) 0 0 = true.
Proof.
  intros H. apply (wf_to_wf _ 0 0 (len (sm_sources m)) (len (sm_names m))).
  eapply wf_to_app; [apply (announce_sources_wf m (sm_sources m) 0 0)|].
  eapply wf_to_app; [apply (announce_names_wf (sm_names m) 0)|].
  cbn [N.add]. apply chunks_wf. exact H.
Qed.

Lemma announced_sources_wf m evs :
  Forall (chunk_ok (len (sm_sources m)) 0) evs ->
  stream_wf (announce_sources m (sm_sources m) 0 ++ evs) 0 0 = true.
Proof.
  intros H. apply (wf_to_wf _ 0 0 (len (sm_sources m)) 0).
  eapply wf_to_app; [apply (announce_sources_wf m (sm_sources m) 0 0)|].
  cbn [N.add]. apply chunks_wf. exact H.
Qed.

Theorem sm_stream_wf (t : text) (m : smap) (o : opts) :
  map_consistent t m = true -> stream_wf (fst (sm_stream t m o)) 0 0 = true.
Proof.
  intros Hc. pose proof (map_consistent_segs t m Hc) as Hs.
  set (ns := len (sm_sources m)) in *. set (nn := len (sm_names m)) in *.
  unfold sm_stream. destruct (columns o), (final_source o).
  - unfold sm_stream_final. destruct (gen_info t) as [rl rc].
    destruct ((rl =? 1) && (rc =? 0)); cbn [fst]; [reflexivity|].
    apply announced_wf. apply sm_final_loop_ok. exact Hs.
  - unfold sm_stream_full. destruct (is_nil (split_lines t)); [reflexivity|].
    destruct (lines_end_info (split_lines t)) as [fl fc].
    pose proof (sm_full_loop_ok ns nn (split_lines t) fl fc _ Hs (mkF 1 0 false None) I) as [A B].
    destruct (sm_full_loop (split_lines t) fl fc (mkF 1 0 false None) (decode_mappings (sm_mappings m)))
      as [st evs]. cbn [fst snd] in A, B.
    pose proof (sm_full_step_ok ns nn (split_lines t) fl fc st (unmapped fl fc) A I) as [_ D].
    destruct (sm_full_step (split_lines t) fl fc st (unmapped fl fc)) as [st' evs']. cbn [fst snd] in *.
    apply announced_wf. apply Forall_app. split; assumption.
  - unfold sm_stream_lines_final. destruct (gen_info t) as [rl rc].
    destruct ((rl =? 1) && (rc =? 0)); cbn [fst]; [reflexivity|].
    apply announced_sources_wf. apply (sm_lines_final_loop_ok ns nn). exact Hs.
  - unfold sm_stream_lines_full. destruct (is_nil (split_lines t)); [reflexivity|].
    pose proof (sm_lines_full_loop_ok ns nn (split_lines t) _ Hs 1) as A.
    destruct (sm_lines_full_loop (split_lines t) (decode_mappings (sm_mappings m)) 1) as [cur evs].
    cbn [fst snd] in *. apply announced_sources_wf. apply Forall_app. split; [exact A|apply whole_lines_ok].
Qed.

(* ------------------------------------------------------------------ *)
(* W2: ConcatSource                                                    *)
(* ------------------------------------------------------------------ *)
(* every child index below n has been translated to a global index below G *)
Definition tbl_ok (tbl : list N) (n G : N) : Prop :=
  forall j, j < n -> exists g, lm_get tbl j = Some g /\ g < G.

Lemma tbl_ok_nil G : tbl_ok [] 0 G.
Proof. intros j Hj. lia. Qed.

Lemma tbl_ok_insert tbl n G i g G' : tbl_ok tbl n G -> i <= n -> g < G' -> G <= G' ->
  tbl_ok (lm_insert 0 tbl i g) (if i =? n then n + 1 else n) G'.
Proof.
  intros H Hi Hg HG j Hj. destruct (N.eq_dec j i) as [->|Hne].
  - exists g. split; [apply lm_get_insert_same|exact Hg].
  - assert (Hjn : j < n) by (destruct (i =? n) eqn:E; [apply N.eqb_eq in E|]; lia).
    destruct (H j Hjn) as [x [A B]]. exists x. split; [apply lm_get_insert_other; assumption|lia].
Qed.

Lemma tbl_ok_grow tbl n G G' : tbl_ok tbl n G -> G <= G' -> tbl_ok tbl n G'.
Proof. intros H HG j Hj. destruct (H j Hj) as [x [A B]]. exists x. split; [exact A|lia]. Qed.

Lemma stream_wf_cons e evs ns nn :
  stream_wf (e :: evs) ns nn = stream_wf [e] ns nn && stream_wf evs (fst (cnt [e] ns nn)) (snd (cnt [e] ns nn)).
Proof. apply (stream_wf_app [e] evs). Qed.

Lemma cnt_cons e evs ns nn : cnt (e :: evs) ns nn = cnt evs (fst (cnt [e] ns nn)) (snd (cnt [e] ns nn)).
Proof. apply (cnt_app [e] evs). Qed.

Lemma concat_event_wf final st e ns nn :
  stream_wf [e] ns nn = true ->
  tbl_ok (c_src_idx st) ns (len (c_sources st)) -> tbl_ok (c_name_idx st) nn (len (c_names st)) ->
  wf_to (snd (concat_event final st e)) (len (c_sources st)) (len (c_names st))
        (len (c_sources (fst (concat_event final st e)))) (len (c_names (fst (concat_event final st e)))) /\
  tbl_ok (c_src_idx (fst (concat_event final st e))) (fst (cnt [e] ns nn))
         (len (c_sources (fst (concat_event final st e)))) /\
  tbl_ok (c_name_idx (fst (concat_event final st e))) (snd (cnt [e] ns nn))
         (len (c_names (fst (concat_event final st e)))).
Proof.
  intros Hwf Hs Hn. destruct e as [chunk m|i name content|i name]; cbn [concat_event].
  - (* chunk *)
    cbn [fst snd c_sources c_names c_src_idx c_name_idx cnt].
    split; [|split; assumption]. apply chunks_wf. apply Forall_app. split.
    { destruct (c_close st && negb ((g_line m =? 1) && (g_col m =? 0))); [|constructor].
      constructor; [exact I|constructor]. }
    constructor; [|constructor].
    cbn [stream_wf] in Hwf. rewrite andb_true_r in Hwf.
    destruct (m_orig m) as [o|]; [|exact I].
    apply andb_true_iff in Hwf. destruct Hwf as [Ho Hna]. apply N.ltb_lt in Ho.
    destruct (Hs (o_src o) Ho) as [si [A B]]. rewrite A. cbn [chunk_ok m_orig orig_ok o_src o_name].
    split; [exact B|]. destruct (o_name o) as [n|]; [|exact I]. apply N.ltb_lt in Hna.
    destruct (Hn n Hna) as [ni [C D]]. rewrite C. exact D.
  - (* source *)
    cbn [stream_wf] in Hwf. rewrite andb_true_r in Hwf. apply N.leb_le in Hwf. cbn [cnt fst snd].
    destruct (find_text (c_sources st) name 0) as [g|] eqn:E;
      cbn [fst snd c_sources c_names c_src_idx c_name_idx].
    + apply find_text_bound in E. split; [apply wf_to_nil|]. split; [|exact Hn].
      apply (tbl_ok_insert _ ns (len (c_sources st))); [exact Hs|exact Hwf|lia|lia].
    + rewrite slen_app. change (len [name]) with 1. split.
      * split; cbn [stream_wf cnt]; rewrite ?N.leb_refl, ?N.eqb_refl; reflexivity.
      * split; [|exact Hn]. apply (tbl_ok_insert _ ns (len (c_sources st))); [exact Hs|exact Hwf|lia|lia].
  - (* name *)
    cbn [stream_wf] in Hwf. rewrite andb_true_r in Hwf. apply N.leb_le in Hwf. cbn [cnt fst snd].
    destruct (find_text (c_names st) name 0) as [g|] eqn:E;
      cbn [fst snd c_sources c_names c_src_idx c_name_idx].
    + apply find_text_bound in E. split; [apply wf_to_nil|]. split; [exact Hs|].
      apply (tbl_ok_insert _ nn (len (c_names st))); [exact Hn|exact Hwf|lia|lia].
    + rewrite slen_app. change (len [name]) with 1. split.
      * split; cbn [stream_wf cnt]; rewrite ?N.leb_refl, ?N.eqb_refl; reflexivity.
      * split; [exact Hs|]. apply (tbl_ok_insert _ nn (len (c_names st))); [exact Hn|exact Hwf|lia|lia].
Qed.

Lemma concat_events_wf final evs : forall st ns nn,
  stream_wf evs ns nn = true ->
  tbl_ok (c_src_idx st) ns (len (c_sources st)) -> tbl_ok (c_name_idx st) nn (len (c_names st)) ->
  wf_to (snd (concat_events final st evs)) (len (c_sources st)) (len (c_names st))
        (len (c_sources (fst (concat_events final st evs)))) (len (c_names (fst (concat_events final st evs)))).
Proof.
  induction evs as [|e evs IH]; intros st ns nn Hwf Hs Hn; [apply wf_to_nil|].
  rewrite stream_wf_cons in Hwf. apply andb_true_iff in Hwf. destruct Hwf as [H1 H2].
  cbn [concat_events]. pose proof (concat_event_wf final st e ns nn H1 Hs Hn) as [A [B C]].
  destruct (concat_event final st e) as [st1 o1]. cbn [fst snd] in A, B, C.
  pose proof (IH st1 _ _ H2 B C) as D. destruct (concat_events final st1 evs) as [st2 o2].
  cbn [fst snd] in *. eapply wf_to_app; eassumption.
Qed.

Lemma concat_child_wf final st evs gi :
  stream_wf evs 0 0 = true ->
  wf_to (snd (concat_child final st evs gi)) (len (c_sources st)) (len (c_names st))
        (len (c_sources (fst (concat_child final st evs gi)))) (len (c_names (fst (concat_child final st evs gi)))).
Proof.
  intros Hwf. unfold concat_child.
  pose proof (concat_events_wf final evs (concat_child_start st) 0 0 Hwf (tbl_ok_nil _) (tbl_ok_nil _)) as A.
  change (c_sources (concat_child_start st)) with (c_sources st) in A.
  change (c_names (concat_child_start st)) with (c_names st) in A.
  destruct (concat_events final (concat_child_start st) evs) as [st1 o1]. cbn [fst snd] in A.
  unfold concat_child_end. cbn [fst snd c_sources c_names].
  eapply wf_to_app; [exact A|]. apply chunks_wf.
  destruct (c_close st1 && negb ((fst gi =? 1) && (snd gi =? 0))); [|constructor].
  constructor; [exact I|constructor].
Qed.

Lemma concat_fold_wf_inv final cs : Forall (fun c => stream_wf (fst c) 0 0 = true) cs ->
  forall acc, wf_to (snd acc) 0 0 (len (c_sources (fst acc))) (len (c_names (fst acc))) ->
  wf_to (snd (concat_fold final cs acc)) 0 0
        (len (c_sources (fst (concat_fold final cs acc)))) (len (c_names (fst (concat_fold final cs acc)))).
Proof.
  induction 1 as [|c cs Hc _ IH]; intros [st out] Hacc; [exact Hacc|].
  unfold concat_fold. cbn [fold_left]. fold (concat_fold final cs).
  pose proof (concat_child_wf final st (fst c) (snd c) Hc) as A.
  destruct (concat_child final st (fst c) (snd c)) as [st' o]. cbn [fst snd] in *.
  apply IH. cbn [fst snd]. eapply wf_to_app; eassumption.
Qed.

(* W2 *)
Theorem concat_fold_wf (final : bool) (cs : list (list event * (N * N))) :
  Forall (fun c => stream_wf (fst c) 0 0 = true) cs ->
  stream_wf (snd (concat_fold final cs (concat_init, []))) 0 0 = true.
Proof.
  intros H. eapply wf_to_wf. apply (concat_fold_wf_inv final cs H (concat_init, [])). apply wf_to_nil.
Qed.

(* ------------------------------------------------------------------ *)
(* W3: ReplaceSource                                                   *)
(* ------------------------------------------------------------------ *)
(* every inner name index below nn has been translated to an index of rs_names *)
Definition names_ok (st : rstate) (nn : N) : Prop := tbl_ok (rs_name_idx st) nn (len (rs_names st)).
Definition same_names (st st' : rstate) : Prop :=
  rs_names st' = rs_names st /\ rs_name_idx st' = rs_name_idx st.

Lemma same_names_refl st : same_names st st.
Proof. split; reflexivity. Qed.

Lemma same_names_trans a b c : same_names a b -> same_names b c -> same_names a c.
Proof. intros [A1 A2] [B1 B2]. split; congruence. Qed.

Lemma names_ok_same st st' nn : same_names st st' -> names_ok st nn -> names_ok st' nn.
Proof. intros [A B] H. unfold names_ok. rewrite A, B. exact H. Qed.

Lemma set_pos_names st p : same_names st (set_pos st p).
Proof. split; reflexivity. Qed.

Lemma set_offs_names st a b c : same_names st (set_offs st a b c).
Proof. split; reflexivity. Qed.

Lemma drop_cols_names st line k : same_names st (drop_cols st line k).
Proof. unfold drop_cols. destruct (rs_cline st =? line)%Z; apply set_offs_names. Qed.

Lemma skip_whole_names st line nl gc k : same_names st (skip_whole st line nl gc k).
Proof.
  unfold skip_whole. destruct nl; [|apply drop_cols_names].
  destruct (rs_cline st =? line)%Z; apply set_offs_names.
Qed.

Definition src_ok (ns : N) (mo : option orig) : Prop :=
  match mo with Some o => o_src o < ns | None => True end.
Definition name_ok (G : N) (name : option N) : Prop :=
  match name with Some g => g < G | None => True end.

Lemma orig_ok_src ns nn mo : orig_ok ns nn mo -> src_ok ns mo.
Proof. destruct mo as [o|]; [intros [A _]; exact A|intros; exact I]. Qed.

Lemma emit_content_ok ns G gc mo ls : forall st line name,
  src_ok ns mo -> name_ok G name ->
  same_names st (fst (fst (emit_content st ls line gc mo name))) /\
  Forall (chunk_ok ns G) (snd (emit_content st ls line gc mo name)).
Proof.
  induction ls as [|cl ls IH]; intros st line name Hmo Hname.
  - cbn [emit_content fst snd]. split; [apply same_names_refl|constructor].
  - cbn [emit_content].
    assert (Hev : chunk_ok ns G (EChunk (Some cl) (mkMapping (wrap32z line) (out_col st line gc)
              match mo with Some o => Some (mkOrig (o_src o) (o_line o) (o_col o) name) | None => None end))).
    { cbn [chunk_ok m_orig]. destruct mo as [o|]; [|exact I]. cbn [orig_ok o_src o_name].
      split; [exact Hmo|]. destruct name; exact Hname. }
    destruct (is_nil ls && negb (ends_with_nl cl)); [destruct (rs_cline st =? line)%Z|];
      match goal with |- context [emit_content ?s ls ?l gc mo None] =>
        pose proof (IH s l None Hmo I) as [A B];
        destruct (emit_content s ls l gc mo None) as [[st2 line2] evs] end;
      cbn [fst snd] in *;
      (split; [eapply same_names_trans; [apply set_offs_names|exact A]|constructor; [exact Hev|exact B]]).
Qed.

Lemma emit_remainder_ok ns G gc ls : forall st line,
  Forall (chunk_ok ns G) (snd (emit_remainder st ls line gc)).
Proof.
  induction ls as [|cl ls IH]; intros st line; [constructor|].
  cbn [emit_remainder].
  destruct (is_nil ls && negb (ends_with_nl cl)); [destruct (rs_cline st =? line)%Z|];
    match goal with |- context [emit_remainder ?s ls ?l gc] =>
      pose proof (IH s l) as B; destruct (emit_remainder s ls l gc) as [[st2 line2] evs] end;
    cbn [fst snd] in *; (constructor; [exact I|exact B]).
Qed.

Lemma adv_col_ok ns nn st mo piece : orig_ok ns nn mo -> orig_ok ns nn (adv_col st mo piece).
Proof.
  destruct mo as [o|]; [|intros; exact I]. cbn [adv_col]. destruct (check_content st o piece); intros H; exact H.
Qed.

Lemma map_name_ok ns nn st mo : names_ok st nn -> orig_ok ns nn mo ->
  orig_ok ns (len (rs_names st)) (match mo with Some o => Some (map_name st o) | None => None end).
Proof.
  intros Hn. destruct mo as [o|]; [|intros; exact I]. cbn [orig_ok map_name o_src o_name].
  intros [A B]. split; [exact A|]. destruct (o_name o) as [n|]; [|exact I].
  destruct (Hn n B) as [g [C D]]. rewrite C. exact D.
Qed.

(* the pieces of the replacement loop *)
Definition rl_pre (r : repl) (st : rstate) (v : cvars) (chunk : text) (line : Z)
  : rstate * cvars * list event :=
  if rs_pos st <? r_start r then
    let offset := r_start r - rs_pos st in
    let piece := slice (v_cpos v) (v_cpos v + offset) chunk in
    let ev := EChunk (Some piece)
                (mkMapping (wrap32z line) (out_col st line (v_gc v))
                   (match v_orig v with Some o => Some (map_name st o) | None => None end)) in
    (set_pos st (r_start r),
     mkV (v_cpos v + offset) (wrap32 (v_gc v + offset)) (adv_col st (v_orig v) piece), [ev])
  else (st, v, []).

Definition rl_name (r : repl) (st1 : rstate) (v1 : cvars) : rstate * option N * list event :=
  let inherited :=
    match v_orig v1 with
    | Some o => match o_name o with Some n => lm_get (rs_name_idx st1) n | None => None end
    | None => None end in
  match r_name r, v_orig v1 with
  | Some nm, Some _ =>
    match find_text (rs_names st1) nm 0 with
    | Some g => (st1, Some g, [])
    | None =>
      let g := len (rs_names st1) in
      (mkR (rs_pos st1) (rs_rest st1) (rs_rend st1) (rs_loff st1) (rs_coff st1) (rs_cline st1)
           (rs_contents st1) (rs_names st1 ++ [nm]) (rs_name_idx st1), Some g, [EName g nm])
    end
  | _, _ => (st1, inherited, [])
  end.

Definition rl_st4 (r : repl) (rest' : list repl) (st3 : rstate) : rstate :=
  let rend := match rs_rend st3 with Some e => N.max e (r_end r) | None => r_end r end in
  mkR (rs_pos st3) rest' (Some rend) (rs_loff st3) (rs_coff st3) (rs_cline st3)
      (rs_contents st3) (rs_names st3) (rs_name_idx st3).

Lemma repl_loop_eq r rest' st v chunk gl end_pos :
  repl_loop (r :: rest') st v chunk gl end_pos =
  if negb (r_start r <? end_pos) then (st, v, [], false) else
  let line := (Z.of_N gl + rs_loff st)%Z in
  let '(st1, v1, ev1) := rl_pre r st v chunk line in
  let '(st2, name_idx, ev_name) := rl_name r st1 v1 in
  let '(st3, _, ev2) := emit_content st2 (split_lines (r_content r)) line (v_gc v1) (v_orig v1) name_idx in
  let st4 := rl_st4 r rest' st3 in
  let rend := match rs_rend st3 with Some e => N.max e (r_end r) | None => r_end r end in
  let offset := (Z.of_N (len chunk) - Z.of_N end_pos + Z.of_N rend - Z.of_N (v_cpos v1))%Z in
  if (0 <? offset)%Z then
    if end_pos <=? rend then
      let line' := (Z.of_N gl + rs_loff st4)%Z in
      let st5 := skip_whole st4 line' (ends_with_nl chunk) (v_gc v1) (len chunk - v_cpos v1) in
      (set_pos st5 end_pos, v1, ev1 ++ ev_name ++ ev2, true)
    else
      let line' := (Z.of_N gl + rs_loff st4)%Z in
      let k := Z.to_N offset in
      let piece := slice (v_cpos v1) (v_cpos v1 + k) chunk in
      let o' := adv_col st4 (v_orig v1) piece in
      let st5 := drop_cols (set_pos st4 (rs_pos st4 + k)) line' k in
      let v2 := mkV (v_cpos v1 + k) (wrap32 (v_gc v1 + k)) o' in
      let '(st6, v3, ev3, early) := repl_loop rest' st5 v2 chunk gl end_pos in
      (st6, v3, ev1 ++ ev_name ++ ev2 ++ ev3, early)
  else
    let '(st6, v3, ev3, early) := repl_loop rest' st4 v1 chunk gl end_pos in
    (st6, v3, ev1 ++ ev_name ++ ev2 ++ ev3, early).
Proof. reflexivity. Qed.

Lemma rl_pre_ok ns nn r st v chunk line :
  names_ok st nn -> orig_ok ns nn (v_orig v) ->
  same_names st (fst (fst (rl_pre r st v chunk line))) /\
  orig_ok ns nn (v_orig (snd (fst (rl_pre r st v chunk line)))) /\
  Forall (chunk_ok ns (len (rs_names st))) (snd (rl_pre r st v chunk line)).
Proof.
  intros Hn Hv. unfold rl_pre. destruct (rs_pos st <? r_start r); cbn [fst snd v_orig].
  - split; [apply set_pos_names|]. split; [apply adv_col_ok; exact Hv|].
    constructor; [|constructor]. cbn [chunk_ok m_orig]. apply (map_name_ok ns nn); assumption.
  - split; [apply same_names_refl|]. split; [exact Hv|constructor].
Qed.

Lemma rl_name_ok ns nn r st1 v1 :
  names_ok st1 nn -> orig_ok ns nn (v_orig v1) ->
  names_ok (fst (fst (rl_name r st1 v1))) nn /\
  wf_to (snd (rl_name r st1 v1)) ns (len (rs_names st1)) ns (len (rs_names (fst (fst (rl_name r st1 v1))))) /\
  name_ok (len (rs_names (fst (fst (rl_name r st1 v1))))) (snd (fst (rl_name r st1 v1))).
Proof.
  intros Hn Hv. unfold rl_name.
  assert (Hinh : name_ok (len (rs_names st1))
            match v_orig v1 with
            | Some o => match o_name o with Some n => lm_get (rs_name_idx st1) n | None => None end
            | None => None end).
  { destruct (v_orig v1) as [o|]; [|exact I]. cbn [orig_ok] in Hv. destruct Hv as [_ B].
    destruct (o_name o) as [n|]; [|exact I]. destruct (Hn n B) as [g [C D]]. rewrite C. exact D. }
  destruct (r_name r) as [nm|]; [destruct (v_orig v1) as [o|]|]; cbn zeta.
  - destruct (find_text (rs_names st1) nm 0) as [g|] eqn:E; cbn [fst snd rs_names rs_name_idx].
    + apply find_text_bound in E. split; [exact Hn|]. split; [apply wf_to_nil|]. cbn [name_ok]. lia.
    + rewrite slen_app. change (len [nm]) with 1. split.
      * unfold names_ok. cbn [rs_names rs_name_idx]. rewrite slen_app. change (len [nm]) with 1.
        apply (tbl_ok_grow _ _ (len (rs_names st1))); [exact Hn|lia].
      * split; [|cbn [name_ok]; lia].
        split; cbn [stream_wf cnt]; rewrite ?N.leb_refl, ?N.eqb_refl; reflexivity.
  - cbn [fst snd]. split; [exact Hn|]. split; [apply wf_to_nil|exact I].
  - cbn [fst snd]. split; [exact Hn|]. split; [apply wf_to_nil|exact Hinh].
Qed.

Lemma rl_st4_names r rest' st3 : same_names st3 (rl_st4 r rest' st3).
Proof. split; reflexivity. Qed.

Lemma repl_loop_ok ns nn chunk gl end_pos : forall rest st v,
  names_ok st nn -> orig_ok ns nn (v_orig v) ->
  names_ok (fst (fst (fst (repl_loop rest st v chunk gl end_pos)))) nn /\
  orig_ok ns nn (v_orig (snd (fst (fst (repl_loop rest st v chunk gl end_pos))))) /\
  wf_to (snd (fst (repl_loop rest st v chunk gl end_pos))) ns (len (rs_names st)) ns
        (len (rs_names (fst (fst (fst (repl_loop rest st v chunk gl end_pos)))))).
Proof.
  induction rest as [|r rest' IH]; intros st v Hn Hv.
  - cbn [repl_loop fst snd]. split; [exact Hn|]. split; [exact Hv|apply wf_to_nil].
  - rewrite repl_loop_eq. destruct (negb (r_start r <? end_pos)).
    { cbn [fst snd]. split; [exact Hn|]. split; [exact Hv|apply wf_to_nil]. }
    cbn zeta.
    pose proof (rl_pre_ok ns nn r st v chunk (Z.of_N gl + rs_loff st)%Z Hn Hv) as [A1 [A2 A3]].
    destruct (rl_pre r st v chunk (Z.of_N gl + rs_loff st)%Z) as [[st1 v1] ev1]. cbn [fst snd] in A1, A2, A3.
    pose proof (names_ok_same st st1 nn A1 Hn) as Hn1.
    pose proof (rl_name_ok ns nn r st1 v1 Hn1 A2) as [B1 [B2 B3]].
    destruct (rl_name r st1 v1) as [[st2 name_idx] ev_name]. cbn [fst snd] in B1, B2, B3.
    pose proof (emit_content_ok ns (len (rs_names st2)) (v_gc v1) (v_orig v1) (split_lines (r_content r))
                  st2 (Z.of_N gl + rs_loff st)%Z name_idx (orig_ok_src ns nn _ A2) B3) as [C1 C2].
    destruct (emit_content st2 (split_lines (r_content r)) (Z.of_N gl + rs_loff st)%Z (v_gc v1) (v_orig v1) name_idx)
      as [[st3 l3] ev2]. cbn [fst snd] in C1, C2.
    pose proof (names_ok_same st2 st3 nn C1 B1) as Hn3.
    pose proof (names_ok_same st3 _ nn (rl_st4_names r rest' st3) Hn3) as Hn4.
    assert (Hout : wf_to (ev1 ++ ev_name ++ ev2) ns (len (rs_names st)) ns (len (rs_names (rl_st4 r rest' st3)))).
    { destruct A1 as [A1 _]. destruct C1 as [C1 _].
      eapply wf_to_app; [apply chunks_wf; exact A3|]. rewrite <- A1.
      eapply wf_to_app; [exact B2|]. change (rs_names (rl_st4 r rest' st3)) with (rs_names st3).
      rewrite C1. apply chunks_wf. exact C2. }
    set (st4 := rl_st4 r rest' st3) in *. clearbody st4.
    match goal with |- context [(0 <? ?off)%Z] => destruct (0 <? off)%Z end.
    + match goal with |- context [end_pos <=? ?re] => destruct (end_pos <=? re) end.
      * cbn [fst snd].
        match goal with |- names_ok (set_pos ?s5 _) _ /\ _ =>
          assert (S5 : same_names st4 (set_pos s5 end_pos))
            by (eapply same_names_trans; [apply skip_whole_names|apply set_pos_names]) end.
        split; [eapply names_ok_same; [exact S5|exact Hn4]|]. split; [exact A2|].
        destruct S5 as [S5 _]. rewrite S5. exact Hout.
      * match goal with |- context [repl_loop rest' ?s5 ?v2 chunk gl end_pos] =>
          assert (S5 : same_names st4 s5)
            by (eapply same_names_trans; [apply set_pos_names|apply drop_cols_names]);
          pose proof (IH s5 v2 (names_ok_same _ _ nn S5 Hn4)) as D;
          destruct (repl_loop rest' s5 v2 chunk gl end_pos) as [[[st6 v3] ev3] early] end.
        cbn [fst snd v_orig] in *. destruct (D (adv_col_ok ns nn _ _ _ A2)) as [D1 [D2 D3]].
        split; [exact D1|]. split; [exact D2|].
        destruct S5 as [S5 _]. rewrite S5 in D3.
        rewrite 2!app_assoc, <- (app_assoc ev1). eapply wf_to_app; [exact Hout|exact D3].
    + pose proof (IH st4 v1 Hn4 A2) as [D1 [D2 D3]].
      destruct (repl_loop rest' st4 v1 chunk gl end_pos) as [[[st6 v3] ev3] early].
      cbn [fst snd] in *. split; [exact D1|]. split; [exact D2|].
      rewrite 2!app_assoc, <- (app_assoc ev1). eapply wf_to_app; [exact Hout|exact D3].
Qed.

(* one inner chunk *)
Definition rc_pre (st : rstate) (chunk : text) (m : mapping) : rstate * cvars * bool :=
  let end_pos := rs_pos st + len chunk in
  let gl := g_line m in
  let skip :=
    match rs_rend st with
    | Some re => if rs_pos st <? re then Some re else None
    | None => None
    end in
  match skip with
  | Some re =>
    let line := (Z.of_N gl + rs_loff st)%Z in
    if end_pos <=? re then
      (set_pos (skip_whole st line (ends_with_nl chunk) (g_col m) (len chunk)) end_pos,
       mkV 0 (g_col m) (m_orig m), true)
    else
      let cpos := re - rs_pos st in
      let o' := adv_col st (m_orig m) (take cpos chunk) in
      (drop_cols (set_pos st (rs_pos st + cpos)) line cpos,
       mkV cpos (wrap32 (g_col m + cpos)) o', false)
  | None => (st, mkV 0 (g_col m) (m_orig m), false)
  end.

Lemma replace_chunk_eq st chunk m :
  replace_chunk st chunk m =
  let end_pos := rs_pos st + len chunk in
  let gl := g_line m in
  let '(st1, v1, early) := rc_pre st chunk m in
  if early then (st1, []) else
  let '(st2, v2, ev2, early2) := repl_loop (rs_rest st1) st1 v1 chunk gl end_pos in
  if early2 then (st2, ev2) else
  let ev3 :=
    if v_cpos v2 <? len chunk then
      let line := (Z.of_N gl + rs_loff st2)%Z in
      [EChunk (Some (drop (v_cpos v2) chunk))
         (mkMapping (wrap32z line) (out_col st2 line (v_gc v2))
            (match v_orig v2 with Some o => Some (map_name st2 o) | None => None end))]
    else [] in
  (set_pos st2 end_pos, ev2 ++ ev3).
Proof. reflexivity. Qed.

Lemma rc_pre_ok ns nn st chunk m : orig_ok ns nn (m_orig m) ->
  same_names st (fst (fst (rc_pre st chunk m))) /\
  orig_ok ns nn (v_orig (snd (fst (rc_pre st chunk m)))).
Proof.
  intros Hm. unfold rc_pre. cbn zeta.
  destruct (match rs_rend st with Some re => if rs_pos st <? re then Some re else None | None => None end)
    as [re|]; [|cbn [fst snd v_orig]; split; [apply same_names_refl|exact Hm]].
  destruct (rs_pos st + len chunk <=? re); cbn [fst snd v_orig].
  - split; [|exact Hm]. eapply same_names_trans; [apply skip_whole_names|apply set_pos_names].
  - split; [|apply adv_col_ok; exact Hm]. eapply same_names_trans; [apply set_pos_names|apply drop_cols_names].
Qed.

Lemma replace_chunk_ok ns nn st chunk m :
  names_ok st nn -> orig_ok ns nn (m_orig m) ->
  names_ok (fst (replace_chunk st chunk m)) nn /\
  wf_to (snd (replace_chunk st chunk m)) ns (len (rs_names st)) ns
        (len (rs_names (fst (replace_chunk st chunk m)))).
Proof.
  intros Hn Hm. rewrite replace_chunk_eq. cbn zeta.
  pose proof (rc_pre_ok ns nn st chunk m Hm) as [A1 A2].
  destruct (rc_pre st chunk m) as [[st1 v1] early]. cbn [fst snd] in A1, A2.
  pose proof (names_ok_same st st1 nn A1 Hn) as Hn1. destruct A1 as [A1 _].
  destruct early.
  { cbn [fst snd]. split; [exact Hn1|]. rewrite A1. apply wf_to_nil. }
  pose proof (repl_loop_ok ns nn chunk (g_line m) (rs_pos st + len chunk) (rs_rest st1) st1 v1 Hn1 A2)
    as [B1 [B2 B3]].
  destruct (repl_loop (rs_rest st1) st1 v1 chunk (g_line m) (rs_pos st + len chunk)) as [[[st2 v2] ev2] early2].
  cbn [fst snd] in B1, B2, B3. rewrite A1 in B3.
  destruct early2; cbn [fst snd]; [split; [exact B1|exact B3]|].
  split; [eapply names_ok_same; [apply set_pos_names|exact B1]|].
  change (rs_names (set_pos st2 (rs_pos st + len chunk))) with (rs_names st2).
  eapply wf_to_app; [exact B3|]. apply chunks_wf.
  destruct (v_cpos v2 <? len chunk); [|constructor]. constructor; [|constructor].
  cbn [chunk_ok m_orig]. apply (map_name_ok ns nn); assumption.
Qed.

Lemma replace_event_ok ns nn st e :
  stream_wf [e] ns nn = true -> names_ok st nn ->
  names_ok (fst (replace_event st e)) (snd (cnt [e] ns nn)) /\
  wf_to (snd (replace_event st e)) ns (len (rs_names st)) (fst (cnt [e] ns nn))
        (len (rs_names (fst (replace_event st e)))).
Proof.
  intros Hwf Hn. destruct e as [t m|i name content|i name]; cbn [replace_event].
  - cbn [cnt fst snd]. cbn [stream_wf] in Hwf. rewrite andb_true_r in Hwf.
    assert (Hm : orig_ok ns nn (m_orig m)).
    { destruct (m_orig m) as [o|]; [|exact I]. apply andb_true_iff in Hwf. destruct Hwf as [A B].
      apply N.ltb_lt in A. split; [exact A|]. destruct (o_name o); [apply N.ltb_lt; exact B|exact I]. }
    destruct t as [chunk|]; [apply replace_chunk_ok; assumption|].
    cbn [fst snd]. split; [exact Hn|apply wf_to_nil].
  - cbn [cnt fst snd rs_names]. split; [exact Hn|]. cbn [stream_wf] in Hwf. rewrite andb_true_r in Hwf.
    split; cbn [stream_wf cnt]; [rewrite Hwf; reflexivity|reflexivity].
  - cbn [stream_wf] in Hwf. rewrite andb_true_r in Hwf. apply N.leb_le in Hwf. cbn [cnt fst snd].
    destruct (find_text (rs_names st) name 0) as [g|] eqn:E; cbn [fst snd rs_names].
    + apply find_text_bound in E. split; [|apply wf_to_nil].
      unfold names_ok. cbn [rs_names rs_name_idx].
      apply (tbl_ok_insert _ nn (len (rs_names st))); [exact Hn|exact Hwf|lia|lia].
    + rewrite slen_app. change (len [name]) with 1. split.
      * unfold names_ok. cbn [rs_names rs_name_idx]. rewrite slen_app. change (len [name]) with 1.
        apply (tbl_ok_insert _ nn (len (rs_names st))); [exact Hn|exact Hwf|lia|lia].
      * split; cbn [stream_wf cnt]; rewrite ?N.leb_refl, ?N.eqb_refl; reflexivity.
Qed.

Lemma replace_events_ok evs : forall ns nn st,
  stream_wf evs ns nn = true -> names_ok st nn ->
  wf_to (snd (replace_events st evs)) ns (len (rs_names st)) (fst (cnt evs ns nn))
        (len (rs_names (fst (replace_events st evs)))).
Proof.
  induction evs as [|e evs IH]; intros ns nn st Hwf Hn; [apply wf_to_nil|].
  rewrite stream_wf_cons in Hwf. apply andb_true_iff in Hwf. destruct Hwf as [H1 H2].
  cbn [replace_events]. pose proof (replace_event_ok ns nn st e H1 Hn) as [A B].
  destruct (replace_event st e) as [st1 o1]. cbn [fst snd] in A, B.
  pose proof (IH _ _ st1 H2 A) as C. destruct (replace_events st1 evs) as [st2 o2]. cbn [fst snd] in *.
  rewrite cnt_cons. eapply wf_to_app; eassumption.
Qed.

(* W3 *)
Theorem replace_stream_wf (sorted : list repl) (ievs : list event) (gi : N * N) :
  stream_wf ievs 0 0 = true -> stream_wf (fst (replace_stream sorted ievs gi)) 0 0 = true.
Proof.
  intros Hwf. unfold replace_stream.
  pose proof (replace_events_ok ievs 0 0 (replace_init sorted) Hwf (tbl_ok_nil _)) as A.
  destruct (replace_events (replace_init sorted) ievs) as [st evs]. cbn [fst snd] in A.
  pose proof (emit_remainder_ok (fst (cnt ievs 0 0)) (len (rs_names st)) (snd gi)
                (split_lines (concat (map r_content (rs_rest st)))) st
                (Z.of_N (fst gi) + rs_loff st)%Z) as B.
  destruct (emit_remainder st (split_lines (concat (map r_content (rs_rest st))))
              (Z.of_N (fst gi) + rs_loff st)%Z (snd gi)) as [[st' line'] evs'].
  cbn [fst snd] in *. eapply wf_to_wf. eapply wf_to_app; [exact A|]. apply chunks_wf. exact B.
Qed.

(* ------------------------------------------------------------------ *)
(* W4: trees                                                           *)
(* ------------------------------------------------------------------ *)
(* raw leaves, OriginalSource, SourceMapSource without inner map, ConcatSource, ReplaceSource *)
Fixpoint rshape (s : src) : bool :=
  match s with
  | SRaw _ _ | SRawString _ | SRawBuffer _ | SOriginal _ _ => true
  | SMapped _ _ _ _ None _ => true
  | SMapped _ _ _ _ (Some _) _ => false
  | SConcat cs => forallb rshape cs
  | SReplace inner _ => rshape inner
  | SCached _ _ => false
  end.

Definition stream_wf_all (s : src) : Prop :=
  forall o st, stream_wf (fst (fst (stream st s o))) 0 0 = true.

Lemma cfold_wf o cs : Forall stream_wf_all cs ->
  forall cst evs st, wf_to evs 0 0 (len (c_sources cst)) (len (c_names cst)) ->
  wf_to (snd (fst (fold_left (cfold_step o) cs (cst, evs, st)))) 0 0
        (len (c_sources (fst (fst (fold_left (cfold_step o) cs (cst, evs, st))))))
        (len (c_names (fst (fst (fold_left (cfold_step o) cs (cst, evs, st)))))).
Proof.
  induction 1 as [|c cs Hc _ IH]; intros cst evs st Hacc; [exact Hacc|].
  cbn [fold_left]. rewrite cfold_step_eq. pose proof (Hc o st) as A.
  destruct (stream st c o) as [[cevs gi] st1]. cbn [fst snd] in A.
  pose proof (concat_child_wf (final_source o) cst cevs gi A) as B.
  destruct (concat_child (final_source o) cst cevs gi) as [cst' out]. cbn [fst snd] in B.
  apply IH. eapply wf_to_app; eassumption.
Qed.

Lemma stream_wf_tree_ascii : forall s,
  rshape s = true -> tree_ascii s = true -> stream_wf_all s.
Proof.
  apply (src_ind' (fun s => rshape s = true -> tree_ascii s = true -> stream_wf_all s)).
  - intros b v _ _ o st. cbn [stream fst]. apply raw_stream_wf.
  - intros v _ _ o st. cbn [stream fst]. apply raw_stream_wf.
  - intros v _ _ o st. cbn [stream fst]. apply raw_stream_wf.
  - intros v n _ _ o st. cbn [stream fst]. apply original_stream_wf.
  - intros v n m og i r Hsh Ha o st. cbn [rshape] in Hsh. destruct i as [im|]; [discriminate|].
    cbn [stream fst]. apply sm_stream_wf. cbn [tree_ascii] in Ha.
    rewrite andb_true_r in Ha. apply andb_true_iff in Ha. destruct Ha as [Ha _].
    apply andb_true_iff in Ha. destruct Ha as [_ Ha]. exact Ha.
  - intros cs IH Hsh Ha o st. cbn [rshape tree_ascii] in Hsh, Ha.
    assert (Hall : Forall stream_wf_all cs).
    { rewrite Forall_forall in *. rewrite forallb_forall in Hsh, Ha. intros c Hc.
      apply IH; [exact Hc|apply Hsh; exact Hc|apply Ha; exact Hc]. }
    rewrite stream_concat_eq. destruct cs as [|c [|c2 cs]].
    + reflexivity.
    + inversion Hall as [|? ? Hc _]. apply Hc.
    + pose proof (cfold_wf o (c :: c2 :: cs) Hall concat_init [] st (wf_to_nil 0 0)) as A.
      destruct (fold_left (cfold_step o) (c :: c2 :: cs) (concat_init, [], st)) as [[cst evs] st'].
      cbn [fst snd] in *. eapply wf_to_wf. exact A.
  - intros i rs IH Hsh Ha o st. cbn [rshape tree_ascii] in Hsh, Ha.
    apply andb_true_iff in Ha. destruct Ha as [Ha _].
    cbn [stream]. pose proof (IH Hsh Ha (mkOpts (columns o) false) st) as A.
    destruct (stream st i (mkOpts (columns o) false)) as [[ievs gi] st']. cbn [fst snd] in *.
    apply replace_stream_wf. exact A.
  - intros id i _ Hsh. discriminate.
Qed.

(* W4 *)
Theorem stream_wf_tree (s : src) (st : store) (o : opts) :
  rshape s = true -> treeA s = true -> stream_wf (fst (fst (stream st s o))) 0 0 = true.
Proof.
  intros Hsh Ha. unfold treeA in Ha. apply andb_true_iff in Ha. destruct Ha as [_ Ha].
  apply stream_wf_tree_ascii; assumption.
Qed.

Print Assumptions raw_stream_wf.
Print Assumptions original_stream_wf.
Print Assumptions sm_stream_wf.
Print Assumptions concat_fold_wf.
Print Assumptions replace_stream_wf.
Print Assumptions stream_wf_tree.
