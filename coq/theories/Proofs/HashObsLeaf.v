(* C20, N1: what `norm` (Proofs/HashInjective.v) erases is not observable, constructor by
   constructor.  `norm` erases (a) the String/bytes flag of a RawSource, (b) the insertion
   order of the replacements of a ReplaceSource, (c) the NAME of a SourceMapSource, (d) the
   identity of a CachedSource.  For each of them: stream_chunks (events, generated info AND
   the store left behind), map() and source() are unchanged - for (a) when the bytes are valid
   UTF-8, for (c) when the SourceMapSource has NO inner map (with an inner map the name is
   observable: Proofs/HashObsInner.v), for (d) from cold caches / related stores. *)
From RS Require Import Base.Prelude Base.Text Rope.RopeModel Codec.Vlq
  Stream.Types Stream.Leaves Stream.Concat Stream.Replace Stream.Combined Stream.Tree
  Sem.HashEq Checkers.ChkTree
  Proofs.ReplaceSort Proofs.ViewsUtf8 Proofs.HashEqBasic Proofs.HashInjective
  Proofs.StreamTree Proofs.CacheStore Proofs.EqObsTree.
Require Import Lia List.

Local Open Scope N_scope.

(* ------------------------------------------------------------------ *)
(* (a) RawSource: from a String or from bytes                           *)
(* ------------------------------------------------------------------ *)
Lemma N1a_raw_source (v : text) : valid_utf8 v = true ->
  source (SRaw true v) = source (SRaw false v).
Proof. intros H. cbn [source]. apply utf8_lossy_valid. exact H. Qed.

Lemma N1a_raw_buffer (v : text) : buffer (SRaw true v) = buffer (SRaw false v).
Proof. reflexivity. Qed.

Theorem N1a_raw_stream (st : store) (v : text) (o : opts) : valid_utf8 v = true ->
  stream st (SRaw true v) o = stream st (SRaw false v) o.
Proof. intros H. cbn [stream]. rewrite (N1a_raw_source v H). reflexivity. Qed.

Theorem N1a_raw_map_of (st : store) (v : text) (c : bool) :
  map_of st (SRaw true v) c = map_of st (SRaw false v) c.
Proof. reflexivity. Qed.

(* without validity the flag IS observable in source() and the chunks (the hash ignores it):
   HashInjective.norm_views_counterexample_source; in the stream: *)
Example N1a_raw_stream_needs_valid :
  hash_events (SRaw true [255]) = hash_events (SRaw false [255]) /\
  fst (stream [] (SRaw true [255]) (mkOpts true false)) <>
  fst (stream [] (SRaw false [255]) (mkOpts true false)).
Proof. split; [reflexivity|]. vm_compute. discriminate. Qed.

(* ------------------------------------------------------------------ *)
(* (b) ReplaceSource: insertion order                                   *)
(* ------------------------------------------------------------------ *)
Lemma sort_repls_nil_iff (rs : list repl) : is_nil (sort_repls rs) = is_nil rs.
Proof.
  pose proof (Permutation.Permutation_length (sort_repls_perm rs)) as H.
  destruct rs as [|r rs]; [reflexivity|].
  destruct (sort_repls (r :: rs)) eqn:E; [|reflexivity].
  cbn [length] in H. discriminate H.
Qed.

Theorem N1b_replace_source (inner : src) (rs : list repl) :
  source (SReplace inner rs) = source (SReplace inner (sort_repls rs)).
Proof. cbn [source]. rewrite replace_source_text_sorted. reflexivity. Qed.

Theorem N1b_replace_buffer (inner : src) (rs : list repl) :
  buffer (SReplace inner rs) = buffer (SReplace inner (sort_repls rs)).
Proof. cbn [buffer]. rewrite replace_source_text_sorted. reflexivity. Qed.

Theorem N1b_replace_stream (st : store) (inner : src) (rs : list repl) (o : opts) :
  stream st (SReplace inner rs) o = stream st (SReplace inner (sort_repls rs)) o.
Proof. cbn [stream]. rewrite sort_repls_idem. reflexivity. Qed.

Lemma N1b_replace_get_map (st : store) (inner : src) (rs : list repl) (c : bool) :
  get_map st (SReplace inner rs) c = get_map st (SReplace inner (sort_repls rs)) c.
Proof. unfold get_map. rewrite N1b_replace_stream. reflexivity. Qed.

Theorem N1b_replace_map_of (st : store) (inner : src) (rs : list repl) (c : bool) :
  map_of st (SReplace inner rs) c = map_of st (SReplace inner (sort_repls rs)) c.
Proof.
  cbn [map_of]. rewrite sort_repls_nil_iff. destruct (is_nil rs); [reflexivity|].
  exact (N1b_replace_get_map st inner rs c).
Qed.

(* two replacement lists with the same sorted form are interchangeable *)
Corollary N1b_replace_same_sorted (st : store) (inner : src) (ra rb : list repl) :
  sort_repls ra = sort_repls rb ->
  (forall o, stream st (SReplace inner ra) o = stream st (SReplace inner rb) o) /\
  (forall c, map_of st (SReplace inner ra) c = map_of st (SReplace inner rb) c) /\
  source (SReplace inner ra) = source (SReplace inner rb).
Proof.
  intros H. split; [|split].
  - intros o. rewrite N1b_replace_stream, (N1b_replace_stream st inner rb), H. reflexivity.
  - intros c. rewrite N1b_replace_map_of, (N1b_replace_map_of st inner rb), H. reflexivity.
  - rewrite N1b_replace_source, (N1b_replace_source inner rb), H. reflexivity.
Qed.

(* ------------------------------------------------------------------ *)
(* (c) SourceMapSource without inner map: the name                      *)
(* ------------------------------------------------------------------ *)
Theorem N1c_mapped_stream (st : store) v n n' m orig r (o : opts) :
  stream st (SMapped v n m orig None r) o = stream st (SMapped v n' m orig None r) o.
Proof. reflexivity. Qed.

Theorem N1c_mapped_map_of (st : store) v n n' m orig r (c : bool) :
  map_of st (SMapped v n m orig None r) c = map_of st (SMapped v n' m orig None r) c.
Proof. reflexivity. Qed.

Theorem N1c_mapped_source v n n' m orig r :
  source (SMapped v n m orig None r) = source (SMapped v n' m orig None r) /\
  buffer (SMapped v n m orig None r) = buffer (SMapped v n' m orig None r).
Proof. split; reflexivity. Qed.

(* ------------------------------------------------------------------ *)
(* (d) CachedSource: the id                                             *)
(* ------------------------------------------------------------------ *)
(* a cache answers by the STATE of its entry, not by its id: two CachedSources around the same
   source, any two ids, stores that agree on the two entries *)
Theorem N1d_cached_related (i j : N) (s : src) (sta stb : store) :
  same_sharing (SCached i s) (SCached j s) ->
  store_rel (corr (SCached i s) (SCached j s)) sta stb ->
  (forall o, fst (stream sta (SCached i s) o) = fst (stream stb (SCached j s) o)) /\
  (forall c, fst (map_of sta (SCached i s) c) = fst (map_of stb (SCached j s) c)).
Proof.
  intros HS HR.
  assert (E : src_eqb (SCached i s) (SCached j s) = true).
  { apply E1_src_eqb_erase. reflexivity. }
  destruct (E3_eq_related_stores _ _ E HS sta stb HR) as [A B].
  split; [intros o; exact (proj1 (A o))|intros c; exact (proj1 (B c))].
Qed.

(* from cold caches, ids pairwise distinct in each tree *)
Theorem N1d_cached_cold (i j : N) (s : src) :
  ids_distinct (SCached i s) -> ids_distinct (SCached j s) ->
  forall o c,
    fst (fst (stream [] (SCached i s) o)) = fst (fst (stream [] (SCached j s) o)) /\
    snd (fst (stream [] (SCached i s) o)) = snd (fst (stream [] (SCached j s) o)) /\
    fst (map_of [] (SCached i s) c) = fst (map_of [] (SCached j s) c).
Proof.
  intros Hi Hj. apply E3_eq_cold_answers; [|exact Hi|exact Hj].
  apply E1_src_eqb_erase. reflexivity.
Qed.

Lemma N1d_cached_source (i j : N) (s : src) :
  source (SCached i s) = source (SCached j s) /\ buffer (SCached i s) = buffer (SCached j s).
Proof. split; reflexivity. Qed.

Print Assumptions N1a_raw_stream.
Print Assumptions N1a_raw_map_of.
Print Assumptions N1a_raw_stream_needs_valid.
Print Assumptions N1b_replace_stream.
Print Assumptions N1b_replace_map_of.
Print Assumptions N1b_replace_source.
Print Assumptions N1b_replace_same_sorted.
Print Assumptions N1c_mapped_stream.
Print Assumptions N1c_mapped_map_of.
Print Assumptions N1c_mapped_source.
Print Assumptions N1d_cached_related.
Print Assumptions N1d_cached_cold.
