(* Round-trip corollaries: T2 (decode . encode = kept), T5 (re-encoding is
   stable), T7 (lines-only encoder). *)
From RS Require Import Base.Prelude Codec.Vlq Codec.CodecSpec Checkers.ChkCodec
  Proofs.CodecAlphabet Proofs.CodecVlq Proofs.CodecKept Proofs.CodecSplit
  Proofs.CodecEnc Proofs.CodecLines Proofs.CodecDec.

Local Open Scope N_scope.

Lemma msmall_u32 m : msmall m -> mapping_u32 m = true.
Proof.
  intros (M1 & M2 & M3 & M4). unfold mapping_u32, u32, two32, s30 in *.
  rewrite !andb_true_iff, !N.ltb_lt. split; [split; lia|].
  destruct (m_orig m) as [o|]; [|reflexivity].
  destruct M4 as (O1 & O2 & O3 & O4).
  rewrite !andb_true_iff, !N.ltb_lt. split; [repeat split; lia|].
  destruct (o_name o); [apply N.ltb_lt; lia|reflexivity].
Qed.

Lemma enc_domain_u32 ms : enc_domain ms = true -> forallb mapping_u32 ms = true.
Proof.
  intros H. apply enc_domain_unpack in H. destruct H as [_ Hm].
  apply forallb_forall. intros m Hin. apply msmall_u32.
  rewrite Forall_forall in Hm. apply Hm. exact Hin.
Qed.

(* T2 (no hypothesis on original lines) *)
Theorem decode_encode (ms : list mapping) :
  enc_domain ms = true -> decode_mappings (encode_full ms) = kept ms.
Proof.
  intros H. apply decode_matches_rspec.
  - apply encode_rspec. exact H.
  - apply kept_forallb. apply enc_domain_u32. exact H.
  - apply encode_full_bytes.
Qed.

(* T5 *)
Theorem reencode (ms : list mapping) :
  enc_domain ms = true ->
  encode_full (decode_mappings (encode_full ms)) = encode_full ms.
Proof.
  intros H. rewrite (decode_encode ms H). apply encode_full_kept. exact H.
Qed.

(* T7, decoder half (no hypothesis on original lines) *)
Theorem lines_only_decode (ms : list mapping) :
  enc_domain ms = true -> decode_mappings (encode_lines ms) = line_firsts ms.
Proof.
  intros H. apply decode_matches_rspec.
  - apply encode_lines_rspec. exact H.
  - apply enc_domain_unpack in H. destruct H as [_ Hm].
    apply line_firsts_from_u32. exact Hm.
  - apply encode_lines_bytes.
Qed.

(* T7.  The full statement
     forall ms, enc_domain ms = true ->
       spec_decode (encode_lines ms) = Some (line_firsts ms) /\
       decode_mappings (encode_lines ms) = line_firsts ms
   fails in its first conjunct when an original line is 0 (see
   lines_only_counterexample); the second conjunct is lines_only_decode. *)
Theorem lines_only_partial (ms : list mapping) :
  enc_domain ms = true -> Forall oline_pos ms ->
  spec_decode (encode_lines ms) = Some (line_firsts ms) /\
  decode_mappings (encode_lines ms) = line_firsts ms.
Proof.
  intros H Hp. split.
  - apply encode_lines_spec_partial; assumption.
  - apply lines_only_decode. exact H.
Qed.

Lemma lines_only_counterexample :
  let ms := [mkMapping 1 0 (Some (mkOrig 0 0 0 None))] in
  enc_domain ms = true /\ spec_decode (encode_lines ms) = None /\
  decode_mappings (encode_lines ms) = line_firsts ms.
Proof. vm_compute. repeat split. Qed.

(* attribution-level corollary of T2 + T4 *)
Corollary decode_encode_attr (ms : list mapping) (l c : N) :
  enc_domain ms = true ->
  lookup (decode_mappings (encode_full ms)) l c = lookup ms l c.
Proof.
  intros H. rewrite (decode_encode ms H). apply kept_attr.
  unfold enc_domain in H. apply andb_true_iff in H. apply H.
Qed.

Print Assumptions decode_encode.
Print Assumptions reencode.
Print Assumptions lines_only_decode.
Print Assumptions lines_only_partial.
Print Assumptions decode_encode_attr.
