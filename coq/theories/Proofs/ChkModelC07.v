(* C07, checker level: `chk_C07` accepts the model's own observations of EVERY tree in its
   domain (`tree_wf`) after every warming history (the text views do not read the store).
   The acceptance theorem itself is `ViewsTree.chk_C07_model`; here it is restated next to the
   other checker-level theorems, made total (verdict 100 exactly outside the domain), and
   extended to observations that only agree with the model on the five text views - the
   checker reads neither the streams nor the maps. *)
From RS Require Import Base.Prelude Base.Text Rope.RopeModel Codec.Vlq
  Stream.Types Stream.Leaves Stream.Concat Stream.Replace Stream.Combined Stream.Tree
  Api.ApiTree Checkers.ChkTree Proofs.ViewsUtf8 Proofs.ViewsTree Proofs.ViewsWriter.
Require Import Lia List.
Import ListNotations.

Local Open Scope N_scope.

(* M2 *)
Theorem chk_C07_model_all (s : src) (ws : list (N * wop)) :
  tree_wf s = true -> chk_C07 s (api_tree s ws) = 0.
Proof. exact (chk_C07_model s ws). Qed.

Lemma chk_C07_outside s o : tree_wf s = false -> chk_C07 s o = 100.
Proof. intros H. unfold chk_C07. rewrite H. reflexivity. Qed.

Theorem chk_C07_model_total (s : src) (ws : list (N * wop)) :
  chk_C07 s (api_tree s ws) = if tree_wf s then 0 else 100.
Proof.
  destruct (tree_wf s) eqn:Hw; [apply chk_C07_model; exact Hw|apply chk_C07_outside; exact Hw].
Qed.

(* the checker depends on the five text views only *)
Lemma chk_C07_views s o o' :
  to_source o = to_source o' -> to_buffer o = to_buffer o' -> to_size o = to_size o' ->
  to_rope o = to_rope o' -> to_writer o = to_writer o' ->
  chk_C07 s o = chk_C07 s o'.
Proof. intros E1 E2 E3 E4 E5. unfold chk_C07. rewrite E1, E2, E3, E4, E5. reflexivity. Qed.

Theorem chk_C07_model_views (s : src) (o : tree_obs) :
  tree_wf s = true ->
  to_source o = source s -> to_buffer o = buffer s -> to_size o = size s ->
  to_rope o = match rope_of s with Some r => Some (flat r) | None => None end ->
  to_writer o = writer_calls s ->
  chk_C07 s o = 0.
Proof.
  intros Hw E1 E2 E3 E4 E5.
  rewrite (chk_C07_views s o (api_tree s []) E1 E2 E3 E4 E5). apply chk_C07_model. exact Hw.
Qed.

Print Assumptions chk_C07_model_all.
Print Assumptions chk_C07_model_total.
Print Assumptions chk_C07_model_views.
