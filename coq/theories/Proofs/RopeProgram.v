(* R10: a rope built by a construction program denotes the string the program
   denotes on plain strings, and is well-formed and valid. *)
From RS Require Import Base.Prelude Base.Text Rope.RopeModel Rope.RopeProg Proofs.RopeBasic
  Proofs.RopeWf Proofs.RopeUtf8 Proofs.RopeOps Proofs.RopeSlice Proofs.RopeLines.

Definition run_spec (p : rprog) : Prop :=
  match run_string p with
  | Some s => exists r, run p = Some r /\ flat r = s /\ rope_wf r = true /\ rope_valid r = true
  | None => run p = None
  end.

(* what the lines theorem (R9) provides *)
Definition lines_spec : Prop :=
  forall (r : rope) (tr : bool), rope_wf r = true -> rope_valid r = true ->
  map flat (rope_lines_impl r tr) = str_lines (flat r) tr /\
  Forall (fun l => rope_wf l = true) (rope_lines_impl r tr) /\
  Forall (fun l => rope_valid l = true) (rope_lines_impl r tr).

Lemma run_correct_gen : lines_spec -> forall p, prog_valid p = true -> run_spec p.
Proof.
  intros HL. unfold run_spec.
  induction p as [|t|ts|p IH t|p IHp q IHq|p IH a b|p IH tr k]; intros Hv; cbn [prog_valid] in Hv.
  - cbn [run_string run]. exists rope_new. auto.
  - cbn [run_string run]. exists (rope_from t).
    split; [reflexivity|]. split; [reflexivity|]. split; [reflexivity|].
    apply rope_valid_from. exact Hv.
  - cbn [run_string run]. exists (rope_from_iter ts).
    split; [reflexivity|]. split; [apply flat_from_iter|].
    split; [apply rope_wf_from_iter|apply rope_valid_from_iter; exact Hv].
  - apply andb_prop in Hv. destruct Hv as [Hp Ht]. specialize (IH Hp).
    cbn [run_string run]. destruct (run_string p) as [s|].
    + destruct IH as (r & -> & <- & Hwf & Hval). exists (rope_add r t).
      split; [reflexivity|]. split; [apply flat_add|].
      split; [apply rope_wf_add; exact Hwf|apply rope_valid_add; assumption].
    + rewrite IH. reflexivity.
  - apply andb_prop in Hv. destruct Hv as [Hp Hq]. specialize (IHp Hp). specialize (IHq Hq).
    cbn [run_string run]. destruct (run_string p) as [s|].
    + destruct IHp as (r & -> & <- & Hwf & Hval). destruct (run_string q) as [o|].
      * destruct IHq as (r2 & -> & <- & Hwf2 & Hval2). exists (rope_append r r2).
        split; [reflexivity|]. split; [apply flat_append|].
        split; [apply rope_wf_append; assumption|apply rope_valid_append; assumption].
      * rewrite IHq. reflexivity.
    + rewrite IHp. reflexivity.
  - specialize (IH Hv). cbn [run_string run]. destruct (run_string p) as [s|].
    + destruct IH as (r & -> & <- & Hwf & Hval).
      pose proof (rope_slice_flat r a b Hwf Hval) as HS.
      destruct (str_get (flat r) a b) as [t|].
      * destruct HS as (r' & -> & H1 & H2 & H3). exists r'. auto.
      * destruct HS as (w & ->). reflexivity.
    + rewrite IH. reflexivity.
  - specialize (IH Hv). cbn [run_string run]. destruct (run_string p) as [s|].
    + destruct IH as (r & -> & <- & Hwf & Hval).
      destruct (HL r tr Hwf Hval) as (Hmap & Fwf & Fval).
      rewrite <- Hmap, nth_opt_map.
      destruct (nth_opt (rope_lines_impl r tr) k) as [l|] eqn:En; cbn [option_map].
      * exists l. split; [reflexivity|]. split; [reflexivity|].
        unfold nth_opt in En. apply nth_error_In in En.
        rewrite Forall_forall in Fwf, Fval. auto.
      * reflexivity.
    + rewrite IH. reflexivity.
Qed.

Lemma lines_spec_holds : lines_spec.
Proof.
  intros r tr Hwf Hval. destruct (rope_lines_flat r tr Hwf) as [H1 H2].
  split; [exact H1|]. split; [exact H2|exact (rope_lines_valid r tr Hwf Hval)].
Qed.

Theorem run_correct (p : rprog) :
  prog_valid p = true ->
  match run_string p with
  | Some s => exists r, run p = Some r /\ flat r = s /\ rope_wf r = true /\ rope_valid r = true
  | None => run p = None
  end.
Proof. exact (run_correct_gen lines_spec_holds p). Qed.

Print Assumptions run_correct.
