(* Property C04 for trees of raw leaves, OriginalSource leaves and ConcatSource nodes (class
   `cshape`), segment level, columns = true (P2):
     every mapped segment of the map returned by map() starts exactly on an output byte whose
     true origin (Sem/Prov.v) is the segment's original file, line and column.
   Route: the segments of the map are segments of the text-less stream (codec round trip,
   dense tables); the text-less stream of a ConcatSource is, child by child, an optional
   unmapped closing segment followed by the child's segments moved by the offsets of the
   text before it (FinalConcat.child_decomp); the tagged bytes of the concatenation are the
   children's tagged bytes moved by the same offsets (`tagged_app`, `tagged_shift_in`);
   positions of tagged bytes are pairwise distinct, so membership determines `tag_at`. *)
From RS Require Import Base.Prelude Base.Text Rope.RopeModel Codec.Vlq Codec.CodecSpec
  Checkers.ChkCodec Stream.Types Stream.Leaves Stream.Concat Stream.Replace Stream.Tree Api.ApiTree
  Sem.Attr Sem.Prov Checkers.ChkTree Checkers.ChkProv
  Proofs.CodecKept Proofs.CodecEnc Proofs.CodecMain
  Proofs.StreamText Proofs.StreamLeaves Proofs.StreamMap Proofs.StreamConcat Proofs.StreamTree
  Proofs.WfStream Proofs.WfFinal Proofs.RStreamText Proofs.RStreamPos Proofs.RStreamTree
  Proofs.AttrCodec Proofs.AttrSms Proofs.AttrLeaves Proofs.ProvTokens Proofs.ProvOriginal
  Proofs.LawConcatAttr Proofs.FinalDense Proofs.FinalConcat Proofs.FinalTree Proofs.ProvConcatBytes.
Require Import Lia List.

Local Open Scope N_scope.

(* ------------------------------------------------------------------ *)
(* tagged bytes: concatenation, offsets, distinct positions              *)
(* ------------------------------------------------------------------ *)
Lemma tagged_app a : forall ga b gb l c, length ga = length a ->
  tagged (a ++ b) (ga ++ gb) l c =
  tagged a ga l c ++ tagged b gb (fst (advance l c a)) (snd (advance l c a)).
Proof.
  induction a as [|x a IH]; intros ga b gb l c H.
  - destruct ga; [reflexivity|discriminate].
  - destruct ga as [|g ga]; [discriminate|]. cbn [length] in H. cbn [app tagged advance].
    destruct (x =? NL); rewrite IH by lia; reflexivity.
Qed.

Lemma tagged_ge t : forall tags l0 c0 l c g,
  In (l, c, g) (tagged t tags l0 c0) -> ple (l0, c0) (l, c).
Proof.
  induction t as [|x t IH]; intros tags l0 c0 l c g H; [contradiction|].
  destruct tags as [|g0 tags]; [contradiction|]. cbn [tagged] in H. destruct H as [H|H].
  - inversion H. apply ple_refl.
  - destruct (x =? NL); apply IH in H; unfold ple in *; cbn [fst snd] in *; lia.
Qed.

Lemma tagged_tag_at t : forall tags l0 c0 l c g,
  In (l, c, g) (tagged t tags l0 c0) -> tag_at (tagged t tags l0 c0) l c = Some g.
Proof.
  induction t as [|x t IH]; intros tags l0 c0 l c g H; [contradiction|].
  destruct tags as [|g0 tags]; [contradiction|]. cbn [tagged] in *. cbn [tag_at].
  destruct ((l0 =? l) && (c0 =? c)) eqn:E.
  - apply andb_true_iff in E. destruct E as [E1 E2]. apply N.eqb_eq in E1. apply N.eqb_eq in E2. subst l0 c0.
    destruct H as [H|H]; [inversion H; reflexivity|]. exfalso.
    destruct (x =? NL); apply tagged_ge in H; unfold ple in H; cbn [fst snd] in H; lia.
  - destruct H as [H|H].
    + inversion H. subst. rewrite !N.eqb_refl in E. discriminate.
    + destruct (x =? NL); apply IH; exact H.
Qed.

(* the same bytes, started at (l1 + lo, c1 + co) instead of (l1, c1) *)
Lemma tagged_shift_in lo t : forall tags l1 c1 co l c g,
  In (l, c, g) (tagged t tags l1 c1) ->
  In (l + lo, (if l =? l1 then c + co else c), g) (tagged t tags (l1 + lo) (c1 + co)).
Proof.
  induction t as [|x t IH]; intros tags l1 c1 co l c g H; [contradiction|].
  destruct tags as [|g0 tags]; [contradiction|]. cbn [tagged] in *. destruct H as [H|H].
  - inversion H. subst. rewrite N.eqb_refl. left. reflexivity.
  - right. destruct (x =? NL).
    + pose proof (tagged_ge _ _ _ _ _ _ _ H) as Hge. unfold ple in Hge. cbn [fst snd] in Hge.
      replace (l =? l1) with false by (symmetry; apply N.eqb_neq; lia).
      pose proof (IH tags (l1 + 1) 0 0 l c g H) as X.
      replace (if l =? l1 + 1 then c + 0 else c) with c in X by (destruct (l =? l1 + 1); lia).
      replace (l1 + 1 + lo) with (l1 + lo + 1) in X by lia. exact X.
    + pose proof (IH tags l1 (c1 + 1) co l c g H) as X.
      replace (c1 + 1 + co) with (c1 + co + 1) in X by lia. exact X.
Qed.

(* ------------------------------------------------------------------ *)
(* a segment lies on a byte tagged with its own original location        *)
(* ------------------------------------------------------------------ *)
Definition seg_in (tg : list (N * N * ptag)) (sg : rseg) : Prop :=
  match sg with
  | (l, c, Some loc) =>
    exists st e, In (l, c, POrig (l_file loc) (l_line loc) (l_col loc) st e) tg
  | (_, _, None) => True
  end.

Lemma seg_in_seg_ok t tags l0 c0 sg : seg_in (tagged t tags l0 c0) sg -> ChkProv.seg_ok (tagged t tags l0 c0) sg = true.
Proof.
  destruct sg as [[l c] [loc|]]; [|reflexivity]. intros (st & e & Hin). cbn [ChkProv.seg_ok].
  rewrite (tagged_tag_at _ _ _ _ _ _ _ Hin), text_eqb_refl, !N.eqb_refl. reflexivity.
Qed.

Lemma seg_in_app_l a b sg : seg_in a sg -> seg_in (a ++ b) sg.
Proof.
  destruct sg as [[l c] [loc|]]; [|exact (fun x => x)]. intros (st & e & Hin).
  exists st, e. apply in_or_app. left. exact Hin.
Qed.

Lemma seg_in_app_r a b sg : seg_in b sg -> seg_in (a ++ b) sg.
Proof.
  destruct sg as [[l c] [loc|]]; [|exact (fun x => x)]. intros (st & e & Hin).
  exists st, e. apply in_or_app. right. exact Hin.
Qed.

Lemma seg_in_shift lo co t tags sg :
  seg_in (tagged t tags 1 0) sg -> seg_in (tagged t tags (lo + 1) co) (shseg lo co sg).
Proof.
  destruct sg as [[l c] [loc|]]; [|exact (fun x => x)]. intros (st & e & Hin).
  unfold shseg, shift. cbn [fst snd seg_in]. exists st, e.
  pose proof (tagged_shift_in lo t tags 1 0 co l c _ Hin) as X.
  replace (1 + lo) with (lo + 1) in X by lia. rewrite N.add_0_l in X. exact X.
Qed.

(* ------------------------------------------------------------------ *)
(* the segments of map() are segments of the text-less stream            *)
(* ------------------------------------------------------------------ *)
Lemma map_segs_in_fsegs evs : dense evs 0 0 = true -> enc_domain (chunk_mappings evs) = true ->
  forall sg, In sg (segs_of (map_of_events true evs)) -> In sg (fsegs evs [] []).
Proof.
  intros Hd He sg Hin. pose proof (dense_ann_ok evs [] [] Hd) as Ha.
  unfold map_of_events in Hin. cbn [encode_mappings] in Hin.
  destruct (is_nil (encode_full (chunk_mappings evs))); [contradiction|].
  cbn [segs_of] in Hin. rewrite rsegs_of_map_F in Hin. cbn [sm_mappings sm_names] in Hin.
  rewrite (decode_encode _ He) in Hin. apply in_map_iff in Hin. destruct Hin as [mp [E Hmp]].
  apply (kept_from_In _ None) in Hmp.
  destruct (fold_tables evs (mkT [] [] []) Ha) as [E1 E2]. cbn [t_sources t_names] in E1, E2.
  rewrite (fsegs_dense evs Hd). apply in_map_iff. exists mp. split; [|exact Hmp].
  rewrite <- E. apply rsF_ext.
  - intros i. rewrite fileM_noroot by reflexivity. cbn [sm_sources]. unfold kfile. rewrite E1. reflexivity.
  - intros i. unfold kname. rewrite E2. reflexivity.
Qed.

(* ------------------------------------------------------------------ *)
(* the fold over the children of a ConcatSource, text-less mode          *)
(* ------------------------------------------------------------------ *)
(* a child with the tags of its text *)
Definition kt_ok (kt : kid * list ptag) : Prop :=
  kid_ok (fst kt) /\ length (snd kt) = length (tr_text (fst kt)) /\
  Forall (seg_in (tagged (tr_text (fst kt)) (snd kt) 1 0)) (fsegs (tr_events (fst kt)) [] []).

Lemma fold_seg_in : forall (kts : list (kid * list ptag)) st out T G,
  tabs out [] [] = (c_sources st, c_names st) -> cpos st = adv (1, 0) T -> length G = length T ->
  Forall (seg_in (tagged T G 1 0)) (fsegs out [] []) -> Forall kt_ok kts ->
  Forall (seg_in (tagged (T ++ concat (map (fun kt => tr_text (fst kt)) kts)) (G ++ flat_map snd kts) 1 0))
         (fsegs (snd (concat_fold true (map (fun kt => fst (fst kt)) kts) (st, out))) [] []).
Proof.
  induction kts as [|[tr g] kts IH]; intros st out T G Ht HT HG Hout HF.
  - cbn [map concat flat_map concat_fold fold_left snd]. rewrite !app_nil_r. exact Hout.
  - inversion HF as [|? ? Hkt HF']; subst. destruct Hkt as [Hk [Hlen Hsegs]]. cbn [fst snd] in Hk, Hlen, Hsegs.
    cbn [map concat flat_map fst snd]. rewrite concat_fold_cons. cbn [fst snd].
    change (fst (fst tr)) with (tr_events tr). change (snd (fst tr)) with (tr_info tr).
    pose proof (child_decomp st out tr Ht Hk) as [B1 [_ [B3 _]]]. cbn zeta in B1, B3.
    assert (Hi : tr_info tr = advance 1 0 (tr_text tr)) by (destruct Hk as [_ [_ [Hi _]]]; exact Hi).
    pose proof (concat_child_cpos true st (tr_events tr) (tr_info tr) (tr_text tr) Hi) as B4.
    destruct (concat_child true st (tr_events tr) (tr_info tr)) as [st' o]. cbn [fst snd] in *.
    rewrite !app_assoc. apply IH.
    + exact B1.
    + rewrite B4, HT, adv_app. reflexivity.
    + rewrite !app_length, HG, Hlen. reflexivity.
    + rewrite B3, (tagged_app T G (tr_text tr) g 1 0 HG).
      apply Forall_app. split; [|apply Forall_app; split].
      * eapply Forall_impl; [|exact Hout]. intros sg. apply seg_in_app_l.
      * unfold child_cl. destruct (c_close st && need (chunk_mappings (tr_events tr)) (tr_info tr)); [|constructor].
        constructor; [exact I|constructor].
      * rewrite Forall_map. eapply Forall_impl; [|exact Hsegs]. intros sg Hsg. apply seg_in_app_r.
        unfold cpos, adv in HT. cbn [fst snd] in HT. rewrite <- HT. cbn [fst snd].
        apply seg_in_shift. exact Hsg.
    + exact HF'.
Qed.

(* ------------------------------------------------------------------ *)
(* the induction over the tree                                          *)
(* ------------------------------------------------------------------ *)
Definition sgood (s : src) : Prop :=
  forall st, cshape s = true -> treeA s = true ->
    Forall (seg_in (tagged (source s) (prov s) 1 0)) (fsegs (fst (fst (stream st s oF))) [] []).

Lemma raw_sgood s : is_raw s = true -> sgood s.
Proof.
  intros Hr st _ _.
  assert (Es : fst (fst (stream st s oF)) = []) by (destruct s; try discriminate; reflexivity).
  rewrite Es. constructor.
Qed.

Lemma original_sgood v n : sgood (SOriginal v n).
Proof.
  intros st _ _. cbn [source prov]. unfold oF. rewrite stream_original, original_stream_cols_fst.
  unfold fsegs. rewrite rsegs_source0, (rsegs_chunks_snd _ _ _ (tokens_only _ true 1 0)).
  rewrite (tagged_original v n), (otg_v_tokens v n).
  rewrite Forall_map. apply Forall_forall. intros m Hm.
  destruct (tokens_segs n (potential_tokens v) 1 0 (potential_tokens_pieces v) m Hm) as (l & c & g & -> & Hin).
  destruct (otg_self _ _ _ _ _ _ _ Hin) as (l' & c' & st' & e & E). inversion E. subst l' c' g.
  change (rsF (fileT [n]) (fileT []) (orig_at l c)) with (l, c, Some (mkLoc n l c None)).
  cbn [seg_in l_file l_line l_col]. exists st', e. exact Hin.
Qed.

Lemma concat_sgood cs : Forall sgood cs -> sgood (SConcat cs).
Proof.
  intros IH st Hc Ha. rewrite Forall_forall in IH.
  pose proof (cshape_concat cs Hc) as Hc'. pose proof (treeA_concat cs Ha) as Ha'.
  destruct (Nat.eq_dec (length cs) 1) as [E|E].
  { destruct cs as [|c [|c2 r]]; try discriminate.
    change (stream st (SConcat [c]) oF) with (stream st c oF).
    cbn [source prov map concat flat_map]. rewrite !app_nil_r.
    apply (IH c (or_introl eq_refl) st); [apply Hc'|apply Ha']; left; reflexivity. }
  assert (TG : forall c, In c cs -> forall st0,
            kid_ok (fst (stream st0 c oF), source c) /\ snd (stream st0 c oF) = st0).
  { intros c Hin st0.
    destruct (tgood_all c st0 (cshape_rshape c (Hc' c Hin)) (Ha' c Hin) (cshape_rsmall c (Hc' c Hin))) as [K [S _]].
    split; assumption. }
  rewrite (stream_concat_fold st cs oF E), (kid_streams_pure oF cs (fun c Hin st0 => proj2 (TG c Hin st0)) st).
  cbn [fst snd final_source oF].
  set (kts := map (fun c => ((fst (stream st c oF), source c), prov c)) cs : list (kid * list ptag)).
  assert (E1 : map (fun c => fst (stream st c oF)) cs = map (fun kt => fst (fst kt)) kts).
  { unfold kts. rewrite map_map. apply map_ext. intros c. reflexivity. }
  assert (E2 : source (SConcat cs) = [] ++ concat (map (fun kt => tr_text (fst kt)) kts)).
  { cbn [source app]. unfold kts. rewrite map_map. reflexivity. }
  assert (E3 : prov (SConcat cs) = [] ++ flat_map snd kts).
  { cbn [prov app]. unfold kts. rewrite flat_map_map. reflexivity. }
  rewrite E1, E2, E3.
  apply (fold_seg_in kts concat_init [] [] []); [reflexivity|reflexivity|reflexivity|constructor|].
  unfold kts. rewrite Forall_map. apply Forall_forall. intros c Hin. unfold kt_ok. cbn [fst snd].
  split; [apply (TG c Hin st)|]. split.
  - apply (pgood_all c st (Hc' c Hin) (Ha' c Hin)).
  - apply (IH c Hin st (Hc' c Hin) (Ha' c Hin)).
Qed.

Lemma sgood_all : forall s, sgood s.
Proof.
  apply src_ind'.
  - intros b v. apply raw_sgood. reflexivity.
  - intros v. apply raw_sgood. reflexivity.
  - intros v. apply raw_sgood. reflexivity.
  - apply original_sgood.
  - intros v n m og i r st Hc. discriminate.
  - intros cs IH. apply concat_sgood. exact IH.
  - intros i rs _ st Hc. discriminate.
  - intros id i _ st Hc. discriminate.
Qed.

(* the statement on the text-less stream (what map() encodes): no size hypothesis *)
Theorem cshape_final_segs (st : store) (s : src) : cshape s = true -> treeA s = true ->
  forallb (ChkProv.seg_ok (tagged (source s) (prov s) 1 0))
          (fsegs (fst (fst (stream st s (mkOpts true true)))) [] []) = true.
Proof.
  intros Hc Ha. apply forallb_forall. intros sg Hin. apply seg_in_seg_ok.
  pose proof (sgood_all s st Hc Ha) as H. rewrite Forall_forall in H. apply H. exact Hin.
Qed.

(* P2 *)
Theorem concat_c04_segs (st : store) (s : src) :
  cshape s = true -> treeA s = true -> fields_small st s ->
  let m1 := fst (map_of st s true) in
  let tg := tagged (source s) (prov s) 1 0 in
  let segs := match m1 with Some m => rsegs_of_map m | None => [] end in
  forallb (ChkProv.seg_ok tg) segs = true.
Proof.
  intros Hc Ha Hs. cbn zeta. fold (segs_of (fst (map_of st s true))).
  destruct (is_raw s) eqn:Er.
  - assert (Em : fst (map_of st s true) = None) by (destruct s; try discriminate; reflexivity).
    rewrite Em. reflexivity.
  - rewrite (map_of_get_map st s true Hc Er).
    pose proof (final_enc_domain st s (cshape_rshape s Hc) Ha (cshape_rsmall s Hc) Hs) as He.
    pose proof (dense_tree_any s st (mkOpts true true) (cshape_rshape s Hc) Ha) as Hd.
    pose proof (sgood_all s st Hc Ha) as Hg. unfold oF in Hg. unfold get_map.
    destruct (stream st s (mkOpts true true)) as [[evs gi] st']. cbn [fst snd] in *.
    apply forallb_forall. intros sg Hin. apply seg_in_seg_ok.
    rewrite Forall_forall in Hg. apply Hg. apply map_segs_in_fsegs; assumption.
Qed.

(* P1 and P2 together, in the form of C04_original_columns *)
Theorem concat_c04_cols (st : store) (s : src) :
  cshape s = true -> treeA s = true -> fields_small st s ->
  let m1 := fst (map_of st s true) in
  let tg := tagged (source s) (prov s) 1 0 in
  let segs := match m1 with Some m => rsegs_of_map m | None => [] end in
  forallb (ChkProv.seg_ok tg) segs = true /\ forallb (byte_ok segs) tg = true.
Proof. intros Hc Ha Hs. split; [apply concat_c04_segs|apply concat_c04_bytes]; assumption. Qed.

Print Assumptions cshape_final_segs.
Print Assumptions concat_c04_segs.
Print Assumptions concat_c04_cols.
