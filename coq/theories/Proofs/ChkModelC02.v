(* C02, checker level: `chk_C02` accepts the model's own observations
   (a) of every tree of the class rshape / treeA / rsmall (raw leaves, OriginalSource,
       SourceMapSource without inner map and with a consistent map, ConcatSource, ReplaceSource;
       ASCII texts; every ReplaceSource below 2^32 bytes), after every warming history - all
       eight clauses: true chunk positions of the two text-carrying streams, exact end info
       of all four streams, segments of the two text-less streams on positions of source();
   (b) of every such tree with CachedSource wrappers anywhere, observed first (cold caches,
       `ws = []`): the observations are those of the tree without the wrappers. *)
From RS Require Import Base.Prelude Base.Text Rope.RopeModel Codec.Vlq Codec.CodecSpec
  Stream.Types Stream.Leaves Stream.Concat Stream.Replace Stream.Combined Stream.Tree
  Api.ApiTree Sem.Attr Checkers.ChkTree
  Proofs.RStreamTree Proofs.FinalTree Proofs.LinesTree
  Proofs.ColdCache Proofs.ColdCacheTree Proofs.WfAllChk.
Require Import Lia List.
Import ListNotations.

Local Open Scope N_scope.

Lemma gi_eqb_refl a : gi_eqb a a = true.
Proof. unfold gi_eqb. rewrite !N.eqb_refl. reflexivity. Qed.

(* the verdict from what is known about the four streams taken from one store *)
Lemma chk_C02_unfold s st o :
  treeA s = true ->
  to_source o = source s ->
  to_streams o = map (fun op => fst (stream st s op)) all_opts ->
  (forall cols, well_positioned (chunks_of (fst (fst (stream st s (mkOpts cols false))))) 1 0 = true) ->
  (forall op, snd (fst (stream st s op)) = advance 1 0 (source s)) ->
  (forall cols, positions_of_text (source s) (chunks_of (fst (fst (stream st s (mkOpts cols true))))) = true) ->
  chk_C02 s o = 0.
Proof.
  intros Ha E1 E2 Hp He Hf. unfold chk_C02. rewrite Ha, E1, E2. cbn [negb map all_opts].
  rewrite (Hp true), (Hp false). cbn [negb].
  rewrite (He (mkOpts true false)), (He (mkOpts false false)),
    (He (mkOpts true true)), (He (mkOpts false true)), gi_eqb_refl. cbn [negb].
  rewrite (Hf true), (Hf false). reflexivity.
Qed.

(* the three groups of clauses for the class, from any store *)
Lemma rshape_positions st s cols :
  RStreamTree.rshape s = true -> treeA s = true -> rsmall s = true ->
  well_positioned (chunks_of (fst (fst (stream st s (mkOpts cols false))))) 1 0 = true.
Proof.
  intros H1 H2 H3. pose proof (rshape_stream_good st s cols H1 H2 H3) as G.
  destruct (stream st s (mkOpts cols false)) as [[evs gi] st']. cbn [fst]. tauto.
Qed.

Lemma rshape_end_info st s op :
  RStreamTree.rshape s = true -> treeA s = true -> rsmall s = true ->
  snd (fst (stream st s op)) = advance 1 0 (source s).
Proof.
  intros H1 H2 H3. destruct op as [cols [|]].
  - destruct cols.
    + exact (proj1 (proj2 (proj2 (final_stream_facts st s H1 H2 H3)))).
    + exact (proj1 (proj2 (proj2 (final_stream_facts_lines st s H1 H2 H3)))).
  - pose proof (rshape_stream_good st s cols H1 H2 H3) as G.
    destruct (stream st s (mkOpts cols false)) as [[evs gi] st']. cbn [fst snd]. tauto.
Qed.

Lemma rshape_final_positions st s cols :
  RStreamTree.rshape s = true -> treeA s = true -> rsmall s = true ->
  positions_of_text (source s) (chunks_of (fst (fst (stream st s (mkOpts cols true))))) = true.
Proof.
  intros H1 H2 H3. destruct cols.
  - exact (proj1 (proj2 (final_stream_facts st s H1 H2 H3))).
  - exact (proj1 (proj2 (final_stream_facts_lines st s H1 H2 H3))).
Qed.

(* M3 (a): from any store, hence after any warming history *)
Theorem chk_C02_model_any_store (s : src) (st : store) (o : tree_obs) :
  RStreamTree.rshape s = true -> treeA s = true -> rsmall s = true ->
  to_source o = source s ->
  to_streams o = map (fun op => fst (stream st s op)) all_opts ->
  chk_C02 s o = 0.
Proof.
  intros H1 H2 H3 E1 E2. apply (chk_C02_unfold s st o H2 E1 E2).
  - intros cols. apply rshape_positions; assumption.
  - intros op. apply rshape_end_info; assumption.
  - intros cols. apply rshape_final_positions; assumption.
Qed.

Theorem chk_C02_model (s : src) (ws : list (N * wop)) :
  RStreamTree.rshape s = true -> treeA s = true -> rsmall s = true ->
  chk_C02 s (api_tree s ws) = 0.
Proof.
  intros H1 H2 H3.
  exact (chk_C02_model_any_store s (run_warm [] s ws) (api_tree s ws) H1 H2 H3 eq_refl eq_refl).
Qed.

(* ------------------------------------------------------------------ *)
(* trees with CachedSource nodes, first observation                    *)
(* ------------------------------------------------------------------ *)
(* every observation of a freshly built tree is that of the tree without its wrappers *)
Theorem api_tree_cold (s : src) :
  ids_distinct s -> api_tree s [] = api_tree (uncache s) [].
Proof.
  intros Hd. unfold api_tree. cbn [run_warm].
  rewrite uncache_source, uncache_buffer, uncache_size, uncache_rope, uncache_writer.
  f_equal.
  - cbn [map all_opts]. rewrite !(fresh_stream_uncache s _ Hd). reflexivity.
  - rewrite !(fresh_map_uncache s _ Hd). reflexivity.
Qed.

(* the checker reads the tree only through its domain guard *)
Lemma chk_C02_guard s s' o : treeA s = treeA s' -> chk_C02 s o = chk_C02 s' o.
Proof. intros E. unfold chk_C02. rewrite E. reflexivity. Qed.

(* M3 (b) *)
Theorem chk_C02_model_cold (s : src) :
  ids_distinct s ->
  RStreamTree.rshape (uncache s) = true -> treeA s = true -> rsmall (uncache s) = true ->
  chk_C02 s (api_tree s []) = 0.
Proof.
  intros Hd H1 H2 H3. rewrite (api_tree_cold s Hd).
  rewrite (chk_C02_guard s (uncache s) _ (eq_sym (uncache_treeA s))).
  apply chk_C02_model; [exact H1|apply treeA_uncache; exact H2|exact H3].
Qed.

(* ... and from any store that is cold for the tree (all four streams taken from that store) *)
Theorem chk_C02_model_cold_store (s : src) (st : store) (o : tree_obs) :
  ids_distinct s -> cold st s ->
  RStreamTree.rshape (uncache s) = true -> treeA s = true -> rsmall (uncache s) = true ->
  to_source o = source s ->
  to_streams o = map (fun op => fst (stream st s op)) all_opts ->
  chk_C02 s o = 0.
Proof.
  intros Hd Hc H1 H2 H3 E1 E2. apply (chk_C02_unfold s st o H2 E1 E2).
  - intros cols. pose proof (cold_stream_good st s Hd Hc H1 H2 H3 cols) as G.
    destruct (stream st s (mkOpts cols false)) as [[evs gi] st']. cbn [fst]. tauto.
  - intros [cols [|]].
    + exact (proj1 (proj2 (proj2 (cold_final_stream_facts st s Hd Hc H1 H2 H3 cols)))).
    + pose proof (cold_stream_good st s Hd Hc H1 H2 H3 cols) as G.
      destruct (stream st s (mkOpts cols false)) as [[evs gi] st']. cbn [fst snd]. tauto.
  - intros cols. exact (proj1 (proj2 (cold_final_stream_facts st s Hd Hc H1 H2 H3 cols))).
Qed.

(* the class (b) is not empty and not covered by (a) *)
Lemma chk_C02_cold_example :
  ids_distinct t_nest /\ RStreamTree.rshape t_nest = false /\
  chk_C02 t_nest (api_tree t_nest []) = 0.
Proof.
  split; [apply ids_distinctb_spec; vm_compute; reflexivity|]. split; vm_compute; reflexivity.
Qed.

Print Assumptions chk_C02_model_any_store.
Print Assumptions chk_C02_model.
Print Assumptions api_tree_cold.
Print Assumptions chk_C02_model_cold.
Print Assumptions chk_C02_model_cold_store.
Print Assumptions chk_C02_cold_example.
