(* Warm caches over combined-map leaves, part 6: the main theorem (WarmTreeMain.v for `cls2`).
   A tree `s` - raw leaves, OriginalSource, SourceMapSource WITH or without an inner map (the
   combined leaves well-formed in the sense `c09_wfb`), ConcatSource, ReplaceSource, CachedSource
   nodes ANYWHERE (above combined leaves included), every cache id once, no ReplaceSource with
   replacements above a CachedSource (`k2_shape s = false`) - observed over ANY sound store
   (`Sound2`: caches warm or cold, in any mix of option sets) answers every stream_chunks / map()
   call with Leibniz-equal attribution lists to the freshly built cache-free tree `uncache s`,
   with the same text and end info, and leaves a sound store behind. *)
From RS Require Import Base.Prelude Base.Text Rope.RopeModel Codec.Vlq Codec.CodecSpec
  Checkers.ChkCodec Stream.Types Stream.Leaves Stream.Concat Stream.Replace Stream.Combined Stream.Tree
  Api.ApiTree Sem.Attr Sem.HashEq Api.ApiHist Checkers.ChkTree Checkers.ChkHist
  Proofs.CodecKept Proofs.CodecMain Proofs.StreamText Proofs.StreamLeaves Proofs.StreamMap Proofs.StreamConcat Proofs.StreamTree
  Proofs.WfStream Proofs.WfFinal Proofs.RStreamText Proofs.RStreamPos Proofs.RStreamTree
  Proofs.AttrCodec Proofs.AttrSms Proofs.AttrLeaves Proofs.LawConcatAttr Proofs.LawWrappers
  Proofs.CacheStore Proofs.CacheReplay Proofs.FinalDense Proofs.FinalReplace Proofs.FinalConcat Proofs.FinalTree Proofs.FinalCache
  Proofs.LinesBase Proofs.LinesSelf Proofs.LinesConcat Proofs.LinesTree
  Proofs.ColdCache Proofs.ColdCacheTree Proofs.BoundsPos Proofs.BoundsOrig Proofs.BoundsIdx Proofs.BoundsAll
  Proofs.CombLeafTree
  Proofs.WarmTreeDefs Proofs.WarmTreeReplay Proofs.WarmTreeCodec Proofs.WarmTreeNodes
  Proofs.WarmCombBounds Proofs.WarmCombDefs Proofs.WarmCombReplay Proofs.WarmCombCodec Proofs.WarmCombNodes.
Require Import Lia List.

Local Open Scope N_scope.

(* ------------------------------------------------------------------ *)
(* wrappers that change nothing                                         *)
(* ------------------------------------------------------------------ *)
Lemma TG_cached2 c id i r : TG2 c (SCached id i) r = TG2 c i r.
Proof. reflexivity. Qed.

Lemma FG_cached2 c id i r : FG2 c (SCached id i) r = FG2 c i r.
Proof. reflexivity. Qed.

Lemma good_entry_cached2 c id i v : good_entry2 (SCached id i) c v = good_entry2 i c v.
Proof. reflexivity. Qed.

Lemma refA_single ch c : refA (SConcat [ch]) c = refA ch c.
Proof. reflexivity. Qed.

Lemma bnd_single2 ch evs : bnd2 ch evs -> bnd2 (SConcat [ch]) evs.
Proof. unfold bnd2. cbn [asrc2 anam2 fold_right]. intros [A [B C]]. split; [exact A|]. split; lia. Qed.

Lemma TG_single2 c ch r : TG2 c ch r -> TG2 c (SConcat [ch]) r.
Proof.
  unfold TG2. cbn [source map concat]. rewrite app_nil_r, refA_single.
  intros [A [B [C [D [E [F [G H]]]]]]]. repeat (split; [assumption|]). apply bnd_single2. exact H.
Qed.

Lemma FG_single2 c ch r : FG2 c ch r -> FG2 c (SConcat [ch]) r.
Proof.
  unfold FG2. cbn [source map concat]. rewrite app_nil_r, refA_single.
  intros [A [B [C D]]]. repeat (split; [assumption|]). apply bnd_single2. exact D.
Qed.

Lemma refA_replace_nil2 i c : cls2 i -> refA (SReplace i []) c = refA i c.
Proof.
  intros Hci. destruct (ref_TG2 c i Hci) as [Rd _].
  unfold refA, ref_evs. cbn [uncache]. rewrite replace_nil_stream_eq. cbn [fst snd columns].
  apply replace_stream_nil_attr. exact Rd.
Qed.

Lemma good_entry_replace_nil2 i c v : cls2 i -> good_entry2 i c v -> good_entry2 (SReplace i []) c v.
Proof.
  intros Hci [A B]. split.
  - change (source (SReplace i [])) with (source i). rewrite (refA_replace_nil2 i c Hci). exact A.
  - destruct v as [m|]; [|exact I]. destruct B as [R [B1 [B2 [B3 B4]]]].
    change (source (SReplace i [])) with (source i). split; [exact R|].
    unfold mbnd2. cbn [asrc2 anam2]. split; [exact B1|]. split; [exact B2|]. split; [exact B3|lia].
Qed.

(* ------------------------------------------------------------------ *)
(* the entry of a leaf's own map()                                      *)
(* ------------------------------------------------------------------ *)
Lemma raw_entry2 s c : is_raw s = true -> good_entry2 s c None.
Proof.
  intros H. split; [|exact I]. cbn [attr_of_map].
  assert (Hn : has_cached s = false) by (destruct s; try discriminate; reflexivity).
  rewrite (nocache_refA s c Hn).
  assert (E : fst (fst (stream [] s (mkOpts c false))) = fst (raw_stream (source s) false))
    by (destruct s; try discriminate; reflexivity).
  rewrite E, raw_stream_attr. reflexivity.
Qed.

Lemma mapped_entry2 v n m og r c : cls2 (SMapped v n m og None r) ->
  good_entry2 (SMapped v n m og None r) c (Some m).
Proof.
  intros Hcl. destruct (cls2_nocache _ Hcl eq_refl) as [_ [HA [_ Ht]]].
  unfold treeA in HA. apply andb_true_iff in HA. destruct HA as [_ HA].
  destruct (mapped_ascii v n m og r HA) as [Hav Hmc].
  destruct (tiny2_parts _ Ht) as [_ [_ [_ [_ T5]]]]. cbn [maps_tiny2 inner_tiny] in T5. rewrite andb_true_r in T5.
  destruct (map_tiny_segb m T5) as [S1 S2]. pose proof KB_KB2 as HK.
  destruct (map_consistent_ok v m Hmc) as [Hso _].
  split.
  - rewrite (nocache_refA (SMapped v n m og None r) c eq_refl). cbn [source stream fst]. unfold sm_stream. cbn [columns final_source].
    destruct c; symmetry; [apply sm_full_attr|apply sm_lines_full_attr]; assumption.
  - cbn [source]. split.
    + split; [exact Hso|]. split; [apply map_consistent_pos; exact Hmc|apply map_consistent_segs with (t := v); exact Hmc].
    + unfold mbnd2. cbn [asrc2 anam2 im_sources im_names]. split.
      { eapply Forall_impl; [|exact S1]. intros mp. apply ob_mono. exact HK. }
      split; [intros x Hx; specialize (S2 x Hx); lia|]. split; lia.
Qed.

(* ------------------------------------------------------------------ *)
(* the induction                                                        *)
(* ------------------------------------------------------------------ *)
Section Warm2.
Variable U : src.
Hypothesis HU : ids_distinct U.

Definition stream_ok2 (P : bool -> src -> list event * (N * N) -> Prop) (f : bool) (s : src) : Prop :=
  forall st c, Sound2 st U ->
    P c s (fst (stream st s (mkOpts c f))) /\ Sound2 (snd (stream st s (mkOpts c f))) U.

Definition map_ok2 (s : src) : Prop :=
  forall st c, Sound2 st U -> good_entry2 s c (fst (map_of st s c)) /\ Sound2 (snd (map_of st s c)) U.

Definition PW2 (s : src) : Prop :=
  incl (nodes s) (nodes U) -> cls2 s -> stream_ok2 TG2 false s /\ stream_ok2 FG2 true s /\ map_ok2 s.

(* map() of a node that streams *)
Lemma get_map_ok2 s : cls2 s -> stream_ok2 FG2 true s ->
  forall st c, Sound2 st U -> good_entry2 s c (fst (Tree.get_map st s c)) /\ Sound2 (snd (Tree.get_map st s c)) U.
Proof.
  intros Hcl HF st c Hs. destruct (HF st c Hs) as [A B]. unfold Tree.get_map.
  destruct (stream st s (mkOpts c true)) as [[evs gi] st']. cbn [fst snd] in *.
  split; [|exact B]. apply (entry_of_final2 c s (evs, gi) Hcl A).
Qed.

(* subtrees without caches *)
Lemma nocache_streams2 s : cls2 s -> has_cached s = false -> stream_ok2 TG2 false s /\ stream_ok2 FG2 true s.
Proof.
  intros Hcl Hn. split; intros st c Hs.
  - destruct (nocache_TG2 c s st Hcl Hn) as [A B]. rewrite B. split; assumption.
  - destruct (nocache_FG2 c s st Hcl Hn) as [A B]. rewrite B. split; assumption.
Qed.

(* the children of a ConcatSource, the store threaded through *)
Lemma kids_thread2 (P : bool -> src -> list event * (N * N) -> Prop) (f c : bool) : forall cs,
  (forall ch, In ch cs -> stream_ok2 P f ch) ->
  forall st, Sound2 st U ->
  exists trs : list kid,
    map fst trs = fst (kid_streams st cs (mkOpts c f)) /\ Forall2 (child_of (P c)) cs trs /\
    Sound2 (snd (kid_streams st cs (mkOpts c f))) U.
Proof.
  induction cs as [|ch cs IH]; intros Hall st Hs.
  - exists []. cbn [kid_streams map fst snd]. split; [reflexivity|]. split; [constructor|exact Hs].
  - cbn [kid_streams]. destruct (Hall ch (or_introl eq_refl) st c Hs) as [A B].
    destruct (stream st ch (mkOpts c f)) as [[evs gi] st1]. cbn [fst snd] in A, B.
    destruct (IH (fun x Hx => Hall x (or_intror Hx)) st1 B) as [trs [E [F S]]].
    destruct (kid_streams st1 cs (mkOpts c f)) as [ks st2]. cbn [fst snd] in *.
    exists ((evs, gi, source ch) :: trs). cbn [map fst]. rewrite E. split; [reflexivity|].
    split; [|exact S]. constructor; [|exact F]. split; [reflexivity|exact A].
Qed.

Lemma concat_stream_ok2 (P : bool -> src -> list event * (N * N) -> Prop) (f : bool) cs :
  (forall c ch r, P c ch r -> P c (SConcat [ch]) r) ->
  (forall c (trs : list kid), length cs <> 1%nat -> Forall2 (child_of (P c)) cs trs ->
     P c (SConcat cs) (snd (concat_fold f (map fst trs) (concat_init, [])),
                       concat_result (fst (concat_fold f (map fst trs) (concat_init, []))))) ->
  (forall ch, In ch cs -> stream_ok2 P f ch) -> stream_ok2 P f (SConcat cs).
Proof.
  intros Hsingle Hfold Hall st c Hs.
  destruct (Nat.eq_dec (length cs) 1) as [E|E].
  - destruct cs as [|ch [|c2 r]]; try discriminate.
    change (stream st (SConcat [ch]) (mkOpts c f)) with (stream st ch (mkOpts c f)).
    destruct (Hall ch (or_introl eq_refl) st c Hs) as [A B]. split; [apply Hsingle; exact A|exact B].
  - rewrite (stream_concat_fold st cs _ E). cbn [fst snd final_source].
    destruct (kids_thread2 P f c cs Hall st Hs) as [trs [E1 [F S]]]. rewrite <- E1.
    split; [apply Hfold; assumption|exact S].
Qed.

Theorem warm_all2 : forall s, PW2 s.
Proof.
  apply (src_ind' PW2); unfold PW2.
  - (* SRaw *) intros b v _ Hcl. destruct (nocache_streams2 _ Hcl eq_refl) as [A B].
    split; [exact A|]. split; [exact B|]. intros st c Hs. cbn [map_of fst snd].
    split; [apply raw_entry2; reflexivity|exact Hs].
  - intros v _ Hcl. destruct (nocache_streams2 _ Hcl eq_refl) as [A B].
    split; [exact A|]. split; [exact B|]. intros st c Hs. cbn [map_of fst snd].
    split; [apply raw_entry2; reflexivity|exact Hs].
  - intros v _ Hcl. destruct (nocache_streams2 _ Hcl eq_refl) as [A B].
    split; [exact A|]. split; [exact B|]. intros st c Hs. cbn [map_of fst snd].
    split; [apply raw_entry2; reflexivity|exact Hs].
  - (* SOriginal *) intros v n _ Hcl. destruct (nocache_streams2 _ Hcl eq_refl) as [A B].
    split; [exact A|]. split; [exact B|]. intros st c Hs.
    change (map_of st (SOriginal v n) c) with (Tree.get_map st (SOriginal v n) c). apply get_map_ok2; assumption.
  - (* SMapped *) intros v n m og i r _ Hcl. destruct (nocache_streams2 _ Hcl eq_refl) as [A B].
    split; [exact A|]. split; [exact B|]. intros st c Hs.
    destruct i as [im|].
    + (* a combined leaf builds its map from its text-less stream *)
      change (map_of st (SMapped v n m og (Some im) r) c) with (Tree.get_map st (SMapped v n m og (Some im) r) c).
      apply get_map_ok2; assumption.
    + cbn [map_of fst snd]. split; [apply mapped_entry2; exact Hcl|exact Hs].
  - (* SConcat *) intros cs IH Hin Hcl. rewrite Forall_forall in IH.
    assert (Hkids : forall ch, In ch cs -> stream_ok2 TG2 false ch /\ stream_ok2 FG2 true ch /\ map_ok2 ch).
    { intros ch Hch. apply (IH ch Hch).
      - intros x Hx. apply Hin. apply (nodes_child cs ch Hch). exact Hx.
      - apply (cls2_concat cs ch Hcl Hch). }
    assert (A : stream_ok2 TG2 false (SConcat cs)).
    { apply concat_stream_ok2.
      - intros c ch r. apply TG_single2.
      - intros c trs Hl Hk. apply concat_TG2; assumption.
      - intros ch Hch. apply (Hkids ch Hch). }
    assert (B : stream_ok2 FG2 true (SConcat cs)).
    { apply concat_stream_ok2.
      - intros c ch r. apply FG_single2.
      - intros c trs Hl Hk. apply concat_FG2; assumption.
      - intros ch Hch. apply (Hkids ch Hch). }
    split; [exact A|]. split; [exact B|]. intros st c Hs.
    change (map_of st (SConcat cs) c) with (Tree.get_map st (SConcat cs) c). apply get_map_ok2; assumption.
  - (* SReplace *) intros i rs IH Hin Hcl. destruct (cls2_replace i rs Hcl) as [Hci Hnc].
    destruct rs as [|r rs].
    + (* no replacements: delegate *)
      destruct (IH Hin Hci) as [IA [_ IM]].
      assert (A : forall f, stream_ok2 TG2 f (SReplace i [])).
      { intros f st c Hs. cbn [stream columns]. destruct (IA st c Hs) as [T S].
        destruct (stream st i (mkOpts c false)) as [[ievs gi] st']. cbn [fst snd] in *.
        split; [|exact S]. apply (replace_nil_TG2 c i (ievs, gi) Hcl T). }
      split; [apply A|]. split.
      * intros st c Hs. destruct (A true st c Hs) as [T S]. split; [apply FG_of_TG2; exact T|exact S].
      * intros st c Hs. change (map_of st (SReplace i []) c) with (map_of st i c).
        destruct (IM st c Hs) as [G S]. split; [apply good_entry_replace_nil2; assumption|exact S].
    + (* replacements: no cache below *)
      assert (Hn : has_cached (SReplace i (r :: rs)) = false) by (apply Hnc; discriminate).
      destruct (nocache_streams2 _ Hcl Hn) as [A B].
      split; [exact A|]. split; [exact B|]. intros st c Hs.
      change (map_of st (SReplace i (r :: rs)) c) with (Tree.get_map st (SReplace i (r :: rs)) c).
      apply get_map_ok2; assumption.
  - (* SCached *) intros id i IH Hin Hcl. pose proof (cls2_cached id i Hcl) as Hci.
    assert (Hnode : In (id, i) (nodes U)) by (apply Hin; left; reflexivity).
    assert (Hin' : incl (nodes i) (nodes U)) by (intros x Hx; apply Hin; right; exact Hx).
    destruct (IH Hin' Hci) as [IA [IB IM]].
    split; [|split].
    + (* text-carrying *)
      intros st c Hs. cbn [stream]. rewrite TG_cached2.
      destruct (cache_get (store_get st id) (mkOpts c false)) as [v|] eqn:G.
      * pose proof (replay_TG2 c i v Hci (Hs id i Hnode c false v G)) as T.
        destruct v as [m|]; cbn [replay final_source fst snd] in *; split; assumption.
      * destruct (IA st c Hs) as [T S].
        destruct (stream st i (mkOpts c false)) as [[evs gi] st']. cbn [fst snd columns] in *.
        split; [exact T|]. apply (sound2_put U st' id i c false _ HU Hnode S).
        apply (entry_of_text2 c i (evs, gi) Hci T).
    + (* text-less *)
      intros st c Hs. cbn [stream]. rewrite FG_cached2.
      destruct (cache_get (store_get st id) (mkOpts c true)) as [v|] eqn:G.
      * pose proof (replay_FG2 c i v Hci (Hs id i Hnode c true v G)) as T.
        destruct v as [m|]; cbn [replay final_source fst snd] in *; split; assumption.
      * destruct (IB st c Hs) as [T S].
        destruct (stream st i (mkOpts c true)) as [[evs gi] st']. cbn [fst snd columns] in *.
        split; [exact T|]. apply (sound2_put U st' id i c true _ HU Hnode S).
        apply (entry_of_final2 c i (evs, gi) Hci T).
    + (* map() *)
      intros st c Hs. cbn [map_of]. rewrite good_entry_cached2.
      destruct (cache_get (store_get st id) (mkOpts c false)) as [v|] eqn:G.
      * cbn [fst snd]. split; [apply (Hs id i Hnode c false v G)|exact Hs].
      * destruct (IM st c Hs) as [E S]. destruct (map_of st i c) as [m st']. cbn [fst snd] in *.
        pose proof (sound2_put U st' id i c false m HU Hnode S E) as S'.
        split; [|exact S'].
        destruct (cache_get (store_get (store_put st' id (mkOpts c false) m) id) (mkOpts c false)) as [m'|] eqn:G';
          [apply (S' id i Hnode c false m' G')|exact E].
Qed.

End Warm2.

(* ------------------------------------------------------------------ *)
(* W2                                                                   *)
(* ------------------------------------------------------------------ *)
Section W22.
Variable s : src.
Hypothesis Hd : ids_distinct s.
Hypothesis Hk2 : k2_shape s = false.
Hypothesis Hsh : rshape2 (uncache s) = true.
Hypothesis HA : treeA s = true.
Hypothesis Hsm : rsmall (uncache s) = true.
Hypothesis Ht : tiny2 (uncache s) = true.

Lemma W2_cls2 : cls2 s.
Proof. repeat split; assumption. Qed.

Let W := warm_all2 s Hd s (incl_refl _) W2_cls2.

(* the reference: the text-carrying stream of the freshly built cache-free tree *)
Definition reference2 (c : bool) : list attr :=
  attr_of_stream (fst (fst (stream [] (uncache s) (mkOpts c false)))) c.

(* text-carrying stream *)
Theorem warm_text2 (st : store) (c : bool) : Sound2 st s ->
  let '(evs, gi, st') := stream st s (mkOpts c false) in
  reassembles evs (source s) = true /\ gi = advance 1 0 (source s) /\
  attr_of_stream evs c = reference2 c /\ Sound2 st' s.
Proof.
  intros Hs. destruct W as [A _]. destruct (A st c Hs) as [T S].
  destruct (stream st s (mkOpts c false)) as [[evs gi] st']. cbn [fst snd] in *.
  destruct T as [_ [Hr [_ [_ [_ [Hi [Hattr _]]]]]]].
  split; [apply reassembles_iff; exact Hr|]. split; [exact Hi|]. split; [exact Hattr|exact S].
Qed.

(* text-less stream *)
Theorem warm_final2 (st : store) (c : bool) : Sound2 st s ->
  let '(evs, gi, st') := stream st s (mkOpts c true) in
  gi = advance 1 0 (source s) /\
  attr_of_final_events evs (source s) c = reference2 c /\ Sound2 st' s.
Proof.
  intros Hs. destruct W as [_ [B _]]. destruct (B st c Hs) as [T S].
  destruct (stream st s (mkOpts c true)) as [[evs gi] st']. cbn [fst snd] in *.
  destruct T as [[_ [_ [Hi _]]] [_ [Hattr _]]]. unfold tr_info, tr_text in Hi. cbn [fst snd] in Hi.
  split; [exact Hi|]. split; [exact Hattr|exact S].
Qed.

(* map(): for every root (a root CachedSource answers from its cache, a ReplaceSource without
   replacements delegates, a SourceMapSource without inner map answers its own map, one with an inner map builds
   it from its text-less stream, raw leaves None) *)
Theorem warm_map2 (st : store) (c : bool) : Sound2 st s ->
  attr_of_map (fst (map_of st s c)) (source s) c = reference2 c /\ Sound2 (snd (map_of st s c)) s.
Proof.
  intros Hs. destruct W as [_ [_ M]]. destruct (M st c Hs) as [[E _] S]. split; [exact E|exact S].
Qed.

(* the boolean forms of the checker *)
Corollary warm_text_eqb2 (st : store) (c : bool) : Sound2 st s ->
  list_eqb_attr (if c then attr_eqb else attr_eqb_fl)
    (attr_of_stream (fst (fst (stream st s (mkOpts c false)))) c) (reference2 c) = true.
Proof.
  intros Hs. pose proof (warm_text2 st c Hs) as H.
  destruct (stream st s (mkOpts c false)) as [[evs gi] st']. cbn [fst]. destruct H as [_ [_ [H _]]].
  apply attr_list_ok. exact H.
Qed.

Corollary warm_final_eqb2 (st : store) (c : bool) : Sound2 st s ->
  list_eqb_attr (if c then attr_eqb else attr_eqb_fl)
    (attr_of_final_events (fst (fst (stream st s (mkOpts c true)))) (source s) c) (reference2 c) = true.
Proof.
  intros Hs. pose proof (warm_final2 st c Hs) as H.
  destruct (stream st s (mkOpts c true)) as [[evs gi] st']. cbn [fst]. destruct H as [_ [H _]].
  apply attr_list_ok. exact H.
Qed.

Corollary warm_map_eqb2 (st : store) (c : bool) : Sound2 st s ->
  list_eqb_attr (if c then attr_eqb else attr_eqb_fl)
    (attr_of_map (fst (map_of st s c)) (source s) c) (reference2 c) = true.
Proof. intros Hs. apply attr_list_ok. apply (warm_map2 st c Hs). Qed.

End W22.

Print Assumptions warm_all2.
Print Assumptions warm_text2.
Print Assumptions warm_final2.
Print Assumptions warm_map2.
