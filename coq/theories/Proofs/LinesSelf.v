(* C03, columns = false, part 1 (L1): ReplaceSource and the "self" lemma.
   A ReplaceSource streams its inner source with final_source = false whatever the caller
   asked for (`replace_final_same`, FinalReplace.v, holds for both column settings), so the
   stream that map() consumes is a text-carrying stream.  Looking the segments of such a
   stream up by LINE (first mapped segment of the line - what map() does with columns = false)
   attributes every byte as the stream itself does (first mapped non-empty chunk piece of the
   output line), provided the stream reassembles, is well positioned, no chunk has a line feed
   before its last byte, and no mapped chunk is empty (`ne_chunk`; an empty mapped chunk is seen
   by the lookup and ignored by the covering, see `self_lines_needs_ne`).
   `self_lines_dense` is `self_lines` (CacheReplay.v, whole-line chunks without announcements)
   for arbitrary chunk pieces and event lists with (dense) announcements. *)
From RS Require Import Base.Prelude Base.Text Rope.RopeModel Codec.Vlq Codec.CodecSpec
  Checkers.ChkCodec Stream.Types Stream.Leaves Stream.Concat Stream.Replace Stream.Combined Stream.Tree
  Sem.Attr Checkers.ChkTree
  Proofs.StreamText Proofs.StreamLeaves Proofs.StreamMap Proofs.StreamConcat Proofs.StreamTree
  Proofs.RStreamText Proofs.RStreamPos Proofs.RStreamTree
  Proofs.AttrCodec Proofs.AttrSms Proofs.AttrLeaves Proofs.LawConcatAttr Proofs.LawWrappers
  Proofs.CacheReplay Proofs.FinalDense Proofs.FinalReplace Proofs.FinalConcat Proofs.LinesBase.
Require Import Lia List.

Local Open Scope N_scope.

Notation sfm := seg_first_mapped.

(* a mapped text-carrying chunk carries bytes *)
Definition ne_chunk (e : event) : Prop :=
  match e with EChunk (Some []) m => m_orig m = None | _ => True end.

Lemma adj_adj a b s : adj a (adj b s) = adj (orA a b) s.
Proof. destruct s as [[|x i] o]; unfold adj; cbn [fst snd]; rewrite orA_assoc; reflexivity. Qed.

Lemma ffl_chunk F x l : AttrSms.nl_last x -> ffl F x l = if ends_with_nl x then [F l] else [].
Proof.
  revert l. induction x as [|b x IH]; intros l H; [reflexivity|]. destruct H as [H1 H2]. cbn [ffl].
  destruct (b =? NL) eqn:E.
  - apply N.eqb_eq in E. rewrite (H1 E). subst b. reflexivity.
  - apply N.eqb_neq in E. rewrite (nl_last_cons_ends b x (conj H1 H2) E). apply IH. exact H2.
Qed.

Lemma fsum_chunk F x t l : AttrSms.nl_last x ->
  fsum F (x ++ t) l =
  if ends_with_nl x then (F l :: fst (fsum F t (l + 1)), snd (fsum F t (l + 1))) else fsum F t l.
Proof.
  intros H. unfold fsum. rewrite ffl_app, nlc_app, (ffl_chunk F x l H), (nl_last_nlc x H).
  destruct (ends_with_nl x); cbn [fst snd app].
  - f_equal. f_equal. lia.
  - rewrite !N.add_0_r. reflexivity.
Qed.

(* ------------------------------------------------------------------ *)
(* the summaries of a well-positioned chunk list agree                  *)
(* ------------------------------------------------------------------ *)
Definition rattr (S Nn : list text) (m : mapping) : attr :=
  match m_orig m with
  | Some o => Some (mkLoc (match nth_opt S (o_src o) with Some s => s | None => BAD end)
                          (o_line o) (o_col o)
                          (match o_name o with
                           | Some k => Some (match nth_opt Nn k with Some y => y | None => BAD end)
                           | None => None end))
  | None => None
  end.

Lemma rsegs_chunk S Nn t m evs :
  rsegs_of_events (EChunk t m :: evs) S Nn = (t, (g_line m, g_col m, rattr S Nn m)) :: rsegs_of_events evs S Nn.
Proof. reflexivity. Qed.

Lemma app_cons_snoc {A} (l : list A) x r : l ++ x :: r = (l ++ [x]) ++ r.
Proof. rewrite <- app_assoc. reflexivity. Qed.

Section Self.
Variables (S Nn : list text).

Let rs (evs : list event) := rsegs_of_events evs S Nn.

Lemma rs_lines evs : map fst (map snd (rs evs)) = map mpos (chunk_mappings evs).
Proof. apply (fsegs_pos evs S Nn). Qed.

Lemma sfm_later segs l :
  Forall (fun p : N * N => l < fst p) (map fst segs) -> sfm segs l = None.
Proof.
  intros H. apply sfm_none. rewrite Forall_map in H. eapply Forall_impl; [|exact H]. cbn beta.
  intros s Hs _. lia.
Qed.

Lemma self_sum : forall evs p pre,
  only_chunks evs = true -> WP evs p -> NLL evs -> Forall ne_chunk evs ->
  (forall L, fst p < L -> sfm pre L = None) ->
  fsum (sfm (pre ++ map snd (rs evs))) (ttext (ta (rs evs))) (fst p) =
  adj (sfm pre (fst p)) (tfl (ta (rs evs)) None).
Proof.
  induction evs as [|e evs IH]; intros p pre Ho Hw Hn Hne Hpre.
  - unfold rs, fsum. cbn [rsegs_of_events map ta ttext ffl nlc tfl adj fst snd].
    rewrite app_nil_r, N.add_0_r, orA_none_r. reflexivity.
  - destruct e as [tx m|i n c|i n]; try discriminate.
    cbn [only_chunks forallb is_chunk andb] in Ho.
    apply WP_chunk_inv in Hw. destruct Hw as [x [Ex [Hl [Hc Hw]]]]. subst tx.
    apply NLL_cons_inv in Hn. destruct Hn as [Hx Hn].
    inversion Hne as [|? ? Hne1 Hne2]; subst.
    pose proof (nl_last_bridge' x Hx) as Hx'.
    unfold rs in *. rewrite (rsegs_chunk S Nn (Some x) m evs).
    set (a := rattr S Nn m).
    unfold ta. cbn [map fst snd]. fold (ta (rsegs_of_events evs S Nn)).
    cbn [ttext tfl]. cbn [orA].
    rewrite (app_cons_snoc pre (g_line m, g_col m, a) (map snd (rsegs_of_events evs S Nn))).
    set (pre' := pre ++ [_]).
    assert (Hp' : forall L, sfm pre' L = orA (sfm pre L) (if g_line m =? L then norm a else None)).
    { intros L. unfold pre'. rewrite sfm_app, sfm_cons. cbn [fst snd seg_first_mapped].
      destruct (g_line m =? L); [rewrite orA_none_r|]; reflexivity. }
    rewrite (fsum_chunk _ x _ (fst p) Hx').
    unfold adv in Hw. rewrite (nl_last_advance x (fst p) (snd p) Hx) in Hw.
    destruct (ends_with_nl x) eqn:E.
    + (* the chunk ends its line *)
      assert (Hnn : is_nil x = false) by (destruct x; [discriminate|reflexivity]).
      unfold piece_attr. rewrite Hnn.
      pose proof (IH (fst p + 1, 0) pre' Ho Hw Hn Hne2) as X. cbn [fst snd] in X.
      rewrite X.
      2:{ intros L HL. rewrite Hp', Hpre by lia. replace (g_line m =? L) with false; [reflexivity|].
          symmetry. apply N.eqb_neq. lia. }
      rewrite Hp', Hpre by lia. replace (g_line m =? fst p + 1) with false by (symmetry; apply N.eqb_neq; lia).
      cbn [orA]. rewrite adj_none. unfold adj. cbn [fst snd]. f_equal. f_equal.
      rewrite sfm_app, Hp', Hl, N.eqb_refl.
      change (map snd (rsegs_of_events evs S Nn)) with (fsegs evs S Nn).
      rewrite (sfm_later (fsegs evs S Nn) (fst p)); [apply orA_none_r|].
      rewrite (fsegs_pos evs S Nn). rewrite Forall_map. eapply Forall_impl; [|apply (wp_ple _ _ Hw)].
      cbn beta. intros r Hr. unfold ple, mpos in *. cbn [fst snd] in *. lia.
    + (* the line goes on *)
      pose proof (IH (fst p, snd p + len x) pre' Ho Hw Hn Hne2) as X. cbn [fst snd] in X.
      rewrite X.
      2:{ intros L HL. rewrite Hp', Hpre by lia. replace (g_line m =? L) with false; [reflexivity|].
          symmetry. apply N.eqb_neq. lia. }
      rewrite Hp', Hl, N.eqb_refl, (tfl_adj _ (piece_attr x a)), adj_adj. f_equal. f_equal.
      unfold piece_attr. destruct x as [|b x]; [|reflexivity]. cbn [is_nil].
      cbn [ne_chunk] in Hne1. unfold a, rattr. rewrite Hne1. reflexivity.
Qed.

End Self.

(* ------------------------------------------------------------------ *)
(* L1: C02 => looking up by line = covering, columns = false             *)
(* ------------------------------------------------------------------ *)
Lemma ne_chunk_filter evs : Forall ne_chunk evs -> Forall ne_chunk (chunks_only evs).
Proof.
  intros H. apply Forall_forall. intros e He. unfold chunks_only in He. apply filter_In in He.
  rewrite Forall_forall in H. apply H. apply He.
Qed.

Lemma NLL_chunks_only evs : NLL evs -> NLL (chunks_only evs).
Proof. unfold NLL. rewrite chunks_only_texts. intros H. exact H. Qed.

Theorem self_lines_dense (evs : list event) (t : text) :
  dense evs 0 0 = true -> Reass evs t -> WP evs (1, 0) -> NLL evs -> Forall ne_chunk evs ->
  attr_of_final_events evs t false = attr_of_stream evs false.
Proof.
  intros Hd Hr Hw Hn Hne. pose proof (dense_ann_ok evs [] [] Hd) as Ha.
  rewrite final_lines_summary, (stream_lines_summary evs t Hr Hn).
  pose proof (tal_text evs t Hr) as Ht. unfold tal in *.
  rewrite (rsegs_final_tables evs [] [] Ha) in *.
  set (S := fst (tabs evs [] [])) in *. set (Nn := snd (tabs evs [] [])) in *.
  assert (Hw' : WP (chunks_only evs) (1, 0)) by (unfold WP; rewrite chunks_only_chunks_of; exact Hw).
  pose proof (self_sum S Nn (chunks_only evs) (1, 0) [] (chunks_only_only evs) Hw'
                (NLL_chunks_only evs Hn) (ne_chunk_filter evs Hne) (fun L _ => eq_refl)) as X.
  cbn [app fst seg_first_mapped] in X. rewrite adj_none, Ht in X. unfold fsum in X.
  rewrite <- X. reflexivity.
Qed.

(* the boolean form *)
Definition chunks_ne (evs : list event) : bool :=
  forallb (fun e => match e with
                    | EChunk (Some []) m => match m_orig m with None => true | Some _ => false end
                    | _ => true end) evs.

Lemma chunks_ne_iff evs : chunks_ne evs = true <-> Forall ne_chunk evs.
Proof.
  unfold chunks_ne. rewrite forallb_forall, Forall_forall. split; intros H e He; specialize (H e He).
  - destruct e as [[[|b x]|] m|i n c|i n]; cbn [ne_chunk]; try exact I. destruct (m_orig m); [discriminate|reflexivity].
  - destruct e as [[[|b x]|] m|i n c|i n]; try reflexivity. cbn [ne_chunk] in H. rewrite H. reflexivity.
Qed.

Corollary self_lines_dense_b (evs : list event) (t : text) :
  dense evs 0 0 = true -> reassembles evs t = true -> well_positioned (chunks_of evs) 1 0 = true ->
  chunks_nl_last evs = true -> chunks_ne evs = true ->
  attr_of_final_events evs t false = attr_of_stream evs false.
Proof.
  intros Hd Hr Hw Hn Hne. apply self_lines_dense; [exact Hd|apply reassembles_iff; exact Hr|exact Hw| |].
  - apply chunks_nl_last_iff. exact Hn.
  - apply chunks_ne_iff. exact Hne.
Qed.

Corollary self_lines_dense_fl (evs : list event) (t : text) :
  dense evs 0 0 = true -> Reass evs t -> WP evs (1, 0) -> NLL evs -> Forall ne_chunk evs ->
  list_eqb_attr attr_eqb_fl (attr_of_final_events evs t false) (attr_of_stream evs false) = true.
Proof. intros. apply attr_lists_eqb_fl. apply self_lines_dense; assumption. Qed.

(* the hypothesis `ne_chunk` cannot be dropped: an empty mapped chunk at the start of a line is
   the line's first mapped segment for the lookup, and no piece at all for the covering *)
Example self_lines_needs_ne :
  let f := [102] in
  let evs := [ESource 0 f None; EChunk (Some []) (mkMapping 1 0 (Some (mkOrig 0 7 0 None)));
              EChunk (Some [120]) (unmapped 1 0)] in
  (dense evs 0 0, reassembles evs [120], well_positioned (chunks_of evs) 1 0, chunks_nl_last evs, chunks_ne evs)
  = (true, true, true, true, false) /\
  attr_of_final_events evs [120] false = [Some (mkLoc f 7 0 None)] /\
  attr_of_stream evs false = [None].
Proof. vm_compute. repeat split; reflexivity. Qed.

(* the same events, end info and store in both modes (by computation) *)
Theorem replace_final_same_lines (st : store) (inner : src) (rs : list repl) :
  stream st (SReplace inner rs) (mkOpts false true) = stream st (SReplace inner rs) (mkOpts false false).
Proof. reflexivity. Qed.

Print Assumptions self_lines_dense.
Print Assumptions replace_final_same_lines.
