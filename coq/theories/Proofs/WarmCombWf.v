(* C11 for trees with BOTH combined-map leaves and CachedSource nodes in ANY sound warm state
   (class `cls2` of WarmCombDefs.v, every cache id once).  WfMoreWarm.v for `cls2`.
   The store invariant `Sound2` of WarmCombDefs.v is extended by `Wf2` (WfMoreWarm.v, unchanged):
   every entry a cache holds under a text-less key (c, true), and every entry under a key
   (c, false) of a node whose wrapped source is outside the class K1, is a `map_wf` map of the
   node's text.  [A combined leaf - a SourceMapSource WITH an inner map - is outside K1: its map()
   is built from its text-less stream.]
   `SoundW = Sound2 /\ Wf2` holds for the empty store and is preserved by stream_chunks (all four
   option sets), map(), every observer history (`run_hops`) and every warm-up history on inner
   nodes (`run_warm`).  Over a `SoundW` store
     warm_stream_wfW  all four streams are `stream_wf` (needs `Sound2` only);
     warm_strictW     the text-less stream with columns is strictly increasing and strictly
                      before the end; no text-carrying chunk is empty;
     warm_map_wfW     map() outside K1 is `map_wf`;
     chk_C11_warm2    the extracted checker accepts the model's observations after ANY warm-up
                      history (outside K1; inside K1 the only other verdict is 51). *)
From RS Require Import Base.Prelude Base.Text Rope.RopeModel Codec.Vlq Codec.CodecSpec
  Checkers.ChkCodec Stream.Types Stream.Leaves Stream.Concat Stream.Replace Stream.Combined Stream.Tree
  Api.ApiTree Sem.Attr Sem.HashEq Api.ApiHist Checkers.ChkTree Checkers.ChkHist
  Proofs.CodecKept Proofs.CodecMain Proofs.StreamText Proofs.StreamLeaves Proofs.StreamMap Proofs.StreamConcat Proofs.StreamTree
  Proofs.WfStream Proofs.WfFinal Proofs.WfMap Proofs.RStreamText Proofs.RStreamPos Proofs.RStreamTree
  Proofs.AttrCodec Proofs.AttrSms Proofs.AttrLeaves Proofs.LawConcatAttr Proofs.LawWrappers
  Proofs.CacheStore Proofs.CacheReplay Proofs.FinalDense Proofs.FinalReplace Proofs.FinalConcat Proofs.FinalTree Proofs.FinalCache
  Proofs.ReplAttrStream Proofs.ReplAttrOrigin Proofs.ReplAttrSms Proofs.ReplAttrTree
  Proofs.LinesBase Proofs.LinesSelf Proofs.LinesConcat Proofs.LinesTree
  Proofs.ColdCache Proofs.ColdCacheTree Proofs.BoundsPos Proofs.BoundsOrig Proofs.BoundsIdx Proofs.BoundsAll
  Proofs.CombLeafTree Proofs.CombLeafTreeCols Proofs.CombLeafTreeLines
  Proofs.WarmTreeDefs Proofs.WarmTreeReplay Proofs.WarmTreeCodec Proofs.WarmTreeNodes Proofs.WarmTreeMain Proofs.WarmTreeHist
  Proofs.WfAllStrict Proofs.WfAllMap Proofs.WfAllChk Proofs.WfMoreComb Proofs.WfMoreWarm
  Proofs.WarmCombBounds Proofs.WarmCombDefs Proofs.WarmCombReplay Proofs.WarmCombCodec Proofs.WarmCombNodes
  Proofs.WarmCombMain Proofs.WarmCombHist.
Require Import Lia List.

Local Open Scope N_scope.

(* ------------------------------------------------------------------ *)
(* what the induction carries on top of TG2 / FG2                       *)
(* ------------------------------------------------------------------ *)
(* a text-carrying stream: no empty chunk, in both column settings *)
Definition TX2 (c : bool) (s : src) (r : list event * (N * N)) : Prop :=
  TG2 c s r /\ no_empty_chunks (fst r) = true.

(* a text-less stream: with columns, strictly increasing and strictly before the end info *)
Definition FX2 (c : bool) (s : src) (r : list event * (N * N)) : Prop :=
  FG2 c s r /\ (c = true -> strict_ok (fst r) (snd r)).

Lemma TX_TG2 c s r : TX2 c s r -> TG2 c s r.
Proof. intros [H _]. exact H. Qed.

Lemma FX_FG2 c s r : FX2 c s r -> FG2 c s r.
Proof. intros [H _]. exact H. Qed.

Lemma FX_of_TX2 c s r : TX2 c s r -> FX2 c s r.
Proof.
  intros [HT Hne]. split; [apply FG_of_TG2; exact HT|]. intros _.
  destruct HT as [_ [Hr [Hw [_ [_ [Hi _]]]]]].
  apply (text_stream_strict _ (source s)); assumption.
Qed.

(* ------------------------------------------------------------------ *)
(* the map built from such a stream passes map_wf                       *)
(* ------------------------------------------------------------------ *)
Lemma FX_segs_good2 c s r : FX2 c s r -> segs_good (source s) c (chunk_mappings (fst r)).
Proof.
  intros [[[K1 [K2 [K3 K4]]] [KL _]] Hst]. unfold tr_events, tr_info, tr_text in *. cbn [fst snd] in *.
  pose proof (ev_pos_cm _ _ K2) as P. destruct c; cbn [segs_good].
  - destruct (Hst eq_refl) as [A B]. split; [exact A|].
    apply Forall_forall. intros m Hm. rewrite Forall_forall in B, P.
    pose proof (P m Hm) as Pm. pose proof (is_position_ple _ _ _ Pm) as [L _].
    split; [exact L|]. split; [exact Pm|]. apply plt_pos_ltb. rewrite <- K3. apply (B m Hm).
  - destruct (KL eq_refl) as [D [E Sb]]. unfold tr_events, tr_info, tr_text in *. cbn [fst snd] in *.
    rewrite (fsegs_dense _ D), Forall_map in Sb.
    split; [exact K4|]. split.
    + eapply Forall_impl; [|exact P]. cbn beta. intros m Hm. apply is_position_ple in Hm. apply Hm.
    + apply Forall_forall. intros m Hm Hmp. rewrite Forall_forall in P, Sb.
      specialize (Sb m Hm). unfold seg_before in Sb. cbn [rsF fst snd] in Sb.
      assert (Ha : amap (optF (kfile (fst r)) (kname (fst r)) (m_orig m)) = true).
      { unfold is_mapped in Hmp. destruct (m_orig m); [reflexivity|discriminate]. }
      destruct (Sb Ha) as [S1 S2]. rewrite E in S2. split; [exact S1|]. split; [apply (P m Hm)|].
      apply plt_pos_ltb. exact S2.
Qed.

Lemma FG_domain2 c s r : cls2 s -> FG2 c s r -> enc_domain (chunk_mappings (fst r)) = true.
Proof.
  intros Hcl [[K1 [K2 [K3 K4]]] [_ [_ Hb]]]. unfold tr_events, tr_info, tr_text in *. cbn [fst snd] in *.
  apply (entry_domain2 s (fst r) Hcl K1 K4 (ev_pos_cm _ _ K2) Hb).
Qed.

Theorem FX_map_wf2 c s r : cls2 s -> FX2 c s r -> map_wf (source s) (map_of_events c (fst r)) = true.
Proof.
  intros Hcl HX. pose proof (FX_segs_good2 c s r HX) as Hg.
  pose proof (FG_domain2 c s r Hcl (FX_FG2 _ _ _ HX)) as Hdom.
  destruct HX as [[[K1 _] _] _]. unfold tr_events in *. cbn [fst snd] in *.
  apply events_map_wf.
  - apply dense_stream_wf. exact K1.
  - exact Hdom.
  - exact Hg.
Qed.

Theorem TX_map_wf2 c s r : cls2 s -> TX2 c s r -> map_wf (source s) (map_of_events c (fst r)) = true.
Proof. intros Hcl HX. apply FX_map_wf2; [exact Hcl|apply FX_of_TX2; exact HX]. Qed.

(* ------------------------------------------------------------------ *)
(* the extended store invariant                                         *)
(* ------------------------------------------------------------------ *)
Definition SoundW (st : store) (U : src) : Prop := WarmCombDefs.Sound2 st U /\ Wf2 st U.

Theorem soundW_empty (U : src) : SoundW [] U.
Proof. split; [apply WarmCombDefs.sound2_empty|]. intros id inner _ c f v H. discriminate. Qed.

Lemma soundW_put (U : src) st id inner c f v : ids_distinct U -> In (id, inner) (nodes U) ->
  SoundW st U -> good_entry2 inner c v -> entry_wf inner f v -> SoundW (store_put st id (mkOpts c f) v) U.
Proof.
  intros Hd Hin [A B] G W. split; [apply (WarmCombDefs.sound2_put U st id inner c f v Hd Hin A G)|].
  apply (wf2_put U st id inner c f v Hd Hin B W).
Qed.

(* ------------------------------------------------------------------ *)
(* the induction                                                        *)
(* ------------------------------------------------------------------ *)
Section WarmW.
Variable U : src.
Hypothesis HU : ids_distinct U.

Definition stream_okW (P : bool -> src -> list event * (N * N) -> Prop) (f : bool) (s : src) : Prop :=
  forall st c, SoundW st U ->
    P c s (fst (stream st s (mkOpts c f))) /\ SoundW (snd (stream st s (mkOpts c f))) U.

Definition map_okW (s : src) : Prop :=
  forall st c, SoundW st U ->
    good_entry2 s c (fst (map_of st s c)) /\
    (k1_shape s = false -> map_wf (source s) (fst (map_of st s c)) = true) /\
    SoundW (snd (map_of st s c)) U.

Definition PWW (s : src) : Prop :=
  incl (nodes s) (nodes U) -> cls2 s -> stream_okW TX2 false s /\ stream_okW FX2 true s /\ map_okW s.

(* map() of a node that streams *)
Lemma get_map_okW s : cls2 s -> stream_okW FX2 true s ->
  forall st c, SoundW st U ->
    good_entry2 s c (fst (Tree.get_map st s c)) /\
    (k1_shape s = false -> map_wf (source s) (fst (Tree.get_map st s c)) = true) /\
    SoundW (snd (Tree.get_map st s c)) U.
Proof.
  intros Hcl HF st c Hs. destruct (HF st c Hs) as [A B]. unfold Tree.get_map.
  destruct (stream st s (mkOpts c true)) as [[evs gi] st']. cbn [fst snd] in *.
  split; [apply (entry_of_final2 c s (evs, gi) Hcl (FX_FG2 _ _ _ A))|]. split; [|exact B].
  intros _. apply (FX_map_wf2 c s (evs, gi) Hcl A).
Qed.

(* subtrees without caches *)
Lemma nocache_streamsW s : cls2 s -> has_cached s = false -> stream_okW TX2 false s /\ stream_okW FX2 true s.
Proof.
  intros Hcl Hn. destruct (cls2_nocache s Hcl Hn) as [Hsh [HA [Hsm _]]]. split; intros st c Hs.
  - destruct (nocache_TG2 c s st Hcl Hn) as [A B]. rewrite B. split; [|exact Hs]. split; [exact A|].
    destruct c.
    + rewrite (nocache_stream s st _ Hn). cbn [fst].
      destruct (tidy2_tree s Hsh HA Hsm []) as [_ T]. exact T.
    + destruct A as [_ [_ [_ [_ [Hne _]]]]]. apply Hne. reflexivity.
  - destruct (nocache_FG2 c s st Hcl Hn) as [A B]. rewrite B. split; [|exact Hs]. split; [exact A|].
    intros ->. rewrite (nocache_stream s st _ Hn). cbn [fst]. apply (sgood2_all s [] Hsh HA Hsm).
Qed.

(* the children of a ConcatSource, the store threaded through *)
Lemma kids_threadW (P : bool -> src -> list event * (N * N) -> Prop) (f c : bool) : forall cs,
  (forall ch, In ch cs -> stream_okW P f ch) ->
  forall st, SoundW st U ->
  exists trs : list kid,
    map fst trs = fst (kid_streams st cs (mkOpts c f)) /\ Forall2 (child_of (P c)) cs trs /\
    SoundW (snd (kid_streams st cs (mkOpts c f))) U.
Proof.
  induction cs as [|ch cs IH]; intros Hall st Hs.
  - exists []. cbn [kid_streams map fst snd]. split; [reflexivity|]. split; [constructor|exact Hs].
  - cbn [kid_streams]. destruct (Hall ch (or_introl eq_refl) st c Hs) as [A B].
    destruct (stream st ch (mkOpts c f)) as [[evs gi] st1]. cbn [fst snd] in A, B.
    destruct (IH (fun x Hx => Hall x (or_intror Hx)) st1 B) as [trs [E [F S]]].
    destruct (kid_streams st1 cs (mkOpts c f)) as [ks st2]. cbn [fst snd] in *.
    exists ((evs, gi, source ch) :: trs). cbn [map fst]. rewrite E. split; [reflexivity|].
    split; [|exact S]. constructor; [|exact F]. split; [reflexivity|exact A].
Qed.

Lemma concat_stream_okW (P : bool -> src -> list event * (N * N) -> Prop) (f : bool) cs :
  (forall c ch r, P c ch r -> P c (SConcat [ch]) r) ->
  (forall c (trs : list kid), length cs <> 1%nat -> Forall2 (child_of (P c)) cs trs ->
     P c (SConcat cs) (snd (concat_fold f (map fst trs) (concat_init, [])),
                       concat_result (fst (concat_fold f (map fst trs) (concat_init, []))))) ->
  (forall ch, In ch cs -> stream_okW P f ch) -> stream_okW P f (SConcat cs).
Proof.
  intros Hsingle Hfold Hall st c Hs.
  destruct (Nat.eq_dec (length cs) 1) as [E|E].
  - destruct cs as [|ch [|c2 r]]; try discriminate.
    change (stream st (SConcat [ch]) (mkOpts c f)) with (stream st ch (mkOpts c f)).
    destruct (Hall ch (or_introl eq_refl) st c Hs) as [A B]. split; [apply Hsingle; exact A|exact B].
  - rewrite (stream_concat_fold st cs _ E). cbn [fst snd final_source].
    destruct (kids_threadW P f c cs Hall st Hs) as [trs [E1 [F S]]]. rewrite <- E1.
    split; [apply Hfold; assumption|exact S].
Qed.

Lemma TX_single2 c ch r : TX2 c ch r -> TX2 c (SConcat [ch]) r.
Proof. intros [A B]. split; [apply TG_single2; exact A|exact B]. Qed.

Lemma FX_single2 c ch r : FX2 c ch r -> FX2 c (SConcat [ch]) r.
Proof. intros [A B]. split; [apply FG_single2; exact A|exact B]. Qed.

Lemma concat_TX2 c cs (trs : list kid) : length cs <> 1%nat -> cls2 (SConcat cs) ->
  Forall2 (child_of (TX2 c)) cs trs ->
  TX2 c (SConcat cs) (snd (concat_fold false (map fst trs) (concat_init, [])),
                     concat_result (fst (concat_fold false (map fst trs) (concat_init, [])))).
Proof.
  intros Hl Hcl Hk.
  assert (Hk' : Forall2 (child_of (TG2 c)) cs trs).
  { apply (F2_impl _ _ _ _ Hk). intros ch tr _ [E H]. split; [exact E|apply TX_TG2; exact H]. }
  split; [apply concat_TG2; assumption|]. cbn [fst].
  pose proof (concat_fold_chunk_texts _ (ct_dense2 c cs trs Hk')) as Htx.
  apply (ne_flat _ _ Htx). rewrite Forall_map.
  apply (F2_right _ _ _ _ Hk). intros ch tr _ [_ [_ H]]. exact H.
Qed.

Lemma concat_FX2 c cs (trs : list kid) : length cs <> 1%nat -> cls2 (SConcat cs) ->
  Forall2 (child_of (FX2 c)) cs trs ->
  FX2 c (SConcat cs) (snd (concat_fold true (map fst trs) (concat_init, [])),
                     concat_result (fst (concat_fold true (map fst trs) (concat_init, [])))).
Proof.
  intros Hl Hcl Hk.
  assert (Hk' : Forall2 (child_of (FG2 c)) cs trs).
  { apply (F2_impl _ _ _ _ Hk). intros ch tr _ [E H]. split; [exact E|apply FX_FG2; exact H]. }
  split; [apply concat_FG2; assumption|]. intros ->. cbn [fst snd].
  assert (HS : Forall kidS trs).
  { pose proof (cf_kid_ok2 true cs trs Hk') as K. rewrite Forall_forall in K.
    assert (X : Forall (fun tr : kid => strict_ok (tr_events tr) (tr_info tr)) trs).
    { apply (F2_right _ _ _ _ Hk). intros ch tr _ [_ [_ H]]. apply H. reflexivity. }
    rewrite Forall_forall in X. apply Forall_forall. intros tr Htr. split; [apply K|apply X]; exact Htr. }
  destruct (concat_kidS trs HS) as [_ X]. exact X.
Qed.

Theorem warmW_all : forall s, PWW s.
Proof.
  apply (src_ind' PWW); unfold PWW.
  - (* SRaw *) intros b v _ Hcl. destruct (nocache_streamsW _ Hcl eq_refl) as [A B].
    split; [exact A|]. split; [exact B|]. intros st c Hs. cbn [map_of fst snd].
    split; [apply raw_entry2; reflexivity|]. split; [reflexivity|exact Hs].
  - intros v _ Hcl. destruct (nocache_streamsW _ Hcl eq_refl) as [A B].
    split; [exact A|]. split; [exact B|]. intros st c Hs. cbn [map_of fst snd].
    split; [apply raw_entry2; reflexivity|]. split; [reflexivity|exact Hs].
  - intros v _ Hcl. destruct (nocache_streamsW _ Hcl eq_refl) as [A B].
    split; [exact A|]. split; [exact B|]. intros st c Hs. cbn [map_of fst snd].
    split; [apply raw_entry2; reflexivity|]. split; [reflexivity|exact Hs].
  - (* SOriginal *) intros v n _ Hcl. destruct (nocache_streamsW _ Hcl eq_refl) as [A B].
    split; [exact A|]. split; [exact B|]. intros st c Hs.
    change (map_of st (SOriginal v n) c) with (Tree.get_map st (SOriginal v n) c). apply get_map_okW; assumption.
  - (* SMapped *) intros v n m og i r _ Hcl. destruct (nocache_streamsW _ Hcl eq_refl) as [A B].
    split; [exact A|]. split; [exact B|]. intros st c Hs.
    destruct i as [im|].
    + (* a combined leaf builds its map from its text-less stream: outside K1 *)
      change (map_of st (SMapped v n m og (Some im) r) c) with (Tree.get_map st (SMapped v n m og (Some im) r) c).
      apply get_map_okW; assumption.
    + cbn [map_of fst snd]. split; [apply mapped_entry2; exact Hcl|]. split; [|exact Hs].
      cbn [k1_shape]. discriminate.
  - (* SConcat *) intros cs IH Hin Hcl. rewrite Forall_forall in IH.
    assert (Hkids : forall ch, In ch cs -> stream_okW TX2 false ch /\ stream_okW FX2 true ch /\ map_okW ch).
    { intros ch Hch. apply (IH ch Hch).
      - intros x Hx. apply Hin. apply (nodes_child cs ch Hch). exact Hx.
      - apply (cls2_concat cs ch Hcl Hch). }
    assert (A : stream_okW TX2 false (SConcat cs)).
    { apply concat_stream_okW.
      - intros c ch r. apply TX_single2.
      - intros c trs Hl Hk. apply concat_TX2; assumption.
      - intros ch Hch. apply (Hkids ch Hch). }
    assert (B : stream_okW FX2 true (SConcat cs)).
    { apply concat_stream_okW.
      - intros c ch r. apply FX_single2.
      - intros c trs Hl Hk. apply concat_FX2; assumption.
      - intros ch Hch. apply (Hkids ch Hch). }
    split; [exact A|]. split; [exact B|]. intros st c Hs.
    change (map_of st (SConcat cs) c) with (Tree.get_map st (SConcat cs) c). apply get_map_okW; assumption.
  - (* SReplace *) intros i rs IH Hin Hcl. destruct (cls2_replace i rs Hcl) as [Hci Hnc].
    destruct rs as [|r rs].
    + (* no replacements: delegate *)
      destruct (IH Hin Hci) as [IA [_ IM]].
      assert (A : forall f, stream_okW TX2 f (SReplace i [])).
      { intros f st c Hs. cbn [stream columns]. destruct (IA st c Hs) as [[T Ne] S].
        destruct (stream st i (mkOpts c false)) as [[ievs gi] st']. cbn [fst snd] in *.
        split; [|exact S]. split; [apply (replace_nil_TG2 c i (ievs, gi) Hcl T)|].
        destruct T as [Hd [Hr _]]. cbn [fst snd] in *.
        apply (ReplAttrOrigin.replace_stream_dense [] ievs (source i) gi (Forall_nil _));
          [apply reassembles_iff; exact Hr|exact Ne|exact Hd]. }
      split; [apply A|]. split.
      * intros st c Hs. destruct (A true st c Hs) as [T S]. split; [apply FX_of_TX2; exact T|exact S].
      * intros st c Hs. change (map_of st (SReplace i []) c) with (map_of st i c).
        destruct (IM st c Hs) as [G [W S]]. split; [apply good_entry_replace_nil2; assumption|].
        split; [|exact S]. cbn [k1_shape is_nil andb]. change (source (SReplace i [])) with (source i). exact W.
    + (* replacements: no cache below *)
      assert (Hn : has_cached (SReplace i (r :: rs)) = false) by (apply Hnc; discriminate).
      destruct (nocache_streamsW _ Hcl Hn) as [A B].
      split; [exact A|]. split; [exact B|]. intros st c Hs.
      change (map_of st (SReplace i (r :: rs)) c) with (Tree.get_map st (SReplace i (r :: rs)) c).
      apply get_map_okW; assumption.
  - (* SCached *) intros id i IH Hin Hcl. pose proof (cls2_cached id i Hcl) as Hci.
    assert (Hnode : In (id, i) (nodes U)) by (apply Hin; left; reflexivity).
    assert (Hin' : incl (nodes i) (nodes U)) by (intros x Hx; apply Hin; right; exact Hx).
    destruct (IH Hin' Hci) as [IA [IB IM]].
    split; [|split].
    + (* text-carrying *)
      intros st c Hs. cbn [stream]. unfold TX2. rewrite TG_cached2.
      destruct (cache_get (store_get st id) (mkOpts c false)) as [v|] eqn:G.
      * destruct Hs as [Hs1 Hs2].
        pose proof (replay_TG2 c i v Hci (Hs1 id i Hnode c false v G)) as T.
        pose proof (replay_ne (source i) v c) as Ne.
        destruct v as [m|]; cbn [replay final_source fst snd] in *;
          (split; [split; assumption|split; assumption]).
      * destruct (IA st c Hs) as [[T Ne] S].
        destruct (stream st i (mkOpts c false)) as [[evs gi] st']. cbn [fst snd columns] in *.
        split; [split; assumption|]. apply (soundW_put U st' id i c false _ HU Hnode S).
        -- apply (entry_of_text2 c i (evs, gi) Hci T).
        -- intros _. apply (TX_map_wf2 c i (evs, gi) Hci). split; assumption.
    + (* text-less *)
      intros st c Hs. cbn [stream]. unfold FX2. rewrite FG_cached2.
      destruct (cache_get (store_get st id) (mkOpts c true)) as [v|] eqn:G.
      * destruct Hs as [Hs1 Hs2].
        pose proof (replay_FG2 c i v Hci (Hs1 id i Hnode c true v G)) as T.
        pose proof (Hs2 id i Hnode c true v G (or_introl eq_refl)) as Wv.
        assert (St : c = true -> strict_ok (fst (replay (source i) v (mkOpts c true)))
                                            (snd (replay (source i) v (mkOpts c true)))).
        { intros ->. apply replay_strict. exact Wv. }
        destruct v as [m|]; cbn [replay final_source fst snd] in *;
          (split; [split; assumption|split; assumption]).
      * destruct (IB st c Hs) as [[T St] S].
        destruct (stream st i (mkOpts c true)) as [[evs gi] st']. cbn [fst snd columns] in *.
        split; [split; assumption|]. apply (soundW_put U st' id i c true _ HU Hnode S).
        -- apply (entry_of_final2 c i (evs, gi) Hci T).
        -- intros _. apply (FX_map_wf2 c i (evs, gi) Hci). split; assumption.
    + (* map() *)
      intros st c Hs. cbn [map_of]. rewrite good_entry_cached2. cbn [k1_shape].
      change (source (SCached id i)) with (source i).
      destruct (cache_get (store_get st id) (mkOpts c false)) as [v|] eqn:G.
      * cbn [fst snd]. destruct Hs as [Hs1 Hs2]. split; [apply (Hs1 id i Hnode c false v G)|].
        split; [|split; assumption]. intros Hk. apply (Hs2 id i Hnode c false v G). right. exact Hk.
      * destruct (IM st c Hs) as [E [W S]]. destruct (map_of st i c) as [m st']. cbn [fst snd] in *.
        assert (We : entry_wf i false m) by (intros [X|X]; [discriminate|apply W; exact X]).
        pose proof (soundW_put U st' id i c false m HU Hnode S E We) as S'.
        split; [|split; [|exact S']].
        -- destruct S' as [S1 _].
           destruct (cache_get (store_get (store_put st' id (mkOpts c false) m) id) (mkOpts c false)) as [m'|] eqn:G';
             [apply (S1 id i Hnode c false m' G')|exact E].
        -- intros Hk. destruct S' as [_ S2].
           destruct (cache_get (store_get (store_put st' id (mkOpts c false) m) id) (mkOpts c false)) as [m'|] eqn:G';
             [apply (S2 id i Hnode c false m' G'); right; exact Hk|apply W; exact Hk].
Qed.

End WarmW.

(* ------------------------------------------------------------------ *)
(* the statements                                                       *)
(* ------------------------------------------------------------------ *)
Section GW.
Variable s : src.
Hypothesis Hd : ids_distinct s.
Hypothesis Hcl : cls2 s.

Let W := warm_all2 s Hd s (incl_refl _) Hcl.
Let W2 := warmW_all s Hd s (incl_refl _) Hcl.

Lemma cls2_treeAW : treeA s = true.
Proof. pose proof Hcl as [_ [_ [A _]]]. exact A. Qed.

(* all four streams are well-formed, over any sound store *)
Theorem warm_stream_wfW (st : store) (o : opts) : WarmCombDefs.Sound2 st s ->
  stream_wf (fst (fst (stream st s o))) 0 0 = true.
Proof.
  intros Hs. apply dense_stream_wf. destruct o as [c f]. destruct f.
  - destruct W as [_ [B _]]. destruct (B st c Hs) as [[[K _] _] _]. exact K.
  - destruct W as [A _]. destruct (A st c Hs) as [[K _] _]. exact K.
Qed.

(* the extended invariant is preserved *)
Theorem stream_soundW (st : store) (o : opts) : SoundW st s -> SoundW (snd (stream st s o)) s.
Proof.
  intros Hs. destruct o as [c f]. destruct f.
  - destruct W2 as [_ [B _]]. apply (B st c Hs).
  - destruct W2 as [A _]. apply (A st c Hs).
Qed.

Theorem map_of_soundW (st : store) (c : bool) : SoundW st s -> SoundW (snd (map_of st s c)) s.
Proof. intros Hs. destruct W2 as [_ [_ M]]. apply (M st c Hs). Qed.

(* the strictness theorem: the text-less stream with columns *)
Theorem warm_strictW (st : store) : SoundW st s ->
  let r := stream st s (mkOpts true true) in
  sstrict (map mpos (chunk_mappings (fst (fst r)))) /\
  Forall (fun m => 1 <= g_line m /\ plt (mpos m) (advance 1 0 (source s))) (chunk_mappings (fst (fst r))).
Proof.
  intros Hs. cbn zeta. destruct W2 as [_ [B _]]. destruct (B st true Hs) as [[[Hk _] St] _].
  destruct (St eq_refl) as [S1 S2]. pose proof (kid_facts _ Hk) as F.
  destruct Hk as [_ [_ [Hi _]]]. unfold tr_events, tr_info, tr_text in *. cbn [fst snd] in *.
  split; [exact S1|]. rewrite <- Hi. apply Forall_forall. intros m Hm.
  rewrite Forall_forall in S2, F. split; [apply (F m Hm)|apply (S2 m Hm)].
Qed.

(* no text-carrying chunk is empty *)
Theorem warm_text_neW (st : store) (c : bool) : SoundW st s ->
  no_empty_chunks (fst (fst (stream st s (mkOpts c false)))) = true.
Proof. intros Hs. destruct W2 as [A _]. destruct (A st c Hs) as [[_ Ne] _]. exact Ne. Qed.

(* map() outside the class K1 *)
Theorem warm_map_wfW (st : store) (c : bool) : SoundW st s -> k1_shape s = false ->
  map_wf (source s) (fst (map_of st s c)) = true.
Proof. intros Hs Hk. destruct W2 as [_ [_ M]]. destruct (M st c Hs) as [_ [X _]]. apply X. exact Hk. Qed.

(* the map a streaming node would build (get_map), whatever the root *)
Theorem warm_get_map_wfW (st : store) (c : bool) : SoundW st s ->
  map_wf (source s) (fst (Tree.get_map st s c)) = true.
Proof.
  intros Hs. destruct W2 as [_ [B _]]. destruct (B st c Hs) as [Y _].
  unfold Tree.get_map. destruct (stream st s (mkOpts c true)) as [[evs gi] st']. cbn [fst] in *.
  apply (FX_map_wf2 c s (evs, gi) Hcl Y).
Qed.

(* observer histories *)
Theorem hop_soundW (st : store) (op : hop) : SoundW st s -> SoundW (snd (run_hop st s op)) s.
Proof.
  intros Hs. destruct op as [| | | |c|c f| |]; cbn [run_hop snd]; try exact Hs.
  - pose proof (map_of_soundW st c Hs) as X. destruct (map_of st s c) as [m st']. exact X.
  - pose proof (stream_soundW st (mkOpts c f) Hs) as X.
    destruct (stream st s (mkOpts c f)) as [[evs gi] st']. exact X.
Qed.

Theorem hops_soundW : forall (ops : list hop) (st : store), SoundW st s -> SoundW (snd (run_hops st s ops)) s.
Proof.
  induction ops as [|op ops IH]; intros st Hs; [exact Hs|].
  cbn [run_hops]. pose proof (hop_soundW st op Hs) as H1.
  destruct (run_hop st s op) as [x st1]. cbn [snd] in H1. specialize (IH st1 H1).
  destruct (run_hops st1 s ops) as [as_ st2]. exact IH.
Qed.

(* warm-up histories on inner CachedSource nodes *)
Lemma wop_soundW (st : store) (node : src) (w : wop) :
  incl (nodes node) (nodes s) -> cls2 node -> SoundW st s -> SoundW (run_wop st node w) s.
Proof.
  intros Hin Hn Hs. destruct (warmW_all s Hd node Hin Hn) as [A [B M]].
  destruct w as [c|c f]; cbn [run_wop].
  - apply (M st c Hs).
  - destruct f; [apply (B st c Hs)|apply (A st c Hs)].
Qed.

Theorem warm_soundW : forall (ws : list (N * wop)) (st : store), SoundW st s -> SoundW (run_warm st s ws) s.
Proof.
  induction ws as [|[id w] ws IH]; intros st Hs; [exact Hs|].
  cbn [run_warm]. destruct (find_cached s id) as [node|] eqn:E; [|apply IH; exact Hs].
  destruct (find_cached_sub2 s id node E) as [A B]. apply IH. apply wop_soundW; [exact A|apply B; exact Hcl|exact Hs].
Qed.

(* the extracted checker, over any SoundW store: the observations `api_tree` takes *)
Lemma chk_C11_fromW (st : store) (o : tree_obs) : SoundW st s ->
  to_source o = source s ->
  to_streams o = map (fun op => fst (stream st s op)) all_opts ->
  to_maps o = [fst (map_of st s true); fst (map_of st s false)] ->
  (k1_shape s = false -> chk_C11 s o = 0) /\ (chk_C11 s o = 0 \/ chk_C11 s o = 51).
Proof.
  intros Hs E1 E2 E3.
  rewrite (chk_C11_unfold s st cls2_treeAW (fun op => warm_stream_wfW st op (proj1 Hs)) o E1 E2 E3).
  split.
  - intros Hk. rewrite (warm_map_wfW st true Hs Hk), (warm_map_wfW st false Hs Hk). reflexivity.
  - destruct (k1_shape s) eqn:Hk.
    + destruct (map_wf (source s) (fst (map_of st s true))); cbn [negb]; [|right; reflexivity].
      destruct (map_wf (source s) (fst (map_of st s false))); cbn [negb]; [left|right]; reflexivity.
    + rewrite (warm_map_wfW st true Hs Hk), (warm_map_wfW st false Hs Hk). left. reflexivity.
Qed.

(* the checker accepts the model's observations after ANY warm-up history, outside K1 *)
Theorem chk_C11_warm2 (ws : list (N * wop)) : k1_shape s = false -> chk_C11 s (api_tree s ws) = 0.
Proof.
  intros Hk.
  destruct (chk_C11_fromW (run_warm [] s ws) (api_tree s ws) (warm_soundW ws [] (soundW_empty s))
              eq_refl eq_refl eq_refl) as [X _].
  apply X. exact Hk.
Qed.

Theorem chk_C11_warm2_any (ws : list (N * wop)) :
  chk_C11 s (api_tree s ws) = 0 \/ (k1_shape s = true /\ chk_C11 s (api_tree s ws) = 51).
Proof.
  destruct (chk_C11_fromW (run_warm [] s ws) (api_tree s ws) (warm_soundW ws [] (soundW_empty s))
              eq_refl eq_refl eq_refl) as [X Y].
  destruct (k1_shape s) eqn:Hk.
  - destruct Y as [Y|Y]; [left; exact Y|right; split; [reflexivity|exact Y]].
  - left. apply X. reflexivity.
Qed.

End GW.

(* ------------------------------------------------------------------ *)
(* the statements with the hypotheses spelled out                       *)
(* ------------------------------------------------------------------ *)
Theorem C11_warm_comb_streams (s : src) (st : store) (o : opts) :
  ids_distinct s -> k2_shape s = false -> rshape2 (uncache s) = true -> treeA s = true ->
  tiny2 (uncache s) = true -> WarmCombDefs.Sound2 st s ->
  stream_wf (fst (fst (stream st s o))) 0 0 = true.
Proof. intros H1 H2 H3 H4 H5. apply warm_stream_wfW; [exact H1|apply tiny2_cls2; assumption]. Qed.

Theorem C11_warm_comb_map (s : src) (st : store) (c : bool) :
  ids_distinct s -> k2_shape s = false -> rshape2 (uncache s) = true -> treeA s = true ->
  tiny2 (uncache s) = true -> k1_shape s = false -> SoundW st s ->
  map_wf (source s) (fst (map_of st s c)) = true.
Proof. intros H1 H2 H3 H4 H5 Hk Hs. apply warm_map_wfW; [exact H1|apply tiny2_cls2; assumption|exact Hs|exact Hk]. Qed.

Theorem C11_warm_comb_checker (s : src) (ws : list (N * wop)) :
  ids_distinct s -> k2_shape s = false -> rshape2 (uncache s) = true -> treeA s = true ->
  tiny2 (uncache s) = true -> k1_shape s = false ->
  chk_C11 s (api_tree s ws) = 0.
Proof. intros H1 H2 H3 H4 H5 Hk. apply chk_C11_warm2; [exact H1|apply tiny2_cls2; assumption|exact Hk]. Qed.

Theorem C11_warm_comb_checker_any (s : src) (ws : list (N * wop)) :
  ids_distinct s -> k2_shape s = false -> rshape2 (uncache s) = true -> treeA s = true ->
  tiny2 (uncache s) = true ->
  chk_C11 s (api_tree s ws) = 0 \/ (k1_shape s = true /\ chk_C11 s (api_tree s ws) = 51).
Proof. intros H1 H2 H3 H4 H5. apply chk_C11_warm2_any; [exact H1|apply tiny2_cls2; assumption]. Qed.

(* ------------------------------------------------------------------ *)
(* tests                                                                *)
(* ------------------------------------------------------------------ *)
(* the trees of WarmCombHist.v (combined leaves beneath CachedSource nodes), any warm-up history *)
Example wc_tree_C11 (r : bool) (ws : list (N * wop)) :
  chk_C11 (wc_tree r) (api_tree (wc_tree r) ws) = 0 /\ chk_C11 (wc_small r) (api_tree (wc_small r) ws) = 0.
Proof.
  split; apply C11_warm_comb_checker; try (destruct r; vm_compute; reflexivity).
  - apply wc_tree_distinct.
  - apply wc_small_distinct.
Qed.

Example wc_tree_C11_recomputed (r : bool) : chk_C11 (wc_tree r) (api_tree (wc_tree r) wc_warm) = 0.
Proof. destruct r; vm_compute; reflexivity. Qed.

Print Assumptions FX_map_wf2.
Print Assumptions TX_map_wf2.
Print Assumptions soundW_empty.
Print Assumptions warmW_all.
Print Assumptions warm_stream_wfW.
Print Assumptions stream_soundW.
Print Assumptions map_of_soundW.
Print Assumptions warm_strictW.
Print Assumptions warm_text_neW.
Print Assumptions warm_map_wfW.
Print Assumptions warm_get_map_wfW.
Print Assumptions hops_soundW.
Print Assumptions warm_soundW.
Print Assumptions chk_C11_warm2.
Print Assumptions chk_C11_warm2_any.
Print Assumptions C11_warm_comb_streams.
Print Assumptions C11_warm_comb_map.
Print Assumptions C11_warm_comb_checker.
Print Assumptions C11_warm_comb_checker_any.
Print Assumptions wc_tree_C11.
