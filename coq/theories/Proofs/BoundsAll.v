(* Input-side size bounds, part 4 (B4): for a tree of the class `rshape` / `treeA` with
   `tiny s = true`, every stream (both column settings, text-less and text-carrying) lies in
   the encoder's domain: `forallb mapping_small ... = true`.  The property theorems that carry
   that output-side hypothesis (and `rsmall`) are restated with input-side hypotheses only. *)
From RS Require Import Base.Prelude Base.Text Rope.RopeModel Codec.Vlq Codec.CodecSpec
  Checkers.ChkCodec Stream.Types Stream.Leaves Stream.Concat Stream.Replace Stream.Combined Stream.Tree
  Api.ApiTree Sem.Attr Sem.HashEq Api.ApiHist Checkers.ChkTree Checkers.ChkHist
  Proofs.StreamTree Proofs.WfStream Proofs.WfMap Proofs.RStreamTree
  Proofs.AttrCodec Proofs.LawConcatAttr Proofs.LawWrappers Proofs.CacheStore Proofs.CacheReplay
  Proofs.FinalDense Proofs.FinalTree Proofs.FinalCache Proofs.ReplAttrTree
  Proofs.LinesTree Proofs.LinesCache Proofs.LawMaps
  Proofs.WfAllStrict Proofs.WfAllMap Proofs.WfAllChk
  Proofs.BoundsPos Proofs.BoundsOrig Proofs.BoundsIdx.
Require Import Lia List.

Local Open Scope N_scope.

(* ------------------------------------------------------------------ *)
(* B4: the encoder's domain from the input bound                         *)
(* ------------------------------------------------------------------ *)
Lemma Forall3_small (ms : list mapping) :
  Forall (fun m => 1 <= g_line m /\ g_line m < K30 /\ g_col m < K30) ms ->
  Forall (fun m => match m_orig m with Some og => o_line og < K30 /\ o_col og < K30 | None => True end) ms ->
  Forall (idx_lt K30 K30) ms ->
  forallb mapping_small ms = true.
Proof.
  intros A B C. apply forallb_forall. intros m Hm. rewrite Forall_forall in A, B, C.
  destruct (A m Hm) as [A1 [A2 A3]]. specialize (B m Hm). specialize (C m Hm). unfold idx_lt in C.
  unfold mapping_small, small. change 1073741824 with K30.
  apply andb_true_iff. split.
  - apply andb_true_iff. split; [apply andb_true_iff; split; apply N.ltb_lt; assumption|apply N.leb_le; exact A1].
  - destruct (m_orig m) as [o|]; [|reflexivity]. destruct B as [B1 B2]. destruct C as [C1 C2].
    apply andb_true_iff. split.
    + apply andb_true_iff. split; [apply andb_true_iff; split; apply N.ltb_lt; assumption|apply N.ltb_lt; exact B2].
    + destruct (o_name o); [apply N.ltb_lt; exact C2|reflexivity].
Qed.

Theorem tiny_mapping_small (st : store) (s : src) (c f : bool) :
  rshape s = true -> treeA s = true -> tiny s = true ->
  forallb mapping_small (chunk_mappings (fst (fst (stream st s (mkOpts c f))))) = true.
Proof.
  intros H1 H2 H3. apply Forall3_small.
  - apply gen_small; assumption.
  - apply orig_small; assumption.
  - apply idx_small; assumption.
Qed.

(* the sorted half is known for the text-less streams: the whole `enc_domain` *)
Corollary tiny_enc_domain (st : store) (s : src) (c : bool) :
  rshape s = true -> treeA s = true -> tiny s = true ->
  enc_domain (chunk_mappings (fst (fst (stream st s (mkOpts c true))))) = true.
Proof.
  intros H1 H2 H3. pose proof (tiny_rsmall s H2 H3) as H4.
  pose proof (tiny_mapping_small st s c true H1 H2 H3) as H5.
  destruct c; [apply final_enc_domain|apply final_enc_domain_lines]; assumption.
Qed.

(* `rsmall` and `csmall` (BoundsPos.v), collected *)
Theorem tiny_sizes (s : src) : treeA s = true -> tiny s = true -> rsmall s = true /\ csmall s = true.
Proof. intros H2 H3. split; [apply tiny_rsmall; assumption|apply tiny_csmall; exact H3]. Qed.

(* ------------------------------------------------------------------ *)
(* the property theorems with input-side hypotheses only                 *)
(* ------------------------------------------------------------------ *)
(* C03, columns = true *)
Corollary C03_tree_cols_tiny (st : store) (s : src) :
  rshape s = true -> treeA s = true -> tiny s = true ->
  attr_of_map (fst (Tree.get_map st s true)) (source s) true =
  attr_of_stream (fst (fst (stream st s (mkOpts true false)))) true /\
  is_none (fst (Tree.get_map st s true)) =
  negb (mapped_chunk_exists (fst (fst (stream st s (mkOpts true false))))).
Proof.
  intros H1 H2 H3. apply C03_tree_cols; [exact H1|exact H2|apply tiny_rsmall; assumption|].
  apply tiny_mapping_small; assumption.
Qed.

(* C03, columns = false *)
Corollary C03_tree_lines_tiny (st : store) (s : src) :
  rshape s = true -> treeA s = true -> tiny s = true ->
  attr_of_map (fst (Tree.get_map st s false)) (source s) false =
  attr_of_stream (fst (fst (stream st s (mkOpts false false)))) false /\
  is_none (fst (Tree.get_map st s false)) =
  negb (mapped_chunk_exists (fst (fst (stream st s (mkOpts false false))))).
Proof.
  intros H1 H2 H3. apply C03_tree_lines; [exact H1|exact H2|apply tiny_rsmall; assumption|].
  apply tiny_mapping_small; assumption.
Qed.

(* C11, map part *)
Corollary get_map_wf_tiny (st st' : store) (s : src) (cols : bool) (m : smap) :
  rshape s = true -> treeA s = true -> tiny s = true ->
  Tree.get_map st s cols = (Some m, st') ->
  sorted_by pos_lt (decode_mappings (sm_mappings m)) = true /\
  Forall (seg_inside (source s)) (decode_mappings (sm_mappings m)) /\
  tables_clause m = true /\ alphabet_clause m = true.
Proof.
  intros H1 H2 H3. apply get_map_wf; [exact H1|exact H2|apply tiny_rsmall; assumption|].
  apply tiny_mapping_small; assumption.
Qed.

Corollary get_map_map_wf_tiny (st st' : store) (s : src) (cols : bool) (om : option smap) :
  rshape s = true -> treeA s = true -> tiny s = true ->
  Tree.get_map st s cols = (om, st') -> map_wf (source s) om = true.
Proof.
  intros H1 H2 H3. apply get_map_map_wf; [exact H1|exact H2|apply tiny_rsmall; assumption|].
  apply tiny_mapping_small; assumption.
Qed.

(* C11, checker level: the node map() encodes is in the class and tiny as well *)
Lemma tiny_replace_nil i : tiny (SReplace i []) = tiny i.
Proof.
  unfold tiny. cbn [tsize asrc anam nleaves maps_tiny map concat].
  change (len (@nil N)) with 0. change (len (@nil repl)) with 0. rewrite !N.add_0_r. reflexivity.
Qed.

Lemma map_target_class : forall s, rshape s = true -> treeA s = true -> tiny s = true ->
  rshape (map_target s) = true /\ treeA (map_target s) = true /\ tiny (map_target s) = true.
Proof.
  apply (src_ind' (fun s => rshape s = true -> treeA s = true -> tiny s = true ->
    rshape (map_target s) = true /\ treeA (map_target s) = true /\ tiny (map_target s) = true));
    try (intros; cbn [map_target]; auto; fail).
  intros i rs IH H1 H2 H3. cbn [map_target]. destruct rs as [|r rs]; cbn [is_nil]; [|auto].
  apply IH; [exact H1|apply (treeA_replace_inner i [] H2)|rewrite <- tiny_replace_nil; exact H3].
Qed.

Theorem tiny_enc_small (s : src) :
  rshape s = true -> treeA s = true -> tiny s = true -> enc_small [] s.
Proof.
  intros H1 H2 H3 cols. destruct (map_target_class s H1 H2 H3) as [A [B C]].
  apply tiny_mapping_small; assumption.
Qed.

Corollary chk_C11_tree_tiny (s : src) :
  rshape s = true -> treeA s = true -> tiny s = true -> k1_shape s = false ->
  chk_C11 s (api_tree s []) = 0.
Proof.
  intros H1 H2 H3 Hk. apply chk_C11_tree; [exact H1|exact H2|apply tiny_rsmall; assumption|exact Hk|].
  apply tiny_enc_small; assumption.
Qed.

(* after any warming history; and with the known-finding class K1 included *)
Corollary chk_C11_tree_any_tiny (s : src) (ws : list (N * wop)) :
  rshape s = true -> treeA s = true -> tiny s = true ->
  chk_C11 s (api_tree s ws) = 0 \/ (k1_shape s = true /\ chk_C11 s (api_tree s ws) = 51).
Proof.
  intros H1 H2 H3. apply chk_C11_tree_any; [exact H1|exact H2|apply tiny_rsmall; assumption|].
  apply tiny_enc_small; assumption.
Qed.

(* C13, boxed nesting through map(): the three groupings of a, b, c have the same sizes *)
Section Nesting.
Variables a b c : src.
Let F := SConcat [a; b; c].
Let R := SConcat [a; SConcat [b; c]].
Let L := SConcat [SConcat [a; b]; c].

Lemma nest_rshape : rshape F = true -> rshape R = true /\ rshape L = true.
Proof.
  unfold F, R, L. cbn [rshape forallb]. intros H.
  destruct (rshape a), (rshape b), (rshape c); try discriminate; auto.
Qed.

Lemma nest_treeA: treeA F = true -> treeA R = true /\ treeA L = true.
Proof.
  unfold F, R, L, treeA. cbn [tree_wf tree_ascii forallb]. intros H.
  destruct (tree_wf a), (tree_wf b), (tree_wf c); try discriminate;
  destruct (tree_ascii a), (tree_ascii b), (tree_ascii c); try discriminate; auto.
Qed.

Lemma nest_tiny : tiny F = true -> tiny R = true /\ tiny L = true.
Proof.
  unfold F, R, L, tiny. cbn [tsize asrc anam nleaves maps_tiny forallb fold_right].
  rewrite !N.add_0_r, !andb_true_r, !N.add_assoc, !andb_assoc. intros H. split; exact H.
Qed.

Theorem boxed_nesting_map_tiny (st : store) :
  rshape F = true -> treeA F = true -> tiny F = true ->
  attr_of_map (fst (Tree.get_map st R true)) (source R) true = attr_of_map (fst (Tree.get_map st F true)) (source F) true /\
  attr_of_map (fst (Tree.get_map st L true)) (source L) true = attr_of_map (fst (Tree.get_map st F true)) (source F) true /\
  is_none (fst (Tree.get_map st R true)) = is_none (fst (Tree.get_map st F true)) /\
  is_none (fst (Tree.get_map st L true)) = is_none (fst (Tree.get_map st F true)).
Proof.
  intros H1 H2 H3.
  destruct (nest_rshape H1) as [R1 L1]. destruct (nest_treeA H2) as [R2 L2]. destruct (nest_tiny H3) as [R3 L3].
  apply (boxed_nesting_map st a b c).
  - split; [exact H1|split; [exact H2|apply tiny_rsmall; assumption]].
  - split; [exact R1|split; [exact R2|apply tiny_rsmall; assumption]].
  - split; [exact L1|split; [exact L2|apply tiny_rsmall; assumption]].
  - apply tiny_mapping_small; assumption.
  - apply tiny_mapping_small; assumption.
  - apply tiny_mapping_small; assumption.
Qed.

Theorem boxed_nesting_map_lines_tiny (st : store) :
  rshape F = true -> treeA F = true -> tiny F = true ->
  attr_of_map (fst (Tree.get_map st R false)) (source R) false = attr_of_map (fst (Tree.get_map st F false)) (source F) false /\
  attr_of_map (fst (Tree.get_map st L false)) (source L) false = attr_of_map (fst (Tree.get_map st F false)) (source F) false /\
  is_none (fst (Tree.get_map st R false)) = is_none (fst (Tree.get_map st F false)) /\
  is_none (fst (Tree.get_map st L false)) = is_none (fst (Tree.get_map st F false)).
Proof.
  intros H1 H2 H3.
  destruct (nest_rshape H1) as [R1 L1]. destruct (nest_treeA H2) as [R2 L2]. destruct (nest_tiny H3) as [R3 L3].
  apply (boxed_nesting_map_lines st a b c).
  - split; [exact H1|split; [exact H2|apply tiny_rsmall; assumption]].
  - split; [exact R1|split; [exact R2|apply tiny_rsmall; assumption]].
  - split; [exact L1|split; [exact L2|apply tiny_rsmall; assumption]].
  - apply tiny_mapping_small; assumption.
  - apply tiny_mapping_small; assumption.
  - apply tiny_mapping_small; assumption.
Qed.
End Nesting.

(* C03 / C10: a CachedSource over a composite tree is transparent along every history *)
Corollary cached_concat_transparent_all_tiny (id : N) (cs : list src) (ops : list hop) :
  rshape (SConcat cs) = true -> treeA (SConcat cs) = true -> tiny (SConcat cs) = true ->
  answers_equiv (source (SConcat cs)) ops (fst (run_hops [] (SCached id (SConcat cs)) ops))
                (fresh_answers (SConcat cs) ops) 0 = 0.
Proof.
  intros H1 H2 H3. apply cached_concat_transparent_all; [exact H1|exact H2|apply tiny_rsmall; assumption|].
  intros c f. unfold CacheReplay.evs_of. apply tiny_mapping_small; assumption.
Qed.

Corollary cached_replace_transparent_all_tiny (id : N) (i : src) (r : repl) (rs : list repl) (ops : list hop) :
  rshape (SReplace i (r :: rs)) = true -> treeA (SReplace i (r :: rs)) = true -> tiny (SReplace i (r :: rs)) = true ->
  answers_equiv (source (SReplace i (r :: rs))) ops (fst (run_hops [] (SCached id (SReplace i (r :: rs))) ops))
                (fresh_answers (SReplace i (r :: rs)) ops) 0 = 0.
Proof.
  intros H1 H2 H3. apply cached_replace_transparent_all; [exact H1|exact H2|apply tiny_rsmall; assumption|].
  intros c f. unfold CacheReplay.evs_of. apply tiny_mapping_small; assumption.
Qed.

(* the statements are not vacuous: a tree of the class with every kind of node is tiny *)
Example tiny_witness :
  let s := SConcat [SOriginal [97; 59; 10; 98] [102];
                    SReplace (SConcat [SRaw false [99; 100]; SOriginal [101; 102] [103]]) [mkRepl 1 3 [120; 10] (Some [110]) 1];
                    SMapped [97; 98] [109] (mkSmap None [67; 65; 65; 65] [[115; 49]] [] [] None None) None None false] in
  (rshape s, treeA s, tiny s, k1_shape s,
   forallb mapping_small (chunk_mappings (fst (fst (stream [] s (mkOpts true true))))))
  = (true, true, true, false, true).
Proof. vm_compute. reflexivity. Qed.

Print Assumptions tiny_mapping_small.
Print Assumptions tiny_enc_domain.
Print Assumptions tiny_sizes.
Print Assumptions C03_tree_cols_tiny.
Print Assumptions C03_tree_lines_tiny.
Print Assumptions get_map_wf_tiny.
Print Assumptions get_map_map_wf_tiny.
Print Assumptions chk_C11_tree_tiny.
Print Assumptions chk_C11_tree_any_tiny.
Print Assumptions boxed_nesting_map_tiny.
Print Assumptions boxed_nesting_map_lines_tiny.
Print Assumptions cached_concat_transparent_all_tiny.
Print Assumptions cached_replace_transparent_all_tiny.
