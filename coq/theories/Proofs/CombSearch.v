(* B1: the binary search of find_inner_mapping (Stream/Combined.v, `bs_loop`, `find_inner`).
   For rows sorted by generated column, `bs_loop` returns the partition point: the number
   of rows whose column is <= the wanted column.  `find_inner` returns the LAST such row. *)
From RS Require Import Base.Prelude Base.Text Stream.Types Stream.Leaves Stream.Combined.
Require Import Lia List ZArith.

Local Open Scope N_scope.

(* ------------------------------------------------------------------ *)
(* nth_opt                                                             *)
(* ------------------------------------------------------------------ *)
Lemma cs_nth_opt_some {A} (l : list A) i : i < len l -> exists x, nth_opt l i = Some x.
Proof.
  unfold nth_opt, len. intros H. destruct (nth_error l (N.to_nat i)) as [x|] eqn:E; [exists x; reflexivity|].
  apply nth_error_None in E. lia.
Qed.

Lemma cs_nth_opt_lt {A} (l : list A) i x : nth_opt l i = Some x -> i < len l.
Proof.
  unfold nth_opt, len. intros H.
  assert (N.to_nat i < length l)%nat by (apply nth_error_Some; congruence). lia.
Qed.

Lemma cs_nth_opt_none {A} (l : list A) i : len l <= i -> nth_opt l i = None.
Proof. unfold nth_opt, len. intros H. apply nth_error_None. lia. Qed.

(* ------------------------------------------------------------------ *)
(* sortedness and the partition point                                  *)
(* ------------------------------------------------------------------ *)
(* generated columns non-decreasing *)
Definition cols_sorted (rows : list row) : Prop :=
  forall i j ri rj, i <= j -> nth_opt rows i = Some ri -> nth_opt rows j = Some rj ->
    (row_col ri <= row_col rj)%Z.

(* every row below index l is <= column *)
Definition below_le (rows : list row) (column : Z) (l : N) : Prop :=
  forall i r, i < l -> nth_opt rows i = Some r -> (row_col r <= column)%Z.
(* every row at or above index l is > column *)
Definition above_gt (rows : list row) (column : Z) (l : N) : Prop :=
  forall i r, l <= i -> nth_opt rows i = Some r -> (column < row_col r)%Z.

Definition partition_point (rows : list row) (column : Z) (l : N) : Prop :=
  l <= len rows /\ below_le rows column l /\ above_gt rows column l.

Lemma partition_point_unique rows column l1 l2 :
  partition_point rows column l1 -> partition_point rows column l2 -> l1 = l2.
Proof.
  intros [A1 [B1 C1]] [A2 [B2 C2]].
  destruct (N.lt_trichotomy l1 l2) as [H|[H|H]]; [|exact H|].
  - destruct (cs_nth_opt_some rows l1) as [r Hr]; [lia|].
    pose proof (C1 l1 r (N.le_refl _) Hr). pose proof (B2 l1 r H Hr). lia.
  - destruct (cs_nth_opt_some rows l2) as [r Hr]; [lia|].
    pose proof (C2 l2 r (N.le_refl _) Hr). pose proof (B1 l2 r H Hr). lia.
Qed.

Lemma half_between l r : l < r -> l <= (l + r) / 2 /\ (l + r) / 2 < r.
Proof.
  intros H. split.
  - apply N.div_le_lower_bound; lia.
  - apply N.div_lt_upper_bound; lia.
Qed.

(* B1, general invariant form *)
Theorem bs_loop_inv rows column : cols_sorted rows ->
  forall fuel lo hi,
  lo <= hi -> hi <= len rows ->
  below_le rows column lo -> above_gt rows column hi ->
  (N.to_nat (hi - lo) < fuel)%nat ->
  lo <= bs_loop fuel rows column lo hi <= hi /\
  partition_point rows column (bs_loop fuel rows column lo hi).
Proof.
  intros Hs. induction fuel as [|f IH]; intros lo hi Hle Hhi Hb Ha Hf; [lia|].
  cbn [bs_loop]. destruct (lo <? hi) eqn:E.
  - apply N.ltb_lt in E. destruct (half_between lo hi E) as [M1 M2].
    set (m := (lo + hi) / 2) in *.
    destruct (cs_nth_opt_some rows m) as [rw Hrw]; [lia|]. rewrite Hrw.
    destruct (row_col rw <=? column)%Z eqn:C.
    + apply Z.leb_le in C.
      destruct (IH (m + 1) hi) as [[I1 I2] I3]; try lia; try assumption.
      * intros i r Hi Hr. destruct (N.lt_ge_cases i lo) as [L|L]; [apply (Hb i r L Hr)|].
        assert (Hm : i <= m) by lia. pose proof (Hs i m r rw Hm Hr Hrw). lia.
      * split; [lia|exact I3].
    + apply Z.leb_gt in C.
      destruct (IH lo m) as [[I1 I2] I3]; try lia; try assumption.
      * intros i r Hi Hr. pose proof (Hs m i rw r Hi Hrw Hr). lia.
      * split; [lia|exact I3].
  - apply N.ltb_ge in E. assert (lo = hi) by lia. subst hi.
    split; [lia|]. split; [exact Hhi|]. split; assumption.
Qed.

(* B1: the call made by find_inner *)
Theorem bs_loop_partition rows column fuel : cols_sorted rows -> (length rows < fuel)%nat ->
  partition_point rows column (bs_loop fuel rows column 0 (len rows)).
Proof.
  intros Hs Hf. apply (bs_loop_inv rows column Hs fuel 0 (len rows)).
  - lia.
  - lia.
  - intros i r Hi. lia.
  - intros i r Hi Hr. apply cs_nth_opt_lt in Hr. lia.
  - unfold len. lia.
Qed.

(* ------------------------------------------------------------------ *)
(* the partition point is the number of rows <= column                 *)
(* ------------------------------------------------------------------ *)
Definition le_col (column : Z) (r : row) : bool := (row_col r <=? column)%Z.

Lemma nth_opt_cons_succ {A} (x : A) l i : nth_opt (x :: l) (i + 1) = nth_opt l i.
Proof. unfold nth_opt. replace (N.to_nat (i + 1)) with (S (N.to_nat i)) by lia. reflexivity. Qed.

Lemma cs_len_cons {A} (x : A) l : len (x :: l) = len l + 1.
Proof. unfold len. cbn [length]. lia. Qed.

Lemma partition_point_count : forall rows column l,
  partition_point rows column l -> l = len (filter (le_col column) rows).
Proof.
  induction rows as [|x rows IH]; intros column l [A [B C]].
  - cbn in A |- *. unfold len in *. cbn in *. lia.
  - cbn [filter]. unfold le_col at 1. destruct (row_col x <=? column)%Z eqn:E.
    + apply Z.leb_le in E. destruct (N.eq_dec l 0) as [->|Hl].
      { pose proof (C 0 x (N.le_refl _) eq_refl). lia. }
      rewrite cs_len_cons. rewrite <- (IH column (l - 1)); [lia|].
      rewrite cs_len_cons in A. split; [lia|]. split.
      * intros i r Hi Hr. apply (B (i + 1) r); [lia|]. rewrite nth_opt_cons_succ. exact Hr.
      * intros i r Hi Hr. apply (C (i + 1) r); [lia|]. rewrite nth_opt_cons_succ. exact Hr.
    + apply Z.leb_gt in E. destruct (N.eq_dec l 0) as [->|Hl].
      * apply (IH column 0). split; [lia|]. split.
        -- intros i r Hi. lia.
        -- intros i r Hi Hr. apply (C (i + 1) r); [lia|]. rewrite nth_opt_cons_succ. exact Hr.
      * pose proof (B 0 x ltac:(lia) eq_refl). lia.
Qed.

(* B1, count form *)
Theorem bs_loop_count rows column fuel : cols_sorted rows -> (length rows < fuel)%nat ->
  bs_loop fuel rows column 0 (len rows) = len (filter (le_col column) rows).
Proof. intros Hs Hf. apply partition_point_count. apply bs_loop_partition; assumption. Qed.

(* ------------------------------------------------------------------ *)
(* find_inner                                                          *)
(* ------------------------------------------------------------------ *)
Theorem find_inner_line0 st line column : (line < 1)%Z -> find_inner st line column = None.
Proof. intros H. unfold find_inner. apply Z.ltb_lt in H. rewrite H. reflexivity. Qed.

Theorem find_inner_beyond st line column : (Z.of_N (len (b_lines st)) < line)%Z ->
  find_inner st line column = None.
Proof.
  intros H. unfold find_inner. destruct (line <? 1)%Z; [reflexivity|].
  rewrite cs_nth_opt_none; [reflexivity|lia].
Qed.

(* `k` is the index of the last row whose column is <= column *)
Definition last_le (rows : list row) (column : Z) (k : N) (rw : row) : Prop :=
  nth_opt rows k = Some rw /\ (row_col rw <= column)%Z /\
  forall j r, k < j -> nth_opt rows j = Some r -> (column < row_col r)%Z.

(* B1, corollary: the answer of find_inner on a line with sorted rows, one chunk per row *)
Theorem find_inner_spec st line column rows chunks :
  (1 <= line)%Z -> nth_opt (b_lines st) (Z.to_N line - 1) = Some (rows, chunks) ->
  cols_sorted rows -> length chunks = length rows ->
  match find_inner st line column with
  | Some (rw, ch) =>
    exists k, last_le rows column k rw /\ nth_opt chunks k = Some ch
  | None => forall i r, nth_opt rows i = Some r -> (column < row_col r)%Z
  end.
Proof.
  intros Hl Hn Hs Hc. unfold find_inner.
  assert (E : (line <? 1)%Z = false) by (apply Z.ltb_ge; lia). rewrite E, Hn.
  pose proof (bs_loop_partition rows column (S (length rows)) Hs (Nat.lt_succ_diag_r _)) as [A [B C]].
  set (l := bs_loop (S (length rows)) rows column 0 (len rows)) in *.
  destruct (l =? 0) eqn:Z0.
  - apply N.eqb_eq in Z0. intros i r Hr. apply (C i r); [lia|exact Hr].
  - apply N.eqb_neq in Z0.
    destruct (cs_nth_opt_some rows (l - 1)) as [rw Hrw]; [lia|].
    destruct (cs_nth_opt_some chunks (l - 1)) as [ch Hch]; [unfold len in *; lia|].
    rewrite Hrw, Hch. exists (l - 1). split; [|exact Hch]. split; [exact Hrw|]. split.
    + apply (B (l - 1) rw); [lia|exact Hrw].
    + intros j r Hj Hr. apply (C j r); [lia|exact Hr].
Qed.

(* the same, as two implications *)
Corollary find_inner_some st line column rows chunks rw ch :
  (1 <= line)%Z -> nth_opt (b_lines st) (Z.to_N line - 1) = Some (rows, chunks) ->
  cols_sorted rows -> length chunks = length rows ->
  find_inner st line column = Some (rw, ch) ->
  exists k, last_le rows column k rw /\ nth_opt chunks k = Some ch.
Proof.
  intros Hl Hn Hs Hc H. pose proof (find_inner_spec st line column rows chunks Hl Hn Hs Hc) as P.
  rewrite H in P. exact P.
Qed.

Corollary find_inner_none st line column rows chunks :
  (1 <= line)%Z -> nth_opt (b_lines st) (Z.to_N line - 1) = Some (rows, chunks) ->
  cols_sorted rows -> length chunks = length rows ->
  (find_inner st line column = None <-> forall i r, nth_opt rows i = Some r -> (column < row_col r)%Z).
Proof.
  intros Hl Hn Hs Hc. pose proof (find_inner_spec st line column rows chunks Hl Hn Hs Hc) as P.
  split.
  - intros H. rewrite H in P. exact P.
  - intros H. destruct (find_inner st line column) as [[rw ch]|]; [|reflexivity].
    destruct P as [k [[P1 [P2 _]] _]]. pose proof (H k rw P1). lia.
Qed.

(* the result never depends on anything but the line table *)
Lemma find_inner_lines st st' line column : b_lines st = b_lines st' ->
  find_inner st line column = find_inner st' line column.
Proof. intros H. unfold find_inner. rewrite H. reflexivity. Qed.

(* ------------------------------------------------------------------ *)
(* the rows pushed by the inner stream: one chunk per row              *)
(* ------------------------------------------------------------------ *)
Definition lines_paired (ls : list line_data) : Prop :=
  Forall (fun ld : line_data => length (snd ld) = length (fst ld)) ls.

Lemma lm_set_Forall {A} (P : A -> Prop) d v : P d -> P v -> forall k l, Forall P l -> Forall P (lm_set d l k v).
Proof.
  intros Hd Hv. induction k as [|k IH]; intros [|x l] H; cbn [lm_set].
  - constructor; [exact Hv|constructor].
  - inversion H; subst. constructor; assumption.
  - constructor; [exact Hd|]. apply IH. constructor.
  - inversion H; subst. constructor; [assumption|]. apply IH. assumption.
Qed.

Lemma push_row_paired ls gl r chunk : lines_paired ls -> lines_paired (push_row ls gl r chunk).
Proof.
  intros H. unfold push_row.
  assert (P : lines_paired (ls ++ repeat ([], []) (N.to_nat (gl + 1) - length ls))).
  { apply Forall_app. split; [exact H|]. apply Forall_forall. intros x Hx.
    apply repeat_spec in Hx. subst x. reflexivity. }
  set (padded := ls ++ repeat ([], []) (N.to_nat (gl + 1) - length ls)) in *.
  destruct (nth_opt padded (gl - 1)) as [[rows chunks]|] eqn:E; [|exact P].
  apply lm_set_Forall; [reflexivity| |exact P].
  cbn [fst snd]. rewrite 2!app_length. cbn [length].
  unfold nth_opt in E. apply nth_error_In in E.
  unfold lines_paired in P. rewrite Forall_forall in P. specialize (P _ E). cbn [fst snd] in P. lia.
Qed.

Lemma inner_event_paired st e : lines_paired (b_lines st) -> lines_paired (b_lines (inner_event st e)).
Proof.
  intros H. destruct e as [[chunk|] m|i s c|i n]; cbn [inner_event b_lines]; try exact H.
  apply push_row_paired. exact H.
Qed.

Lemma inner_events_paired evs : forall st, lines_paired (b_lines st) ->
  lines_paired (b_lines (fold_left inner_event evs st)).
Proof.
  induction evs as [|e evs IH]; intros st H; [exact H|]. cbn [fold_left]. apply IH.
  apply inner_event_paired. exact H.
Qed.

Lemma lines_paired_nth ls i rows chunks : lines_paired ls -> nth_opt ls i = Some (rows, chunks) ->
  length chunks = length rows.
Proof.
  intros H E. unfold nth_opt in E. apply nth_error_In in E.
  unfold lines_paired in H. rewrite Forall_forall in H. apply (H _ E).
Qed.

(* ------------------------------------------------------------------ *)
(* without sortedness: the row found is never to the right of `column`  *)
(* ------------------------------------------------------------------ *)
Lemma bs_loop_le rows column : forall fuel lo hi,
  bs_loop fuel rows column lo hi = lo \/
  (lo < bs_loop fuel rows column lo hi /\
   exists rw, nth_opt rows (bs_loop fuel rows column lo hi - 1) = Some rw /\ (row_col rw <= column)%Z).
Proof.
  induction fuel as [|f IH]; intros lo hi; cbn [bs_loop]; [left; reflexivity|].
  destruct (lo <? hi) eqn:E; [|left; reflexivity]. apply N.ltb_lt in E.
  destruct (half_between lo hi E) as [M1 M2]. set (m := (lo + hi) / 2) in *.
  destruct (nth_opt rows m) as [rw|] eqn:Hrw; [|left; reflexivity].
  destruct (row_col rw <=? column)%Z eqn:C.
  - apply Z.leb_le in C. right. destruct (IH (m + 1) hi) as [H|[H1 H2]].
    + rewrite H. split; [lia|]. exists rw. replace (m + 1 - 1) with m by lia. split; assumption.
    + split; [lia|exact H2].
  - destruct (IH lo m) as [H|[H1 H2]]; [left; exact H|right; split; assumption].
Qed.

Theorem find_inner_le st line column rw ch :
  find_inner st line column = Some (rw, ch) -> (1 <= line)%Z /\ (row_col rw <= column)%Z.
Proof.
  unfold find_inner. destruct (line <? 1)%Z eqn:E; [discriminate|]. apply Z.ltb_ge in E.
  destruct (nth_opt (b_lines st) (Z.to_N line - 1)) as [[rows chunks]|]; [|discriminate].
  destruct (bs_loop_le rows column (S (length rows)) 0 (len rows)) as [H|[H1 [r [H2 H3]]]].
  - rewrite H. cbn. discriminate.
  - set (l := bs_loop (S (length rows)) rows column 0 (len rows)) in *.
    destruct (l =? 0); [discriminate|]. rewrite H2. destruct (nth_opt chunks (l - 1)); [|discriminate].
    intros Q. inversion Q. subst. split; [lia|exact H3].
Qed.

Print Assumptions bs_loop_inv.
Print Assumptions bs_loop_partition.
Print Assumptions bs_loop_count.
Print Assumptions find_inner_spec.
Print Assumptions find_inner_none.
Print Assumptions find_inner_line0.
Print Assumptions find_inner_beyond.
Print Assumptions inner_events_paired.
Print Assumptions find_inner_le.
