(* Rope: bridging lemmas for the N-indexed list helpers, piece-table offsets,
   constructors preserve well-formedness / validity (R0), length (R1). *)
From RS Require Import Base.Prelude Base.Text Rope.RopeModel Proofs.RopeBasic.

(* ------------------------------------------------------------------ *)
(* len / take / drop / nth_opt                                         *)
(* ------------------------------------------------------------------ *)
Lemma len_nil {A} : len (@nil A) = 0.
Proof. reflexivity. Qed.

Lemma len_cons {A} (x : A) (l : list A) : len (x :: l) = len l + 1.
Proof. unfold len. cbn [length]. lia. Qed.

Lemma len_app {A} (a b : list A) : len (a ++ b) = len a + len b.
Proof. unfold len. rewrite app_length. lia. Qed.

Lemma len_0 {A} (l : list A) : len l = 0 -> l = [].
Proof. destruct l as [|x l]; [reflexivity|]. rewrite len_cons. lia. Qed.

Lemma len_length {A} (l : list A) : N.to_nat (len l) = length l.
Proof. unfold len. lia. Qed.

Lemma len_rev {A} (l : list A) : len (rev l) = len l.
Proof. unfold len. rewrite rev_length. reflexivity. Qed.

Lemma len_map {A B} (f : A -> B) (l : list A) : len (map f l) = len l.
Proof. unfold len. rewrite map_length. reflexivity. Qed.

Lemma is_nil_len {A} (l : list A) : is_nil l = (len l =? 0).
Proof.
  destruct l as [|x l]; [reflexivity|]. rewrite len_cons. cbn [is_nil].
  symmetry. apply N.eqb_neq. lia.
Qed.

Lemma is_nil_false {A} (l : list A) : is_nil l = false -> 0 < len l.
Proof. rewrite is_nil_len. intros H. apply N.eqb_neq in H. lia. Qed.

Lemma is_nil_false_ne {A} (l : list A) : is_nil l = false -> l <> [].
Proof. destruct l; [discriminate|intros _; discriminate]. Qed.

Lemma take_0 {A} (l : list A) : take 0 l = [].
Proof. reflexivity. Qed.

Lemma take_nil {A} (n : N) : take n (@nil A) = [].
Proof. unfold take. apply firstn_nil. Qed.

Lemma take_all {A} (n : N) (l : list A) : len l <= n -> take n l = l.
Proof. unfold take, len. intros H. apply firstn_all2. lia. Qed.

Lemma take_app_l {A} (n : N) (a b : list A) : n <= len a -> take n (a ++ b) = take n a.
Proof.
  unfold take, len. intros H. rewrite firstn_app.
  replace (N.to_nat n - length a)%nat with 0%nat by lia.
  cbn [firstn]. apply app_nil_r.
Qed.

Lemma take_app_r {A} (n : N) (a b : list A) :
  len a <= n -> take n (a ++ b) = a ++ take (n - len a) b.
Proof.
  unfold take, len. intros H. rewrite firstn_app. rewrite firstn_all2 by lia.
  f_equal. f_equal. lia.
Qed.

Lemma take_succ_cons {A} (n : N) (x : A) (l : list A) : take (n + 1) (x :: l) = x :: take n l.
Proof.
  unfold take. replace (N.to_nat (n + 1)) with (S (N.to_nat n)) by lia. reflexivity.
Qed.

Lemma drop_0 {A} (l : list A) : drop 0 l = l.
Proof. reflexivity. Qed.

Lemma drop_nil {A} (n : N) : drop n (@nil A) = [].
Proof. unfold drop. apply skipn_nil. Qed.

Lemma drop_all {A} (n : N) (l : list A) : len l <= n -> drop n l = [].
Proof. unfold drop, len. intros H. apply skipn_all2. lia. Qed.

Lemma drop_app_l {A} (n : N) (a b : list A) : n <= len a -> drop n (a ++ b) = drop n a ++ b.
Proof.
  unfold drop, len. intros H. rewrite skipn_app.
  replace (N.to_nat n - length a)%nat with 0%nat by lia. reflexivity.
Qed.

Lemma drop_app_r {A} (n : N) (a b : list A) : len a <= n -> drop n (a ++ b) = drop (n - len a) b.
Proof.
  unfold drop, len. intros H. rewrite skipn_app. rewrite skipn_all2 by lia.
  cbn [app]. f_equal. lia.
Qed.

Lemma drop_len_app {A} (a b : list A) : drop (len a) (a ++ b) = b.
Proof. rewrite drop_app_r by lia. rewrite N.sub_diag. reflexivity. Qed.

Lemma take_len_app {A} (a b : list A) : take (len a) (a ++ b) = a.
Proof. rewrite take_app_l by lia. apply take_all. lia. Qed.

Lemma drop_succ_cons {A} (n : N) (x : A) (l : list A) : drop (n + 1) (x :: l) = drop n l.
Proof.
  unfold drop. replace (N.to_nat (n + 1)) with (S (N.to_nat n)) by lia. reflexivity.
Qed.

Lemma take_drop {A} (n : N) (l : list A) : take n l ++ drop n l = l.
Proof. unfold take, drop. apply firstn_skipn. Qed.

Lemma len_take {A} (n : N) (l : list A) : len (take n l) = N.min n (len l).
Proof. unfold take, len. rewrite firstn_length. lia. Qed.

Lemma len_take_le {A} (n : N) (l : list A) : n <= len l -> len (take n l) = n.
Proof. intros H. rewrite len_take. lia. Qed.

Lemma len_drop {A} (n : N) (l : list A) : len (drop n l) = len l - n.
Proof. unfold drop, len. rewrite skipn_length. lia. Qed.

Lemma skipn_skipn_nat {A} (n m : nat) (l : list A) : skipn n (skipn m l) = skipn (m + n) l.
Proof.
  revert l. induction m as [|m IH]; intros l; [reflexivity|].
  destruct l as [|x l]; [cbn [skipn plus]; apply skipn_nil|]. cbn [skipn plus]. apply IH.
Qed.

Lemma drop_drop {A} (n m : N) (l : list A) : drop n (drop m l) = drop (m + n) l.
Proof.
  unfold drop. rewrite skipn_skipn_nat. f_equal. lia.
Qed.

Lemma take_take {A} (n m : N) (l : list A) : take n (take m l) = take (N.min n m) l.
Proof.
  unfold take. rewrite firstn_firstn. f_equal. lia.
Qed.

Lemma take_drop_comm {A} (n m : N) (l : list A) : take n (drop m l) = drop m (take (m + n) l).
Proof.
  unfold take, drop. rewrite firstn_skipn_comm. f_equal. f_equal. lia.
Qed.

Lemma nth_opt_nil {A} (i : N) : nth_opt (@nil A) i = None.
Proof. unfold nth_opt. destruct (N.to_nat i); reflexivity. Qed.

Lemma nth_opt_cons_0 {A} (x : A) (l : list A) : nth_opt (x :: l) 0 = Some x.
Proof. reflexivity. Qed.

Lemma nth_opt_cons_succ {A} (x : A) (l : list A) (i : N) : nth_opt (x :: l) (i + 1) = nth_opt l i.
Proof.
  unfold nth_opt. replace (N.to_nat (i + 1)) with (S (N.to_nat i)) by lia. reflexivity.
Qed.

Lemma nth_opt_cons_pos {A} (x : A) (l : list A) (i : N) :
  0 < i -> nth_opt (x :: l) i = nth_opt l (i - 1).
Proof.
  intros H. replace i with (i - 1 + 1) at 1 by lia. apply nth_opt_cons_succ.
Qed.

Lemma nth_opt_app_l {A} (a b : list A) (i : N) : i < len a -> nth_opt (a ++ b) i = nth_opt a i.
Proof. unfold nth_opt, len. intros H. apply nth_error_app1. lia. Qed.

Lemma nth_opt_app_r {A} (a b : list A) (i : N) :
  len a <= i -> nth_opt (a ++ b) i = nth_opt b (i - len a).
Proof.
  unfold nth_opt, len. intros H. rewrite nth_error_app2 by lia. f_equal. lia.
Qed.

Lemma nth_opt_len_app {A} (a b : list A) (x : A) : nth_opt (a ++ x :: b) (len a) = Some x.
Proof. rewrite nth_opt_app_r by lia. rewrite N.sub_diag. reflexivity. Qed.

Lemma nth_opt_none {A} (l : list A) (i : N) : len l <= i -> nth_opt l i = None.
Proof. unfold nth_opt, len. intros H. apply nth_error_None. lia. Qed.

Lemma nth_opt_some {A} (l : list A) (i : N) : i < len l -> exists x, nth_opt l i = Some x.
Proof.
  unfold nth_opt, len. intros H.
  destruct (nth_error l (N.to_nat i)) as [x|] eqn:E; [exists x; reflexivity|].
  apply nth_error_None in E. lia.
Qed.

Lemma nth_opt_some_lt {A} (l : list A) (i : N) (x : A) : nth_opt l i = Some x -> i < len l.
Proof.
  unfold nth_opt, len. intros H.
  assert (Hn : nth_error l (N.to_nat i) <> None) by (rewrite H; discriminate).
  apply nth_error_Some in Hn. lia.
Qed.

Lemma nth_opt_drop {A} (l : list A) (n i : N) : nth_opt (drop n l) i = nth_opt l (n + i).
Proof.
  rewrite <- (take_drop n l) at 2.
  destruct (N.le_gt_cases n (len l)) as [H|H].
  - rewrite nth_opt_app_r by (rewrite len_take; lia). f_equal. rewrite len_take. lia.
  - rewrite drop_all by lia. rewrite nth_opt_nil. rewrite app_nil_r.
    symmetry. apply nth_opt_none. rewrite len_take. lia.
Qed.

Lemma nth_opt_take {A} (l : list A) (n i : N) : i < n -> nth_opt (take n l) i = nth_opt l i.
Proof.
  intros H. rewrite <- (take_drop n l) at 2.
  destruct (N.lt_ge_cases i (len (take n l))) as [H1|H1].
  - rewrite nth_opt_app_l by exact H1. reflexivity.
  - rewrite nth_opt_none by exact H1. rewrite len_take in H1.
    assert (Hl : len l <= n) by lia.
    rewrite drop_all by exact Hl. rewrite app_nil_r.
    rewrite take_all by exact Hl. symmetry. apply nth_opt_none. lia.
Qed.

Lemma nth_opt_map {A B} (f : A -> B) (l : list A) (i : N) :
  nth_opt (map f l) i = option_map f (nth_opt l i).
Proof. unfold nth_opt. apply nth_error_map. Qed.

Lemma slice_app_mid {A} (p c q : list A) (x y : N) :
  x <= y -> y <= len c ->
  slice (len p + x) (len p + y) (p ++ c ++ q) = slice x y c.
Proof.
  intros Hxy Hy. unfold slice.
  rewrite drop_app_r by lia. replace (len p + x - len p) with x by lia.
  rewrite drop_app_l by lia.
  replace (len p + y - (len p + x)) with (y - x) by lia.
  rewrite take_app_l by (rewrite len_drop; lia). reflexivity.
Qed.

(* ------------------------------------------------------------------ *)
(* generic list splitting                                              *)
(* ------------------------------------------------------------------ *)
Lemma app_cons_same {A} (l1 l2 r1 r2 : list A) (x y : A) :
  l1 ++ x :: r1 = l2 ++ y :: r2 -> length l1 = length l2 ->
  l1 = l2 /\ x = y /\ r1 = r2.
Proof.
  revert l2. induction l1 as [|a l1 IH]; intros [|b l2] H Hl; cbn in Hl; try discriminate.
  - cbn in H. injection H as -> ->. auto.
  - cbn in H. injection H as -> H. injection Hl as Hl.
    destruct (IH l2 H Hl) as (-> & -> & ->). auto.
Qed.

Lemma app_cons_split {A} (l1 l2 r1 r2 : list A) (x y : A) :
  l1 ++ x :: r1 = l2 ++ y :: r2 -> (length l1 < length l2)%nat ->
  exists mid, l2 = l1 ++ x :: mid /\ r1 = mid ++ y :: r2.
Proof.
  revert l2. induction l1 as [|a l1 IH]; intros [|b l2] H Hl; cbn in Hl; try lia.
  - cbn in H. injection H as -> ->. exists l2. auto.
  - cbn in H. injection H as -> H.
    destruct (IH l2 H ltac:(lia)) as (mid & -> & ->). exists mid. auto.
Qed.

Lemma forallb_filter {A} (P Q : A -> bool) (l : list A) :
  forallb P l = true -> forallb P (filter Q l) = true.
Proof.
  induction l as [|x l IH]; [reflexivity|]. cbn [forallb filter]. intros H.
  apply andb_prop in H. destruct H as [Hx Hl].
  destruct (Q x); [cbn [forallb]; rewrite Hx, (IH Hl); reflexivity|exact (IH Hl)].
Qed.

Lemma forallb_filter_self {A} (Q : A -> bool) (l : list A) : forallb Q (filter Q l) = true.
Proof.
  induction l as [|x l IH]; [reflexivity|]. cbn [filter].
  destruct (Q x) eqn:E; [cbn [forallb]; rewrite E, IH; reflexivity|exact IH].
Qed.

(* ------------------------------------------------------------------ *)
(* piece tables                                                        *)
(* ------------------------------------------------------------------ *)
Definition nonnil (t : text) : bool := negb (is_nil t).
Definition cat (ps : list (text * N)) : text := concat (map fst ps).

Lemma cat_nil : cat [] = [].
Proof. reflexivity. Qed.

Lemma cat_cons c s ps : cat ((c, s) :: ps) = c ++ cat ps.
Proof. reflexivity. Qed.

Lemma cat_app a b : cat (a ++ b) = cat a ++ cat b.
Proof. unfold cat. rewrite map_app, concat_app. reflexivity. Qed.

Lemma flat_full ps : flat (Full ps) = cat ps.
Proof. reflexivity. Qed.

Lemma offsets_ok_app (a b : list (text * N)) (start : N) :
  offsets_ok (a ++ b) start = offsets_ok a start && offsets_ok b (start + len (cat a)).
Proof.
  revert start. induction a as [|[c s] a IH]; intros start.
  - cbn [app offsets_ok andb]. rewrite cat_nil, len_nil, N.add_0_r. reflexivity.
  - cbn [app offsets_ok]. rewrite IH, cat_cons, len_app, N.add_assoc.
    rewrite !andb_assoc. reflexivity.
Qed.

Lemma offsets_ok_cons c s ps start :
  offsets_ok ((c, s) :: ps) start = true ->
  s = start /\ 0 < len c /\ offsets_ok ps (start + len c) = true.
Proof.
  cbn [offsets_ok]. intros H. apply andb_prop in H. destruct H as [H H3].
  apply andb_prop in H. destruct H as [H1 H2].
  apply N.eqb_eq in H1. apply negb_true_iff in H2. apply is_nil_false in H2. auto.
Qed.

Lemma offsets_ok_cons_intro c s ps start :
  s = start -> 0 < len c -> offsets_ok ps (start + len c) = true ->
  offsets_ok ((c, s) :: ps) start = true.
Proof.
  intros -> Hc H. cbn [offsets_ok]. rewrite N.eqb_refl, H.
  rewrite is_nil_len. replace (len c =? 0) with false by (symmetry; apply N.eqb_neq; lia).
  reflexivity.
Qed.

Lemma offsets_ok_with_offsets (ts : list text) (start : N) :
  forallb nonnil ts = true -> offsets_ok (with_offsets ts start) start = true.
Proof.
  revert start. induction ts as [|t ts IH]; intros start H; [reflexivity|].
  cbn [forallb] in H. apply andb_prop in H. destruct H as [Ht Hts].
  cbn [with_offsets offsets_ok]. rewrite N.eqb_refl. unfold nonnil in Ht. rewrite Ht.
  rewrite (IH _ Hts). reflexivity.
Qed.

Lemma offsets_ok_nonnil (ps : list (text * N)) (start : N) :
  offsets_ok ps start = true -> forallb nonnil (map fst ps) = true.
Proof.
  revert start. induction ps as [|[c s] ps IH]; intros start H; [reflexivity|].
  cbn [offsets_ok] in H. apply andb_prop in H. destruct H as [H H3].
  apply andb_prop in H. destruct H as [_ H2].
  cbn [map fst forallb]. unfold nonnil at 1. rewrite H2. exact (IH _ H3).
Qed.

Lemma full_len_snoc ps c s : full_len (ps ++ [(c, s)]) = s + len c.
Proof. unfold full_len. rewrite rev_app_distr. reflexivity. Qed.

Lemma full_len_ok (ps : list (text * N)) (start : N) :
  offsets_ok ps start = true -> ps <> [] -> full_len ps = start + len (cat ps).
Proof.
  intros H Hne. destruct (exists_last Hne) as [ps' [[c s] ->]].
  rewrite full_len_snoc. rewrite offsets_ok_app in H.
  apply andb_prop in H. destruct H as [_ H].
  apply offsets_ok_cons in H. destruct H as (-> & _ & _).
  rewrite cat_app, len_app. cbn [cat map fst concat]. rewrite app_nil_r. lia.
Qed.

Lemma wf_full ps : rope_wf (Full ps) = true -> ps <> [] /\ offsets_ok ps 0 = true.
Proof.
  cbn [rope_wf]. intros H. apply andb_prop in H. destruct H as [H1 H2].
  apply negb_true_iff in H1. split; [exact (is_nil_false_ne _ H1)|exact H2].
Qed.

Lemma wf_full_intro ps : ps <> [] -> offsets_ok ps 0 = true -> rope_wf (Full ps) = true.
Proof.
  intros Hne H. cbn [rope_wf]. rewrite H. destruct ps; [contradiction|reflexivity].
Qed.

Lemma full_len_wf ps : rope_wf (Full ps) = true -> full_len ps = len (cat ps).
Proof.
  intros H. apply wf_full in H. destruct H as [Hne H].
  rewrite (full_len_ok ps 0 H Hne). lia.
Qed.

Lemma cat_pos ps start : offsets_ok ps start = true -> ps <> [] -> 0 < len (cat ps).
Proof.
  destruct ps as [|[c s] ps]; [contradiction|]. intros H _.
  apply offsets_ok_cons in H. destruct H as (_ & Hc & _).
  rewrite cat_cons, len_app. lia.
Qed.

Lemma cat_len0_nil ps start : offsets_ok ps start = true -> len (cat ps) = 0 -> ps = [].
Proof.
  intros H H0. destruct ps as [|p ps]; [reflexivity|].
  assert (Hp : 0 < len (cat (p :: ps))) by (apply (cat_pos _ start H); discriminate). lia.
Qed.

(* ------------------------------------------------------------------ *)
(* R1: length / emptiness                                              *)
(* ------------------------------------------------------------------ *)
Theorem rope_len_flat (r : rope) : rope_wf r = true -> rope_len r = len (flat r).
Proof.
  destruct r as [t|ps]; intros H; [reflexivity|].
  cbn [rope_len flat]. apply full_len_wf. exact H.
Qed.

Theorem rope_is_empty_flat (r : rope) : rope_is_empty r = is_nil (flat r).
Proof.
  destruct r as [t|ps]; [reflexivity|]. cbn [rope_is_empty flat].
  induction ps as [|[c s] ps IH]; [reflexivity|].
  cbn [forallb map fst concat]. rewrite IH. destruct c; reflexivity.
Qed.

(* ------------------------------------------------------------------ *)
(* R0: constructors preserve well-formedness                           *)
(* ------------------------------------------------------------------ *)
Theorem rope_wf_new : rope_wf rope_new = true.
Proof. reflexivity. Qed.

Theorem rope_wf_from (t : text) : rope_wf (rope_from t) = true.
Proof. reflexivity. Qed.

Theorem rope_wf_from_iter (ts : list text) : rope_wf (rope_from_iter ts) = true.
Proof.
  unfold rope_from_iter.
  destruct (is_nil (with_offsets (filter (fun t => negb (is_nil t)) ts) 0)) eqn:E; [reflexivity|].
  cbn [rope_wf]. rewrite E. cbn [negb andb].
  apply offsets_ok_with_offsets. apply (forallb_filter_self (fun t => negb (is_nil t))).
Qed.

Lemma offsets_ok_two (s v : text) :
  is_nil s = false -> is_nil v = false -> offsets_ok [(s, 0); (v, len s)] 0 = true.
Proof.
  intros Hs Hv. cbn [offsets_ok]. rewrite Hs, Hv. cbn [negb andb N.add].
  rewrite !N.eqb_refl. reflexivity.
Qed.

Theorem rope_wf_add (r : rope) (v : text) : rope_wf r = true -> rope_wf (rope_add r v) = true.
Proof.
  intros H. unfold rope_add. destruct (is_nil v) eqn:Ev; [exact H|].
  destruct r as [s|ps].
  - destruct (is_nil s) eqn:Es; [reflexivity|].
    cbn [rope_wf is_nil negb andb]. apply offsets_ok_two; assumption.
  - destruct (wf_full ps H) as [Hne Hok].
    apply wf_full_intro; [destruct ps; discriminate|].
    rewrite offsets_ok_app, Hok. cbn [andb].
    apply offsets_ok_cons_intro; [|apply is_nil_false; exact Ev|reflexivity].
    rewrite (full_len_ok ps 0 Hok Hne). reflexivity.
Qed.

Theorem rope_wf_append (r o : rope) :
  rope_wf r = true -> rope_wf o = true -> rope_wf (rope_append r o) = true.
Proof.
  intros Hr Ho. destruct r as [s|ps], o as [t|qs]; unfold rope_append.
  - destruct (is_nil t) eqn:Et; [reflexivity|].
    destruct (is_nil s) eqn:Es; [reflexivity|].
    cbn [rope_wf is_nil negb andb]. apply offsets_ok_two; assumption.
  - destruct (is_nil s) eqn:Es; [exact Ho|].
    destruct (wf_full qs Ho) as [Hne Hok].
    apply wf_full_intro; [discriminate|].
    apply offsets_ok_cons_intro; [reflexivity|apply is_nil_false; exact Es|].
    apply offsets_ok_with_offsets. exact (offsets_ok_nonnil _ _ Hok).
  - destruct (is_nil t) eqn:Et; [exact Hr|].
    destruct (wf_full ps Hr) as [Hne Hok].
    apply wf_full_intro; [destruct ps; discriminate|].
    rewrite offsets_ok_app, Hok. cbn [andb].
    apply offsets_ok_cons_intro; [|apply is_nil_false; exact Et|reflexivity].
    rewrite (full_len_ok ps 0 Hok Hne). reflexivity.
  - destruct (is_nil qs) eqn:Eq; [exact Hr|].
    destruct (wf_full ps Hr) as [Hne Hok]. destruct (wf_full qs Ho) as [Hneq Hokq].
    apply wf_full_intro; [destruct ps; discriminate|].
    rewrite offsets_ok_app, Hok. cbn [andb].
    rewrite (full_len_ok ps 0 Hok Hne).
    apply offsets_ok_with_offsets. exact (offsets_ok_nonnil _ _ Hokq).
Qed.

(* ---- validity ---- *)
Theorem rope_valid_new : rope_valid rope_new = true.
Proof. reflexivity. Qed.

Theorem rope_valid_from (t : text) : valid_utf8 t = true -> rope_valid (rope_from t) = true.
Proof. intros H. unfold rope_valid. cbn [rope_from pieces_of forallb]. rewrite H. reflexivity. Qed.

Lemma rope_valid_light (t : text) : rope_valid (Light t) = valid_utf8 t.
Proof. unfold rope_valid. cbn [pieces_of forallb]. apply andb_true_r. Qed.

Lemma rope_valid_full ps : rope_valid (Full ps) = forallb valid_utf8 (map fst ps).
Proof. reflexivity. Qed.

Theorem rope_valid_from_iter (ts : list text) :
  forallb valid_utf8 ts = true -> rope_valid (rope_from_iter ts) = true.
Proof.
  intros H. unfold rope_from_iter.
  destruct (is_nil (with_offsets (filter (fun t => negb (is_nil t)) ts) 0)); [reflexivity|].
  rewrite rope_valid_full, map_fst_with_offsets. apply forallb_filter. exact H.
Qed.

Theorem rope_valid_add (r : rope) (v : text) :
  rope_valid r = true -> valid_utf8 v = true -> rope_valid (rope_add r v) = true.
Proof.
  intros Hr Hv. unfold rope_add. destruct (is_nil v); [exact Hr|].
  destruct r as [s|ps].
  - rewrite rope_valid_light in Hr.
    destruct (is_nil s); [rewrite rope_valid_light; exact Hv|].
    rewrite rope_valid_full. cbn [map fst forallb]. rewrite Hr, Hv. reflexivity.
  - rewrite rope_valid_full in *. rewrite map_app, forallb_app, Hr.
    cbn [map fst forallb]. rewrite Hv. reflexivity.
Qed.

Theorem rope_valid_append (r o : rope) :
  rope_valid r = true -> rope_valid o = true -> rope_valid (rope_append r o) = true.
Proof.
  intros Hr Ho. destruct r as [s|ps], o as [t|qs]; unfold rope_append.
  - rewrite rope_valid_light in Hr, Ho.
    destruct (is_nil t); [rewrite rope_valid_light; exact Hr|].
    destruct (is_nil s); [rewrite rope_valid_light; exact Ho|].
    rewrite rope_valid_full. cbn [map fst forallb]. rewrite Hr, Ho. reflexivity.
  - rewrite rope_valid_light in Hr. rewrite rope_valid_full in Ho.
    destruct (is_nil s); [exact Ho|].
    rewrite rope_valid_full. cbn [map fst forallb]. rewrite map_fst_with_offsets, Hr, Ho.
    reflexivity.
  - rewrite rope_valid_light in Ho. rewrite rope_valid_full in Hr.
    destruct (is_nil t); [exact Hr|].
    rewrite rope_valid_full, map_app, forallb_app, Hr. cbn [map fst forallb].
    rewrite Ho. reflexivity.
  - rewrite rope_valid_full in *.
    destruct (is_nil qs); [exact Hr|].
    rewrite rope_valid_full, map_app, forallb_app, Hr, map_fst_with_offsets. exact Ho.
Qed.

Print Assumptions rope_len_flat.
Print Assumptions rope_is_empty_flat.
Print Assumptions rope_wf_from_iter.
Print Assumptions rope_wf_add.
Print Assumptions rope_wf_append.
Print Assumptions rope_valid_from_iter.
Print Assumptions rope_valid_add.
Print Assumptions rope_valid_append.
