(* C18, CachedSource part: the map cache of the model `Sem/Conc.v` is
   write-once under every interleaving, for any number of threads, any
   programs and any schedule.

   C1  `cstep1 true` (map() keeps an existing entry, fix F8) never changes the
       id bound to a key that has one and only adds a binding for a key that
       has none (`cstep1_keeps`, `cstep1_cache_shape`); hence the recorded
       history is write-once (`C18_write_once`).
   C2  every operation is served from the entry in force: the id a thread
       recorded for an operation on key k is the binding of k in the final
       cache; every thread finishes (`C18_served_in_force`).
   C3  the pinned insert (replace) is refuted by a concrete schedule
       (`C18_write_once_pinned_refuted`).
   C4  no deadlock: every step of a non finished thread strictly decreases a
       natural-number measure (`cstep1_progress`). *)
From RS Require Import Base.Prelude Base.Text Rope.RopeModel Stream.Types Stream.Replace
  Sem.ReplaceObj Sem.Conc.
From Coq Require Import Lia List.
Import ListNotations.

Local Open Scope nat_scope.

(* ================= list helpers ================= *)

Lemma cc_Forall2_nth_error_r {A B} (P : A -> B -> Prop) la lb n b :
  Forall2 P la lb -> nth_error lb n = Some b -> exists a, nth_error la n = Some a /\ P a b.
Proof.
  intros H; revert n; induction H; intros [|n] E; cbn in *; try discriminate.
  - inversion E; subst; eauto.
  - eauto.
Qed.

Lemma cc_Forall2_update_nth_r {A B} (P : A -> B -> Prop) la lb n a b :
  Forall2 P la lb -> nth_error la n = Some a -> P a b -> Forall2 P la (update_nth lb n b).
Proof.
  intros H; revert n; induction H; intros [|n] E Hp; cbn in *; try discriminate.
  - inversion E; subst; constructor; auto.
  - constructor; eauto.
Qed.

Lemma cc_Forall2_impl {A B} (P Q : A -> B -> Prop) la lb :
  (forall a b, P a b -> Q a b) -> Forall2 P la lb -> Forall2 Q la lb.
Proof. intros H; induction 1; constructor; auto. Qed.

Lemma cc_Forall2_rev {A B} (P : A -> B -> Prop) la lb :
  Forall2 P la lb -> Forall2 P (rev la) (rev lb).
Proof. induction 1; cbn; [constructor|]. apply Forall2_app; auto. Qed.

Lemma cc_Forall2_length {A B} (P : A -> B -> Prop) la lb :
  Forall2 P la lb -> length la = length lb.
Proof. induction 1; cbn; auto. Qed.

(* ================= cache extension ================= *)

(* c' extends c: every key bound in c is bound to the same id in c' *)
Definition Ext (c c' : list (N * N)) : Prop :=
  forall k id, cget c k = Some id -> cget c' k = Some id.

Lemma Ext_refl c : Ext c c.
Proof. intros k id H; exact H. Qed.

Lemma Ext_trans c1 c2 c3 : Ext c1 c2 -> Ext c2 c3 -> Ext c1 c3.
Proof. intros H1 H2 k id H; auto. Qed.

Lemma Ext_nil c : Ext [] c.
Proof. intros k id H; discriminate. Qed.

Lemma cget_cons_same k id c : cget ((k, id) :: c) k = Some id.
Proof. cbn [cget]. rewrite N.eqb_refl. reflexivity. Qed.

Lemma Ext_cons_fresh c k id : cget c k = None -> Ext c ((k, id) :: c).
Proof.
  intros Hn k' id' H. cbn [cget]. destruct (N.eqb_spec k k') as [->|]; auto. congruence.
Qed.

(* ================= C1: the step lemmas ================= *)

(* shape of the cache after a step of the fixed model: unchanged, or one new
   binding, with a fresh id, for a key that had none *)
Lemma cstep1_cache_shape sh t :
  cs_cache (fst (cstep1 true sh t)) = cs_cache sh \/
  exists k, cget (cs_cache sh) k = None /\
            cs_cache (fst (cstep1 true sh t)) = (k, cs_next sh) :: cs_cache sh.
Proof.
  unfold cstep1. destruct (ct_ops t) as [|o ops]; [left; reflexivity|].
  destruct (ct_pc t); cbn [fst];
    destruct (cget (cs_cache sh) (ckey o)) eqn:G; cbn [fst cs_cache]; auto;
    right; exists (ckey o); auto.
Qed.

Lemma cstep1_ext sh t : Ext (cs_cache sh) (cs_cache (fst (cstep1 true sh t))).
Proof.
  destruct (cstep1_cache_shape sh t) as [->|(k & Hn & ->)];
    [apply Ext_refl | apply Ext_cons_fresh; auto].
Qed.

(* C1, step lemma as stated: a bound key keeps its id *)
Theorem cstep1_keeps sh t k id :
  cget (cs_cache sh) k = Some id -> cget (cs_cache (fst (cstep1 true sh t))) k = Some id.
Proof. apply cstep1_ext. Qed.

(* C1: a binding present after the step was there before, or its key had none *)
Theorem cstep1_only_adds sh t k id :
  cget (cs_cache (fst (cstep1 true sh t))) k = Some id ->
  cget (cs_cache sh) k = Some id \/ cget (cs_cache sh) k = None.
Proof.
  intros H. destruct (cget (cs_cache sh) k) as [id'|] eqn:G; auto.
  left. apply (cstep1_keeps sh t) in G. congruence.
Qed.

(* ================= chains of snapshots ================= *)

(* accumulator order (newest first): every snapshot is extended by the next newer one,
   the newest by the current cache `cur` *)
Fixpoint RChain (cur : list (N * N)) (acc : list (list (N * N))) : Prop :=
  match acc with
  | [] => True
  | c :: acc' => Ext c cur /\ RChain c acc'
  end.

(* chronological order, starting after `prev` *)
Fixpoint FChain (prev : list (N * N)) (hist : list (list (N * N))) : Prop :=
  match hist with
  | [] => True
  | c :: hist' => Ext prev c /\ FChain c hist'
  end.

Lemma RChain_weaken cur cur' acc : Ext cur cur' -> RChain cur acc -> RChain cur' acc.
Proof. destruct acc; cbn; auto. intros H [H1 H2]; split; auto. eapply Ext_trans; eauto. Qed.

Lemma RChain_push cur cur' acc : Ext cur cur' -> RChain cur acc -> RChain cur' (cur' :: acc).
Proof. intros H R. cbn. split; [apply Ext_refl|]. eapply RChain_weaken; eauto. Qed.

Lemma FChain_weaken prev prev' hist : Ext prev' prev -> FChain prev hist -> FChain prev' hist.
Proof. destruct hist; cbn; auto. intros H [H1 H2]; split; auto. eapply Ext_trans; eauto. Qed.

Lemma RChain_FChain acc : forall cur suffix,
  RChain cur acc -> FChain cur suffix -> FChain [] (rev acc ++ suffix).
Proof.
  induction acc as [|c acc IH]; intros cur suffix R F; cbn [rev app].
  - eapply FChain_weaken; [apply Ext_nil | exact F].
  - destruct R as [Hc R]. rewrite <- app_assoc. cbn [app].
    apply (IH c); auto. cbn. split; [apply Ext_refl|]. eapply FChain_weaken; eauto.
Qed.

Lemma FChain_write_once hist : forall prev, FChain prev hist -> write_once_from prev hist = true.
Proof.
  induction hist as [|c hist IH]; intros prev F; cbn [write_once_from]; auto.
  destruct F as [He F]. apply andb_true_iff. split; [|apply IH; auto].
  apply forallb_forall. intros kv Hin.
  apply in_map_iff in Hin. destruct Hin as (k & <- & Hk).
  apply filter_In in Hk. destruct Hk as [_ Hk]. cbn [fst snd]. unfold entry_of in *.
  destruct (cget prev k) as [id|] eqn:G; [|discriminate].
  rewrite (He k id G). apply N.eqb_refl.
Qed.

Lemma RChain_write_once cur acc : RChain cur acc -> write_once_from [] (rev acc) = true.
Proof.
  intros R. apply FChain_write_once.
  pose proof (RChain_FChain acc cur [] R I) as F. rewrite app_nil_r in F. exact F.
Qed.

(* ================= C2: the thread invariant ================= *)

(* `prog` = the operations already served ++ the remaining ones; each served
   operation recorded the id bound to its key in the cache `c`; CDone iff
   nothing remains *)
Definition ServedBy (c : list (N * N)) (o : cop) (id : N) : Prop := cget c (ckey o) = Some id.

Definition CInvT (c : list (N * N)) (prog : list cop) (t : cthread) : Prop :=
  (exists done, prog = done ++ ct_ops t /\ Forall2 (ServedBy c) done (ct_served t)) /\
  (ct_pc t = CDone <-> ct_ops t = []).

Lemma CInvT_stable c c' prog t : Ext c c' -> CInvT c prog t -> CInvT c' prog t.
Proof.
  intros He [(done & Hp & Hs) Hd]. split; auto. exists done. split; auto.
  eapply cc_Forall2_impl; [|exact Hs]. intros o id H. apply He. exact H.
Qed.

Lemma cstart_not_done o : cstart o <> CDone.
Proof. destruct o; discriminate. Qed.

Lemma CInvT_init c prog : CInvT c prog (cthread_init prog).
Proof.
  split; cbn.
  - exists []. split; auto.
  - destruct prog as [|o ?]; split; auto; try discriminate.
    intros H; exfalso; exact (cstart_not_done _ H).
Qed.

Lemma CInvT_cnext_op c prog t o rest id site fill :
  ct_ops t = o :: rest -> CInvT c prog t -> cget c (ckey o) = Some id ->
  CInvT c prog (cnext_op t id site fill).
Proof.
  intros Eo [(done & Hp & Hs) Hd] Hg. unfold cnext_op. rewrite Eo.
  assert (Forall2 (ServedBy c) (done ++ [o]) (ct_served t ++ [id])).
  { apply Forall2_app; auto. }
  assert (prog = (done ++ [o]) ++ rest).
  { rewrite Hp, Eo, <- app_assoc. reflexivity. }
  destruct rest as [|o' rest]; split; cbn; eauto; try tauto.
  split; [intros E; exfalso; exact (cstart_not_done _ E) | discriminate].
Qed.

Lemma cstep1_inv sh prog t :
  CInvT (cs_cache sh) prog t ->
  CInvT (cs_cache (fst (cstep1 true sh t))) prog (snd (cstep1 true sh t)).
Proof.
  intros W. pose proof (cstep1_ext sh t) as He. revert He. unfold cstep1.
  destruct (ct_ops t) as [|o rest] eqn:Eo; [intros _; exact W|].
  destruct (ct_pc t) eqn:Epc.
  - (* CMapGet *)
    destruct (cget (cs_cache sh) (ckey o)) as [id|] eqn:G; cbn [fst snd]; intros He.
    + eapply CInvT_cnext_op; eauto.
    + destruct W as [(done & Hp & Hs) Hd]. split; cbn.
      * exists done; rewrite <- Eo; auto.
      * split; discriminate.
  - (* CMapInsert *)
    destruct (cget (cs_cache sh) (ckey o)) as [id|] eqn:G; cbn [fst snd cs_cache]; intros He.
    + eapply CInvT_cnext_op; eauto.
    + eapply CInvT_cnext_op; eauto; [eapply CInvT_stable; eauto | apply cget_cons_same].
  - (* CStreamEntry *)
    destruct (cget (cs_cache sh) (ckey o)) as [id|] eqn:G; cbn [fst snd cs_cache]; intros He.
    + eapply CInvT_cnext_op; eauto.
    + eapply CInvT_cnext_op; eauto; [eapply CInvT_stable; eauto | apply cget_cons_same].
  - intros _. exact W.
Qed.

(* ================= C4: progress measure ================= *)

Definition cpc_measure (pc : cpc) : nat :=
  match pc with CMapGet => 2 | CMapInsert => 1 | CStreamEntry => 1 | CDone => 0 end.

Definition cmeasure (t : cthread) : nat := 3 * length (ct_ops t) + cpc_measure (ct_pc t).

Lemma cstart_measure o : cpc_measure (cstart o) <= 2.
Proof. destruct o; cbn; lia. Qed.

Lemma cnext_op_measure t id site fill :
  ct_ops t <> [] -> cmeasure (cnext_op t id site fill) < cmeasure t.
Proof.
  intros H. unfold cmeasure, cnext_op.
  destruct (ct_ops t) as [|o [|o' rest]]; [congruence| |]; cbn [ct_ops ct_pc length cpc_measure]; try lia.
  pose proof (cstart_measure o'). lia.
Qed.

(* C4 (CachedSource).  The statement needs `ct_ops t <> []`: `cstep1` is a no-op
   on a thread without remaining operations whatever its pc, so the ill-formed
   thread `mkCT [] CMapGet ..` is stuck (`cstep1_stuck_illformed` below).  Every
   reachable thread satisfies `ct_pc t = CDone <-> ct_ops t = []` (part of
   `CInvT`), which gives the unconditional `cstep1_progress_reachable`. *)
Theorem cstep1_progress fixed_f8 sh t :
  ct_pc t <> CDone -> ct_ops t <> [] ->
  cmeasure (snd (cstep1 fixed_f8 sh t)) < cmeasure t.
Proof.
  intros Hpc Hops. unfold cstep1.
  destruct (ct_ops t) as [|o rest] eqn:Eo; [congruence|].
  assert (Hne : ct_ops t <> []) by congruence.
  destruct (ct_pc t) eqn:Epc; try congruence.
  - destruct (cget (cs_cache sh) (ckey o)); cbn [snd].
    + apply cnext_op_measure; auto.
    + unfold cmeasure. rewrite Epc, Eo. cbn [ct_ops ct_pc cpc_measure length]. lia.
  - destruct (cget (cs_cache sh) (ckey o)); [destruct fixed_f8|]; cbn [snd];
      apply cnext_op_measure; auto.
  - destruct (cget (cs_cache sh) (ckey o)); cbn [snd]; apply cnext_op_measure; auto.
Qed.

Theorem cstep1_progress_reachable fixed_f8 sh c prog t :
  CInvT c prog t -> ct_pc t <> CDone ->
  cmeasure (snd (cstep1 fixed_f8 sh t)) < cmeasure t.
Proof.
  intros [_ Hd] Hpc. apply cstep1_progress; auto. intros E. apply Hpc, Hd, E.
Qed.

Local Open Scope N_scope.
Example cstep1_stuck_illformed :
  let t := mkCT [] CMapGet [] [] [] in
  cstep1 true (mkCS [] 0 []) t = (mkCS [] 0 [], t) /\ cstep1 false (mkCS [] 0 []) t = (mkCS [] 0 [], t).
Proof. vm_compute. split; reflexivity. Qed.
Local Close Scope N_scope.

(* ================= the runs ================= *)

Lemma crun_schedule_inv sched : forall progs sh ts acc sh' ts' h,
  Forall2 (CInvT (cs_cache sh)) progs ts -> RChain (cs_cache sh) acc ->
  crun_schedule true sh ts sched acc = (sh', ts', h) ->
  exists acc', h = rev acc' /\ Forall2 (CInvT (cs_cache sh')) progs ts' /\ RChain (cs_cache sh') acc'.
Proof.
  induction sched as [|tid sched IH]; intros progs sh ts acc sh' ts' h W R E; cbn [crun_schedule] in E.
  - inversion E; subst. exists acc. auto.
  - destruct (nth_error ts (N.to_nat tid)) as [t|] eqn:En.
    + destruct (cc_Forall2_nth_error_r _ _ _ _ _ W En) as (prog & Ep & Wt).
      pose proof (cstep1_inv sh prog t Wt) as Wt'.
      pose proof (cstep1_ext sh t) as He.
      destruct (cstep1 true sh t) as [sh1 t1]. cbn [fst snd] in *.
      eapply IH; [| |exact E].
      * eapply cc_Forall2_update_nth_r; eauto.
        eapply cc_Forall2_impl; [|exact W]. intros p u. apply CInvT_stable; auto.
      * eapply RChain_push; eauto.
    + eapply IH; eauto.
Qed.

Lemma cfinish_thread_inv prog fuel : forall sh t acc sh' t' acc',
  CInvT (cs_cache sh) prog t -> RChain (cs_cache sh) acc ->
  cfinish_thread fuel true sh t acc = (sh', t', acc') ->
  Ext (cs_cache sh) (cs_cache sh') /\ CInvT (cs_cache sh') prog t' /\ RChain (cs_cache sh') acc' /\
  (cmeasure t <= fuel -> ct_pc t' = CDone).
Proof.
  induction fuel as [|fuel IH]; intros sh t acc sh' t' acc' W R E; cbn [cfinish_thread] in E.
  - inversion E; subst. split; [apply Ext_refl|]. split; [exact W|]. split; [exact R|].
    intros M. unfold cmeasure in M. destruct (ct_pc t'); cbn in M; auto; lia.
  - assert (Hstep : ct_pc t <> CDone ->
              forall sh1 t1, cstep1 true sh t = (sh1, t1) ->
              cfinish_thread fuel true sh1 t1 (cs_cache sh1 :: acc) = (sh', t', acc') ->
              Ext (cs_cache sh) (cs_cache sh') /\ CInvT (cs_cache sh') prog t' /\
              RChain (cs_cache sh') acc' /\ (cmeasure t <= S fuel -> ct_pc t' = CDone)).
    { intros Hpc sh1 t1 Es E1.
      pose proof (cstep1_inv sh prog t W) as W1.
      pose proof (cstep1_ext sh t) as He.
      pose proof (cstep1_progress_reachable true sh _ prog t W Hpc) as P.
      rewrite Es in W1, He, P. cbn [fst snd] in *.
      destruct (IH sh1 t1 _ sh' t' acc' W1 (RChain_push _ _ _ He R) E1) as (A & B & C & D).
      split; [eapply Ext_trans; eauto|]. split; [exact B|]. split; [exact C|].
      intros M. apply D. lia. }
    destruct (ct_pc t) eqn:Epc.
    4: { inversion E; subst. split; [apply Ext_refl|]. split; [exact W|]. split; [exact R|]. auto. }
    all: destruct (cstep1 true sh t) as [sh1 t1] eqn:Es; eapply Hstep; eauto; discriminate.
Qed.

Lemma cmeasure_fuel t : cmeasure t <= 4 * S (length (ct_ops t)).
Proof. unfold cmeasure. destruct (ct_pc t); cbn [cpc_measure]; lia. Qed.

Definition CFinished (c : list (N * N)) (prog : list cop) (t : cthread) : Prop :=
  ct_pc t = CDone /\ ct_ops t = [] /\ Forall2 (ServedBy c) prog (ct_served t).

Lemma CFinished_stable c c' prog t : Ext c c' -> CFinished c prog t -> CFinished c' prog t.
Proof.
  intros He (A & B & C). repeat split; auto.
  eapply cc_Forall2_impl; [|exact C]. intros o id H. apply He. exact H.
Qed.

Lemma CInvT_done_finished c prog t : CInvT c prog t -> ct_pc t = CDone -> CFinished c prog t.
Proof.
  intros [(done & Hp & Hs) Hd] E. pose proof (proj1 Hd E) as Eo. repeat split; auto.
  rewrite Eo, app_nil_r in Hp. subst. exact Hs.
Qed.

Lemma cfinish_inv : forall ts progs sh done dprogs acc sh' ts' h,
  Forall2 (CInvT (cs_cache sh)) progs ts -> Forall2 (CFinished (cs_cache sh)) dprogs done ->
  RChain (cs_cache sh) acc ->
  cfinish true sh ts done acc = (sh', ts', h) ->
  exists acc', h = rev acc' /\ RChain (cs_cache sh') acc' /\
               Forall2 (CFinished (cs_cache sh')) (rev dprogs ++ progs) ts'.
Proof.
  induction ts as [|t ts IH]; intros progs sh done dprogs acc sh' ts' h W D R E; cbn [cfinish] in E.
  - inversion E; subst. inversion W; subst. exists acc. repeat split; auto.
    rewrite app_nil_r. apply cc_Forall2_rev; auto.
  - inversion W as [|prog ? progs' ? Wt W']; subst.
    destruct (cfinish_thread (4 * S (length (ct_ops t))) true sh t acc) as [[sh1 t1] acc1] eqn:Ef.
    destruct (cfinish_thread_inv prog _ _ _ _ _ _ _ Wt R Ef) as (He & Wt1 & R1 & Dn).
    specialize (Dn (cmeasure_fuel t)).
    replace (rev dprogs ++ prog :: progs') with (rev (prog :: dprogs) ++ progs')
      by (cbn; rewrite <- app_assoc; reflexivity).
    eapply IH; [| |exact R1|exact E].
    + eapply cc_Forall2_impl; [|exact W']. intros p u. apply CInvT_stable; auto.
    + constructor; [apply CInvT_done_finished; auto|].
      eapply cc_Forall2_impl; [|exact D]. intros p u. apply CFinished_stable; auto.
Qed.

Lemma CInvT_init_all c progs : Forall2 (CInvT c) progs (map cthread_init progs).
Proof. induction progs; cbn; constructor; auto. apply CInvT_init. Qed.

(* the whole run of the fixed model *)
Lemma cached_run_inv progs sched sh ts hist :
  cached_run true progs sched = (sh, ts, hist) ->
  exists acc, hist = rev acc /\ RChain (cs_cache sh) acc /\
              Forall2 (CFinished (cs_cache sh)) progs ts.
Proof.
  unfold cached_run. intros E.
  destruct (crun_schedule true (mkCS [] 0%N []) (map cthread_init progs) sched [])
    as [[sh1 ts1] h1] eqn:E1.
  pose proof (CInvT_init_all (cs_cache (mkCS [] 0%N [])) progs) as W0.
  destruct (crun_schedule_inv sched _ _ _ [] _ _ _ W0 I E1) as (acc1 & -> & W1 & R1).
  rewrite rev_involutive in E.
  destruct (cfinish_inv _ _ _ [] [] _ _ _ _ W1 (Forall2_nil _) R1 E) as (acc & -> & R & F).
  exists acc. auto.
Qed.

(* ================= C1: write-once ================= *)

Theorem C18_write_once : forall progs sched,
  let '(sh, ts, hist) := cached_run true progs sched in write_once_from [] hist = true.
Proof.
  intros progs sched.
  destruct (cached_run true progs sched) as [[sh ts] hist] eqn:E.
  destruct (cached_run_inv _ _ _ _ _ E) as (acc & -> & R & _).
  eapply RChain_write_once; eauto.
Qed.

(* `write_once_from` only inspects keys 0..3; the property itself holds for every key:
   along the recorded history, a key bound in a snapshot is bound to the same id in
   every later snapshot and in the final cache *)
Lemma FChain_all_keys hist : forall prev,
  FChain prev hist -> forall c, In c hist -> Ext prev c.
Proof.
  induction hist as [|c0 hist IH]; intros prev F c Hin; [destruct Hin|].
  destruct F as [He F]. destruct Hin as [<-|Hin]; auto.
  eapply Ext_trans; [exact He|]. apply IH; auto.
Qed.

Lemma FChain_app_inv h1 : forall prev h2,
  FChain prev (h1 ++ h2) -> FChain prev h1 /\ forall c, In c h1 -> forall c', In c' h2 -> Ext c c'.
Proof.
  induction h1 as [|c0 h1 IH]; intros prev h2 F; cbn in *.
  - split; auto. intros c [].
  - destruct F as [He F]. destruct (IH _ _ F) as [F1 H]. split; [split; auto|].
    intros c [<-|Hin] c' Hin'; [|eauto].
    apply (FChain_all_keys (h1 ++ h2) c0 F). apply in_or_app; auto.
Qed.

Theorem C18_write_once_all_keys : forall progs sched,
  let '(sh, ts, hist) := cached_run true progs sched in
  (forall h1 c h2 c', hist = h1 ++ c :: h2 -> In c' h2 ->
     forall k id, cget c k = Some id -> cget c' k = Some id) /\
  (forall c, In c hist -> forall k id, cget c k = Some id -> cget (cs_cache sh) k = Some id).
Proof.
  intros progs sched.
  destruct (cached_run true progs sched) as [[sh ts] hist] eqn:E.
  destruct (cached_run_inv _ _ _ _ _ E) as (acc & -> & R & _).
  pose proof (RChain_FChain acc _ [] R I) as F. rewrite app_nil_r in F. split.
  - intros h1 c h2 c' Eh Hin. rewrite Eh in F.
    replace (h1 ++ c :: h2) with ((h1 ++ [c]) ++ h2) in F by (rewrite <- app_assoc; reflexivity).
    destruct (FChain_app_inv _ _ _ F) as [_ H].
    apply (H c); auto. apply in_or_app; right; left; reflexivity.
  - intros c Hin. apply in_rev in Hin. clear F E.
    revert c Hin. generalize (cs_cache sh) R. clear.
    induction acc as [|c0 acc IH]; intros cur R c Hin; [destruct Hin|].
    destruct R as [He R]. destruct Hin as [<-|Hin]; [exact He|].
    intros k id G. apply He. apply (IH c0 R c Hin). exact G.
Qed.

(* ================= C2: served from the entry in force; termination ================= *)

Theorem C18_served_in_force : forall progs sched,
  let '(sh, ts, hist) := cached_run true progs sched in
  Forall2 (fun ops t =>
             ct_pc t = CDone /\ ct_ops t = [] /\ length (ct_served t) = length ops /\
             Forall2 (fun o id => cget (cs_cache sh) (ckey o) = Some id) ops (ct_served t))
          progs ts.
Proof.
  intros progs sched.
  destruct (cached_run true progs sched) as [[sh ts] hist] eqn:E.
  destruct (cached_run_inv _ _ _ _ _ E) as (acc & _ & _ & F).
  eapply cc_Forall2_impl; [|exact F]. intros ops t (A & B & C). repeat split; auto.
  symmetry. eapply cc_Forall2_length; eauto.
Qed.

(* ================= termination for both insert modes ================= *)

(* bookkeeping that does not depend on the cache: served + remaining = the program *)
Definition CWf (prog : list cop) (t : cthread) : Prop :=
  length (ct_served t) + length (ct_ops t) = length prog /\
  (ct_pc t = CDone <-> ct_ops t = []).

Lemma CWf_init prog : CWf prog (cthread_init prog).
Proof.
  split; cbn; auto. destruct prog as [|o ?]; split; auto; try discriminate.
  intros H; exfalso; exact (cstart_not_done _ H).
Qed.

Lemma CWf_cnext_op prog t id site fill :
  CWf prog t -> ct_ops t <> [] -> CWf prog (cnext_op t id site fill).
Proof.
  intros [Hl Hd] Hn. unfold cnext_op.
  destruct (ct_ops t) as [|o [|o' rest]] eqn:E; [congruence| |].
  - split; cbn; [rewrite app_length; cbn in *; lia | tauto].
  - split; cbn; [rewrite app_length; cbn in *; lia |].
    split; [intros H; exfalso; exact (cstart_not_done _ H) | discriminate].
Qed.

Lemma cstep1_wf fixed_f8 sh prog t : CWf prog t -> CWf prog (snd (cstep1 fixed_f8 sh t)).
Proof.
  intros W. unfold cstep1.
  destruct (ct_ops t) as [|o rest] eqn:Eo; [exact W|].
  assert (Hne : ct_ops t <> []) by congruence.
  destruct (ct_pc t) eqn:Epc.
  - destruct (cget (cs_cache sh) (ckey o)); cbn [snd]; [apply CWf_cnext_op; auto|].
    destruct W as [Hl Hd]. rewrite Eo in Hl. split; cbn [ct_served ct_ops ct_pc]; [exact Hl | split; discriminate].
  - destruct (cget (cs_cache sh) (ckey o)); [destruct fixed_f8|]; cbn [snd]; apply CWf_cnext_op; auto.
  - destruct (cget (cs_cache sh) (ckey o)); cbn [snd]; apply CWf_cnext_op; auto.
  - exact W.
Qed.

Lemma crun_schedule_wf fixed_f8 sched : forall progs sh ts acc sh' ts' h,
  Forall2 CWf progs ts -> crun_schedule fixed_f8 sh ts sched acc = (sh', ts', h) ->
  Forall2 CWf progs ts'.
Proof.
  induction sched as [|tid sched IH]; intros progs sh ts acc sh' ts' h W E; cbn [crun_schedule] in E.
  - inversion E; subst. exact W.
  - destruct (nth_error ts (N.to_nat tid)) as [t|] eqn:En; [|eapply IH; eauto].
    destruct (cc_Forall2_nth_error_r _ _ _ _ _ W En) as (prog & Ep & Wt).
    pose proof (cstep1_wf fixed_f8 sh prog t Wt) as Wt'.
    destruct (cstep1 fixed_f8 sh t) as [sh1 t1]. cbn [snd] in *.
    eapply IH; [|exact E]. eapply cc_Forall2_update_nth_r; eauto.
Qed.

Lemma cfinish_thread_wf fixed_f8 prog fuel : forall sh t acc sh' t' acc',
  CWf prog t -> cfinish_thread fuel fixed_f8 sh t acc = (sh', t', acc') ->
  CWf prog t' /\ (cmeasure t <= fuel -> ct_pc t' = CDone).
Proof.
  induction fuel as [|fuel IH]; intros sh t acc sh' t' acc' W E; cbn [cfinish_thread] in E.
  - inversion E; subst. split; auto.
    intros M. unfold cmeasure in M. destruct (ct_pc t'); cbn in M; auto; lia.
  - assert (Hstep : ct_pc t <> CDone ->
              forall sh1 t1, cstep1 fixed_f8 sh t = (sh1, t1) ->
              cfinish_thread fuel fixed_f8 sh1 t1 (cs_cache sh1 :: acc) = (sh', t', acc') ->
              CWf prog t' /\ (cmeasure t <= S fuel -> ct_pc t' = CDone)).
    { intros Hpc sh1 t1 Es E1.
      pose proof (cstep1_wf fixed_f8 sh prog t W) as W1.
      assert (Hne : ct_ops t <> []) by (intros Eo; apply Hpc, (proj2 W), Eo).
      pose proof (cstep1_progress fixed_f8 sh t Hpc Hne) as P.
      rewrite Es in W1, P. cbn [snd] in *.
      destruct (IH sh1 t1 _ sh' t' acc' W1 E1) as (A & D).
      split; auto. intros M. apply D. lia. }
    destruct (ct_pc t) eqn:Epc.
    4: { inversion E; subst. split; auto. }
    all: destruct (cstep1 fixed_f8 sh t) as [sh1 t1] eqn:Es; eapply Hstep; eauto; discriminate.
Qed.

Definition CFin (prog : list cop) (t : cthread) : Prop :=
  ct_pc t = CDone /\ ct_ops t = [] /\ length (ct_served t) = length prog.

Lemma cfinish_wf fixed_f8 : forall ts progs sh done dprogs acc sh' ts' h,
  Forall2 CWf progs ts -> Forall2 CFin dprogs done ->
  cfinish fixed_f8 sh ts done acc = (sh', ts', h) ->
  Forall2 CFin (rev dprogs ++ progs) ts'.
Proof.
  induction ts as [|t ts IH]; intros progs sh done dprogs acc sh' ts' h W D E; cbn [cfinish] in E.
  - inversion E; subst. inversion W; subst. rewrite app_nil_r. apply cc_Forall2_rev; auto.
  - inversion W as [|prog ? progs' ? Wt W']; subst.
    destruct (cfinish_thread (4 * S (length (ct_ops t))) fixed_f8 sh t acc) as [[sh1 t1] acc1] eqn:Ef.
    destruct (cfinish_thread_wf fixed_f8 prog _ _ _ _ _ _ _ Wt Ef) as (Wt1 & Dn).
    specialize (Dn (cmeasure_fuel t)).
    replace (rev dprogs ++ prog :: progs') with (rev (prog :: dprogs) ++ progs')
      by (cbn; rewrite <- app_assoc; reflexivity).
    eapply IH; [exact W'| |exact E].
    constructor; auto. destruct Wt1 as [Hl Hd]. pose proof (proj1 Hd Dn) as Eo.
    repeat split; auto. rewrite Eo in Hl; cbn in Hl; lia.
Qed.

(* for both insert modes: after `cached_run` every thread is CDone, has no
   operation left and has served exactly the operations of its program: no
   thread gets stuck and the fuel of `cfinish` suffices *)
Theorem C18_cached_terminates : forall fixed_f8 progs sched,
  let '(sh, ts, hist) := cached_run fixed_f8 progs sched in
  Forall2 (fun ops t => ct_pc t = CDone /\ ct_ops t = [] /\ length (ct_served t) = length ops)
          progs ts.
Proof.
  intros fixed_f8 progs sched. unfold cached_run.
  destruct (crun_schedule fixed_f8 (mkCS [] 0%N []) (map cthread_init progs) sched [])
    as [[sh1 ts1] h1] eqn:E1.
  assert (W0 : Forall2 CWf progs (map cthread_init progs)).
  { clear. induction progs; cbn; constructor; auto. apply CWf_init. }
  pose proof (crun_schedule_wf fixed_f8 sched _ _ _ _ _ _ _ W0 E1) as W1.
  destruct (cfinish fixed_f8 sh1 ts1 [] (rev h1)) as [[sh ts] hist] eqn:E.
  exact (cfinish_wf fixed_f8 _ _ _ [] [] _ _ _ _ W1 (Forall2_nil _) E).
Qed.

(* ================= C3: the pinned insert is refuted ================= *)

Local Open Scope N_scope.

(* thread 0: map(key 0); thread 1: stream_chunks(key 0).
   The map misses; the stream stores entry id 0; the map's insert replaces it with id 1. *)
Definition c3_progs : list (list cop) := [[CopMap 0]; [CopStream 0]].
Definition c3_sched : list N := [0; 1; 0].

Example c3_witness :
  cached_run false c3_progs c3_sched =
  (mkCS [(0, 1); (0, 0)] 2 [0],
   [mkCT [] CDone [1] [0; 1] [true]; mkCT [] CDone [0] [2] [true]],
   [[]; [(0, 0)]; [(0, 1); (0, 0)]]).
Proof. vm_compute. reflexivity. Qed.

(* the same schedule with the fixed insert: the map is served from the stream's entry *)
Example c3_fixed_ok :
  cached_run true c3_progs c3_sched =
  (mkCS [(0, 0)] 1 [0],
   [mkCT [] CDone [0] [0; 1] [false]; mkCT [] CDone [0] [2] [true]],
   [[]; [(0, 0)]; [(0, 0)]]).
Proof. vm_compute. reflexivity. Qed.

Theorem C18_write_once_pinned_refuted :
  exists progs sched,
    let '(sh, ts, hist) := cached_run false progs sched in write_once_from [] hist = false.
Proof. exists c3_progs, c3_sched. rewrite c3_witness. vm_compute. reflexivity. Qed.

(* under the pinned insert the stream's operation is not served from the entry in force *)
Theorem C18_served_in_force_pinned_refuted :
  exists progs sched,
    let '(sh, ts, hist) := cached_run false progs sched in
    exists t id, In t ts /\ In id (ct_served t) /\ cget (cs_cache sh) 0 <> Some id.
Proof.
  exists c3_progs, c3_sched. rewrite c3_witness.
  exists (mkCT [] CDone [0] [2] [true]), 0. cbn. repeat split; auto. discriminate.
Qed.

Print Assumptions cstep1_keeps.
Print Assumptions cstep1_cache_shape.
Print Assumptions C18_write_once.
Print Assumptions C18_write_once_all_keys.
Print Assumptions C18_served_in_force.
Print Assumptions C18_cached_terminates.
Print Assumptions cstep1_progress.
Print Assumptions cstep1_progress_reachable.
Print Assumptions C18_write_once_pinned_refuted.
Print Assumptions C18_served_in_force_pinned_refuted.
