(* ReplaceSource, histories: the lazily sorted index is always consistent with
   the replacements whenever the is_sorted flag is set; every text rendered by
   an observer is the reference text of the replacements pushed so far, so the
   result depends only on the inner text and the sequence of replace / insert
   calls, never on which observers (or clones) were interleaved. *)
From Coq Require Import List NArith Bool Lia.
From RS Require Import Base.Prelude Base.Text Rope.RopeModel Stream.Types Stream.Replace Sem.ReplaceObj.
From RS Require Import Proofs.ReplaceSort Proofs.ReplaceText.
Import ListNotations.

(* ------------------------------------------------------------------ *)
(* S5: the object invariant *)

Definition Inv (o : robj) : Prop :=
  ob_sorted o = true -> snd (robj_sorted o) = sort_repls (ob_repls o).

(* the stronger, index-level form *)
Definition InvIdx (o : robj) : Prop :=
  ob_sorted o = true -> ob_index o = sort_index (ob_repls o).

Lemma InvIdx_Inv (o : robj) : InvIdx o -> Inv o.
Proof.
  intros H Hs. specialize (H Hs).
  unfold robj_sorted, robj_sort. rewrite Hs. cbn [snd]. rewrite H.
  apply sort_index_get.
Qed.

Lemma Inv_new : Inv robj_new.
Proof. intros _. reflexivity. Qed.

Lemma InvIdx_new : InvIdx robj_new.
Proof. intros _. reflexivity. Qed.

(* what sorted_replacement returns, under the invariant *)
Lemma robj_sorted_snd (o : robj) : Inv o -> snd (robj_sorted o) = sort_repls (ob_repls o).
Proof.
  intros HI. destruct (ob_sorted o) eqn:Hs.
  - apply HI. exact Hs.
  - destruct o as [rs idx fl]. cbn [ob_sorted] in Hs. subst fl.
    apply sort_index_correct.
Qed.

Lemma robj_sort_repls (o : robj) : ob_repls (robj_sort o) = ob_repls o.
Proof. unfold robj_sort. destruct (ob_sorted o); reflexivity. Qed.

Lemma robj_sort_flag (o : robj) : ob_sorted (robj_sort o) = true.
Proof. unfold robj_sort. destruct (ob_sorted o) eqn:E; [exact E|reflexivity]. Qed.

Lemma robj_sort_idem (o : robj) : robj_sort (robj_sort o) = robj_sort o.
Proof. unfold robj_sort at 1. rewrite robj_sort_flag. reflexivity. Qed.

Lemma Inv_sort (o : robj) : Inv o -> Inv (robj_sort o).
Proof.
  intros HI _. pose proof (robj_sorted_snd o HI) as H.
  unfold robj_sorted in *. rewrite robj_sort_idem. rewrite !robj_sort_repls in *.
  exact H.
Qed.

Lemma InvIdx_sort (o : robj) : InvIdx o -> InvIdx (robj_sort o).
Proof.
  intros HI _. unfold robj_sort. destruct (ob_sorted o) eqn:E.
  - apply HI. exact E.
  - reflexivity.
Qed.

Lemma rstep_repls (inner : text) (o : robj) (c : rcall) :
  ob_repls (fst (rstep inner o c)) = ob_repls o ++ pushed [c].
Proof.
  destruct c as [r|k|]; cbn [rstep pushed].
  - reflexivity.
  - destruct (observer_sorts o k).
    + unfold robj_sorted. cbn [fst]. rewrite robj_sort_repls, app_nil_r. reflexivity.
    + cbn [fst]. rewrite app_nil_r. reflexivity.
  - cbn [fst ob_repls]. rewrite app_nil_r. reflexivity.
Qed.

Theorem Inv_rstep (inner : text) (o : robj) (c : rcall) :
  Inv o -> Inv (fst (rstep inner o c)).
Proof.
  intros HI. destruct c as [r|k|]; cbn [rstep].
  - intros Hs. discriminate Hs.
  - destruct (observer_sorts o k).
    + unfold robj_sorted. cbn [fst]. apply Inv_sort. exact HI.
    + exact HI.
  - destruct o as [rs idx fl]. exact HI.
Qed.

Theorem InvIdx_rstep (inner : text) (o : robj) (c : rcall) :
  InvIdx o -> InvIdx (fst (rstep inner o c)).
Proof.
  intros HI. destruct c as [r|k|]; cbn [rstep].
  - intros Hs. discriminate Hs.
  - destruct (observer_sorts o k).
    + unfold robj_sorted. cbn [fst]. apply InvIdx_sort. exact HI.
    + exact HI.
  - destruct o as [rs idx fl]. exact HI.
Qed.

Theorem Inv_rrun (inner : text) (h : list rcall) (o : robj) :
  Inv o -> Inv (fst (rrun inner o h)).
Proof.
  revert o. induction h as [|c h IH]; intros o HI; [exact HI|].
  cbn [rrun]. pose proof (Inv_rstep inner o c HI) as H1.
  destruct (rstep inner o c) as [o1 out]. cbn [fst] in H1.
  specialize (IH o1 H1). destruct (rrun inner o1 h) as [o2 outs]. exact IH.
Qed.

Theorem InvIdx_rrun (inner : text) (h : list rcall) (o : robj) :
  InvIdx o -> InvIdx (fst (rrun inner o h)).
Proof.
  revert o. induction h as [|c h IH]; intros o HI; [exact HI|].
  cbn [rrun]. pose proof (InvIdx_rstep inner o c HI) as H1.
  destruct (rstep inner o c) as [o1 out]. cbn [fst] in H1.
  specialize (IH o1 H1). destruct (rrun inner o1 h) as [o2 outs]. exact IH.
Qed.

(* ------------------------------------------------------------------ *)
(* S6: history independence *)

(* does observer k render at all, given the replacements pushed so far
   (map() without replacements delegates to the inner source) *)
Definition renders (acc : list repl) (k : N) : bool :=
  if k =? 7 then negb (is_nil acc) else true.

(* what every call must output, as a function of the inner text and of the
   replacements pushed so far only *)
Fixpoint expected (inner : text) (h : list rcall) (acc : list repl) : list (option text) :=
  match h with
  | [] => []
  | RMutate r :: h' => None :: expected inner h' (acc ++ [r])
  | RObserve k :: h' =>
    (if renders acc k then Some (ref_text inner acc) else None) :: expected inner h' acc
  | RClone :: h' => None :: expected inner h' acc
  end.

Lemma rstep_out (inner : text) (o : robj) (c : rcall) :
  Inv o ->
  snd (rstep inner o c) =
  match c with
  | RObserve k => if renders (ob_repls o) k then Some (ref_text inner (ob_repls o)) else None
  | _ => None
  end.
Proof.
  intros HI. destruct c as [r|k|]; cbn [rstep]; try reflexivity.
  unfold renders. change (if k =? 7 then negb (is_nil (ob_repls o)) else true)
    with (observer_sorts o k).
  destruct (observer_sorts o k); [|reflexivity].
  pose proof (robj_sorted_snd o HI) as Hs.
  destruct (robj_sorted o) as [o' sorted]. cbn [snd] in *. subst sorted.
  rewrite text_of_sorted_ref, sort_repls_ref. reflexivity.
Qed.

Theorem rrun_expected (inner : text) (h : list rcall) (o : robj) :
  Inv o -> snd (rrun inner o h) = expected inner h (ob_repls o).
Proof.
  revert o. induction h as [|c h IH]; intros o HI; [reflexivity|].
  cbn [rrun].
  pose proof (Inv_rstep inner o c HI) as H1.
  pose proof (rstep_out inner o c HI) as H2.
  pose proof (rstep_repls inner o c) as H3.
  destruct (rstep inner o c) as [o1 out]. cbn [fst snd] in H1, H2, H3.
  specialize (IH o1 H1). destruct (rrun inner o1 h) as [o2 outs].
  cbn [snd] in *. subst out outs. rewrite H3.
  destruct c as [r|k|]; cbn [expected pushed]; rewrite ?app_nil_r; reflexivity.
Qed.

Lemma rrun_repls (inner : text) (h : list rcall) (o : robj) :
  ob_repls (fst (rrun inner o h)) = ob_repls o ++ pushed h.
Proof.
  revert o. induction h as [|c h IH]; intros o.
  - cbn [rrun fst pushed]. rewrite app_nil_r. reflexivity.
  - cbn [rrun]. pose proof (rstep_repls inner o c) as H3.
    destruct (rstep inner o c) as [o1 out]. cbn [fst] in H3.
    specialize (IH o1). destruct (rrun inner o1 h) as [o2 outs]. cbn [fst] in *.
    rewrite IH, H3, <- app_assoc. f_equal.
    destruct c; reflexivity.
Qed.

Lemma pushed_app (h1 h2 : list rcall) : pushed (h1 ++ h2) = pushed h1 ++ pushed h2.
Proof.
  induction h1 as [|c h1 IH]; [reflexivity|].
  destruct c; cbn [app pushed]; rewrite IH; reflexivity.
Qed.

Lemma expected_app (inner : text) (h1 h2 : list rcall) (acc : list repl) :
  expected inner (h1 ++ h2) acc = expected inner h1 acc ++ expected inner h2 (acc ++ pushed h1).
Proof.
  revert acc. induction h1 as [|c h1 IH]; intros acc.
  - cbn [app expected pushed]. rewrite app_nil_r. reflexivity.
  - destruct c as [r|k|]; cbn [app expected pushed]; rewrite IH; try reflexivity.
    rewrite <- app_assoc. reflexivity.
Qed.

Lemma expected_length (inner : text) (h : list rcall) (acc : list repl) :
  length (expected inner h acc) = length h.
Proof.
  revert acc. induction h as [|c h IH]; intros acc; [reflexivity|].
  destruct c; cbn [expected length]; rewrite IH; reflexivity.
Qed.

(* The property.  Take any history, cut it at any observer call: what that
   observer outputs is determined by the inner text and the replacements pushed
   by the prefix -- it renders the reference text of exactly those, or (map()
   on a source without replacements) renders nothing. *)
Theorem history_independent (inner : text) (h1 h2 : list rcall) (k : N) :
  nth_error (snd (rrun inner robj_new (h1 ++ RObserve k :: h2))) (length h1) =
  Some (if renders (pushed h1) k then Some (ref_text inner (pushed h1)) else None).
Proof.
  rewrite (rrun_expected inner _ robj_new Inv_new). cbn [robj_new ob_repls].
  rewrite expected_app.
  rewrite nth_error_app2 by (rewrite expected_length; apply Nat.le_refl).
  rewrite expected_length, Nat.sub_diag. cbn [app expected nth_error]. reflexivity.
Qed.

(* in particular: every rendered text is the reference text of the prefix *)
Corollary rendered_text_is_ref (inner : text) (h1 h2 : list rcall) (k : N) (t : text) :
  nth_error (snd (rrun inner robj_new (h1 ++ RObserve k :: h2))) (length h1) = Some (Some t) ->
  t = ref_text inner (pushed h1).
Proof.
  rewrite history_independent. destruct (renders (pushed h1) k); intros H.
  - injection H as H. symmetry. exact H.
  - discriminate H.
Qed.

(* the same, from any object satisfying the invariant *)
Theorem history_independent_from (inner : text) (o : robj) (h1 h2 : list rcall) (k : N) :
  Inv o ->
  nth_error (snd (rrun inner o (h1 ++ RObserve k :: h2))) (length h1) =
  Some (if renders (ob_repls o ++ pushed h1) k
        then Some (ref_text inner (ob_repls o ++ pushed h1)) else None).
Proof.
  intros HI. rewrite (rrun_expected inner _ o HI), expected_app.
  rewrite nth_error_app2 by (rewrite expected_length; apply Nat.le_refl).
  rewrite expected_length, Nat.sub_diag. cbn [app expected nth_error]. reflexivity.
Qed.

(* the outputs of two histories that push the same replacements: a final
   source() renders the same text, whatever was observed or cloned in between *)
Definition final_text (inner : text) (h : list rcall) : option text :=
  last (snd (rrun inner robj_new (h ++ [RObserve 0]))) None.

Theorem final_text_ref (inner : text) (h : list rcall) :
  final_text inner h = Some (ref_text inner (pushed h)).
Proof.
  unfold final_text. rewrite (rrun_expected inner _ robj_new Inv_new).
  cbn [robj_new ob_repls]. rewrite expected_app. cbn [expected app].
  rewrite last_last. reflexivity.
Qed.

Theorem observers_irrelevant (inner : text) (h1 h2 : list rcall) :
  pushed h1 = pushed h2 -> final_text inner h1 = final_text inner h2.
Proof. intros H. rewrite !final_text_ref, H. reflexivity. Qed.

(* and for any observer that renders (not only source()) *)
Theorem observers_irrelevant_any (inner : text) (h1 h2 : list rcall) (k : N) :
  pushed h1 = pushed h2 ->
  last (snd (rrun inner robj_new (h1 ++ [RObserve k]))) None =
  last (snd (rrun inner robj_new (h2 ++ [RObserve k]))) None.
Proof.
  intros H. rewrite !(rrun_expected inner _ robj_new Inv_new).
  cbn [robj_new ob_repls]. rewrite !expected_app. cbn [expected app].
  rewrite !last_last, H. reflexivity.
Qed.

(* the mutator-only history renders the same text as any interleaving *)
Corollary observers_erasable (inner : text) (h : list rcall) :
  final_text inner h = final_text inner (map RMutate (pushed h)).
Proof.
  apply observers_irrelevant.
  induction h as [|c h IH]; [reflexivity|].
  destruct c; cbn [pushed map]; rewrite <- IH; reflexivity.
Qed.

(* and that text is what the one-shot model function computes *)
Corollary final_text_replace_source (inner : text) (h : list rcall) :
  final_text inner h = Some (replace_source_text inner (pushed h)).
Proof. rewrite final_text_ref, replace_source_text_ref. reflexivity. Qed.

Print Assumptions Inv_new.
Print Assumptions Inv_rstep.
Print Assumptions InvIdx_rstep.
Print Assumptions rrun_expected.
Print Assumptions history_independent.
Print Assumptions history_independent_from.
Print Assumptions observers_irrelevant.
Print Assumptions observers_irrelevant_any.
Print Assumptions observers_erasable.
Print Assumptions final_text_replace_source.
