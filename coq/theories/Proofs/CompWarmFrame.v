(* C06 over warm caches, part 2 (J1, the store side): a tree only reads and writes the caches of
   its own ids.
     stream_agree / map_agree / wop_agree   two stores that agree on a set of ids containing the
                       ids of a tree give the same answers and agree afterwards
                       (from EqObsTree.sim_erase on the diagonal correspondence);
     stream_frame / wop_frame               ids outside the tree are left alone
                       (LawWrappers.no_id_keeps);
     run_warm_child    api_comp warms a ConcatSource by `run_warm [] (SConcat cs) ws` and a child
                       `k` observed standalone by `run_warm [] k ws`: with distinct ids the two
                       stores agree on the ids of `k` (`find_cached` finds a node of `k` in the
                       composite exactly when it finds it in `k`; calls on other children do not
                       touch the caches of `k`);
     kid_streams_own   the store is threaded through the children of the composite, but each
                       child answers as from the store the composite started with;
     concat_kids_standalone   hence the streams of the children inside the warmed composite ARE
                       the streams of the children warmed and observed standalone (literally:
                       same chunking, same announcements). *)
From RS Require Import Base.Prelude Base.Text Rope.RopeModel Codec.Vlq Codec.CodecSpec
  Stream.Types Stream.Leaves Stream.Concat Stream.Replace Stream.Combined Stream.Tree
  Api.ApiTree Sem.Attr Sem.HashEq Api.ApiHist Checkers.ChkTree Checkers.ChkHist
  Proofs.StreamText Proofs.StreamLeaves Proofs.StreamConcat Proofs.StreamTree
  Proofs.LawConcatAttr Proofs.LawWrappers Proofs.CacheStore
  Proofs.ColdCache Proofs.EqObsTree
  Proofs.WarmTreeDefs Proofs.WarmTreeHist.
Require Import Lia List.
Import ListNotations.

Local Open Scope N_scope.

(* EqObsTree.v and ColdCache.v define the same `ids` twice (convertible); the warm-cache files use
   the ColdCache one *)
Local Notation ids := ColdCache.ids.
Local Notation ids_distinct := ColdCache.ids_distinct.

(* ------------------------------------------------------------------ *)
(* agreement of two stores on a set of ids                              *)
(* ------------------------------------------------------------------ *)
Definition agree (L : list N) (sta stb : store) : Prop :=
  forall id, In id L -> store_get sta id = store_get stb id.

Lemma agree_refl L st : agree L st st.
Proof. intros id _. reflexivity. Qed.

Lemma agree_sym L a b : agree L a b -> agree L b a.
Proof. intros H id Hid. symmetry. apply H. exact Hid. Qed.

Lemma agree_trans L a b c : agree L a b -> agree L b c -> agree L a c.
Proof. intros H1 H2 id Hid. rewrite (H1 id Hid). apply H2. exact Hid. Qed.

Lemma agree_sub L L' a b : incl L' L -> agree L a b -> agree L' a b.
Proof. intros Hi H id Hid. apply H. apply Hi. exact Hid. Qed.

Definition diag (L : list N) : list (N * N) := map (fun x => (x, x)) L.

Lemma in_diag L x y : In (x, y) (diag L) <-> x = y /\ In x L.
Proof.
  unfold diag. rewrite in_map_iff. split.
  - intros [z [E Hz]]. inversion E. subst. split; [reflexivity|exact Hz].
  - intros [-> Hx]. exists y. split; [reflexivity|exact Hx].
Qed.

Lemma biinj_diag L : biinj (diag L).
Proof.
  intros x y x' y' H1 H2. apply in_diag in H1. apply in_diag in H2.
  destruct H1 as [-> _], H2 as [-> _]. split; intros E; exact E.
Qed.

Lemma store_rel_diag L sta stb : store_rel (diag L) sta stb <-> agree L sta stb.
Proof.
  split.
  - intros H id Hid. apply H. apply in_diag. split; [reflexivity|exact Hid].
  - intros H x y Hxy. apply in_diag in Hxy. destruct Hxy as [-> Hx]. apply H. exact Hx.
Qed.

Lemma in_combine_same {A} (l : list A) x y : In (x, y) (combine l l) -> x = y /\ In x l.
Proof.
  induction l as [|a l IH]; intros H; [destruct H|]. cbn [combine In] in H. destruct H as [H|H].
  - inversion H. subst. split; [reflexivity|left; reflexivity].
  - destruct (IH H) as [E Hin]. split; [exact E|right; exact Hin].
Qed.

Lemma corr_diag t L : incl (ids t) L -> incl (corr t t) (diag L).
Proof.
  intros Hi [x y] H. unfold corr in H. apply in_combine_same in H. destruct H as [-> Hy].
  apply in_diag. split; [reflexivity|apply Hi; exact Hy].
Qed.

Lemma agree_sim L t : incl (ids t) L -> sim (diag L) t t.
Proof. intros Hi. apply (sim_erase (diag L) (biinj_diag L) t t eq_refl (corr_diag t L Hi)). Qed.

(* a tree answers from the caches of its own ids only *)
Theorem stream_agree L t o sta stb : incl (ids t) L -> agree L sta stb ->
  fst (stream sta t o) = fst (stream stb t o) /\ agree L (snd (stream sta t o)) (snd (stream stb t o)).
Proof.
  intros Hi H. destruct (agree_sim L t Hi) as [A _].
  destruct (A sta stb o (proj2 (store_rel_diag L sta stb) H)) as [E R].
  split; [exact E|apply store_rel_diag; exact R].
Qed.

Theorem map_agree L t c sta stb : incl (ids t) L -> agree L sta stb ->
  fst (map_of sta t c) = fst (map_of stb t c) /\ agree L (snd (map_of sta t c)) (snd (map_of stb t c)).
Proof.
  intros Hi H. destruct (agree_sim L t Hi) as [_ B].
  destruct (B sta stb c (proj2 (store_rel_diag L sta stb) H)) as [E R].
  split; [exact E|apply store_rel_diag; exact R].
Qed.

Lemma wop_agree L node w sta stb : incl (ids node) L -> agree L sta stb ->
  agree L (run_wop sta node w) (run_wop stb node w).
Proof.
  intros Hi H. destruct w as [c|c f]; cbn [run_wop].
  - apply (map_agree L node c sta stb Hi H).
  - apply (stream_agree L node (mkOpts c f) sta stb Hi H).
Qed.

(* ... and writes to them only *)
Definition apart (L : list N) (t : src) : Prop := forall id, In id L -> ~ In id (ids t).

Theorem stream_frame L t o st : apart L t -> agree L (snd (stream st t o)) st.
Proof.
  intros Ha id Hid. destruct (no_id_keeps id t (has_id_false id t (Ha id Hid))) as [A _]. apply A.
Qed.

Theorem map_frame L t c st : apart L t -> agree L (snd (map_of st t c)) st.
Proof.
  intros Ha id Hid. destruct (no_id_keeps id t (has_id_false id t (Ha id Hid))) as [_ B]. apply B.
Qed.

Lemma wop_frame L node w st : apart L node -> agree L (run_wop st node w) st.
Proof.
  intros Ha. destruct w as [c|c f]; cbn [run_wop]; [apply map_frame|apply stream_frame]; exact Ha.
Qed.

(* ------------------------------------------------------------------ *)
(* find_cached                                                          *)
(* ------------------------------------------------------------------ *)
Fixpoint fc_list (cs : list src) (id : N) : option src :=
  match cs with
  | [] => None
  | c :: cs' => match find_cached c id with Some x => Some x | None => fc_list cs' id end
  end.

Lemma find_cached_concat cs id : find_cached (SConcat cs) id = fc_list cs id.
Proof. cbn [find_cached]. induction cs as [|c cs IH]; [reflexivity|]. cbn [fc_list]. rewrite <- IH. reflexivity. Qed.

Lemma fc_list_app pre post id :
  fc_list (pre ++ post) id = match fc_list pre id with Some x => Some x | None => fc_list post id end.
Proof.
  induction pre as [|c pre IH]; [reflexivity|]. cbn [app fc_list].
  destruct (find_cached c id); [reflexivity|exact IH].
Qed.

Lemma fc_list_in cs id node : fc_list cs id = Some node -> exists c, In c cs /\ find_cached c id = Some node.
Proof.
  induction cs as [|c cs IH]; intros H; [discriminate|]. cbn [fc_list] in H.
  destruct (find_cached c id) as [x|] eqn:E.
  - inversion H. subst x. exists c. split; [left; reflexivity|exact E].
  - destruct (IH H) as [c' [Hc' E']]. exists c'. split; [right; exact Hc'|exact E'].
Qed.

(* the node found carries the id asked for *)
Lemma find_cached_shape : forall t id node, find_cached t id = Some node -> exists inner, node = SCached id inner.
Proof.
  apply (src_ind' (fun t => forall id node, find_cached t id = Some node -> exists inner, node = SCached id inner));
    try (intros; discriminate).
  - intros cs IH id node H. rewrite find_cached_concat in H. destruct (fc_list_in cs id node H) as [c [Hc E]].
    rewrite Forall_forall in IH. apply (IH c Hc id node E).
  - intros i rs IH id node H. cbn [find_cached] in H. apply (IH id node H).
  - intros k i IH id node H. cbn [find_cached] in H. destruct (k =? id) eqn:E.
    + apply N.eqb_eq in E. subst k. inversion H. exists i. reflexivity.
    + apply (IH id node H).
Qed.

Lemma incl_nodes_ids a b : incl (nodes a) (nodes b) -> incl (ids a) (ids b).
Proof.
  intros H id Hid. rewrite <- nodes_ids in Hid. apply in_map_iff in Hid. destruct Hid as [[x i] [E Hin]].
  cbn [fst] in E. subst x. apply (nodes_in_ids id i b). apply H. exact Hin.
Qed.

Lemma find_cached_ids t id node : find_cached t id = Some node -> In id (ids t) /\ incl (ids node) (ids t).
Proof.
  intros H. destruct (find_cached_sub t id node H) as [A _]. pose proof (incl_nodes_ids _ _ A) as I.
  split; [|exact I]. destruct (find_cached_shape t id node H) as [inner ->]. apply I. left. reflexivity.
Qed.

Lemma find_cached_none t id : ~ In id (ids t) -> find_cached t id = None.
Proof.
  intros H. destruct (find_cached t id) as [node|] eqn:E; [|reflexivity].
  exfalso. apply H. destruct (find_cached_ids t id node E) as [X _]. exact X.
Qed.

(* ------------------------------------------------------------------ *)
(* distinct ids: the children of a ConcatSource are pairwise apart       *)
(* ------------------------------------------------------------------ *)
Lemma split_apart pre k post : NoDup (flat_map ids (pre ++ k :: post)) ->
  NoDup (ids k) /\ (forall c, In c pre -> apart (ids k) c) /\ (forall c, In c post -> apart (ids k) c) /\
  NoDup (flat_map ids post) /\ (forall c, In c post -> apart (ids c) k).
Proof.
  intros H. rewrite flat_map_app in H. cbn [flat_map] in H.
  destruct (nodup_app_inv _ _ H) as [_ [N2 D1]]. destruct (nodup_app_inv _ _ N2) as [Nk [Np D2]].
  split; [exact Nk|]. split; [|split; [|split; [exact Np|]]].
  - intros c Hc id Hid F. apply (D1 id); [apply in_flat_map; exists c; split; assumption|].
    apply in_or_app. left. exact Hid.
  - intros c Hc id Hid F. apply (D2 id Hid). apply in_flat_map. exists c. split; assumption.
  - intros c Hc id Hid F. apply (D2 id F). apply in_flat_map. exists c. split; assumption.
Qed.

(* ------------------------------------------------------------------ *)
(* warm-up calls on the composite vs on a child                         *)
(* ------------------------------------------------------------------ *)
Theorem run_warm_child pre k post : NoDup (flat_map ids (pre ++ k :: post)) ->
  forall (ws : list (N * wop)) (st1 st2 : store), agree (ids k) st1 st2 ->
  agree (ids k) (run_warm st1 (SConcat (pre ++ k :: post)) ws) (run_warm st2 k ws).
Proof.
  intros Hn. destruct (split_apart pre k post Hn) as [_ [D1 [D2 _]]].
  induction ws as [|[id w] ws IH]; intros st1 st2 H; [exact H|].
  cbn [run_warm]. rewrite find_cached_concat, fc_list_app. cbn [fc_list].
  destruct (fc_list pre id) as [n1|] eqn:E1.
  - (* a node of an earlier child *)
    destruct (fc_list_in pre id n1 E1) as [c [Hc Ec]]. destruct (find_cached_ids c id n1 Ec) as [Hid Hsub].
    assert (Hk : find_cached k id = None).
    { apply find_cached_none. intros F. apply (D1 c Hc id F Hid). }
    rewrite Hk. apply IH. apply (agree_trans _ _ st1); [|exact H]. apply wop_frame.
    intros x Hx F. apply (D1 c Hc x Hx). apply Hsub. exact F.
  - destruct (find_cached k id) as [node|] eqn:Ek.
    + (* a node of the child itself *)
      apply IH. apply wop_agree; [apply (find_cached_ids k id node Ek)|exact H].
    + destruct (fc_list post id) as [n2|] eqn:E2; [|apply IH; exact H].
      (* a node of a later child *)
      destruct (fc_list_in post id n2 E2) as [c [Hc Ec]]. destruct (find_cached_ids c id n2 Ec) as [_ Hsub].
      apply IH. apply (agree_trans _ _ st1); [|exact H]. apply wop_frame.
      intros x Hx F. apply (D2 c Hc x Hx). apply Hsub. exact F.
Qed.

(* ------------------------------------------------------------------ *)
(* the store threaded through the children                              *)
(* ------------------------------------------------------------------ *)
Theorem kid_streams_own (o : opts) : forall cs, NoDup (flat_map ids cs) -> forall st,
  fst (kid_streams st cs o) = map (fun k => fst (stream st k o)) cs.
Proof.
  induction cs as [|c cs IH]; intros Hn st; [reflexivity|].
  destruct (split_apart [] c cs Hn) as [_ [_ [_ [Np Da]]]].
  cbn [kid_streams map]. pose proof (stream_frame) as Fr.
  destruct (stream st c o) as [[evs gi] st1] eqn:Es. specialize (IH Np st1).
  destruct (kid_streams st1 cs o) as [ks st2]. cbn [fst snd] in *. rewrite IH. f_equal.
  apply map_ext_in. intros k Hk.
  apply (stream_agree (ids k) k o st1 st (incl_refl _)).
  pose proof (Fr (ids k) c o st (Da k Hk)) as X. rewrite Es in X. exact X.
Qed.

(* the children inside the warmed composite = the children warmed and observed standalone *)
Theorem concat_kids_standalone (cs : list src) (ws : list (N * wop)) (o : opts) :
  ids_distinct (SConcat cs) ->
  fst (kid_streams (run_warm [] (SConcat cs) ws) cs o)
  = map (fun k => fst (stream (run_warm [] k ws) k o)) cs.
Proof.
  intros Hd. unfold ids_distinct in Hd. cbn [ids] in Hd. rewrite (kid_streams_own o cs Hd).
  apply map_ext_in. intros k Hk. destruct (in_split k cs Hk) as [pre [post E]].
  apply (stream_agree (ids k) k o _ _ (incl_refl _)).
  rewrite E in Hd |- *. apply (run_warm_child pre k post Hd ws [] [] (agree_refl _ _)).
Qed.

(* a ConcatSource of one child streams as the child *)
Theorem concat_single_standalone (c : src) (ws : list (N * wop)) (o : opts) :
  ids_distinct (SConcat [c]) ->
  fst (stream (run_warm [] (SConcat [c]) ws) (SConcat [c]) o) = fst (stream (run_warm [] c ws) c o).
Proof.
  intros Hd. unfold ids_distinct in Hd. cbn [ids] in Hd.
  change (stream (run_warm [] (SConcat [c]) ws) (SConcat [c]) o) with (stream (run_warm [] (SConcat [c]) ws) c o).
  apply (stream_agree (ids c) c o _ _ (incl_refl _)).
  apply (run_warm_child [] c [] Hd ws [] [] (agree_refl _ _)).
Qed.

Lemma ids_distinct_child cs c : ids_distinct (SConcat cs) -> In c cs -> ids_distinct c.
Proof.
  intros Hd Hc. unfold ids_distinct in *. cbn [ids] in Hd. destruct (in_split c cs Hc) as [pre [post E]].
  rewrite E in Hd. apply (split_apart pre c post Hd).
Qed.

Print Assumptions stream_agree.
Print Assumptions map_agree.
Print Assumptions stream_frame.
Print Assumptions run_warm_child.
Print Assumptions kid_streams_own.
Print Assumptions concat_kids_standalone.
Print Assumptions concat_single_standalone.
Print Assumptions ids_distinct_child.
