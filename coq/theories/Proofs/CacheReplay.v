(* C10, part 2 (K3, K4): a CachedSource is transparent along every history of observer
   calls.
   K4  conditional theorem: if the wrapped source `a` is `Faithful` (the conditions are spelled
       out below; every one of them is a statement about the cold source `a` alone), then every
       answer of every history on `SCached id a` is `answer_equiv` to the answer of a fresh `a`.
   K3  raw leaves and (ASCII, len < 2^30 - 1) OriginalSources are Faithful. *)
From RS Require Import Base.Prelude Base.Text Rope.RopeModel Codec.Vlq Codec.CodecSpec
  Checkers.ChkCodec Stream.Types Stream.Leaves Stream.Concat Stream.Replace Stream.Combined Stream.Tree
  Api.ApiTree Sem.Attr Sem.HashEq Api.ApiHist Checkers.ChkTree Checkers.ChkHist
  Proofs.CodecKept Proofs.CodecMain Proofs.StreamText Proofs.StreamLeaves Proofs.StreamMap
  Proofs.StreamTree Proofs.AttrCodec Proofs.AttrSms Proofs.AttrLeaves Proofs.WfFinal Proofs.LawWrappers
  Proofs.CacheStore.
Require Import Lia List.

Local Open Scope N_scope.

(* ------------------------------------------------------------------ *)
(* small facts about the checker                                        *)
(* ------------------------------------------------------------------ *)
Lemma gi_eqb_refl (x : N * N) : gi_eqb x x = true.
Proof. unfold gi_eqb. rewrite !N.eqb_refl. reflexivity. Qed.

Lemma attr_list_ok (c : bool) (x y : list attr) : x = y ->
  list_eqb_attr (if c then attr_eqb else attr_eqb_fl) x y = true.
Proof. intros ->. destruct c; [apply attr_lists_eqb|apply attr_lists_eqb_fl]; reflexivity. Qed.

Lemma attr_by_pos_nil (cols : bool) (t : text) : forall l c,
  attr_by_pos [] cols t l c = map (fun _ => None) t.
Proof.
  induction t as [|b t IH]; intros l c; [reflexivity|].
  cbn [attr_by_pos seg_lookup seg_first_mapped map]. destruct cols; destruct (b =? NL); rewrite IH; reflexivity.
Qed.

Lemma ssorted_sorted : forall ms, ssorted ms -> sorted_by pos_le ms = true.
Proof.
  induction ms as [|a ms IH]; intros H; [reflexivity|]. destruct H as [Ha Hs].
  destruct ms as [|b ms']; [reflexivity|]. change (pos_le a b && sorted_by pos_le (b :: ms') = true).
  inversion Ha as [|? ? Hab _]; subst. rewrite Hab, (IH Hs). reflexivity.
Qed.

(* ------------------------------------------------------------------ *)
(* K4: what the wrapped source must satisfy                             *)
(* ------------------------------------------------------------------ *)
Definition evs_of (a : src) (c f : bool) : list event := fst (fst (stream [] a (mkOpts c f))).
Definition gi_of (a : src) (c f : bool) : N * N := snd (fst (stream [] a (mkOpts c f))).
Definition map_fresh (a : src) (c : bool) : option smap := fst (map_of [] a c).

(* what stream_chunks of a SourceMapSource-like replay needs of a stored map: its decoded
   segments are sorted; for the text-carrying column mode the text is ASCII and no segment
   lies beyond the end of its line (this is all that `map_consistent` is used for) *)
Definition replayable (t : text) (c f : bool) (m : smap) : Prop :=
  sorted_by pos_le (decode_mappings (sm_mappings m)) = true /\
  (c = true -> f = false ->
   ascii t = true /\ segs_ok t (decode_mappings (sm_mappings m)) = true).

(* K c f: the option pairs for which a cached stream may get replayed.  `Faithful` is the
   instance "all of them"; the instance "all but (columns, not final)" is what a non-ASCII
   OriginalSource satisfies (see the end of the file). *)
Record FaithfulOn (K : bool -> bool -> Prop) (a : src) : Prop := mkFaithful {
  (* the wrapped source neither reads nor writes the store *)
  F_pure_stream : forall st o, stream st a o = (fst (stream [] a o), st);
  F_pure_map : forall st c, map_of st a c = (fst (map_of [] a c), st);
  (* C02: end position; C01: reassembly *)
  F_end : forall c f, gi_of a c f = advance 1 0 (source a);
  F_reass : forall c, reassembles (evs_of a c false) (source a) = true;
  (* A1 (attr_codec_dense): the map built from the events attributes as the events, by position *)
  F_codec : forall c f,
    attr_of_map (map_of_events c (evs_of a c f)) (source a) c = attr_of_final_events (evs_of a c f) (source a) c;
  (* C02: a text-carrying stream covers each byte with the chunk reported at its position *)
  F_self : forall c,
    attr_of_final_events (evs_of a c false) (source a) c = attr_of_stream (evs_of a c false) c;
  (* C03: map() attributes as the stream *)
  F_map : forall c, attr_of_map (map_fresh a c) (source a) c = attr_of_stream (evs_of a c false) c;
  (* the two maps that can get stored can be replayed *)
  F_replay_ev : forall c f m, K c f ->
    map_of_events c (evs_of a c f) = Some m -> replayable (source a) c f m;
  F_replay_map : forall c m, K c false -> map_fresh a c = Some m -> replayable (source a) c false m }.

Definition Faithful : src -> Prop := FaithfulOn (fun _ _ => True).

(* ------------------------------------------------------------------ *)
(* replaying a stored value                                             *)
(* ------------------------------------------------------------------ *)
Definition replay (t : text) (v : option smap) (o : opts) : list event * (N * N) :=
  match v with Some m => sm_stream t m o | None => raw_stream t (final_source o) end.

Lemma replay_end t v o : snd (replay t v o) = advance 1 0 t.
Proof. destruct v as [m|]; [apply sm_stream_end|apply raw_stream_end]. Qed.

Lemma replay_text_reass t c v :
  match v with Some m => replayable t c false m | None => True end ->
  reassembles (fst (replay t v (mkOpts c false))) t = true.
Proof.
  destruct v as [m|]; cbn [replay final_source].
  - intros [Hs Hx]. unfold sm_stream. cbn [columns final_source]. destruct c.
    + destruct (Hx eq_refl eq_refl) as [Ha _]. apply sm_stream_full_reassembles_ascii; assumption.
    + apply sm_stream_lines_full_reassembles.
  - intros _. apply raw_stream_reassembles.
Qed.

Lemma replay_text_attr t c v :
  match v with Some m => replayable t c false m | None => True end ->
  attr_of_stream (fst (replay t v (mkOpts c false))) c = attr_of_map v t c.
Proof.
  destruct v as [m|]; cbn [replay final_source].
  - intros [Hs Hx]. unfold sm_stream. cbn [columns final_source]. destruct c.
    + destruct (Hx eq_refl eq_refl) as [Ha Hseg]. apply sm_full_attr_sorted; assumption.
    + apply sm_lines_full_attr_sorted. exact Hs.
  - intros _. apply raw_stream_attr.
Qed.

Lemma replay_final_attr t c v :
  match v with Some m => replayable t c true m | None => True end ->
  attr_of_final_events (fst (replay t v (mkOpts c true))) t c = attr_of_map v t c.
Proof.
  destruct v as [m|]; cbn [replay final_source].
  - intros [Hs _]. unfold sm_stream. cbn [columns final_source]. destruct c.
    + apply sm_final_attr_sorted. exact Hs.
    + apply sm_lines_final_attr_sorted. exact Hs.
  - intros _. unfold raw_stream, attr_of_final_events. cbn [fst rsegs_of_events map attr_of_map].
    apply attr_by_pos_nil.
Qed.

(* ------------------------------------------------------------------ *)
(* the invariant of the cache of `id`                                   *)
(* ------------------------------------------------------------------ *)
Section Transparent.
Variables (id : N) (a : src) (K : bool -> bool -> Prop).
Hypothesis HF : FaithfulOn K a.

(* the values that can sit under key (c, f): the map of the events streamed with exactly
   these options, or (f = false only) what map() of the wrapped source returned *)
Definition good_value (c f : bool) (v : option smap) : Prop :=
  v = map_of_events c (evs_of a c f) \/ (f = false /\ v = map_fresh a c).

Definition StoreSound (st : store) : Prop :=
  forall c f v, cache_get (store_get st id) (mkOpts c f) = Some v -> good_value c f v.

Lemma sound_empty : StoreSound [].
Proof. intros c f v H. discriminate. Qed.

Lemma sound_put st c f v : StoreSound st -> good_value c f v ->
  StoreSound (store_put st id (mkOpts c f) v).
Proof.
  intros Hs Hv c' f' x H. apply store_put_get_inv in H. destruct H as [H|[_ [Eo [Ex _]]]].
  - apply Hs. exact H.
  - inversion Eo. subst. exact Hv.
Qed.

Lemma good_replayable c f m : K c f -> good_value c f (Some m) -> replayable (source a) c f m.
Proof.
  intros HK [H|[Hf H]].
  - apply (F_replay_ev K a HF); [exact HK|]. symmetry. exact H.
  - subst f. apply (F_replay_map K a HF); [exact HK|]. symmetry. exact H.
Qed.

Lemma good_replayable' c f v : K c f -> good_value c f v ->
  match v with Some m => replayable (source a) c f m | None => True end.
Proof. intros HK. destruct v as [m|]; [apply good_replayable; exact HK|intros _; exact I]. Qed.

(* a stored value attributes every byte as the cold wrapped source does *)
Lemma good_attr_text c v : good_value c false v ->
  attr_of_map v (source a) c = attr_of_stream (evs_of a c false) c.
Proof.
  intros [H|[_ H]]; subst v.
  - rewrite (F_codec K a HF). apply (F_self K a HF).
  - apply (F_map K a HF).
Qed.

Lemma good_attr_final c v : good_value c true v ->
  attr_of_map v (source a) c = attr_of_final_events (evs_of a c true) (source a) c.
Proof.
  intros [H|[F _]]; [|discriminate]. subst v. apply (F_codec K a HF).
Qed.

(* ------------------------------------------------------------------ *)
(* one observer call                                                    *)
(* ------------------------------------------------------------------ *)
Lemma fresh_stream c f : fst (run_hop [] a (OStream c f)) = AStream (evs_of a c f) (gi_of a c f).
Proof.
  cbn [run_hop]. unfold evs_of, gi_of. destruct (stream [] a (mkOpts c f)) as [[e g] s]. reflexivity.
Qed.

Lemma fresh_map c : fst (run_hop [] a (OMap c)) = AMap (map_fresh a c).
Proof. cbn [run_hop]. unfold map_fresh. destruct (map_of [] a c) as [m s]. reflexivity. Qed.

Lemma run_cached_stream st c f :
  run_hop st (SCached id a) (OStream c f) =
  match cache_get (store_get st id) (mkOpts c f) with
  | Some v => (AStream (fst (replay (source a) v (mkOpts c f))) (snd (replay (source a) v (mkOpts c f))), st)
  | None => (AStream (evs_of a c f) (gi_of a c f),
             store_put st id (mkOpts c f) (map_of_events c (evs_of a c f)))
  end.
Proof.
  cbn [run_hop stream]. destruct (cache_get (store_get st id) (mkOpts c f)) as [[m|]|].
  - cbn [replay]. destruct (sm_stream (source a) m (mkOpts c f)) as [e g]. reflexivity.
  - cbn [replay final_source]. destruct (raw_stream (source a) f) as [e g]. reflexivity.
  - rewrite (F_pure_stream K a HF). unfold evs_of, gi_of.
    destruct (stream [] a (mkOpts c f)) as [[e g] s]. reflexivity.
Qed.

Lemma run_cached_map st c :
  run_hop st (SCached id a) (OMap c) =
  match cache_get (store_get st id) (mkOpts c false) with
  | Some v => (AMap v, st)
  | None => (AMap (map_fresh a c), store_put st id (mkOpts c false) (map_fresh a c))
  end.
Proof.
  cbn [run_hop map_of]. destruct (cache_get (store_get st id) (mkOpts c false)) as [v|] eqn:G; [reflexivity|].
  rewrite (F_pure_map K a HF). unfold map_fresh. destruct (map_of [] a c) as [m s]. cbn [fst].
  rewrite store_put_get_same, G. reflexivity.
Qed.

Lemma equiv_same_stream c f :
  answer_equiv (source a) (OStream c f) (AStream (evs_of a c f) (gi_of a c f))
               (AStream (evs_of a c f) (gi_of a c f)) = true.
Proof.
  destruct f; cbn [answer_equiv]; rewrite gi_eqb_refl.
  - apply attr_list_ok. reflexivity.
  - rewrite (F_reass K a HF). cbn [andb]. apply attr_list_ok. reflexivity.
Qed.

Lemma equiv_replay c f v : K c f -> good_value c f v ->
  answer_equiv (source a) (OStream c f)
    (AStream (fst (replay (source a) v (mkOpts c f))) (snd (replay (source a) v (mkOpts c f))))
    (AStream (evs_of a c f) (gi_of a c f)) = true.
Proof.
  intros HK Hv. pose proof (good_replayable' c f v HK Hv) as Hr.
  destruct f; cbn [answer_equiv]; rewrite replay_end, (F_end K a HF), gi_eqb_refl; cbn [andb].
  - apply attr_list_ok. rewrite (replay_final_attr _ _ _ Hr). apply good_attr_final. exact Hv.
  - rewrite (replay_text_reass _ _ _ Hr), (F_reass K a HF). cbn [andb].
    apply attr_list_ok. rewrite (replay_text_attr _ _ _ Hr). apply good_attr_text. exact Hv.
Qed.

Lemma equiv_map c v : good_value c false v ->
  answer_equiv (source a) (OMap c) (AMap v) (AMap (map_fresh a c)) = true.
Proof.
  intros Hv. cbn [answer_equiv]. apply attr_list_ok.
  rewrite (good_attr_text c v Hv). symmetry. apply (F_map K a HF).
Qed.

Definition hop_ok (op : hop) : Prop := match op with OStream c f => K c f | _ => True end.

Theorem hop_transparent (st : store) (op : hop) : hop_ok op -> StoreSound st ->
  answer_equiv (source a) op (fst (run_hop st (SCached id a) op)) (fst (run_hop [] a op)) = true /\
  StoreSound (snd (run_hop st (SCached id a) op)).
Proof.
  intros HK Hs. destruct op as [| | | |c|c f| |].
  - split; [apply text_eqb_refl|exact Hs].
  - split; [apply text_eqb_refl|exact Hs].
  - split; [apply N.eqb_refl|exact Hs].
  - split; [apply opt_text_eqb_refl|exact Hs].
  - rewrite run_cached_map, fresh_map.
    destruct (cache_get (store_get st id) (mkOpts c false)) as [v|] eqn:G; cbn [fst snd].
    + split; [apply equiv_map; apply (Hs _ _ _ G)|exact Hs].
    + split; [apply equiv_map; right; split; reflexivity|].
      apply sound_put; [exact Hs|right; split; reflexivity].
  - rewrite run_cached_stream, fresh_stream.
    destruct (cache_get (store_get st id) (mkOpts c f)) as [v|] eqn:G; cbn [fst snd].
    + split; [apply equiv_replay; [exact HK|apply (Hs _ _ _ G)]|exact Hs].
    + split; [apply equiv_same_stream|]. apply sound_put; [exact Hs|left; reflexivity].
  - split; [reflexivity|exact Hs].
  - split; [reflexivity|exact Hs].
Qed.

(* ------------------------------------------------------------------ *)
(* every history                                                        *)
(* ------------------------------------------------------------------ *)
Theorem history_transparent_from : forall (ops : list hop) (st : store) (i : N),
  Forall hop_ok ops -> StoreSound st ->
  answers_equiv (source a) ops (fst (run_hops st (SCached id a) ops)) (fresh_answers a ops) i = 0 /\
  StoreSound (snd (run_hops st (SCached id a) ops)).
Proof.
  induction ops as [|op ops IH]; intros st i HK Hs; [split; [reflexivity|exact Hs]|].
  inversion HK as [|? ? HK1 HK2]; subst.
  cbn [run_hops fresh_answers map]. destruct (hop_transparent st op HK1 Hs) as [He Hs1].
  destruct (run_hop st (SCached id a) op) as [x st1]. cbn [fst snd] in He, Hs1.
  destruct (IH st1 (i + 1) HK2 Hs1) as [IH1 IH2].
  destruct (run_hops st1 (SCached id a) ops) as [as_ st2]. cbn [fst snd] in *.
  cbn [answers_equiv]. rewrite He. split; [exact IH1|exact IH2].
Qed.

Theorem cached_history_transparent_on (ops : list hop) : Forall hop_ok ops ->
  answers_equiv (source a) ops (fst (run_hops [] (SCached id a) ops)) (fresh_answers a ops) 0 = 0.
Proof. intros HK. apply (history_transparent_from ops [] 0 HK sound_empty). Qed.

End Transparent.

Lemma hop_ok_all (ops : list hop) : Forall (hop_ok (fun _ _ => True)) ops.
Proof. apply Forall_forall. intros op _. destruct op; exact I. Qed.

(* K4 *)
Theorem cached_history_transparent (id : N) (a : src) (ops : list hop) : Faithful a ->
  answers_equiv (source a) ops (fst (run_hops [] (SCached id a) ops)) (fresh_answers a ops) 0 = 0.
Proof. intros HF. apply (cached_history_transparent_on id a _ HF ops (hop_ok_all ops)). Qed.

(* the same in the words of the checker interface: api_chist then answers_equiv *)
Corollary cached_chist_transparent (id : N) (a : src) (ops : list hop) : Faithful a ->
  let '(ans, ref) := api_chist (SCached id a) ops in
  answers_equiv (source (SCached id a)) ops ans ref 0 = 0.
Proof. intros HF. cbn [api_chist source]. apply cached_history_transparent. exact HF. Qed.


(* ------------------------------------------------------------------ *)
(* sources without a CachedSource inside leave the store alone          *)
(* ------------------------------------------------------------------ *)
Definition pure (s : src) : Prop :=
  (forall st o, stream st s o = (fst (stream [] s o), st)) /\
  (forall st c, map_of st s c = (fst (map_of [] s c), st)).

Lemma pure_get_map s : (forall st o, stream st s o = (fst (stream [] s o), st)) ->
  forall st c, Tree.get_map st s c = (fst (Tree.get_map [] s c), st).
Proof.
  intros H st c. unfold Tree.get_map. rewrite (H st). destruct (stream [] s (mkOpts c true)) as [[e g] s0].
  reflexivity.
Qed.

Lemma cfold_pure o cs : Forall pure cs -> forall cst evs st,
  fold_left (cfold_step o) cs (cst, evs, st) =
  (fst (fold_left (cfold_step o) cs (cst, evs, ([] : store))), st).
Proof.
  induction 1 as [|c cs Hc _ IH]; intros cst evs st; [reflexivity|].
  cbn [fold_left]. rewrite !cfold_step_eq. destruct Hc as [Hc _]. rewrite (Hc st).
  destruct (stream [] c o) as [[cevs gi] s0]. cbn [fst].
  destruct (concat_child (final_source o) cst cevs gi) as [cst' out].
  rewrite (IH cst' (evs ++ out) st), (IH cst' (evs ++ out) s0). reflexivity.
Qed.

Theorem nocache_pure : forall s, has_cached s = false -> pure s.
Proof.
  apply (src_ind' (fun s => has_cached s = false -> pure s)).
  - intros b v _. split; intros; reflexivity.
  - intros v _. split; intros; reflexivity.
  - intros v _. split; intros; reflexivity.
  - intros v n _.
    assert (S : forall st o, stream st (SOriginal v n) o = (fst (stream [] (SOriginal v n) o), st))
      by (intros; reflexivity).
    split; [exact S|]. intros st c. apply (pure_get_map _ S).
  - intros v n m og i r _.
    assert (S : forall st o, stream st (SMapped v n m og i r) o = (fst (stream [] (SMapped v n m og i r) o), st))
      by (intros st o; cbn [stream]; destruct i; reflexivity).
    split; [exact S|]. intros st c. destruct i as [im|]; [|reflexivity]. apply (pure_get_map _ S).
  - intros cs IH Hc. cbn [has_cached] in Hc.
    assert (Hall : Forall pure cs).
    { rewrite Forall_forall in *. intros c Hin. apply IH; [exact Hin|].
      destruct (has_cached c) eqn:E; [|reflexivity].
      assert (X : existsb has_cached cs = true) by (apply existsb_exists; exists c; split; assumption).
      congruence. }
    assert (S : forall st o, stream st (SConcat cs) o = (fst (stream [] (SConcat cs) o), st)).
    { intros st o. rewrite !stream_concat_eq. destruct cs as [|c [|c2 r]].
      - reflexivity.
      - inversion Hall as [|? ? [Hc1 _] _]. apply Hc1.
      - rewrite (cfold_pure o (c :: c2 :: r) Hall concat_init [] st).
        match goal with |- context [fold_left ?f ?l ?x] => destruct (fold_left f l x) as [[cst evs] s0] end.
        reflexivity. }
    split; [exact S|]. intros st c. apply (pure_get_map _ S).
  - intros i rs IH Hc. cbn [has_cached] in Hc. destruct (IH Hc) as [A B].
    assert (S : forall st o, stream st (SReplace i rs) o = (fst (stream [] (SReplace i rs) o), st)).
    { intros st o. cbn [stream]. rewrite (A st).
      destruct (stream [] i (mkOpts (columns o) false)) as [[ievs gi] s0]. reflexivity. }
    split; [exact S|]. intros st c. cbn [map_of]. destruct (is_nil rs); [apply B|].
    apply (pure_get_map _ S).
  - intros k i _ Hc. discriminate.
Qed.

(* ------------------------------------------------------------------ *)
(* the stored map of an event list can be replayed                      *)
(* ------------------------------------------------------------------ *)
Lemma line_firsts_lines L : forall ms last, Forall (fun x => L <= g_line x) ms ->
  Forall (fun x => L <= g_line x) (line_firsts_from last ms).
Proof.
  induction ms as [|m ms IH]; intros last H; [constructor|]. inversion H as [|? ? Hm Hms]; subst.
  cbn [line_firsts_from]. destruct (m_orig m) as [o|]; [|apply IH; exact Hms].
  destruct (last =? g_line m); [apply IH; exact Hms|]. constructor; [exact Hm|apply IH; exact Hms].
Qed.

Lemma line_firsts_ssorted : forall ms last, ssorted ms -> ssorted (line_firsts_from last ms).
Proof.
  induction ms as [|m ms IH]; intros last H; [exact I|]. destruct H as [Hm Hs].
  cbn [line_firsts_from]. destruct (m_orig m) as [o|]; [|apply IH; exact Hs].
  destruct (last =? g_line m); [apply IH; exact Hs|]. split; [|apply IH; exact Hs].
  apply ssorted_lines in Hm.
  eapply Forall_impl; [|apply (line_firsts_lines (g_line m) ms (g_line m) Hm)]. cbn beta.
  intros x Hx. apply pos_le_iff. cbn [g_line g_col]. lia.
Qed.

Lemma map_of_events_some c evs m : map_of_events c evs = Some m ->
  sm_mappings m = encode_mappings c (chunk_mappings evs).
Proof.
  unfold map_of_events. destruct (is_nil (encode_mappings c (chunk_mappings evs))); [discriminate|].
  intros H. inversion H. reflexivity.
Qed.

Theorem replayable_events (t : text) (c f : bool) (evs : list event) (m : smap) :
  enc_domain (chunk_mappings evs) = true ->
  (c = true -> f = false -> ascii t = true /\ segs_ok t (chunk_mappings evs) = true) ->
  map_of_events c evs = Some m -> replayable t c f m.
Proof.
  intros Hd Hx Hm. unfold replayable. rewrite (map_of_events_some _ _ _ Hm).
  pose proof (sorted_ssorted _ (enc_domain_sorted _ Hd)) as Hs. destruct c; cbn [encode_mappings].
  - rewrite (decode_encode _ Hd). split.
    + apply ssorted_sorted. apply ssorted_kept. exact Hs.
    + intros _ Hf. destruct (Hx eq_refl Hf) as [Ha Hseg]. split; [exact Ha|].
      unfold segs_ok in *. apply kept_forallb. exact Hseg.
  - rewrite (lines_only_decode _ Hd). split; [|discriminate].
    apply ssorted_sorted. apply line_firsts_ssorted. exact Hs.
Qed.

(* Faithful from the conditions in the form the stream theorems deliver them *)
Theorem faithful_intro (K : bool -> bool -> Prop) (a : src) :
  has_cached a = false ->
  (forall c f, dense (evs_of a c f) 0 0 = true) ->
  (forall c f, enc_domain (chunk_mappings (evs_of a c f)) = true) ->
  (forall c f, gi_of a c f = advance 1 0 (source a)) ->
  (forall c, reassembles (evs_of a c false) (source a) = true) ->
  (forall c, attr_of_final_events (evs_of a c false) (source a) c = attr_of_stream (evs_of a c false) c) ->
  (forall c, attr_of_map (map_fresh a c) (source a) c = attr_of_stream (evs_of a c false) c) ->
  (K true false -> mapped_chunk_exists (evs_of a true false) = true ->
   ascii (source a) = true /\ segs_ok (source a) (chunk_mappings (evs_of a true false)) = true) ->
  (forall c m, K c false -> map_fresh a c = Some m -> replayable (source a) c false m) ->
  FaithfulOn K a.
Proof.
  intros Hc Hd He Hend Hr Hself Hmap Hasc Hrm. destruct (nocache_pure a Hc) as [P1 P2].
  constructor; try assumption.
  - intros c f. apply attr_codec_dense; [apply Hd|apply He].
  - intros c f m HK Hm. apply (replayable_events _ c f _ m (He c f)); [|exact Hm].
    intros -> ->. apply Hasc; [exact HK|].
    pose proof (map_of_events_none true _ (He true false)) as Hn. rewrite Hm in Hn. cbn [is_none] in Hn.
    destruct (mapped_chunk_exists (evs_of a true false)); [reflexivity|discriminate].
Qed.

(* ------------------------------------------------------------------ *)
(* streams without mapped chunks                                        *)
(* ------------------------------------------------------------------ *)
Lemma unmapped_map_none (c : bool) (evs : list event) :
  existsb is_mapped (chunk_mappings evs) = false -> map_of_events c evs = None.
Proof.
  intros Ex. unfold map_of_events.
  replace (encode_mappings c (chunk_mappings evs)) with (@nil N); [reflexivity|].
  destruct c; cbn [encode_mappings].
  - unfold encode_full. rewrite enc_run_unmapped by (reflexivity || exact Ex). reflexivity.
  - unfold encode_lines. rewrite lenc_run_unmapped by exact Ex. reflexivity.
Qed.

Lemma lookup_from_unmapped : forall ms l c best, existsb is_mapped ms = false -> oo best = None ->
  oo (lookup_from ms l c best) = None.
Proof.
  induction ms as [|m ms IH]; intros l c best H Hb; [exact Hb|].
  cbn [existsb] in H. apply orb_false_iff in H. destruct H as [H1 H2]. cbn [lookup_from].
  destruct ((g_line m =? l) && (g_col m <=? c)); apply IH; try assumption.
  cbn [oo]. unfold is_mapped in H1. destruct (m_orig m); [discriminate|reflexivity].
Qed.

Lemma lookup_unmapped ms l c : existsb is_mapped ms = false -> lookup ms l c = None.
Proof. intros H. apply (lookup_from_unmapped ms l c None H eq_refl). Qed.

Lemma first_mapped_unmapped : forall ms l, existsb is_mapped ms = false -> first_mapped ms l = None.
Proof.
  induction ms as [|m ms IH]; intros l H; [reflexivity|].
  cbn [existsb] in H. apply orb_false_iff in H. destruct H as [H1 H2]. cbn [first_mapped].
  unfold is_mapped in H1. destruct (m_orig m); [discriminate|]. destruct (g_line m =? l); apply IH; exact H2.
Qed.

Lemma unmapped_final_attr (evs : list event) (t : text) (c : bool) :
  only_chunks evs = true -> existsb is_mapped (chunk_mappings evs) = false ->
  attr_of_final_events evs t c = map (fun _ => None) t.
Proof.
  intros Ho Hu. unfold attr_of_final_events. rewrite (rsegs_chunks_snd _ _ _ Ho), attr_by_pos_fun.
  rewrite <- (attr_by_fun_none t 1 0). apply attr_by_fun_ext_all. intros l c'. rewrite seg_fun_map.
  destruct c; [rewrite (lookup_unmapped _ _ _ Hu)|rewrite (first_mapped_unmapped _ _ Hu)]; reflexivity.
Qed.

(* ------------------------------------------------------------------ *)
(* K3, raw leaves (any bytes, any length)                               *)
(* ------------------------------------------------------------------ *)
Lemma raw_obs (s : src) (c f : bool) : is_raw s = true ->
  evs_of s c f = fst (raw_stream (source s) f) /\ gi_of s c f = snd (raw_stream (source s) f) /\
  map_fresh s c = None.
Proof. intros H. destruct s; try discriminate; repeat split; reflexivity. Qed.

Lemma raw_stream_plain (t : text) (f : bool) :
  only_chunks (fst (raw_stream t f)) = true /\
  existsb is_mapped (chunk_mappings (fst (raw_stream t f))) = false.
Proof.
  unfold raw_stream. destruct f; cbn [fst]; [split; reflexivity|].
  split; [apply raw_chunks_only|apply raw_chunks_unmapped].
Qed.

Theorem raw_faithful (s : src) : is_raw s = true -> Faithful s.
Proof.
  intros H. constructor.
  - intros st o. destruct s; try discriminate; reflexivity.
  - intros st c. destruct s; try discriminate; reflexivity.
  - intros c f. destruct (raw_obs s c f H) as [_ [E _]]. rewrite E. apply raw_stream_end.
  - intros c. destruct (raw_obs s c false H) as [E _]. rewrite E. apply raw_stream_reassembles.
  - intros c f. destruct (raw_obs s c f H) as [E _]. rewrite E.
    destruct (raw_stream_plain (source s) f) as [Ho Hu].
    rewrite (unmapped_map_none c _ Hu), (unmapped_final_attr _ _ c Ho Hu). reflexivity.
  - intros c. destruct (raw_obs s c false H) as [E _]. rewrite E.
    destruct (raw_stream_plain (source s) false) as [Ho Hu].
    rewrite (unmapped_final_attr _ _ c Ho Hu), raw_stream_attr. reflexivity.
  - intros c. destruct (raw_obs s c false H) as [E [_ Em]]. rewrite E, Em, raw_stream_attr. reflexivity.
  - intros c f m _. destruct (raw_obs s c f H) as [E _]. rewrite E.
    destruct (raw_stream_plain (source s) f) as [_ Hu]. rewrite (unmapped_map_none c _ Hu). discriminate.
  - intros c m _. destruct (raw_obs s c false H) as [_ [_ Em]]. rewrite Em. discriminate.
Qed.

(* ------------------------------------------------------------------ *)
(* text-carrying, well-positioned streams: generic facts                *)
(* ------------------------------------------------------------------ *)
Lemma advance_bounds : forall t l c,
  fst (advance l c t) <= l + len t /\ snd (advance l c t) <= c + len t.
Proof.
  induction t as [|b t IH]; intros l c; [cbn [advance fst snd]; rewrite slen_nil; lia|].
  cbn [advance]. rewrite slen_cons.
  destruct (b =? NL); [destruct (IH (l + 1) 0)|destruct (IH l (c + 1))]; lia.
Qed.

Lemma wp_ple : forall evs p, WP evs p -> Forall (fun r => ple p (mpos r)) (chunk_mappings evs).
Proof.
  induction evs as [|e evs IH]; intros p Hw; [constructor|].
  destruct e as [tx m|i n c|i n]; [|apply IH; exact Hw|apply IH; exact Hw].
  apply WP_chunk_inv in Hw. destruct Hw as [x [_ [Hl [Hc Hw]]]]. cbn [chunk_mappings]. constructor.
  - unfold ple, mpos. cbn [fst snd]. lia.
  - eapply Forall_impl; [|apply (IH _ Hw)]. cbn beta. intros r Hr.
    eapply ple_trans; [|exact Hr]. unfold adv. destruct p as [l c]. apply advance_ple.
Qed.

Definition pos_fact (t : text) (m : mapping) : Prop :=
  is_position t (g_line m) (g_col m) = true /\ 1 <= g_line m /\
  g_line m <= 1 + len t /\ g_col m <= len t.

Lemma wp_facts : forall evs pre t, Reass evs t -> WP evs (adv (1, 0) pre) ->
  ssorted (chunk_mappings evs) /\ Forall (pos_fact (pre ++ t)) (chunk_mappings evs).
Proof.
  induction evs as [|e evs IH]; intros pre t Hr Hw; [split; [exact I|constructor]|].
  destruct e as [tx m|i n c|i n]; [|apply IH; assumption|apply IH; assumption].
  apply Reass_chunk_inv in Hr. destruct Hr as [x [t' [Ex [Et Hr]]]]. subst tx t.
  pose proof (wp_ple _ _ Hw) as Hple. cbn [chunk_mappings] in Hple. inversion Hple as [|? ? _ Hrest]; subst.
  apply WP_chunk_inv in Hw. destruct Hw as [x' [Ex' [Hl [Hc Hw]]]]. inversion Ex'. subst x'.
  rewrite <- adv_app in Hw. destruct (IH (pre ++ x) t' Hr Hw) as [Hs Hp]. rewrite <- app_assoc in Hp.
  cbn [chunk_mappings]. split.
  - split; [|exact Hs]. eapply Forall_impl; [|exact Hrest]. cbn beta. intros r Hr'.
    apply ple_pos_le. unfold ple, mpos in *. cbn [fst snd] in *. lia.
  - constructor; [|exact Hp]. unfold pos_fact, adv in *. cbn [fst snd] in *.
    pose proof (advance_bounds pre 1 0) as [B1 B2]. pose proof (advance_line_ge 1 0 pre) as B3.
    rewrite Hl, Hc. rewrite slen_app. split; [|lia].
    apply is_position_adv. destruct (advance 1 0 pre); reflexivity.
Qed.

Lemma nl_last_plt : forall x, nl_last x -> forall l c k, k < len x -> plt (l, c + k) (advance l c x).
Proof.
  induction x as [|b x IH]; intros H l c k Hk; [rewrite slen_nil in Hk; lia|].
  destruct H as [Hb Hx]. rewrite slen_cons in Hk.
  destruct (N.eq_dec k 0) as [E|E].
  - subst k. rewrite N.add_0_r. apply advance_plt.
  - cbn [advance]. destruct (b =? NL) eqn:Eb.
    + apply N.eqb_eq in Eb. change NL with 10 in Eb. rewrite (Hb Eb), slen_nil in Hk. lia.
    + replace (c + k) with (c + 1 + (k - 1)) by lia. apply IH; [exact Hx|lia].
Qed.

Definition text_nl (tx : option text) : Prop := match tx with Some x => nl_last x | None => False end.

(* every chunk is `chunk_good` for the stream's own segment list *)
Lemma wp_chunk_good : forall evs p pre ms, only_chunks evs = true -> WP evs p ->
  Forall text_nl (chunk_texts evs) -> ms = pre ++ chunk_mappings evs -> Forall (chunk_good ms) evs.
Proof.
  induction evs as [|e evs IH]; intros p pre ms Ho Hw Ht Hms; [constructor|].
  destruct e as [tx m|i n c|i n]; try discriminate.
  cbn [only_chunks forallb is_chunk andb] in Ho.
  apply WP_chunk_inv in Hw. destruct Hw as [x [Ex [Hl [Hc Hw]]]]. subst tx.
  cbn [chunk_texts] in Ht. inversion Ht as [|? ? Hnl Ht']; subst. cbn [text_nl] in Hnl.
  cbn [chunk_mappings] in *. constructor.
  - cbn [chunk_good]. split; [exact Hnl|]. intros k Hk.
    change (m :: chunk_mappings evs) with ([m] ++ chunk_mappings evs). rewrite app_assoc, lookup_before.
    + rewrite lookup_snoc. unfold qual. rewrite N.eqb_refl.
      replace (g_col m <=? g_col m + k) with true by (symmetry; apply N.leb_le; lia). reflexivity.
    + eapply Forall_impl; [|apply (wp_ple _ _ Hw)]. cbn beta. intros r Hr.
      eapply plt_ple_trans; [|exact Hr]. unfold adv. rewrite <- Hl, <- Hc. apply nl_last_plt; assumption.
  - apply (IH (adv p x) (pre ++ [m])); try assumption. rewrite <- app_assoc. reflexivity.
Qed.

(* C02 => covering = looking up, columns = true *)
Lemma self_cols (S Nn : list text) (evs : list event) (t : text) :
  only_chunks evs = true -> Reass evs t -> WP evs (1, 0) -> Forall text_nl (chunk_texts evs) ->
  attr_by_pos (map snd (rsegs_of_events evs S Nn)) true t 1 0 = attr_cover (rsegs_of_events evs S Nn).
Proof.
  intros Ho Hr Hw Ht. pose proof (wp_chunk_good evs (1, 0) [] _ Ho Hw Ht eq_refl) as Hg. cbn [app] in Hg.
  rewrite (rsegs_chunks_snd _ _ _ Ho), (rsegs_chunks _ _ _ Ho).
  rewrite (cover_by_pos _ _ _ _ (1, 0) t Hr Hw Hg). cbn [fst snd].
  rewrite attr_by_pos_fun. apply attr_by_fun_ext_all. intros l c. rewrite seg_fun_map. reflexivity.
Qed.

(* whole-line chunks, columns = false *)
Lemma self_lines (S Nn : list text) (ls : list text) (evs : list event) (t : text) :
  lines_shape ls -> Reass evs t -> WP evs (1, 0) ->
  Forall (line_chunk ls (chunk_mappings evs) 0) evs ->
  attr_by_pos (map snd (rsegs_of_events evs S Nn)) false t 1 0 =
  line_firsts_cover (rsegs_of_events evs S Nn) None [] 0.
Proof.
  intros Hshape Hr Hw Hg. pose proof (line_chunk_only _ _ _ _ Hg) as Ho.
  rewrite (rsegs_chunks_snd _ _ _ Ho), (rsegs_chunks _ _ _ Ho).
  rewrite (lines_cover _ _ _ _ Hshape _ 1 t [] Hr Hw Hg). cbn [rev app].
  rewrite attr_by_pos_fun. apply attr_by_fun_ext_all. intros l c. rewrite seg_fun_map. reflexivity.
Qed.

Lemma ev_pos_mappings (t : text) (evs : list event) : Forall (ev_pos t) evs ->
  forallb (fun mp => is_position t (g_line mp) (g_col mp)) (chunk_mappings evs) = true.
Proof.
  induction 1 as [|e evs He _ IH]; [reflexivity|].
  destruct e as [tx m|i n c|i n]; cbn [chunk_mappings forallb]; [|exact IH|exact IH].
  cbn [ev_pos] in He. rewrite He, IH. reflexivity.
Qed.

Lemma pos_fact_segs_ok (t : text) (ms : list mapping) : Forall (pos_fact t) ms -> segs_ok t ms = true.
Proof.
  intros H. apply positions_segs_ok. apply forallb_forall. rewrite Forall_forall in H.
  intros m Hm. apply (H m Hm).
Qed.

(* ------------------------------------------------------------------ *)
(* K3, OriginalSource                                                   *)
(* ------------------------------------------------------------------ *)
Definition orig_shape (m : mapping) : Prop :=
  m = orig_at (g_line m) (g_col m) \/ m = unmapped (g_line m) (g_col m).

Lemma tokens_shape fin : forall toks line col,
  Forall orig_shape (chunk_mappings (fst (original_tokens toks fin line col))).
Proof.
  induction toks as [|tk toks IH]; intros line col; [constructor|].
  rewrite original_tokens_cons. destruct (lone tk), fin; cbn [app chunk_mappings]; try apply IH;
    (constructor; [|apply IH]); [right|left|left]; reflexivity.
Qed.

Lemma line_chunks_shape : forall ls i, Forall orig_shape (chunk_mappings (original_line_chunks ls i)).
Proof.
  induction ls as [|l ls IH]; intros i; [constructor|]. cbn [original_line_chunks chunk_mappings].
  constructor; [left; reflexivity|apply IH].
Qed.

Lemma tokens_texts : forall toks, Forall piece_shape toks -> forall line col,
  Forall text_nl (chunk_texts (fst (original_tokens toks false line col))).
Proof.
  induction 1 as [|tk toks Htk _ IH]; intros line col; [constructor|].
  rewrite original_tokens_cons. destruct (lone tk); cbn [app chunk_texts];
    (constructor; [apply nl_last_piece; exact Htk|apply IH]).
Qed.

Lemma line_chunks_first : forall ls i l,
  first_mapped (chunk_mappings (original_line_chunks ls i)) l =
  if (i <=? l) && (l <? i + len ls) then Some (0, l) else None.
Proof.
  induction ls as [|x ls IH]; intros i l.
  - cbn [original_line_chunks chunk_mappings first_mapped]. rewrite slen_nil.
    destruct (i <=? l) eqn:E1; [|reflexivity]. apply N.leb_le in E1.
    replace (l <? i + 0) with false by (symmetry; apply N.ltb_ge; lia). reflexivity.
  - cbn [original_line_chunks chunk_mappings first_mapped orig_at g_line m_orig o_src o_line].
    rewrite slen_cons. destruct (i =? l) eqn:E.
    + apply N.eqb_eq in E. subst l. rewrite N.leb_refl.
      replace (i <? i + (len ls + 1)) with true by (symmetry; apply N.ltb_lt; lia). reflexivity.
    + apply N.eqb_neq in E. rewrite IH.
      replace (l <? i + 1 + len ls) with (l <? i + (len ls + 1)) by (f_equal; lia).
      destruct (l <? i + (len ls + 1)); [|rewrite !andb_false_r; reflexivity]. rewrite !andb_true_r.
      destruct (i <=? l) eqn:E1, (i + 1 <=? l) eqn:E2; try reflexivity;
        [apply N.leb_le in E1; apply N.leb_gt in E2|apply N.leb_gt in E1; apply N.leb_le in E2]; lia.
Qed.

Lemma shape_small (m : mapping) : orig_shape m ->
  1 <= g_line m -> g_line m < 1073741824 -> g_col m < 1073741824 -> mapping_small m = true.
Proof.
  intros [E|E] H1 H2 H3; rewrite E.
  - apply small_orig_at; assumption.
  - unfold mapping_small, unmapped, small. cbn [g_line g_col m_orig].
    apply N.ltb_lt in H2. apply N.ltb_lt in H3. apply N.leb_le in H1. rewrite H1, H2, H3. reflexivity.
Qed.

Section OriginalLeaf.
Variables (v name : text).
Hypothesis Hlen : len v < 1073741823.

Let s := SOriginal v name.

Lemma orig_evs c f : evs_of s c f = fst (original_stream v name (mkOpts c f)).
Proof. reflexivity. Qed.

(* the text-carrying streams: sorted, small, inside the text *)
Lemma orig_text_facts c :
  ssorted (chunk_mappings (evs_of s c false)) /\ Forall (pos_fact v) (chunk_mappings (evs_of s c false)).
Proof.
  rewrite orig_evs. pose proof (original_stream_good v name (mkOpts c false) eq_refl) as [Hr Hw].
  apply (wp_facts _ [] v Hr Hw).
Qed.

Lemma orig_text_shape c : Forall orig_shape (chunk_mappings (evs_of s c false)).
Proof.
  rewrite orig_evs. destruct c.
  - rewrite original_stream_cols_fst. cbn [chunk_mappings]. apply tokens_shape.
  - rewrite original_stream_lines_text_fst. cbn [chunk_mappings]. apply line_chunks_shape.
Qed.

Lemma orig_domain c f : enc_domain (chunk_mappings (evs_of s c f)) = true.
Proof.
  destruct f.
  - rewrite orig_evs. destruct c; [apply (original_cols_domain v name Hlen)|apply (original_lines_domain v name Hlen)].
  - destruct (orig_text_facts c) as [Hs Hp]. pose proof (orig_text_shape c) as Hsh.
    unfold enc_domain. rewrite (ssorted_sorted _ Hs). cbn [andb]. apply forallb_forall.
    rewrite Forall_forall in Hp, Hsh. intros m Hm. destruct (Hp m Hm) as [_ [H1 [H2 H3]]].
    apply shape_small; [apply Hsh; exact Hm|exact H1|lia|lia].
Qed.

Lemma orig_dense c f : dense (evs_of s c f) 0 0 = true.
Proof.
  rewrite orig_evs. destruct f; [|apply original_stream_dense].
  destruct c; [apply (original_cols_domain v name Hlen)|apply (original_lines_domain v name Hlen)].
Qed.

Lemma orig_self c :
  attr_of_final_events (evs_of s c false) v c = attr_of_stream (evs_of s c false) c.
Proof.
  rewrite orig_evs. unfold attr_of_final_events, attr_of_stream. destruct c.
  - rewrite original_stream_cols_fst, !rsegs_source0.
    pose proof (original_tokens_good _ (potential_tokens_pieces v) 1 0) as [Hr Hw].
    rewrite concat_potential_tokens in Hr.
    apply self_cols; [apply tokens_only|exact Hr|exact Hw|apply tokens_texts; apply potential_tokens_pieces].
  - rewrite original_stream_lines_text_fst, !rsegs_source0.
    pose proof (original_line_chunks_good _ (split_lines_shape v) 1) as [Hr Hw].
    rewrite concat_split_lines in Hr.
    apply (self_lines _ _ (split_lines v)); [apply split_lines_shape|exact Hr|exact Hw|].
    apply (line_chunks_chunks v Hlen); [lia|rewrite sdrop_0; reflexivity|].
    intros j Hj1 Hj2. rewrite line_chunks_first.
    replace (1 <=? j) with true by (symmetry; apply N.leb_le; lia).
    replace (j <? 1 + len (split_lines v)) with true by (symmetry; apply N.ltb_lt; lia). reflexivity.
Qed.

Lemma orig_map_fresh c : map_fresh s c = map_of_events c (evs_of s c true).
Proof. unfold map_fresh. apply map_of_original. Qed.

Theorem original_faithful_on (K : bool -> bool -> Prop) :
  (K true false -> ascii v = true) -> FaithfulOn K s.
Proof.
  intros HKa. apply faithful_intro.
  - reflexivity.
  - apply orig_dense.
  - apply orig_domain.
  - intros c f. apply original_stream_end.
  - intros c. apply original_stream_reassembles. reflexivity.
  - apply orig_self.
  - intros c. apply (leaf_attr [] s c Hlen).
  - intros HK _. split; [exact (HKa HK)|]. apply pos_fact_segs_ok. apply (orig_text_facts true).
  - intros c m HK Hm. rewrite orig_map_fresh in Hm.
    apply (replayable_events v c false _ m (orig_domain c true)); [|exact Hm].
    intros -> _. split; [exact (HKa HK)|]. apply positions_segs_ok. apply ev_pos_mappings.
    apply (original_stream_pos v name true).
Qed.

Theorem original_faithful : ascii v = true -> Faithful s.
Proof. intros Hasc. apply original_faithful_on. intros _. exact Hasc. Qed.

(* without ASCII: everything but the replay of the text-carrying column mode *)
Definition not_cols_text (c f : bool) : Prop := (c, f) <> (true, false).

Theorem original_faithful_partial : FaithfulOn not_cols_text s.
Proof. apply original_faithful_on. intros H. exfalso. apply H. reflexivity. Qed.

End OriginalLeaf.

(* ------------------------------------------------------------------ *)
(* K3: every history on a wrapped leaf                                  *)
(* ------------------------------------------------------------------ *)
Definition cache_leaf_ok (s : src) : Prop :=
  match s with
  | SRaw _ _ | SRawString _ | SRawBuffer _ => True
  | SOriginal v _ => len v < 1073741823 /\ ascii v = true
  | _ => False
  end.

Theorem leaf_faithful (s : src) : cache_leaf_ok s -> Faithful s.
Proof.
  destruct s; cbn [cache_leaf_ok]; try contradiction; try (intros _; apply raw_faithful; reflexivity).
  intros [H1 H2]. apply original_faithful; assumption.
Qed.

Theorem cached_leaf_transparent (id : N) (a : src) (ops : list hop) : cache_leaf_ok a ->
  answers_equiv (source a) ops (fst (run_hops [] (SCached id a) ops)) (fresh_answers a ops) 0 = 0.
Proof. intros H. apply cached_history_transparent. apply leaf_faithful. exact H. Qed.

(* ... from any store that the history itself could have produced, e.g. on a clone *)
Theorem cached_leaf_transparent_from (id : N) (a : src) (ops1 ops2 : list hop) : cache_leaf_ok a ->
  answers_equiv (source a) ops2
    (fst (run_hops (snd (run_hops [] (SCached id a) ops1)) (SCached id a) ops2)) (fresh_answers a ops2) 0 = 0.
Proof.
  intros H. pose proof (leaf_faithful a H) as HF.
  destruct (history_transparent_from id a _ HF ops1 [] 0 (hop_ok_all ops1) (sound_empty id a)) as [_ Hs].
  apply (history_transparent_from id a _ HF ops2 _ 0 (hop_ok_all ops2) Hs).
Qed.

(* ------------------------------------------------------------------ *)
(* non-ASCII OriginalSource                                             *)
(* ------------------------------------------------------------------ *)
(* The full statement
     forall id v n ops, len v < 2^30 - 1 ->
       answers_equiv v ops (fst (run_hops [] (SCached id (SOriginal v n)) ops))
                     (fresh_answers (SOriginal v n) ops) 0 = 0
   is FALSE: an OriginalSource reports byte columns, the replay of the stored map reads them as
   character columns.  "e-acute ; a": cold chunks "e';" at (1,0) and "a" at (1,3); replayed,
   column 3 lies past the 3 characters of the line and "a" is attributed to (1,0).
   (Known finding K3 of the pinned tree.) *)
Example cached_original_utf8_counterexample :
  let a := SOriginal [195; 169; 59; 97] [102] in
  answers_equiv (source a) [OStream true false; OStream true false]
    (fst (run_hops [] (SCached 5 a) [OStream true false; OStream true false]))
    (fresh_answers a [OStream true false; OStream true false]) 0 = 2.
Proof. vm_compute. reflexivity. Qed.

(* strongest true variant: histories that never stream with (columns, not final) *)
Theorem cached_original_transparent_partial (id : N) (v n : text) (ops : list hop) :
  len v < 1073741823 -> Forall (fun op => op <> OStream true false) ops ->
  answers_equiv v ops (fst (run_hops [] (SCached id (SOriginal v n)) ops))
                (fresh_answers (SOriginal v n) ops) 0 = 0.
Proof.
  intros Hlen Hops.
  apply (cached_history_transparent_on id (SOriginal v n) _ (original_faithful_partial v n Hlen) ops).
  eapply Forall_impl; [|exact Hops]. intros op Hop. destruct op as [| | | |c|c f| |]; try exact I.
  cbn [hop_ok]. unfold not_cols_text. intros E. inversion E. subst. apply Hop. reflexivity.
Qed.

(* ------------------------------------------------------------------ *)
(* the checker `chk_hist` on a wrapped leaf                             *)
(* ------------------------------------------------------------------ *)
Section HevInd.
Variable P : hev -> Prop.
Hypothesis HHB : forall t, P (HB t).
Hypothesis HHU8 : forall n, P (HU8 n).
Hypothesis HHUs : forall n, P (HUs n).
Hypothesis HHIs : forall n, P (HIs n).
Hypothesis HHU32 : forall n, P (HU32 n).
Hypothesis HHU64 : forall l, Forall P l -> P (HU64 l).

Fixpoint hev_ind' (h : hev) : P h :=
  match h with
  | HB t => HHB t
  | HU8 n => HHU8 n
  | HUs n => HHUs n
  | HIs n => HHIs n
  | HU32 n => HHU32 n
  | HU64 l =>
    HHU64 l ((fix go (l : list hev) : Forall P l :=
                match l with
                | [] => Forall_nil P
                | c :: l' => Forall_cons c (hev_ind' c) (go l')
                end) l)
  end.
End HevInd.

Lemma hev_eqb_refl : forall h, hev_eqb h h = true.
Proof.
  apply hev_ind'; intros; cbn [hev_eqb]; try apply N.eqb_refl; try apply text_eqb_refl.
  induction H as [|x l Hx _ IH]; [reflexivity|]. rewrite Hx, IH. reflexivity.
Qed.

Lemma hevs_eqb_refl (l : list hev) : hevs_eqb l l = true.
Proof.
  unfold hevs_eqb. induction l as [|x l IH]; [reflexivity|]. cbn [list_eqb].
  rewrite hev_eqb_refl, IH. reflexivity.
Qed.

(* the hash of an unchanged value never changes, whatever the store does *)
Lemma hashes_const (s : src) : forall ops st,
  Forall (fun h => h = hash_events s) (hashes_of (fst (run_hops st s ops))).
Proof.
  induction ops as [|op ops IH]; intros st; [constructor|].
  cbn [run_hops]. destruct (run_hop st s op) as [x st1] eqn:E. specialize (IH st1).
  destruct (run_hops st1 s ops) as [as_ st2]. cbn [fst] in *.
  destruct op; cbn [run_hop] in E.
  - inversion E; subst. exact IH.
  - inversion E; subst. exact IH.
  - inversion E; subst. exact IH.
  - inversion E; subst. exact IH.
  - destruct (map_of st s cols) as [m st']. inversion E; subst. exact IH.
  - destruct (stream st s (mkOpts cols final)) as [[e g] st']. inversion E; subst. exact IH.
  - inversion E; subst. cbn [hashes_of]. constructor; [reflexivity|exact IH].
  - inversion E; subst. exact IH.
Qed.

Lemma all_equal_const (H : list hev) (hs : list (list hev)) :
  Forall (fun h => h = H) hs -> all_equal_hashes hs = true.
Proof.
  intros Hall. destruct hs as [|h hs]; [reflexivity|]. inversion Hall as [|? ? Hh Hhs]; subst.
  cbn [all_equal_hashes]. apply forallb_forall. rewrite Forall_forall in Hhs.
  intros x Hx. rewrite (Hhs x Hx). apply hevs_eqb_refl.
Qed.

(* C10 on wrapped leaves: the extracted checker accepts every history of the model *)
Theorem chk_hist_cached_leaf (id : N) (a : src) (ops : list hop) : cache_leaf_ok a ->
  chk_hist (SCached id a) ops (fst (api_chist (SCached id a) ops)) (snd (api_chist (SCached id a) ops)) =
  if treeA (SCached id a) then 0 else 100.
Proof.
  intros H. unfold chk_hist. destruct (treeA (SCached id a)); [|reflexivity]. cbn [negb api_chist fst snd source].
  rewrite (cached_leaf_transparent id a ops H).
  rewrite (all_equal_const _ _ (hashes_const (SCached id a) ops [])). reflexivity.
Qed.

Print Assumptions cached_history_transparent.
Print Assumptions nocache_pure.
Print Assumptions faithful_intro.
Print Assumptions raw_faithful.
Print Assumptions original_faithful.
Print Assumptions cached_leaf_transparent.
Print Assumptions cached_leaf_transparent_from.
Print Assumptions cached_original_transparent_partial.
Print Assumptions chk_hist_cached_leaf.
