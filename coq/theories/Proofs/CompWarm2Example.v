(* C06 over combined-map leaves, part 4: the input-side bound `tiny2` implies the hypotheses of
   CompCombTree.C06_tree2, and the statements of CompCombTree.v / CompWarm2Replace.v /
   CompWarm2Concat.v are not vacuous (K4): a ConcatSource and a ReplaceSource WITH replacements
   over children that contain a combined-map leaf (CombLeafExample.ex_leaf, both values of
   remove_original_source) beneath a CachedSource (WarmCombHist.wc_small / wc_tree); every
   hypothesis and the verdict 0 recomputed by vm_compute for several warm-up histories. *)
From RS Require Import Base.Prelude Base.Text Rope.RopeModel Codec.Vlq Codec.CodecSpec
  Stream.Types Stream.Leaves Stream.Concat Stream.Replace Stream.Combined Stream.Tree
  Api.ApiTree Sem.Attr Sem.HashEq Api.ApiHist Checkers.ChkTree Checkers.ChkHist Checkers.ChkComp Api.ApiCheck
  Proofs.StreamTree Proofs.WfFinal Proofs.RStreamTree Proofs.ReplAttrCols Proofs.ReplAttrTree Proofs.CompLinesTree
  Proofs.ColdCache Proofs.BoundsPos Proofs.BoundsOrig
  Proofs.CombLeafTree Proofs.CombLeafExample
  Proofs.WarmCombBounds Proofs.WarmCombDefs Proofs.WarmCombHist
  Proofs.CompCombTree Proofs.CompWarm2Replace Proofs.CompWarm2Concat.
Require Import Lia List.
Import ListNotations.

Local Open Scope N_scope.

(* ------------------------------------------------------------------ *)
(* tiny2 implies csmall2                                                *)
(* ------------------------------------------------------------------ *)
Lemma le_KB_small (l : list text) : (forall c, In c l -> len c <= KB) -> texts_small l = true.
Proof.
  intros H. unfold texts_small. apply forallb_forall. intros c Hc. specialize (H c Hc).
  apply N.ltb_lt. unfold KB, two32 in *. lia.
Qed.

Lemma tsize_csmall2 : forall s, tsize s < KB -> maps_tiny2 s = true -> csmall2 s = true.
Proof.
  apply (src_ind' (fun s => tsize s < KB -> maps_tiny2 s = true -> csmall2 s = true)); try (intros; reflexivity).
  - intros v n H _. cbn [csmall2 tsize source] in *. apply N.ltb_lt. unfold KB, two32 in *. lia.
  - intros v n m og i r _ H. cbn [csmall2 maps_tiny2] in *. apply andb_true_iff in H. destruct H as [Hm Hi].
    rewrite (le_KB_small _ (proj2 (map_tiny_segb m Hm))). cbn [andb].
    destruct i as [im|]; [|reflexivity]. destruct (inner_tiny_parts og im Hi) as [Hi1 Hi2].
    rewrite (le_KB_small _ (proj2 (map_tiny_segb im Hi1))). cbn [andb].
    destruct og as [t|]; [|reflexivity]. apply N.ltb_lt. unfold KB, two32 in *. lia.
  - intros cs IH H Hm. cbn [csmall2 maps_tiny2] in *. apply forallb_forall. intros c Hc.
    rewrite Forall_forall in IH. rewrite forallb_forall in Hm.
    apply (IH c Hc); [pose proof (tsize_child cs c Hc); lia|apply Hm; exact Hc].
  - intros i rs IH H Hm. cbn [csmall2 maps_tiny2 tsize] in *. apply IH; [lia|exact Hm].
  - intros id i IH H Hm. cbn [csmall2 maps_tiny2 tsize] in *. apply IH; assumption.
Qed.

Lemma tiny2_csmall2 s : tiny2 s = true -> csmall2 s = true.
Proof. intros H. destruct (tiny2_parts s H) as [H1 [_ [_ [_ H5]]]]. apply tsize_csmall2; assumption. Qed.

(* K1 with the single input-side bound *)
Corollary C06_tree2_tiny (s : src) (ws : list (N * wop)) :
  composite s = true -> rshape2 s = true -> treeA s = true -> tiny2 s = true ->
  let '(c10, c00, k10, k00) := api_comp s ws in
  bindings_consistent (flat_map contents_of_events k10) = true ->
  chk_C06 s (source s) c10 c00 k10 k00 = 0.
Proof.
  intros H1 H2 H3 H4. apply C06_tree2; try assumption.
  - apply tiny_rsmall; [exact H3|apply tiny2_tiny; exact H4].
  - apply tiny2_csmall2. exact H4.
Qed.

(* ------------------------------------------------------------------ *)
(* K4: the trees                                                        *)
(* ------------------------------------------------------------------ *)
(* source (wc_small r) = "abcdef\nghi\n" ++ "\nx" : a replacement across the first line feed of the
   cached combined leaf, a named insertion, a deletion reaching into the raw child *)
Definition ce_rs : list repl :=
  [mkRepl 1 3 [10; 123] None 1; mkRepl 5 5 [65] (Some [110]) 2; mkRepl 9 12 [] None 3].
(* ReplaceSource with replacements directly above Concat [Cached (combined leaf); raw] ... *)
Definition ce_replace (r : bool) : src := SReplace (wc_small r) ce_rs.
(* ... and above the larger tree of WarmCombHist.v (two cached combined leaves, a nested cache) *)
Definition ce_replace_big (r : bool) : src := SReplace (wc_tree r) ce_rs.
(* ConcatSource over a cached ConcatSource with a cached combined leaf, a raw leaf and a
   ReplaceSource without replacements above a cached OriginalSource *)
Definition ce_concat (r : bool) : src :=
  SConcat [SCached 5 (wc_small r); SRaw false [121; 10]; SReplace (SCached 6 (SOriginal [113; 10; 114] [102])) []].

Definition ce_hists : list (list (N * wop)) :=
  [[]; wc_warm; [(1, WMap false)]; [(1, WStream true true); (1, WStream false false)];
   [(5, WMap true); (1, WStream false true); (6, WStream true false)]; [(6, WMap false); (5, WStream false false)]].

Definition ce_verdict (s : src) (ws : list (N * wop)) : bool * N :=
  let '(c10, c00, k10, k00) := api_comp s ws in
  (bindings_consistent (flat_map contents_of_events k10), chk_C06 s (source s) c10 c00 k10 k00).

(* hypotheses of K2: (ids_distinct inner, k2_shape inner, rshape2 (uncache inner), treeA, tiny2);
   the ReplaceSource itself has the shape of known finding K2, and its inner tree is outside the
   class of CompWarmReplace.v (rshape (uncache inner) = false: a combined leaf) *)
Example ce_replace_hyps (r : bool) :
  (ids_distinctb (wc_small r), k2_shape (wc_small r), rshape2 (uncache (wc_small r)), treeA (ce_replace r),
   tiny2 (uncache (ce_replace r)), k2_shape (ce_replace r), RStreamTree.rshape (uncache (wc_small r)))
  = (true, false, true, true, true, true, false) /\
  (ids_distinctb (wc_tree r), k2_shape (wc_tree r), rshape2 (uncache (wc_tree r)), treeA (ce_replace_big r),
   tiny2 (uncache (ce_replace_big r)), k2_shape (ce_replace_big r), RStreamTree.rshape (uncache (wc_tree r)))
  = (true, false, true, true, true, true, false).
Proof. destruct r; vm_compute; split; reflexivity. Qed.

(* K2 instantiated: any warm-up history *)
Example ce_replace_instance (r : bool) (ws : list (N * wop)) :
  let '(c10, c00, k10, k00) := api_comp (ce_replace r) ws in
  bindings_consistent (flat_map contents_of_events k10) = true ->
  chk_C06 (ce_replace r) (source (ce_replace r)) c10 c00 k10 k00 = 0.
Proof.
  apply C06_replace_warm2_tiny; try (destruct r; vm_compute; reflexivity). apply wc_small_distinct.
Qed.

Example ce_replace_big_instance (r : bool) (ws : list (N * wop)) :
  let '(c10, c00, k10, k00) := api_comp (ce_replace_big r) ws in
  bindings_consistent (flat_map contents_of_events k10) = true ->
  chk_C06 (ce_replace_big r) (source (ce_replace_big r)) c10 c00 k10 k00 = 0.
Proof.
  apply C06_replace_warm2_tiny; try (destruct r; vm_compute; reflexivity). apply wc_tree_distinct.
Qed.

(* ... and recomputed: the domain condition holds and the verdict is 0 *)
Example ce_replace_recomputed (r : bool) :
  map (ce_verdict (ce_replace r)) ce_hists = map (fun _ => (true, 0)) ce_hists /\
  map (ce_verdict (ce_replace_big r)) ce_hists = map (fun _ => (true, 0)) ce_hists.
Proof. destruct r; vm_compute; split; reflexivity. Qed.

(* hypotheses of K3 *)
Example ce_concat_hyps (r : bool) :
  (ids_distinctb (ce_concat r), k2_shape (ce_concat r), rshape2 (uncache (ce_concat r)), treeA (ce_concat r),
   tiny2 (uncache (ce_concat r)), RStreamTree.rshape (uncache (ce_concat r)))
  = (true, false, true, true, true, false) /\
  (ids_distinctb (wc_small r), k2_shape (wc_small r), rshape2 (uncache (wc_small r)), treeA (wc_small r),
   tiny2 (uncache (wc_small r)), RStreamTree.rshape (uncache (wc_small r)))
  = (true, false, true, true, true, false).
Proof. destruct r; vm_compute; split; reflexivity. Qed.

(* K3 instantiated: any warm-up history *)
Example ce_concat_instance (r : bool) (ws : list (N * wop)) :
  let '(c10, c00, k10, k00) := api_comp (ce_concat r) ws in
  bindings_consistent (flat_map contents_of_events k10) = true ->
  chk_C06 (ce_concat r) (source (ce_concat r)) c10 c00 k10 k00 = 0.
Proof.
  apply C06_concat_warm2_tiny; try (destruct r; vm_compute; reflexivity).
  apply ids_distinctb_spec. destruct r; vm_compute; reflexivity.
Qed.

Example ce_small_instance (r : bool) (ws : list (N * wop)) :
  let '(c10, c00, k10, k00) := api_comp (wc_small r) ws in
  bindings_consistent (flat_map contents_of_events k10) = true ->
  chk_C06 (wc_small r) (source (wc_small r)) c10 c00 k10 k00 = 0.
Proof.
  apply C06_concat_warm2_tiny; try (destruct r; vm_compute; reflexivity). apply wc_small_distinct.
Qed.

Example ce_concat_recomputed (r : bool) :
  map (ce_verdict (ce_concat r)) ce_hists = map (fun _ => (true, 0)) ce_hists /\
  map (ce_verdict (wc_small r)) ce_hists = map (fun _ => (true, 0)) ce_hists.
Proof. destruct r; vm_compute; split; reflexivity. Qed.

(* K1: cold, cache-free trees with combined leaves (CombLeafExample.v and the trees above with
   their caches removed): hypotheses of C06_tree2 and of C06_tree2_tiny, and the verdict *)
Definition ce_cold (r : bool) : list src :=
  [ex_concat r; ex_replace r; ex_nested r; um_tree r; uncache (ce_replace r); uncache (ce_replace_big r);
   uncache (ce_concat r)].

Example ce_cold_hyps (r : bool) :
  map (fun s => (composite s, rshape2 s, RStreamTree.rshape s, treeA s, rsmall s, csmall2 s, tiny2 s)) (ce_cold r)
  = map (fun _ => (true, true, false, true, true, true, true)) (ce_cold r).
Proof. destruct r; vm_compute; reflexivity. Qed.

Example ce_cold_instance (r : bool) (ws : list (N * wop)) :
  Forall (fun s => let '(c10, c00, k10, k00) := api_comp s ws in
                   bindings_consistent (flat_map contents_of_events k10) = true ->
                   chk_C06 s (source s) c10 c00 k10 k00 = 0) (ce_cold r).
Proof.
  apply Forall_forall. intros s Hs. apply C06_tree2;
    repeat (destruct Hs as [<-|Hs]; [destruct r; vm_compute; reflexivity|]); destruct Hs.
Qed.

Example ce_cold_recomputed (r : bool) :
  map (fun s => ce_verdict s []) (ce_cold r) = map (fun _ => (true, 0)) (ce_cold r).
Proof. destruct r; vm_compute; reflexivity. Qed.

Print Assumptions tiny2_csmall2.
Print Assumptions C06_tree2_tiny.
Print Assumptions ce_replace_hyps.
Print Assumptions ce_replace_instance.
Print Assumptions ce_replace_big_instance.
Print Assumptions ce_replace_recomputed.
Print Assumptions ce_concat_hyps.
Print Assumptions ce_concat_instance.
Print Assumptions ce_small_instance.
Print Assumptions ce_concat_recomputed.
Print Assumptions ce_cold_hyps.
Print Assumptions ce_cold_instance.
Print Assumptions ce_cold_recomputed.
