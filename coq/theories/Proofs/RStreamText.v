(* ReplaceSource stream, part 1 (P1, TEXT): the chunks streamed by a ReplaceSource
   reassemble to the text computed by the string splice of source(). *)
From RS Require Import Base.Prelude Base.Text Rope.RopeModel Stream.Types Stream.Leaves
  Stream.Replace Stream.Tree Checkers.ChkTree
  Proofs.RopeWf Proofs.StreamText Proofs.StreamLeaves Proofs.ReplaceSort Proofs.ReplaceText.
Require Import Lia List ZArith.

Local Open Scope N_scope.

(* ------------------------------------------------------------------ *)
(* slices                                                              *)
(* ------------------------------------------------------------------ *)
Lemma take_add {A} (n m : N) (l : list A) : take (n + m) l = take n l ++ take m (drop n l).
Proof.
  unfold take, drop. replace (N.to_nat (n + m)) with (N.to_nat n + N.to_nat m)%nat by lia.
  generalize (N.to_nat n) as k. generalize (N.to_nat m) as j. clear n m.
  intros j k. revert l. induction k as [|k IH]; intros l; [reflexivity|].
  destruct l as [|x l]; cbn [Nat.add firstn skipn app].
  - rewrite firstn_nil. reflexivity.
  - rewrite IH. reflexivity.
Qed.

Lemma slice_split {A} (a b c : N) (l : list A) :
  a <= b -> b <= c -> slice a c l = slice a b l ++ slice b c l.
Proof.
  intros H1 H2. unfold slice. replace (c - a) with ((b - a) + (c - b)) by lia.
  rewrite take_add, drop_drop. replace (a + (b - a)) with b by lia. reflexivity.
Qed.

Lemma slice_nil {A} (a : N) (l : list A) : slice a a l = [].
Proof. apply slice_empty. lia. Qed.

Lemma slice_to_end {A} (a b : N) (l : list A) : len l <= b -> slice a b l = drop a l.
Proof. intros H. unfold slice. apply take_all. rewrite len_drop. lia. Qed.

Lemma slice_drop_end {A} (a b : N) (l : list A) :
  a <= b -> drop a l = slice a b l ++ drop b l.
Proof.
  intros H. unfold slice. rewrite <- (take_drop (b - a) (drop a l)) at 1.
  rewrite drop_drop. replace (a + (b - a)) with b by lia. reflexivity.
Qed.

Lemma slice_beyond {A} (a b : N) (l : list A) : len l <= a -> slice a b l = [].
Proof. intros H. unfold slice. rewrite drop_all by exact H. apply take_nil. Qed.

Lemma slice_0_take {A} (b : N) (l : list A) : slice 0 b l = take b l.
Proof. unfold slice. rewrite N.sub_0_r. reflexivity. Qed.

(* a chunk inside the inner text *)
Lemma slice_chunk {A} (p c q : list A) (x y : N) :
  x <= y -> y <= len c -> slice (len p + x) (len p + y) (p ++ c ++ q) = slice x y c.
Proof. apply slice_app_mid. Qed.

Lemma slice_chunk_end {A} (p c q : list A) (x : N) :
  x <= len c -> slice (len p + x) (len p + len c) (p ++ c ++ q) = drop x c.
Proof.
  intros H. rewrite slice_chunk by lia. apply slice_to_end. lia.
Qed.

(* ------------------------------------------------------------------ *)
(* splice                                                              *)
(* ------------------------------------------------------------------ *)
Definition ordered (r : repl) : Prop := r_start r <= r_end r.

Lemma splice_cap (T : text) (rs : list repl) : forall p,
  splice T rs p = splice T rs (N.min p (len T)).
Proof.
  induction rs as [|r rs IH]; intros p; cbn [splice].
  - destruct (N.le_gt_cases p (len T)) as [H|H].
    + rewrite N.min_l by exact H. reflexivity.
    + rewrite N.min_r by lia. rewrite !drop_all by lia. reflexivity.
  - destruct (N.le_gt_cases p (len T)) as [H|H].
    + rewrite (N.min_l p) by exact H. reflexivity.
    + rewrite (N.min_r p) by lia.
      replace (N.min (N.max p (r_end r)) (len T)) with (len T) by lia.
      replace (N.min (N.max (len T) (r_end r)) (len T)) with (len T) by lia.
      f_equal.
      destruct (p <? r_start r); destruct (len T <? r_start r);
        try reflexivity; try (rewrite slice_beyond by lia); try (rewrite slice_beyond by lia); reflexivity.
Qed.

(* the replacement at the head starts at or before the current position *)
Lemma splice_here (T : text) (r : repl) (rs : list repl) (p : N) :
  r_start r <= p ->
  splice T (r :: rs) p = r_content r ++ splice T rs (N.max p (r_end r)).
Proof.
  intros H. cbn [splice].
  replace (p <? r_start r) with false by (symmetry; apply N.ltb_ge; exact H).
  cbn [app]. rewrite <- splice_cap. reflexivity.
Qed.

(* walking over unreplaced inner text *)
Definition head_from (q : N) (rs : list repl) : Prop :=
  match rs with [] => True | r :: _ => q <= r_start r /\ ordered r end.

Lemma splice_walk (T : text) (rs : list repl) (p q : N) :
  p <= q -> q <= len T -> head_from q rs ->
  splice T rs p = slice p q T ++ splice T rs q.
Proof.
  intros Hpq Hq Hh. destruct rs as [|r rs]; cbn [splice].
  - apply slice_drop_end. exact Hpq.
  - destruct Hh as [Hs Ho]. unfold ordered in Ho.
    replace (N.max p (r_end r)) with (r_end r) by lia.
    replace (N.max q (r_end r)) with (r_end r) by lia.
    rewrite !app_assoc. do 2 f_equal.
    destruct (N.ltb_spec p (r_start r)) as [H1|H1]; destruct (N.ltb_spec q (r_start r)) as [H2|H2].
    + apply slice_split; lia.
    + assert (q = r_start r) by lia. subst q. rewrite N.min_l by lia. rewrite app_nil_r. reflexivity.
    + lia.
    + assert (p = q) by lia. subst q. rewrite slice_nil. reflexivity.
Qed.

Lemma splice_past_end (T : text) (rs : list repl) : forall p,
  len T <= p -> splice T rs p = concat (map r_content rs).
Proof.
  induction rs as [|r rs IH]; intros p H; cbn [splice map concat].
  - apply drop_all. exact H.
  - rewrite <- splice_cap, IH by lia.
    destruct (p <? r_start r); [rewrite slice_beyond by lia|]; reflexivity.
Qed.

(* ------------------------------------------------------------------ *)
(* the loop body of repl_loop, cut into named steps                     *)
(* ------------------------------------------------------------------ *)
Definition loop_pre (st : rstate) (v : cvars) (r : repl) (chunk : text) (line : Z)
  : rstate * cvars * list event :=
  if rs_pos st <? r_start r then
    let offset := r_start r - rs_pos st in
    let piece := slice (v_cpos v) (v_cpos v + offset) chunk in
    let ev := EChunk (Some piece)
                (mkMapping (wrap32z line) (out_col st line (v_gc v))
                   (match v_orig v with Some o => Some (map_name st o) | None => None end)) in
    (set_pos st (r_start r),
     mkV (v_cpos v + offset) (wrap32 (v_gc v + offset)) (adv_col st (v_orig v) piece), [ev])
  else (st, v, []).

Definition set_names (st : rstate) (names : list text) : rstate :=
  mkR (rs_pos st) (rs_rest st) (rs_rend st) (rs_loff st) (rs_coff st) (rs_cline st)
      (rs_contents st) names (rs_name_idx st).

Definition loop_name (st1 : rstate) (v1 : cvars) (r : repl) : rstate * option N * list event :=
  let inherited :=
    match v_orig v1 with
    | Some o => match o_name o with Some n => lm_get (rs_name_idx st1) n | None => None end
    | None => None end in
  match r_name r, v_orig v1 with
  | Some nm, Some _ =>
    match find_text (rs_names st1) nm 0 with
    | Some g => (st1, Some g, [])
    | None =>
      let g := len (rs_names st1) in
      (set_names st1 (rs_names st1 ++ [nm]), Some g, [EName g nm])
    end
  | _, _ => (st1, inherited, [])
  end.

Definition new_rend (st : rstate) (r : repl) : N :=
  match rs_rend st with Some e => N.max e (r_end r) | None => r_end r end.

Definition set_rest_rend (st : rstate) (rest : list repl) (rend : N) : rstate :=
  mkR (rs_pos st) rest (Some rend) (rs_loff st) (rs_coff st) (rs_cline st)
      (rs_contents st) (rs_names st) (rs_name_idx st).

Lemma repl_loop_nil st v chunk gl end_pos :
  repl_loop [] st v chunk gl end_pos = (st, v, [], false).
Proof. reflexivity. Qed.

Lemma repl_loop_cons r rest' st v chunk gl end_pos :
  repl_loop (r :: rest') st v chunk gl end_pos =
  if negb (r_start r <? end_pos) then (st, v, [], false) else
  let line := (Z.of_N gl + rs_loff st)%Z in
  let '(st1, v1, ev1) := loop_pre st v r chunk line in
  let '(st2, name_idx, ev_name) := loop_name st1 v1 r in
  let '(st3, _, ev2) := emit_content st2 (split_lines (r_content r)) line (v_gc v1) (v_orig v1) name_idx in
  let rend := new_rend st3 r in
  let st4 := set_rest_rend st3 rest' rend in
  let offset := (Z.of_N (len chunk) - Z.of_N end_pos + Z.of_N rend - Z.of_N (v_cpos v1))%Z in
  if (0 <? offset)%Z then
    if end_pos <=? rend then
      let line' := (Z.of_N gl + rs_loff st4)%Z in
      let st5 := skip_whole st4 line' (ends_with_nl chunk) (v_gc v1) (len chunk - v_cpos v1) in
      (set_pos st5 end_pos, v1, ev1 ++ ev_name ++ ev2, true)
    else
      let line' := (Z.of_N gl + rs_loff st4)%Z in
      let k := Z.to_N offset in
      let piece := slice (v_cpos v1) (v_cpos v1 + k) chunk in
      let o' := adv_col st4 (v_orig v1) piece in
      let st5 := drop_cols (set_pos st4 (rs_pos st4 + k)) line' k in
      let v2 := mkV (v_cpos v1 + k) (wrap32 (v_gc v1 + k)) o' in
      let '(st6, v3, ev3, early) := repl_loop rest' st5 v2 chunk gl end_pos in
      (st6, v3, ev1 ++ ev_name ++ ev2 ++ ev3, early)
  else
    let '(st6, v3, ev3, early) := repl_loop rest' st4 v1 chunk gl end_pos in
    (st6, v3, ev1 ++ ev_name ++ ev2 ++ ev3, early).
Proof. reflexivity. Qed.

(* ------------------------------------------------------------------ *)
(* the position part of the state is untouched by the offset helpers    *)
(* ------------------------------------------------------------------ *)
Definition core (st : rstate) : N * list repl * option N := (rs_pos st, rs_rest st, rs_rend st).
Definition rend_n (st : rstate) : N := match rs_rend st with Some e => e | None => 0 end.

Lemma core_set_offs st a b c : core (set_offs st a b c) = core st.
Proof. reflexivity. Qed.

Lemma core_drop_cols st l k : core (drop_cols st l k) = core st.
Proof. unfold drop_cols. destruct (rs_cline st =? l)%Z; reflexivity. Qed.

Lemma core_skip_whole st l nl gc k : core (skip_whole st l nl gc k) = core st.
Proof.
  unfold skip_whole. destruct nl; [|apply core_drop_cols].
  destruct (rs_cline st =? l)%Z; reflexivity.
Qed.

Lemma core_inv a b : core a = core b ->
  rs_pos a = rs_pos b /\ rs_rest a = rs_rest b /\ rs_rend a = rs_rend b.
Proof. unfold core. intros H. inversion H. auto. Qed.

Lemma emit_content_text ls : forall st line gc mo name st' line' evs,
  emit_content st ls line gc mo name = (st', line', evs) ->
  core st' = core st /\ Reass evs (concat ls).
Proof.
  induction ls as [|cl ls IH]; intros st line gc mo name st' line' evs H.
  - cbn [emit_content] in H. inversion H. subst. split; [reflexivity|apply Reass_nil].
  - cbn [emit_content] in H.
    destruct (is_nil ls && negb (ends_with_nl cl)).
    + match type of H with context [emit_content ?a ls ?b ?c ?d ?e] =>
        destruct (emit_content a ls b c d e) as [[st2 line2] evs2] eqn:E end.
      apply IH in E. destruct E as [E1 E2]. inversion H. subst.
      split; [|cbn [concat]; apply Reass_chunk; exact E2].
      rewrite E1. destruct (rs_cline st =? line)%Z; reflexivity.
    + match type of H with context [emit_content ?a ls ?b ?c ?d ?e] =>
        destruct (emit_content a ls b c d e) as [[st2 line2] evs2] eqn:E end.
      apply IH in E. destruct E as [E1 E2]. inversion H. subst.
      split; [|cbn [concat]; apply Reass_chunk; exact E2].
      rewrite E1. reflexivity.
Qed.

Lemma emit_remainder_content ls : forall st line gc,
  emit_remainder st ls line gc = emit_content st ls line gc None None.
Proof.
  induction ls as [|cl ls IH]; intros st line gc; [reflexivity|].
  cbn [emit_remainder emit_content]. destruct (is_nil ls && negb (ends_with_nl cl)); rewrite IH; reflexivity.
Qed.

Lemma loop_name_text st1 v1 r st2 ni evn :
  loop_name st1 v1 r = (st2, ni, evn) ->
  core st2 = core st1 /\ chunk_texts evn = [] /\
  rs_loff st2 = rs_loff st1 /\ rs_coff st2 = rs_coff st1 /\ rs_cline st2 = rs_cline st1.
Proof.
  unfold loop_name. intros H.
  destruct (r_name r) as [nm|]; [destruct (v_orig v1) as [o|]; [destruct (find_text (rs_names st1) nm 0)|]|];
    inversion H; subst; repeat split; reflexivity.
Qed.

Lemma Reass_silent evs : chunk_texts evs = [] -> Reass evs [].
Proof. intros H. exists []. rewrite H. split; reflexivity. Qed.

Lemma new_rend_max st r : new_rend st r = N.max (rend_n st) (r_end r).
Proof. unfold new_rend, rend_n. destruct (rs_rend st); lia. Qed.

(* emission of the chunk part before the replacement *)
Lemma loop_pre_text (pre chunk post : text) st v r line st1 v1 ev1 :
  rs_pos st = len pre + v_cpos v -> v_cpos v <= len chunk ->
  r_start r < len pre + len chunk ->
  loop_pre st v r chunk line = (st1, v1, ev1) ->
  rs_rest st1 = rs_rest st /\ rs_rend st1 = rs_rend st /\
  rs_pos st1 = N.max (rs_pos st) (r_start r) /\
  rs_pos st1 = len pre + v_cpos v1 /\ v_cpos v1 <= len chunk /\
  Reass ev1 (slice (rs_pos st) (rs_pos st1) (pre ++ chunk ++ post)).
Proof.
  intros Hp Hc Hs H. unfold loop_pre in H.
  destruct (N.ltb_spec (rs_pos st) (r_start r)) as [L|L]; inversion H; subst; clear H.
  - cbn [set_pos rs_rest rs_rend rs_pos v_cpos].
    split; [reflexivity|]. split; [reflexivity|]. split; [lia|]. split; [lia|]. split; [lia|].
    rewrite Hp. replace (r_start r) with (len pre + (v_cpos v + (r_start r - (len pre + v_cpos v)))) at 2 by lia.
    rewrite slice_chunk by lia. apply Reass_one.
  - split; [reflexivity|]. split; [reflexivity|]. split; [lia|]. split; [exact Hp|]. split; [exact Hc|].
    replace (N.max (rs_pos st1) (r_start r)) with (rs_pos st1) by lia.
    rewrite slice_nil. apply Reass_nil.
Qed.

(* ------------------------------------------------------------------ *)
(* the while loop                                                      *)
(* ------------------------------------------------------------------ *)
Lemma Reass_app3 a b c ta tc : Reass a ta -> chunk_texts b = [] -> Reass c tc ->
  Reass (a ++ b ++ c) (ta ++ tc).
Proof.
  intros Ha Hb Hc. apply Reass_app; [exact Ha|].
  change tc with ([] ++ tc). apply Reass_app; [apply Reass_silent; exact Hb|exact Hc].
Qed.

Lemma repl_loop_text (pre chunk post : text) (gl : N) : forall rest st v,
  rs_rest st = rest -> Forall ordered rest ->
  rs_pos st = len pre + v_cpos v -> v_cpos v <= len chunk -> rend_n st <= rs_pos st ->
  forall st' v' evs early,
  repl_loop rest st v chunk gl (len pre + len chunk) = (st', v', evs, early) ->
  exists txt, Reass evs txt /\ Forall ordered (rs_rest st') /\
    if early then
      rs_pos st' = len pre + len chunk /\ len pre + len chunk <= rend_n st' /\
      txt ++ splice (pre ++ chunk ++ post) (rs_rest st') (rend_n st')
      = splice (pre ++ chunk ++ post) rest (rs_pos st)
    else
      rs_pos st' = len pre + v_cpos v' /\ v_cpos v' <= len chunk /\ rend_n st' <= rs_pos st' /\
      head_from (len pre + len chunk) (rs_rest st') /\
      txt ++ splice (pre ++ chunk ++ post) (rs_rest st') (rs_pos st')
      = splice (pre ++ chunk ++ post) rest (rs_pos st).
Proof.
  set (T := pre ++ chunk ++ post).
  assert (HT : len T = len pre + len chunk + len post) by (unfold T; rewrite !len_app; lia).
  induction rest as [|r rest' IH]; intros st v Hrest Hord Hpos Hcp Hre st' v' evs early H.
  - rewrite repl_loop_nil in H. inversion H. subst. exists []. split; [apply Reass_nil|].
    rewrite Hrest. split; [constructor|]. repeat split; try assumption.
  - rewrite repl_loop_cons in H. inversion Hord as [|? ? Hr Hord']. subst.
    destruct (N.ltb_spec (r_start r) (len pre + len chunk)) as [Hs|Hs]; cbn [negb] in H.
    2:{ inversion H. subst. exists []. split; [apply Reass_nil|]. rewrite Hrest.
        split; [exact Hord|]. repeat split; try assumption. }
    cbn zeta in H.
    destruct (loop_pre st v r chunk (Z.of_N gl + rs_loff st)%Z) as [[st1 v1] ev1] eqn:E1.
    destruct (loop_pre_text pre chunk post _ _ _ _ _ _ _ Hpos Hcp Hs E1) as [A1 [A2 [A3 [A4 [A5 A6]]]]].
    fold T in A6.
    destruct (loop_name st1 v1 r) as [[st2 ni] evn] eqn:E2.
    destruct (loop_name_text _ _ _ _ _ _ E2) as [B1 [B2 _]]. apply core_inv in B1. destruct B1 as [B1a [B1b B1c]].
    destruct (emit_content st2 (split_lines (r_content r)) (Z.of_N gl + rs_loff st)%Z (v_gc v1) (v_orig v1) ni)
      as [[st3 l3] ev2] eqn:E3.
    destruct (emit_content_text _ _ _ _ _ _ _ _ _ E3) as [C1 C2]. apply core_inv in C1. destruct C1 as [C1a [C1b C1c]].
    rewrite concat_split_lines in C2.
    assert (Hrn : rend_n st3 = rend_n st) by (unfold rend_n; rewrite C1c, B1c, A2; reflexivity).
    assert (Hp3 : rs_pos st3 = rs_pos st1) by congruence.
    pose proof (new_rend_max st3 r) as Hnr. rewrite Hrn in Hnr.
    set (rend := new_rend st3 r) in *.
    (* the text equation up to the end of the replacement content *)
    assert (Hsp : splice T (r :: rest') (rs_pos st)
                  = slice (rs_pos st) (rs_pos st1) T ++ r_content r ++ splice T rest' (N.max (rs_pos st1) (r_end r))).
    { destruct (N.ltb_spec (rs_pos st) (r_start r)) as [L|L].
      - rewrite (splice_walk T (r :: rest') (rs_pos st) (r_start r)); [|lia|lia|split; [lia|exact Hr]].
        replace (rs_pos st1) with (r_start r) by lia.
        rewrite splice_here by lia. reflexivity.
      - replace (rs_pos st1) with (rs_pos st) by lia. rewrite slice_nil. cbn [app].
        apply splice_here. exact L. }
    unfold ordered in Hr.
    destruct (0 <? Z.of_N (len chunk) - Z.of_N (len pre + len chunk) + Z.of_N rend - Z.of_N (v_cpos v1))%Z eqn:EO.
    + apply Z.ltb_lt in EO.
      destruct (N.leb_spec (len pre + len chunk) rend) as [EE|EE].
      * (* the rest of the chunk is replaced *)
        match type of H with context [skip_whole ?a ?b ?c ?d ?e] =>
          pose proof (core_skip_whole a b c d e) as K; set (st5 := skip_whole a b c d e) in * end.
        apply core_inv in K. destruct K as [K1 [K2 K3]].
        cbn [set_rest_rend rs_pos rs_rest rs_rend] in K1, K2, K3.
        inversion H. subst st' v' evs early. clear H.
        exists (slice (rs_pos st) (rs_pos st1) T ++ r_content r).
        split; [apply Reass_app3; assumption|].
        unfold rend_n. cbn [set_pos rs_rest rs_pos rs_rend]. rewrite K2, K3.
        split; [exact Hord'|]. split; [reflexivity|]. split; [exact EE|].
        rewrite Hsp, <- app_assoc. do 3 f_equal. lia.
      * (* part of the chunk is replaced *)
        cbn zeta in H.
        match type of H with context [repl_loop rest' ?a ?b chunk gl _] =>
          destruct (repl_loop rest' a b chunk gl (len pre + len chunk)) as [[[st6 v3] ev3] early3] eqn:E6;
          set (st5 := a) in *; set (v2 := b) in * end.
        inversion H. subst st' v' evs early. clear H.
        assert (K : core st5 = core (set_pos (set_rest_rend st3 rest' rend) (rs_pos st3 + Z.to_N (Z.of_N (len chunk) - Z.of_N (len pre + len chunk) + Z.of_N rend - Z.of_N (v_cpos v1))))).
        { unfold st5. rewrite core_drop_cols. reflexivity. }
        apply core_inv in K. destruct K as [K1 [K2 K3]].
        cbn [set_pos set_rest_rend rs_pos rs_rest rs_rend] in K1, K2, K3.
        assert (Hp5 : rs_pos st5 = rend) by lia.
        assert (Hrn5 : rend_n st5 = rend) by (unfold rend_n; rewrite K3; reflexivity).
        destruct (IH st5 v2 K2 Hord') with (4 := E6) as [txt3 [D1 [D2 D3]]].
        { unfold v2. cbn [v_cpos]. lia. }
        { unfold v2. cbn [v_cpos]. lia. }
        { lia. }
        exists ((slice (rs_pos st) (rs_pos st1) T ++ r_content r) ++ txt3).
        split.
        { rewrite !app_assoc. apply Reass_app; [|exact D1]. rewrite <- app_assoc. apply Reass_app3; assumption. }
        split; [exact D2|].
        assert (Hmx : N.max (rs_pos st1) (r_end r) = rs_pos st5) by lia.
        destruct early3.
        -- destruct D3 as [D3 [D4 D5]]. split; [exact D3|]. split; [exact D4|].
           rewrite Hsp, Hmx, <- D5, <- !app_assoc. reflexivity.
        -- destruct D3 as [D3 [D4 [D5 [D6 D7]]]]. repeat (split; [assumption|]).
           rewrite Hsp, Hmx, <- D7, <- !app_assoc. reflexivity.
    + apply Z.ltb_ge in EO.
      match type of H with context [repl_loop rest' ?a ?b chunk gl _] =>
        destruct (repl_loop rest' a b chunk gl (len pre + len chunk)) as [[[st6 v3] ev3] early3] eqn:E6;
        set (st4 := a) in * end.
      inversion H. subst st' v' evs early. clear H.
      assert (K2 : rs_rest st4 = rest') by reflexivity.
      assert (Hp4 : rs_pos st4 = rs_pos st1) by (unfold st4; cbn [set_rest_rend rs_pos]; exact Hp3).
      assert (Hrn4 : rend_n st4 = rend) by reflexivity.
      destruct (IH st4 v1 K2 Hord') with (4 := E6) as [txt3 [D1 [D2 D3]]].
      { lia. }
      { exact A5. }
      { lia. }
      exists ((slice (rs_pos st) (rs_pos st1) T ++ r_content r) ++ txt3).
      split.
      { rewrite !app_assoc. apply Reass_app; [|exact D1]. rewrite <- app_assoc. apply Reass_app3; assumption. }
      split; [exact D2|].
      assert (Hmx : N.max (rs_pos st1) (r_end r) = rs_pos st4) by lia.
      destruct early3.
      * destruct D3 as [D3 [D4 D5]]. split; [exact D3|]. split; [exact D4|].
        rewrite Hsp, Hmx, <- D5, <- !app_assoc. reflexivity.
      * destruct D3 as [D3 [D4 [D5 [D6 D7]]]]. repeat (split; [assumption|]).
        rewrite Hsp, Hmx, <- D7, <- !app_assoc. reflexivity.
Qed.

(* ------------------------------------------------------------------ *)
(* one inner chunk                                                     *)
(* ------------------------------------------------------------------ *)
Definition chunk_entry (st : rstate) (chunk : text) (m : mapping) : rstate * cvars * bool :=
  let end_pos := rs_pos st + len chunk in
  let gl := g_line m in
  let skip :=
    match rs_rend st with
    | Some re => if rs_pos st <? re then Some re else None
    | None => None
    end in
  match skip with
  | Some re =>
    let line := (Z.of_N gl + rs_loff st)%Z in
    if end_pos <=? re then
      (set_pos (skip_whole st line (ends_with_nl chunk) (g_col m) (len chunk)) end_pos,
       mkV 0 (g_col m) (m_orig m), true)
    else
      let cpos := re - rs_pos st in
      let o' := adv_col st (m_orig m) (take cpos chunk) in
      (drop_cols (set_pos st (rs_pos st + cpos)) line cpos,
       mkV cpos (wrap32 (g_col m + cpos)) o', false)
  | None => (st, mkV 0 (g_col m) (m_orig m), false)
  end.

Lemma replace_chunk_eq st chunk m :
  replace_chunk st chunk m =
  let end_pos := rs_pos st + len chunk in
  let gl := g_line m in
  let '(st1, v1, early) := chunk_entry st chunk m in
  if early then (st1, []) else
  let '(st2, v2, ev2, early2) := repl_loop (rs_rest st1) st1 v1 chunk gl end_pos in
  if early2 then (st2, ev2) else
  let ev3 :=
    if v_cpos v2 <? len chunk then
      let line := (Z.of_N gl + rs_loff st2)%Z in
      [EChunk (Some (drop (v_cpos v2) chunk))
         (mkMapping (wrap32z line) (out_col st2 line (v_gc v2))
            (match v_orig v2 with Some o => Some (map_name st2 o) | None => None end))]
    else [] in
  (set_pos st2 end_pos, ev2 ++ ev3).
Proof. reflexivity. Qed.

Definition eff (st : rstate) : N := N.max (rs_pos st) (rend_n st).

Lemma chunk_entry_text st chunk m st1 v1 early :
  chunk_entry st chunk m = (st1, v1, early) ->
  rs_rest st1 = rs_rest st /\ rs_rend st1 = rs_rend st /\
  if early then rs_pos st1 = rs_pos st + len chunk /\ rs_pos st + len chunk <= rend_n st
  else rs_pos st1 = rs_pos st + v_cpos v1 /\ v_cpos v1 <= len chunk /\
       rend_n st1 <= rs_pos st1 /\ rs_pos st1 = eff st.
Proof.
  unfold chunk_entry, eff, rend_n. intros H.
  destruct (rs_rend st) as [re|] eqn:ER.
  - destruct (N.ltb_spec (rs_pos st) re) as [L|L].
    + destruct (N.leb_spec (rs_pos st + len chunk) re) as [L2|L2]; inversion H; subst; clear H.
      * match goal with |- context [skip_whole ?a ?b ?c ?d ?e] =>
          pose proof (core_skip_whole a b c d e) as K; set (st5 := skip_whole a b c d e) in * end.
        apply core_inv in K. destruct K as [K1 [K2 K3]]. cbn [set_pos rs_rest rs_rend rs_pos].
        rewrite K2, K3. repeat split; try reflexivity; try assumption.
      * match goal with |- context [drop_cols ?a ?b ?c] =>
          pose proof (core_drop_cols a b c) as K; set (st5 := drop_cols a b c) in * end.
        apply core_inv in K. destruct K as [K1 [K2 K3]]. cbn [set_pos rs_rest rs_rend rs_pos] in K1, K2, K3.
        cbn [v_cpos]. rewrite K1, K2, K3, ER. repeat split; try reflexivity; lia.
    + inversion H; subst; clear H. cbn [v_cpos]. rewrite ER. repeat split; try reflexivity; lia.
  - inversion H; subst; clear H. cbn [v_cpos]. rewrite ER. repeat split; try reflexivity; lia.
Qed.

Lemma replace_chunk_text (pre chunk post : text) st m st' evs :
  rs_pos st = len pre -> Forall ordered (rs_rest st) ->
  replace_chunk st chunk m = (st', evs) ->
  exists txt, Reass evs txt /\ rs_pos st' = len pre + len chunk /\ Forall ordered (rs_rest st') /\
    txt ++ splice (pre ++ chunk ++ post) (rs_rest st') (eff st')
    = splice (pre ++ chunk ++ post) (rs_rest st) (eff st).
Proof.
  set (T := pre ++ chunk ++ post).
  assert (HT : len T = len pre + len chunk + len post) by (unfold T; rewrite !len_app; lia).
  intros Hp Hord H. rewrite replace_chunk_eq in H. cbn zeta in H.
  destruct (chunk_entry st chunk m) as [[st1 v1] early] eqn:E1.
  destruct (chunk_entry_text _ _ _ _ _ _ E1) as [A1 [A2 A3]].
  destruct early.
  - inversion H. subst st' evs. clear H. destruct A3 as [A3 A4].
    exists []. split; [apply Reass_nil|]. split; [lia|]. rewrite A1. split; [exact Hord|].
    cbn [app]. f_equal. unfold eff, rend_n in *. rewrite A2. lia.
  - destruct A3 as [A3 [A4 [A5 A6]]].
    rewrite Hp in H.
    destruct (repl_loop (rs_rest st1) st1 v1 chunk (g_line m) (len pre + len chunk))
      as [[[st2 v2] ev2] early2] eqn:E2.
    assert (Hord1 : Forall ordered (rs_rest st1)) by (rewrite A1; exact Hord).
    destruct (repl_loop_text pre chunk post (g_line m) (rs_rest st1) st1 v1 eq_refl Hord1)
      with (4 := E2) as [txt [B1 [B2 B3]]]; [lia|exact A4|exact A5|].
    fold T in B3. rewrite A1, A6 in B3.
    destruct early2.
    + inversion H. subst st' evs. clear H. destruct B3 as [B3 [B4 B5]].
      exists txt. split; [exact B1|]. split; [exact B3|]. split; [exact B2|].
      rewrite <- B5. do 2 f_equal. unfold eff. lia.
    + inversion H. subst st' evs. clear H. destruct B3 as [B3 [B4 [B5 [B6 B7]]]].
      exists (txt ++ drop (v_cpos v2) chunk).
      split.
      { apply Reass_app; [exact B1|].
        destruct (N.ltb_spec (v_cpos v2) (len chunk)) as [L|L].
        - apply Reass_one.
        - rewrite drop_all by exact L. apply Reass_nil. }
      cbn [set_pos rs_pos rs_rest]. split; [reflexivity|]. split; [exact B2|].
      rewrite <- B7.
      rewrite (splice_walk T (rs_rest st2) (rs_pos st2) (len pre + len chunk)); [|lia|lia|exact B6].
      rewrite B3. pose proof (slice_chunk_end pre chunk post (v_cpos v2) B4) as S. fold T in S. rewrite S.
      rewrite <- app_assoc. do 3 f_equal.
      unfold eff, rend_n in *. cbn [set_pos rs_pos rs_rend]. lia.
Qed.

(* ------------------------------------------------------------------ *)
(* the fold over the inner events                                      *)
(* ------------------------------------------------------------------ *)
Lemma replace_event_silent st e st' evs :
  match e with EChunk (Some _) _ => False | _ => True end ->
  replace_event st e = (st', evs) ->
  core st' = core st /\ chunk_texts evs = [] /\
  rs_loff st' = rs_loff st /\ rs_coff st' = rs_coff st /\ rs_cline st' = rs_cline st.
Proof.
  intros He H. destruct e as [[t|] m|i n c|i n]; [contradiction| | |]; cbn [replace_event] in H.
  - inversion H. subst. repeat split; reflexivity.
  - inversion H. subst. repeat split; reflexivity.
  - destruct (find_text (rs_names st) n 0); inversion H; subst; repeat split; reflexivity.
Qed.

Lemma replace_events_text : forall ievs st pre rest_t st' evs,
  Reass ievs rest_t -> rs_pos st = len pre -> Forall ordered (rs_rest st) ->
  replace_events st ievs = (st', evs) ->
  exists txt, Reass evs txt /\ rs_pos st' = len pre + len rest_t /\ Forall ordered (rs_rest st') /\
    txt ++ splice (pre ++ rest_t) (rs_rest st') (eff st')
    = splice (pre ++ rest_t) (rs_rest st) (eff st).
Proof.
  induction ievs as [|e ievs IH]; intros st pre rest_t st' evs HR Hp Hord H.
  - cbn [replace_events] in H. inversion H. subst.
    destruct HR as [ts [H1 H2]]. cbn in H1. inversion H1. subst ts. cbn in H2. subst rest_t.
    exists []. split; [apply Reass_nil|]. rewrite len_nil. split; [lia|]. split; [exact Hord|reflexivity].
  - cbn [replace_events] in H.
    destruct (replace_event st e) as [st1 o1] eqn:E1.
    destruct (replace_events st1 ievs) as [st2 o2] eqn:E2.
    inversion H. subst st' evs. clear H.
    destruct e as [t m|i n c|i n].
    + apply Reass_chunk_inv in HR. destruct HR as [t' [x' [-> [-> HR]]]].
      cbn [replace_event] in E1.
      destruct (replace_chunk_text pre t' x' st m st1 o1 Hp Hord E1) as [txt1 [A1 [A2 [A3 A4]]]].
      assert (Hp1 : rs_pos st1 = len (pre ++ t')) by (rewrite len_app; exact A2).
      destruct (IH st1 (pre ++ t') x' st2 o2 HR Hp1 A3 E2) as [txt2 [B1 [B2 [B3 B4]]]].
      rewrite <- app_assoc in B4.
      exists (txt1 ++ txt2). split; [apply Reass_app; assumption|].
      split; [rewrite B2, !len_app; lia|]. split; [exact B3|].
      rewrite <- A4, <- B4, <- app_assoc. reflexivity.
    + destruct (replace_event_silent st (ESource i n c) st1 o1 I E1) as [A1 [A2 _]].
      apply core_inv in A1. destruct A1 as [A1a [A1b A1c]].
      assert (Hp1 : rs_pos st1 = len pre) by congruence.
      assert (Hord1 : Forall ordered (rs_rest st1)) by (rewrite A1b; exact Hord).
      destruct (IH st1 pre rest_t st2 o2 HR Hp1 Hord1 E2) as [txt2 [B1 [B2 [B3 B4]]]].
      exists txt2. split.
      { change txt2 with ([] ++ txt2). apply Reass_app; [apply Reass_silent; exact A2|exact B1]. }
      split; [exact B2|]. split; [exact B3|].
      rewrite B4. unfold eff, rend_n. rewrite A1a, A1b, A1c. reflexivity.
    + destruct (replace_event_silent st (EName i n) st1 o1 I E1) as [A1 [A2 _]].
      apply core_inv in A1. destruct A1 as [A1a [A1b A1c]].
      assert (Hp1 : rs_pos st1 = len pre) by congruence.
      assert (Hord1 : Forall ordered (rs_rest st1)) by (rewrite A1b; exact Hord).
      destruct (IH st1 pre rest_t st2 o2 HR Hp1 Hord1 E2) as [txt2 [B1 [B2 [B3 B4]]]].
      exists txt2. split.
      { change txt2 with ([] ++ txt2). apply Reass_app; [apply Reass_silent; exact A2|exact B1]. }
      split; [exact B2|]. split; [exact B3|].
      rewrite B4. unfold eff, rend_n. rewrite A1a, A1b, A1c. reflexivity.
Qed.

(* ------------------------------------------------------------------ *)
(* P1                                                                  *)
(* ------------------------------------------------------------------ *)
Theorem replace_stream_Reass (sorted : list repl) (ievs : list event) (T : text) (gi : N * N) :
  Forall ordered sorted -> Reass ievs T ->
  Reass (fst (replace_stream sorted ievs gi)) (splice T sorted 0).
Proof.
  intros Hord HR. unfold replace_stream.
  destruct (replace_events (replace_init sorted) ievs) as [st evs] eqn:E.
  destruct (replace_events_text ievs (replace_init sorted) [] T st evs HR eq_refl Hord E)
    as [txt [A1 [A2 [A3 A4]]]].
  cbn [app] in A4. change (eff (replace_init sorted)) with 0 in A4.
  change (rs_rest (replace_init sorted)) with sorted in A4.
  rewrite emit_remainder_content.
  destruct (emit_content st (split_lines (concat (map r_content (rs_rest st))))
              (Z.of_N (fst gi) + rs_loff st)%Z (snd gi) None None) as [[st' line'] evs'] eqn:E2.
  destruct (emit_content_text _ _ _ _ _ _ _ _ _ E2) as [_ B]. rewrite concat_split_lines in B.
  cbn [fst]. rewrite <- A4. apply Reass_app; [exact A1|].
  rewrite splice_past_end; [exact B|]. unfold eff. rewrite A2, len_nil. lia.
Qed.

Theorem replace_stream_reassembles (sorted : list repl) (ievs : list event) (T : text) (gi : N * N) :
  Forall (fun r => r_start r <= r_end r) sorted ->
  reassembles ievs T = true ->
  reassembles (fst (replace_stream sorted ievs gi)) (splice T sorted 0) = true.
Proof.
  intros H1 H2. apply reassembles_iff. apply replace_stream_Reass; [exact H1|].
  apply reassembles_iff. exact H2.
Qed.

(* the text of source(): sorted replacements, or the inner text when there are none *)
Lemma sort_repls_ordered (rs : list repl) :
  Forall (fun r => r_start r <= r_end r) rs -> Forall ordered (sort_repls rs).
Proof.
  intros H. eapply Permutation.Permutation_Forall; [|exact H].
  apply Permutation.Permutation_sym. apply sort_repls_perm.
Qed.

Lemma replace_source_text_splice (T : text) (rs : list repl) :
  replace_source_text T rs = splice T (sort_repls rs) 0.
Proof.
  unfold replace_source_text. destruct (sort_repls rs); reflexivity.
Qed.

Theorem replace_source_stream_reassembles (rs : list repl) (ievs : list event) (T : text) (gi : N * N) :
  Forall (fun r => r_start r <= r_end r) rs ->
  reassembles ievs T = true ->
  reassembles (fst (replace_stream (sort_repls rs) ievs gi)) (replace_source_text T rs) = true.
Proof.
  intros H1 H2. rewrite replace_source_text_splice.
  apply replace_stream_reassembles; [apply sort_repls_ordered; exact H1|exact H2].
Qed.

(* no replacements: the inner text itself *)
Corollary replace_stream_nil_reassembles (ievs : list event) (T : text) (gi : N * N) :
  reassembles ievs T = true ->
  reassembles (fst (replace_stream [] ievs gi)) T = true.
Proof.
  intros H. apply (replace_stream_reassembles [] ievs T gi (Forall_nil _) H).
Qed.

(* no replacements: every non-empty inner chunk is re-emitted with its text unchanged
   (empty chunks and text-less chunks are dropped) *)
Definition kept_chunk (ot : option text) : bool :=
  match ot with Some (_ :: _) => true | _ => false end.

Lemma replace_chunk_nil st chunk m :
  rs_rest st = [] -> rs_rend st = None ->
  rs_rest (fst (replace_chunk st chunk m)) = [] /\ rs_rend (fst (replace_chunk st chunk m)) = None /\ chunk_texts (snd (replace_chunk st chunk m)) = filter kept_chunk [Some chunk].
Proof.
  intros H1 H2. rewrite replace_chunk_eq. unfold chunk_entry. rewrite H2. cbn zeta. cbn iota.
  rewrite H1, repl_loop_nil. cbn iota. cbn [v_cpos fst snd set_pos rs_rest rs_rend app].
  split; [exact H1|]. split; [exact H2|].
  destruct chunk as [|c chunk]; cbn; reflexivity.
Qed.

Lemma replace_events_nil : forall ievs st,
  rs_rest st = [] -> rs_rend st = None ->
  rs_rest (fst (replace_events st ievs)) = [] /\ chunk_texts (snd (replace_events st ievs)) = filter kept_chunk (chunk_texts ievs).
Proof.
  induction ievs as [|e ievs IH]; intros st H1 H2.
  - cbn [replace_events fst snd chunk_texts filter]. auto.
  - cbn [replace_events].
    assert (A : rs_rest (fst (replace_event st e)) = [] /\ rs_rend (fst (replace_event st e)) = None /\ chunk_texts (snd (replace_event st e)) = filter kept_chunk (chunk_texts [e])).
    { destruct e as [[t|] m|i n c|i n]; cbn [replace_event chunk_texts].
      - apply replace_chunk_nil; assumption.
      - cbn. auto.
      - cbn. auto.
      - destruct (find_text (rs_names st) n 0); cbn; auto. }
    destruct (replace_event st e) as [st1 o1]. cbn [fst snd] in A. destruct A as [A1 [A2 A3]].
    specialize (IH st1 A1 A2). destruct (replace_events st1 ievs) as [st2 o2]. cbn [fst snd] in *.
    destruct IH as [B1 B2]. split; [exact B1|].
    rewrite chunk_texts_app, A3, B2. change (e :: ievs) with ([e] ++ ievs).
    rewrite chunk_texts_app, filter_app. reflexivity.
Qed.

Theorem replace_stream_nil_texts (ievs : list event) (gi : N * N) :
  chunk_texts (fst (replace_stream [] ievs gi)) = filter kept_chunk (chunk_texts ievs).
Proof.
  unfold replace_stream.
  pose proof (replace_events_nil ievs (replace_init []) eq_refl eq_refl) as [A1 A2].
  destruct (replace_events (replace_init []) ievs) as [st evs]. cbn [fst snd] in *.
  rewrite A1. cbn [map concat]. change (split_lines []) with (@nil text). cbn [emit_remainder fst].
  rewrite app_nil_r. exact A2.
Qed.

Print Assumptions replace_stream_reassembles.
Print Assumptions replace_source_stream_reassembles.
Print Assumptions replace_stream_nil_reassembles.
Print Assumptions replace_stream_nil_texts.
