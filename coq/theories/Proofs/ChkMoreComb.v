(* C02 / C03, checker level, for trees with combined-map leaves (class `rshape2` of
   CombLeafTree.v: leaves may be SourceMapSources WITH an inner source map inside `c09_wf`).
     chk_C02_tree2        all eight clauses of `chk_C02` hold on the model's own observations,
                          after any warming history (from any store);
     map_of_C03_2         map() attributes every position as the text-carrying stream does and,
                          outside K1, is None exactly when no chunk is mapped;
     chk_C03_tree2        verdict 0 outside the class K1 in the encoder's domain;
     chk_C03_tree2_k1(_exact), chk_C03_tree2_any   inside K1 the only other verdict is 51
                          (a root SourceMapSource WITH an inner map is outside K1). *)
From RS Require Import Base.Prelude Base.Text Rope.RopeModel Codec.Vlq Codec.CodecSpec
  Checkers.ChkCodec Stream.Types Stream.Leaves Stream.Concat Stream.Replace Stream.Combined Stream.Tree
  Api.ApiTree Sem.Attr Checkers.ChkTree Checkers.ChkCombined
  Proofs.StreamText Proofs.StreamLeaves Proofs.StreamMap Proofs.StreamConcat Proofs.StreamTree
  Proofs.RStreamText Proofs.RStreamPos Proofs.RStreamTree
  Proofs.AttrCodec Proofs.AttrSms Proofs.AttrLeaves Proofs.LawConcatAttr Proofs.LawWrappers
  Proofs.FinalDense Proofs.FinalReplace Proofs.FinalConcat Proofs.FinalTree
  Proofs.ReplAttrStream Proofs.ReplAttrTree Proofs.LinesTree
  Proofs.CombAllSpec Proofs.CombLeafBase Proofs.CombLeafTree Proofs.CombLeafTreeCols Proofs.CombLeafTreeLines
  Proofs.CombAllTop Proofs.CombLeafExample
  Proofs.WfAllChk Proofs.WfMoreComb Proofs.ChkModelC02 Proofs.ChkModelC03.
Require Import Lia List.
Import ListNotations.

Local Open Scope N_scope.

(* ------------------------------------------------------------------ *)
(* C02                                                                 *)
(* ------------------------------------------------------------------ *)
Lemma rshape2_positions st s cols :
  rshape2 s = true -> treeA s = true -> rsmall s = true ->
  well_positioned (chunks_of (fst (fst (stream st s (mkOpts cols false))))) 1 0 = true.
Proof.
  intros H1 H2 H3. pose proof (rshape2_stream_good st s cols H1 H2 H3) as G.
  destruct (stream st s (mkOpts cols false)) as [[evs gi] st']. cbn [fst]. tauto.
Qed.

Lemma rshape2_end_info st s op :
  rshape2 s = true -> treeA s = true -> rsmall s = true ->
  snd (fst (stream st s op)) = advance 1 0 (source s).
Proof.
  intros H1 H2 H3. destruct op as [cols [|]].
  - destruct cols.
    + exact (proj1 (proj2 (proj2 (final_stream_facts2 st s H1 H2 H3)))).
    + exact (proj1 (proj2 (proj2 (final_stream_facts_lines2 st s H1 H2 H3)))).
  - pose proof (rshape2_stream_good st s cols H1 H2 H3) as G.
    destruct (stream st s (mkOpts cols false)) as [[evs gi] st']. cbn [fst snd]. tauto.
Qed.

Lemma rshape2_final_positions st s cols :
  rshape2 s = true -> treeA s = true -> rsmall s = true ->
  positions_of_text (source s) (chunks_of (fst (fst (stream st s (mkOpts cols true))))) = true.
Proof.
  intros H1 H2 H3. destruct cols.
  - exact (proj1 (proj2 (final_stream_facts2 st s H1 H2 H3))).
  - exact (proj1 (proj2 (final_stream_facts_lines2 st s H1 H2 H3))).
Qed.

Theorem chk_C02_tree2_any_store (s : src) (st : store) (o : tree_obs) :
  rshape2 s = true -> treeA s = true -> rsmall s = true ->
  to_source o = source s ->
  to_streams o = map (fun op => fst (stream st s op)) all_opts ->
  chk_C02 s o = 0.
Proof.
  intros H1 H2 H3 E1 E2. apply (chk_C02_unfold s st o H2 E1 E2).
  - intros cols. apply rshape2_positions; assumption.
  - intros op. apply rshape2_end_info; assumption.
  - intros cols. apply rshape2_final_positions; assumption.
Qed.

Theorem chk_C02_tree2 (s : src) (ws : list (N * wop)) :
  rshape2 s = true -> treeA s = true -> rsmall s = true ->
  chk_C02 s (api_tree s ws) = 0.
Proof.
  intros H1 H2 H3.
  exact (chk_C02_tree2_any_store s (run_warm [] s ws) (api_tree s ws) H1 H2 H3 eq_refl eq_refl).
Qed.

(* ------------------------------------------------------------------ *)
(* C03                                                                 *)
(* ------------------------------------------------------------------ *)
Lemma rshape2_no_empty st s cols :
  rshape2 s = true -> treeA s = true -> rsmall s = true ->
  no_empty_chunks (fst (fst (stream st s (mkOpts cols false)))) = true.
Proof.
  intros H1 H2 H3. destruct cols.
  - exact (proj2 (tidy2_tree s H1 H2 H3 st)).
  - exact (ne2_tree_lines s H1 H2 H3 st).
Qed.

Lemma replace_nil_mce2 st i cols :
  rshape2 i = true -> treeA i = true -> rsmall (SReplace i []) = true ->
  mapped_chunk_exists (fst (fst (stream st (SReplace i []) (mkOpts cols false)))) =
  mapped_chunk_exists (fst (fst (stream st i (mkOpts cols false)))).
Proof.
  intros H1 H2 H3.
  assert (H3i : rsmall i = true).
  { cbn [rsmall] in H3. apply andb_true_iff in H3. exact (proj1 H3). }
  pose proof (rshape2_no_empty st (SReplace i []) cols H1 (treeA_replace_nil i H2) H3) as No.
  pose proof (rshape2_no_empty st i cols H1 H2 H3i) as Ni.
  pose proof (dense2_tree_any i st (mkOpts cols false) H1 H2) as D.
  rewrite replace_nil_stream_eq in No |- *. cbn [fst snd columns] in No |- *.
  destruct (replace_stream_nil_ta (fst (fst (stream st i (mkOpts cols false))))
              (snd (fst (stream st i (mkOpts cols false)))) D) as [E _].
  rewrite (ne_filter_live _ No), (ne_filter_live _ Ni) in E.
  rewrite !mce_ta, E. reflexivity.
Qed.

Lemma get_map_goal2 st s cols :
  rshape2 s = true -> treeA s = true -> map_of st s cols = get_map st s cols ->
  map_target s = s -> c03_dom st s cols -> c03_goal st s cols.
Proof.
  intros H1 H2 Em Et [H3 Hs]. rewrite Et in Hs. unfold c03_goal. rewrite Em. destruct cols.
  - destruct (C03_tree_cols2 st s H1 H2 H3 Hs) as [A B]. split; [exact A|intros _; exact B].
  - destruct (C03_tree_lines2 st s H1 H2 H3 Hs) as [A B]. split; [exact A|intros _; exact B].
Qed.

Theorem map_of_C03_2 : forall s st cols,
  rshape2 s = true -> treeA s = true ->
  (k1_shape s = false -> c03_dom st s cols) ->
  c03_goal st s cols.
Proof.
  induction s as [b v|v|v|v n|v n m og im rm|cs|i IH rs|id i IH]; intros st cols H1 H2 Hd.
  - split; [apply leaf_attr; exact I|intros _; apply leaf_none; exact I].
  - split; [apply leaf_attr; exact I|intros _; apply leaf_none; exact I].
  - split; [apply leaf_attr; exact I|intros _; apply leaf_none; exact I].
  - apply get_map_goal2; try assumption; try reflexivity. apply Hd. reflexivity.
  - destruct im as [x|].
    + apply get_map_goal2; try assumption; try reflexivity. apply Hd. reflexivity.
    + destruct (mapped_dom v n m og rm H2) as [Hav Hc].
      split; [|cbn [k1_shape]; discriminate].
      cbn [map_of fst source stream]. destruct cols; cbn [sm_stream columns final_source].
      * symmetry. apply sm_full_attr; assumption.
      * symmetry. apply sm_lines_full_attr; assumption.
  - apply get_map_goal2; try assumption; try reflexivity. apply Hd. reflexivity.
  - destruct rs as [|r rs].
    + cbn [rshape2] in H1. pose proof (treeA_replace_inner i [] H2) as H2i.
      assert (Hdi : k1_shape i = false -> c03_dom st i cols).
      { intros Hk. destruct (Hd Hk) as [Hsm Hs]. split; [|exact Hs].
        cbn [rsmall] in Hsm. apply andb_true_iff in Hsm. exact (proj1 Hsm). }
      destruct (IH st cols H1 H2i Hdi) as [A B]. unfold c03_goal.
      change (map_of st (SReplace i []) cols) with (map_of st i cols).
      change (source (SReplace i [])) with (source i).
      pose proof (dense2_tree_any i st (mkOpts cols false) H1 H2i) as D.
      split.
      * rewrite (proj1 (replace_nil_stream_attr st i cols cols D)). exact A.
      * intros Hk. cbn [k1_shape is_nil andb] in Hk.
        rewrite (replace_nil_mce2 st i cols H1 H2i (proj1 (Hd Hk))). exact (B Hk).
    + apply get_map_goal2; try assumption; try reflexivity. apply Hd. reflexivity.
  - cbn [rshape2] in H1. discriminate.
Qed.

Lemma k1_map_some2 : forall s st cols, rshape2 s = true -> k1_shape s = true ->
  is_none (fst (map_of st s cols)) = false.
Proof.
  induction s as [b v|v|v|v n|v n m og im rm|cs|i IH rs|id i IH]; intros st cols H1 Hk;
    try (cbn [k1_shape] in Hk; discriminate).
  - destruct im as [x|]; [cbn [k1_shape] in Hk; discriminate|]. reflexivity.
  - cbn [k1_shape] in Hk. destruct rs as [|r rs]; [|cbn [is_nil andb] in Hk; discriminate].
    cbn [is_nil andb] in Hk. cbn [rshape2] in H1.
    change (map_of st (SReplace i []) cols) with (map_of st i cols). apply IH; assumption.
Qed.

Theorem chk_C03_tree2_any_store (s : src) (st : store) (o : tree_obs) :
  rshape2 s = true -> treeA s = true -> rsmall s = true -> k1_shape s = false ->
  enc_small st s ->
  to_source o = source s ->
  to_streams o = map (fun op => fst (stream st s op)) all_opts ->
  to_maps o = [fst (map_of st s true); fst (map_of st s false)] ->
  chk_C03 s o = 0.
Proof.
  intros H1 H2 H3 Hk Hs E1 E2 E3.
  pose proof (fun cols => map_of_C03_2 s st cols H1 H2 (fun _ => dom_of_enc st s H3 Hs cols)) as G.
  rewrite (chk_C03_unfold s st o H2 E1 E2 E3 (fun cols => proj1 (G cols))).
  rewrite (proj2 (G true) Hk), (proj2 (G false) Hk), !Bool.eqb_reflx. reflexivity.
Qed.

(* outside K1 *)
Theorem chk_C03_tree2 (s : src) (ws : list (N * wop)) :
  rshape2 s = true -> treeA s = true -> rsmall s = true -> k1_shape s = false ->
  enc_small [] s ->
  chk_C03 s (api_tree s ws) = 0.
Proof.
  intros H1 H2 H3 Hk Hs. rewrite (api_tree_rshape2 s ws H1).
  exact (chk_C03_tree2_any_store s [] (api_tree s []) H1 H2 H3 Hk Hs eq_refl eq_refl eq_refl).
Qed.

(* inside K1: exactly *)
Theorem chk_C03_tree2_k1_exact (s : src) (ws : list (N * wop)) :
  rshape2 s = true -> treeA s = true -> k1_shape s = true ->
  chk_C03 s (api_tree s ws) =
  if mapped_chunk_exists (fst (fst (stream [] s (mkOpts true false)))) &&
     mapped_chunk_exists (fst (fst (stream [] s (mkOpts false false))))
  then 0 else 51.
Proof.
  intros H1 H2 Hk. rewrite (api_tree_rshape2 s ws H1).
  assert (Hno : k1_shape s = false -> forall cols, c03_dom [] s cols) by (rewrite Hk; discriminate).
  pose proof (fun cols => map_of_C03_2 s [] cols H1 H2 (fun E => Hno E cols)) as G.
  rewrite (chk_C03_unfold s [] (api_tree s []) H2 eq_refl eq_refl eq_refl (fun cols => proj1 (G cols))).
  rewrite Hk, !(k1_map_some2 s [] _ H1 Hk).
  destruct (mapped_chunk_exists (fst (fst (stream [] s (mkOpts true false))))); cbn [negb Bool.eqb andb];
    [|reflexivity].
  destruct (mapped_chunk_exists (fst (fst (stream [] s (mkOpts false false))))); reflexivity.
Qed.

Corollary chk_C03_tree2_k1 (s : src) (ws : list (N * wop)) :
  rshape2 s = true -> treeA s = true -> k1_shape s = true ->
  chk_C03 s (api_tree s ws) = 0 \/ chk_C03 s (api_tree s ws) = 51.
Proof.
  intros H1 H2 Hk. rewrite (chk_C03_tree2_k1_exact s ws H1 H2 Hk).
  destruct (_ && _); [left|right]; reflexivity.
Qed.

Corollary chk_C03_tree2_any (s : src) (ws : list (N * wop)) :
  rshape2 s = true -> treeA s = true -> rsmall s = true -> enc_small [] s ->
  chk_C03 s (api_tree s ws) = 0 \/ (k1_shape s = true /\ chk_C03 s (api_tree s ws) = 51).
Proof.
  intros H1 H2 H3 Hs. destruct (k1_shape s) eqn:Hk.
  - destruct (chk_C03_tree2_k1 s ws H1 H2 Hk) as [E|E]; [left; exact E|right; split; [reflexivity|exact E]].
  - left. apply chk_C03_tree2; assumption.
Qed.

(* the hypotheses are satisfiable: the trees of CombLeafExample.v, any history *)
Example chk_C02_C03_examples (r : bool) (ws : list (N * wop)) :
  chk_C02 (ex_leaf r) (api_tree (ex_leaf r) ws) = 0 /\
  chk_C02 (ex_nested r) (api_tree (ex_nested r) ws) = 0 /\
  chk_C02 (um_tree r) (api_tree (um_tree r) ws) = 0 /\
  chk_C03 (ex_leaf r) (api_tree (ex_leaf r) ws) = 0 /\
  chk_C03 (ex_nested r) (api_tree (ex_nested r) ws) = 0 /\
  chk_C03 (um_tree r) (api_tree (um_tree r) ws) = 0.
Proof.
  assert (E : forall s, (forall cols, forallb mapping_small
              (chunk_mappings (fst (fst (stream [] (map_target s) (mkOpts cols true))))) = true) -> enc_small [] s)
    by (intros s H; exact H).
  destruct r; repeat split;
    first [ apply chk_C02_tree2; vm_compute; reflexivity
          | apply chk_C03_tree2;
            [vm_compute; reflexivity|vm_compute; reflexivity|vm_compute; reflexivity|vm_compute; reflexivity|
             apply E; intros [|]; vm_compute; reflexivity] ].
Qed.

Print Assumptions chk_C02_tree2_any_store.
Print Assumptions chk_C02_tree2.
Print Assumptions map_of_C03_2.
Print Assumptions chk_C03_tree2_any_store.
Print Assumptions chk_C03_tree2.
Print Assumptions chk_C03_tree2_k1_exact.
Print Assumptions chk_C03_tree2_k1.
Print Assumptions chk_C03_tree2_any.
Print Assumptions chk_C02_C03_examples.
