(* Stream proofs, part 1: text-level facts.
   L1: split_lines / advance / gen_info / lines_end_info.
   L2: potential_tokens.
   Also the small N-indexed list bridging lemmas reused by the other Stream*.v files. *)
From RS Require Import Base.Prelude Base.Text Rope.RopeModel Stream.Types Stream.Leaves.
Require Import Lia List.

Local Open Scope N_scope.

Ltac peq := unfold text, byte in *; apply (f_equal2 (@pair N N)); lia.

(* ------------------------------------------------------------------ *)
(* len / take / drop / nth_opt bridging                                *)
(* ------------------------------------------------------------------ *)
Lemma slen_nil {A} : len (@nil A) = 0.
Proof. reflexivity. Qed.

Lemma slen_cons {A} (x : A) (l : list A) : len (x :: l) = len l + 1.
Proof. unfold len. cbn [length]. lia. Qed.

Lemma slen_app {A} (a b : list A) : len (a ++ b) = len a + len b.
Proof. unfold len. rewrite app_length. lia. Qed.

Lemma slen_rev {A} (l : list A) : len (rev l) = len l.
Proof. unfold len. rewrite rev_length. reflexivity. Qed.

Lemma slen_0 {A} (l : list A) : len l = 0 -> l = [].
Proof. destruct l as [|x l]; [reflexivity|]. rewrite slen_cons. lia. Qed.

Lemma is_nil_true {A} (l : list A) : is_nil l = true -> l = [].
Proof. destruct l; [reflexivity|discriminate]. Qed.

Lemma is_nil_false {A} (l : list A) : is_nil l = false -> l <> [].
Proof. destruct l; [discriminate|intros _; discriminate]. Qed.

Lemma stake_0 {A} (l : list A) : take 0 l = [].
Proof. reflexivity. Qed.

Lemma stake_nil {A} (n : N) : take n (@nil A) = [].
Proof. unfold take. apply firstn_nil. Qed.

Lemma stake_succ {A} (n : N) (x : A) (l : list A) : take (n + 1) (x :: l) = x :: take n l.
Proof. unfold take. replace (N.to_nat (n + 1)) with (S (N.to_nat n)) by lia. reflexivity. Qed.

Lemma stake_pos {A} (n : N) (x : A) (l : list A) : 0 < n -> take n (x :: l) = x :: take (n - 1) l.
Proof. intros H. replace n with ((n - 1) + 1) at 1 by lia. apply stake_succ. Qed.

Lemma stake_all {A} (n : N) (l : list A) : len l <= n -> take n l = l.
Proof. unfold take, len. intros H. apply firstn_all2. lia. Qed.

Lemma sdrop_0 {A} (l : list A) : drop 0 l = l.
Proof. reflexivity. Qed.

Lemma sdrop_nil {A} (n : N) : drop n (@nil A) = [].
Proof. unfold drop. apply skipn_nil. Qed.

Lemma sdrop_succ {A} (n : N) (x : A) (l : list A) : drop (n + 1) (x :: l) = drop n l.
Proof. unfold drop. replace (N.to_nat (n + 1)) with (S (N.to_nat n)) by lia. reflexivity. Qed.

Lemma sdrop_pos {A} (n : N) (x : A) (l : list A) : 0 < n -> drop n (x :: l) = drop (n - 1) l.
Proof. intros H. replace n with ((n - 1) + 1) at 1 by lia. apply sdrop_succ. Qed.

Lemma sdrop_all {A} (n : N) (l : list A) : len l <= n -> drop n l = [].
Proof. unfold drop, len. intros H. apply skipn_all2. lia. Qed.

Lemma stake_drop {A} (n : N) (l : list A) : take n l ++ drop n l = l.
Proof. unfold take, drop. apply firstn_skipn. Qed.

Lemma slen_take {A} (n : N) (l : list A) : len (take n l) = N.min n (len l).
Proof. unfold take, len. rewrite firstn_length. lia. Qed.

Lemma slen_drop {A} (n : N) (l : list A) : len (drop n l) = len l - n.
Proof. unfold drop, len. rewrite skipn_length. lia. Qed.

Lemma snth_nil {A} (n : N) : nth_opt (@nil A) n = None.
Proof. unfold nth_opt. destruct (N.to_nat n); reflexivity. Qed.

Lemma snth_0 {A} (x : A) (l : list A) : nth_opt (x :: l) 0 = Some x.
Proof. reflexivity. Qed.

Lemma snth_succ {A} (n : N) (x : A) (l : list A) : nth_opt (x :: l) (n + 1) = nth_opt l n.
Proof. unfold nth_opt. replace (N.to_nat (n + 1)) with (S (N.to_nat n)) by lia. reflexivity. Qed.

Lemma snth_pos {A} (n : N) (x : A) (l : list A) : 0 < n -> nth_opt (x :: l) n = nth_opt l (n - 1).
Proof. intros H. replace n with ((n - 1) + 1) at 1 by lia. apply snth_succ. Qed.

Lemma snth_some_lt {A} (l : list A) (n : N) (x : A) : nth_opt l n = Some x -> n < len l.
Proof.
  unfold nth_opt, len. intros H.
  assert (N.to_nat n < length l)%nat by (apply nth_error_Some; congruence). lia.
Qed.

Lemma snth_none {A} (l : list A) (n : N) : len l <= n -> nth_opt l n = None.
Proof. unfold nth_opt, len. intros H. apply nth_error_None. lia. Qed.

Lemma snth_lt_some {A} (l : list A) (n : N) : n < len l -> exists x, nth_opt l n = Some x.
Proof.
  unfold nth_opt, len. intros H.
  destruct (nth_error l (N.to_nat n)) eqn:E; [eauto|].
  apply nth_error_None in E. lia.
Qed.

(* take (n+1) = take n ++ [nth n] *)
Lemma stake_snoc {A} (l : list A) (n : N) (x : A) :
  nth_opt l n = Some x -> take (n + 1) l = take n l ++ [x].
Proof.
  unfold nth_opt, take. replace (N.to_nat (n + 1)) with (S (N.to_nat n)) by lia.
  generalize (N.to_nat n) as k. clear n.
  induction l as [|y l IH]; intros [|k] H; cbn in H; try discriminate.
  - inversion H. reflexivity.
  - cbn [firstn app]. f_equal. apply IH. exact H.
Qed.

(* ------------------------------------------------------------------ *)
(* text_eqb                                                            *)
(* ------------------------------------------------------------------ *)
Lemma text_eqb_refl (a : text) : text_eqb a a = true.
Proof. induction a as [|x a IH]; [reflexivity|]. cbn [text_eqb]. rewrite N.eqb_refl. exact IH. Qed.

Lemma text_eqb_eq (a b : text) : text_eqb a b = true <-> a = b.
Proof.
  split; [|intros ->; apply text_eqb_refl].
  revert b. induction a as [|x a IH]; intros [|y b] H; cbn [text_eqb] in H; try discriminate; [reflexivity|].
  apply andb_true_iff in H. destruct H as [H1 H2]. apply N.eqb_eq in H1. subst y.
  f_equal. apply IH. exact H2.
Qed.

(* ------------------------------------------------------------------ *)
(* last_byte / ends_with_nl                                            *)
(* ------------------------------------------------------------------ *)
Definition no_nl (t : text) : Prop := Forall (fun c => c <> 10) t.

Lemma no_nl_nil : no_nl [].
Proof. constructor. Qed.

Lemma no_nl_cons c t : c <> 10 -> no_nl t -> no_nl (c :: t).
Proof. intros; constructor; assumption. Qed.

Lemma no_nl_app a b : no_nl a -> no_nl b -> no_nl (a ++ b).
Proof. intros Ha Hb. apply Forall_app. split; assumption. Qed.

Lemma no_nl_rev a : no_nl a -> no_nl (rev a).
Proof. intros H. apply Forall_rev. exact H. Qed.

Lemma no_nl_not_in a : no_nl a -> ~ In 10 a.
Proof. intros H Hin. unfold no_nl in H. rewrite Forall_forall in H. apply (H 10 Hin). reflexivity. Qed.

Lemma no_nl_take n a : no_nl a -> no_nl (take n a).
Proof.
  intros H. unfold no_nl in *. rewrite Forall_forall in *. intros x Hx. apply H.
  unfold take in Hx. rewrite <- (firstn_skipn (N.to_nat n) a). apply in_or_app. left. exact Hx.
Qed.

Lemma last_byte_app (a b : text) :
  last_byte (a ++ b) = match last_byte b with Some x => Some x | None => last_byte a end.
Proof. unfold last_byte. rewrite rev_app_distr. destruct (rev b); reflexivity. Qed.

Lemma last_byte_snoc (a : text) (c : N) : last_byte (a ++ [c]) = Some c.
Proof. rewrite last_byte_app. reflexivity. Qed.

Lemma last_byte_none (a : text) : last_byte a = None -> a = [].
Proof.
  unfold last_byte. destruct (rev a) eqn:E; [|discriminate]. intros _.
  rewrite <- (rev_involutive a), E. reflexivity.
Qed.

Lemma ends_with_nl_snoc (a : text) (c : N) : ends_with_nl (a ++ [c]) = (c =? NL).
Proof. unfold ends_with_nl. rewrite last_byte_snoc. reflexivity. Qed.

Lemma last_byte_in (a : text) (c : N) : last_byte a = Some c -> In c a.
Proof.
  unfold last_byte. destruct (rev a) eqn:E; [discriminate|]. intros H. inversion H. subst.
  apply in_rev. rewrite E. left. reflexivity.
Qed.

Lemma ends_with_nl_no_nl (a : text) : no_nl a -> ends_with_nl a = false.
Proof.
  intros H. unfold ends_with_nl. destruct (last_byte a) eqn:E; [|reflexivity].
  apply last_byte_in in E. apply N.eqb_neq. intros ->. exact (no_nl_not_in a H E).
Qed.

Lemma ends_with_nl_nil : ends_with_nl [] = false.
Proof. reflexivity. Qed.

(* ------------------------------------------------------------------ *)
(* advance                                                             *)
(* ------------------------------------------------------------------ *)
Lemma advance_app (l c : N) (a b : text) :
  advance l c (a ++ b) = let '(l', c') := advance l c a in advance l' c' b.
Proof.
  revert l c. induction a as [|x a IH]; intros l c; [reflexivity|].
  cbn [app advance]. destruct (x =? NL); apply IH.
Qed.

Lemma advance_app' (l c : N) (a b : text) (l' c' : N) :
  advance l c a = (l', c') -> advance l c (a ++ b) = advance l' c' b.
Proof. intros H. rewrite advance_app, H. reflexivity. Qed.

Lemma advance_no_nl (l c : N) (a : text) : no_nl a -> advance l c a = (l, c + len a).
Proof.
  revert c. induction a as [|x a IH]; intros c H.
  - cbn [advance]. rewrite slen_nil. peq.
  - inversion H as [|? ? Hx Ha]. subst. cbn [advance].
    destruct (x =? NL) eqn:E; [apply N.eqb_eq in E; contradiction|].
    rewrite IH by exact Ha. rewrite slen_cons. peq.
Qed.

Lemma advance_nl_end (l c : N) (a : text) : no_nl a -> advance l c (a ++ [10]) = (l + 1, 0).
Proof.
  intros H. rewrite (advance_app' l c a [10] l (c + len a)) by (apply advance_no_nl; exact H).
  reflexivity.
Qed.

Lemma advance_line_ge (l c : N) (a : text) : l <= fst (advance l c a).
Proof.
  revert l c. induction a as [|x a IH]; intros l c; cbn [advance]; [cbn; lia|].
  destruct (x =? NL); [specialize (IH (l + 1) 0)|specialize (IH l (c + 1))]; lia.
Qed.

(* ------------------------------------------------------------------ *)
(* pieces: a body without line break, optionally followed by one        *)
(* ------------------------------------------------------------------ *)
Definition piece_shape (p : text) : Prop :=
  exists body, no_nl body /\ (p = body ++ [10] \/ (p = body /\ body <> [])).

Lemma piece_nonempty p : piece_shape p -> p <> [].
Proof.
  intros [b [_ [->| [-> H]]]]; [|exact H]. destruct b; discriminate.
Qed.

Lemma piece_nl_last p : piece_shape p ->
  forall pre c post, p = pre ++ c :: post -> post <> [] -> c <> 10.
Proof.
  intros [b [Hb Hp]] pre c post E Hpost Hc. subst c.
  destruct Hp as [->| [-> _]].
  - destruct (exists_last Hpost) as [post' [x Hx]]. subst post.
    assert (E' : b ++ [10] = (pre ++ 10 :: post') ++ [x]) by (rewrite E, <- app_assoc; reflexivity).
    apply app_inj_tail in E'. destruct E' as [E' _]. subst b.
    apply (no_nl_not_in _ Hb). apply in_or_app. right. left. reflexivity.
  - subst b. apply (no_nl_not_in _ Hb). apply in_or_app. right. left. reflexivity.
Qed.

Lemma piece_advance l c p : piece_shape p ->
  advance l c p = if ends_with_nl p then (l + 1, 0) else (l, c + len p).
Proof.
  intros [b [Hb [->| [-> _]]]].
  - rewrite ends_with_nl_snoc. cbn. apply advance_nl_end. exact Hb.
  - rewrite ends_with_nl_no_nl by exact Hb. apply advance_no_nl. exact Hb.
Qed.

(* lines: every piece but the last ends with a line break *)
Inductive lines_shape : list text -> Prop :=
| LS_nil : lines_shape []
| LS_last body : body <> [] -> no_nl body -> lines_shape [body]
| LS_cons body ls : no_nl body -> lines_shape ls -> lines_shape ((body ++ [10]) :: ls).

Lemma lines_shape_pieces ls : lines_shape ls -> Forall piece_shape ls.
Proof.
  induction 1 as [|b Hne Hb|b ls Hb _ IH].
  - constructor.
  - constructor; [|constructor]. exists b. split; [exact Hb|right; split; [reflexivity|exact Hne]].
  - constructor; [|exact IH]. exists b. split; [exact Hb|left; reflexivity].
Qed.

Definition rev_head {A} (l : list A) : option A := match rev l with [] => None | x :: _ => Some x end.

Lemma rev_head_one {A} (a : A) : rev_head [a] = Some a.
Proof. reflexivity. Qed.

Lemma rev_head_cons2 {A} (a b : A) (r : list A) : rev_head (a :: b :: r) = rev_head (b :: r).
Proof. unfold rev_head. cbn [rev]. destruct (rev r); reflexivity. Qed.

Lemma rev_head_in {A} (l : list A) (x : A) : rev_head l = Some x -> In x l.
Proof.
  unfold rev_head. destruct (rev l) eqn:E; [discriminate|]. intros H. inversion H. subst.
  apply in_rev. rewrite E. left. reflexivity.
Qed.

Lemma rev_head_some {A} (a : A) (l : list A) : exists x, rev_head (a :: l) = Some x.
Proof.
  revert a. induction l as [|b r IH]; intros a; [exists a; reflexivity|].
  rewrite rev_head_cons2. apply IH.
Qed.

Lemma last_byte_concat (ls : list text) : Forall (fun x => x <> []) ls ->
  last_byte (concat ls) = match rev_head ls with Some x => last_byte x | None => None end.
Proof.
  induction ls as [|a ls IH]; intros H; [reflexivity|].
  inversion H as [|? ? Ha Hls]. subst. cbn [concat]. rewrite last_byte_app.
  destruct ls as [|b r].
  - reflexivity.
  - rewrite rev_head_cons2, <- IH by exact Hls.
    destruct (last_byte (concat (b :: r))) eqn:E; [reflexivity|].
    apply last_byte_none in E. cbn [concat] in E. apply app_eq_nil in E.
    inversion Hls. subst. destruct E. contradiction.
Qed.

Lemma lines_shape_advance ls : lines_shape ls -> forall l,
  advance l 0 (concat ls) =
  match rev_head ls with
  | None => (l, 0)
  | Some x => if ends_with_nl x then (l + len ls, 0) else (l + len ls - 1, len x)
  end.
Proof.
  induction 1 as [|b Hne Hb|b ls Hb Hls IH]; intros l.
  - reflexivity.
  - cbn [concat]. rewrite app_nil_r, rev_head_one, ends_with_nl_no_nl by exact Hb.
    rewrite advance_no_nl by exact Hb. change (len [b]) with 1. peq.
  - cbn [concat]. rewrite (advance_app' l 0 (b ++ [10]) (concat ls) (l + 1) 0) by (apply advance_nl_end; exact Hb).
    rewrite IH. destruct ls as [|x r].
    + rewrite rev_head_one, ends_with_nl_snoc. change (len [b ++ [10]]) with 1. change (10 =? NL) with true. reflexivity.
    + rewrite rev_head_cons2. destruct (rev_head_some x r) as [y Hy]. rewrite Hy.
      rewrite (slen_cons (b ++ [10])). destruct (ends_with_nl y); peq.
Qed.

(* ------------------------------------------------------------------ *)
(* L1: split_lines                                                     *)
(* ------------------------------------------------------------------ *)
Lemma concat_split_lines_aux (t cur : text) : concat (split_lines_aux t cur) = rev cur ++ t.
Proof.
  revert cur. induction t as [|c t IH]; intros cur.
  - cbn [split_lines_aux]. destruct cur as [|x cur]; [reflexivity|].
    cbn [concat]. rewrite !app_nil_r. reflexivity.
  - cbn [split_lines_aux]. destruct (c =? NL).
    + cbn [concat]. rewrite IH. cbn [rev app]. rewrite <- app_assoc. reflexivity.
    + rewrite IH. cbn [rev]. rewrite <- app_assoc. reflexivity.
Qed.

Theorem concat_split_lines (t : text) : concat (split_lines t) = t.
Proof. unfold split_lines. rewrite concat_split_lines_aux. reflexivity. Qed.

Lemma split_lines_aux_shape (t cur : text) : no_nl cur -> lines_shape (split_lines_aux t cur).
Proof.
  revert cur. induction t as [|c t IH]; intros cur Hc.
  - cbn [split_lines_aux]. destruct cur as [|x cur]; [constructor|].
    apply LS_last; [|apply no_nl_rev; exact Hc].
    cbn [rev]. destruct (rev cur); discriminate.
  - cbn [split_lines_aux]. destruct (c =? NL) eqn:E.
    + apply N.eqb_eq in E. subst c. cbn [rev]. apply LS_cons; [apply no_nl_rev; exact Hc|].
      apply IH. constructor.
    + apply IH. apply no_nl_cons; [|exact Hc]. apply N.eqb_neq in E. exact E.
Qed.

Theorem split_lines_shape (t : text) : lines_shape (split_lines t).
Proof. apply split_lines_aux_shape. constructor. Qed.

Theorem split_lines_nonempty (t l : text) : In l (split_lines t) -> l <> [].
Proof.
  intros H. apply piece_nonempty.
  pose proof (lines_shape_pieces _ (split_lines_shape t)) as Hp.
  rewrite Forall_forall in Hp. apply Hp. exact H.
Qed.

Theorem split_lines_nl_last (t : text) :
  forall l, In l (split_lines t) -> forall pre c post, l = pre ++ c :: post -> post <> [] -> c <> 10.
Proof.
  intros l H. apply piece_nl_last.
  pose proof (lines_shape_pieces _ (split_lines_shape t)) as Hp.
  rewrite Forall_forall in Hp. apply Hp. exact H.
Qed.

Lemma lines_end_info_rev_head (ls : list text) :
  lines_end_info ls =
  match rev_head ls with
  | Some l => if ends_with_nl l then (len ls + 1, 0) else (len ls, len l)
  | None => (1, 0)
  end.
Proof. unfold lines_end_info, rev_head. destruct (rev ls); reflexivity. Qed.

Lemma lines_shape_end_info ls : lines_shape ls -> lines_end_info ls = advance 1 0 (concat ls).
Proof.
  intros H. rewrite lines_end_info_rev_head, (lines_shape_advance ls H 1).
  destruct (rev_head ls) as [x|]; [|reflexivity].
  destruct (ends_with_nl x); peq.
Qed.

Theorem lines_end_info_advance (t : text) : lines_end_info (split_lines t) = advance 1 0 t.
Proof. rewrite (lines_shape_end_info _ (split_lines_shape t)), concat_split_lines. reflexivity. Qed.

Lemma lines_shape_ends ls : lines_shape ls ->
  ends_with_nl (concat ls) = match rev_head ls with Some x => ends_with_nl x | None => false end.
Proof.
  intros H. unfold ends_with_nl at 1. rewrite last_byte_concat.
  - destruct (rev_head ls); reflexivity.
  - pose proof (lines_shape_pieces _ H) as Hp. rewrite Forall_forall in *.
    intros x Hx. apply piece_nonempty. apply Hp. exact Hx.
Qed.

Theorem gen_info_advance (t : text) : gen_info t = advance 1 0 t.
Proof.
  unfold gen_info. pose proof (split_lines_shape t) as Hs. pose proof (concat_split_lines t) as Hc.
  set (ls := split_lines t) in *. clearbody ls. subst t.
  rewrite (lines_shape_ends _ Hs), (lines_shape_advance _ Hs 1).
  unfold rev_head. destruct (rev ls) as [|x r] eqn:E.
  - assert (E' : ls = []) by (rewrite <- (rev_involutive ls), E; reflexivity).
    rewrite E'. reflexivity.
  - assert (Hlen : 1 <= len ls).
    { rewrite <- slen_rev, E, slen_cons. lia. }
    destruct (ends_with_nl x); peq.
Qed.

(* ------------------------------------------------------------------ *)
(* L2: potential_tokens                                                *)
(* ------------------------------------------------------------------ *)
Lemma concat_tokens_aux (t : text) : forall ph cur, concat (tokens_aux t ph cur) = rev cur ++ t.
Proof.
  induction t as [|c t IH]; intros ph cur.
  - cbn [tokens_aux]. destruct cur as [|x cur]; [reflexivity|].
    cbn [is_nil concat]. rewrite !app_nil_r. reflexivity.
  - cbn [tokens_aux]. destruct (c =? NL).
    + cbn [concat]. rewrite IH. cbn [rev app]. rewrite <- app_assoc. reflexivity.
    + destruct ph.
      * destruct (is_sep c).
        -- rewrite IH. cbn [rev]. rewrite <- app_assoc. reflexivity.
        -- cbn [concat]. rewrite IH. reflexivity.
      * destruct (is_brace c); rewrite IH; cbn [rev]; rewrite <- app_assoc; reflexivity.
Qed.

Theorem concat_potential_tokens (t : text) : concat (potential_tokens t) = t.
Proof. unfold potential_tokens. rewrite concat_tokens_aux. reflexivity. Qed.

Lemma rev_nonempty {A} (l : list A) : l <> [] -> rev l <> [].
Proof. intros H E. apply H. rewrite <- (rev_involutive l), E. reflexivity. Qed.

Lemma tokens_aux_shape (t : text) : forall ph cur,
  no_nl cur -> (ph = true -> cur <> []) -> Forall piece_shape (tokens_aux t ph cur).
Proof.
  induction t as [|c t IH]; intros ph cur Hc Hph.
  - cbn [tokens_aux]. destruct cur as [|x cur]; [constructor|]. cbn [is_nil].
    constructor; [|constructor]. exists (rev (x :: cur)).
    split; [apply no_nl_rev; exact Hc|]. right. split; [reflexivity|]. apply rev_nonempty. discriminate.
  - cbn [tokens_aux]. destruct (c =? NL) eqn:E.
    + apply N.eqb_eq in E. subst c. constructor.
      * exists (rev cur). split; [apply no_nl_rev; exact Hc|]. left. reflexivity.
      * apply IH; [constructor|discriminate].
    + apply N.eqb_neq in E. destruct ph.
      * destruct (is_sep c).
        -- apply IH; [apply no_nl_cons; assumption|intros _; discriminate].
        -- constructor.
           ++ exists (rev cur). split; [apply no_nl_rev; exact Hc|]. right. split; [reflexivity|].
              apply rev_nonempty. apply Hph. reflexivity.
           ++ apply IH; [apply no_nl_cons; [exact E|constructor]|discriminate].
      * destruct (is_brace c); (apply IH; [apply no_nl_cons; assumption|]);
          [intros _; discriminate|discriminate].
Qed.

Theorem potential_tokens_pieces (t : text) : Forall piece_shape (potential_tokens t).
Proof. apply tokens_aux_shape; [constructor|discriminate]. Qed.

Theorem potential_tokens_nonempty (t l : text) : In l (potential_tokens t) -> l <> [].
Proof.
  intros H. apply piece_nonempty.
  pose proof (potential_tokens_pieces t) as Hp. rewrite Forall_forall in Hp. apply Hp. exact H.
Qed.

Theorem potential_tokens_nl_last (t : text) :
  forall l, In l (potential_tokens t) -> forall pre c post, l = pre ++ c :: post -> post <> [] -> c <> 10.
Proof.
  intros l H. apply piece_nl_last.
  pose proof (potential_tokens_pieces t) as Hp. rewrite Forall_forall in Hp. apply Hp. exact H.
Qed.

Print Assumptions concat_split_lines.
Print Assumptions split_lines_nonempty.
Print Assumptions split_lines_nl_last.
Print Assumptions advance_app.
Print Assumptions gen_info_advance.
Print Assumptions lines_end_info_advance.
Print Assumptions concat_potential_tokens.
Print Assumptions potential_tokens_nonempty.
Print Assumptions potential_tokens_nl_last.
