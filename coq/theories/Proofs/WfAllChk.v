(* C11, checker level (W2, W3): the model's own observations of a tree of the class rshape /
   treeA / rsmall pass `chk_C11`, in the encoder's domain and outside the known-finding class K1
   (`k1_shape`: map() reaches a SourceMapSource without inner map through delegating wrappers
   and returns the given map verbatim); inside that class the only other verdict is 51.
   Trees of the class contain no CachedSource, so a warming history changes nothing. *)
From RS Require Import Base.Prelude Base.Text Rope.RopeModel Codec.Vlq Codec.CodecSpec
  Checkers.ChkCodec Stream.Types Stream.Leaves Stream.Concat Stream.Replace Stream.Combined Stream.Tree
  Api.ApiTree Sem.Attr Checkers.ChkTree
  Proofs.StreamTree Proofs.WfStream Proofs.WfMap Proofs.RStreamTree Proofs.FinalDense
  Proofs.WfAllStrict Proofs.WfAllMap.
Require Import Lia List.

Local Open Scope N_scope.

(* the node whose text-less stream map() encodes: ReplaceSource without replacements delegates *)
Fixpoint map_target (s : src) : src :=
  match s with
  | SReplace inner rs => if is_nil rs then map_target inner else s
  | _ => s
  end.

Lemma map_target_self s :
  match s with SReplace _ [] => False | _ => True end -> map_target s = s.
Proof. destruct s as [| | | | | |i rs|]; try reflexivity. destruct rs; [contradiction|reflexivity]. Qed.

(* the encoder-domain hypothesis of the checker-level theorems: every field of the segments
   streamed (text-less) by the node map() encodes stays below 2^30 *)
Definition enc_small (st : store) (s : src) : Prop :=
  forall cols, forallb mapping_small
    (chunk_mappings (fst (fst (stream st (map_target s) (mkOpts cols true))))) = true.

Lemma get_map_fst_wf st s cols :
  rshape s = true -> treeA s = true -> rsmall s = true ->
  forallb mapping_small (chunk_mappings (fst (fst (stream st s (mkOpts cols true))))) = true ->
  map_wf (source s) (fst (get_map st s cols)) = true.
Proof.
  intros H1 H2 H3 H4. apply (get_map_map_wf st (snd (get_map st s cols)) s cols); try assumption.
  destruct (get_map st s cols); reflexivity.
Qed.

Lemma treeA_replace_inner i rs : treeA (SReplace i rs) = true -> treeA i = true.
Proof.
  unfold treeA. cbn [tree_wf tree_ascii]. intros H. apply andb_true_iff in H. destruct H as [Hw Ha].
  apply andb_true_iff in Hw. destruct Hw as [Hw _]. apply andb_true_iff in Ha. destruct Ha as [Ha _].
  rewrite Hw, Ha. reflexivity.
Qed.

(* map() of a tree outside the class K1 *)
Theorem map_of_wf : forall s st cols,
  rshape s = true -> treeA s = true -> rsmall s = true -> k1_shape s = false ->
  forallb mapping_small (chunk_mappings (fst (fst (stream st (map_target s) (mkOpts cols true))))) = true ->
  map_wf (source s) (fst (map_of st s cols)) = true.
Proof.
  induction s as [b v|v|v|v n|v n m og im rm|cs|i IH rs|id i IH]; intros st cols H1 H2 H3 Hk Hs.
  - reflexivity.
  - reflexivity.
  - reflexivity.
  - apply (get_map_fst_wf st (SOriginal v n) cols); assumption.
  - destruct im as [x|]; cbn [rshape k1_shape] in *; discriminate.
  - apply (get_map_fst_wf st (SConcat cs) cols); assumption.
  - cbn [map_of map_target] in *. destruct rs as [|r rs]; cbn [is_nil] in *.
    + cbn [rshape rsmall k1_shape is_nil andb] in *. apply andb_true_iff in H3. destruct H3 as [H3 _].
      change (source (SReplace i [])) with (source i).
      apply IH; try assumption. apply (treeA_replace_inner i []). exact H2.
    + apply (get_map_fst_wf st (SReplace i (r :: rs)) cols); assumption.
  - discriminate.
Qed.

(* ------------------------------------------------------------------ *)
(* the observations                                                    *)
(* ------------------------------------------------------------------ *)
Lemma chk_C11_unfold s st :
  treeA s = true ->
  (forall o, stream_wf (fst (fst (stream st s o))) 0 0 = true) ->
  let m1 := fst (map_of st s true) in
  let m0 := fst (map_of st s false) in
  forall o, to_source o = source s ->
    to_streams o = map (fun op => fst (stream st s op)) all_opts ->
    to_maps o = [m1; m0] ->
    chk_C11 s o =
    if negb (map_wf (source s) m1) then (if k1_shape s then 51 else 5)
    else if negb (map_wf (source s) m0) then (if k1_shape s then 51 else 6) else 0.
Proof.
  intros Ha Hw m1 m0 o E1 E2 E3. unfold chk_C11. rewrite Ha, E1, E2, E3. cbn [negb map all_opts].
  rewrite !Hw. reflexivity.
Qed.

(* trees of the class contain no CachedSource: a warming history runs nothing *)
Lemma find_cached_rshape : forall s id, rshape s = true -> find_cached s id = None.
Proof.
  apply (src_ind' (fun s => forall id, rshape s = true -> find_cached s id = None)).
  - reflexivity.
  - reflexivity.
  - reflexivity.
  - reflexivity.
  - reflexivity.
  - intros cs IH id Hsh. cbn [rshape] in Hsh. cbn [find_cached].
    induction cs as [|c cs IHcs]; [reflexivity|].
    cbn [forallb] in Hsh. apply andb_true_iff in Hsh. destruct Hsh as [Hc Hcs].
    inversion IH as [|? ? IHc IHrest]; subst. rewrite (IHc id Hc). apply IHcs; assumption.
  - intros i rs IH id Hsh. cbn [rshape] in Hsh. cbn [find_cached]. apply IH. exact Hsh.
  - intros id i _ id' Hsh. discriminate.
Qed.

Lemma run_warm_rshape s : rshape s = true -> forall ws st, run_warm st s ws = st.
Proof.
  intros Hsh. induction ws as [|[id w] ws IH]; intros st; [reflexivity|].
  cbn [run_warm]. rewrite (find_cached_rshape s id Hsh). apply IH.
Qed.

Lemma api_tree_rshape s ws : rshape s = true -> api_tree s ws = api_tree s [].
Proof. intros Hsh. unfold api_tree. rewrite (run_warm_rshape s Hsh ws). reflexivity. Qed.

Lemma rshape_wf' s : rshape s = true -> WfStream.rshape s = true.
Proof. intros H. rewrite rshape_eq. exact H. Qed.

(* W2: the checker accepts the model's observations outside the class K1 *)
Theorem chk_C11_tree (s : src) :
  rshape s = true -> treeA s = true -> rsmall s = true -> k1_shape s = false ->
  enc_small [] s ->
  chk_C11 s (api_tree s []) = 0.
Proof.
  intros H1 H2 H3 Hk Hs.
  rewrite (chk_C11_unfold s [] H2 (fun o => stream_wf_tree s [] o (rshape_wf' s H1) H2)
             (api_tree s []) eq_refl eq_refl eq_refl).
  rewrite (map_of_wf s [] true H1 H2 H3 Hk (Hs true)), (map_of_wf s [] false H1 H2 H3 Hk (Hs false)).
  reflexivity.
Qed.

(* inside the class K1 the verdict is "holds" or "known finding K1" (no hypothesis on the
   encoder's domain or the sizes is needed: the four streams are well-formed) *)
Theorem chk_C11_tree_k1 (s : src) :
  rshape s = true -> treeA s = true -> k1_shape s = true ->
  chk_C11 s (api_tree s []) = 0 \/ chk_C11 s (api_tree s []) = 51.
Proof.
  intros H1 H2 Hk.
  rewrite (chk_C11_unfold s [] H2 (fun o => stream_wf_tree s [] o (rshape_wf' s H1) H2)
             (api_tree s []) eq_refl eq_refl eq_refl).
  rewrite Hk. destruct (map_wf (source s) (fst (map_of [] s true))); cbn [negb]; [|right; reflexivity].
  destruct (map_wf (source s) (fst (map_of [] s false))); cbn [negb]; [left|right]; reflexivity.
Qed.

(* W3: after any warming history *)
Corollary chk_C11_tree_warm (s : src) (ws : list (N * wop)) :
  rshape s = true -> treeA s = true -> rsmall s = true -> k1_shape s = false ->
  enc_small [] s ->
  chk_C11 s (api_tree s ws) = 0.
Proof. intros H1 H2 H3 Hk Hs. rewrite (api_tree_rshape s ws H1). apply chk_C11_tree; assumption. Qed.

Corollary chk_C11_tree_any (s : src) (ws : list (N * wop)) :
  rshape s = true -> treeA s = true -> rsmall s = true -> enc_small [] s ->
  chk_C11 s (api_tree s ws) = 0 \/ (k1_shape s = true /\ chk_C11 s (api_tree s ws) = 51).
Proof.
  intros H1 H2 H3 Hs. rewrite (api_tree_rshape s ws H1). destruct (k1_shape s) eqn:Hk.
  - destruct (chk_C11_tree_k1 s H1 H2 Hk) as [E|E]; [left; exact E|right; split; [reflexivity|exact E]].
  - left. apply chk_C11_tree; assumption.
Qed.

(* the class K1 is not empty: a SourceMapSource whose (consistent) map has a segment at the end
   position of its text is returned verbatim by map(), and `map_wf` asks every segment to lie
   strictly before the end.  "ab" with segments (1,1) -> s1:1:0 and (1,2) unmapped. *)
Definition k1_witness : src :=
  SMapped [97; 98] [109] (mkSmap None [67; 65; 65; 65; 44; 67] [[115; 49]] [] [] None None) None None false.

Lemma k1_witness_verdict :
  rshape k1_witness = true /\ treeA k1_witness = true /\ k1_shape k1_witness = true /\
  chk_C11 k1_witness (api_tree k1_witness []) = 51.
Proof. vm_compute. repeat split; reflexivity. Qed.

Print Assumptions map_of_wf.
Print Assumptions chk_C11_tree.
Print Assumptions chk_C11_tree_k1.
Print Assumptions chk_C11_tree_warm.
Print Assumptions chk_C11_tree_any.
Print Assumptions k1_witness_verdict.
