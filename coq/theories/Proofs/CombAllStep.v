(* C09, whole stream, part 3: the invariant of the state record of the combined streamer and
   the step of every outer event.
   The state is described by three independent pieces:
     sinv - the source tables: every announced outer source / inner source index is pending
            (-2) or translated to a global index that carries its string; the global table
            has no duplicates;
     ninv - the same for names;
     iinv - the inner source: not yet announced (all inner tables empty) or announced
            (tables = those of the inner map, `find_inner` = `last_at` on the inner chunks).
   Every outer event keeps them and emits a `run` (CombAllRun.v); a chunk event emits
   announcements followed by ONE chunk with the same text and generated position whose
   resolved attribution is `resolve_combined` of the outer attribution (T1). *)
From RS Require Import Base.Prelude Base.Text Rope.RopeModel Codec.Vlq Codec.CodecSpec
  Stream.Types Stream.Leaves Stream.Combined Stream.Tree Sem.Attr Checkers.ChkTree Checkers.ChkCombined
  Proofs.StreamText Proofs.StreamLeaves Proofs.StreamMap Proofs.WfStream Proofs.AttrCodec Proofs.AttrSms
  Proofs.CombSearch Proofs.CombPass Proofs.CombRows Proofs.CombReach
  Proofs.CombAllSpec Proofs.CombAllInner Proofs.CombAllRun.
Require Import Lia List ZArith.

Local Open Scope N_scope.

Lemma Zeqb_of_N a b : (Z.of_N a =? Z.of_N b)%Z = (a =? b).
Proof.
  destruct (a =? b) eqn:E.
  - apply N.eqb_eq in E. subst. apply Z.eqb_refl.
  - apply N.eqb_neq in E. apply Z.eqb_neq. lia.
Qed.

Lemma text_eqb_false a b : a <> b -> text_eqb a b = false.
Proof. intros H. destruct (text_eqb a b) eqn:E; [|reflexivity]. apply text_eqb_eq in E. contradiction. Qed.

Lemma last_at_some : forall chs L c best r, last_at chs L c best = Some r ->
  best = Some r \/ (In r chs /\ g_line (snd r) = L /\ g_col (snd r) <= c).
Proof.
  induction chs as [|[x mp] chs IH]; intros L c best r H; [left; exact H|].
  cbn [last_at] in H. destruct ((g_line mp =? L) && (g_col mp <=? c)) eqn:E.
  - destruct (IH _ _ _ _ H) as [Q|[Q1 Q2]].
    + inversion Q. subst r. right. apply andb_true_iff in E. destruct E as [E1 E2].
      apply N.eqb_eq in E1. apply N.leb_le in E2. split; [left; reflexivity|]. split; assumption.
    + right. split; [right; exact Q1|exact Q2].
  - destruct (IH _ _ _ _ H) as [Q|[Q1 Q2]]; [left; exact Q|right; split; [right; exact Q1|exact Q2]].
Qed.

Section Step.
Variables (cols : bool) (m im : smap) (name : text) (given : option text) (remove : bool).

Let f := fun c : text => fst (sm_stream c im (mkOpts cols false)).

(* outer tables *)
Definition SPfull : list (text * option text) := src_pairs m (sm_sources m) 0.
Definition S_out : list text := map fst SPfull.
Definition N_out : list text := if cols then sm_names m else [].
(* inner tables *)
Definition ISfull : list (text * option text) := src_pairs im (sm_sources im) 0.
Definition INfull : list text := if cols then sm_names im else [].
Definition original : option text := original_of m name given.
Definition inner_on : bool :=
  match original with Some ot => negb (is_nil (f ot)) | None => false end.
Definition IS := if inner_on then ISfull else [].
Definition IN := if inner_on then INfull else [].
(* every string that may enter the global tables *)
Definition ALLS : list text := S_out ++ map fst ISfull.
Definition ALLN : list text := N_out ++ INfull.
(* every (file, content) that may be announced *)
Definition FILES : list (text * option text) :=
  filter (fun p => negb (text_eqb (fst p) name)) SPfull ++ ISfull ++ [(name, original)].

(* the answer of the binary search once the inner source is announced *)
Definition FI (L c : N) : option (row * text) :=
  match original with
  | Some ot =>
    match last_at (tchunks (f ot)) L c None with Some (x, mp) => Some (row_of mp, x) | None => None end
  | None => None
  end.

(* ------------------------------------------------------------------ *)
(* the invariant                                                       *)
(* ------------------------------------------------------------------ *)
Definition pending_or (idx : list Z) (k : N) (tbl : list text) (s : text) : Prop :=
  lm_get idx k = Some (-2)%Z \/ exists g, lm_get idx k = Some (Z.of_N g) /\ nth_opt tbl g = Some s.

Definition sinv (st : bstate) (SP : list text) : Prop :=
  (forall j s, nth_opt SP j = Some s -> s <> name ->
     exists g, lm_get (b_src_idx st) j = Some (Z.of_N g) /\ nth_opt (b_sources st) g = Some s) /\
  (forall j, nth_opt SP j = Some name -> pending_or (b_src_idx st) j (b_sources st) name) /\
  (forall k p, nth_opt (b_in_src_val st) k = Some p -> pending_or (b_in_src_idx st) k (b_sources st) (fst p)) /\
  NoDup (b_sources st) /\ incl (b_sources st) ALLS.

Definition ninv (st : bstate) (NP : list text) : Prop :=
  (forall j s, nth_opt NP j = Some s ->
     lm_get (b_name_val st) j = Some s /\ pending_or (b_name_idx st) j (b_names st) s) /\
  (forall k n, nth_opt (b_in_name_val st) k = Some n -> pending_or (b_in_name_idx st) k (b_names st) n) /\
  NoDup (b_names st) /\ incl (b_names st) ALLN.

Variable i0 : N.

Definition iinv (st : bstate) (ready : bool) : Prop :=
  if ready then
    b_inner_index st = Z.of_N i0 /\ b_inner_source st = original /\
    b_in_src_val st = IS /\ b_in_contents st = map snd IS /\ b_in_name_val st = IN /\
    forall L c, find_inner st (Z.of_N L) (Z.of_N c) = FI L c
  else
    b_inner_index st = (-2)%Z /\ b_inner_source st = given /\ b_lines st = [] /\ in_tables st [] [].

Lemma pending_or_app idx k tbl e s : pending_or idx k tbl s -> pending_or idx k (tbl ++ e) s.
Proof.
  intros [H|[g [H1 H2]]]; [left; exact H|right]. exists g. split; [exact H1|apply nth_opt_app_some; exact H2].
Qed.

Lemma pending_or_insert_other idx k k' v tbl s : k <> k' -> pending_or idx k tbl s ->
  pending_or (lm_insert 0%Z idx k' v) k tbl s.
Proof.
  intros Hne [H|[g [H1 H2]]].
  - left. apply lm_get_insert_other; assumption.
  - right. exists g. split; [apply lm_get_insert_other; assumption|exact H2].
Qed.

(* frames *)
Lemma sinv_frame st st' SP :
  b_sources st' = b_sources st -> b_src_idx st' = b_src_idx st ->
  b_in_src_idx st' = b_in_src_idx st -> b_in_src_val st' = b_in_src_val st ->
  sinv st SP -> sinv st' SP.
Proof. intros A B C D H. unfold sinv. rewrite A, B, C, D. exact H. Qed.

Lemma ninv_frame st st' NP :
  b_names st' = b_names st -> b_name_idx st' = b_name_idx st -> b_name_val st' = b_name_val st ->
  b_in_name_idx st' = b_in_name_idx st -> b_in_name_val st' = b_in_name_val st ->
  ninv st NP -> ninv st' NP.
Proof. intros A B C D E H. unfold ninv. rewrite A, B, C, D, E. exact H. Qed.

Lemma iinv_frame st st' ready :
  b_inner_index st' = b_inner_index st -> b_inner_source st' = b_inner_source st ->
  b_in_src_val st' = b_in_src_val st -> b_in_contents st' = b_in_contents st ->
  b_in_name_val st' = b_in_name_val st -> b_lines st' = b_lines st ->
  (ready = false -> b_in_src_idx st' = b_in_src_idx st /\ b_in_name_idx st' = b_in_name_idx st) ->
  iinv st ready -> iinv st' ready.
Proof.
  intros A B C D E F G H. unfold iinv in *. destruct ready.
  - rewrite A, B, C, D, E. destruct H as (H1 & H2 & H3 & H4 & H5 & H6).
    repeat (split; [assumption|]). intros L c. rewrite <- H6. apply find_inner_lines. exact F.
  - destruct (G eq_refl) as [G1 G2]. rewrite A, B, F. destruct H as (H1 & H2 & H3 & H4).
    repeat (split; [assumption|]). unfold in_tables in *. rewrite C, D, E, G1, G2. exact H4.
Qed.

(* ------------------------------------------------------------------ *)
(* names                                                               *)
(* ------------------------------------------------------------------ *)
Lemma ninv_set_outer st NP nm s tbl' g e :
  ninv st NP -> nth_opt NP nm = Some s -> tbl' = b_names st ++ e -> nth_opt tbl' g = Some s ->
  NoDup tbl' -> incl tbl' ALLN ->
  ninv (upd_name_idx (upd_names st tbl') (lm_insert 0%Z (b_name_idx st) nm (Z.of_N g))) NP.
Proof.
  intros (N1 & N2 & N3 & N4) Hs He Hg Hn Hi. unfold ninv. bsimp. split; [|split; [|split; assumption]].
  - intros j s' H. destruct (N1 j s' H) as [A B]. split; [exact A|].
    destruct (N.eq_dec j nm) as [->|Hne].
    + right. exists g. split; [apply lm_get_insert_same|]. rewrite Hs in H. inversion H. subst s'. exact Hg.
    + apply pending_or_insert_other; [exact Hne|]. subst tbl'. apply pending_or_app. exact B.
  - intros k n H. subst tbl'. apply pending_or_app. apply (N2 k n H).
Qed.

Lemma ninv_set_inner st NP k n tbl' g e :
  ninv st NP -> nth_opt (b_in_name_val st) k = Some n -> tbl' = b_names st ++ e -> nth_opt tbl' g = Some n ->
  NoDup tbl' -> incl tbl' ALLN ->
  ninv (upd_in_name_idx (upd_names st tbl') (lm_insert 0%Z (b_in_name_idx st) k (Z.of_N g))) NP.
Proof.
  intros (N1 & N2 & N3 & N4) Hs He Hg Hn Hi. unfold ninv. bsimp. split; [|split; [|split; assumption]].
  - intros j s' H. destruct (N1 j s' H) as [A B]. split; [exact A|]. subst tbl'. apply pending_or_app. exact B.
  - intros k' n' H. destruct (N.eq_dec k' k) as [->|Hne].
    + right. exists g. split; [apply lm_get_insert_same|]. rewrite Hs in H. inversion H. subst n'. exact Hg.
    + apply pending_or_insert_other; [exact Hne|]. subst tbl'. apply pending_or_app. apply (N2 k' n' H).
Qed.

Lemma run_if_name (fresh : bool) g n S Nn :
  (fresh = true -> g = len Nn) ->
  run (if fresh then [EName g n] else []) S Nn S (Nn ++ (if fresh then [n] else [])).
Proof.
  intros H. destruct fresh.
  - rewrite (H eq_refl). apply run_name1.
  - rewrite app_nil_r. apply R_nil.
Qed.

Lemma run_if_src (fresh : bool) g s c S Nn :
  (fresh = true -> g = len S) ->
  run (if fresh then [ESource g s c] else []) S Nn (S ++ (if fresh then [s] else [])) Nn.
Proof.
  intros H. destruct fresh.
  - rewrite (H eq_refl). apply run_src1.
  - rewrite app_nil_r. apply R_nil.
Qed.

(* the outer name nm (string s): pending -> interned now; translated -> its index *)
Lemma outer_name_spec st NP nm s :
  ninv st NP -> nth_opt NP nm = Some s -> In s ALLN ->
  exists st' g evn,
    outer_name st (Z.of_N nm) = (st', Z.of_N g, evn) /\
    nth_opt (b_names st') g = Some s /\ ninv st' NP /\ name_frame st st' /\
    run evn (b_sources st) (b_names st) (b_sources st') (b_names st') /\
    chunks_of evn = [] /\ contents_of_events evn = [].
Proof.
  intros Hinv Hs Hall. pose proof Hinv as (N1 & N2 & N3 & N4).
  destruct (N1 nm s Hs) as [Hv [Hi|[g [Hi Hg]]]]; unfold outer_name; rewrite N2Z.id, Hi.
  - rewrite Z.eqb_refl, Hv.
    destruct (intern_facts (b_names st) s ALLN N3 N4 Hall) as (tbl' & g & fresh & E & F1 & F2 & F3 & F4 & F5).
    rewrite E. eexists _, g, _. split; [reflexivity|]. bsimp.
    split; [exact F1|]. split; [apply (ninv_set_outer st NP nm s tbl' g _ Hinv Hs F4 F1 F2 F3)|].
    split; [repeat split|]. split; [rewrite F4; apply run_if_name; exact F5|].
    destruct fresh; split; reflexivity.
  - assert (E : (Z.of_N g =? -2)%Z = false) by (apply Z.eqb_neq; lia). rewrite E.
    exists st, g, []. split; [reflexivity|]. split; [exact Hg|]. split; [exact Hinv|].
    split; [apply name_frame_refl|]. split; [apply R_nil|split; reflexivity].
Qed.

Lemma pass_name_outer st NP nm s : ninv st NP -> nth_opt NP nm = Some s ->
  pass_name st (Z.of_N nm) = outer_name st (Z.of_N nm).
Proof.
  intros (N1 & _) Hs. destruct (N1 nm s Hs) as [_ Hp].
  assert (Hv : exists v, lm_get (b_name_idx st) nm = Some v).
  { destruct Hp as [H|[g [H _]]]; eexists; exact H. }
  destruct Hv as [v Hv]. unfold pass_name, outer_name.
  assert (H0 : (0 <=? Z.of_N nm)%Z = true) by (apply Z.leb_le; lia).
  rewrite H0, N2Z.id, Hv. destruct (v =? -2)%Z eqn:E; reflexivity.
Qed.

(* the inner name k (string n) *)
Lemma inner_name_spec st NP mp isrc iline icol1 k n :
  ninv st NP -> nth_opt (b_in_name_val st) k = Some n -> In n ALLN ->
  exists st' g evn,
    inner_nm st mp isrc iline icol1 (Z.of_N k) = (st', Z.of_N g, evn) /\
    nth_opt (b_names st') g = Some n /\ ninv st' NP /\ nm_frame st st' /\
    run evn (b_sources st) (b_names st) (b_sources st') (b_names st') /\
    chunks_of evn = [] /\ contents_of_events evn = [].
Proof.
  intros Hinv Hs Hall. pose proof Hinv as (N1 & N2 & N3 & N4).
  unfold inner_nm. assert (H0 : (0 <=? Z.of_N k)%Z = true) by (apply Z.leb_le; lia). rewrite H0, N2Z.id.
  destruct (N2 k n Hs) as [Hi|[g [Hi Hg]]]; rewrite Hi.
  - rewrite Z.eqb_refl. change (lm_get (b_in_name_val st) k) with (nth_opt (b_in_name_val st) k). rewrite Hs.
    destruct (intern_facts (b_names st) n ALLN N3 N4 Hall) as (tbl' & g & fresh & E & F1 & F2 & F3 & F4 & F5).
    rewrite E. eexists _, g, _. split; [reflexivity|]. bsimp.
    split; [exact F1|]. split; [apply (ninv_set_inner st NP k n tbl' g _ Hinv Hs F4 F1 F2 F3)|].
    split; [repeat split|]. split; [rewrite F4; apply run_if_name; exact F5|].
    destruct fresh; split; reflexivity.
  - assert (E : (Z.of_N g =? -2)%Z = false) by (apply Z.eqb_neq; lia). rewrite E.
    exists st, g, []. split; [reflexivity|]. split; [exact Hg|]. split; [exact Hinv|].
    split; [repeat split|]. split; [apply R_nil|split; reflexivity].
Qed.

(* ------------------------------------------------------------------ *)
(* sources                                                             *)
(* ------------------------------------------------------------------ *)
Lemma sinv_grow_parts st SP e :
  sinv st SP ->
  (forall j s, nth_opt SP j = Some s -> s <> name ->
     exists g, lm_get (b_src_idx st) j = Some (Z.of_N g) /\ nth_opt (b_sources st ++ e) g = Some s) /\
  (forall j, nth_opt SP j = Some name -> pending_or (b_src_idx st) j (b_sources st ++ e) name) /\
  (forall k p, nth_opt (b_in_src_val st) k = Some p -> pending_or (b_in_src_idx st) k (b_sources st ++ e) (fst p)).
Proof.
  intros (S1 & S2 & S3 & _). split; [|split].
  - intros j s H Hne. destruct (S1 j s H Hne) as [g [A B]]. exists g. split; [exact A|apply nth_opt_app_some; exact B].
  - intros j H. apply pending_or_app. apply (S2 j H).
  - intros k p H. apply pending_or_app. apply (S3 k p H).
Qed.

(* the inner source index k (file, content) *)
Lemma inner_src_spec st SP k file content :
  sinv st SP -> nth_opt (b_in_src_val st) k = Some (file, content) -> In file ALLS ->
  exists st' g evs,
    inner_src st (Z.of_N k) = (st', Z.of_N g, evs) /\
    nth_opt (b_sources st') g = Some file /\ sinv st' SP /\ src_frame st st' /\
    run evs (b_sources st) (b_names st) (b_sources st') (b_names st') /\
    chunks_of evs = [] /\ Forall (fun p => p = (file, content)) (contents_of_events evs).
Proof.
  intros Hinv Hs Hall. pose proof Hinv as (S1 & S2 & S3 & S4 & S5).
  unfold inner_src. rewrite N2Z.id. destruct (S3 k _ Hs) as [Hi|[g [Hi Hg]]]; rewrite Hi.
  - rewrite Z.eqb_refl. change (lm_get (b_in_src_val st) k) with (nth_opt (b_in_src_val st) k). rewrite Hs.
    destruct (intern_facts (b_sources st) file ALLS S4 S5 Hall) as (tbl' & g & fresh & E & F1 & F2 & F3 & F4 & F5).
    rewrite E. eexists _, g, _. split; [reflexivity|]. bsimp. split; [exact F1|].
    destruct (sinv_grow_parts st SP (if fresh then [file] else []) Hinv) as (G1 & G2 & G3). rewrite <- F4 in G1, G2, G3.
    split.
    { unfold sinv. bsimp. split; [exact G1|]. split; [exact G2|]. split; [|split; assumption].
      intros k' p H. destruct (N.eq_dec k' k) as [->|Hne].
      - right. exists g. split; [apply lm_get_insert_same|]. rewrite Hs in H. inversion H. subst p. exact F1.
      - apply pending_or_insert_other; [exact Hne|]. apply (G3 k' p H). }
    split; [repeat split|]. split; [rewrite F4; apply run_if_src; exact F5|].
    destruct fresh; cbn [chunks_of contents_of_events]; split; try reflexivity; repeat constructor.
  - cbn [fst] in Hg. assert (E : (Z.of_N g =? -2)%Z = false) by (apply Z.eqb_neq; lia). rewrite E.
    exists st, g, []. split; [reflexivity|]. split; [exact Hg|]. split; [exact Hinv|].
    split; [repeat split|]. split; [apply R_nil|]. split; [reflexivity|constructor].
Qed.

(* ------------------------------------------------------------------ *)
(* announcement events of the outer map                                *)
(* ------------------------------------------------------------------ *)
Lemma nth_opt_snoc_cases {A} (pre : list A) (x y : A) j : nth_opt (pre ++ [x]) j = Some y ->
  (j < len pre /\ nth_opt pre j = Some y) \/ (j = len pre /\ y = x).
Proof.
  intros H. pose proof (cs_nth_opt_lt _ _ _ H) as Hj. rewrite slen_app, slen_cons in Hj. cbn in Hj.
  destruct (N.eq_dec j (len pre)) as [->|Hn].
  - right. rewrite nth_opt_app_last in H. inversion H. split; reflexivity.
  - left. assert (j < len pre) by lia. split; [assumption|]. rewrite snth_app_l in H; assumption.
Qed.

(* a name of the outer map: recorded, pending *)
Lemma name_event st SP NP ready i n : sinv st SP -> ninv st NP -> iinv st ready -> i = len NP ->
  exists st', outer_event f name remove st (EName i n) = (st', []) /\
    sinv st' SP /\ ninv st' (NP ++ [n]) /\ iinv st' ready /\
    b_sources st' = b_sources st /\ b_names st' = b_names st.
Proof.
  intros Hs Hn Hi ->. cbn [outer_event]. eexists. split; [reflexivity|].
  split; [apply (sinv_frame st); try reflexivity; exact Hs|].
  split; [|split; [apply (iinv_frame st); try reflexivity; [intros _; split; reflexivity|exact Hi]|split; reflexivity]].
  destruct Hn as (N1 & N2 & N3 & N4). unfold ninv. bsimp. split; [|split; [exact N2|split; assumption]].
  intros j s H. destruct (nth_opt_snoc_cases _ _ _ _ H) as [[Hj Hjs]|[-> ->]].
  - destruct (N1 j s Hjs) as [A B]. split; [apply lm_get_insert_other; [lia|exact A]|].
    apply pending_or_insert_other; [lia|exact B].
  - split; [apply lm_get_insert_same|]. left. apply lm_get_insert_same.
Qed.

(* a source of the outer map other than the inner source: interned at once *)
Lemma source_event st SP NP ready i s c :
  sinv st SP -> ninv st NP -> iinv st ready -> i = len SP -> s <> name -> In s ALLS ->
  exists st' anns, outer_event f name remove st (ESource i s c) = (st', anns) /\
    sinv st' (SP ++ [s]) /\ ninv st' NP /\ iinv st' ready /\
    run anns (b_sources st) (b_names st) (b_sources st') (b_names st') /\
    chunks_of anns = [] /\ Forall (fun p => p = (s, c)) (contents_of_events anns).
Proof.
  intros Hs Hn Hi -> Hne Hall. cbn [outer_event]. rewrite (text_eqb_false _ _ Hne).
  pose proof Hs as (S1 & S2 & S3 & S4 & S5).
  destruct (intern_facts (b_sources st) s ALLS S4 S5 Hall) as (tbl' & g & fresh & E & F1 & F2 & F3 & F4 & F5).
  rewrite E. eexists _, _. split; [reflexivity|].
  destruct (sinv_grow_parts st SP (if fresh then [s] else []) Hs) as (G1 & G2 & G3). rewrite <- F4 in G1, G2, G3.
  split.
  { unfold sinv. bsimp. split; [|split; [|split; [exact G3|split; assumption]]].
    - intros j s' H Hne'. destruct (nth_opt_snoc_cases _ _ _ _ H) as [[Hj Hjs]|[-> ->]].
      + destruct (G1 j s' Hjs Hne') as [g' [A B]]. exists g'. split; [apply lm_get_insert_other; [lia|exact A]|exact B].
      + exists g. split; [apply lm_get_insert_same|exact F1].
    - intros j H. destruct (nth_opt_snoc_cases _ _ _ _ H) as [[Hj Hjs]|[-> Q]].
      + apply pending_or_insert_other; [lia|]. apply (G2 j Hjs).
      + exfalso. apply Hne. symmetry. exact Q. }
  split; [apply (ninv_frame st); try reflexivity; exact Hn|].
  split; [apply (iinv_frame st); try reflexivity; [intros _; split; reflexivity|exact Hi]|].
  bsimp. split; [rewrite F4; apply run_if_src; exact F5|].
  destruct fresh; cbn [chunks_of contents_of_events]; split; try reflexivity; repeat constructor.
Qed.


(* the inner source is announced: its index is recorded, the inner map is streamed *)
Lemma announce_inv st st' SP NP (T1 : list (text * option text)) (T2 : list text) :
  sinv st SP -> ninv st NP -> len SP = i0 ->
  b_sources st' = b_sources st -> b_src_idx st' = lm_insert 0%Z (b_src_idx st) i0 (-2)%Z ->
  b_names st' = b_names st -> b_name_idx st' = b_name_idx st -> b_name_val st' = b_name_val st ->
  in_tables st' T1 T2 ->
  sinv st' (SP ++ [name]) /\ ninv st' NP.
Proof.
  intros (S1 & S2 & S3 & S4 & S5) (N1 & N2 & N3 & N4) Hlen E1 E2 E3 E4 E5 (T11 & T12 & T13 & T14 & T15).
  split.
  - unfold sinv. rewrite E1, E2, T11, T13. split; [|split; [|split; [|split; assumption]]].
    + intros j s H Hne. destruct (nth_opt_snoc_cases _ _ _ _ H) as [[Hj Hjs]|[-> Q]]; [|contradiction].
      destruct (S1 j s Hjs Hne) as [g [A B]]. exists g. split; [apply lm_get_insert_other; [lia|exact A]|exact B].
    + intros j H. destruct (nth_opt_snoc_cases _ _ _ _ H) as [[Hj Hjs]|[-> _]].
      * apply pending_or_insert_other; [lia|]. apply (S2 j Hjs).
      * left. rewrite Hlen. apply lm_get_insert_same.
    + intros k p H. left. unfold lm_get. rewrite snth_map, H. reflexivity.
  - unfold ninv. rewrite E3, E4, E5, T14, T15. split; [exact N1|]. split; [|split; assumption].
    intros k n H. left. unfold lm_get. rewrite snth_map, H. reflexivity.
Qed.

Lemma inner_source_event st SP NP c :
  sinv st SP -> ninv st NP -> iinv st false -> len SP = i0 ->
  original = (match given with Some s => Some s | None => c end) ->
  (forall ot, original = Some ot -> ascii ot = true /\ map_consistent ot im = true) ->
  exists st', outer_event f name remove st (ESource i0 name c) = (st', []) /\
    sinv st' (SP ++ [name]) /\ ninv st' NP /\ iinv st' true /\
    b_sources st' = b_sources st /\ b_names st' = b_names st.
Proof.
  intros Hs Hn (A1 & A2 & A3 & A4) Hlen Horig Hok. cbn [outer_event]. rewrite text_eqb_refl, A2, <- Horig.
  set (st1 := upd_src_idx (upd_inner st (Z.of_N i0) original) (lm_insert 0%Z (b_src_idx st) i0 (-2)%Z)).
  assert (T1 : in_tables st1 [] []) by exact A4.
  assert (L1 : b_lines st1 = []) by exact A3.
  destruct original as [ot|] eqn:Eo.
  - destruct (Hok ot eq_refl) as [Hasc Hcons].
    destruct (inner_state cols im ot Hasc Hcons st1 L1 T1) as (O & Fi & Tb).
    change (inner_evs cols im ot) with (f ot) in *.
    set (st' := fold_left inner_event (f ot) st1) in *.
    destruct O as (O1 & O2 & O3 & O4 & O5 & O6 & O7).
    exists st'. split; [reflexivity|].
    assert (Tb' : in_tables st' IS IN).
    { unfold IS, IN, inner_on. rewrite Eo. destruct (is_nil (f ot)) eqn:Enil; cbn [negb].
      - apply is_nil_true in Enil. unfold st'. rewrite Enil. exact T1.
      - destruct Tb as [[Q _]|Q]; [rewrite Q in Enil; discriminate|exact Q]. }
    destruct (announce_inv st st' SP NP IS IN Hs Hn Hlen) as [R1 R2]; try assumption.
    split; [exact R1|]. split; [exact R2|]. split; [|split; assumption].
    destruct Tb' as (B1 & B2 & B3 & B4 & B5). unfold iinv. rewrite O6, O7.
    split; [reflexivity|]. split; [rewrite Eo; reflexivity|]. split; [exact B1|]. split; [exact B2|]. split; [exact B4|].
    intros L c0. rewrite Fi. unfold FI. rewrite Eo. reflexivity.
  - exists st1. split; [reflexivity|].
    assert (Tb' : in_tables st1 IS IN) by (unfold IS, IN, inner_on; rewrite Eo; exact T1).
    destruct (announce_inv st st1 SP NP IS IN Hs Hn Hlen) as [R1 R2]; try reflexivity; try assumption.
    split; [exact R1|]. split; [exact R2|]. split; [|split; reflexivity].
    destruct Tb' as (B1 & B2 & B3 & B4 & B5). unfold iinv.
    split; [reflexivity|]. split; [rewrite Eo; reflexivity|]. split; [exact B1|]. split; [exact B2|]. split; [exact B4|].
    intros L c0. unfold FI. rewrite Eo. apply find_inner_empty. exact L1.
Qed.


(* ------------------------------------------------------------------ *)
(* chunk events: helpers                                               *)
(* ------------------------------------------------------------------ *)
Definition name_result (N' : list text) (fni : Z) (nm : option text) : Prop :=
  match nm with
  | Some s => exists gn, fni = Z.of_N gn /\ nth_opt N' gn = Some s
  | None => fni = (-1)%Z
  end.

(* the emitted chunk, read through the tables *)
Lemma finish_mapped t mp g l c fni S' N' file nm :
  len S' < two32 -> len N' < two32 -> l < two32 -> c < two32 ->
  nth_opt S' g = Some file -> name_result N' fni nm ->
  exists mp', mk_chunk t mp (Z.of_N g) (Z.of_N l) (Z.of_N c) fni = EChunk t mp' /\
    g_line mp' = g_line mp /\ g_col mp' = g_col mp /\
    orig_ok (len S') (len N') (m_orig mp') /\
    optF (fileT S') (fileT N') (m_orig mp') = Some (mkLoc file l c nm).
Proof.
  intros HS HN Hl Hc Hg Hn. pose proof (cs_nth_opt_lt _ _ _ Hg) as Hg'.
  rewrite (mk_chunk_mapped t mp g l c fni) by lia. eexists. split; [reflexivity|].
  cbn [g_line g_col m_orig]. split; [reflexivity|]. split; [reflexivity|].
  destruct nm as [s|]; cbn [name_result] in Hn.
  - destruct Hn as [gn [-> Hgn]]. pose proof (cs_nth_opt_lt _ _ _ Hgn) as Hgn'.
    assert (H0 : (0 <=? Z.of_N gn)%Z = true) by (apply Z.leb_le; lia).
    rewrite H0, wrap32z_small by lia. split.
    + cbn [orig_ok o_src o_name]. split; assumption.
    + unfold optF, resF, fileT. cbn [o_src o_line o_col o_name]. rewrite Hg, Hgn. reflexivity.
  - subst fni. change ((0 <=? -1)%Z) with false. cbn iota. split.
    + cbn [orig_ok o_src o_name]. split; [assumption|exact I].
    + unfold optF, resF, fileT. cbn [o_src o_line o_col o_name]. rewrite Hg. reflexivity.
Qed.

Definition oname_str (o : orig) : option text :=
  match o_name o with Some n => Some (fileT N_out n) | None => None end.

(* the name of a chunk that keeps the outer name *)
Lemma name_part st o :
  ninv st N_out -> (match o_name o with Some n => n < len N_out | None => True end) ->
  exists st' fni evn,
    pass_name st (zopt (o_name o)) = (st', fni, evn) /\
    ninv st' N_out /\ name_frame st st' /\
    run evn (b_sources st) (b_names st) (b_sources st') (b_names st') /\
    chunks_of evn = [] /\ contents_of_events evn = [] /\
    name_result (b_names st') fni (oname_str o).
Proof.
  intros Hn Hr. unfold oname_str. destruct (o_name o) as [nm|]; cbn [zopt].
  - destruct (cs_nth_opt_some N_out nm Hr) as [s Hs].
    assert (Hall : In s ALLN).
    { apply in_or_app. left. unfold nth_opt in Hs. apply nth_error_In in Hs. exact Hs. }
    rewrite (pass_name_outer st N_out nm s Hn Hs).
    destruct (outer_name_spec st N_out nm s Hn Hs Hall) as (st' & g & evn & E & F1 & F2 & F3 & F4 & F5 & F6).
    exists st', (Z.of_N g), evn. split; [exact E|]. split; [exact F2|]. split; [exact F3|]. split; [exact F4|].
    split; [exact F5|]. split; [exact F6|]. cbn [name_result]. exists g. split; [reflexivity|].
    unfold fileT. rewrite Hs. exact F1.
  - rewrite pass_name_none. exists st, (-1)%Z, []. split; [reflexivity|]. split; [exact Hn|].
    split; [apply name_frame_refl|]. split; [apply R_nil|]. split; [reflexivity|]. split; reflexivity.
Qed.

Lemma line_of_N ls L : line_of ls (Z.of_N L) = if L =? 0 then None else nth_opt ls (L - 1).
Proof.
  unfold line_of. destruct (L =? 0) eqn:E.
  - apply N.eqb_eq in E. subst L. reflexivity.
  - apply N.eqb_neq in E. replace (Z.of_N L <? 1)%Z with false by (symmetry; apply Z.ltb_ge; lia).
    rewrite N2Z.id. reflexivity.
Qed.

Lemma content_lines_N st io :
  lm_get (b_in_contents st) (o_src io) = Some (content_in im (o_src io)) ->
  content_lines st (Z.of_N (o_src io)) = rc_lines im io.
Proof.
  intros H. unfold content_lines, rc_lines. rewrite N2Z.id, H. destruct (content_in im (o_src io)); reflexivity.
Qed.

(* the identity-mapping advance, on natural numbers *)
Lemma adv_col_N st mp o x mpi io :
  m_orig mp = Some o -> g_col mpi <= o_col o ->
  lm_get (b_in_contents st) (o_src io) = Some (content_in im (o_src io)) ->
  adv_col st mp (Z.of_N (g_col mpi)) (Z.of_N (o_src io)) (Z.of_N (o_line io)) (Z.of_N (o_col io))
          (zopt (o_name io)) x =
  (Z.of_N (rc_col im (o_col o) x mpi io),
   if rc_adv im (o_col o) x mpi io then (-1)%Z else zopt (o_name io)).
Proof.
  intros Eo Hle Hc. unfold adv_col, m_ocol. rewrite Eo, (content_lines_N st io Hc).
  unfold rc_col, rc_adv, rc_line.
  replace (Z.of_N (o_col o) - Z.of_N (g_col mpi))%Z with (Z.of_N (o_col o - g_col mpi)) by lia.
  replace (0 <? Z.of_N (o_col o - g_col mpi))%Z with (0 <? o_col o - g_col mpi)
    by (destruct (0 <? o_col o - g_col mpi) eqn:E;
        [apply N.ltb_lt in E; symmetry; apply Z.ltb_lt; lia|apply N.ltb_ge in E; symmetry; apply Z.ltb_ge; lia]).
  destruct (0 <? o_col o - g_col mpi); cbn [andb]; [|reflexivity].
  destruct (rc_lines im io) as [ls|]; [|reflexivity]. rewrite line_of_N.
  destruct (if o_line io =? 0 then None else nth_opt ls (o_line io - 1)) as [ln|]; [|reflexivity].
  rewrite N2Z.id. replace (Z.to_N (Z.of_N (o_col io) + Z.of_N (o_col o - g_col mpi))) with (o_col io + (o_col o - g_col mpi)) by lia.
  cbv zeta.
  match goal with |- context [opt_eqb text_eqb ?a ?b] => destruct (opt_eqb text_eqb a b) end.
  - f_equal. lia.
  - reflexivity.
Qed.


(* the name of a resolved chunk when the inner row gives none: the outer name, if the original
   text at the resolved position is that name *)
Lemma inner_nm_outer st1 mp o io col1 :
  ninv st1 N_out -> m_orig mp = Some o ->
  (match o_name o with Some n => n < len N_out | None => True end) ->
  lm_get (b_in_contents st1) (o_src io) = Some (content_in im (o_src io)) ->
  exists st2 fni evn,
    inner_nm st1 mp (Z.of_N (o_src io)) (Z.of_N (o_line io)) (Z.of_N col1) (-1)%Z = (st2, fni, evn) /\
    ninv st2 N_out /\ nm_frame st1 st2 /\
    run evn (b_sources st1) (b_names st1) (b_sources st2) (b_names st2) /\
    chunks_of evn = [] /\ contents_of_events evn = [] /\
    name_result (b_names st2) fni
      (match oname_str o, rc_lines im io with
       | Some on, Some _ =>
         let found := match rc_line im io with
                      | Some ln => substring ln col1 (Some (col1 + len on))
                      | None => [] end in
         if text_eqb on found then Some on else None
       | _, _ => None
       end).
Proof.
  intros Hn Eo Hr Hc.
  assert (Trivial : forall nm, nm = None ->
            exists st2 fni evn, (st1, (-1)%Z, @nil event) = (st2, fni, evn) /\
              ninv st2 N_out /\ nm_frame st1 st2 /\
              run evn (b_sources st1) (b_names st1) (b_sources st2) (b_names st2) /\
              chunks_of evn = [] /\ contents_of_events evn = [] /\ name_result (b_names st2) fni nm).
  { intros nm ->. exists st1, (-1)%Z, []. split; [reflexivity|]. split; [exact Hn|]. split; [repeat split|].
    split; [apply R_nil|]. split; [reflexivity|]. split; reflexivity. }
  unfold inner_nm. change ((0 <=? -1)%Z) with false. cbn iota.
  unfold m_name. rewrite Eo. unfold oname_str. destruct (o_name o) as [nmo|]; cbn [zopt].
  - assert (H0 : (0 <=? Z.of_N nmo)%Z = true) by (apply Z.leb_le; lia). rewrite H0, N2Z.id.
    destruct (cs_nth_opt_some N_out nmo Hr) as [on Hon].
    pose proof Hn as (N1 & _). destruct (N1 nmo on Hon) as [Hv _]. rewrite Hv.
    rewrite (content_lines_N st1 io Hc). unfold fileT. rewrite Hon.
    destruct (rc_lines im io) as [ls|] eqn:El; [|apply Trivial; reflexivity].
    rewrite line_of_N, N2Z.id. unfold rc_line. rewrite El. cbv zeta.
    match goal with |- context [text_eqb on ?z] => destruct (text_eqb on z) end; [|apply Trivial; reflexivity].
    assert (Hall : In on ALLN).
    { apply in_or_app. left. unfold nth_opt in Hon. apply nth_error_In in Hon. exact Hon. }
    destruct (outer_name_spec st1 N_out nmo on Hn Hon Hall) as (st' & g & evn & E & F1 & F2 & F3 & F4 & F5 & F6).
    exists st', (Z.of_N g), evn. split; [exact E|]. split; [exact F2|]. split; [apply name_frame_nm; exact F3|].
    split; [exact F4|]. split; [exact F5|]. split; [exact F6|]. exists g. split; [reflexivity|exact F1].
  - apply Trivial. reflexivity.
Qed.

Lemma inner_nm_spec st1 mp o io x mpi :
  ninv st1 N_out -> m_orig mp = Some o ->
  (match o_name o with Some n => n < len N_out | None => True end) ->
  lm_get (b_in_contents st1) (o_src io) = Some (content_in im (o_src io)) ->
  (forall n, o_name io = Some n ->
     exists s, nth_opt (b_in_name_val st1) n = Some s /\ nth_opt (sm_names im) n = Some s /\ In s ALLN) ->
  exists st2 fni evn,
    inner_nm st1 mp (Z.of_N (o_src io)) (Z.of_N (o_line io)) (Z.of_N (rc_col im (o_col o) x mpi io))
             (if rc_adv im (o_col o) x mpi io then (-1)%Z else zopt (o_name io)) = (st2, fni, evn) /\
    ninv st2 N_out /\ nm_frame st1 st2 /\
    run evn (b_sources st1) (b_names st1) (b_sources st2) (b_names st2) /\
    chunks_of evn = [] /\ contents_of_events evn = [] /\
    name_result (b_names st2) fni (rc_name im (oname_str o) (o_col o) x mpi io).
Proof.
  intros Hn Eo Hr Hc Hin. unfold rc_name.
  destruct (rc_adv im (o_col o) x mpi io) eqn:Ea.
  - apply (inner_nm_outer st1 mp o io _ Hn Eo Hr Hc).
  - destruct (o_name io) as [n|] eqn:En; cbn [zopt].
    + destruct (Hin n eq_refl) as [s [H1 [H2 H3]]].
      destruct (inner_name_spec st1 N_out mp (Z.of_N (o_src io)) (Z.of_N (o_line io))
                  (Z.of_N (rc_col im (o_col o) x mpi io)) n s Hn H1 H3)
        as (st' & g & evn & E & F1 & F2 & F3 & F4 & F5 & F6).
      exists st', (Z.of_N g), evn. split; [exact E|]. split; [exact F2|]. split; [exact F3|].
      split; [exact F4|]. split; [exact F5|]. split; [exact F6|]. rewrite H2. exists g. split; [reflexivity|exact F1].
    + apply (inner_nm_outer st1 mp o io _ Hn Eo Hr Hc).
Qed.


(* ------------------------------------------------------------------ *)
(* chunk events                                                        *)
(* ------------------------------------------------------------------ *)
Hypothesis Hi0 : nth_opt S_out i0 = Some name.
Hypothesis Huniq : forall j, nth_opt S_out j = Some name -> j = i0.
Hypothesis HboundS : len ALLS < two32.
Hypothesis HboundN : len ALLN < two32.

Definition col31 (mo : option orig) : Prop :=
  match mo with Some o => o_col o < 2147483648 | None => True end.
Definition inner_fit (mo : option orig) : Prop :=
  orig_ok (len (sm_sources im)) (len INfull) mo /\ orig_u32 mo /\ col31 mo.

Hypothesis Hinner_fit : forall ot, original = Some ot ->
  Forall (fun ch : text * mapping => inner_fit (m_orig (snd ch))) (tchunks (f ot)).

Lemma sinv_bound st SP : sinv st SP -> len (b_sources st) < two32.
Proof. intros (_ & _ & _ & H4 & H5). pose proof (nodup_incl_len _ _ H4 H5). lia. Qed.

Lemma ninv_bound st NP : ninv st NP -> len (b_names st) < two32.
Proof. intros (_ & _ & H3 & H4). pose proof (nodup_incl_len _ _ H3 H4). lia. Qed.

Lemma sinv_name_frame st st' SP : name_frame st st' -> sinv st SP -> sinv st' SP.
Proof. intros (A1 & A2 & A3 & A4 & A5 & A6 & A7 & A8 & A9 & A10 & A11). apply sinv_frame; assumption. Qed.

Lemma iinv_name_frame st st' : name_frame st st' -> iinv st true -> iinv st' true.
Proof.
  intros (A1 & A2 & A3 & A4 & A5 & A6 & A7 & A8 & A9 & A10 & A11). apply iinv_frame; try assumption. discriminate.
Qed.

Lemma sinv_nm_frame st st' SP : nm_frame st st' -> sinv st SP -> sinv st' SP.
Proof. intros (A1 & A2 & A3 & A4 & A5 & A6 & A7 & A8 & A9 & A10). apply sinv_frame; assumption. Qed.

Lemma iinv_nm_frame st st' : nm_frame st st' -> iinv st true -> iinv st' true.
Proof.
  intros (A1 & A2 & A3 & A4 & A5 & A6 & A7 & A8 & A9 & A10). apply iinv_frame; try assumption. discriminate.
Qed.

Lemma ninv_src_frame st st' NP : src_frame st st' -> ninv st NP -> ninv st' NP.
Proof. intros (A1 & A2 & A3 & A4 & A5 & A6 & A7 & A8 & A9 & A10 & A11). apply ninv_frame; assumption. Qed.

Lemma iinv_src_frame st st' : src_frame st st' -> iinv st true -> iinv st' true.
Proof.
  intros (A1 & A2 & A3 & A4 & A5 & A6 & A7 & A8 & A9 & A10 & A11). apply iinv_frame; try assumption. discriminate.
Qed.

(* the chunk that keeps the outer position and name, once its source index is known *)
Lemma mapped_tail st1 t mp o g file :
  sinv st1 S_out -> ninv st1 N_out -> iinv st1 true ->
  m_orig mp = Some o -> orig_fit (len S_out) (len N_out) (Some o) ->
  nth_opt (b_sources st1) g = Some file ->
  exists st2 evn mp',
    (let '(st2', fni, evn') := pass_name st1 (zopt (o_name o)) in
     (st2', evn' ++ [mk_chunk t mp (Z.of_N g) (Z.of_N (o_line o)) (Z.of_N (o_col o)) fni]))
      = (st2, evn ++ [EChunk t mp']) /\
    sinv st2 S_out /\ ninv st2 N_out /\ iinv st2 true /\
    run evn (b_sources st1) (b_names st1) (b_sources st2) (b_names st2) /\
    chunks_of evn = [] /\ contents_of_events evn = [] /\
    g_line mp' = g_line mp /\ g_col mp' = g_col mp /\
    orig_ok (len (b_sources st2)) (len (b_names st2)) (m_orig mp') /\
    optF (fileT (b_sources st2)) (fileT (b_names st2)) (m_orig mp') =
      Some (mkLoc file (o_line o) (o_col o) (oname_str o)).
Proof.
  intros Hs Hn Hi Eo [[Ho1 Ho2] (U1 & U2 & U3 & U4)] Hg.
  destruct (name_part st1 o Hn Ho2) as (st2 & fni & evn & E & F1 & F2 & F3 & F4 & F5 & F6).
  rewrite E. pose proof (sinv_name_frame _ _ _ F2 Hs) as Hs2.
  assert (Hg2 : nth_opt (b_sources st2) g = Some file) by (destruct F2 as (Q & _); rewrite Q; exact Hg).
  destruct (finish_mapped t mp g (o_line o) (o_col o) fni (b_sources st2) (b_names st2) file (oname_str o)
              (sinv_bound _ _ Hs2) (ninv_bound _ _ F1) U2 U3 Hg2 F6) as (mp' & M1 & M2 & M3 & M4 & M5).
  exists st2, evn, mp'. rewrite M1. split; [reflexivity|]. split; [exact Hs2|]. split; [exact F1|].
  split; [apply (iinv_name_frame _ _ F2 Hi)|]. repeat (split; [assumption|]). exact M5.
Qed.

Lemma In_nth_opt {A} (l : list A) i x : nth_opt l i = Some x -> In x l.
Proof. unfold nth_opt. apply nth_error_In. Qed.

Lemma S_out_nth j s : nth_opt S_out j = Some s -> exists c, nth_opt SPfull j = Some (s, c).
Proof.
  unfold S_out. rewrite snth_map. destruct (nth_opt SPfull j) as [[s' c]|]; [|discriminate].
  intros H. inversion H. subst. exists c. reflexivity.
Qed.

Lemma ISfull_nth k : k < len (sm_sources im) ->
  exists s, nth_opt (sm_sources im) k = Some s /\
            nth_opt ISfull k = Some (get_source im s, content_in im k).
Proof.
  intros H. destruct (cs_nth_opt_some _ _ H) as [s Hs]. exists s. split; [exact Hs|].
  unfold ISfull. rewrite src_pairs_nth, Hs, N.add_0_l. reflexivity.
Qed.

Lemma tchunks_nonempty_on ot r : original = Some ot -> In r (tchunks (f ot)) -> inner_on = true.
Proof.
  intros Eo Hin. unfold inner_on. rewrite Eo. destruct (f ot) as [|e evs]; [destruct Hin|reflexivity].
Qed.


Definition step_result (st : bstate) (t : option text) (mp : mapping) (res : bstate * list event) (a : attr) : Prop :=
  exists st' anns mp',
    res = (st', anns ++ [EChunk t mp']) /\
    sinv st' S_out /\ ninv st' N_out /\ iinv st' true /\
    run anns (b_sources st) (b_names st) (b_sources st') (b_names st') /\ chunks_of anns = [] /\
    Forall (fun p => In p FILES) (contents_of_events anns) /\
    g_line mp' = g_line mp /\ g_col mp' = g_col mp /\
    orig_ok (len (b_sources st')) (len (b_names st')) (m_orig mp') /\
    optF (fileT (b_sources st')) (fileT (b_names st')) (m_orig mp') = a.

Lemma name_in_ALLS : In name ALLS.
Proof. apply in_or_app. left. apply (In_nth_opt _ _ _ Hi0). Qed.

Lemma name_original_in_FILES : In (name, original) FILES.
Proof. unfold FILES. apply in_or_app. right. apply in_or_app. right. left. reflexivity. Qed.

(* no inner mapping: the inner source itself, or nothing *)
Lemma fallback_step st t mp o :
  sinv st S_out -> ninv st N_out -> iinv st true ->
  m_orig mp = Some o -> orig_fit (len S_out) (len N_out) (Some o) ->
  nth_opt S_out (o_src o) = Some name ->
  step_result st t mp
    (if remove then (st, [EChunk t (unmapped (g_line mp) (g_col mp))]) else fallback_chunk name st t mp)
    (rc_fallback name remove (mkLoc name (o_line o) (o_col o) (oname_str o))).
Proof.
  intros Hs Hn Hi Eo Hfit Hfile. unfold step_result, rc_fallback. destruct remove.
  - exists st, [], (unmapped (g_line mp) (g_col mp)). cbn [app].
    split; [reflexivity|]. split; [exact Hs|]. split; [exact Hn|]. split; [exact Hi|]. split; [apply R_nil|].
    split; [reflexivity|]. split; [constructor|]. split; [reflexivity|]. split; [reflexivity|]. split; [exact I|reflexivity].
  - cbn [l_line l_col l_name].
    assert (Hm : m_src mp = Z.of_N (o_src o)) by (unfold m_src; rewrite Eo; reflexivity).
    pose proof Hs as (S1 & S2 & S3 & S4 & S5). pose proof Hi as (I1 & I2 & _).
    destruct (S2 (o_src o) Hfile) as [Hp|[g [Hp Hg]]].
    + unfold fallback_chunk. rewrite Hm, N2Z.id, Hp.
      destruct (intern_facts (b_sources st) name ALLS S4 S5 name_in_ALLS) as (tbl' & g & fresh & E & F1 & F2 & F3 & F4 & F5).
      rewrite E.
      set (st1 := upd_src_idx (upd_sources st tbl') (lm_insert 0%Z (b_src_idx st) (o_src o) (Z.of_N g))).
      assert (Hs1 : sinv st1 S_out).
      { destruct (sinv_grow_parts st S_out (if fresh then [name] else []) Hs) as (G1 & G2 & G3). rewrite <- F4 in G1, G2, G3.
        unfold sinv, st1. bsimp. split; [|split; [|split; [exact G3|split; assumption]]].
        - intros j s H Hne. assert (j <> o_src o) by (intros ->; rewrite Hfile in H; inversion H; subst; contradiction).
          destruct (G1 j s H Hne) as [g' [A B]]. exists g'. split; [apply lm_get_insert_other; assumption|exact B].
        - intros j H. destruct (N.eq_dec j (o_src o)) as [->|Hne'].
          + right. exists g. split; [apply lm_get_insert_same|exact F1].
          + apply pending_or_insert_other; [exact Hne'|]. apply (G2 j H). }
      assert (Hn1 : ninv st1 N_out) by (apply (ninv_frame st); try reflexivity; exact Hn).
      assert (Hi1 : iinv st1 true) by (apply (iinv_frame st); try reflexivity; [discriminate|exact Hi]).
      rewrite (pass_chunk_mapped st1 t mp o g Eo) by (unfold st1; bsimp; apply lm_get_insert_same).
      destruct (mapped_tail st1 t mp o g name Hs1 Hn1 Hi1 Eo Hfit F1)
        as (st2 & evn & mp' & M0 & M1 & M2 & M3 & M4 & M5 & M6 & M7 & M8 & M9 & M10).
      rewrite M0. exists st2, ((if fresh then [ESource g name (b_inner_source st)] else []) ++ evn), mp'.
      split; [rewrite <- app_assoc; reflexivity|]. split; [exact M1|]. split; [exact M2|]. split; [exact M3|].
      split.
      { apply (run_app _ _ _ _ (b_sources st1) (b_names st1)); [|exact M4].
        unfold st1. bsimp. rewrite F4. apply run_if_src. exact F5. }
      split; [rewrite chunks_of_app, M5; destruct fresh; reflexivity|].
      split.
      { rewrite contents_app, M6, app_nil_r. destruct fresh; cbn [contents_of_events]; [|constructor].
        constructor; [|constructor]. rewrite I2. apply name_original_in_FILES. }
      repeat (split; [assumption|]). exact M10.
    + rewrite (fallback_chunk_other name st t mp (Z.of_N g)); [|rewrite Hm, N2Z.id; exact Hp|lia].
      rewrite (pass_chunk_mapped st t mp o g Eo Hp).
      destruct (mapped_tail st t mp o g name Hs Hn Hi Eo Hfit Hg)
        as (st2 & evn & mp' & M0 & M1 & M2 & M3 & M4 & M5 & M6 & M7 & M8 & M9 & M10).
      rewrite M0. exists st2, evn, mp'. split; [reflexivity|]. split; [exact M1|]. split; [exact M2|]. split; [exact M3|].
      split; [exact M4|]. split; [exact M5|]. split; [rewrite M6; constructor|].
      repeat (split; [assumption|]). exact M10.
Qed.


(* a chunk into another source passes through *)
Lemma pass_step st t mp o file :
  sinv st S_out -> ninv st N_out -> iinv st true ->
  m_orig mp = Some o -> orig_fit (len S_out) (len N_out) (Some o) ->
  nth_opt S_out (o_src o) = Some file -> file <> name ->
  step_result st t mp (pass_chunk st t mp) (Some (mkLoc file (o_line o) (o_col o) (oname_str o))).
Proof.
  intros Hs Hn Hi Eo Hfit Hfile Hne. pose proof Hs as (S1 & _).
  destruct (S1 _ _ Hfile Hne) as [g [Hp Hg]].
  rewrite (pass_chunk_mapped st t mp o g Eo Hp).
  destruct (mapped_tail st t mp o g file Hs Hn Hi Eo Hfit Hg)
    as (st2 & evn & mp' & M0 & M1 & M2 & M3 & M4 & M5 & M6 & M7 & M8 & M9 & M10).
  rewrite M0. exists st2, evn, mp'. split; [reflexivity|]. split; [exact M1|]. split; [exact M2|]. split; [exact M3|].
  split; [exact M4|]. split; [exact M5|]. split; [rewrite M6; constructor|].
  repeat (split; [assumption|]). exact M10.
Qed.

(* a chunk into the inner source that an inner chunk with a mapping covers *)
Lemma resolved_step st t mp o ot x mpi io :
  sinv st S_out -> ninv st N_out -> iinv st true ->
  m_orig mp = Some o -> orig_fit (len S_out) (len N_out) (Some o) -> col31 (Some o) ->
  original = Some ot -> last_at (tchunks (f ot)) (o_line o) (o_col o) None = Some (x, mpi) ->
  m_orig mpi = Some io ->
  step_result st t mp
    (resolved_chunk st t mp (Z.of_N (g_col mpi), Z.of_N (o_src io), Z.of_N (o_line io), Z.of_N (o_col io),
                             zopt (o_name io), x))
    (Some (rc_row im (mkLoc name (o_line o) (o_col o) (oname_str o)) x mpi io)).
Proof.
  intros Hs Hn Hi Eo Hfit Hc31 Eorig Hlast Eio. pose proof Hi as (I1 & I2 & I3 & I4 & I5 & I6).
  destruct Hfit as [[Ho1 Ho2] (U1 & U2 & U3 & U4)]. cbn [col31] in Hc31.
  destruct (last_at_some _ _ _ _ _ Hlast) as [Q|[Hin [_ Hle]]]; [discriminate|]. cbn [snd] in Hle.
  pose proof (Hinner_fit ot Eorig) as Hf. rewrite Forall_forall in Hf. specialize (Hf _ Hin). cbn [snd] in Hf.
  rewrite Eio in Hf. destruct Hf as [[Hk1 Hk2] [(V1 & V2 & V3 & V4) V5]]. cbn [col31] in V5.
  pose proof (tchunks_nonempty_on ot _ Eorig Hin) as Hon.
  assert (HIS : IS = ISfull) by (unfold IS; rewrite Hon; reflexivity).
  assert (HIN : IN = INfull) by (unfold IN; rewrite Hon; reflexivity).
  destruct (ISfull_nth (o_src io) Hk1) as [s [Hs1 Hs2]].
  assert (Hfile : ChkCombined.file_of im io = get_source im s) by (unfold ChkCombined.file_of; rewrite Hs1; reflexivity).
  assert (Hval : nth_opt (b_in_src_val st) (o_src io) = Some (get_source im s, content_in im (o_src io)))
    by (rewrite I3, HIS; exact Hs2).
  assert (Hcont : lm_get (b_in_contents st) (o_src io) = Some (content_in im (o_src io))).
  { unfold lm_get. rewrite I4, HIS, snth_map, Hs2. reflexivity. }
  assert (HinS : In (get_source im s) ALLS).
  { apply in_or_app. right. apply (in_map fst _ _ (In_nth_opt _ _ _ Hs2)). }
  unfold resolved_chunk. rewrite (adv_col_N st mp o x mpi io Eo Hle Hcont).
  destruct (inner_src_spec st S_out (o_src io) _ _ Hs Hval HinS) as (st1 & g & evs & E1 & G1 & G2 & G3 & G4 & G5 & G6).
  rewrite E1.
  pose proof (ninv_src_frame _ _ _ G3 Hn) as Hn1. pose proof (iinv_src_frame _ _ G3 Hi) as Hi1.
  pose proof G3 as (A1 & A2 & A3 & A4 & A5 & A6 & A7 & A8 & A9 & A10 & A11).
  assert (Hcont1 : lm_get (b_in_contents st1) (o_src io) = Some (content_in im (o_src io))) by (rewrite A9; exact Hcont).
  assert (Hnames : forall n, o_name io = Some n ->
            exists s', nth_opt (b_in_name_val st1) n = Some s' /\ nth_opt (sm_names im) n = Some s' /\ In s' ALLN).
  { intros n En. rewrite En in Hk2. destruct (cs_nth_opt_some INfull n Hk2) as [s' Hs'].
    exists s'. rewrite A11, I5, HIN. split; [exact Hs'|]. split.
    - unfold INfull in Hs'. remember cols as cb eqn:Ecb in Hs'.
      destruct cb; [exact Hs'|rewrite nth_opt_nil in Hs'; discriminate].
    - apply in_or_app. right. apply (In_nth_opt _ _ _ Hs'). }
  destruct (inner_nm_spec st1 mp o io x mpi Hn1 Eo Ho2 Hcont1 Hnames)
    as (st2 & fni & evn & E2 & K1 & K2 & K3 & K4 & K5 & K6).
  rewrite E2.
  pose proof (sinv_nm_frame _ _ _ K2 G2) as Hs2'. pose proof (iinv_nm_frame _ _ K2 Hi1) as Hi2.
  assert (Hg2 : nth_opt (b_sources st2) g = Some (get_source im s)) by (destruct K2 as (Q & _); rewrite Q; exact G1).
  assert (Hcol : rc_col im (o_col o) x mpi io < two32).
  { unfold rc_col, two32. destruct (rc_adv im (o_col o) x mpi io); lia. }
  destruct (finish_mapped t mp g (o_line io) (rc_col im (o_col o) x mpi io) fni (b_sources st2) (b_names st2)
              (get_source im s) (rc_name im (oname_str o) (o_col o) x mpi io)
              (sinv_bound _ _ Hs2') (ninv_bound _ _ K1) V2 Hcol Hg2 K6) as (mp' & M1 & M2 & M3 & M4 & M5).
  exists st2, (evs ++ evn), mp'. rewrite M1.
  split; [rewrite <- app_assoc; reflexivity|]. split; [exact Hs2'|]. split; [exact K1|]. split; [exact Hi2|].
  split; [apply (run_app _ _ _ _ (b_sources st1) (b_names st1)); assumption|].
  split; [rewrite chunks_of_app, G5, K4; reflexivity|].
  split.
  { rewrite contents_app, K5, app_nil_r. eapply Forall_impl; [|exact G6]. cbn beta. intros p ->.
    unfold FILES. apply in_or_app. right. apply in_or_app. left. apply (In_nth_opt _ _ _ Hs2). }
  split; [exact M2|]. split; [exact M3|]. split; [exact M4|].
  rewrite M5. unfold rc_row. cbn [l_col l_name]. rewrite Hfile. reflexivity.
Qed.

(* T1, one chunk: announcements, then one chunk with the same text and generated position
   whose resolved attribution is resolve_combined of the outer one *)
Theorem chunk_step st t mp :
  sinv st S_out -> ninv st N_out -> iinv st true ->
  orig_fit (len S_out) (len N_out) (m_orig mp) -> col31 (m_orig mp) ->
  step_result st t mp (outer_event f name remove st (EChunk t mp))
    (resolve_combined cols m im name given remove (optF (fileT S_out) (fileT N_out) (m_orig mp))).
Proof.
  intros Hs Hn Hi Hfit Hc31. pose proof Hi as (I1 & I2 & I3 & I4 & I5 & I6).
  cbn [outer_event]. rewrite outer_chunk_eq.
  destruct (m_orig mp) as [o|] eqn:Eo.
  2: { assert (H0 : (m_src mp =? b_inner_index st)%Z = false).
       { unfold m_src. rewrite Eo, I1. apply Z.eqb_neq. lia. }
       rewrite H0, (pass_chunk_unmapped st t mp Eo).
       exists st, [], (unmapped (g_line mp) (g_col mp)). cbn [app].
       split; [reflexivity|]. split; [exact Hs|]. split; [exact Hn|]. split; [exact Hi|]. split; [apply R_nil|].
       split; [reflexivity|]. split; [constructor|]. split; [reflexivity|]. split; [reflexivity|].
       split; [exact I|reflexivity]. }
  pose proof Hfit as [[Ho1 Ho2] Hu].
  assert (Hm : m_src mp = Z.of_N (o_src o)) by (unfold m_src; rewrite Eo; reflexivity).
  rewrite Hm, I1, Zeqb_of_N.
  destruct (cs_nth_opt_some S_out (o_src o) Ho1) as [file Hfile].
  assert (Hout : optF (fileT S_out) (fileT N_out) (Some o) = Some (mkLoc file (o_line o) (o_col o) (oname_str o))).
  { unfold optF, resF, oname_str. unfold fileT at 1. rewrite Hfile. reflexivity. }
  rewrite Hout. cbn [resolve_combined l_file].
  destruct (o_src o =? i0) eqn:Ei.
  - apply N.eqb_eq in Ei. assert (file = name) by (rewrite Ei, Hi0 in Hfile; inversion Hfile; reflexivity). subst file.
    rewrite text_eqb_refl. unfold rc_inner. fold original. cbn [l_line l_col].
    unfold resolve, m_oline, m_ocol. rewrite Eo, I6. unfold FI.
    case_eq original; [intros ot Eorig|intros Eorig; apply (fallback_step st t mp o Hs Hn Hi Eo Hfit Hfile)].
    change (inner_chunks cols im ot) with (tchunks (f ot)).
    destruct (last_at (tchunks (f ot)) (o_line o) (o_col o) None) as [[x mpi]|] eqn:Hlast;
      [|apply (fallback_step st t mp o Hs Hn Hi Eo Hfit Hfile)].
    unfold row_of. destruct (m_orig mpi) as [io|] eqn:Eio.
    + assert (H0 : (0 <=? Z.of_N (o_src io))%Z = true) by (apply Z.leb_le; lia). rewrite H0.
      apply (resolved_step st t mp o ot x mpi io Hs Hn Hi Eo Hfit Hc31 Eorig Hlast Eio).
    + change ((0 <=? -1)%Z) with false. cbn iota. apply (fallback_step st t mp o Hs Hn Hi Eo Hfit Hfile).
  - apply N.eqb_neq in Ei.
    assert (Hne : file <> name) by (intros ->; apply Ei; apply Huniq; exact Hfile).
    rewrite (text_eqb_false _ _ Hne). apply (pass_step st t mp o file Hs Hn Hi Eo Hfit Hfile Hne).
Qed.


End Step.

Print Assumptions name_event.
Print Assumptions source_event.
Print Assumptions inner_source_event.
Print Assumptions chunk_step.
