(* The SourceMap <-> JSON schema of Sem/Json.v:
   J3  of_doc inverts to_doc up to norm_map, also through print / parse,
   J4  of_doc looks only at the seven known keys (first occurrence), so it is
       insensitive to unknown keys and to key order, and reads null entries of
       string arrays as empty strings. *)
From RS Require Import Base.Prelude Base.Text Rope.RopeModel Sem.Json Proofs.JsonParse.
Require Import Lia List Permutation.

(* ------------------------------------------------------------------ *)
(* J3: schema round trip                                               *)
(* ------------------------------------------------------------------ *)

Definition doc_fields (m : smap) : list (text * json) :=
  [(k_version, JNum [51])]
    ++ opt_field k_file (sm_file m)
    ++ [(k_sources, JArr (map JStr (sm_sources m)))]
    ++ (if all_empty (sm_contents m) then [] else [(k_sources_content, JArr (map JStr (sm_contents m)))])
    ++ [(k_names, JArr (map JStr (sm_names m))); (k_mappings, JStr (sm_mappings m))]
    ++ opt_field k_source_root (sm_root m)
    ++ opt_field k_debug_id (sm_debug m).

Lemma to_doc_fields (m : smap) : to_doc m = JObj (doc_fields m).
Proof. reflexivity. Qed.

Ltac field_cases m :=
  destruct m as [file mp srcs cts nms root dbg]; unfold doc_fields;
  cbn [sm_file sm_mappings sm_sources sm_contents sm_names sm_root sm_debug];
  destruct file, root, dbg, (all_empty cts); reflexivity.

Lemma field_mappings m : field k_mappings (doc_fields m) = Some (JStr (sm_mappings m)).
Proof. field_cases m. Qed.

Lemma field_file m :
  field k_file (doc_fields m) = match sm_file m with Some s => Some (JStr s) | None => None end.
Proof. field_cases m. Qed.

Lemma field_sources m : field k_sources (doc_fields m) = Some (JArr (map JStr (sm_sources m))).
Proof. field_cases m. Qed.

Lemma field_sources_content m :
  field k_sources_content (doc_fields m)
  = if all_empty (sm_contents m) then None else Some (JArr (map JStr (sm_contents m))).
Proof. field_cases m. Qed.

Lemma field_names m : field k_names (doc_fields m) = Some (JArr (map JStr (sm_names m))).
Proof. field_cases m. Qed.

Lemma field_source_root m :
  field k_source_root (doc_fields m) = match sm_root m with Some s => Some (JStr s) | None => None end.
Proof. field_cases m. Qed.

Lemma field_debug_id m :
  field k_debug_id (doc_fields m) = match sm_debug m with Some s => Some (JStr s) | None => None end.
Proof. field_cases m. Qed.

Lemma strings_or_null_strs (l : list text) : strings_or_null (map JStr l) = Some l.
Proof.
  induction l as [|x l IH]; [reflexivity|].
  cbn [map strings_or_null]. rewrite IH. reflexivity.
Qed.

Lemma opt_string_of_option (o : option text) :
  opt_string (match o with Some s => Some (JStr s) | None => None end) = Some o.
Proof. destruct o; reflexivity. Qed.

(* J3 *)
Theorem of_doc_to_doc (m : smap) : of_doc (to_doc m) = Some (norm_map m).
Proof.
  rewrite to_doc_fields. unfold of_doc.
  rewrite field_mappings, field_file, field_sources, field_sources_content,
    field_names, field_source_root, field_debug_id.
  rewrite !opt_string_of_option.
  cbn [opt_strings]. rewrite !strings_or_null_strs.
  unfold norm_map.
  destruct (all_empty (sm_contents m)).
  - reflexivity.
  - cbn [opt_strings]. rewrite strings_or_null_strs. reflexivity.
Qed.

Lemma wf_json_strs (l : list text) : wf_json (JArr (map JStr l)).
Proof.
  apply wf_json_arr. apply Forall_forall. intros x Hx.
  apply in_map_iff in Hx. destruct Hx as (s & <- & _). exact I.
Qed.

Lemma wf_opt_field (k : text) (o : option text) :
  Forall (fun kv => wf_json (snd kv)) (opt_field k o).
Proof. destruct o; repeat constructor. Qed.

Lemma wf_to_doc (m : smap) : wf_json (to_doc m).
Proof.
  rewrite to_doc_fields. apply wf_json_obj. unfold doc_fields.
  repeat (apply Forall_app; split); try apply wf_opt_field.
  - constructor; [|constructor]. cbn [snd]. split; [discriminate | reflexivity].
  - constructor; [|constructor]. apply wf_json_strs.
  - destruct (all_empty (sm_contents m)); constructor; [|constructor]. apply wf_json_strs.
  - constructor; [apply wf_json_strs|]. constructor; [exact I | constructor].
Qed.

Theorem schema_roundtrip (m : smap) :
  parse (print (to_doc m)) = Some (to_doc m) /\ of_doc (to_doc m) = Some (norm_map m).
Proof.
  split; [apply parse_print, wf_to_doc | apply of_doc_to_doc].
Qed.

Theorem json_roundtrip (m : smap) :
  match parse (print (to_doc m)) with Some d => of_doc d | None => None end = Some (norm_map m).
Proof.
  rewrite (parse_print _ (wf_to_doc m)). apply of_doc_to_doc.
Qed.

Theorem norm_map_idem (m : smap) : norm_map (norm_map m) = norm_map m.
Proof.
  destruct m as [file mp srcs cts nms root dbg]. unfold norm_map.
  cbn [sm_file sm_mappings sm_sources sm_contents sm_names sm_root sm_debug].
  destruct (all_empty cts) eqn:E.
  - reflexivity.
  - rewrite E. reflexivity.
Qed.

(* sourcesContent is empty after the round trip iff all entries were empty *)
Theorem norm_map_contents_nil (m : smap) :
  sm_contents (norm_map m) = [] <-> all_empty (sm_contents m) = true.
Proof.
  unfold norm_map. cbn [sm_contents].
  destruct (all_empty (sm_contents m)) eqn:E.
  - split; reflexivity.
  - split; [|discriminate]. intros H. rewrite H in E. discriminate E.
Qed.

(* everything else survives the round trip unchanged *)
Theorem norm_map_id (m : smap) : all_empty (sm_contents m) = false -> norm_map m = m.
Proof.
  intros E. destruct m as [file mp srcs cts nms root dbg]. unfold norm_map.
  cbn [sm_file sm_mappings sm_sources sm_contents sm_names sm_root sm_debug] in *.
  rewrite E. reflexivity.
Qed.

(* ------------------------------------------------------------------ *)
(* J4: reading documents                                               *)
(* ------------------------------------------------------------------ *)

Definition known_keys : list text :=
  [k_mappings; k_file; k_sources; k_sources_content; k_names; k_source_root; k_debug_id].

(* of_doc depends only on the first occurrence of each of the seven known keys *)
Theorem of_doc_fields_only (l l' : list (text * json)) :
  (forall k, In k known_keys -> field k l = field k l') ->
  of_doc (JObj l) = of_doc (JObj l').
Proof.
  intros H. unfold of_doc.
  rewrite (H k_mappings), (H k_file), (H k_sources), (H k_sources_content),
    (H k_names), (H k_source_root), (H k_debug_id); [reflexivity | | | | | | |];
    unfold known_keys; cbn [In]; tauto.
Qed.

(* null entries of a string array read as empty strings *)
Theorem strings_or_null_opts (xs : list (option text)) :
  strings_or_null (map (fun o => match o with Some s => JStr s | None => JNull end) xs)
  = Some (map (fun o => match o with Some s => s | None => [] end) xs).
Proof.
  induction xs as [|[s|] xs IH]; [reflexivity | |];
    cbn [map strings_or_null]; rewrite IH; reflexivity.
Qed.

(* null / missing scalars and arrays *)
Lemma opt_string_null : opt_string (Some JNull) = Some None /\ opt_string None = Some None.
Proof. split; reflexivity. Qed.
Lemma opt_strings_null : opt_strings (Some JNull) = Some [] /\ opt_strings None = Some [].
Proof. split; reflexivity. Qed.

Lemma text_eqb_eq (a b : text) : text_eqb a b = true <-> a = b.
Proof.
  revert b. induction a as [|x a IH]; intros [|y b]; cbn [text_eqb];
    try (split; [discriminate | discriminate]); [tauto|].
  rewrite andb_true_iff, N.eqb_eq, IH. split.
  - intros [-> ->]. reflexivity.
  - intros E. inversion E. auto.
Qed.

Lemma text_eqb_neq (a b : text) : a <> b -> text_eqb a b = false.
Proof.
  intros H. destruct (text_eqb a b) eqn:E; [|reflexivity].
  apply text_eqb_eq in E. contradiction.
Qed.

Lemma text_eqb_refl (a : text) : text_eqb a a = true.
Proof. apply text_eqb_eq. reflexivity. Qed.

Lemma field_cons_neq (k k' : text) (v : json) (l : list (text * json)) :
  k <> k' -> field k ((k', v) :: l) = field k l.
Proof. intros H. cbn [field]. rewrite (text_eqb_neq _ _ H). reflexivity. Qed.

Lemma field_app_neq (k k' : text) (v : json) (l1 l2 : list (text * json)) :
  k <> k' -> field k (l1 ++ (k', v) :: l2) = field k (l1 ++ l2).
Proof.
  intros H. induction l1 as [|[k1 v1] l1 IH].
  - apply field_cons_neq. exact H.
  - cbn [app field]. rewrite IH. reflexivity.
Qed.

(* an entry under an unknown key, anywhere in the object, is ignored *)
Theorem of_doc_unknown_key (k' : text) (v : json) (l1 l2 : list (text * json)) :
  ~ In k' known_keys ->
  of_doc (JObj (l1 ++ (k', v) :: l2)) = of_doc (JObj (l1 ++ l2)).
Proof.
  intros H. apply of_doc_fields_only. intros k Hk.
  apply field_app_neq. intros ->. contradiction.
Qed.

Lemma field_not_in (k : text) (l : list (text * json)) :
  ~ In k (map fst l) -> field k l = None.
Proof.
  induction l as [|[k1 v1] l IH]; [reflexivity|].
  cbn [map fst In]. intros H. rewrite field_cons_neq by (intros ->; tauto).
  apply IH. tauto.
Qed.

(* without duplicate keys, field lookup does not depend on the order of members *)
Lemma field_perm (k : text) (l l' : list (text * json)) :
  Permutation l l' -> NoDup (map fst l) -> field k l = field k l'.
Proof.
  induction 1 as [| [k1 v1] l l' HP IH | [k1 v1] [k2 v2] l | l l' l'' HP1 IH1 HP2 IH2]; intros ND.
  - reflexivity.
  - cbn [map fst] in ND. inversion ND; subst. cbn [field]. rewrite IH by assumption. reflexivity.
  - cbn [map fst] in ND. inversion ND as [|? ? Hn _]; subst.
    cbn [field].
    destruct (text_eqb k k2) eqn:E2, (text_eqb k k1) eqn:E1; try reflexivity.
    apply text_eqb_eq in E1, E2. subst. exfalso. apply Hn. left. reflexivity.
  - rewrite IH1 by assumption. apply IH2.
    eapply Permutation_NoDup; [|exact ND]. apply Permutation_map. exact HP1.
Qed.

Theorem of_doc_perm (l l' : list (text * json)) :
  Permutation l l' -> NoDup (map fst l) -> of_doc (JObj l) = of_doc (JObj l').
Proof.
  intros HP ND. apply of_doc_fields_only. intros k _. apply field_perm; assumption.
Qed.

(* the printed document has no duplicate keys, so any reordering of it reads the same *)
Lemma doc_fields_nodup (m : smap) : NoDup (map fst (doc_fields m)).
Proof.
  destruct m as [file mp srcs cts nms root dbg]. unfold doc_fields.
  cbn [sm_file sm_mappings sm_sources sm_contents sm_names sm_root sm_debug].
  destruct file, root, dbg, (all_empty cts); cbn [opt_field app map fst];
    repeat (constructor; [cbn [In]; intros H; repeat (destruct H as [H|H]; [discriminate H|]); exact H|]);
    constructor.
Qed.

Theorem of_doc_reordered (m : smap) (l' : list (text * json)) :
  Permutation (doc_fields m) l' -> of_doc (JObj l') = Some (norm_map m).
Proof.
  intros HP. rewrite <- (of_doc_perm _ _ HP (doc_fields_nodup m)).
  rewrite <- to_doc_fields. apply of_doc_to_doc.
Qed.

Print Assumptions of_doc_to_doc.
Print Assumptions schema_roundtrip.
Print Assumptions json_roundtrip.
Print Assumptions norm_map_idem.
Print Assumptions norm_map_contents_nil.
Print Assumptions of_doc_fields_only.
Print Assumptions strings_or_null_opts.
Print Assumptions of_doc_unknown_key.
Print Assumptions of_doc_perm.
Print Assumptions of_doc_reordered.
