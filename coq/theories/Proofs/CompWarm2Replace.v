(* C06 over warm caches AND combined-map leaves, part 1 (K2): ALL ReplaceSource clauses
   (9, 4, 5, 6) of chk_C06 on the model's own observations (Api/ApiCheck.v: api_comp) for a
   ReplaceSource whose inner tree contains CachedSource nodes in ANY warm state and leaves that
   may be SourceMapSources WITH an inner map (class `cls2` of WarmCombDefs.v, every cache id
   once).  CompWarmReplace.v re-run over the invariant `TX2` of a text-carrying stream over a
   `SoundW` store (WarmCombWf.warmW_all).  As there, the shape of known finding K2 (the
   ReplaceSource itself has replacements above a warm CachedSource) is INSIDE the statement:
   the checker's reference is computed from the inner source's own observed stream. *)
From RS Require Import Base.Prelude Base.Text Rope.RopeModel Codec.Vlq Codec.CodecSpec
  Stream.Types Stream.Leaves Stream.Concat Stream.Replace Stream.Combined Stream.Tree
  Api.ApiTree Sem.Attr Sem.HashEq Api.ApiHist Checkers.ChkTree Checkers.ChkHist Checkers.ChkComp Api.ApiCheck
  Proofs.StreamText Proofs.StreamLeaves Proofs.StreamConcat Proofs.StreamTree
  Proofs.WfStream Proofs.WfFinal Proofs.ReplaceSort Proofs.ReplaceText
  Proofs.RStreamText Proofs.RStreamPos Proofs.RStreamTree
  Proofs.AttrCodec Proofs.AttrSms Proofs.LawConcatAttr Proofs.LawWrappers
  Proofs.ReplAttrRef Proofs.ReplAttrStream Proofs.ReplAttrOrigin Proofs.ReplAttrCols Proofs.ReplAttrTree
  Proofs.LinesBase Proofs.CompLinesBridge Proofs.CompLinesConcat Proofs.CompLinesReplace Proofs.CompLinesTree
  Proofs.ColdCache Proofs.ColdCacheTree Proofs.BoundsPos Proofs.BoundsOrig
  Proofs.CombLeafTree Proofs.WarmTreeDefs
  Proofs.WarmCombBounds Proofs.WarmCombDefs Proofs.WarmCombMain Proofs.WarmCombHist Proofs.WarmCombWf
  Proofs.CompWarmReplace.
Require Import Lia List.
Import ListNotations.

Local Open Scope N_scope.

(* ------------------------------------------------------------------ *)
(* what a text-carrying stream over a sound store offers                *)
(* ------------------------------------------------------------------ *)
Lemma evb_contents_small2 (evs : list event) : Forall (evb KB2) evs -> contents_small evs = true.
Proof.
  intros H. unfold contents_small. induction H as [|e evs He _ IH]; [reflexivity|].
  destruct e as [t m|i n c|i n]; cbn [contents_of_events]; try exact IH.
  cbn [forallb snd]. rewrite IH, andb_true_r. destruct c as [c|]; [|reflexivity].
  cbn [evb] in He. apply N.ltb_lt. unfold KB2, two32 in *. lia.
Qed.

Lemma TX2_inner_facts c s r : TX2 c s r -> inner_facts (fst r) (snd r) (source s).
Proof.
  intros [[Hd [Hr [Hw [Hn [_ [Hi [_ [Hb _]]]]]]]] Hne]. constructor.
  - apply reassembles_iff. exact Hr.
  - exact Hne.
  - exact Hd.
  - exact Hw.
  - apply chunks_nl_last_iff. exact Hn.
  - exact Hi.
  - apply evb_contents_small2. exact Hb.
Qed.

(* ------------------------------------------------------------------ *)
(* the clauses, over any SoundW store                                   *)
(* ------------------------------------------------------------------ *)
Section Clauses.
Variable inner : src.
Variable rs : list repl.
Hypothesis Hd : ids_distinct inner.
Hypothesis Hcl : cls2 inner.
Hypothesis HA : treeA (SReplace inner rs) = true.

Let W2 := warmW_all inner Hd inner (incl_refl _) Hcl.

Lemma warm_inner_facts2 (st : store) (c : bool) : SoundW st inner ->
  let r := stream st inner (mkOpts c false) in
  inner_facts (fst (fst r)) (snd (fst r)) (source inner).
Proof.
  intros Hs. cbn zeta. destruct W2 as [A _]. destruct (A st c Hs) as [T _].
  apply (TX2_inner_facts c inner _ T).
Qed.

Lemma repls_ordered2 : Forall (fun r => r_start r <= r_end r) rs.
Proof. destruct (treeA_replace_inv inner rs HA) as [_ Hrs]. apply (repl_ok_ordered _ _ Hrs). Qed.

(* clause 4 *)
Theorem replace_warm_attr2 (st : store) : SoundW st inner ->
  let c10 := fst (fst (stream st (SReplace inner rs) (mkOpts true false))) in
  let k10 := fst (fst (stream st inner (mkOpts true false))) in
  bindings_consistent (contents_of_events k10) = true ->
  attr_of_stream c10 true = replace_reference k10 rs.
Proof.
  intros Hs c10 k10 Hb. pose proof (warm_inner_facts2 st true Hs) as F. cbn zeta in F. fold k10 in F.
  unfold c10, k10 in *. rewrite stream_replace_eq.
  destruct (stream st inner (mkOpts true false)) as [[ievs gi] st1]. cbn [fst snd] in *.
  destruct F as [Fr Fne Fd _ _ _ Fs].
  apply (replace_attr_full rs ievs (source inner) gi repls_ordered2 Fr Fne Fd Hb Fs).
Qed.

(* clause 6 *)
Theorem replace_warm_lines2 (st : store) : SoundW st inner ->
  len (source inner) + len (concat (map r_content rs)) + 1 < 4294967296 ->
  let c00 := fst (fst (stream st (SReplace inner rs) (mkOpts false false))) in
  let k00 := fst (fst (stream st inner (mkOpts false false))) in
  attr_of_stream c00 false
  = line_first_bytes (source (SReplace inner rs)) (replace_reference k00 rs) None 0 [].
Proof.
  intros Hs Hsz c00 k00. pose proof (warm_inner_facts2 st false Hs) as F. cbn zeta in F. fold k00 in F.
  unfold c00, k00 in *. rewrite stream_replace_eq.
  destruct (stream st inner (mkOpts false false)) as [[ievs gi] st1]. cbn [fst snd] in *.
  destruct F as [Fr Fne Fd Fw Fn Fg _]. subst gi.
  apply (replace_lines_attr rs ievs (source inner) repls_ordered2 Fr Fw Fn Fne Fd Hsz).
Qed.

End Clauses.

(* ------------------------------------------------------------------ *)
(* the checker on the model's own observations                          *)
(* ------------------------------------------------------------------ *)
Theorem C06_replace_warm2_checker (inner : src) (rs : list repl) (ws : list (N * wop)) :
  ids_distinct inner -> cls2 inner -> treeA (SReplace inner rs) = true ->
  len (source inner) + len (concat (map r_content rs)) + 1 < 4294967296 ->
  let '(c10, c00, k10, k00) := api_comp (SReplace inner rs) ws in
  chk_C06 (SReplace inner rs) (source (SReplace inner rs)) c10 c00 k10 k00 =
  if bindings_consistent (flat_map contents_of_events k10) then 0 else 100.
Proof.
  intros Hd Hcl HA Hsz. pose proof (api_comp_replace_warm inner rs ws) as E. cbn zeta in E. rewrite E.
  pose proof (warm_soundW inner Hd Hcl ws [] (soundW_empty inner)) as Hs.
  set (st := run_warm [] inner ws) in *.
  pose proof (replace_warm_attr2 inner rs Hd Hcl HA st Hs) as C4.
  pose proof (replace_warm_contents inner rs st) as C5.
  pose proof (replace_warm_lines2 inner rs Hd Hcl HA st Hs Hsz) as C6. cbn zeta in C4, C5, C6.
  unfold chk_C06. rewrite HA. cbn [negb flat_map]. rewrite app_nil_r.
  destruct (bindings_consistent _) eqn:Hb; cbn [negb]; [|reflexivity].
  rewrite (C4 eq_refl), (list_eqb_attr_refl attr_eqb attr_eqb_refl). cbn [negb].
  rewrite C5. cbn [negb].
  rewrite C6, (list_eqb_attr_refl attr_eqb_fl attr_eqb_fl_refl). reflexivity.
Qed.

(* inside the checker's domain the verdict is 0 *)
Theorem C06_replace_warm2 (inner : src) (rs : list repl) (ws : list (N * wop)) :
  ids_distinct inner -> cls2 inner -> treeA (SReplace inner rs) = true ->
  len (source inner) + len (concat (map r_content rs)) + 1 < 4294967296 ->
  let '(c10, c00, k10, k00) := api_comp (SReplace inner rs) ws in
  bindings_consistent (flat_map contents_of_events k10) = true ->
  chk_C06 (SReplace inner rs) (source (SReplace inner rs)) c10 c00 k10 k00 = 0.
Proof.
  intros Hd Hcl HA Hsz. pose proof (C06_replace_warm2_checker inner rs ws Hd Hcl HA Hsz) as K.
  destruct (api_comp (SReplace inner rs) ws) as [[[c10 c00] k10] k00]. intros Hb. rewrite Hb in K. exact K.
Qed.

(* the size hypothesis follows from `tiny2` of the whole composite *)
Lemma tiny2_replace_size (inner : src) (rs : list repl) :
  treeA (SReplace inner rs) = true -> tiny2 (uncache (SReplace inner rs)) = true ->
  len (source inner) + len (concat (map r_content rs)) + 1 < 4294967296.
Proof.
  intros HA HT. destruct (tiny2_parts _ HT) as [T1 _]. cbn [uncache tsize] in T1.
  pose proof (treeA_replace_in inner rs HA) as HAi.
  pose proof (len_source_le (uncache inner) (treeA_wf _ (treeA_uncache inner HAi))) as L.
  rewrite uncache_source in L. unfold KB in T1. lia.
Qed.

(* K2 *)
Corollary C06_replace_warm2_tiny (inner : src) (rs : list repl) (ws : list (N * wop)) :
  ids_distinct inner -> k2_shape inner = false -> rshape2 (uncache inner) = true ->
  treeA (SReplace inner rs) = true -> tiny2 (uncache (SReplace inner rs)) = true ->
  let '(c10, c00, k10, k00) := api_comp (SReplace inner rs) ws in
  bindings_consistent (flat_map contents_of_events k10) = true ->
  chk_C06 (SReplace inner rs) (source (SReplace inner rs)) c10 c00 k10 k00 = 0.
Proof.
  intros Hd Hk Hsh HA HT.
  apply C06_replace_warm2; [exact Hd| |exact HA|apply (tiny2_replace_size inner rs HA HT)].
  apply tiny2_cls2; [exact Hk|exact Hsh|apply (treeA_replace_in inner rs HA)|].
  apply (tiny2_replace_inner (uncache inner) rs). exact HT.
Qed.

Print Assumptions replace_warm_attr2.
Print Assumptions replace_warm_lines2.
Print Assumptions C06_replace_warm2_checker.
Print Assumptions C06_replace_warm2.
Print Assumptions C06_replace_warm2_tiny.
