(* C10 for caches nested inside trees, part 4: the node lemmas of the induction.
   (a) a subtree without CachedSource nodes ignores the store: `TG` / `FG` from the theorems of
       the cache-free class;
   (b) ConcatSource over children that satisfy `TG` / `FG` - whatever their streams look like
       in detail (replayed, coarser chunks included) - satisfies `TG` / `FG`;
   (c) ReplaceSource without replacements over a child that satisfies `TG`. *)
From RS Require Import Base.Prelude Base.Text Rope.RopeModel Codec.Vlq Codec.CodecSpec
  Checkers.ChkCodec Stream.Types Stream.Leaves Stream.Concat Stream.Replace Stream.Combined Stream.Tree
  Api.ApiTree Sem.Attr Sem.HashEq Api.ApiHist Checkers.ChkTree Checkers.ChkHist
  Proofs.CodecKept Proofs.CodecMain Proofs.StreamText Proofs.StreamLeaves Proofs.StreamMap Proofs.StreamConcat Proofs.StreamTree
  Proofs.WfStream Proofs.WfFinal Proofs.RStreamText Proofs.RStreamPos Proofs.RStreamTree
  Proofs.AttrCodec Proofs.AttrSms Proofs.AttrLeaves Proofs.LawConcatAttr Proofs.LawWrappers
  Proofs.CacheStore Proofs.CacheReplay Proofs.FinalDense Proofs.FinalReplace Proofs.FinalConcat Proofs.FinalTree Proofs.FinalCache
  Proofs.ReplAttrStream Proofs.ReplAttrOrigin Proofs.ReplAttrTree Proofs.LinesBase Proofs.LinesSelf Proofs.LinesConcat Proofs.LinesTree
  Proofs.ColdCache Proofs.ColdCacheTree Proofs.BoundsPos Proofs.BoundsOrig Proofs.BoundsIdx Proofs.BoundsAll
  Proofs.WarmTreeDefs Proofs.WarmTreeCodec.
Require Import Lia List.

Local Open Scope N_scope.

(* ------------------------------------------------------------------ *)
(* (a) subtrees without CachedSource                                    *)
(* ------------------------------------------------------------------ *)
Lemma nocache_stream s st o : has_cached s = false -> stream st s o = (fst (stream [] s o), st).
Proof. intros H. apply (proj1 (nocache_pure s H)). Qed.

Lemma nocache_refA s c : has_cached s = false ->
  refA s c = attr_of_stream (fst (fst (stream [] s (mkOpts c false)))) c.
Proof. intros H. unfold refA, ref_evs. rewrite (uncache_id s H). reflexivity. Qed.

Theorem nocache_TG (c : bool) (s : src) (st : store) : cls s -> has_cached s = false ->
  TG c s (fst (stream st s (mkOpts c false))) /\ snd (stream st s (mkOpts c false)) = st.
Proof.
  intros Hcl Hn. destruct (cls_nocache s Hcl Hn) as [Hsh [HA [Hsm Ht]]].
  rewrite (nocache_stream s st _ Hn). cbn [fst snd]. split; [|reflexivity].
  pose proof (rgood_all s [] c Hsh HA Hsm) as [[G1 G2] [G3 [G4 _]]]. cbn zeta in *.
  destruct (tiny_parts s Ht) as [T1 [_ [_ [_ T5]]]].
  unfold TG. split; [apply dense_tree_any; assumption|]. split; [exact G1|]. split; [exact G2|].
  split; [exact G3|]. split.
  { intros ->. apply (ne_tree_lines s Hsh HA Hsm []). }
  split; [exact G4|]. split; [symmetry; apply nocache_refA; exact Hn|].
  split; [apply (obnd_tree s Hsh HA T1 T5)|apply (cnt_tree s Hsh)].
Qed.

Theorem nocache_FG (c : bool) (s : src) (st : store) : cls s -> has_cached s = false ->
  FG c s (fst (stream st s (mkOpts c true))) /\ snd (stream st s (mkOpts c true)) = st.
Proof.
  intros Hcl Hn. destruct (cls_nocache s Hcl Hn) as [Hsh [HA [Hsm Ht]]].
  rewrite (nocache_stream s st _ Hn). cbn [fst snd]. split; [|reflexivity].
  destruct (tiny_parts s Ht) as [T1 [_ [_ [_ T5]]]].
  unfold FG. rewrite (nocache_refA s c Hn). destruct c.
  - destruct (tgood_all s [] Hsh HA Hsm) as [K [_ E]]. fold oF oT.
    split; [exact K|]. split; [discriminate|]. split; [exact E|].
    split; [apply (obnd_tree s Hsh HA T1 T5)|apply (cnt_tree s Hsh)].
  - destruct (tgoodL_all s [] Hsh HA Hsm) as [K [KL [_ E]]]. fold oLF oLT.
    split; [exact K|]. split; [intros _; exact KL|]. split; [exact E|].
    split; [apply (obnd_tree s Hsh HA T1 T5)|apply (cnt_tree s Hsh)].
Qed.

(* the reference tree is such a subtree *)
Lemma nocache_k2 : forall s, has_cached s = false -> k2_shape s = false.
Proof.
  apply (src_ind' (fun s => has_cached s = false -> k2_shape s = false)); cbn [has_cached k2_shape]; try reflexivity.
  - intros cs IH H. rewrite Forall_forall in IH.
    destruct (existsb k2_shape cs) eqn:E; [|reflexivity]. apply existsb_exists in E. destruct E as [c [Hc E]].
    rewrite (IH c Hc) in E; [discriminate|].
    destruct (has_cached c) eqn:Ec; [|reflexivity].
    assert (X : existsb has_cached cs = true) by (apply existsb_exists; exists c; split; assumption). congruence.
  - intros i rs IH H. rewrite H, (IH H), andb_false_r. reflexivity.
  - intros k i _ H. discriminate.
Qed.

Lemma cls_uncache s : cls s -> cls (uncache s).
Proof.
  intros [_ [Sh [A [Sm T]]]]. split; [apply nocache_k2; apply uncache_nocache|].
  rewrite uncache_idem. split; [exact Sh|]. split; [apply treeA_uncache; exact A|]. split; assumption.
Qed.

Lemma uncache_counts : forall s, asrc (uncache s) = asrc s /\ anam (uncache s) = anam s.
Proof.
  apply (src_ind' (fun s => asrc (uncache s) = asrc s /\ anam (uncache s) = anam s));
    cbn [uncache asrc anam]; try (intros; split; reflexivity).
  - intros cs IH. rewrite !fold_sum_map. split.
    + induction IH as [|c cs [Hc _] _ IHl]; [reflexivity|]. cbn [fold_right]. rewrite Hc, IHl. reflexivity.
    + induction IH as [|c cs [_ Hc] _ IHl]; [reflexivity|]. cbn [fold_right]. rewrite Hc, IHl. reflexivity.
  - intros i rs [H1 H2]. rewrite H1, H2. split; reflexivity.
  - intros k i IH. exact IH.
Qed.

Lemma refA_uncache s c : refA (uncache s) c = refA s c.
Proof. unfold refA, ref_evs. rewrite uncache_idem. reflexivity. Qed.

(* the reference stream satisfies TG of the tree itself *)
Theorem ref_TG (c : bool) (s : src) : cls s -> TG c s (fst (stream [] (uncache s) (mkOpts c false))).
Proof.
  intros Hcl. destruct (nocache_TG c (uncache s) [] (cls_uncache s Hcl) (uncache_nocache s)) as [H _].
  destruct (uncache_counts s) as [E1 E2].
  unfold TG, bnd in *. rewrite uncache_source, refA_uncache, E1, E2 in H. exact H.
Qed.

(* ------------------------------------------------------------------ *)
(* chunk texts of a ConcatSource, text-carrying mode                    *)
(* ------------------------------------------------------------------ *)
Lemma NLL_flat (kids : list (list event * (N * N))) evs :
  chunk_texts evs = flat_map (fun k => chunk_texts (fst k)) kids ->
  Forall (fun k => NLL (fst k)) kids -> NLL evs.
Proof.
  intros E H. unfold NLL in *. rewrite E. clear E. induction H as [|k kids Hk _ IH]; [constructor|].
  cbn [flat_map]. apply Forall_app. split; assumption.
Qed.

Lemma ne_flat (kids : list (list event * (N * N))) evs :
  chunk_texts evs = flat_map (fun k => chunk_texts (fst k)) kids ->
  Forall (fun k => no_empty_chunks (fst k) = true) kids -> no_empty_chunks evs = true.
Proof.
  intros E H. unfold no_empty_chunks in *. rewrite E. clear E. induction H as [|k kids Hk _ IH]; [reflexivity|].
  cbn [flat_map]. rewrite forallb_app. apply andb_true_iff. split; [exact Hk|exact IH].
Qed.

(* ------------------------------------------------------------------ *)
(* columns = false: the summaries of attribution-equivalent streams      *)
(* ------------------------------------------------------------------ *)
Lemma lines_sum_eq (a b : list event) (t : text) :
  Reass a t -> Reass b t -> NLL a -> NLL b ->
  attr_of_stream a false = attr_of_stream b false -> tfl (tal a) None = tfl (tal b) None.
Proof.
  intros Ra Rb Na Nb E.
  rewrite (stream_lines_summary a t Ra Na), (stream_lines_summary b t Rb Nb) in E.
  pose proof (tal_text a t Ra) as Ta. pose proof (tal_text b t Rb) as Tb.
  assert (La : len (fst (tfl (tal a) None)) = nlc t) by (rewrite (tfl_length _ (tal_tnl a Na) None), Ta; reflexivity).
  assert (Lb : len (fst (tfl (tal b) None)) = nlc t) by (rewrite (tfl_length _ (tal_tnl b Nb) None), Tb; reflexivity).
  destruct (expand_inj t (fst (tfl (tal a) None)) (fst (tfl (tal b) None)) (snd (tfl (tal a) None))
              (snd (tfl (tal b) None)) La Lb) as [A B]; [|exact E|].
  - intros Ho. rewrite (tfl_open_empty (tal a)) by (rewrite Ta; exact Ho).
    rewrite (tfl_open_empty (tal b)) by (rewrite Tb; exact Ho). reflexivity.
  - destruct (tfl (tal a) None), (tfl (tal b) None). cbn [fst snd] in *. subst. reflexivity.
Qed.

Lemma tfl_flat_congr (ka kb : list (list event * (N * N))) :
  Forall2 (fun x y => tfl (tal (fst x)) None = tfl (tal (fst y)) None) ka kb -> forall cur,
  tfl (flat_map (fun k => tal (fst k)) ka) cur = tfl (flat_map (fun k => tal (fst k)) kb) cur.
Proof.
  induction 1 as [|x y ka kb Hxy _ IH]; intros cur; [reflexivity|].
  cbn [flat_map]. rewrite !tfl_app, (tfl_adj (tal (fst x)) cur), (tfl_adj (tal (fst y)) cur), Hxy, !IH. reflexivity.
Qed.

(* ------------------------------------------------------------------ *)
(* (b) ConcatSource                                                     *)
(* ------------------------------------------------------------------ *)
(* the children's reference streams *)
Definition rkids (cs : list src) (c : bool) : list (list event * (N * N)) :=
  map (fun ch => fst (stream [] (uncache ch) (mkOpts c false))) cs.

Lemma ref_concat cs c : length cs <> 1%nat ->
  ref_evs (SConcat cs) c false = snd (concat_fold false (rkids cs c) (concat_init, [])).
Proof.
  intros Hl. unfold ref_evs. cbn [uncache].
  rewrite stream_concat_fold by (rewrite map_length; exact Hl). cbn [fst final_source].
  rewrite (kid_streams_pure (mkOpts c false) (map uncache cs)).
  - cbn [fst]. unfold rkids. rewrite map_map. reflexivity.
  - intros ch Hch st. apply in_map_iff in Hch. destruct Hch as [x [<- _]].
    rewrite (proj1 (uncache_pure x) st). reflexivity.
Qed.

Lemma F2_right {A B} (R : A -> B -> Prop) (Q : B -> Prop) l1 l2 :
  Forall2 R l1 l2 -> (forall a b, In a l1 -> R a b -> Q b) -> Forall Q l2.
Proof.
  induction 1 as [|a b l1 l2 H _ IH]; intros HQ; constructor.
  - apply (HQ a b); [left; reflexivity|exact H].
  - apply IH. intros x y Hx. apply HQ. right. exact Hx.
Qed.

Lemma F2_impl {A B} (R R' : A -> B -> Prop) l1 l2 :
  Forall2 R l1 l2 -> (forall a b, In a l1 -> R a b -> R' a b) -> Forall2 R' l1 l2.
Proof.
  induction 1 as [|a b l1 l2 H _ IH]; intros HQ; constructor.
  - apply (HQ a b); [left; reflexivity|exact H].
  - apply IH. intros x y Hx. apply HQ. right. exact Hx.
Qed.

Lemma F2_map_l {A B C} (R : C -> B -> Prop) (f : A -> C) l1 l2 :
  Forall2 (fun a b => R (f a) b) l1 l2 -> Forall2 R (map f l1) l2.
Proof. induction 1; cbn [map]; constructor; assumption. Qed.

Lemma F2_map_r {A B C} (R : A -> C -> Prop) (f : B -> C) l1 l2 :
  Forall2 (fun a b => R a (f b)) l1 l2 -> Forall2 R l1 (map f l2).
Proof. induction 1; cbn [map]; constructor; assumption. Qed.

Lemma F2_flip {A B} (R : A -> B -> Prop) l1 l2 : Forall2 R l1 l2 -> Forall2 (fun b a => R a b) l2 l1.
Proof. induction 1; constructor; assumption. Qed.

Lemma F2_map_eq {A B C} (f : A -> C) (g : B -> C) l1 l2 :
  Forall2 (fun a b => f a = g b) l1 l2 -> map f l1 = map g l2.
Proof. induction 1 as [|a b l1 l2 H _ IH]; [reflexivity|]. cbn [map]. rewrite H, IH. reflexivity. Qed.

Definition child_of (P : src -> list event * (N * N) -> Prop) (ch : src) (tr : kid) : Prop :=
  tr_text tr = source ch /\ P ch (fst tr).

Lemma texts_children cs (trs : list kid) P : Forall2 (child_of P) cs trs ->
  concat (map tr_text trs) = source (SConcat cs).
Proof.
  intros H. cbn [source]. f_equal. induction H as [|ch tr cs trs [E _] _ IH]; [reflexivity|].
  cbn [map]. rewrite E, IH. reflexivity.
Qed.

Lemma bnd_concat final cs (trs : list kid) :
  Forall2 (fun ch tr => bnd ch (tr_events tr)) cs trs ->
  bnd (SConcat cs) (snd (concat_fold final (map fst trs) (concat_init, []))).
Proof.
  intros H. unfold bnd. split; [|].
  - apply concat_fold_b; [|constructor]. rewrite Forall_map.
    induction H as [|ch tr cs trs [B _] _ IH]; constructor; assumption.
  - assert (S : sumS (map fst trs) <= asrc (SConcat cs) /\ sumN (map fst trs) <= anam (SConcat cs)).
    { cbn [asrc anam]. clear - H. induction H as [|ch tr cs trs [_ [B1 B2]] _ IH]; [cbn; lia|].
      unfold sumS, sumN in *. cbn [map fold_right]. unfold tr_events in *. lia. }
    pose proof (concat_fold_n final (map fst trs) concat_init []) as [A1 A2]. cbn [nS nN] in A1, A2.
    lia.
Qed.

Lemma ct_dense c cs (trs : list kid) : Forall2 (child_of (TG c)) cs trs ->
  Forall (fun k => dense (fst k) 0 0 = true) (map fst trs).
Proof.
  intros Hk. rewrite Forall_map. apply (F2_right _ _ _ _ Hk). intros ch tr _ [_ H]. apply H.
Qed.

Lemma ct_ref_dense c cs : cls (SConcat cs) -> Forall (fun k => dense (fst k) 0 0 = true) (rkids cs c).
Proof.
  intros Hcl. unfold rkids. rewrite Forall_map. apply Forall_forall. intros ch Hch.
  apply (ref_TG c ch (cls_concat cs ch Hcl Hch)).
Qed.

Lemma ct_texts c cs (trs : list kid) : Forall2 (child_of (TG c)) cs trs ->
  Forall2 (fun k T => Reass (fst k) T /\ NLL (fst k)) (map fst trs) (map source cs).
Proof.
  intros Hk. apply F2_map_l, F2_map_r, F2_flip. apply (F2_impl _ _ _ _ Hk).
  intros ch tr _ [E [_ [H1 [_ [H2 _]]]]]. split; assumption.
Qed.

Lemma ct_ref_texts c cs : cls (SConcat cs) ->
  Forall2 (fun k T => Reass (fst k) T /\ NLL (fst k)) (rkids cs c) (map source cs).
Proof.
  intros Hcl. unfold rkids. apply F2_map_l, F2_map_r.
  assert (H : Forall2 (fun a b : src => a = b) cs cs) by (clear; induction cs; constructor; auto).
  apply (F2_impl _ _ _ _ H). intros a b Ha <-.
  destruct (ref_TG c a (cls_concat cs a Hcl Ha)) as [_ [H1 [_ [H2 _]]]]. split; assumption.
Qed.

Lemma ct_attr c cs (trs : list kid) : length cs <> 1%nat -> cls (SConcat cs) ->
  Forall2 (child_of (TG c)) cs trs ->
  attr_of_stream (snd (concat_fold false (map fst trs) (concat_init, []))) c = refA (SConcat cs) c.
Proof.
  intros Hl Hcl Hk. unfold refA. rewrite (ref_concat cs c Hl).
  pose proof (ct_dense c cs trs Hk) as D1. pose proof (ct_ref_dense c cs Hcl) as D2.
  pose proof (ct_texts c cs trs Hk) as X1. pose proof (ct_ref_texts c cs Hcl) as X2.
  destruct c.
  - rewrite (concat_attr_cols _ D1), (concat_attr_cols _ D2).
    unfold rkids. rewrite !flat_map_concat_map, !map_map. f_equal. symmetry. apply F2_map_eq.
    apply (F2_impl _ _ _ _ Hk). intros ch tr _ [_ H]. destruct H as [_ [_ [_ [_ [_ [_ [H _]]]]]]]. symmetry. exact H.
  - rewrite (concat_text_lines _ _ D1 X1), (concat_text_lines _ _ D2 X2).
    rewrite (tfl_flat_congr (map fst trs) (rkids cs false)); [reflexivity|].
    unfold rkids. apply F2_map_l, F2_map_r, F2_flip. apply (F2_impl _ _ _ _ Hk).
    intros ch tr Hch [E H]. destruct H as [_ [H1 [_ [H2 [_ [_ [H3 _]]]]]]].
    destruct (ref_TG false ch (cls_concat cs ch Hcl Hch)) as [_ [G1 [_ [G2 [_ [_ [G3 _]]]]]]].
    cbn [fst]. apply (lines_sum_eq _ _ (source ch)); assumption.
Qed.

Theorem concat_TG c cs (trs : list kid) : length cs <> 1%nat -> cls (SConcat cs) ->
  Forall2 (child_of (TG c)) cs trs ->
  TG c (SConcat cs) (snd (concat_fold false (map fst trs) (concat_init, [])),
                     concat_result (fst (concat_fold false (map fst trs) (concat_init, [])))).
Proof.
  intros Hl Hcl Hk.
  assert (HF : Forall (fun tr : kid => Reass (tr_events tr) (tr_text tr) /\ tr_info tr = advance 1 0 (tr_text tr)) trs).
  { apply (F2_right _ _ _ _ Hk). intros ch tr _ [E H].
    destruct H as [_ [H1 [_ [_ [_ [H2 _]]]]]]. unfold tr_events, tr_info. rewrite E. split; assumption. }
  assert (HW : Forall (fun tr : kid => WP (tr_events tr) (1, 0)) trs).
  { apply (F2_right _ _ _ _ Hk). intros ch tr _ [E H]. apply H. }
  pose proof (concat_fold_inv trs (concat_init, []) [] cinv_init HF) as [[A1 [A2 A3]] A4].
  cbn [app] in A2, A3. rewrite (texts_children cs trs _ Hk) in A2, A3.
  pose proof (ct_dense c cs trs Hk) as D1.
  pose proof (concat_fold_chunk_texts _ D1) as Htx.
  unfold TG. cbn [fst snd].
  split; [apply (concat_fold_dense _ D1)|]. split; [exact A2|].
  split; [apply A4; [apply WP_nil|exact HW]|]. split.
  { apply (NLL_flat _ _ Htx). rewrite Forall_map.
    apply (F2_right _ _ _ _ Hk). intros ch tr _ [_ H]. apply H. }
  split.
  { intros Hc. apply (ne_flat _ _ Htx). rewrite Forall_map.
    apply (F2_right _ _ _ _ Hk). intros ch tr _ [_ H]. destruct H as [_ [_ [_ [_ [H _]]]]]. apply H. exact Hc. }
  split; [exact A3|]. split; [apply ct_attr; assumption|].
  apply bnd_concat. apply (F2_impl _ _ _ _ Hk). intros ch tr _ [_ H]. apply H.
Qed.

Lemma cf_kid_ok c cs (trs : list kid) : Forall2 (child_of (FG c)) cs trs -> Forall kid_ok trs.
Proof.
  intros Hk. apply (F2_right _ _ _ _ Hk). intros ch tr _ [E H].
  destruct H as [H _]. rewrite <- E in H. destruct tr as [r t]. exact H.
Qed.

Lemma cf_kidL_ok cs (trs : list kid) : Forall2 (child_of (FG false)) cs trs -> Forall kidL_ok trs.
Proof.
  intros Hk. apply (F2_right _ _ _ _ Hk). intros ch tr _ [E H].
  destruct H as [_ [H _]]. specialize (H eq_refl). rewrite <- E in H. destruct tr as [r t]. exact H.
Qed.

Lemma cf_attr c cs (trs : list kid) : length cs <> 1%nat -> cls (SConcat cs) ->
  Forall2 (child_of (FG c)) cs trs ->
  attr_of_final_events (snd (concat_fold true (map fst trs) (concat_init, []))) (source (SConcat cs)) c
  = refA (SConcat cs) c.
Proof.
  intros Hl Hcl Hk. rewrite <- (texts_children cs trs _ Hk). unfold refA. rewrite (ref_concat cs c Hl).
  assert (Hall : forall ch, In ch cs -> cls ch) by (intros ch; apply cls_concat; exact Hcl).
  pose proof (cf_kid_ok c cs trs Hk) as K.
  destruct c.
  - rewrite (concat_final_attr trs K).
    rewrite (concat_attr_cols _ (ct_ref_dense true cs Hcl)).
    unfold rkids. rewrite !flat_map_concat_map, !map_map. f_equal. symmetry. apply F2_map_eq.
    apply (F2_impl _ _ _ _ Hk). intros ch tr _ [E H]. destruct H as [_ [_ [H _]]].
    unfold tr_events. rewrite E. symmetry. exact H.
  - apply (concat_lines_vs_text trs (rkids cs false) (cf_kidL_ok cs trs Hk)).
    unfold rkids. apply F2_map_r, F2_flip. apply (F2_impl _ _ _ _ Hk). intros ch tr Hch [E H].
    destruct (ref_TG false ch (Hall ch Hch)) as [G0 [G1 [_ [G2 [_ [_ [G3 _]]]]]]].
    cbn [fst]. rewrite E. split; [exact G0|]. split; [exact G1|]. split; [exact G2|].
    rewrite G3. destruct H as [_ [_ [H _]]]. exact H.
Qed.

Theorem concat_FG c cs (trs : list kid) : length cs <> 1%nat -> cls (SConcat cs) ->
  Forall2 (child_of (FG c)) cs trs ->
  FG c (SConcat cs) (snd (concat_fold true (map fst trs) (concat_init, [])),
                     concat_result (fst (concat_fold true (map fst trs) (concat_init, [])))).
Proof.
  intros Hl Hcl Hk. pose proof (cf_kid_ok c cs trs Hk) as K.
  unfold FG. cbn [fst]. split; [|split; [|split]].
  - rewrite <- (texts_children cs trs _ Hk). apply (concat_kid_ok trs K).
  - intros Hc. subst c. rewrite <- (texts_children cs trs _ Hk). apply (concat_kidL_ok trs (cf_kidL_ok cs trs Hk)).
  - apply cf_attr; assumption.
  - apply bnd_concat. apply (F2_impl _ _ _ _ Hk). intros ch tr _ [_ H]. apply H.
Qed.

(* ------------------------------------------------------------------ *)
(* (c) ReplaceSource without replacements                               *)
(* ------------------------------------------------------------------ *)
Lemma splice_nil T : splice T [] 0 = T.
Proof. cbn [splice]. unfold drop. reflexivity. Qed.

Theorem replace_nil_TG (c : bool) (i : src) (r : list event * (N * N)) :
  cls (SReplace i []) -> TG c i r -> TG c (SReplace i []) (replace_stream [] (fst r) (snd r)).
Proof.
  intros Hcl HT. destruct (cls_replace i [] Hcl) as [Hci _].
  destruct (cls_sizes i Hci) as [L _].
  destruct HT as [Hd [Hr [Hw [Hn [Hne [Hi [Hattr [B1 [B2 B3]]]]]]]]].
  assert (Hb : len (source i) + clen [] + 1 < two32).
  { unfold clen. cbn [map concat]. change (len (@nil N)) with 0. unfold KB, two32 in *. lia. }
  pose proof (replace_stream_Good [] (fst r) (source i) (Forall_nil _) Hr Hw Hn Hb) as [[G1 G2] [G3 G4]].
  cbn zeta in *. rewrite splice_nil in *. rewrite <- Hi in *.
  unfold TG. cbn [source]. change (replace_source_text (source i) []) with (source i).
  split; [apply FinalDense.replace_stream_dense; exact Hd|]. split; [exact G1|]. split; [exact G2|]. split; [exact G3|].
  split.
  { intros Hc. specialize (Hne Hc).
    apply (ReplAttrOrigin.replace_stream_dense [] (fst r) (source i) (snd r) (Forall_nil _));
      [apply reassembles_iff; exact Hr|exact Hne|exact Hd]. }
  split; [rewrite G4; exact Hi|]. split.
  - rewrite (replace_stream_nil_attr _ _ c Hd), Hattr.
    destruct (ref_TG c i Hci) as [Rd _].
    unfold refA, ref_evs. cbn [uncache]. rewrite replace_nil_stream_eq. cbn [fst snd columns].
    symmetry. apply replace_stream_nil_attr. exact Rd.
  - unfold bnd. split; [apply replace_stream_b; exact B1|].
    pose proof (replace_stream_n [] (fst r) (snd r)) as [N1 N2]. change (len (@nil repl)) with 0 in N2.
    cbn [asrc anam]. change (len (@nil repl)) with 0. split; lia.
Qed.

Print Assumptions nocache_TG.
Print Assumptions nocache_FG.
Print Assumptions ref_TG.
Print Assumptions concat_TG.
Print Assumptions concat_FG.
Print Assumptions replace_nil_TG.
