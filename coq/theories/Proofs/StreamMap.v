(* Stream proofs, part 3: the source-map driven splitters (L5). *)
From RS Require Import Base.Prelude Base.Text Rope.RopeModel Codec.Vlq Codec.CodecSpec
  Stream.Types Stream.Leaves Stream.Replace Stream.Tree Sem.Attr Checkers.ChkTree
  Proofs.StreamText Proofs.StreamLeaves.
Require Import Lia List.

Local Open Scope N_scope.

Ltac peq := unfold text, byte in *; apply (f_equal2 (@pair N N)); lia.

(* ------------------------------------------------------------------ *)
(* char_offset: monotone, bounded, identity on ASCII                   *)
(* ------------------------------------------------------------------ *)
Definition cog (t : text) (i : N) (k : nat) : N :=
  match nth_error (char_starts t i) k with Some o => o | None => i + len t end.

Lemma cog_nil i k : cog [] i k = i.
Proof. unfold cog. cbn [char_starts]. destruct k; cbn; lia. Qed.

Lemma cog_cont b t i k : is_cont b = true -> cog (b :: t) i k = cog t (i + 1) k.
Proof.
  intros H. unfold cog. cbn [char_starts]. rewrite H.
  destruct (nth_error (char_starts t (i + 1)) k); [reflexivity|]. rewrite slen_cons. lia.
Qed.

Lemma cog_lead_0 b t i : is_cont b = false -> cog (b :: t) i 0 = i.
Proof. intros H. unfold cog. cbn [char_starts]. rewrite H. reflexivity. Qed.

Lemma cog_lead_S b t i k : is_cont b = false -> cog (b :: t) i (S k) = cog t (i + 1) k.
Proof.
  intros H. unfold cog. cbn [char_starts]. rewrite H. cbn [nth_error].
  destruct (nth_error (char_starts t (i + 1)) k); [reflexivity|]. rewrite slen_cons. lia.
Qed.

Lemma cog_bounds t : forall i k, i <= cog t i k <= i + len t.
Proof.
  induction t as [|b t IH]; intros i k.
  - rewrite cog_nil, slen_nil. lia.
  - rewrite slen_cons. destruct (is_cont b) eqn:E.
    + rewrite cog_cont by exact E. specialize (IH (i + 1) k). lia.
    + destruct k as [|k].
      * rewrite cog_lead_0 by exact E. lia.
      * rewrite cog_lead_S by exact E. specialize (IH (i + 1) k). lia.
Qed.

Lemma cog_step t : forall i k, cog t i k <= cog t i (S k).
Proof.
  induction t as [|b t IH]; intros i k.
  - rewrite !cog_nil. lia.
  - destruct (is_cont b) eqn:E.
    + rewrite !cog_cont by exact E. apply IH.
    + destruct k as [|k].
      * rewrite cog_lead_0, cog_lead_S by exact E. pose proof (cog_bounds t (i + 1) 0). lia.
      * rewrite !cog_lead_S by exact E. apply IH.
Qed.

Lemma cog_mono t i a b : (a <= b)%nat -> cog t i a <= cog t i b.
Proof.
  induction 1 as [|b Hab IH]; [lia|]. pose proof (cog_step t i b). lia.
Qed.

Lemma char_starts_length t : forall i, (length (char_starts t i) <= length t)%nat.
Proof.
  induction t as [|b t IH]; intros i; [cbn; lia|].
  cbn [char_starts length]. specialize (IH (i + 1)). destruct (is_cont b); cbn [length]; lia.
Qed.

Lemma cog_big t i k : (length t <= k)%nat -> cog t i k = i + len t.
Proof.
  intros H. unfold cog. destruct (nth_error (char_starts t i) k) eqn:E; [|reflexivity].
  assert (k < length (char_starts t i))%nat by (apply nth_error_Some; congruence).
  pose proof (char_starts_length t i). lia.
Qed.

Lemma char_offset_cog t k : char_offset t k = cog t 0 (N.to_nat k).
Proof. reflexivity. Qed.

Lemma co_le_len t k : char_offset t k <= len t.
Proof. rewrite char_offset_cog. pose proof (cog_bounds t 0 (N.to_nat k)). lia. Qed.

Lemma co_mono t a b : a <= b -> char_offset t a <= char_offset t b.
Proof. intros H. rewrite !char_offset_cog. apply cog_mono. lia. Qed.

Lemma co_big t k : len t <= k -> char_offset t k = len t.
Proof. intros H. rewrite char_offset_cog, cog_big; [lia|]. unfold len in H. lia. Qed.

(* a line does not start inside a character *)
Definition starts_ok (t : text) : Prop :=
  match t with b :: _ => is_cont b = false | [] => True end.

Lemma co_0 t : starts_ok t -> char_offset t 0 = 0.
Proof.
  destruct t as [|b t]; intros H; [reflexivity|]. rewrite char_offset_cog.
  change (N.to_nat 0) with 0%nat. apply cog_lead_0. exact H.
Qed.

Lemma ascii_cons b t : ascii (b :: t) = true -> b < 128 /\ ascii t = true.
Proof.
  unfold ascii. cbn [forallb]. intros H. apply andb_true_iff in H. destruct H as [H1 H2].
  apply N.ltb_lt in H1. split; assumption.
Qed.

Lemma ascii_not_cont b : b < 128 -> is_cont b = false.
Proof. intros H. unfold is_cont. apply andb_false_iff. left. apply N.leb_gt. exact H. Qed.

Lemma ascii_starts_ok t : ascii t = true -> starts_ok t.
Proof.
  destruct t as [|b t]; intros H; [exact I|]. apply ascii_cons in H. apply ascii_not_cont. apply H.
Qed.

Lemma cog_ascii t : ascii t = true -> forall i k, cog t i k = i + N.min (N.of_nat k) (len t).
Proof.
  induction t as [|b t IH]; intros H i k.
  - rewrite cog_nil, slen_nil. lia.
  - apply ascii_cons in H. destruct H as [Hb Ht]. pose proof (ascii_not_cont b Hb) as E.
    rewrite slen_cons. destruct k as [|k].
    + rewrite cog_lead_0 by exact E. lia.
    + rewrite cog_lead_S by exact E. rewrite (IH Ht). lia.
Qed.

Lemma co_ascii t k : ascii t = true -> char_offset t k = N.min k (len t).
Proof. intros H. rewrite char_offset_cog, (cog_ascii t H). lia. Qed.

(* ------------------------------------------------------------------ *)
(* substring                                                           *)
(* ------------------------------------------------------------------ *)
Lemma firstn_firstn_skipn {A} (l : list A) : forall x d,
  firstn x l ++ firstn d (skipn x l) = firstn (x + d) l.
Proof.
  induction l as [|a l IH]; intros x d.
  - rewrite skipn_nil, !firstn_nil. reflexivity.
  - destruct x as [|x]; [reflexivity|]. cbn [firstn skipn app plus]. f_equal. apply IH.
Qed.

Lemma take_slice {A} (l : list A) (x y : N) : x <= y -> take x l ++ slice x y l = take y l.
Proof.
  intros H. unfold slice, take, drop. rewrite firstn_firstn_skipn. f_equal. lia.
Qed.

(* the first c characters of a line *)
Definition cpre (line : text) (c : N) : text :=
  if c =? 0 then [] else take (char_offset line c) line.

Lemma cpre_0 line : cpre line 0 = [].
Proof. reflexivity. Qed.

Lemma cpre_take line c : starts_ok line -> cpre line c = take (char_offset line c) line.
Proof.
  intros H. unfold cpre. destruct (c =? 0) eqn:E; [|reflexivity].
  apply N.eqb_eq in E. subst c. rewrite co_0 by exact H. reflexivity.
Qed.

Lemma cpre_big line c : len line <= c -> cpre line c = line.
Proof.
  intros H. unfold cpre. destruct (c =? 0) eqn:E.
  - apply N.eqb_eq in E. subst c. symmetry. apply slen_0. lia.
  - rewrite co_big by exact H. apply stake_all. lia.
Qed.

Lemma sub_part line a b : starts_ok line -> a <= b ->
  cpre line a ++ substring line a (Some b) = cpre line b.
Proof.
  intros Hs Hab. rewrite !cpre_take by exact Hs. unfold substring.
  destruct (b <=? a) eqn:E.
  - apply N.leb_le in E. assert (a = b) by lia. subst b. apply app_nil_r.
  - apply take_slice. apply co_mono. exact Hab.
Qed.

Lemma sub_rest line a : starts_ok line -> cpre line a ++ substring line a None = line.
Proof.
  intros Hs. rewrite cpre_take by exact Hs. unfold substring.
  destruct (len line + 1 <=? a) eqn:E.
  - apply N.leb_le in E. rewrite co_big by lia. rewrite app_nil_r. apply stake_all. lia.
  - rewrite (co_big line (len line + 1)) by lia. rewrite take_slice by apply co_le_len.
    apply stake_all. lia.
Qed.

(* ------------------------------------------------------------------ *)
(* prefix of the text up to a (line, column) position                   *)
(* ------------------------------------------------------------------ *)
Definition prefix (ls : list text) (p : N * N) : text :=
  concat (take (fst p - 1) ls) ++
  match nth_opt ls (fst p - 1) with Some line => cpre line (snd p) | None => [] end.

Lemma line_at_some ls L line : line_at ls L = Some line -> 1 <= L /\ L <= len ls /\ nth_opt ls (L - 1) = Some line.
Proof.
  unfold line_at. destruct (L =? 0) eqn:E; [discriminate|]. apply N.eqb_neq in E.
  intros H. pose proof (snth_some_lt _ _ _ H). split; [lia|]. split; [lia|exact H].
Qed.

Lemma line_at_exists ls L : 1 <= L -> L <= len ls -> exists line, line_at ls L = Some line.
Proof.
  intros H1 H2. unfold line_at. destruct (L =? 0) eqn:E; [apply N.eqb_eq in E; lia|].
  apply snth_lt_some. lia.
Qed.

Lemma line_at_in ls L line : line_at ls L = Some line -> In line ls.
Proof.
  intros H. apply line_at_some in H. destruct H as [_ [_ H]]. unfold nth_opt in H.
  apply nth_error_In in H. exact H.
Qed.

Lemma prefix_beyond ls p : len ls < fst p -> prefix ls p = concat ls.
Proof.
  intros H. unfold prefix. rewrite stake_all by lia. rewrite snth_none by lia. apply app_nil_r.
Qed.

Lemma prefix_start ls : prefix ls (1, 0) = [].
Proof.
  unfold prefix. cbn [fst snd]. change (1 - 1) with 0. rewrite stake_0. cbn [concat app].
  destruct (nth_opt ls 0); reflexivity.
Qed.

Lemma prefix_part ls L C C' line : Forall starts_ok ls -> line_at ls L = Some line -> C <= C' ->
  prefix ls (L, C) ++ substring line C (Some C') = prefix ls (L, C').
Proof.
  intros Hs Hl HC. pose proof (line_at_in _ _ _ Hl) as Hin. apply line_at_some in Hl. destruct Hl as [_ [_ Hl]].
  unfold prefix. cbn [fst snd]. rewrite Hl, <- app_assoc. f_equal. apply sub_part; [|exact HC].
  rewrite Forall_forall in Hs. apply Hs. exact Hin.
Qed.

Lemma prefix_next ls L line : line_at ls L = Some line ->
  prefix ls (L + 1, 0) = concat (take (L - 1) ls) ++ line.
Proof.
  intros Hl. apply line_at_some in Hl. destruct Hl as [H1 [_ Hl]].
  unfold prefix. cbn [fst snd]. replace (L + 1 - 1) with (L - 1 + 1) by lia.
  rewrite (stake_snoc ls (L - 1) line Hl), concat_app. cbn [concat]. rewrite app_nil_r.
  destruct (nth_opt ls (L - 1 + 1)); [rewrite cpre_0|]; rewrite app_nil_r; reflexivity.
Qed.

Lemma prefix_rest ls L C line : Forall starts_ok ls -> line_at ls L = Some line ->
  prefix ls (L, C) ++ substring line C None = prefix ls (L + 1, 0).
Proof.
  intros Hs Hl. rewrite (prefix_next ls L line Hl).
  pose proof (line_at_in _ _ _ Hl) as Hin. apply line_at_some in Hl. destruct Hl as [_ [_ Hl]].
  unfold prefix. cbn [fst snd]. rewrite Hl, <- app_assoc. f_equal. apply sub_rest.
  rewrite Forall_forall in Hs. apply Hs. exact Hin.
Qed.

Lemma prefix_line ls L line : line_at ls L = Some line ->
  prefix ls (L, 0) ++ line = prefix ls (L + 1, 0).
Proof.
  intros Hl. rewrite (prefix_next ls L line Hl).
  apply line_at_some in Hl. destruct Hl as [_ [_ Hl]].
  unfold prefix. cbn [fst snd]. rewrite Hl, cpre_0, app_nil_r. reflexivity.
Qed.

Lemma drop_cons_nth {A} (l : list A) (k : N) (x : A) (r : list A) :
  drop k l = x :: r -> nth_opt l k = Some x /\ drop (k + 1) l = r.
Proof.
  unfold drop, nth_opt. replace (N.to_nat (k + 1)) with (S (N.to_nat k)) by lia.
  generalize (N.to_nat k) as n. clear k. intros n. revert l.
  induction n as [|n IH]; intros l H.
  - cbn [skipn] in H. subst l. split; reflexivity.
  - destruct l as [|y l]; [discriminate|]. cbn [skipn] in H. apply IH in H. exact H.
Qed.

(* ------------------------------------------------------------------ *)
(* tilings: chunk sequences that cover the text between two positions,  *)
(* every chunk labelled with the (line, character column) where it starts *)
(* ------------------------------------------------------------------ *)
Section Tiles.
Variable ls : list text.
Variable V : N -> N -> Prop.   (* admissible split columns *)

Inductive tiles : list event -> N * N -> N * N -> Prop :=
| T_nil p : tiles [] p p
| T_jump p p' evs q : len ls < fst p -> len ls < fst p' -> tiles evs p' q -> tiles evs p q
| T_part L C C' line o evs q :
    Forall starts_ok ls -> line_at ls L = Some line -> C <= C' -> V L C' -> tiles evs (L, C') q ->
    tiles (EChunk (Some (substring line C (Some C'))) (mkMapping L C o) :: evs) (L, C) q
| T_part0 L C C' line evs q :
    Forall starts_ok ls -> line_at ls L = Some line -> C <= C' -> V L C' ->
    substring line C (Some C') = [] -> tiles evs (L, C') q -> tiles evs (L, C) q
| T_rest L C line o evs q :
    Forall starts_ok ls -> line_at ls L = Some line -> tiles evs (L + 1, 0) q ->
    tiles (EChunk (Some (substring line C None)) (mkMapping L C o) :: evs) (L, C) q
| T_rest0 L C line evs q :
    Forall starts_ok ls -> line_at ls L = Some line -> substring line C None = [] ->
    tiles evs (L + 1, 0) q -> tiles evs (L, C) q
| T_line L line o evs q :
    line_at ls L = Some line -> tiles evs (L + 1, 0) q ->
    tiles (EChunk (Some line) (mkMapping L 0 o) :: evs) (L, 0) q.

Lemma tiles_app a b p q r : tiles a p q -> tiles b q r -> tiles (a ++ b) p r.
Proof.
  intros Ha Hb. induction Ha as [p|p p' evs q H1 H2 _ IH|L C C' line o evs q Hs Hl HC HV _ IH
    |L C C' line evs q Hs Hl HC HV He _ IH|L C line o evs q Hs Hl _ IH|L C line evs q Hs Hl He _ IH
    |L line o evs q Hl _ IH].
  - exact Hb.
  - apply (T_jump p p'); [exact H1|exact H2|apply IH; exact Hb].
  - cbn [app]. apply T_part; [exact Hs|exact Hl|exact HC|exact HV|apply IH; exact Hb].
  - apply (T_part0 L C C' line); [exact Hs|exact Hl|exact HC|exact HV|exact He|apply IH; exact Hb].
  - cbn [app]. apply T_rest; [exact Hs|exact Hl|apply IH; exact Hb].
  - apply (T_rest0 L C line); [exact Hs|exact Hl|exact He|apply IH; exact Hb].
  - cbn [app]. apply T_line; [exact Hl|apply IH; exact Hb].
Qed.

Lemma tiles_one_part L C C' line o :
  Forall starts_ok ls -> line_at ls L = Some line -> C <= C' -> V L C' ->
  tiles [EChunk (Some (substring line C (Some C'))) (mkMapping L C o)] (L, C) (L, C').
Proof. intros. apply T_part; try assumption. apply T_nil. Qed.

Lemma tiles_one_rest L C line o :
  Forall starts_ok ls -> line_at ls L = Some line ->
  tiles [EChunk (Some (substring line C None)) (mkMapping L C o)] (L, C) (L + 1, 0).
Proof. intros. apply T_rest; try assumption. apply T_nil. Qed.

Lemma tiles_jump p q : len ls < fst p -> len ls < fst q -> tiles [] p q.
Proof. intros H1 H2. apply (T_jump p q); [exact H1|exact H2|apply T_nil]. Qed.

(* reassembly *)
Lemma tiles_reass evs p q : tiles evs p q ->
  exists x, Reass evs x /\ prefix ls q = prefix ls p ++ x.
Proof.
  induction 1 as [p|p p' evs q H1 H2 _ IH|L C C' line o evs q Hs Hl HC HV _ IH
    |L C C' line evs q Hs Hl HC HV He _ IH|L C line o evs q Hs Hl _ IH|L C line evs q Hs Hl He _ IH
    |L line o evs q Hl _ IH].
  - exists []. split; [apply Reass_nil|rewrite app_nil_r; reflexivity].
  - destruct IH as [x [Hx Hq]]. exists x. split; [exact Hx|].
    rewrite Hq, !prefix_beyond by assumption. reflexivity.
  - destruct IH as [x [Hx Hq]]. exists (substring line C (Some C') ++ x).
    split; [apply Reass_chunk; exact Hx|].
    rewrite Hq, <- (prefix_part ls L C C' line Hs Hl HC), <- app_assoc. reflexivity.
  - destruct IH as [x [Hx Hq]]. exists x. split; [exact Hx|].
    rewrite Hq, <- (prefix_part ls L C C' line Hs Hl HC), He, app_nil_r. reflexivity.
  - destruct IH as [x [Hx Hq]]. exists (substring line C None ++ x).
    split; [apply Reass_chunk; exact Hx|].
    rewrite Hq, <- (prefix_rest ls L C line Hs Hl), <- app_assoc. reflexivity.
  - destruct IH as [x [Hx Hq]]. exists x. split; [exact Hx|].
    rewrite Hq, <- (prefix_rest ls L C line Hs Hl), He, app_nil_r. reflexivity.
  - destruct IH as [x [Hx Hq]]. exists (line ++ x).
    split; [apply Reass_chunk; exact Hx|].
    rewrite Hq, <- (prefix_line ls L line Hl), <- app_assoc. reflexivity.
Qed.

(* positions *)
Hypothesis HG : forall L, 1 <= L -> L <= len ls -> adv (1, 0) (prefix ls (L, 0)) = (L, 0).
Hypothesis HV : forall L C line, V L C -> line_at ls L = Some line -> adv (1, 0) (prefix ls (L, C)) = (L, C).

Lemma tiles_wp evs p q : tiles evs p q ->
  (fst p <= len ls -> adv (1, 0) (prefix ls p) = p) -> WP evs (adv (1, 0) (prefix ls p)).
Proof.
  induction 1 as [p|p p' evs q H1 H2 _ IH|L C C' line o evs q Hs Hl HC HV' _ IH
    |L C C' line evs q Hs Hl HC HV' He _ IH|L C line o evs q Hs Hl _ IH|L C line evs q Hs Hl He _ IH
    |L line o evs q Hl _ IH]; intros Hp.
  - apply WP_nil.
  - rewrite (prefix_beyond ls p), <- (prefix_beyond ls p') by assumption. apply IH. lia.
  - pose proof (line_at_some _ _ _ Hl) as [Hl1 [Hl2 _]]. cbn [fst] in Hp. specialize (Hp Hl2).
    rewrite Hp. apply WP_chunk; [reflexivity|reflexivity|].
    replace (adv (L, C) (substring line C (Some C'))) with (adv (1, 0) (prefix ls (L, C'))).
    + apply IH. intros _. apply (HV L C' line HV' Hl).
    + rewrite <- (prefix_part ls L C C' line Hs Hl HC), adv_app, Hp. reflexivity.
  - replace (prefix ls (L, C)) with (prefix ls (L, C')).
    + apply IH. intros _. apply (HV L C' line HV' Hl).
    + rewrite <- (prefix_part ls L C C' line Hs Hl HC), He, app_nil_r. reflexivity.
  - pose proof (line_at_some _ _ _ Hl) as [Hl1 [Hl2 _]]. cbn [fst] in Hp. specialize (Hp Hl2).
    rewrite Hp. apply WP_chunk; [reflexivity|reflexivity|].
    replace (adv (L, C) (substring line C None)) with (adv (1, 0) (prefix ls (L + 1, 0))).
    + apply IH. cbn [fst]. intros H. apply HG; lia.
    + rewrite <- (prefix_rest ls L C line Hs Hl), adv_app, Hp. reflexivity.
  - replace (prefix ls (L, C)) with (prefix ls (L + 1, 0)).
    + apply IH. cbn [fst]. intros H. apply HG; lia.
    + rewrite <- (prefix_rest ls L C line Hs Hl), He, app_nil_r. reflexivity.
  - pose proof (line_at_some _ _ _ Hl) as [Hl1 [Hl2 _]]. cbn [fst] in Hp. specialize (Hp Hl2).
    rewrite Hp. apply WP_chunk; [reflexivity|reflexivity|].
    replace (adv (L, 0) line) with (adv (1, 0) (prefix ls (L + 1, 0))).
    + apply IH. cbn [fst]. intros H. apply HG; lia.
    + rewrite <- (prefix_line ls L line Hl), adv_app, Hp. reflexivity.
Qed.

End Tiles.

(* ------------------------------------------------------------------ *)
(* whole_lines                                                         *)
(* ------------------------------------------------------------------ *)
Lemma whole_lines_skip suf : forall i cur target, i <= cur ->
  whole_lines suf i cur target = whole_lines (drop (cur - i) suf) cur cur target.
Proof.
  induction suf as [|l suf IH]; intros i cur target H.
  - rewrite sdrop_nil. reflexivity.
  - destruct (N.eq_dec i cur) as [->|Hne].
    + rewrite N.sub_diag, sdrop_0. reflexivity.
    + cbn [whole_lines]. replace (cur <=? i) with false by (symmetry; apply N.leb_gt; lia).
      cbn [andb]. rewrite IH by lia. rewrite (sdrop_pos (cur - i)) by lia.
      replace (cur - (i + 1)) with (cur - i - 1) by lia. reflexivity.
Qed.

Lemma whole_lines_done suf : forall i cur target, target <= i -> whole_lines suf i cur target = [].
Proof.
  induction suf as [|l suf IH]; intros i cur target H; [reflexivity|].
  cbn [whole_lines]. replace (i <? target) with false by (symmetry; apply N.ltb_ge; lia).
  rewrite andb_false_r. apply IH. lia.
Qed.

Lemma whole_lines_emit ls V suf : forall i cur target,
  1 <= i -> suf = drop (i - 1) ls -> cur <= i -> i <= target ->
  tiles ls V (whole_lines suf i cur target) (i, 0) (target, 0).
Proof.
  induction suf as [|l suf IH]; intros i cur target H1 Hsuf Hc Ht.
  - cbn [whole_lines].
    assert (Hn : len ls <= i - 1).
    { pose proof (slen_drop (i - 1) ls) as Hd. rewrite <- Hsuf, slen_nil in Hd. lia. }
    destruct (N.eq_dec i target) as [->|Hne]; [apply T_nil|].
    apply tiles_jump; cbn [fst]; lia.
  - symmetry in Hsuf. apply drop_cons_nth in Hsuf. destruct Hsuf as [Hnth Hdrop].
    assert (Hl : line_at ls i = Some l).
    { unfold line_at. replace (i =? 0) with false by (symmetry; apply N.eqb_neq; lia). exact Hnth. }
    cbn [whole_lines]. replace (cur <=? i) with true by (symmetry; apply N.leb_le; lia).
    cbn [andb]. destruct (i <? target) eqn:E.
    + apply N.ltb_lt in E. apply T_line; [exact Hl|].
      apply IH; [lia| |lia|lia]. rewrite <- Hdrop. f_equal. lia.
    + apply N.ltb_ge in E. assert (i = target) by lia. subst target.
      rewrite whole_lines_done by lia. apply T_nil.
Qed.

Lemma whole_lines_tiles ls V cur target : 1 <= cur -> cur <= target ->
  tiles ls V (whole_lines ls 1 cur target) (cur, 0) (target, 0).
Proof.
  intros H1 H2. rewrite whole_lines_skip by exact H1.
  apply whole_lines_emit; [exact H1|reflexivity|lia|exact H2].
Qed.

(* ------------------------------------------------------------------ *)
(* sm_full_step, phase by phase                                        *)
(* ------------------------------------------------------------------ *)
Definition ph1 (ls : list text) (st : fstate) (m : mapping) : fstate * list event :=
  if f_active st && (f_line st <=? len ls) then
    match line_at ls (f_line st) with
    | None => (st, [])
    | Some line =>
      let '(chunk, l', c') :=
        if negb (g_line m =? f_line st) then (substring line (f_col st) None, f_line st + 1, 0)
        else (substring line (f_col st) (Some (g_col m)), f_line st, g_col m) in
      (mkF l' c' false (f_orig st),
       if is_nil chunk then []
       else [EChunk (Some chunk) (mkMapping (f_line st) (f_col st) (f_orig st))])
    end
  else (st, []).

Definition ph2 (ls : list text) (st1 : fstate) (m : mapping) : fstate * list event :=
  if (f_line st1 <? g_line m) && (0 <? f_col st1) then
    (mkF (f_line st1 + 1) 0 (f_active st1) (f_orig st1),
     if f_line st1 <=? len ls then
       match line_at ls (f_line st1) with
       | Some line => let chunk := substring line (f_col st1) None in
                      if is_nil chunk then [] else [EChunk (Some chunk) (unmapped (f_line st1) (f_col st1))]
       | None => []
       end
     else [])
  else (st1, []).

Definition ph3 (ls : list text) (st2 : fstate) (m : mapping) : fstate * list event :=
  if f_line st2 <? g_line m then
    (mkF (g_line m) (f_col st2) (f_active st2) (f_orig st2), whole_lines ls 1 (f_line st2) (g_line m))
  else (st2, []).

Definition ph4 (ls : list text) (st3 : fstate) (m : mapping) : fstate * list event :=
  if f_col st3 <? g_col m then
    (mkF (f_line st3) (g_col m) (f_active st3) (f_orig st3),
     if f_line st3 <=? len ls then
       match line_at ls (f_line st3) with
       | Some line => let chunk := substring line (f_col st3) (Some (g_col m)) in
                      if is_nil chunk then [] else [EChunk (Some chunk) (unmapped (f_line st3) (f_col st3))]
       | None => []
       end
     else [])
  else (st3, []).

Definition ph5 (fl fc : N) (st4 : fstate) (m : mapping) : fstate :=
  match m_orig m with
  | Some o =>
    if (g_line m <? fl) || ((g_line m =? fl) && (g_col m <? fc))
    then mkF (f_line st4) (f_col st4) true (Some o) else st4
  | None => st4
  end.

Lemma sm_full_step_body_eq ls fl fc st m :
  sm_full_step_body ls fl fc st m =
  let '(st1, ev1) := ph1 ls st m in
  let '(st2, ev2) := ph2 ls st1 m in
  let '(st3, ev3) := ph3 ls st2 m in
  let '(st4, ev4) := ph4 ls st3 m in
  (ph5 fl fc st4 m, ev1 ++ ev2 ++ ev3 ++ ev4).
Proof. reflexivity. Qed.

(* the guard of the fixed on_mapping: the mapping lies before the current position *)
Definition step_guard (st : fstate) (m : mapping) : bool :=
  (g_line m <? f_line st) || ((g_line m =? f_line st) && (g_col m <? f_col st)).

Lemma sm_full_step_eq ls fl fc st m :
  sm_full_step ls fl fc st m =
  if step_guard st m then (st, [])
  else
    let '(st1, ev1) := ph1 ls st m in
    let '(st2, ev2) := ph2 ls st1 m in
    let '(st3, ev3) := ph3 ls st2 m in
    let '(st4, ev4) := ph4 ls st3 m in
    (ph5 fl fc st4 m, ev1 ++ ev2 ++ ev3 ++ ev4).
Proof. reflexivity. Qed.

Definition ple (a b : N * N) : Prop := fst a < fst b \/ (fst a = fst b /\ snd a <= snd b).
Definition plt (a b : N * N) : Prop := fst a < fst b \/ (fst a = fst b /\ snd a < snd b).
Definition fpos (st : fstate) : N * N := (f_line st, f_col st).
Definition mpos (m : mapping) : N * N := (g_line m, g_col m).

Lemma step_guard_false st m : step_guard st m = false <-> ple (fpos st) (mpos m).
Proof.
  unfold step_guard, ple, fpos, mpos. cbn [fst snd]. split.
  - intros H. apply orb_false_iff in H. destruct H as [H1 H2]. apply N.ltb_ge in H1.
    apply andb_false_iff in H2. destruct H2 as [H2|H2]; [apply N.eqb_neq in H2|apply N.ltb_ge in H2]; lia.
  - intros H. apply orb_false_iff. split; [apply N.ltb_ge; lia|].
    destruct (g_line m =? f_line st) eqn:E; [|reflexivity]. apply N.eqb_eq in E.
    cbn [andb]. apply N.ltb_ge. lia.
Qed.

Lemma step_guard_true st m : step_guard st m = true <-> ~ ple (fpos st) (mpos m).
Proof.
  rewrite <- step_guard_false. destruct (step_guard st m); split; intros H.
  - discriminate.
  - reflexivity.
  - discriminate.
  - exfalso. apply H. reflexivity.
Qed.

(* a mapping at or after the current position is processed *)
Lemma sm_full_step_in_order ls fl fc st m :
  step_guard st m = false -> sm_full_step ls fl fc st m = sm_full_step_body ls fl fc st m.
Proof. intros H. unfold sm_full_step. fold (step_guard st m). rewrite H. reflexivity. Qed.

(* a mapping before the current position is ignored *)
Lemma sm_full_step_skip ls fl fc st m :
  step_guard st m = true -> sm_full_step ls fl fc st m = (st, []).
Proof. intros H. unfold sm_full_step. fold (step_guard st m). rewrite H. reflexivity. Qed.

Section Step.
Variable ls : list text.
Variable V : N -> N -> Prop.
Hypothesis SOK : Forall starts_ok ls.

Lemma ph4_spec st m :
  1 <= f_line st -> f_line st = g_line m -> f_col st <= g_col m -> V (g_line m) (g_col m) ->
  fpos (fst (ph4 ls st m)) = mpos m /\ f_active (fst (ph4 ls st m)) = f_active st /\
  tiles ls V (snd (ph4 ls st m)) (fpos st) (mpos m).
Proof.
  intros H1 Hl Hc HV. unfold ph4, fpos, mpos. destruct (f_col st <? g_col m) eqn:E.
  - cbn [fst snd f_line f_col f_active]. split; [rewrite Hl; reflexivity|]. split; [reflexivity|].
    destruct (f_line st <=? len ls) eqn:En.
    + apply N.leb_le in En. destruct (line_at_exists ls (f_line st) H1 En) as [line Hline].
      rewrite Hline, <- Hl. cbv zeta.
      destruct (is_nil (substring line (f_col st) (Some (g_col m)))) eqn:Enil.
      * apply is_nil_true in Enil.
        apply (T_part0 ls V (f_line st) (f_col st) (g_col m) line);
          [exact SOK|exact Hline|exact Hc|rewrite Hl; exact HV|exact Enil|apply T_nil].
      * apply tiles_one_part; [exact SOK|exact Hline|exact Hc|rewrite Hl; exact HV].
    + apply N.leb_gt in En. apply tiles_jump; cbn [fst]; lia.
  - apply N.ltb_ge in E. cbn [fst snd]. assert (Hcc : f_col st = g_col m) by lia.
    rewrite Hl, Hcc. split; [reflexivity|]. split; [reflexivity|apply T_nil].
Qed.

Lemma ph3_spec st m :
  1 <= f_line st -> f_line st <= g_line m -> f_col st = 0 ->
  fpos (fst (ph3 ls st m)) = (g_line m, 0) /\ f_active (fst (ph3 ls st m)) = f_active st /\
  tiles ls V (snd (ph3 ls st m)) (fpos st) (g_line m, 0).
Proof.
  intros H1 Hl Hc. unfold ph3, fpos. destruct (f_line st <? g_line m) eqn:E.
  - cbn [fst snd f_line f_col f_active]. rewrite Hc. split; [reflexivity|]. split; [reflexivity|].
    apply whole_lines_tiles; [exact H1|exact Hl].
  - apply N.ltb_ge in E. cbn [fst snd]. assert (Hll : f_line st = g_line m) by lia.
    rewrite Hll, Hc. split; [reflexivity|]. split; [reflexivity|apply T_nil].
Qed.

Lemma ph2_spec st m :
  1 <= f_line st -> f_line st < g_line m ->
  1 <= f_line (fst (ph2 ls st m)) /\ f_line (fst (ph2 ls st m)) <= g_line m /\
  f_col (fst (ph2 ls st m)) = 0 /\ f_active (fst (ph2 ls st m)) = f_active st /\
  tiles ls V (snd (ph2 ls st m)) (fpos st) (fpos (fst (ph2 ls st m))).
Proof.
  intros H1 Hl. unfold ph2, fpos.
  replace (f_line st <? g_line m) with true by (symmetry; apply N.ltb_lt; exact Hl). cbn [andb].
  destruct (0 <? f_col st) eqn:E.
  - cbn [fst snd f_line f_col f_active]. split; [lia|]. split; [lia|]. split; [reflexivity|].
    split; [reflexivity|].
    destruct (f_line st <=? len ls) eqn:En.
    + apply N.leb_le in En. destruct (line_at_exists ls (f_line st) H1 En) as [line Hline].
      rewrite Hline. cbv zeta. destruct (is_nil (substring line (f_col st) None)) eqn:Enil.
      * apply is_nil_true in Enil.
        apply (T_rest0 ls V (f_line st) (f_col st) line); [exact SOK|exact Hline|exact Enil|apply T_nil].
      * apply tiles_one_rest; [exact SOK|exact Hline].
    + apply N.leb_gt in En. apply tiles_jump; cbn [fst]; lia.
  - apply N.ltb_ge in E. cbn [fst snd]. split; [exact H1|]. split; [lia|]. split; [lia|].
    split; [reflexivity|apply T_nil].
Qed.

Definition ph24 (st : fstate) (m : mapping) : fstate * list event :=
  let '(st2, ev2) := ph2 ls st m in
  let '(st3, ev3) := ph3 ls st2 m in
  let '(st4, ev4) := ph4 ls st3 m in
  (st4, ev2 ++ ev3 ++ ev4).

Lemma ph24_spec st m :
  1 <= f_line st -> ple (fpos st) (mpos m) -> V (g_line m) (g_col m) ->
  fpos (fst (ph24 st m)) = mpos m /\ f_active (fst (ph24 st m)) = f_active st /\
  tiles ls V (snd (ph24 st m)) (fpos st) (mpos m).
Proof.
  intros H1 Hle HV. unfold ph24. unfold ple, fpos, mpos in Hle. cbn [fst snd] in Hle.
  destruct Hle as [Hlt|[Heq Hc]].
  - pose proof (ph2_spec st m H1 Hlt) as [A1 [A2 [A3 [A4 A5]]]].
    destruct (ph2 ls st m) as [st2 ev2]. cbn [fst snd] in *.
    pose proof (ph3_spec st2 m A1 A2 A3) as [B1 [B2 B3]].
    destruct (ph3 ls st2 m) as [st3 ev3]. cbn [fst snd] in *.
    unfold fpos in B1. inversion B1 as [[B1l B1c]].
    assert (H3 : 1 <= f_line st3) by lia.
    assert (H3c : f_col st3 <= g_col m) by lia.
    pose proof (ph4_spec st3 m H3 B1l H3c HV) as [C1 [C2 C3]].
    destruct (ph4 ls st3 m) as [st4 ev4]. cbn [fst snd] in *.
    split; [exact C1|]. split; [congruence|].
    apply (tiles_app ls V ev2 (ev3 ++ ev4) (fpos st) (fpos st2)); [exact A5|].
    apply (tiles_app ls V ev3 ev4 (fpos st2) (g_line m, 0)); [exact B3|].
    replace (g_line m, 0) with (fpos st3) by (unfold fpos; rewrite B1l, B1c; reflexivity). exact C3.
  - assert (E2 : ph2 ls st m = (st, [])).
    { unfold ph2. replace (f_line st <? g_line m) with false by (symmetry; apply N.ltb_ge; lia). reflexivity. }
    assert (E3 : ph3 ls st m = (st, [])).
    { unfold ph3. replace (f_line st <? g_line m) with false by (symmetry; apply N.ltb_ge; lia). reflexivity. }
    rewrite E2, E3.
    pose proof (ph4_spec st m H1 Heq Hc HV) as [C1 [C2 C3]].
    destruct (ph4 ls st m) as [st4 ev4]. cbn [fst snd app] in *.
    split; [exact C1|]. split; [exact C2|exact C3].
Qed.

Lemma ph1_spec st m :
  1 <= f_line st -> (f_active st = true -> f_line st <= len ls) ->
  ple (fpos st) (mpos m) -> V (g_line m) (g_col m) ->
  1 <= f_line (fst (ph1 ls st m)) /\ ple (fpos (fst (ph1 ls st m))) (mpos m) /\
  f_active (fst (ph1 ls st m)) = false /\
  tiles ls V (snd (ph1 ls st m)) (fpos st) (fpos (fst (ph1 ls st m))).
Proof.
  intros H1 Hact Hle HV. unfold ph1. destruct (f_active st) eqn:Ea.
  - specialize (Hact eq_refl). replace (f_line st <=? len ls) with true by (symmetry; apply N.leb_le; exact Hact).
    cbn [andb]. destruct (line_at_exists ls (f_line st) H1 Hact) as [line Hline]. rewrite Hline.
    unfold ple, fpos, mpos in Hle. cbn [fst snd] in Hle.
    destruct (g_line m =? f_line st) eqn:E; cbn [negb].
    + apply N.eqb_eq in E. assert (Hc : f_col st <= g_col m) by lia.
      cbn [fst snd f_line f_col f_active]. split; [exact H1|]. split.
      { unfold ple, fpos, mpos. cbn [fst snd f_line f_col]. right. split; [lia|lia]. }
      split; [reflexivity|]. unfold fpos. cbn [f_line f_col].
      destruct (is_nil (substring line (f_col st) (Some (g_col m)))) eqn:En.
      * apply is_nil_true in En.
        apply (T_part0 ls V (f_line st) (f_col st) (g_col m) line);
          [exact SOK|exact Hline|exact Hc|rewrite <- E; exact HV|exact En|apply T_nil].
      * apply tiles_one_part; [exact SOK|exact Hline|exact Hc|rewrite <- E; exact HV].
    + apply N.eqb_neq in E. assert (Hlt : f_line st < g_line m) by lia.
      cbn [fst snd f_line f_col f_active]. split; [lia|]. split.
      { unfold ple, fpos, mpos. cbn [fst snd f_line f_col]. lia. }
      split; [reflexivity|]. unfold fpos. cbn [f_line f_col].
      destruct (is_nil (substring line (f_col st) None)) eqn:En.
      * apply is_nil_true in En.
        apply (T_rest0 ls V (f_line st) (f_col st) line); [exact SOK|exact Hline|exact En|apply T_nil].
      * apply tiles_one_rest; [exact SOK|exact Hline].
  - cbn [andb fst snd]. split; [exact H1|]. split; [exact Hle|]. split; [exact Ea|apply T_nil].
Qed.

Variables fl fc : N.
Hypothesis Hend : fl <= len ls + 1 /\ (fl = len ls + 1 -> fc = 0).

Definition Inv (st : fstate) : Prop :=
  1 <= f_line st /\ (f_active st = true -> plt (fpos st) (fl, fc)).

Lemma Inv_active_le st : Inv st -> f_active st = true -> f_line st <= len ls.
Proof.
  intros [_ H] Ha. specialize (H Ha). unfold plt, fpos in H. cbn [fst snd] in H. lia.
Qed.

Lemma step_spec st m :
  Inv st -> ple (fpos st) (mpos m) -> V (g_line m) (g_col m) ->
  fpos (fst (sm_full_step ls fl fc st m)) = mpos m /\ Inv (fst (sm_full_step ls fl fc st m)) /\
  tiles ls V (snd (sm_full_step ls fl fc st m)) (fpos st) (mpos m).
Proof.
  intros HI Hle HV. pose proof (Inv_active_le st HI) as Hact. destruct HI as [H1 _].
  rewrite sm_full_step_in_order by (apply step_guard_false; exact Hle). rewrite sm_full_step_body_eq.
  pose proof (ph1_spec st m H1 Hact Hle HV) as [A1 [A2 [A3 A4]]].
  destruct (ph1 ls st m) as [st1 ev1]. cbn [fst snd] in *.
  pose proof (ph24_spec st1 m A1 A2 HV) as [B1 [B2 B3]]. unfold ph24 in B1, B2, B3.
  destruct (ph2 ls st1 m) as [st2 ev2]. destruct (ph3 ls st2 m) as [st3 ev3].
  destruct (ph4 ls st3 m) as [st4 ev4]. cbn [fst snd] in *.
  assert (Hp5 : fpos (ph5 fl fc st4 m) = fpos st4).
  { unfold ph5. destruct (m_orig m); [|reflexivity].
    destruct ((g_line m <? fl) || ((g_line m =? fl) && (g_col m <? fc))); reflexivity. }
  split; [rewrite Hp5; exact B1|]. split.
  - unfold Inv. assert (Hl5 : f_line (ph5 fl fc st4 m) = g_line m).
    { change (f_line (ph5 fl fc st4 m)) with (fst (fpos (ph5 fl fc st4 m))). rewrite Hp5, B1. reflexivity. }
    split.
    + rewrite Hl5. unfold ple, fpos, mpos in A2. cbn [fst snd] in A2. lia.
    + rewrite Hp5, B1. unfold ph5. destruct (m_orig m) as [o|]; [|congruence].
      destruct ((g_line m <? fl) || ((g_line m =? fl) && (g_col m <? fc))) eqn:E; [|congruence].
      intros _. unfold plt, mpos. cbn [fst snd].
      apply orb_true_iff in E. destruct E as [E|E]; [left; apply N.ltb_lt; exact E|].
      apply andb_true_iff in E. destruct E as [E1 E2]. apply N.eqb_eq in E1. apply N.ltb_lt in E2.
      right. split; assumption.
  - apply (tiles_app ls V ev1 (ev2 ++ ev3 ++ ev4) (fpos st) (fpos st1)); [exact A4|exact B3].
Qed.

Lemma loop_spec : forall ms st,
  Inv st -> sorted_by pos_le ms = true -> Forall (fun m => V (g_line m) (g_col m)) ms ->
  match ms with m :: _ => ple (fpos st) (mpos m) | [] => True end ->
  Inv (fst (sm_full_loop ls fl fc st ms)) /\
  tiles ls V (snd (sm_full_loop ls fl fc st ms)) (fpos st) (fpos (fst (sm_full_loop ls fl fc st ms))).
Proof.
  induction ms as [|m ms IH]; intros st HI Hs HV Hle.
  - cbn [sm_full_loop fst snd]. split; [exact HI|apply T_nil].
  - cbn [sm_full_loop]. inversion HV as [|? ? HVm HVms]. subst.
    pose proof (step_spec st m HI Hle HVm) as [A1 [A2 A3]].
    destruct (sm_full_step ls fl fc st m) as [st1 e1]. cbn [fst snd] in *.
    assert (Hs' : sorted_by pos_le ms = true /\ match ms with m' :: _ => ple (fpos st1) (mpos m') | [] => True end).
    { destruct ms as [|m' ms']; [split; [reflexivity|exact I]|].
      cbn [sorted_by] in Hs. apply andb_true_iff in Hs. destruct Hs as [Hs1 Hs2]. split; [exact Hs2|].
      rewrite A1. unfold pos_le in Hs1. unfold ple, mpos. cbn [fst snd].
      apply orb_true_iff in Hs1. destruct Hs1 as [E|E]; [left; apply N.ltb_lt; exact E|].
      apply andb_true_iff in E. destruct E as [E1 E2]. apply N.eqb_eq in E1. apply N.leb_le in E2.
      right. split; assumption. }
    destruct Hs' as [Hs1 Hs2].
    pose proof (IH st1 A2 Hs1 HVms Hs2) as [B1 B2].
    destruct (sm_full_loop ls fl fc st1 ms) as [st2 e2]. cbn [fst snd] in *.
    split; [exact B1|]. apply (tiles_app ls V e1 e2 (fpos st) (fpos st1)); [rewrite A1; exact A3|exact B2].
Qed.

(* a state at or beyond the end, inactive: the closing step emits nothing *)
Lemma inert_step st :
  len ls <= fl -> f_active st = false -> ~ ple (fpos st) (fl, fc) ->
  snd (sm_full_step ls fl fc st (unmapped fl fc)) = [].
Proof.
  intros Hn Ha Hnle. rewrite sm_full_step_skip; [reflexivity|].
  apply step_guard_true. exact Hnle.
Qed.

End Step.

(* ------------------------------------------------------------------ *)
(* the end position                                                    *)
(* ------------------------------------------------------------------ *)
Definition end_ok (ls : list text) (fl fc : N) : Prop :=
  (fl = len ls + 1 /\ fc = 0) \/
  (fl = len ls /\ exists last, line_at ls fl = Some last /\ fc = len last).

Lemma prefix_end ls fl fc p : end_ok ls fl fc -> ~ plt p (fl, fc) -> prefix ls p = concat ls.
Proof.
  intros He Hp. unfold plt in Hp. cbn [fst snd] in Hp. destruct He as [[H1 H2]|[H1 [last [Hl H2]]]].
  - apply prefix_beyond. lia.
  - destruct (N.eq_dec (fst p) fl) as [E|E].
    + rewrite <- (prefix_beyond ls (fl + 1, 0)) by (cbn [fst]; lia).
      rewrite (prefix_next ls fl last Hl).
      pose proof (line_at_some _ _ _ Hl) as [_ [_ Hn]].
      unfold prefix. rewrite E, Hn. f_equal. apply cpre_big. lia.
    + apply prefix_beyond. lia.
Qed.

Lemma rev_head_nth {A} (l : list A) (x : A) : rev_head l = Some x -> nth_opt l (len l - 1) = Some x.
Proof.
  unfold rev_head. destruct (rev l) as [|y r] eqn:E; [discriminate|]. intros H. inversion H. subst y.
  assert (El : l = rev r ++ [x]).
  { rewrite <- (rev_involutive l), E. reflexivity. }
  subst l. unfold nth_opt, len. rewrite app_length. cbn [length].
  replace (N.to_nat (N.of_nat (length (rev r) + 1) - 1)) with (length (rev r)) by lia.
  rewrite nth_error_app2 by lia. rewrite Nat.sub_diag. reflexivity.
Qed.

Definition blen (line : text) : N := if ends_with_nl line then len line - 1 else len line.
Definition Vb (ls : list text) (L C : N) : Prop :=
  forall line, line_at ls L = Some line -> C <= blen line.

Lemma end_info_ok ls fl fc : ls <> [] -> lines_end_info ls = (fl, fc) -> end_ok ls fl fc /\ Vb ls fl fc.
Proof.
  intros Hne H. rewrite lines_end_info_rev_head in H.
  destruct ls as [|a r]; [contradiction|]. destruct (rev_head_some a r) as [x Hx]. rewrite Hx in H.
  pose proof (rev_head_nth _ _ Hx) as Hn. set (ls := a :: r) in *.
  assert (Hlen : 1 <= len ls) by (unfold ls; rewrite slen_cons; lia).
  destruct (ends_with_nl x) eqn:E; inversion H; subst fl fc.
  - split; [left; split; reflexivity|]. intros line Hl. apply line_at_some in Hl. lia.
  - assert (Hl : line_at ls (len ls) = Some x).
    { unfold line_at. replace (len ls =? 0) with false by (symmetry; apply N.eqb_neq; lia). exact Hn. }
    split; [right; split; [reflexivity|exists x; split; [exact Hl|reflexivity]]|].
    intros line Hl'. rewrite Hl in Hl'. inversion Hl'. subst line. unfold blen. rewrite E. lia.
Qed.

Lemma full_tiles ls V fl fc ms :
  Forall starts_ok ls -> end_ok ls fl fc -> sorted_by pos_le ms = true ->
  Forall (fun m => V (g_line m) (g_col m)) ms -> Forall (fun m => 1 <= g_line m) ms -> V fl fc ->
  exists q,
    tiles ls V (snd (sm_full_loop ls fl fc (mkF 1 0 false None) ms) ++
                snd (sm_full_step ls fl fc (fst (sm_full_loop ls fl fc (mkF 1 0 false None) ms)) (unmapped fl fc)))
          (1, 0) q /\ prefix ls q = concat ls.
Proof.
  intros SOK He Hs HV H1 HVe.
  assert (Hend : fl <= len ls + 1 /\ (fl = len ls + 1 -> fc = 0)).
  { destruct He as [[A B]|[A _]]; lia. }
  assert (Hn : len ls <= fl) by (destruct He as [[A B]|[A _]]; lia).
  assert (HI0 : Inv fl fc (mkF 1 0 false None)).
  { split; [cbn; lia|cbn; discriminate]. }
  assert (Hh : match ms with m :: _ => ple (fpos (mkF 1 0 false None)) (mpos m) | [] => True end).
  { destruct ms as [|m ms']; [exact I|]. inversion H1. subst. unfold ple, fpos, mpos. cbn [fst snd f_line f_col]. lia. }
  pose proof (loop_spec ls V SOK fl fc Hend ms _ HI0 Hs HV Hh) as [A1 A2].
  destruct (sm_full_loop ls fl fc (mkF 1 0 false None) ms) as [st evs]. cbn [fst snd] in *.
  change (fpos (mkF 1 0 false None)) with (1, 0) in A2.
  assert (Hdec : ple (fpos st) (fl, fc) \/ ~ ple (fpos st) (fl, fc)) by (unfold ple; cbn [fst snd]; lia).
  destruct Hdec as [Hle|Hnle].
  - pose proof (step_spec ls V SOK fl fc Hend st (unmapped fl fc) A1 Hle HVe) as [B1 [B2 B3]].
    exists (fl, fc). split.
    + apply (tiles_app ls V evs _ (1, 0) (fpos st)); [exact A2|exact B3].
    + apply (prefix_end ls fl fc); [exact He|]. unfold plt. cbn [fst snd]. lia.
  - assert (Ha : f_active st = false).
    { destruct (f_active st) eqn:Ea; [|reflexivity]. destruct A1 as [_ A1]. specialize (A1 Ea).
      exfalso. apply Hnle. unfold plt in A1. unfold ple. lia. }
    rewrite (inert_step ls fl fc st Hn Ha Hnle), app_nil_r. exists (fpos st). split; [exact A2|].
    apply (prefix_end ls fl fc); [exact He|]. intros Hlt. apply Hnle. unfold plt in Hlt. unfold ple. lia.
Qed.

(* ------------------------------------------------------------------ *)
(* announcements carry no chunk                                        *)
(* ------------------------------------------------------------------ *)
Lemma announce_sources_chunks m srcs : forall i, chunks_of (announce_sources m srcs i) = [].
Proof. induction srcs as [|s srcs IH]; intros i; [reflexivity|]. cbn [announce_sources chunks_of]. apply IH. Qed.

Lemma announce_names_chunks names : forall i, chunks_of (announce_names names i) = [].
Proof. induction names as [|s names IH]; intros i; [reflexivity|]. cbn [announce_names chunks_of]. apply IH. Qed.

Lemma chunk_texts_chunks_of evs : chunk_texts evs = map fst (chunks_of evs).
Proof.
  induction evs as [|e evs IH]; [reflexivity|]. destruct e; cbn [chunk_texts chunks_of map fst]; rewrite IH; reflexivity.
Qed.

Lemma Good_nochunk_app a b p t : chunks_of a = [] -> Good b p t -> Good (a ++ b) p t.
Proof.
  intros Ha [[ts [H1 H2]] H3]. split.
  - exists ts. rewrite chunk_texts_chunks_of, chunks_of_app, Ha. cbn [app].
    rewrite <- chunk_texts_chunks_of. split; assumption.
  - unfold WP. rewrite chunks_of_app, Ha. exact H3.
Qed.

Lemma Reass_nochunk_app a b t : chunks_of a = [] -> Reass b t -> Reass (a ++ b) t.
Proof.
  intros Ha [ts [H1 H2]]. exists ts. rewrite chunk_texts_chunks_of, chunks_of_app, Ha. cbn [app].
  rewrite <- chunk_texts_chunks_of. split; assumption.
Qed.

Lemma WP_nochunk_app a b p : chunks_of a = [] -> WP b p -> WP (a ++ b) p.
Proof. intros Ha H. unfold WP. rewrite chunks_of_app, Ha. exact H. Qed.

(* ------------------------------------------------------------------ *)
(* decoded segments are on lines >= 1                                  *)
(* ------------------------------------------------------------------ *)
Lemma emit_line d p m : emit d p = Some m -> g_line m = d_gline d.
Proof.
  unfold emit. destruct (p =? 1); [intros H; inversion H; reflexivity|].
  destruct (p =? 4); [intros H; inversion H; reflexivity|].
  destruct (p =? 5); [intros H; inversion H; reflexivity|discriminate].
Qed.

Lemma dec_byte_line d c :
  d_gline d <= d_gline (fst (dec_byte d c)) /\
  (forall m, snd (dec_byte d c) = Some m -> g_line m = d_gline d).
Proof.
  unfold dec_byte. destruct (b64_val c =? ERR).
  { cbn [fst snd]. split; [lia|discriminate]. }
  destruct (negb (N.land (b64_val c) COM =? 0)).
  { cbn [fst snd]. split; [|intros m; apply emit_line].
    destruct (b64_val c =? SEM); cbn [d_gline]; lia. }
  destruct (N.land (b64_val c) 32 =? 0); cbn [fst snd d_gline]; (split; [lia|discriminate]).
Qed.

Lemma dec_run_lines s : forall d, Forall (fun m => d_gline d <= g_line m) (dec_run d s).
Proof.
  induction s as [|c s IH]; intros d.
  - cbn [dec_run]. destruct (emit d (d_pos d)) as [m|] eqn:E; [|constructor].
    apply emit_line in E. constructor; [lia|constructor].
  - cbn [dec_run]. pose proof (dec_byte_line d c) as [H1 H2].
    destruct (dec_byte d c) as [d' out]. cbn [fst snd] in *.
    assert (Hrest : Forall (fun m => d_gline d <= g_line m) (dec_run d' s)).
    { eapply Forall_impl; [|apply IH]. cbn beta. intros m Hm. lia. }
    destruct out as [m|]; [|exact Hrest].
    constructor; [rewrite (H2 m eq_refl); lia|exact Hrest].
Qed.

Lemma decode_lines_ge1 s : Forall (fun m => 1 <= g_line m) (decode_mappings s).
Proof. apply (dec_run_lines s dec_init). Qed.

(* ------------------------------------------------------------------ *)
(* L5, columns = true, final_source = false: reassembly                 *)
(* ------------------------------------------------------------------ *)
(* no line of t starts with a UTF-8 continuation byte (true of every valid UTF-8 text) *)
Definition starts_okb (l : text) : bool := match l with b :: _ => negb (is_cont b) | [] => true end.
Definition lines_ok (t : text) : bool := forallb starts_okb (split_lines t).

Lemma lines_ok_forall t : lines_ok t = true -> Forall starts_ok (split_lines t).
Proof.
  unfold lines_ok. rewrite forallb_forall, Forall_forall. intros H l Hl. specialize (H l Hl).
  destruct l as [|b l]; [exact I|]. cbn in *. apply negb_true_iff in H. exact H.
Qed.

Lemma split_lines_nil t : split_lines t = [] -> t = [].
Proof. intros H. rewrite <- (concat_split_lines t), H. reflexivity. Qed.

Lemma sm_full_tiles t m V fl fc :
  let ls := split_lines t in
  is_nil ls = false -> lines_end_info ls = (fl, fc) ->
  Forall starts_ok ls ->
  sorted_by pos_le (decode_mappings (sm_mappings m)) = true ->
  Forall (fun mp => V (g_line mp) (g_col mp)) (decode_mappings (sm_mappings m)) ->
  V fl fc ->
  exists evs q, fst (sm_stream_full t m) =
                  announce_sources m (sm_sources m) 0 ++ announce_names (sm_names m) 0 ++ evs /\
                tiles ls V evs (1, 0) q /\ prefix ls q = t.
Proof.
  intros ls Hnil Hinfo SOK Hs HV HVe.
  assert (Hne : ls <> []) by (apply is_nil_false; exact Hnil).
  pose proof (end_info_ok ls fl fc Hne Hinfo) as [He _].
  pose proof (full_tiles ls V fl fc _ SOK He Hs HV (decode_lines_ge1 _) HVe) as [q [H1 H2]].
  unfold sm_stream_full. fold ls. rewrite Hnil, Hinfo.
  destruct (sm_full_loop ls fl fc (mkF 1 0 false None) (decode_mappings (sm_mappings m))) as [st evs].
  cbn [fst snd] in H1.
  destruct (sm_full_step ls fl fc st (unmapped fl fc)) as [st' evs']. cbn [fst snd] in *.
  exists (evs ++ evs'), q. split; [reflexivity|]. split; [exact H1|].
  rewrite H2. apply concat_split_lines.
Qed.

(* Full statement (FALSE, see the counterexample at the end of the file):
     forall t m, sorted_by pos_le (decode_mappings (sm_mappings m)) = true ->
                 reassembles (fst (sm_stream_full t m)) t = true.
   It fails when a line of t starts with a continuation byte (t is then not valid UTF-8):
   `substring` counts characters from the first lead byte. *)
Theorem sm_stream_full_reassembles_partial (t : text) (m : smap) :
  lines_ok t = true ->
  sorted_by pos_le (decode_mappings (sm_mappings m)) = true ->
  reassembles (fst (sm_stream_full t m)) t = true.
Proof.
  intros Hok Hs. apply reassembles_iff.
  destruct (is_nil (split_lines t)) eqn:Hnil.
  - unfold sm_stream_full. rewrite Hnil. cbn [fst].
    apply is_nil_true in Hnil. rewrite (split_lines_nil t Hnil). apply Reass_nil.
  - destruct (lines_end_info (split_lines t)) as [fl fc] eqn:Hinfo.
    destruct (sm_full_tiles t m (fun _ _ => True) fl fc Hnil Hinfo (lines_ok_forall t Hok) Hs)
      as [evs [q [E [Ht Hq]]]].
    { apply Forall_forall. intros; exact I. }
    { exact I. }
    rewrite E. apply Reass_nochunk_app; [apply announce_sources_chunks|].
    apply Reass_nochunk_app; [apply announce_names_chunks|].
    apply tiles_reass in Ht. destruct Ht as [x [Hx Hp]].
    rewrite prefix_start in Hp. cbn [app] in Hp. rewrite <- Hq, Hp. exact Hx.
Qed.

Lemma ascii_in t c : ascii t = true -> In c t -> c < 128.
Proof. unfold ascii. rewrite forallb_forall. intros H Hc. apply N.ltb_lt. apply H. exact Hc. Qed.

Lemma ascii_of_in t : (forall c, In c t -> c < 128) -> ascii t = true.
Proof. intros H. unfold ascii. apply forallb_forall. intros c Hc. apply N.ltb_lt. apply H. exact Hc. Qed.

Lemma ascii_lines t : ascii t = true -> Forall (fun l => ascii l = true) (split_lines t).
Proof.
  intros H. apply Forall_forall. intros l Hl. apply ascii_of_in. intros c Hc.
  apply (ascii_in t c H). rewrite <- (concat_split_lines t). apply in_concat. exists l. split; assumption.
Qed.

Lemma ascii_lines_ok t : ascii t = true -> lines_ok t = true.
Proof.
  intros H. unfold lines_ok. apply forallb_forall. intros l Hl.
  pose proof (ascii_lines t H) as Ha. rewrite Forall_forall in Ha. specialize (Ha l Hl).
  destruct l as [|b l]; [reflexivity|]. cbn. apply negb_true_iff. apply ascii_not_cont.
  apply (ascii_in (b :: l) b Ha). left. reflexivity.
Qed.

Corollary sm_stream_full_reassembles_ascii (t : text) (m : smap) :
  ascii t = true ->
  sorted_by pos_le (decode_mappings (sm_mappings m)) = true ->
  reassembles (fst (sm_stream_full t m)) t = true.
Proof. intros H. apply sm_stream_full_reassembles_partial. apply ascii_lines_ok. exact H. Qed.

(* ------------------------------------------------------------------ *)
(* L5: positions on ASCII text                                         *)
(* ------------------------------------------------------------------ *)
Lemma take_lines_advance ls : lines_shape ls -> forall k l, k < len ls ->
  advance l 0 (concat (take k ls)) = (l + k, 0).
Proof.
  induction 1 as [|b Hne Hb|b ls Hb Hls IH]; intros k l Hk.
  - rewrite slen_nil in Hk. lia.
  - change (len [b]) with 1 in Hk. assert (k = 0) by lia. subst k. rewrite stake_0. cbn. peq.
  - destruct (N.eq_dec k 0) as [->|Hk0]; [rewrite stake_0; cbn; peq|].
    rewrite stake_pos by lia. cbn [concat].
    rewrite (advance_app' l 0 (b ++ [10]) _ (l + 1) 0) by (apply advance_nl_end; exact Hb).
    rewrite IH by (rewrite slen_cons in Hk; lia). peq.
Qed.

Lemma prefix_line_start ls L : prefix ls (L, 0) = concat (take (L - 1) ls).
Proof.
  unfold prefix. cbn [fst snd]. destruct (nth_opt ls (L - 1)); [rewrite cpre_0|]; apply app_nil_r.
Qed.

Lemma HG_lines ls : lines_shape ls ->
  forall L, 1 <= L -> L <= len ls -> adv (1, 0) (prefix ls (L, 0)) = (L, 0).
Proof.
  intros Hs L H1 H2. rewrite prefix_line_start. unfold adv. cbn [fst snd].
  rewrite (take_lines_advance ls Hs) by lia. peq.
Qed.

Lemma blen_snoc b : blen (b ++ [10]) = len b.
Proof. unfold blen. rewrite ends_with_nl_snoc, slen_app. change (10 =? NL) with true. cbn iota. change (len [10]) with 1. lia. Qed.

Lemma blen_no_nl b : no_nl b -> blen b = len b.
Proof. intros H. unfold blen. rewrite ends_with_nl_no_nl by exact H. reflexivity. Qed.

Lemma stake_app_l {A} (n : N) (a b : list A) : n <= len a -> take n (a ++ b) = take n a.
Proof.
  unfold take, len. intros H. rewrite firstn_app.
  replace (N.to_nat n - length a)%nat with 0%nat by lia. cbn [firstn]. apply app_nil_r.
Qed.

Lemma HV_ascii ls : lines_shape ls -> Forall (fun l => ascii l = true) ls ->
  forall L C line, Vb ls L C -> line_at ls L = Some line -> adv (1, 0) (prefix ls (L, C)) = (L, C).
Proof.
  intros Hs Ha L C line HV Hl. specialize (HV line Hl).
  pose proof (line_at_in _ _ _ Hl) as Hin. pose proof (line_at_some _ _ _ Hl) as [H1 [H2 Hn]].
  unfold prefix. cbn [fst snd]. rewrite Hn, adv_app. unfold adv at 2. cbn [fst snd].
  rewrite (take_lines_advance ls Hs) by lia. unfold adv. cbn [fst snd].
  replace (1 + (L - 1)) with L by lia.
  unfold cpre. destruct (C =? 0) eqn:E; [apply N.eqb_eq in E; subst C; reflexivity|].
  rewrite Forall_forall in Ha. rewrite (co_ascii line C (Ha line Hin)).
  pose proof (lines_shape_pieces ls Hs) as Hp. rewrite Forall_forall in Hp.
  destruct (Hp line Hin) as [b [Hb [->|[-> _]]]].
  - rewrite blen_snoc in HV. rewrite slen_app. change (len [10]) with 1.
    replace (N.min C (len b + 1)) with C by lia. rewrite stake_app_l by exact HV.
    rewrite advance_no_nl by (apply no_nl_take; exact Hb). rewrite slen_take. peq.
  - rewrite blen_no_nl in HV by exact Hb. replace (N.min C (len b)) with C by lia.
    rewrite advance_no_nl by (apply no_nl_take; exact Hb). rewrite slen_take. peq.
Qed.

(* every segment that falls on a line of t lies on its content or on its line break *)
Definition segs_ok (t : text) (ms : list mapping) : bool :=
  forallb (fun mp => match line_at (split_lines t) (g_line mp) with
                     | Some line => g_col mp <=? blen line
                     | None => true
                     end) ms.

Lemma segs_ok_forall t ms : segs_ok t ms = true ->
  Forall (fun mp => Vb (split_lines t) (g_line mp) (g_col mp)) ms.
Proof.
  unfold segs_ok. rewrite forallb_forall, Forall_forall. intros H mp Hmp line Hl.
  specialize (H mp Hmp). rewrite Hl in H. apply N.leb_le. exact H.
Qed.

(* Full statement (FALSE, see the counterexample at the end of the file):
     forall t m, ascii t = true -> sorted_by pos_le (decode_mappings (sm_mappings m)) = true ->
                 well_positioned (chunks_of (fst (sm_stream_full t m))) 1 0 = true.
   A segment past the end of its line makes the splitter report a later (empty) chunk at a
   position that is not a position of the text. *)
Theorem sm_stream_full_positioned_partial (t : text) (m : smap) :
  ascii t = true ->
  sorted_by pos_le (decode_mappings (sm_mappings m)) = true ->
  segs_ok t (decode_mappings (sm_mappings m)) = true ->
  well_positioned (chunks_of (fst (sm_stream_full t m))) 1 0 = true.
Proof.
  intros Ha Hs Hseg.
  destruct (is_nil (split_lines t)) eqn:Hnil.
  - unfold sm_stream_full. rewrite Hnil. reflexivity.
  - destruct (lines_end_info (split_lines t)) as [fl fc] eqn:Hinfo.
    pose proof (end_info_ok _ fl fc (is_nil_false _ Hnil) Hinfo) as [_ HVe].
    destruct (sm_full_tiles t m (Vb (split_lines t)) fl fc Hnil Hinfo
                (lines_ok_forall t (ascii_lines_ok t Ha)) Hs (segs_ok_forall t _ Hseg) HVe)
      as [evs [q [E [Ht Hq]]]].
    rewrite E. change (WP (announce_sources m (sm_sources m) 0 ++ announce_names (sm_names m) 0 ++ evs) (1, 0)).
    apply WP_nochunk_app; [apply announce_sources_chunks|].
    apply WP_nochunk_app; [apply announce_names_chunks|].
    pose proof (tiles_wp (split_lines t) (Vb (split_lines t))
                  (HG_lines _ (split_lines_shape t))
                  (HV_ascii _ (split_lines_shape t) (ascii_lines t Ha)) evs (1, 0) q Ht) as Hw.
    rewrite prefix_start in Hw. apply Hw. intros _. reflexivity.
Qed.

(* ------------------------------------------------------------------ *)
(* L5, columns = false, final_source = false: every t, every m          *)
(* ------------------------------------------------------------------ *)
Lemma lines_loop_spec ls V : forall ms cur,
  1 <= cur -> cur <= len ls + 1 ->
  1 <= fst (sm_lines_full_loop ls ms cur) /\ fst (sm_lines_full_loop ls ms cur) <= len ls + 1 /\
  tiles ls V (snd (sm_lines_full_loop ls ms cur)) (cur, 0) (fst (sm_lines_full_loop ls ms cur), 0).
Proof.
  induction ms as [|m ms IH]; intros cur H1 H2.
  - cbn [sm_lines_full_loop fst snd]. split; [exact H1|]. split; [exact H2|apply T_nil].
  - cbn [sm_lines_full_loop]. destruct (m_orig m) as [o|]; [|apply IH; assumption].
    destruct ((g_line m <? cur) || (len ls <? g_line m)) eqn:E; [apply IH; assumption|].
    apply orb_false_iff in E. destruct E as [E1 E2]. apply N.ltb_ge in E1. apply N.ltb_ge in E2.
    assert (Hg1 : 1 <= g_line m) by lia.
    destruct (line_at_exists ls (g_line m) Hg1 E2) as [line Hline]. rewrite Hline.
    assert (Hc1 : 1 <= g_line m + 1) by lia. assert (Hc2 : g_line m + 1 <= len ls + 1) by lia.
    pose proof (IH (g_line m + 1) Hc1 Hc2) as [A1 [A2 A3]].
    destruct (sm_lines_full_loop ls ms (g_line m + 1)) as [cur' evs]. cbn [fst snd] in *.
    split; [exact A1|]. split; [exact A2|].
    apply (tiles_app ls V _ _ (cur, 0) (g_line m, 0)); [apply whole_lines_tiles; assumption|].
    cbn [app]. apply T_line; [exact Hline|exact A3].
Qed.

Theorem sm_stream_lines_full_good (t : text) (m : smap) :
  Good (fst (sm_stream_lines_full t m)) (1, 0) t.
Proof.
  unfold sm_stream_lines_full. destruct (is_nil (split_lines t)) eqn:Hnil.
  - cbn [fst]. apply is_nil_true in Hnil. rewrite (split_lines_nil t Hnil). apply Good_nil.
  - set (ls := split_lines t) in *. set (V := fun _ _ : N => False).
    assert (H1 : 1 <= 1) by lia. assert (H2 : 1 <= len ls + 1) by lia.
    pose proof (lines_loop_spec ls V (decode_mappings (sm_mappings m)) 1 H1 H2) as [A1 [A2 A3]].
    destruct (sm_lines_full_loop ls (decode_mappings (sm_mappings m)) 1) as [cur evs]. cbn [fst snd] in *.
    apply Good_nochunk_app; [apply announce_sources_chunks|].
    assert (Ht : tiles ls V (evs ++ whole_lines ls 1 cur (len ls + 1)) (1, 0) (len ls + 1, 0)).
    { apply (tiles_app ls V _ _ (1, 0) (cur, 0)); [exact A3|]. apply whole_lines_tiles; assumption. }
    split.
    + pose proof (tiles_reass ls V _ _ _ Ht) as [x [Hx Hp]].
      rewrite prefix_start, prefix_beyond in Hp by (cbn [fst]; lia). cbn [app] in Hp.
      rewrite <- Hp in Hx. unfold ls in Hx. rewrite concat_split_lines in Hx. exact Hx.
    + assert (HV : forall L C line, V L C -> line_at ls L = Some line -> adv (1, 0) (prefix ls (L, C)) = (L, C))
        by (intros L C line []).
      pose proof (tiles_wp ls V (HG_lines ls (split_lines_shape t)) HV _ _ _ Ht) as Hw.
      rewrite prefix_start in Hw. apply Hw. intros _. reflexivity.
Qed.

Theorem sm_stream_lines_full_reassembles (t : text) (m : smap) :
  reassembles (fst (sm_stream_lines_full t m)) t = true.
Proof. apply reassembles_iff. apply sm_stream_lines_full_good. Qed.

Theorem sm_stream_lines_full_positioned (t : text) (m : smap) :
  well_positioned (chunks_of (fst (sm_stream_lines_full t m))) 1 0 = true.
Proof. apply (sm_stream_lines_full_good t m). Qed.

(* ------------------------------------------------------------------ *)
(* L5: end position, all four option combinations                      *)
(* ------------------------------------------------------------------ *)
Theorem sm_stream_end (t : text) (m : smap) (o : opts) : snd (sm_stream t m o) = advance 1 0 t.
Proof.
  destruct o as [cols fin]. unfold sm_stream. cbn [columns final_source]. destruct cols, fin.
  - unfold sm_stream_final. pose proof (gen_info_advance t) as H.
    destruct (gen_info t) as [rl rc]. destruct ((rl =? 1) && (rc =? 0)); exact H.
  - unfold sm_stream_full. destruct (is_nil (split_lines t)) eqn:Hnil.
    + apply is_nil_true in Hnil. rewrite (split_lines_nil t Hnil). reflexivity.
    + pose proof (lines_end_info_advance t) as H.
      destruct (lines_end_info (split_lines t)) as [fl fc].
      destruct (sm_full_loop (split_lines t) fl fc (mkF 1 0 false None) (decode_mappings (sm_mappings m))) as [st evs].
      destruct (sm_full_step (split_lines t) fl fc st (unmapped fl fc)) as [st' evs']. exact H.
  - unfold sm_stream_lines_final. pose proof (gen_info_advance t) as H.
    destruct (gen_info t) as [rl rc]. destruct ((rl =? 1) && (rc =? 0)) eqn:E; [|exact H].
    apply andb_true_iff in E. destruct E as [E1 E2]. apply N.eqb_eq in E1. apply N.eqb_eq in E2.
    subst rl rc. exact H.
  - unfold sm_stream_lines_full. destruct (is_nil (split_lines t)) eqn:Hnil.
    + apply is_nil_true in Hnil. rewrite (split_lines_nil t Hnil). reflexivity.
    + destruct (sm_lines_full_loop (split_lines t) (decode_mappings (sm_mappings m)) 1) as [cur evs].
      cbn [snd]. apply lines_end_info_advance.
Qed.

(* ------------------------------------------------------------------ *)
(* valid UTF-8 texts satisfy lines_ok                                   *)
(* ------------------------------------------------------------------ *)
(* no continuation byte at the start of the text or right after a line break *)
Fixpoint okc (t : text) (at_start : bool) : bool :=
  match t with
  | [] => true
  | b :: t' => (if at_start then negb (is_cont b) else true) && okc t' (b =? NL)
  end.

Lemma okc_weaken t : okc t true = true -> okc t false = true.
Proof.
  destruct t as [|b t]; [reflexivity|]. cbn [okc]. intros H. apply andb_true_iff in H. apply H.
Qed.

Lemma okc_cons b t : is_cont b = false -> okc t true = true -> okc (b :: t) true = true.
Proof.
  intros Hb Ht. cbn [okc]. rewrite Hb. cbn [negb andb]. destruct (b =? NL); [exact Ht|apply okc_weaken; exact Ht].
Qed.

Lemma okc_skip b t : okc t true = true -> okc (b :: t) false = true.
Proof.
  intros Ht. cbn [okc andb]. destruct (b =? NL); [exact Ht|apply okc_weaken; exact Ht].
Qed.

Lemma starts_okb_push c cur :
  (if is_nil cur then negb (is_cont c) else true) = true ->
  starts_okb (rev cur) = true -> starts_okb (rev (c :: cur)) = true.
Proof.
  intros H1 H2. cbn [rev]. destruct cur as [|x cur]; [cbn in *; exact H1|].
  destruct (rev (x :: cur)) as [|y r] eqn:E.
  - exfalso. apply (rev_nonempty (x :: cur)); [discriminate|exact E].
  - exact H2.
Qed.

Lemma okc_lines t : forall cur, okc t (is_nil cur) = true -> starts_okb (rev cur) = true ->
  forallb starts_okb (split_lines_aux t cur) = true.
Proof.
  induction t as [|c t IH]; intros cur H Hcur.
  - cbn [split_lines_aux]. destruct cur as [|x cur]; [reflexivity|]. cbn [forallb]. rewrite Hcur. reflexivity.
  - cbn [okc] in H. apply andb_true_iff in H. destruct H as [H1 H2].
    pose proof (starts_okb_push c cur H1 Hcur) as Hpush.
    cbn [split_lines_aux]. destruct (c =? NL) eqn:E.
    + cbn [forallb]. rewrite Hpush. cbn [andb]. apply IH; [exact H2|reflexivity].
    + apply IH; [exact H2|exact Hpush].
Qed.

Lemma not_cont_lt b : b < 128 -> is_cont b = false.
Proof. apply ascii_not_cont. Qed.

Lemma not_cont_ge b : 192 <= b -> is_cont b = false.
Proof. intros H. unfold is_cont. apply andb_false_iff. right. apply N.ltb_ge. exact H. Qed.

Lemma in_range_ge lo hi b : in_range lo hi b = true -> lo <= b.
Proof. unfold in_range. intros H. apply andb_true_iff in H. destruct H as [H _]. apply N.leb_le. exact H. Qed.

Lemma okc_lead b t : 192 <= b -> okc t false = true -> okc (b :: t) true = true.
Proof.
  intros Hb Ht. cbn [okc]. rewrite (not_cont_ge b Hb). cbn [negb andb].
  replace (b =? NL) with false by (symmetry; apply N.eqb_neq; unfold NL; lia). exact Ht.
Qed.

Lemma okc_skip_ge b t : 128 <= b -> okc t false = true -> okc (b :: t) false = true.
Proof.
  intros Hb Ht. cbn [okc andb].
  replace (b =? NL) with false by (symmetry; apply N.eqb_neq; unfold NL; lia). exact Ht.
Qed.

Ltac cont_ge :=
  match goal with
  | E : in_range _ _ ?b = true |- 128 <= ?b => apply in_range_ge in E; lia
  end.

Ltac split_andb :=
  repeat match goal with
         | H : (_ && _) = true |- _ => apply andb_true_iff in H; destruct H
         end.

Ltac lead_ge :=
  match goal with
  | E : in_range _ _ ?b = true |- 192 <= ?b => apply in_range_ge in E; lia
  | E : (?b =? _) = true |- 192 <= ?b => apply N.eqb_eq in E; lia
  | E : (_ || _) = true |- 192 <= ?b =>
    apply orb_true_iff in E; destruct E as [E|E]; apply in_range_ge in E; lia
  end.

Lemma valid_okc : forall f t, valid_utf8_fuel f t = true -> okc t true = true.
Proof.
  induction f as [|f IH]; intros t H.
  - destruct t; [reflexivity|discriminate].
  - destruct t as [|b0 t1]; [reflexivity|]. cbn [valid_utf8_fuel] in H.
    destruct (b0 <? 128) eqn:E0.
    { apply N.ltb_lt in E0. apply okc_cons; [apply not_cont_lt; exact E0|apply IH; exact H]. }
    destruct (in_range 194 223 b0) eqn:E1.
    { destruct t1 as [|b1 t2]; [discriminate|]. split_andb.
      apply okc_lead; [lead_ge|]. apply okc_skip_ge; [cont_ge|]. apply okc_weaken. apply IH. assumption. }
    destruct (b0 =? 224) eqn:E2.
    { destruct t1 as [|b1 [|b2 t3]]; try discriminate. split_andb.
      apply okc_lead; [lead_ge|]. do 2 (apply okc_skip_ge; [cont_ge|]). apply okc_weaken. apply IH. assumption. }
    destruct (in_range 225 236 b0 || in_range 238 239 b0) eqn:E3.
    { destruct t1 as [|b1 [|b2 t3]]; try discriminate. split_andb.
      apply okc_lead; [lead_ge|]. do 2 (apply okc_skip_ge; [cont_ge|]). apply okc_weaken. apply IH. assumption. }
    destruct (b0 =? 237) eqn:E4.
    { destruct t1 as [|b1 [|b2 t3]]; try discriminate. split_andb.
      apply okc_lead; [lead_ge|]. do 2 (apply okc_skip_ge; [cont_ge|]). apply okc_weaken. apply IH. assumption. }
    destruct (b0 =? 240) eqn:E5.
    { destruct t1 as [|b1 [|b2 [|b3 t4]]]; try discriminate. split_andb.
      apply okc_lead; [lead_ge|]. do 3 (apply okc_skip_ge; [cont_ge|]). apply okc_weaken. apply IH. assumption. }
    destruct (in_range 241 243 b0) eqn:E6.
    { destruct t1 as [|b1 [|b2 [|b3 t4]]]; try discriminate. split_andb.
      apply okc_lead; [lead_ge|]. do 3 (apply okc_skip_ge; [cont_ge|]). apply okc_weaken. apply IH. assumption. }
    destruct (b0 =? 244) eqn:E7; [|discriminate].
    destruct t1 as [|b1 [|b2 [|b3 t4]]]; try discriminate. split_andb.
    apply okc_lead; [lead_ge|]. do 3 (apply okc_skip_ge; [cont_ge|]). apply okc_weaken. apply IH. assumption.
Qed.

Theorem valid_utf8_lines_ok (t : text) : valid_utf8 t = true -> lines_ok t = true.
Proof.
  intros H. unfold lines_ok, split_lines. apply okc_lines; [|reflexivity].
  apply (valid_okc (length t) t H).
Qed.

Corollary sm_stream_full_reassembles_utf8 (t : text) (m : smap) :
  valid_utf8 t = true ->
  sorted_by pos_le (decode_mappings (sm_mappings m)) = true ->
  reassembles (fst (sm_stream_full t m)) t = true.
Proof. intros H. apply sm_stream_full_reassembles_partial. apply valid_utf8_lines_ok. exact H. Qed.

(* ------------------------------------------------------------------ *)
(* the checker's domain (`map_consistent`) implies sorted + segs_ok      *)
(* ------------------------------------------------------------------ *)
Lemma strip_len (line : text) :
  len (if ends_with_nl line then removelast line else line) = blen line.
Proof.
  unfold blen. destruct (ends_with_nl line) eqn:E; [|reflexivity].
  destruct line as [|x line]; [discriminate|].
  destruct (exists_last (l := x :: line)) as [l' [y Hy]]; [discriminate|].
  rewrite Hy, removelast_last, slen_app. change (len [y]) with 1. lia.
Qed.

Lemma line_contents_nth t L line : line_at (split_lines t) L = Some line ->
  nth_opt (line_contents t) (L - 1) = Some (if ends_with_nl line then removelast line else line).
Proof.
  intros H. apply line_at_some in H. destruct H as [H1 [H2 H3]].
  unfold line_contents, nth_opt in *. rewrite nth_error_app1.
  - apply (map_nth_error (fun l : text => if ends_with_nl l then removelast l else l)). exact H3.
  - rewrite map_length. unfold len in H2. lia.
Qed.

Lemma is_position_Vb t L C : is_position t L C = true ->
  match line_at (split_lines t) L with Some line => C <=? blen line | None => true end = true.
Proof.
  intros H. destruct (line_at (split_lines t) L) as [line|] eqn:E; [|reflexivity].
  unfold is_position in H. pose proof (line_at_some _ _ _ E) as [H1 _].
  replace (L =? 0) with false in H by (symmetry; apply N.eqb_neq; lia).
  rewrite (line_contents_nth t L line E), strip_len in H. exact H.
Qed.

Lemma positions_segs_ok t ms :
  forallb (fun mp => is_position t (g_line mp) (g_col mp)) ms = true -> segs_ok t ms = true.
Proof.
  unfold segs_ok. rewrite !forallb_forall. intros H mp Hmp. apply is_position_Vb. apply H. exact Hmp.
Qed.

Lemma segs_inside_positions t m ms : segs_inside t m ms = true ->
  forallb (fun mp => is_position t (g_line mp) (g_col mp)) ms = true.
Proof.
  induction ms as [|mp ms IH]; [reflexivity|]. cbn [segs_inside forallb]. intros H.
  apply andb_true_iff in H. destruct H as [H H3]. apply andb_true_iff in H. destruct H as [H1 _].
  rewrite H1, (IH H3). reflexivity.
Qed.

Lemma sorted_lt_le ms : sorted_by pos_lt ms = true -> sorted_by pos_le ms = true.
Proof.
  induction ms as [|a ms IH]; [reflexivity|]. destruct ms as [|b ms']; [reflexivity|].
  cbn [sorted_by]. intros H. apply andb_true_iff in H. destruct H as [H1 H2].
  apply andb_true_iff. split; [|apply IH; exact H2].
  unfold pos_lt in H1. unfold pos_le. apply orb_true_iff in H1. apply orb_true_iff.
  destruct H1 as [H1|H1]; [left; exact H1|right].
  apply andb_true_iff in H1. destruct H1 as [E1 E2]. apply andb_true_iff. split; [exact E1|].
  apply N.ltb_lt in E2. apply N.leb_le. lia.
Qed.

Theorem map_consistent_ok t m : map_consistent t m = true ->
  sorted_by pos_le (decode_mappings (sm_mappings m)) = true /\
  segs_ok t (decode_mappings (sm_mappings m)) = true.
Proof.
  unfold map_consistent. intros H. apply andb_true_iff in H. destruct H as [H _].
  apply andb_true_iff in H. destruct H as [H1 H2]. split; [apply sorted_lt_le; exact H1|].
  apply positions_segs_ok. apply (segs_inside_positions t m). exact H2.
Qed.

(* ------------------------------------------------------------------ *)
(* counterexamples to the unrestricted statements                      *)
(* ------------------------------------------------------------------ *)
Definition cex_map (s : text) : smap := mkSmap None s [] [] [] None None.

(* FIXED by skipping empty unmapped chunks (phases 2 and 4 of sm_full_step_body).
   "ab\nc" with mappings "K;A" = segments (1,5) and (2,0): sorted, ASCII, reassembles; the empty
   chunk closing line 1 used to be reported at (1,5) while the text is at (2,0) (the stream was
   not well positioned); it is no longer emitted *)
Example fixed_full_positions :
  let t := [97; 98; 10; 99] in let m := cex_map [75; 59; 65] in
  (ascii t, sorted_by pos_le (decode_mappings (sm_mappings m)),
   reassembles (fst (sm_stream_full t m)) t,
   chunk_texts (fst (sm_stream_full t m)),
   well_positioned (chunks_of (fst (sm_stream_full t m))) 1 0)
  = (true, true, true, [Some [97; 98; 10]; Some [99]], true).
Proof. vm_compute. reflexivity. Qed.

(* a text starting with a continuation byte (not valid UTF-8), mappings "C" = segment (1,1) *)
Example cex_full_reassembles :
  let t := [128; 65] in let m := cex_map [67] in
  (sorted_by pos_le (decode_mappings (sm_mappings m)), reassembles (fst (sm_stream_full t m)) t)
  = (true, false).
Proof. vm_compute. reflexivity. Qed.

(* known finding K4, FIXED by the guard of sm_full_step (a mapping before the current position
   is ignored).  "abcdef" with mappings "GAAA,F,G" = segments (1,3) mapped, (1,1), (1,4): the
   backward segment (1,1) used to close the active mapping with an empty chunk and move the
   position back, so that "bc" was emitted twice ("abc" "bcd" "ef"); it is now skipped.
   The general statement is Proofs/StreamMapAny.v. *)
Example fixed_full_unsorted :
  let t := [97; 98; 99; 100; 101; 102] in
  let m := mkSmap None [71; 65; 65; 65; 44; 70; 44; 71] [[120]] [] [] None None in
  (ascii t, sorted_by pos_le (decode_mappings (sm_mappings m)),
   chunk_texts (fst (sm_stream_full t m)), reassembles (fst (sm_stream_full t m)) t)
  = (true, false, [Some [97; 98; 99]; Some [100]; Some [101; 102]], true).
Proof. vm_compute. reflexivity. Qed.

(* the witness of K4 as recorded on the implementation: "abcdefgh" with mappings "IAAA,HAAE" =
   segments (1,4) and (1,1), both mapped; the old splitter emitted "abcd" "bcdefgh" *)
Example fixed_full_K4 :
  let t := [97; 98; 99; 100; 101; 102; 103; 104] in
  let m := mkSmap None [73; 65; 65; 65; 44; 72; 65; 65; 69] [[120]] [] [] None None in
  (ascii t, sorted_by pos_le (decode_mappings (sm_mappings m)),
   chunk_texts (fst (sm_stream_full t m)), reassembles (fst (sm_stream_full t m)) t)
  = (true, false, [Some [97; 98; 99; 100]; Some [101; 102; 103; 104]], true).
Proof. vm_compute. reflexivity. Qed.

Print Assumptions sm_stream_full_reassembles_partial.
Print Assumptions sm_stream_full_reassembles_ascii.
Print Assumptions sm_stream_full_reassembles_utf8.
Print Assumptions sm_stream_full_positioned_partial.
Print Assumptions sm_stream_lines_full_reassembles.
Print Assumptions sm_stream_lines_full_positioned.
Print Assumptions sm_stream_end.
Print Assumptions valid_utf8_lines_ok.
Print Assumptions map_consistent_ok.
