(* A SourceMapSource WITH an inner source map as a LEAF of the tree theorems, part 1 (L1 a, b).
   `combined_rsegs` (CombAllT12.v) says that the resolved (text, position, attribution) sequence
   of the combined stream is the pointwise image of the OUTER splitter's sequence.  Chunk texts
   and generated positions are therefore those of `sm_stream v m o`, and everything that depends
   on texts and positions only transfers from the outer splitter:
     text-carrying streams   reassemble v, well positioned from (1,0), a line feed at most as last
                             byte of a chunk, no empty chunk, dense, exact end info;
     text-less streams       dense, every segment on a position of v, sorted, exact end info
                             (`kid_ok`), every mapped segment strictly before the end (`kidL_ok`).
   Domain: `treeA` of the leaf (ASCII texts, outer map consistent with v) and `c09_wf`. *)
From RS Require Import Base.Prelude Base.Text Rope.RopeModel Codec.Vlq Codec.CodecSpec
  Checkers.ChkCodec Stream.Types Stream.Leaves Stream.Concat Stream.Replace Stream.Combined Stream.Tree
  Sem.Attr Checkers.ChkTree Checkers.ChkCombined
  Proofs.CodecKept Proofs.StreamText Proofs.StreamLeaves Proofs.StreamMap Proofs.StreamConcat Proofs.StreamTree
  Proofs.WfStream Proofs.WfFinal Proofs.RStreamText Proofs.RStreamPos Proofs.RStreamTree
  Proofs.AttrCodec Proofs.AttrSms Proofs.AttrLeaves Proofs.LawConcatAttr Proofs.LawWrappers
  Proofs.CacheReplay Proofs.FinalDense Proofs.FinalReplace Proofs.FinalConcat Proofs.FinalTree
  Proofs.ReplAttrStream Proofs.ReplAttrOrigin Proofs.ReplAttrSms Proofs.ReplAttrTree
  Proofs.LinesBase Proofs.LinesSelf Proofs.LinesConcat Proofs.LinesTree
  Proofs.CombAllSpec Proofs.CombAllT12 Proofs.CombAllChk.
Require Import Lia List.

Local Open Scope N_scope.

(* ------------------------------------------------------------------ *)
(* texts and positions, read off the resolved sequence                  *)
(* ------------------------------------------------------------------ *)
Lemma rsegs_texts : forall evs S Nn, map fst (rsegs_of_events evs S Nn) = chunk_texts evs.
Proof.
  induction evs as [|e evs IH]; intros S Nn; [reflexivity|].
  destruct e as [t mp|i n c|i n]; cbn [rsegs_of_events chunk_texts map fst]; [f_equal| |]; apply IH.
Qed.

(* a pointwise transformer of the attribution of a resolved sequence *)
Definition on_attr (f : attr -> attr) (r : option text * rseg) : option text * rseg :=
  (fst r, (fst (snd r), f (snd (snd r)))).
Definition on_seg (f : attr -> attr) (s : rseg) : rseg := (fst s, f (snd s)).

Lemma rc_seg_on_attr cols m im name given remove :
  forall r, rc_seg cols m im name given remove r = on_attr (resolve_combined cols m im name given remove) r.
Proof. intros [t [[gl gc] a]]. reflexivity. Qed.

Lemma on_attr_texts f l : map fst (map (on_attr f) l) = map fst l.
Proof. rewrite map_map. apply map_ext. intros r. reflexivity. Qed.

Lemma on_attr_positions f (l : list (option text * rseg)) :
  map (fun r : option text * rseg => fst (snd r)) (map (on_attr f) l) = map (fun r => fst (snd r)) l.
Proof. rewrite map_map. apply map_ext. intros r. reflexivity. Qed.

Lemma on_attr_segs f (l : list (option text * rseg)) : map snd (map (on_attr f) l) = map (on_seg f) (map snd l).
Proof. rewrite !map_map. apply map_ext. intros r. reflexivity. Qed.

(* two event lists with the same chunk texts and the same generated positions *)
Definition same_tp (a b : list event) : Prop :=
  chunk_texts a = chunk_texts b /\ map mpos (chunk_mappings a) = map mpos (chunk_mappings b).

Lemma rsegs_same_tp f a b :
  rsegs_of_events a [] [] = map (on_attr f) (rsegs_of_events b [] []) -> same_tp a b.
Proof.
  intros H. split.
  - rewrite <- (rsegs_texts a [] []), <- (rsegs_texts b [] []), H. apply on_attr_texts.
  - rewrite (chunk_positions a [] []), (chunk_positions b [] []), H. apply on_attr_positions.
Qed.

(* ------------------------------------------------------------------ *)
(* what depends on texts and positions only                             *)
(* ------------------------------------------------------------------ *)
Lemma wp_same : forall (A B : list (option text * mapping)) l c,
  map fst A = map fst B -> map (fun ch => mpos (snd ch)) A = map (fun ch => mpos (snd ch)) B ->
  well_positioned A l c = well_positioned B l c.
Proof.
  induction A as [|[ta ma] A IH]; intros [|[tb mb] B] l c H1 H2; try discriminate; [reflexivity|].
  cbn [map fst snd] in H1, H2. inversion H1 as [[E1 E1']]. inversion H2 as [[E2 E3 E2']]. subst tb.
  cbn [well_positioned]. destruct ta as [t|]; [|reflexivity].
  rewrite E2, E3. destruct (advance l c t) as [l' c']. rewrite (IH B l' c' E1' E2'). reflexivity.
Qed.

Lemma same_tp_WP a b p : same_tp a b -> WP b p -> WP a p.
Proof.
  intros [H1 H2]. unfold WP. intros H. rewrite <- H. apply wp_same.
  - rewrite <- !chunk_texts_map. exact H1.
  - rewrite !chunk_mappings_chunks_of, !map_map in H2. exact H2.
Qed.

Lemma same_tp_Reass a b t : same_tp a b -> Reass b t -> Reass a t.
Proof. intros [H _]. apply Reass_texts. exact H. Qed.

Lemma same_tp_NLL a b : same_tp a b -> NLL b -> NLL a.
Proof. intros [H _]. apply NLL_texts. exact H. Qed.

Lemma same_tp_ne a b : same_tp a b -> no_empty_chunks b = true -> no_empty_chunks a = true.
Proof. intros [H _]. unfold no_empty_chunks. rewrite H. auto. Qed.

Lemma ev_pos_positions t evs :
  Forall (ev_pos t) evs <-> Forall (fun p => is_position t (fst p) (snd p) = true) (map mpos (chunk_mappings evs)).
Proof.
  rewrite Forall_map. split; intros H.
  - apply ev_pos_cm in H. exact H.
  - apply cm_ev_pos. exact H.
Qed.

Lemma same_tp_ev_pos a b t : same_tp a b -> Forall (ev_pos t) b -> Forall (ev_pos t) a.
Proof. intros [_ H]. rewrite !ev_pos_positions, H. auto. Qed.

Lemma same_tp_ssorted a b : same_tp a b -> ssorted (chunk_mappings b) -> ssorted (chunk_mappings a).
Proof. intros [_ H]. rewrite !ssorted_psorted, H. auto. Qed.

(* ------------------------------------------------------------------ *)
(* the combined stream against the outer splitter                       *)
(* ------------------------------------------------------------------ *)
Section Leaf.
Variables (v name : text) (m : smap) (given : option text) (im : smap) (remove : bool).

Definition RC (cols : bool) : attr -> attr := resolve_combined cols m im name given remove.

Lemma RC_none cols : RC cols None = None.
Proof. reflexivity. Qed.

Lemma combined_snd o : snd (combined_stream v m name given im remove o) = snd (sm_stream v m o).
Proof.
  unfold combined_stream. destruct (sm_stream v m o) as [oevs gi].
  destruct (outer_events _ name remove (b_init given) oevs) as [st' evs]. reflexivity.
Qed.

Lemma combined_end o : snd (combined_stream v m name given im remove o) = advance 1 0 v.
Proof. rewrite combined_snd. apply sm_stream_end. Qed.

Hypothesis Hwf : c09_wf v m name given im.

Lemma combined_rsegs_on o :
  rsegs_of_events (fst (combined_stream v m name given im remove o)) [] [] =
  map (on_attr (RC (columns o))) (rsegs_of_events (fst (sm_stream v m o)) [] []).
Proof.
  rewrite (combined_rsegs v m name given im remove o Hwf). apply map_ext. apply rc_seg_on_attr.
Qed.

Lemma combined_same_tp o :
  same_tp (fst (combined_stream v m name given im remove o)) (fst (sm_stream v m o)).
Proof. apply (rsegs_same_tp (RC (columns o))). apply combined_rsegs_on. Qed.

Lemma combined_fsegs o :
  fsegs (fst (combined_stream v m name given im remove o)) [] [] =
  map (on_seg (RC (columns o))) (fsegs (fst (sm_stream v m o)) [] []).
Proof. unfold fsegs. rewrite combined_rsegs_on. apply on_attr_segs. Qed.

Lemma wf_consistent : map_consistent v m = true.
Proof. destruct Hwf as [H _]. exact H. Qed.

(* ---- L1 (a): the text-carrying streams ---- *)
Hypothesis HA : treeA (SMapped v name m given (Some im) remove) = true.

Lemma treeA_outer : treeA (SMapped v name m given None remove) = true.
Proof.
  unfold treeA in *. cbn [tree_wf tree_ascii] in *. apply andb_true_iff in HA. destruct HA as [H1 H2].
  rewrite H1. cbn [andb]. apply andb_true_iff in H2. destruct H2 as [H2 _]. rewrite H2. reflexivity.
Qed.

Lemma leaf_ascii : ascii v = true.
Proof.
  pose proof treeA_outer as H. unfold treeA in H. apply andb_true_iff in H. destruct H as [_ H].
  apply (mapped_ascii v name m given remove H).
Qed.

Lemma outer_text_good cols :
  Good (fst (sm_stream v m (mkOpts cols false))) (1, 0) v /\ NLL (fst (sm_stream v m (mkOpts cols false))).
Proof.
  pose proof (rgood_all (SMapped v name m given None remove) [] cols eq_refl treeA_outer eq_refl)
    as [A1 [A2 _]]. cbn zeta in A1, A2. cbn [stream fst source] in A1, A2. split; assumption.
Qed.

Lemma outer_text_ne cols : no_empty_chunks (fst (sm_stream v m (mkOpts cols false))) = true.
Proof.
  unfold sm_stream. cbn [columns final_source]. destruct cols.
  - apply sm_stream_full_ne_any.
  - apply sm_stream_lines_full_ne.
Qed.

Theorem combined_text_good cols :
  let evs := fst (combined_stream v m name given im remove (mkOpts cols false)) in
  Good evs (1, 0) v /\ NLL evs /\ no_empty_chunks evs = true /\ dense evs 0 0 = true.
Proof.
  cbn zeta. pose proof (combined_same_tp (mkOpts cols false)) as S.
  destruct (outer_text_good cols) as [[R W] Nl].
  split; [split; [apply (same_tp_Reass _ _ _ S R)|apply (same_tp_WP _ _ _ S W)]|].
  split; [apply (same_tp_NLL _ _ S Nl)|]. split; [apply (same_tp_ne _ _ S (outer_text_ne cols))|].
  apply (combined_dense v m name given im remove _ Hwf).
Qed.

(* ---- L1 (b): the text-less streams ---- *)
Theorem combined_kid cols :
  kid_ok (combined_stream v m name given im remove (mkOpts cols true), v).
Proof.
  pose proof (combined_same_tp (mkOpts cols true)) as S.
  assert (K : kid_ok (sm_stream v m (mkOpts cols true), v)).
  { destruct cols; [apply sm_kid|apply sm_kid_lines]; apply wf_consistent. }
  destruct K as [_ [K2 [_ K4]]]. unfold kid_ok, tr_events, tr_info, tr_text in *. cbn [fst snd] in *.
  split; [apply (combined_dense v m name given im remove _ Hwf)|].
  split; [apply (same_tp_ev_pos _ _ _ S K2)|]. split; [apply combined_end|].
  apply (same_tp_ssorted _ _ S K4).
Qed.

Lemma on_seg_before f p s : f None = None -> seg_before p s -> seg_before p (on_seg f s).
Proof.
  intros Hf H. unfold seg_before, on_seg in *. cbn [fst snd]. intros Ha. apply H.
  destruct (snd s); [reflexivity|]. rewrite Hf in Ha. discriminate.
Qed.

Theorem combined_kidL :
  kidL_ok (combined_stream v m name given im remove (mkOpts false true), v).
Proof.
  pose proof (sm_kidL v m wf_consistent) as [_ [K2 K3]].
  unfold kidL_ok, tr_events, tr_info, tr_text in *. cbn [fst snd] in *.
  split; [apply (combined_dense v m name given im remove _ Hwf)|]. split; [apply combined_end|].
  fold oLF. rewrite combined_fsegs, combined_snd, Forall_map. eapply Forall_impl; [|exact K3].
  intros s. apply on_seg_before. reflexivity.
Qed.

End Leaf.

(* ------------------------------------------------------------------ *)
(* the statements on `stream`, for any store                            *)
(* ------------------------------------------------------------------ *)
Section LeafStream.
Variables (v name : text) (m : smap) (given : option text) (im : smap) (remove : bool).
Let s := SMapped v name m given (Some im) remove.
Hypothesis HA : treeA s = true.
Hypothesis Hwf : c09_wf v m name given im.

(* L1 (a) *)
Theorem comb_leaf_text (st : store) (cols : bool) :
  let r := stream st s (mkOpts cols false) in
  reassembles (fst (fst r)) v = true /\
  well_positioned (chunks_of (fst (fst r))) 1 0 = true /\
  chunks_nl_last (fst (fst r)) = true /\
  no_empty_chunks (fst (fst r)) = true /\
  dense (fst (fst r)) 0 0 = true /\
  snd (fst r) = advance 1 0 v /\
  snd r = st.
Proof.
  cbn zeta. unfold s. cbn [stream fst snd].
  destruct (combined_text_good v name m given im remove Hwf HA cols) as [[R W] [Nl [Ne D]]].
  split; [apply reassembles_iff; exact R|]. split; [exact W|].
  split; [apply chunks_nl_last_iff; exact Nl|]. split; [exact Ne|]. split; [exact D|].
  split; [apply combined_end|reflexivity].
Qed.

(* L1 (b) *)
Theorem comb_leaf_final (st : store) (cols : bool) :
  let r := stream st s (mkOpts cols true) in
  dense (fst (fst r)) 0 0 = true /\
  positions_of_text v (chunks_of (fst (fst r))) = true /\
  sorted_by pos_le (chunk_mappings (fst (fst r))) = true /\
  snd (fst r) = advance 1 0 v /\
  snd r = st /\
  kid_ok (fst r, v) /\
  (cols = false -> kidL_ok (fst r, v)).
Proof.
  cbn zeta. unfold s. cbn [stream fst snd].
  pose proof (combined_kid v name m given im remove Hwf cols) as K.
  pose proof K as [K1 [K2 [K3 K4]]]. unfold tr_events, tr_info, tr_text in *. cbn [fst snd] in *.
  split; [exact K1|]. split; [apply positions_of_events; exact K2|].
  split; [apply ssorted_sorted; exact K4|]. split; [exact K3|]. split; [reflexivity|].
  split; [exact K|]. intros ->. apply (combined_kidL v name m given im remove Hwf).
Qed.

End LeafStream.

Print Assumptions comb_leaf_text.
Print Assumptions comb_leaf_final.
