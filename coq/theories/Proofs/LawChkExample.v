(* C13, "the checker accepts the model" for the composition laws between cache-free trees:
   the statements of LawChkLaws.v are not vacuous, and their hypotheses are needed.
     law_ex_*           concrete a, b, c with an OriginalSource, a SourceMapSource (two sources,
                        one with content) and a ReplaceSource with a replacement: every hypothesis
                        holds (vm_compute), maps are present and carry contents, the verdicts
                        recomputed on a grid of histories are 0, and the theorems instantiate for
                        ARBITRARY histories;
     empty_neighbours_needs_consistency
                        the contents hypothesis of the empty-neighbours law must cover the
                        neighbours: an empty OriginalSource naming a file of `a` announces it with
                        content "" first - verdict 5;
     checker_fires      the strict comparison is not trivially 0: swapping two children. *)
From RS Require Import Base.Prelude Base.Text Rope.RopeModel Codec.Vlq Codec.CodecSpec
  Stream.Types Stream.Leaves Stream.Concat Stream.Replace Stream.Combined Stream.Tree
  Api.ApiTree Sem.Attr Sem.HashEq Api.ApiHist Checkers.ChkTree Checkers.ChkHist
  Proofs.LawWrappers Proofs.RStreamTree Proofs.BoundsPos
  Proofs.CompWarmContInv Proofs.CompWarmLawsFull Proofs.LawChkBase Proofs.LawChkLaws.
Require Import List.
Import ListNotations.

Local Open Scope N_scope.

(* "ab c\ncd;e" in f1 *)
Definition law_ex_a : src := SOriginal [97; 98; 32; 99; 10; 99; 100; 59; 101] [102; 49].
(* "ab", map "AAAA,CCAA": a -> s1 (no content) 1:0, b -> s2 (content "x") 1:0 *)
Definition law_ex_b : src :=
  SMapped [97; 98] [109]
    (mkSmap None [65; 65; 65; 65; 44; 67; 67; 65; 65] [[115; 49]; [115; 50]] [[]; [120]] [] None None) None None false.
(* Replace(Original "{\n}\n" in f2, [1,2) -> "q\n" named n) *)
Definition law_ex_c : src := SReplace (SOriginal [123; 10; 125; 10] [102; 50]) [mkRepl 1 2 [113; 10] (Some [110]) 0].

Definition law_ex_F : src := SConcat [law_ex_a; law_ex_b; law_ex_c].
Definition law_ex_R : src := SConcat [law_ex_a; SConcat [law_ex_b; law_ex_c]].
Definition law_ex_L : src := SConcat [SConcat [law_ex_a; law_ex_b]; law_ex_c].

Definition law_ex_hists : list (list hop) :=
  [[]; [OStream true false]; [OMap false]; [OStream false true; OMap true; OHash; OClone; OSrc]].

Definition all_zero (X Y : src) : bool :=
  forallb (fun ha => forallb (fun hb => chk_C13 X Y false (api_pair X ha Y hb) =? 0) law_ex_hists) law_ex_hists.

(* the hypotheses *)
Example law_ex_hyps :
  (rshape law_ex_F, treeA law_ex_F, tiny law_ex_F, consistentb (decl law_ex_F)) = (true, true, true, true).
Proof. vm_compute. reflexivity. Qed.

(* maps are present on both sides, list the three files and carry contents *)
Example law_ex_maps_present :
  match fst (map_of [] law_ex_R true), fst (map_of [] law_ex_F true) with
  | Some m, Some m' =>
    (sm_sources m, sm_contents m) = ([[102; 49]; [115; 49]; [115; 50]; [102; 50]],
                                     [[97; 98; 32; 99; 10; 99; 100; 59; 101]; []; [120]; [123; 10; 125; 10]])
    /\ sm_sources m' = sm_sources m /\ sm_contents m' = sm_contents m
  | _, _ => False
  end.
Proof. vm_compute. repeat split; reflexivity. Qed.

(* recomputed verdicts, a grid of histories *)
Example law_ex_recomputed :
  (all_zero law_ex_R law_ex_F, all_zero law_ex_L law_ex_F,
   all_zero (SConcat [law_ex_F]) law_ex_F,
   all_zero (SConcat [SOriginal [] [103]; law_ex_F; SRaw true []]) law_ex_F,
   all_zero (SReplace law_ex_F []) law_ex_F,
   all_zero (concat_new [IBoxed law_ex_a; ITyped [law_ex_b; law_ex_c]; IBoxed law_ex_a])
            (concat_new [IBoxed law_ex_a; IBoxed law_ex_b; IBoxed law_ex_c; IBoxed law_ex_a]))
  = (true, true, true, true, true, true).
Proof. vm_compute. reflexivity. Qed.

(* the theorems, any two histories *)
Example law_ex_nesting (opsa opsb : list hop) :
  chk_C13 law_ex_R law_ex_F false (api_pair law_ex_R opsa law_ex_F opsb) = 0 /\
  chk_C13 law_ex_L law_ex_F false (api_pair law_ex_L opsa law_ex_F opsb) = 0.
Proof. apply C13_boxed_nesting_checker; vm_compute; reflexivity. Qed.

Example law_ex_single (opsa opsb : list hop) :
  chk_C13 (SConcat [law_ex_F]) law_ex_F false (api_pair (SConcat [law_ex_F]) opsa law_ex_F opsb) = 0.
Proof. apply C13_single_child_checker; vm_compute; reflexivity. Qed.

Example law_ex_empty (opsa opsb : list hop) :
  let E := SConcat [SOriginal [] [103]; law_ex_F; SRaw true []] in
  chk_C13 E law_ex_F false (api_pair E opsa law_ex_F opsb) = 0.
Proof. cbn zeta. apply C13_empty_neighbours_checker_full; vm_compute; reflexivity. Qed.

Example law_ex_replace_none (opsa opsb : list hop) :
  chk_C13 (SReplace law_ex_F []) law_ex_F false (api_pair (SReplace law_ex_F []) opsa law_ex_F opsb) = 0.
Proof. apply C13_replace_none_checker; vm_compute; reflexivity. Qed.

Example law_ex_typed (opsa opsb : list hop) :
  let T := concat_new ([IBoxed law_ex_a] ++ ITyped [law_ex_b; law_ex_c] :: [IBoxed law_ex_a]) in
  let B := concat_new ([IBoxed law_ex_a] ++ map IBoxed [law_ex_b; law_ex_c] ++ [IBoxed law_ex_a]) in
  chk_C13 T B false (api_pair T opsa B opsb) = 0.
Proof. apply C13_typed_nesting_checker; vm_compute; reflexivity. Qed.

(* ------------------------------------------------------------------ *)
(* the contents hypothesis of the empty-neighbours law                  *)
(* ------------------------------------------------------------------ *)
(* Concat[Original "" f; Original "b" f; Concat[]] against Original "b" f: every hypothesis on
   `a` alone holds, the neighbour is an empty leaf, yet the ConcatSource keeps the first content
   announced for f, "" - the strict verdict is 5 (and 0 in relaxed mode, which does not look at
   contents).  `consistentb (decl (SConcat [e; a; e']))` is false. *)
Example empty_neighbours_needs_consistency :
  let e := SOriginal [] [102] in
  let a := SOriginal [98] [102] in
  let e' := SConcat [] in
  (empty_leaf e, empty_leaf e', rshape (SConcat [e; a; e']), treeA (SConcat [e; a; e']), tiny (SConcat [e; a; e']),
   consistentb (decl a), consistentb (decl (SConcat [e; a; e'])))
  = (true, true, true, true, true, true, false) /\
  chk_C13 (SConcat [e; a; e']) a false (api_pair (SConcat [e; a; e']) [] a []) = 5 /\
  chk_C13 (SConcat [e; a; e']) a true (api_pair (SConcat [e; a; e']) [] a []) = 0.
Proof. vm_compute. repeat split; reflexivity. Qed.

Theorem empty_neighbours_law_refuted_without_neighbour_contents :
  exists e a e' opsa opsb,
    empty_leaf e = true /\ empty_leaf e' = true /\ rshape (SConcat [e; a; e']) = true /\
    treeA (SConcat [e; a; e']) = true /\ tiny (SConcat [e; a; e']) = true /\ consistentb (decl a) = true /\
    chk_C13 (SConcat [e; a; e']) a false (api_pair (SConcat [e; a; e']) opsa a opsb) <> 0.
Proof.
  exists (SOriginal [] [102]), (SOriginal [98] [102]), (SConcat []), [], [].
  vm_compute. repeat split; try reflexivity. discriminate.
Qed.

(* ------------------------------------------------------------------ *)
(* the strict comparison is not trivially 0                              *)
(* ------------------------------------------------------------------ *)
Example checker_fires :
  chk_C13 (SConcat [law_ex_a; law_ex_b]) (SConcat [law_ex_b; law_ex_a]) false
          (api_pair (SConcat [law_ex_a; law_ex_b]) [] (SConcat [law_ex_b; law_ex_a]) []) = 1 /\
  (* same text, another file name: clause 3 *)
  chk_C13 law_ex_a (SOriginal [97; 98; 32; 99; 10; 99; 100; 59; 101] [103]) false
          (api_pair law_ex_a [] (SOriginal [97; 98; 32; 99; 10; 99; 100; 59; 101] [103]) []) = 3.
Proof. vm_compute. split; reflexivity. Qed.

Print Assumptions law_ex_hyps.
Print Assumptions law_ex_maps_present.
Print Assumptions law_ex_recomputed.
Print Assumptions law_ex_nesting.
Print Assumptions law_ex_single.
Print Assumptions law_ex_empty.
Print Assumptions law_ex_replace_none.
Print Assumptions law_ex_typed.
Print Assumptions empty_neighbours_needs_consistency.
Print Assumptions empty_neighbours_law_refuted_without_neighbour_contents.
Print Assumptions checker_fires.
