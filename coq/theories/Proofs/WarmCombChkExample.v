(* The checker-level theorems for the union class `cls2` (combined-map leaves AND CachedSource
   nodes; WarmCombC02.v, WarmCombC03.v, WarmCombWf.v) are not vacuous.
     wc_chk_hyps       every hypothesis holds of `wc_tree r` / `wc_small r` (WarmCombHist.v), and
                       these trees are outside BOTH earlier classes: they contain CachedSource
                       nodes (`rshape2 s = false`: outside CombLeafTree / ChkMoreComb / WfMoreComb)
                       and combined leaves (`rshape (uncache s) = false`: outside WarmTreeDefs /
                       ChkMoreWarmC02 / ChkMoreWarmC03 / WfMoreWarm);
     wc_checkers       H1-H3 instantiated: chk_C02 / chk_C03 / chk_C11 accept the model's
                       observations of these trees after ANY warm-up history;
     wc_checkers_recomputed   the same verdicts recomputed for concrete warm-up histories;
     wc_mixed_k1       a K1-class CachedSource (map() stores the given map verbatim) next to a
                       cached combined leaf: the enclosing ConcatSource is outside K1 and all three
                       checkers accept it after the warm-up that stores the K1 entries; the K1
                       node by itself is in `cls2` and gets exactly the verdict 51. *)
From RS Require Import Base.Prelude Base.Text Rope.RopeModel Codec.Vlq Codec.CodecSpec
  Stream.Types Stream.Tree Api.ApiTree Api.ApiHist Checkers.ChkTree Checkers.ChkHist
  Proofs.CacheStore Proofs.ColdCache Proofs.RStreamTree Proofs.WfAllChk Proofs.ChkModelC03
  Proofs.CombLeafTree Proofs.CombLeafExample Proofs.WarmTreeDefs Proofs.ChkMoreWarmC03
  Proofs.WarmCombBounds Proofs.WarmCombDefs Proofs.WarmCombMain Proofs.WarmCombHist
  Proofs.WarmCombC02 Proofs.WarmCombWf Proofs.WarmCombC03.
Require Import Lia List.
Import ListNotations.

Local Open Scope N_scope.

(* (ids once, K2, class of this development, K1, treeA, tiny2; class (A), class (B)) *)
Definition chk_hyps (s : src) : bool * bool * bool * bool * bool * bool * (bool * bool) :=
  (ids_distinctb s, k2_shape s, rshape2 (uncache s), k1_shape s, treeA s, tiny2 (uncache s),
   (rshape2 s, RStreamTree.rshape (uncache s))).

Example wc_chk_hyps (r : bool) :
  chk_hyps (wc_tree r) = (true, false, true, false, true, true, (false, false)) /\
  chk_hyps (wc_small r) = (true, false, true, false, true, true, (false, false)).
Proof. destruct r; vm_compute; split; reflexivity. Qed.

(* H1-H3 instantiated, for every warm-up history *)
Example wc_checkers (r : bool) (ws : list (N * wop)) :
  (chk_C02 (wc_tree r) (api_tree (wc_tree r) ws) = 0 /\
   chk_C03 (wc_tree r) (api_tree (wc_tree r) ws) = 0 /\
   chk_C11 (wc_tree r) (api_tree (wc_tree r) ws) = 0) /\
  (chk_C02 (wc_small r) (api_tree (wc_small r) ws) = 0 /\
   chk_C03 (wc_small r) (api_tree (wc_small r) ws) = 0 /\
   chk_C11 (wc_small r) (api_tree (wc_small r) ws) = 0).
Proof.
  pose proof (wc_tree_distinct r) as D1. pose proof (wc_small_distinct r) as D2.
  split; (split; [|split]).
  - apply C02_warm_comb_checker; try (destruct r; vm_compute; reflexivity). exact D1.
  - apply C03_warm_comb_checker; try (destruct r; vm_compute; reflexivity). exact D1.
  - apply C11_warm_comb_checker; try (destruct r; vm_compute; reflexivity). exact D1.
  - apply C02_warm_comb_checker; try (destruct r; vm_compute; reflexivity). exact D2.
  - apply C03_warm_comb_checker; try (destruct r; vm_compute; reflexivity). exact D2.
  - apply C11_warm_comb_checker; try (destruct r; vm_compute; reflexivity). exact D2.
Qed.

(* the same verdicts recomputed: cold, after the warm-up history of WarmCombHist.v, and after it
   in reverse order *)
Example wc_checkers_recomputed (r : bool) :
  map (fun ws => (chk_C02 (wc_tree r) (api_tree (wc_tree r) ws),
                  chk_C03 (wc_tree r) (api_tree (wc_tree r) ws),
                  chk_C11 (wc_tree r) (api_tree (wc_tree r) ws))) [[]; wc_warm; rev wc_warm]
  = [(0, 0, 0); (0, 0, 0); (0, 0, 0)].
Proof. destruct r; vm_compute; reflexivity. Qed.

(* the warm-up really fills the caches above the combined leaves: after `wc_warm` the entries
   the observations replay are stored ones *)
Example wc_warm_fills (r : bool) :
  let st := run_warm [] (wc_tree r) wc_warm in
  map (fun id => match cache_get (store_get st id) (mkOpts true false) with Some _ => true | None => false end)
      [1; 2; 3; 4] = [true; false; false; true] /\
  (match cache_get (store_get st 2) (mkOpts true true) with Some _ => true | None => false end) = true.
Proof. destruct r; vm_compute; split; reflexivity. Qed.

(* a K1-class node next to a cached combined leaf *)
Definition wc_mixed (r : bool) : src :=
  SConcat [SCached 1 k1_witness; SCached 2 (ex_leaf r); SCached 3 k1_unmapped].
Definition wc_mixed_warm : list (N * wop) :=
  [(1, WMap true); (3, WMap true); (2, WMap true); (1, WMap false); (3, WMap false); (2, WStream false true)].

Example wc_mixed_k1 (r : bool) (ws : list (N * wop)) :
  chk_hyps (wc_mixed r) = (true, false, true, false, true, true, (false, false)) /\
  (* the K1 entries are stored verbatim: not `map_wf`, no mapped segment *)
  (let st := run_warm [] (wc_mixed r) wc_mixed_warm in
   (match cache_get (store_get st 1) (mkOpts true false) with
    | Some v => map_wf (source k1_witness) v | None => true end) = false /\
   (match cache_get (store_get st 3) (mkOpts true false) with Some v => mp v | None => true end) = false) /\
  (* the checkers accept the enclosing tree after ANY warm-up history *)
  (chk_C02 (wc_mixed r) (api_tree (wc_mixed r) ws) = 0 /\
   chk_C03 (wc_mixed r) (api_tree (wc_mixed r) ws) = 0 /\
   chk_C11 (wc_mixed r) (api_tree (wc_mixed r) ws) = 0) /\
  (* the K1 nodes by themselves: in the class, verdict 51 *)
  (chk_C11 (SCached 1 k1_witness) (api_tree (SCached 1 k1_witness) [(1, WMap true)]) = 51 /\
   chk_C03 (SCached 3 k1_unmapped) (api_tree (SCached 3 k1_unmapped) [(3, WMap true)]) = 51).
Proof.
  assert (D : ids_distinct (wc_mixed r)) by (apply ids_distinctb_spec; destruct r; vm_compute; reflexivity).
  split; [destruct r; vm_compute; reflexivity|].
  split; [destruct r; vm_compute; split; reflexivity|].
  split; [|vm_compute; split; reflexivity].
  split; [|split].
  - apply C02_warm_comb_checker; try (destruct r; vm_compute; reflexivity). exact D.
  - apply C03_warm_comb_checker; try (destruct r; vm_compute; reflexivity). exact D.
  - apply C11_warm_comb_checker; try (destruct r; vm_compute; reflexivity). exact D.
Qed.

Example wc_mixed_recomputed (r : bool) :
  (chk_C02 (wc_mixed r) (api_tree (wc_mixed r) wc_mixed_warm),
   chk_C03 (wc_mixed r) (api_tree (wc_mixed r) wc_mixed_warm),
   chk_C11 (wc_mixed r) (api_tree (wc_mixed r) wc_mixed_warm)) = (0, 0, 0).
Proof. destruct r; vm_compute; reflexivity. Qed.

Print Assumptions wc_chk_hyps.
Print Assumptions wc_checkers.
Print Assumptions wc_checkers_recomputed.
Print Assumptions wc_warm_fills.
Print Assumptions wc_mixed_k1.
Print Assumptions wc_mixed_recomputed.
