(* Property C04 for trees of raw leaves, OriginalSource leaves and ConcatSource nodes (class
   `cshape`), columns = false (P4): every output line is attributed, by the map returned by
   map() with columns = false, to the file and line of the first original byte on that line
   (`line_ok`); a line without original bytes is unmapped.  Then the whole checker chk_C04 on
   the model's own observations.
   Route: both sides are "first wins" per output line and ignore columns:
     first_orig_of_line (a ++ b) l = orO (first_orig_of_line a l) (first_orig_of_line b l)
     seg_first_mapped   (a ++ b) l = orO (seg_first_mapped a l)   (seg_first_mapped b l)
   the text-less stream of a ConcatSource is, child by child, an optional unmapped closing
   segment and the child's segments moved down by the lines before it
   (FinalConcat.child_decomp), as are the tagged bytes; the relation `Rl` between the two
   sides (same file, same line, or both absent) is kept by `orO`.  OriginalSource: one mark
   per line that holds a byte.  Codec: the lines-only encoder keeps the first mapped segment of
   every line (CodecMain.lines_only_decode). *)
From RS Require Import Base.Prelude Base.Text Rope.RopeModel Codec.Vlq Codec.CodecSpec
  Checkers.ChkCodec Stream.Types Stream.Leaves Stream.Concat Stream.Replace Stream.Tree Api.ApiTree
  Sem.Attr Sem.Prov Checkers.ChkTree Checkers.ChkProv
  Proofs.CodecKept Proofs.CodecEnc Proofs.CodecMain
  Proofs.StreamText Proofs.StreamLeaves Proofs.StreamMap Proofs.StreamConcat Proofs.StreamTree
  Proofs.WfStream Proofs.WfFinal Proofs.RStreamText Proofs.RStreamPos Proofs.RStreamTree
  Proofs.AttrCodec Proofs.AttrSms Proofs.AttrLeaves Proofs.ProvTokens Proofs.ProvOriginal
  Proofs.LawConcatAttr Proofs.CacheReplay Proofs.FinalDense Proofs.FinalConcat Proofs.FinalTree
  Proofs.ProvConcatBytes Proofs.ProvConcatSegs Proofs.ProvConcatTables.
Require Import Lia List.

Local Open Scope N_scope.

Definition oL : opts := mkOpts false true.    (* lines only, text-less: what map(columns = false) consumes *)

Notation fo := first_orig_of_line.
Notation sfm := seg_first_mapped.

Definition orO {A} (a b : option A) : option A := match a with Some _ => a | None => b end.

(* ------------------------------------------------------------------ *)
(* first original byte of a line                                        *)
(* ------------------------------------------------------------------ *)
Lemma fo_app a b l : fo (a ++ b) l = orO (fo a l) (fo b l).
Proof.
  induction a as [|[[l' c'] g] a IH]; [reflexivity|]. cbn [app first_orig_of_line].
  destruct (l' =? l); [|exact IH]. destruct g; [exact IH|reflexivity|exact IH].
Qed.

Lemma fo_before t : forall tags l1 c1 L, L < l1 -> fo (tagged t tags l1 c1) L = None.
Proof.
  induction t as [|x t IH]; intros tags l1 c1 L H; [reflexivity|].
  destruct tags as [|g tags]; [reflexivity|]. cbn [tagged first_orig_of_line].
  replace (l1 =? L) with false by (symmetry; apply N.eqb_neq; lia).
  destruct (x =? NL); apply IH; lia.
Qed.

Lemma eqb_add_r a b k : (a + k =? b + k) = (a =? b).
Proof. destruct (N.eqb_spec a b); destruct (N.eqb_spec (a + k) (b + k)); try reflexivity; lia. Qed.

(* columns do not matter *)
Lemma fo_shift t : forall tags l1 c1 c1' lo l,
  fo (tagged t tags (l1 + lo) c1') (l + lo) = fo (tagged t tags l1 c1) l.
Proof.
  induction t as [|x t IH]; intros tags l1 c1 c1' lo l; [reflexivity|].
  destruct tags as [|g tags]; [reflexivity|]. cbn [tagged first_orig_of_line]. rewrite eqb_add_r.
  assert (E : fo (if x =? NL then tagged t tags (l1 + lo + 1) 0 else tagged t tags (l1 + lo) (c1' + 1)) (l + lo)
            = fo (if x =? NL then tagged t tags (l1 + 1) 0 else tagged t tags l1 (c1 + 1)) l).
  { destruct (x =? NL); [|apply IH]. replace (l1 + lo + 1) with (l1 + 1 + lo) by lia. apply IH. }
  rewrite E. reflexivity.
Qed.

Lemma fo_none tg l : (forall c g, ~ In (l, c, g) tg) -> fo tg l = None.
Proof.
  induction tg as [|[[l' c'] g] tg IH]; intros H; [reflexivity|]. cbn [first_orig_of_line].
  destruct (l' =? l) eqn:E.
  - apply N.eqb_eq in E. subst l'. exfalso. apply (H c' g). left. reflexivity.
  - apply IH. intros c g0 Hin. apply (H c g0). right. exact Hin.
Qed.

Lemma fo_raw (t : text) : forall l0 c0 l, fo (tagged t (map (fun _ => PRaw) t) l0 c0) l = None.
Proof.
  induction t as [|x t IH]; intros l0 c0 l; [reflexivity|]. cbn [map tagged first_orig_of_line].
  destruct (x =? NL); destruct (l0 =? l); apply IH.
Qed.

(* every line up to the last one that holds a byte holds a byte *)
Lemma tagged_line_exists t : forall tags l0 c0 l, length tags = length t ->
  (l = l0 /\ t <> [] \/ l0 < l /\ l <= mcount (advance l0 c0 t)) ->
  exists c g, In (l, c, g) (tagged t tags l0 c0).
Proof.
  induction t as [|x t IH]; intros tags l0 c0 l Hl H.
  - exfalso. destruct H as [[_ H]|[H1 H2]]; [apply H; reflexivity|].
    cbn [advance] in H2. unfold mcount in H2. cbn [fst snd] in H2. destruct (c0 =? 0); lia.
  - destruct tags as [|g0 tags]; [discriminate|]. cbn [length] in Hl. cbn [tagged].
    destruct H as [[-> _]|[H1 H2]]; [exists c0, g0; left; reflexivity|].
    cbn [advance] in H2. destruct (x =? NL).
    + destruct (IH tags (l0 + 1) 0 l) as (c & g & Hin); [lia| |exists c, g; right; exact Hin].
      destruct (N.eq_dec l (l0 + 1)) as [->|Hne]; [|right; split; [lia|exact H2]].
      left. split; [reflexivity|]. intros ->. cbn [advance] in H2. unfold mcount in H2. cbn [fst snd] in H2.
      change (0 =? 0) with true in H2. cbn iota in H2. lia.
    + destruct (IH tags l0 (c0 + 1) l) as (c & g & Hin); [lia|right; split; assumption|].
      exists c, g. right. exact Hin.
Qed.

(* ------------------------------------------------------------------ *)
(* first mapped segment of a line                                       *)
(* ------------------------------------------------------------------ *)
Lemma sfm_app a b l : sfm (a ++ b) l = orO (sfm a l) (sfm b l).
Proof.
  induction a as [|[[sl sc] x] a IH]; [reflexivity|]. cbn [app seg_first_mapped].
  destruct (sl =? l); [|exact IH]. destruct x; [reflexivity|exact IH].
Qed.

Lemma sfm_shift lo co segs l : sfm (map (shseg lo co) segs) (l + lo) = sfm segs l.
Proof.
  induction segs as [|[[sl sc] x] segs IH]; [reflexivity|].
  cbn [map]. unfold shseg at 1, shift. cbn [fst snd seg_first_mapped]. rewrite eqb_add_r, IH. reflexivity.
Qed.

Lemma sfm_shift_before lo co segs L : L < lo -> sfm (map (shseg lo co) segs) L = None.
Proof.
  intros H. induction segs as [|[[sl sc] x] segs IH]; [reflexivity|].
  cbn [map]. unfold shseg at 1, shift. cbn [fst snd seg_first_mapped].
  replace (sl + lo =? L) with false by (symmetry; apply N.eqb_neq; lia). exact IH.
Qed.

(* ------------------------------------------------------------------ *)
(* the relation between the two sides                                   *)
(* ------------------------------------------------------------------ *)
Definition Rl (a : option (text * N)) (b : attr) : Prop :=
  match a, b with
  | Some (f, ol), Some loc => f = l_file loc /\ ol = l_line loc
  | None, None => True
  | _, _ => False
  end.

Lemma Rl_orO a b a' b' : Rl a b -> Rl a' b' -> Rl (orO a a') (orO b b').
Proof. destruct a as [[f ol]|], b as [loc|]; cbn [Rl orO]; intros H H'; try contradiction; assumption. Qed.

Definition Rall (tg : list (N * N * ptag)) (segs : list rseg) : Prop := forall l, Rl (fo tg l) (sfm segs l).

Lemma Rall_app a b sa sb : Rall a sa -> Rall b sb -> Rall (a ++ b) (sa ++ sb).
Proof. intros Ha Hb l. rewrite fo_app, sfm_app. apply Rl_orO; [apply Ha|apply Hb]. Qed.

Lemma Rall_shift lo co t tags segs :
  Rall (tagged t tags 1 0) segs -> Rall (tagged t tags (lo + 1) co) (map (shseg lo co) segs).
Proof.
  intros H L. destruct (N.lt_ge_cases L lo) as [Hlt|Hge].
  - rewrite fo_before by lia. rewrite sfm_shift_before by exact Hlt. exact I.
  - assert (E : L = (L - lo) + lo) by lia. rewrite E. replace (lo + 1) with (1 + lo) by lia.
    rewrite (fo_shift t tags 1 0 co lo), sfm_shift. apply H.
Qed.

Lemma Rall_closer st tr : Rall [] (child_cl st tr).
Proof.
  intros l. unfold child_cl. destruct (c_close st && need (chunk_mappings (tr_events tr)) (tr_info tr)); [|exact I].
  unfold clseg. cbn [seg_first_mapped first_orig_of_line]. destruct (c_loff st + 1 =? l); exact I.
Qed.

Lemma Rl_line_ok a b : Rl a b ->
  match a, b with
  | Some (f, ol), Some loc => text_eqb f (l_file loc) && (ol =? l_line loc)
  | None, None => true
  | _, _ => false
  end = true.
Proof.
  destruct a as [[f ol]|], b as [loc|]; cbn [Rl]; intros H; try contradiction; [|reflexivity].
  destruct H as [-> ->]. rewrite text_eqb_refl, N.eqb_refl. reflexivity.
Qed.

(* ------------------------------------------------------------------ *)
(* the fold over the children of a ConcatSource                          *)
(* ------------------------------------------------------------------ *)
Definition kt_okL (kt : kid * list ptag) : Prop :=
  kid_ok (fst kt) /\ length (snd kt) = length (tr_text (fst kt)) /\
  Rall (tagged (tr_text (fst kt)) (snd kt) 1 0) (fsegs (tr_events (fst kt)) [] []).

Lemma fold_lines : forall (kts : list (kid * list ptag)) st out T G,
  tabs out [] [] = (c_sources st, c_names st) -> cpos st = adv (1, 0) T -> length G = length T ->
  Rall (tagged T G 1 0) (fsegs out [] []) -> Forall kt_okL kts ->
  Rall (tagged (T ++ concat (map (fun kt => tr_text (fst kt)) kts)) (G ++ flat_map snd kts) 1 0)
       (fsegs (snd (concat_fold true (map (fun kt => fst (fst kt)) kts) (st, out))) [] []).
Proof.
  induction kts as [|[tr g] kts IH]; intros st out T G Ht HT HG Hout HF.
  - cbn [map concat flat_map concat_fold fold_left snd]. rewrite !app_nil_r. exact Hout.
  - inversion HF as [|? ? Hkt HF']; subst. destruct Hkt as [Hk [Hlen Hsegs]]. cbn [fst snd] in Hk, Hlen, Hsegs.
    cbn [map concat flat_map fst snd]. rewrite concat_fold_cons. cbn [fst snd].
    change (fst (fst tr)) with (tr_events tr). change (snd (fst tr)) with (tr_info tr).
    pose proof (child_decomp st out tr Ht Hk) as [B1 [_ [B3 _]]]. cbn zeta in B1, B3.
    assert (Hi : tr_info tr = advance 1 0 (tr_text tr)) by (destruct Hk as [_ [_ [Hi _]]]; exact Hi).
    pose proof (concat_child_cpos true st (tr_events tr) (tr_info tr) (tr_text tr) Hi) as B4.
    destruct (concat_child true st (tr_events tr) (tr_info tr)) as [st' o]. cbn [fst snd] in *.
    rewrite !app_assoc. apply IH.
    + exact B1.
    + rewrite B4, HT, adv_app. reflexivity.
    + rewrite !app_length, HG, Hlen. reflexivity.
    + rewrite B3, (tagged_app T G (tr_text tr) g 1 0 HG).
      apply Rall_app; [exact Hout|].
      change (tagged (tr_text tr) g (fst (advance 1 0 T)) (snd (advance 1 0 T)))
        with ([] ++ tagged (tr_text tr) g (fst (advance 1 0 T)) (snd (advance 1 0 T))).
      apply Rall_app; [apply Rall_closer|].
      unfold cpos, adv in HT. cbn [fst snd] in HT. rewrite <- HT. cbn [fst snd].
      apply Rall_shift. exact Hsegs.
    + exact HF'.
Qed.

(* ------------------------------------------------------------------ *)
(* the induction over the tree: the text-less lines-only stream          *)
(* ------------------------------------------------------------------ *)
Definition lgood (s : src) : Prop :=
  forall st, cshape s = true -> treeA s = true ->
    kid_ok (fst (stream st s oL), source s) /\ snd (stream st s oL) = st /\
    Rall (tagged (source s) (prov s) 1 0) (fsegs (fst (fst (stream st s oL))) [] []).

Lemma raw_lgood s : is_raw s = true -> lgood s.
Proof.
  intros Hr st _ _.
  assert (Es : stream st s oL = (raw_stream (source s) true, st)) by (destruct s; try discriminate; reflexivity).
  assert (Ep : prov s = map (fun _ => PRaw) (source s)).
  { destruct s as [[|] v|v|v| | | | |]; try discriminate; reflexivity. }
  rewrite Es, Ep. cbn [fst snd]. split; [apply raw_kid|]. split; [reflexivity|].
  intros l. rewrite fo_raw. exact I.
Qed.

Lemma marks_ssorted : forall n i, ssorted (chunk_mappings (original_line_marks n i)).
Proof.
  induction n as [|n IH]; intros i; [exact I|]. cbn [original_line_marks chunk_mappings ssorted].
  split; [|apply IH]. eapply Forall_impl; [|apply (marks_positions [] eq_refl n (i + 1) i); lia].
  cbn beta. intros x Hx. apply (ple_pos_le (orig_at i 0) x). exact Hx.
Qed.

Lemma original_lgood v n : lgood (SOriginal v n).
Proof.
  intros st _ _. cbn [stream fst snd source prov]. split; [|split; [reflexivity|]].
  - unfold kid_ok, tr_events, tr_info, tr_text. cbn [fst snd].
    split; [apply original_stream_dense_any|]. split; [apply (original_stream_pos v n false)|].
    split; [apply original_stream_end|].
    unfold oL. rewrite original_stream_lines_final_fst. cbn [chunk_mappings]. apply marks_ssorted.
  - intros l. unfold oL. rewrite original_stream_lines_final_fst. unfold fsegs.
    rewrite rsegs_source0, (rsegs_chunks_snd _ _ _ (marks_only _ 1)), seg_first_mapped_map, (marks_first [] eq_refl), N2Nat.id.
    destruct ((1 <=? l) && (l <? 1 + marks_count v)) eqn:E.
    + apply andb_true_iff in E. destruct E as [E1 E2]. apply N.leb_le in E1. apply N.ltb_lt in E2.
      assert (Hm : l <= mcount (advance 1 0 v)).
      { rewrite <- gen_info_advance, <- marks_count_mcount. lia. }
      destruct (tagged_line_exists v (original_prov v n) 1 0 l) as (c & g & Hin).
      * apply original_prov_length.
      * destruct (N.eq_dec l 1) as [->|Hne]; [|right; split; [lia|exact Hm]].
        left. split; [reflexivity|]. intros ->. cbn [advance] in Hm. unfold mcount in Hm. cbn [fst snd] in Hm.
        change (0 =? 0) with true in Hm. cbn iota in Hm. lia.
      * rewrite (tagged_original v n) in *. unfold otg_v in *.
        rewrite (otg_first_orig _ _ _ _ _ _ _ _ _ Hin). cbn [fmF Rl l_file l_line].
        split; reflexivity.
    + rewrite fo_none; [exact I|]. intros c g Hin. rewrite (tagged_original v n) in Hin. unfold otg_v in Hin.
      destruct (otg_lines _ _ _ _ _ _ _ _ _ Hin) as [H1 H2].
      rewrite <- gen_info_advance, <- marks_count_mcount in H2.
      apply andb_false_iff in E. destruct E as [E|E]; [apply N.leb_gt in E|apply N.ltb_ge in E]; lia.
Qed.

Lemma concat_lgood cs : Forall lgood cs -> lgood (SConcat cs).
Proof.
  intros IH st Hc Ha. rewrite Forall_forall in IH.
  pose proof (cshape_concat cs Hc) as Hc'. pose proof (treeA_concat cs Ha) as Ha'.
  destruct (Nat.eq_dec (length cs) 1) as [E|E].
  { destruct cs as [|c [|c2 r]]; try discriminate.
    change (stream st (SConcat [c]) oL) with (stream st c oL).
    cbn [source prov map concat flat_map]. rewrite !app_nil_r.
    apply (IH c (or_introl eq_refl) st); [apply Hc'|apply Ha']; left; reflexivity. }
  assert (PF : forall c, In c cs -> forall st0, snd (stream st0 c oL) = st0).
  { intros c Hin st0. apply (IH c Hin st0 (Hc' c Hin) (Ha' c Hin)). }
  rewrite (stream_concat_fold st cs oL E), (kid_streams_pure oL cs PF st). cbn [fst snd final_source oL].
  set (kts := map (fun c => ((fst (stream st c oL), source c), prov c)) cs : list (kid * list ptag)).
  assert (E1 : map (fun c => fst (stream st c oL)) cs = map (fun kt => fst (fst kt)) kts).
  { unfold kts. rewrite map_map. apply map_ext. intros c. reflexivity. }
  assert (E2 : source (SConcat cs) = [] ++ concat (map (fun kt => tr_text (fst kt)) kts)).
  { cbn [source app]. unfold kts. rewrite map_map. reflexivity. }
  assert (E3 : prov (SConcat cs) = [] ++ flat_map snd kts).
  { cbn [prov app]. unfold kts. rewrite flat_map_map. reflexivity. }
  assert (HK : Forall kt_okL kts).
  { unfold kts. rewrite Forall_map. apply Forall_forall. intros c Hin. unfold kt_okL. cbn [fst snd].
    destruct (IH c Hin st (Hc' c Hin) (Ha' c Hin)) as [K [_ R]].
    split; [exact K|]. split; [apply (pgood_all c st (Hc' c Hin) (Ha' c Hin))|exact R]. }
  assert (HK' : Forall kid_ok (map fst kts)).
  { rewrite Forall_map. eapply Forall_impl; [|exact HK]. intros kt [K _]. exact K. }
  rewrite E1. split; [|split; [reflexivity|]].
  - rewrite E2. cbn [app].
    pose proof (concat_kid_ok (map fst kts) HK') as X. rewrite !map_map in X. exact X.
  - rewrite E2, E3.
    apply (fold_lines kts concat_init [] [] []); [reflexivity|reflexivity|reflexivity|intros l; exact I|exact HK].
Qed.

Lemma lgood_all : forall s, lgood s.
Proof.
  apply src_ind'.
  - intros b v. apply raw_lgood. reflexivity.
  - intros v. apply raw_lgood. reflexivity.
  - intros v. apply raw_lgood. reflexivity.
  - apply original_lgood.
  - intros v n m og i r st Hc. discriminate.
  - intros cs IH. apply concat_lgood. exact IH.
  - intros i rs _ st Hc. discriminate.
  - intros id i _ st Hc. discriminate.
Qed.

(* ------------------------------------------------------------------ *)
(* map(columns = false): first mapped segment per line, through the codec *)
(* ------------------------------------------------------------------ *)
Lemma map_lines_sfm evs : dense evs 0 0 = true -> enc_domain (chunk_mappings evs) = true ->
  forall l, 0 <> l -> sfm (segs_of (map_of_events false evs)) l = sfm (fsegs evs [] []) l.
Proof.
  intros Hd He l Hl. pose proof (dense_ann_ok evs [] [] Hd) as Ha.
  pose proof (lines_only_decode _ He) as Hdec.
  rewrite (fsegs_dense evs Hd), seg_first_mapped_map.
  rewrite <- (first_mapped_line_firsts _ 0 l Hl). fold (line_firsts (chunk_mappings evs)).
  unfold map_of_events. cbn [encode_mappings].
  destruct (is_nil (encode_lines (chunk_mappings evs))) eqn:En.
  - apply is_nil_true in En. rewrite En, decode_nil in Hdec. rewrite <- Hdec. reflexivity.
  - cbn [segs_of]. rewrite rsegs_of_map_F, seg_first_mapped_map. cbn [sm_mappings sm_names]. rewrite Hdec.
    destruct (fold_tables evs (mkT [] [] []) Ha) as [E1 _]. cbn [t_sources t_names] in E1.
    destruct (first_mapped (line_firsts (chunk_mappings evs)) l) as [[s ln]|]; [|reflexivity].
    cbn [fmF]. rewrite fileM_noroot by reflexivity. cbn [sm_sources]. unfold kfile. rewrite E1. reflexivity.
Qed.

(* the encoder's domain for the lines-only stream: every field of a streamed segment below 2^30 *)
Definition fields_small_lines (st : store) (s : src) : Prop :=
  forallb mapping_small (chunk_mappings (fst (fst (stream st s (mkOpts false true))))) = true.

(* the statement on the text-less stream: no size hypothesis *)
Theorem cshape_final_lines (st : store) (s : src) : cshape s = true -> treeA s = true ->
  forall l, Rl (first_orig_of_line (tagged (source s) (prov s) 1 0) l)
               (seg_first_mapped (fsegs (fst (fst (stream st s (mkOpts false true)))) [] []) l).
Proof. intros Hc Ha. apply (lgood_all s st Hc Ha). Qed.

(* P4 *)
Theorem concat_c04_lines (st : store) (s : src) :
  cshape s = true -> treeA s = true -> fields_small_lines st s ->
  let m0 := fst (map_of st s false) in
  let tg := tagged (source s) (prov s) 1 0 in
  let segs0 := match m0 with Some m => rsegs_of_map m | None => [] end in
  forallb (line_ok tg segs0) tg = true.
Proof.
  intros Hc Ha Hs. cbn zeta. fold (segs_of (fst (map_of st s false))).
  apply forallb_forall. intros [[l c] g] Hin. cbn [line_ok].
  pose proof (tagged_ge _ _ _ _ _ _ _ Hin) as Hge. unfold ple in Hge. cbn [fst snd] in Hge.
  assert (Hl : 0 <> l) by lia.
  destruct (lgood_all s st Hc Ha) as [[K1 [_ [_ K4]]] [_ R]].
  unfold tr_events, oL in K1, K4, R. cbn [fst snd] in K1, K4.
  apply Rl_line_ok.
  destruct (is_raw s) eqn:Er.
  - assert (Em : fst (map_of st s false) = None) by (destruct s; try discriminate; reflexivity).
    assert (Es : fst (fst (stream st s (mkOpts false true))) = []) by (destruct s; try discriminate; reflexivity).
    rewrite Em. specialize (R l). rewrite Es in R. exact R.
  - rewrite (map_of_get_map st s false Hc Er). unfold get_map. unfold fields_small_lines in Hs.
    destruct (stream st s (mkOpts false true)) as [[evs gi] st']. cbn [fst snd] in *.
    rewrite (map_lines_sfm evs K1); [apply R| |exact Hl].
    unfold enc_domain. rewrite (ssorted_sorted _ K4), Hs. reflexivity.
Qed.

(* ------------------------------------------------------------------ *)
(* the checker on the model's own observations: all clauses              *)
(* ------------------------------------------------------------------ *)
Theorem concat_chk_C04 (s : src) :
  cshape s = true -> c04_domain s = true -> fields_small [] s -> fields_small_lines [] s ->
  chk_C04 s (api_tree s []) = 0.
Proof.
  intros Hc Hdm Hs Hs0. apply (concat_chk_C04_partial s Hc Hdm Hs).
  apply (concat_c04_lines [] s Hc (c04_domain_treeA s Hdm) Hs0).
Qed.

(* a non-vacuous instance: nested ConcatSources, an empty one, a raw leaf between originals, an
   OriginalSource made of line breaks only, one file used twice *)
Example concat_chk_C04_example :
  let o1 := SOriginal [97; 59; 98; 10] [102] in
  let o2 := SOriginal [99] [103] in
  let o3 := SOriginal [10; 10] [104] in
  let r1 := SRawString [120] in
  let s := SConcat [SConcat [o1; SConcat []]; SConcat [r1]; o3; SConcat [o2; o3; o1]] in
  (cshape s, c04_domain s,
   forallb mapping_small (chunk_mappings (fst (fst (stream [] s (mkOpts true true))))),
   forallb mapping_small (chunk_mappings (fst (fst (stream [] s (mkOpts false true))))),
   match fst (map_of [] s false) with Some m => rsegs_of_map m | None => [] end,
   chk_C04 s (api_tree s [])) =
  (true, true, true, true,
   [(1, 0, Some (mkLoc [102] 1 0 None)); (2, 0, Some (mkLoc [104] 1 0 None));
    (3, 0, Some (mkLoc [104] 2 0 None)); (4, 0, Some (mkLoc [103] 1 0 None));
    (5, 0, Some (mkLoc [104] 2 0 None)); (6, 0, Some (mkLoc [102] 1 0 None))], 0).
Proof. vm_compute. reflexivity. Qed.

Print Assumptions cshape_final_lines.
Print Assumptions concat_c04_lines.
Print Assumptions concat_chk_C04.
