(* C09, whole stream: the pure specification of what a SourceMapSource with an inner map
   attributes.  `resolve_combined` maps the resolved attribution of a chunk of the OUTER
   splitter (file, line, column, name strings) to the resolved attribution of the same chunk
   in the combined stream.  Definitions and small facts only; the theorems are in
   CombAllInner.v (row tables = inner chunks), CombAllStep.v (T1, T2) and CombAllChk.v (T3). *)
From RS Require Import Base.Prelude Base.Text Rope.RopeModel Codec.Vlq Codec.CodecSpec
  Stream.Types Stream.Leaves Stream.Combined Stream.Tree Api.ApiTree Sem.Attr
  Checkers.ChkTree Checkers.ChkCombined.
Require Import Lia List ZArith.

Local Open Scope N_scope.

(* the text-carrying chunks of an event list *)
Fixpoint tchunks (evs : list event) : list (text * mapping) :=
  match evs with
  | [] => []
  | EChunk (Some x) mp :: evs' => (x, mp) :: tchunks evs'
  | _ :: evs' => tchunks evs'
  end.

(* the last chunk (in stream order) that starts on line L at or before column c *)
Fixpoint last_at (chs : list (text * mapping)) (L c : N) (best : option (text * mapping))
  : option (text * mapping) :=
  match chs with
  | [] => best
  | (x, mp) :: chs' =>
    if (g_line mp =? L) && (g_col mp <=? c) then last_at chs' L c (Some (x, mp))
    else last_at chs' L c best
  end.

Section Spec.
Variables (cols : bool) (m im : smap) (name : text) (given : option text) (remove : bool).

(* the content of the inner source: the one supplied, else the one the outer map carries *)
Definition original_of : option text :=
  match given with Some t => Some t | None => outer_content_of m (sm_sources m) 0 name end.

(* the chunks of the inner map streamed over the inner source's content *)
Definition inner_chunks (ot : text) : list (text * mapping) :=
  tchunks (fst (sm_stream ot im (mkOpts cols false))).

Definition rc_fallback (l : loc) : attr :=
  if remove then None else Some (mkLoc name (l_line l) (l_col l) (l_name l)).

(* a chunk into the inner source, resolved through the inner chunk (x, mp) that covers its
   original position; io is the original position the inner chunk carries, c the column of the
   outer original position, oname the name the outer segment carries *)
Definition rc_lines (io : orig) : option (list text) :=
  match content_in im (o_src io) with Some c => Some (split_lines c) | None => None end.
Definition rc_line (io : orig) : option text :=
  match rc_lines io with
  | Some ls => if o_line io =? 0 then None else nth_opt ls (o_line io - 1)
  | None => None
  end.
(* the identity-mapping test: the inner chunk starts with the original text at its position *)
Definition rc_adv (c : N) (x : text) (mp : mapping) (io : orig) : bool :=
  (0 <? c - g_col mp) &&
  match rc_line io with
  | Some ln =>
    let oc := substring ln (o_col io) (Some (o_col io + (c - g_col mp))) in
    opt_eqb text_eqb (str_get x 0 (len oc)) (Some oc)
  | None => false
  end.
Definition rc_col (c : N) (x : text) (mp : mapping) (io : orig) : N :=
  if rc_adv c x mp io then o_col io + (c - g_col mp) else o_col io.
Definition rc_name (oname : option text) (c : N) (x : text) (mp : mapping) (io : orig) : option text :=
  match (if rc_adv c x mp io then None else o_name io) with
  | Some n => nth_opt (sm_names im) n
  | None =>
    match oname, rc_lines io with
    | Some on, Some _ =>
      let found := match rc_line io with
                   | Some ln => substring ln (rc_col c x mp io) (Some (rc_col c x mp io + len on))
                   | None => [] end in
      if text_eqb on found then Some on else None
    | _, _ => None
    end
  end.
Definition rc_row (l : loc) (x : text) (mp : mapping) (io : orig) : loc :=
  mkLoc (file_of im io) (o_line io) (rc_col (l_col l) x mp io) (rc_name (l_name l) (l_col l) x mp io).

Definition rc_inner (l : loc) : attr :=
  match original_of with
  | None => rc_fallback l
  | Some ot =>
    match last_at (inner_chunks ot) (l_line l) (l_col l) None with
    | Some (x, mp) =>
      match m_orig mp with
      | Some io => Some (rc_row l x mp io)
      | None => rc_fallback l
      end
    | None => rc_fallback l
    end
  end.

Definition resolve_combined (a : attr) : attr :=
  match a with
  | None => None
  | Some l => if text_eqb (l_file l) name then rc_inner l else Some l
  end.

Definition rc_seg (r : option text * rseg) : option text * rseg :=
  let '(t, (gl, gc, a)) := r in (t, (gl, gc, resolve_combined a)).

End Spec.

(* ------------------------------------------------------------------ *)
(* the statement T1, as a boolean test on instances                    *)
(* ------------------------------------------------------------------ *)
Definition rseg_eqb (a b : option text * rseg) : bool :=
  opt_eqb text_eqb (fst a) (fst b) && (fst (fst (snd a)) =? fst (fst (snd b)))
  && (snd (fst (snd a)) =? snd (fst (snd b))) && attr_eqb (snd (snd a)) (snd (snd b)).

Definition t1_test (v : text) (m : smap) (name : text) (orig : option text) (im : smap) (remove : bool)
  (o : opts) : bool :=
  list_eqb rseg_eqb
    (rsegs_of_events (fst (combined_stream v m name orig im remove o)) [] [])
    (map (rc_seg (columns o) m im name orig remove) (rsegs_of_events (fst (sm_stream v m o)) [] [])).
