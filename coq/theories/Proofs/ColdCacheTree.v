(* Cold caches, part 2 (K2): the theorems of the class `rshape` (raw leaves, OriginalSource,
   SourceMapSource without inner map, ConcatSource, ReplaceSource), lifted to trees that also
   contain CachedSource nodes with cold caches - the first observation of a freshly built tree.
   Hypotheses: the tree without its CachedSource wrappers is in the class (`rshape (uncache s)`,
   `rsmall (uncache s)`; both predicates are `false` / blind on SCached itself), `treeA s`,
   every cache id occurs once (`ids_distinct s`), and the store is cold for the tree (`cold st s`;
   the empty store is: corollaries `..._fresh`).
   Every observation below starts from the SAME cold store: each one is a first observation.
   (The store after an observation is no longer cold; see ColdCacheRoot.v for what holds then.) *)
From RS Require Import Base.Prelude Base.Text Rope.RopeModel Codec.Vlq Codec.CodecSpec
  Checkers.ChkCodec Stream.Types Stream.Leaves Stream.Concat Stream.Replace Stream.Combined Stream.Tree
  Api.ApiTree Sem.Attr Sem.HashEq Api.ApiHist Checkers.ChkTree Checkers.ChkHist Checkers.ChkComp
  Proofs.StreamText Proofs.StreamLeaves Proofs.StreamMap Proofs.StreamConcat Proofs.StreamTree
  Proofs.WfStream Proofs.WfFinal Proofs.RStreamText Proofs.RStreamPos Proofs.RStreamTree
  Proofs.AttrCodec Proofs.AttrSms Proofs.AttrLeaves Proofs.LawConcatAttr Proofs.LawWrappers
  Proofs.CacheStore Proofs.CacheReplay
  Proofs.FinalDense Proofs.FinalReplace Proofs.FinalConcat Proofs.FinalTree Proofs.FinalCache
  Proofs.ReplAttrRef Proofs.ReplAttrStream Proofs.ReplAttrOrigin Proofs.ReplAttrCols Proofs.ReplAttrSms Proofs.ReplAttrTree
  Proofs.LinesTree Proofs.ColdCache.
Require Import Lia List.

Local Open Scope N_scope.

(* ------------------------------------------------------------------ *)
(* the well-formedness classes see through CachedSource                 *)
(* ------------------------------------------------------------------ *)
Lemma forallb_map_ext {A} (f g : A -> bool) (h : A -> A) (l : list A) :
  Forall (fun x => f (h x) = g x) l -> forallb f (map h l) = forallb g l.
Proof.
  induction 1 as [|x l Hx _ IH]; [reflexivity|]. cbn [map forallb]. rewrite Hx, IH. reflexivity.
Qed.

Theorem uncache_tree_wf : forall s, tree_wf (uncache s) = tree_wf s.
Proof.
  apply (src_ind' (fun s => tree_wf (uncache s) = tree_wf s)); cbn [uncache tree_wf]; try reflexivity.
  - intros cs IH. apply forallb_map_ext. exact IH.
  - intros i rs IH. rewrite IH, uncache_source. reflexivity.
  - intros k i IH. exact IH.
Qed.

Theorem uncache_tree_ascii : forall s, tree_ascii (uncache s) = tree_ascii s.
Proof.
  apply (src_ind' (fun s => tree_ascii (uncache s) = tree_ascii s)); cbn [uncache tree_ascii]; try reflexivity.
  - intros cs IH. apply forallb_map_ext. exact IH.
  - intros i rs IH. rewrite IH. reflexivity.
  - intros k i IH. exact IH.
Qed.

Theorem uncache_treeA (s : src) : treeA (uncache s) = treeA s.
Proof. unfold treeA. rewrite uncache_tree_wf, uncache_tree_ascii. reflexivity. Qed.

Corollary treeA_uncache (s : src) : treeA s = true -> treeA (uncache s) = true.
Proof. rewrite uncache_treeA. exact (fun H => H). Qed.

(* a tree of the class has nothing to remove *)
Lemma rshape_uncache (s : src) : RStreamTree.rshape s = true -> uncache s = s.
Proof. intros H. apply uncache_id. apply FinalCache.rshape_nocache. exact H. Qed.

(* ------------------------------------------------------------------ *)
(* components of K1                                                     *)
(* ------------------------------------------------------------------ *)
Section Cold.
Variables (st : store) (s : src).
Hypothesis Hd : ids_distinct s.
Hypothesis Hc : cold st s.

Lemma cold_evs (o : opts) : fst (fst (stream st s o)) = fst (fst (stream [] (uncache s) o)).
Proof. rewrite (cold_stream_uncache st s o Hd Hc). reflexivity. Qed.

Lemma cold_gi (o : opts) : snd (fst (stream st s o)) = snd (fst (stream [] (uncache s) o)).
Proof. rewrite (cold_stream_uncache st s o Hd Hc). reflexivity. Qed.

Hypothesis Hsh : RStreamTree.rshape (uncache s) = true.
Hypothesis HA : treeA s = true.

(* ------------------------------------------------------------------ *)
(* (d) stream_wf_tree, dense_tree_any: need no size bound                *)
(* ------------------------------------------------------------------ *)
Theorem cold_stream_wf (o : opts) : stream_wf (fst (fst (stream st s o))) 0 0 = true.
Proof.
  rewrite cold_evs. apply stream_wf_tree; [rewrite rshape_eq; exact Hsh|apply treeA_uncache; exact HA].
Qed.

Theorem cold_stream_dense (o : opts) : dense (fst (fst (stream st s o))) 0 0 = true.
Proof. rewrite cold_evs. apply dense_tree_any; [exact Hsh|apply treeA_uncache; exact HA]. Qed.

Hypothesis Hsm : rsmall (uncache s) = true.

(* ------------------------------------------------------------------ *)
(* (a) rshape_stream_good: reassembly, true chunk positions, end info    *)
(* ------------------------------------------------------------------ *)
(* the clause `st' = st` of the rshape theorem is replaced by what is true of a tree with
   caches: the store grows, and only under the ids of the tree *)
Theorem cold_stream_good (cols : bool) :
  let '(evs, gi, st') := stream st s (mkOpts cols false) in
  reassembles evs (source s) = true /\ well_positioned (chunks_of evs) 1 0 = true /\
  gi = advance 1 0 (source s) /\
  store_le st st' /\ (forall id, has_id id s = false -> store_get st' id = store_get st id).
Proof.
  pose proof (rshape_stream_good [] (uncache s) cols Hsh (treeA_uncache s HA) Hsm) as G.
  pose proof (cold_evs (mkOpts cols false)) as E1. pose proof (cold_gi (mkOpts cols false)) as E2.
  pose proof (proj1 (store_grows s) st (mkOpts cols false)) as L.
  assert (K : forall id, has_id id s = false ->
                         store_get (snd (stream st s (mkOpts cols false))) id = store_get st id)
    by (intros id Hid; apply (proj1 (no_id_keeps id s Hid))).
  destruct (stream [] (uncache s) (mkOpts cols false)) as [[evs' gi'] st2].
  destruct (stream st s (mkOpts cols false)) as [[evs gi] st']. cbn [fst snd] in *. subst evs' gi'.
  rewrite uncache_source in G. destruct G as [G1 [G2 [G3 _]]].
  split; [exact G1|]. split; [exact G2|]. split; [exact G3|]. split; [exact L|exact K].
Qed.

Theorem cold_stream_nl_last (cols : bool) :
  chunks_nl_last (fst (fst (stream st s (mkOpts cols false)))) = true.
Proof.
  rewrite cold_evs. apply rshape_stream_nl_last; [exact Hsh|apply treeA_uncache; exact HA|exact Hsm].
Qed.

(* ------------------------------------------------------------------ *)
(* (b) text-less against text-carrying attribution                       *)
(* ------------------------------------------------------------------ *)
Theorem cold_final_attr_tree :
  attr_of_final_events (fst (fst (stream st s (mkOpts true true)))) (source s) true =
  attr_of_stream (fst (fst (stream st s (mkOpts true false)))) true.
Proof.
  rewrite !cold_evs, <- (uncache_source s).
  apply final_attr_tree; [exact Hsh|apply treeA_uncache; exact HA|exact Hsm].
Qed.

Theorem cold_final_attr_tree_lines :
  attr_of_final_events (fst (fst (stream st s (mkOpts false true)))) (source s) false =
  attr_of_stream (fst (fst (stream st s (mkOpts false false)))) false.
Proof.
  rewrite !cold_evs, <- (uncache_source s).
  apply final_attr_tree_lines; [exact Hsh|apply treeA_uncache; exact HA|exact Hsm].
Qed.

(* both column settings at once *)
Corollary cold_final_attr (c : bool) :
  attr_of_final_events (fst (fst (stream st s (mkOpts c true)))) (source s) c =
  attr_of_stream (fst (fst (stream st s (mkOpts c false)))) c.
Proof. destruct c; [apply cold_final_attr_tree|apply cold_final_attr_tree_lines]. Qed.

(* the facts about the text-less stream (dense announcements, segments on positions of
   source(), exact end info, sorted) *)
Theorem cold_final_stream_facts (c : bool) :
  let r := stream st s (mkOpts c true) in
  dense (fst (fst r)) 0 0 = true /\
  positions_of_text (source s) (chunks_of (fst (fst r))) = true /\
  snd (fst r) = advance 1 0 (source s) /\
  sorted_by pos_le (chunk_mappings (fst (fst r))) = true.
Proof.
  cbn zeta. rewrite !cold_evs, cold_gi, <- (uncache_source s). destruct c.
  - destruct (final_stream_facts [] (uncache s) Hsh (treeA_uncache s HA) Hsm) as [F1 [F2 [F3 [F4 _]]]].
    repeat split; assumption.
  - destruct (final_stream_facts_lines [] (uncache s) Hsh (treeA_uncache s HA) Hsm)
      as [F1 [F2 [F3 [F4 _]]]].
    repeat split; assumption.
Qed.

(* ------------------------------------------------------------------ *)
(* (c) property C03: map() attributes as the stream                       *)
(* ------------------------------------------------------------------ *)
Lemma cold_get_map_eq (c : bool) : fst (Tree.get_map st s c) = fst (Tree.get_map [] (uncache s) c).
Proof. apply cold_get_map_uncache; assumption. Qed.

(* get_map form: what ConcatSource / ReplaceSource / OriginalSource::map() compute *)
Theorem cold_C03_get_map (c : bool) :
  forallb mapping_small (chunk_mappings (fst (fst (stream st s (mkOpts c true))))) = true ->
  attr_of_map (fst (Tree.get_map st s c)) (source s) c =
  attr_of_stream (fst (fst (stream st s (mkOpts c false)))) c /\
  is_none (fst (Tree.get_map st s c)) =
  negb (mapped_chunk_exists (fst (fst (stream st s (mkOpts c false))))).
Proof.
  rewrite cold_get_map_eq, !cold_evs, <- (uncache_source s). intros Hs. destruct c.
  - apply C03_tree_cols; [exact Hsh|apply treeA_uncache; exact HA|exact Hsm|exact Hs].
  - apply C03_tree_lines; [exact Hsh|apply treeA_uncache; exact HA|exact Hsm|exact Hs].
Qed.

End Cold.

(* map() form.  `map_of` of a tree is `get_map` of it when - below any number of CachedSource
   wrappers - its root is a ConcatSource, an OriginalSource or a ReplaceSource with at least
   one replacement.  (For the other roots map() does not stream: raw leaves answer None,
   SourceMapSource its own map, ReplaceSource without replacements delegates; these are the
   leaf theorems `AttrLeaves.leaf_attr` / `AttrSms`, and `LawWrappers.replace_nil_map`.) *)
Definition streams_map (s : src) : bool :=
  match s with
  | SConcat _ | SOriginal _ _ => true
  | SReplace _ rs => negb (is_nil rs)
  | _ => false
  end.

Lemma streams_map_get_map (s : src) (st : store) (c : bool) :
  streams_map s = true -> map_of st s c = Tree.get_map st s c.
Proof.
  destruct s; try discriminate; try reflexivity. cbn [streams_map map_of].
  destruct (is_nil repls); [discriminate|reflexivity].
Qed.

(* what `map_of` of a cold root-level CachedSource computes: the wrapped tree's map() *)
Theorem cold_map_cached_root (st : store) (id : N) (a : src) (c : bool) :
  ids_distinct (SCached id a) -> cold st (SCached id a) ->
  fst (map_of st (SCached id a) c) = fst (map_of st a c) /\
  cache_get (store_get (snd (map_of st (SCached id a) c)) id) (mkOpts c false) =
    Some (fst (map_of st a c)).
Proof.
  intros Hd Hc. unfold ids_distinct in Hd. cbn [ids] in Hd. inversion Hd as [|? ? Hk Hi]. subst.
  pose proof (has_id_false id a Hk) as Hno. pose proof (cold_cached_self _ _ _ Hc (mkOpts c false)) as H0.
  split; [apply cached_cold_map_tree; assumption|].
  cbn [map_of]. rewrite H0. pose proof (proj2 (no_id_keeps id a Hno) st c) as Kp.
  destruct (map_of st a c) as [m st1]. cbn [fst snd] in *.
  rewrite store_put_get_same, Kp, H0. reflexivity.
Qed.

Theorem cold_C03_map (st : store) (s : src) (c : bool) :
  ids_distinct s -> cold st s ->
  RStreamTree.rshape (uncache s) = true -> treeA s = true -> rsmall (uncache s) = true ->
  streams_map (uncache s) = true ->
  forallb mapping_small (chunk_mappings (fst (fst (stream st s (mkOpts c true))))) = true ->
  attr_of_map (fst (map_of st s c)) (source s) c =
  attr_of_stream (fst (fst (stream st s (mkOpts c false)))) c /\
  is_none (fst (map_of st s c)) =
  negb (mapped_chunk_exists (fst (fst (stream st s (mkOpts c false))))).
Proof.
  intros Hd Hc Hsh HA Hsm Hr Hs.
  rewrite (cold_map_uncache st s c Hd Hc), (streams_map_get_map _ [] c Hr),
    <- (cold_get_map_eq st s Hd Hc c).
  apply cold_C03_get_map; assumption.
Qed.

(* leaf roots below CachedSource wrappers: raw leaves, OriginalSource below 2^30 bytes *)
Theorem cold_C03_map_leaf (st : store) (s : src) (c : bool) :
  ids_distinct s -> cold st s -> leaf_ok (uncache s) ->
  attr_of_map (fst (map_of st s c)) (source s) c =
  attr_of_stream (fst (fst (stream st s (mkOpts c false)))) c /\
  is_none (fst (map_of st s c)) =
  negb (mapped_chunk_exists (fst (fst (stream st s (mkOpts c false))))).
Proof.
  intros Hd Hc Hl.
  rewrite (cold_map_uncache st s c Hd Hc), (cold_evs st s Hd Hc), <- (uncache_source s).
  split; [apply leaf_attr|apply leaf_none]; exact Hl.
Qed.

(* ------------------------------------------------------------------ *)
(* ReplaceSource attribution (C06) over a tree with cold caches          *)
(* ------------------------------------------------------------------ *)
Theorem cold_replace_tree_attr (st : store) (inner : src) (rs : list repl) :
  ids_distinct inner -> cold st inner ->
  RStreamTree.rshape (uncache inner) = true -> treeA (SReplace inner rs) = true ->
  rsmall (uncache inner) = true ->
  let comp10 := LawWrappers.evs_of (stream st (SReplace inner rs) o10) in
  let k10 := LawWrappers.evs_of (stream st inner o10) in
  bindings_consistent (contents_of_events k10) = true -> contents_small k10 = true ->
  attr_of_stream comp10 true = replace_reference k10 rs.
Proof.
  intros Hd Hc Hsh HA Hsm. cbn zeta. unfold LawWrappers.evs_of.
  assert (Hd' : ids_distinct (SReplace inner rs)) by exact Hd.
  assert (Hc' : cold st (SReplace inner rs)) by (intros id Hid; apply Hc; exact Hid).
  rewrite (cold_evs st (SReplace inner rs) Hd' Hc'), (cold_evs st inner Hd Hc). cbn [uncache].
  apply (replace_tree_attr [] (uncache inner) rs Hsh); [|exact Hsm].
  rewrite <- (uncache_treeA (SReplace inner rs)) in HA. exact HA.
Qed.

(* ------------------------------------------------------------------ *)
(* the empty store: a freshly built tree                                 *)
(* ------------------------------------------------------------------ *)
Section Fresh.
Variable s : src.
Hypothesis Hd : ids_distinct s.
Hypothesis Hsh : RStreamTree.rshape (uncache s) = true.
Hypothesis HA : treeA s = true.
Hypothesis Hsm : rsmall (uncache s) = true.

Corollary fresh_stream_good (cols : bool) :
  let '(evs, gi, _) := stream [] s (mkOpts cols false) in
  reassembles evs (source s) = true /\ well_positioned (chunks_of evs) 1 0 = true /\
  gi = advance 1 0 (source s).
Proof.
  pose proof (cold_stream_good [] s Hd (cold_empty s) Hsh HA Hsm cols) as G.
  destruct (stream [] s (mkOpts cols false)) as [[evs gi] st']. destruct G as [G1 [G2 [G3 _]]].
  repeat split; assumption.
Qed.

Corollary fresh_final_attr_tree :
  attr_of_final_events (fst (fst (stream [] s (mkOpts true true)))) (source s) true =
  attr_of_stream (fst (fst (stream [] s (mkOpts true false)))) true.
Proof. apply cold_final_attr_tree; try assumption. apply cold_empty. Qed.

Corollary fresh_final_attr_tree_lines :
  attr_of_final_events (fst (fst (stream [] s (mkOpts false true)))) (source s) false =
  attr_of_stream (fst (fst (stream [] s (mkOpts false false)))) false.
Proof. apply cold_final_attr_tree_lines; try assumption. apply cold_empty. Qed.

Corollary fresh_stream_wf (o : opts) : stream_wf (fst (fst (stream [] s o))) 0 0 = true.
Proof. apply cold_stream_wf; try assumption. apply cold_empty. Qed.

Corollary fresh_C03_get_map (c : bool) :
  forallb mapping_small (chunk_mappings (fst (fst (stream [] s (mkOpts c true))))) = true ->
  attr_of_map (fst (Tree.get_map [] s c)) (source s) c =
  attr_of_stream (fst (fst (stream [] s (mkOpts c false)))) c /\
  is_none (fst (Tree.get_map [] s c)) =
  negb (mapped_chunk_exists (fst (fst (stream [] s (mkOpts c false))))).
Proof. apply cold_C03_get_map; try assumption. apply cold_empty. Qed.

Corollary fresh_C03_map (c : bool) :
  streams_map (uncache s) = true ->
  forallb mapping_small (chunk_mappings (fst (fst (stream [] s (mkOpts c true))))) = true ->
  attr_of_map (fst (map_of [] s c)) (source s) c =
  attr_of_stream (fst (fst (stream [] s (mkOpts c false)))) c /\
  is_none (fst (map_of [] s c)) =
  negb (mapped_chunk_exists (fst (fst (stream [] s (mkOpts c false))))).
Proof. intros Hr Hs. apply cold_C03_map; try assumption. apply cold_empty. Qed.

End Fresh.

(* ------------------------------------------------------------------ *)
(* tests                                                                *)
(* ------------------------------------------------------------------ *)
(* rsmall / rshape of the tree itself would be the wrong hypotheses: rshape is false on every
   CachedSource, rsmall does not look below one *)
Example rshape_cached_false : RStreamTree.rshape t_two = false /\ RStreamTree.rshape (uncache t_two) = true.
Proof. split; reflexivity. Qed.

Example t_two_hyps :
  ids_distinctb t_two = true /\ RStreamTree.rshape (uncache t_two) = true /\ treeA t_two = true /\
  rsmall (uncache t_two) = true /\ streams_map (uncache t_two) = true.
Proof. vm_compute. repeat split. Qed.

Example t_nest_hyps :
  ids_distinctb t_nest = true /\ RStreamTree.rshape (uncache t_nest) = true /\ treeA t_nest = true /\
  rsmall (uncache t_nest) = true /\ streams_map (uncache t_nest) = true.
Proof. vm_compute. repeat split. Qed.

Print Assumptions uncache_treeA.
Print Assumptions cold_stream_wf.
Print Assumptions cold_stream_dense.
Print Assumptions cold_stream_good.
Print Assumptions cold_stream_nl_last.
Print Assumptions cold_final_attr_tree.
Print Assumptions cold_final_attr_tree_lines.
Print Assumptions cold_final_stream_facts.
Print Assumptions cold_C03_get_map.
Print Assumptions cold_map_cached_root.
Print Assumptions cold_C03_map.
Print Assumptions cold_C03_map_leaf.
Print Assumptions cold_replace_tree_attr.
Print Assumptions fresh_stream_good.
Print Assumptions fresh_final_attr_tree.
Print Assumptions fresh_final_attr_tree_lines.
Print Assumptions fresh_stream_wf.
Print Assumptions fresh_C03_get_map.
Print Assumptions fresh_C03_map.
