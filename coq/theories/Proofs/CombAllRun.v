(* C09, whole stream, part 2: event lists whose announcements are dense and made before use
   (`run`), as a relation between the tables before and after.  Every piece of output of the
   combined streamer is such a run; runs compose; a run determines the resolved segments,
   the `dense` predicate of property C11, the tables of `get_map`, and the announced contents. *)
From RS Require Import Base.Prelude Base.Text Rope.RopeModel Codec.Vlq Codec.CodecSpec
  Stream.Types Stream.Leaves Stream.Combined Stream.Tree Sem.Attr Checkers.ChkTree Checkers.ChkCombined
  Proofs.StreamText Proofs.StreamLeaves Proofs.StreamMap Proofs.WfStream Proofs.AttrCodec Proofs.AttrSms
  Proofs.CombSearch Proofs.CombPass.
Require Import Lia List ZArith.

Local Open Scope N_scope.

(* S N: tables before; S' N': tables after *)
Inductive run : list event -> list text -> list text -> list text -> list text -> Prop :=
| R_nil S N : run [] S N S N
| R_src s c evs S N S' N' : run evs (S ++ [s]) N S' N' -> run (ESource (len S) s c :: evs) S N S' N'
| R_name n evs S N S' N' : run evs S (N ++ [n]) S' N' -> run (EName (len N) n :: evs) S N S' N'
| R_chunk t mp evs S N S' N' : orig_ok (len S) (len N) (m_orig mp) -> run evs S N S' N' ->
    run (EChunk t mp :: evs) S N S' N'.

Lemma run_app a b S N S1 N1 S2 N2 : run a S N S1 N1 -> run b S1 N1 S2 N2 -> run (a ++ b) S N S2 N2.
Proof.
  intros Ha Hb. induction Ha as [S N|s c evs S N S' N' _ IH|n evs S N S' N' _ IH|t mp evs S N S' N' Ho _ IH].
  - exact Hb.
  - cbn [app]. apply R_src. apply IH. exact Hb.
  - cbn [app]. apply R_name. apply IH. exact Hb.
  - cbn [app]. apply R_chunk; [exact Ho|]. apply IH. exact Hb.
Qed.

Lemma run_src1 s c S N : run [ESource (len S) s c] S N (S ++ [s]) N.
Proof. apply R_src. apply R_nil. Qed.

Lemma run_name1 n S N : run [EName (len N) n] S N S (N ++ [n]).
Proof. apply R_name. apply R_nil. Qed.

Lemma run_chunk1 t mp S N : orig_ok (len S) (len N) (m_orig mp) -> run [EChunk t mp] S N S N.
Proof. intros H. apply R_chunk; [exact H|apply R_nil]. Qed.

(* the tables only grow *)
Lemma run_ext evs S N S' N' : run evs S N S' N' -> exists es en, S' = S ++ es /\ N' = N ++ en.
Proof.
  induction 1 as [S N|s c evs S N S' N' _ IH|n evs S N S' N' _ IH|t mp evs S N S' N' Ho _ IH].
  - exists [], []. rewrite !app_nil_r. split; reflexivity.
  - destruct IH as [es [en [E1 E2]]]. exists (s :: es), en. rewrite E1, <- app_assoc. split; [reflexivity|exact E2].
  - destruct IH as [es [en [E1 E2]]]. exists es, (n :: en). rewrite E2, <- app_assoc. split; [exact E1|reflexivity].
  - exact IH.
Qed.

(* the sources added are those announced, in order *)
Lemma run_sources evs S N S' N' : run evs S N S' N' -> S' = S ++ map fst (contents_of_events evs).
Proof.
  induction 1 as [S N|s c evs S N S' N' _ IH|n evs S N S' N' _ IH|t mp evs S N S' N' Ho _ IH].
  - cbn. rewrite app_nil_r. reflexivity.
  - cbn [contents_of_events map fst]. rewrite IH, <- app_assoc. reflexivity.
  - exact IH.
  - exact IH.
Qed.

(* resolved segments *)
Lemma run_rsegs evs S N S' N' : run evs S N S' N' -> chunks_of evs = [] ->
  forall rest, rsegs_of_events (evs ++ rest) S N = rsegs_of_events rest S' N'.
Proof.
  induction 1 as [S N|s c evs S N S' N' _ IH|n evs S N S' N' _ IH|t mp evs S N S' N' Ho _ IH];
    intros Hc rest.
  - reflexivity.
  - cbn [app rsegs_of_events]. rewrite lm_insert_at_len. apply IH. exact Hc.
  - cbn [app rsegs_of_events]. rewrite lm_insert_at_len. apply IH. exact Hc.
  - discriminate.
Qed.

Lemma rsegs_chunk_head t mp rest S N :
  rsegs_of_events (EChunk t mp :: rest) S N =
  (t, (g_line mp, g_col mp, optF (fileT S) (fileT N) (m_orig mp))) :: rsegs_of_events rest S N.
Proof. cbn [rsegs_of_events]. destruct (m_orig mp) as [o|]; reflexivity. Qed.

(* C11: dense *)
Lemma run_dense evs S N S' N' : run evs S N S' N' ->
  forall rest, dense (evs ++ rest) (len S) (len N) = dense rest (len S') (len N').
Proof.
  induction 1 as [S N|s c evs S N S' N' _ IH|n evs S N S' N' _ IH|t mp evs S N S' N' Ho _ IH]; intros rest.
  - reflexivity.
  - cbn [app dense]. rewrite N.eqb_refl. cbn [andb]. rewrite <- IH, slen_app. reflexivity.
  - cbn [app dense]. rewrite N.eqb_refl. cbn [andb]. rewrite <- IH, slen_app. reflexivity.
  - cbn [app dense]. rewrite <- IH.
    assert (E : match m_orig mp with
                | Some o => (o_src o <? len S) && match o_name o with Some n => n <? len N | None => true end
                | None => true end = true).
    { destruct (m_orig mp) as [o|]; [|reflexivity]. cbn [orig_ok] in Ho. destruct Ho as [H1 H2].
      apply andb_true_iff. split; [apply N.ltb_lt; exact H1|].
      destruct (o_name o); [apply N.ltb_lt; exact H2|reflexivity]. }
    rewrite E. reflexivity.
Qed.

Corollary run_dense_all evs S N S' N' : run evs S N S' N' -> dense evs (len S) (len N) = true.
Proof. intros H. rewrite <- (app_nil_r evs), (run_dense _ _ _ _ _ H []). reflexivity. Qed.

(* the tables of get_map *)
Lemma run_tabs evs S N S' N' : run evs S N S' N' -> tabs evs S N = (S', N').
Proof.
  induction 1 as [S N|s c evs S N S' N' _ IH|n evs S N S' N' _ IH|t mp evs S N S' N' Ho _ IH].
  - reflexivity.
  - cbn [tabs]. rewrite lm_insert_at_len. exact IH.
  - cbn [tabs]. rewrite lm_insert_at_len. exact IH.
  - exact IH.
Qed.

(* contents: the table of get_map holds, at the index of an announced source, the announced
   content (padded with "" where none was announced) *)
Definition cont_ok (contents : list text) (anns : list (text * option text)) : Prop :=
  len contents <= len anns /\
  forall g p, nth_opt anns g = Some p -> content_eqv (nth_opt contents g) (snd p) = true.

Lemma content_eqv_refl a : content_eqv a a = true.
Proof.
  unfold content_eqv. destruct a as [[|x t]|]; cbn [opt_eqb]; try reflexivity. apply text_eqb_refl.
Qed.

Lemma lm_insert_nth_lt {A} (d : A) l k v i : i < len l -> i <> k -> nth_opt (lm_insert d l k v) i = nth_opt l i.
Proof.
  intros Hi Hne. destruct (cs_nth_opt_some l i Hi) as [x Hx]. rewrite Hx.
  apply (lm_get_insert_other d l k v i x Hne Hx).
Qed.

(* an index between the old length and the inserted one holds the default *)
Lemma lm_set_gap {A} (d v : A) : forall k l j, (length l <= j)%nat -> (j < k)%nat ->
  nth_error (lm_set d l k v) j = Some d.
Proof.
  induction k as [|k IH]; intros l j H1 H2; [lia|]. destruct l as [|x l]; cbn [lm_set].
  - destruct j as [|j]; [reflexivity|]. cbn [nth_error]. apply IH; cbn [length]; lia.
  - cbn [length] in H1. destruct j as [|j]; [lia|]. cbn [nth_error]. apply IH; lia.
Qed.

Lemma cont_ok_step contents anns s c :
  cont_ok contents anns ->
  cont_ok (match c with Some x => lm_insert [] contents (len anns) x | None => contents end) (anns ++ [(s, c)]).
Proof.
  intros [Hl H]. destruct c as [x|].
  - split.
    + rewrite lm_insert_len, slen_app. change (len [(s, Some x)]) with 1. lia.
    + intros g p Hg. destruct (N.lt_ge_cases g (len anns)) as [Hlt|Hge].
      * rewrite snth_app_l in Hg by exact Hlt. specialize (H g p Hg).
        destruct (N.lt_ge_cases g (len contents)) as [Hc|Hc].
        -- rewrite lm_insert_nth_lt; [exact H|exact Hc|lia].
        -- rewrite (cs_nth_opt_none contents g Hc) in H.
           match goal with |- content_eqv ?q _ = true => assert (E : q = Some []) end.
           { unfold nth_opt, lm_insert. apply lm_set_gap.
             - unfold len, text, byte in *. lia.
             - unfold len, text, byte in *. lia. }
           rewrite E. destruct (snd p) as [[|y t]|]; cbn in H |- *; try reflexivity; discriminate.
      * pose proof (cs_nth_opt_lt _ _ _ Hg) as Hb. rewrite slen_app in Hb. change (len [(s, Some x)]) with 1 in Hb.
        assert (g = len anns) by lia. subst g. rewrite nth_opt_app_last in Hg. inversion Hg. subst p. cbn [snd].
        change (nth_opt (lm_insert [] contents (len anns) x) (len anns)) with
          (lm_get (lm_insert [] contents (len anns) x) (len anns)).
        rewrite lm_get_insert_same. apply content_eqv_refl.
  - split.
    + rewrite slen_app. lia.
    + intros g p Hg. destruct (N.lt_ge_cases g (len anns)) as [Hlt|Hge].
      * rewrite snth_app_l in Hg by exact Hlt. apply (H g p Hg).
      * pose proof (cs_nth_opt_lt _ _ _ Hg) as Hb. rewrite slen_app, slen_cons in Hb. cbn in Hb.
        assert (g = len anns) by lia. subst g. rewrite nth_opt_app_last in Hg. inversion Hg. subst p. cbn [snd].
        rewrite cs_nth_opt_none by lia. reflexivity.
Qed.

Lemma run_tables evs S N S' N' : run evs S N S' N' ->
  forall T anns, t_sources T = S -> t_names T = N -> map fst anns = S -> cont_ok (t_contents T) anns ->
  t_sources (fold_left tables_event evs T) = S' /\ t_names (fold_left tables_event evs T) = N' /\
  cont_ok (t_contents (fold_left tables_event evs T)) (anns ++ contents_of_events evs).
Proof.
  induction 1 as [S N|s c evs S N S' N' _ IH|n evs S N S' N' _ IH|t mp evs S N S' N' Ho _ IH];
    intros T anns H1 H2 H3 H4.
  - cbn [fold_left contents_of_events]. rewrite app_nil_r. split; [exact H1|]. split; [exact H2|exact H4].
  - cbn [fold_left contents_of_events].
    assert (Hla : len anns = len S) by (rewrite <- H3, slen_map; reflexivity).
    replace (anns ++ (s, c) :: contents_of_events evs) with ((anns ++ [(s, c)]) ++ contents_of_events evs)
      by (rewrite <- app_assoc; reflexivity).
    apply IH.
    + cbn [tables_event t_sources]. rewrite H1. apply lm_insert_at_len.
    + cbn [tables_event t_names]. exact H2.
    + rewrite map_app, H3. reflexivity.
    + cbn [tables_event t_contents]. rewrite <- Hla. apply cont_ok_step. exact H4.
  - cbn [fold_left contents_of_events]. apply IH.
    + cbn [tables_event t_sources]. exact H1.
    + cbn [tables_event t_names]. rewrite H2. apply lm_insert_at_len.
    + exact H3.
    + cbn [tables_event t_contents]. exact H4.
  - cbn [fold_left contents_of_events]. apply IH; assumption.
Qed.

(* ------------------------------------------------------------------ *)
(* interning                                                           *)
(* ------------------------------------------------------------------ *)
Lemma find_text_none_notin tbl t : forall i, find_text tbl t i = None -> ~ In t tbl.
Proof.
  induction tbl as [|x tbl IH]; intros i H; [intros []|]. cbn [find_text] in H.
  destruct (text_eqb x t) eqn:E; [discriminate|]. intros [Hx|Hx].
  - subst x. rewrite text_eqb_refl in E. discriminate.
  - apply (IH _ H Hx).
Qed.

Lemma NoDup_snoc {A} (l : list A) x : NoDup l -> ~ In x l -> NoDup (l ++ [x]).
Proof.
  intros H Hx. rewrite <- (rev_involutive (l ++ [x])). apply NoDup_rev.
  rewrite rev_app_distr. cbn [rev app]. constructor.
  - intros Q. apply in_rev in Q. exact (Hx Q).
  - apply NoDup_rev. exact H.
Qed.

(* the three outcomes of `intern`, with what the caller needs *)
Lemma intern_facts tbl s (ALL : list text) : NoDup tbl -> incl tbl ALL -> In s ALL ->
  exists tbl' g fresh, intern tbl s = (tbl', g, fresh) /\
    nth_opt tbl' g = Some s /\ NoDup tbl' /\ incl tbl' ALL /\
    tbl' = tbl ++ (if fresh then [s] else []) /\ (fresh = true -> g = len tbl).
Proof.
  intros Hn Hi Hs. unfold intern. destruct (find_text tbl s 0) as [g|] eqn:E.
  - exists tbl, g, false. apply find_text_sound0 in E. destruct E as [E1 E2].
    split; [reflexivity|]. split; [exact E1|]. split; [exact Hn|]. split; [exact Hi|].
    split; [rewrite app_nil_r; reflexivity|discriminate].
  - exists (tbl ++ [s]), (len tbl), true. split; [reflexivity|]. split; [apply nth_opt_app_last|].
    split; [apply NoDup_snoc; [exact Hn|apply (find_text_none_notin _ _ _ E)]|].
    split; [intros x Hx; apply in_app_or in Hx; destruct Hx as [Hx|[Hx|[]]]; [apply Hi; exact Hx|subst x; exact Hs]|].
    split; reflexivity.
Qed.

Lemma nodup_incl_len {A} (l l' : list A) : NoDup l -> incl l l' -> len l <= len l'.
Proof. intros H1 H2. pose proof (NoDup_incl_length H1 H2). unfold len. lia. Qed.

Print Assumptions run_tables.
Print Assumptions run_dense.
