(* C03 for composite trees, part 3 (G3, G4, G5): trees built from raw leaves, OriginalSource,
   SourceMapSource without inner map, ConcatSource and ReplaceSource (class `rshape`), ASCII
   texts and consistent maps (`treeA`), ReplaceSource nodes below 2^32 bytes (`rsmall`),
   columns = true.
   G3  the text-less stream (what map() consumes), looked up by position, attributes every
       byte of source() as the text-carrying stream does by covering.
   G4  hence map() attributes as the stream does (property C03, clause 1), given that the
       segment fields stay below 2^30 (the encoder's domain); and map() is None exactly when
       no text-mode chunk is mapped (clause 3). *)
From RS Require Import Base.Prelude Base.Text Rope.RopeModel Codec.Vlq Codec.CodecSpec
  Checkers.ChkCodec Stream.Types Stream.Leaves Stream.Concat Stream.Replace Stream.Combined Stream.Tree
  Sem.Attr Checkers.ChkTree
  Proofs.CodecKept Proofs.StreamText Proofs.StreamLeaves Proofs.StreamMap Proofs.StreamConcat Proofs.StreamTree
  Proofs.WfStream Proofs.WfFinal Proofs.RStreamText Proofs.RStreamPos Proofs.RStreamTree
  Proofs.AttrCodec Proofs.AttrSms Proofs.AttrLeaves Proofs.LawConcatAttr Proofs.LawWrappers
  Proofs.CacheReplay Proofs.FinalDense Proofs.FinalReplace Proofs.FinalConcat.
Require Import Lia List.

Local Open Scope N_scope.

Definition oF : opts := mkOpts true true.     (* columns, text-less *)
Definition oT : opts := mkOpts true false.    (* columns, text-carrying *)

(* what the induction carries for every tree of the class *)
Definition tgood (s : src) : Prop :=
  forall st, rshape s = true -> treeA s = true -> rsmall s = true ->
    kid_ok (fst (stream st s oF), source s) /\ snd (stream st s oF) = st /\
    attr_of_final_events (fst (fst (stream st s oF))) (source s) true =
    attr_of_stream (fst (fst (stream st s oT))) true.

(* ------------------------------------------------------------------ *)
(* raw leaves                                                          *)
(* ------------------------------------------------------------------ *)
Lemma raw_kid t : kid_ok (raw_stream t true, t).
Proof.
  unfold kid_ok, tr_events, tr_info, tr_text, raw_stream. cbn [fst snd].
  split; [reflexivity|]. split; [constructor|]. split; [apply gen_info_advance|exact I].
Qed.

Lemma raw_final_attr t :
  attr_of_final_events (fst (raw_stream t true)) t true = attr_of_stream (fst (raw_stream t false)) true.
Proof.
  rewrite raw_stream_attr. unfold attr_of_final_events, raw_stream. cbn [fst rsegs_of_events map].
  apply attr_by_pos_nil.
Qed.

(* ------------------------------------------------------------------ *)
(* OriginalSource                                                      *)
(* ------------------------------------------------------------------ *)
Lemma tokens_ssorted toks : Forall piece_shape toks -> forall fin line col,
  ssorted (chunk_mappings (fst (original_tokens toks fin line col))).
Proof.
  induction 1 as [|tk toks Htk Hall IH]; intros fin line col; [exact I|].
  rewrite original_tokens_cons.
  pose proof (tokens_positions toks Hall fin (nxt_line tk line) (nxt_col tk col)) as Hpos.
  pose proof (nxt_ple tk line col Htk) as Hn.
  assert (Hge : forall m, mpos m = (line, col) ->
            Forall (fun x => pos_le m x = true)
                   (chunk_mappings (fst (original_tokens toks fin (nxt_line tk line) (nxt_col tk col))))).
  { intros m Hm. eapply Forall_impl; [|exact Hpos]. cbn beta. intros x Hx. apply ple_pos_le. rewrite Hm.
    eapply ple_trans; eassumption. }
  destruct (lone tk), fin; cbn [app chunk_mappings ssorted]; try apply IH;
    (split; [apply Hge; reflexivity|apply IH]).
Qed.

Lemma original_kid v name : kid_ok (original_stream v name oF, v).
Proof.
  unfold kid_ok, tr_events, tr_info, tr_text. cbn [fst snd].
  split; [apply original_stream_dense_any|]. split; [apply (original_stream_pos v name true)|].
  split; [apply original_stream_end|].
  unfold oF. rewrite original_stream_cols_fst. cbn [chunk_mappings].
  apply tokens_ssorted. apply potential_tokens_pieces.
Qed.

Lemma original_final_attr v name :
  attr_of_final_events (fst (original_stream v name oF)) v true =
  attr_of_stream (fst (original_stream v name oT)) true.
Proof.
  unfold oF, oT. rewrite !original_stream_cols_fst.
  pose proof (original_tokens_good _ (potential_tokens_pieces v) 1 0) as [Hr Hw].
  rewrite concat_potential_tokens in Hr.
  assert (Hg : Forall (chunk_good (chunk_mappings (fst (original_tokens (potential_tokens v) true 1 0))))
                      (fst (original_tokens (potential_tokens v) false 1 0))).
  { apply (tokens_good_attr _ (potential_tokens v) 1 0 []).
    - apply potential_tokens_pieces.
    - apply potential_tokens_ok.
    - constructor.
    - reflexivity. }
  unfold attr_of_final_events, attr_of_stream. rewrite !rsegs_source0.
  rewrite (rsegs_chunks _ _ _ (tokens_only _ false 1 0)).
  rewrite (cover_by_pos _ _ _ _ (1, 0) v Hr Hw Hg).
  rewrite (rsegs_chunks_snd _ _ _ (tokens_only _ true 1 0)), attr_by_pos_fun.
  apply attr_by_fun_ext_all. intros l c. rewrite seg_fun_map. reflexivity.
Qed.

(* ------------------------------------------------------------------ *)
(* SourceMapSource without inner map                                    *)
(* ------------------------------------------------------------------ *)
Lemma pos_le_unmapped a m : pos_le a (unmapped (g_line m) (g_col m)) = pos_le a m.
Proof. reflexivity. Qed.

Lemma final_loop_ssorted rl rc : forall ms al, ssorted ms ->
  ssorted (chunk_mappings (sm_final_loop ms rl rc al)) /\
  forall a, Forall (fun x => pos_le a x = true) ms ->
            Forall (fun x => pos_le a x = true) (chunk_mappings (sm_final_loop ms rl rc al)).
Proof.
  induction ms as [|m ms IH]; intros al Hs; [split; [exact I|intros; constructor]|].
  destruct Hs as [Hm Hs]. cbn [sm_final_loop].
  destruct ((rl <=? g_line m) && ((rc <=? g_col m) || (rl <? g_line m))).
  { destruct (IH al Hs) as [I1 I2]. split; [exact I1|]. intros a Ha. inversion Ha; subst. apply I2. assumption. }
  destruct (m_orig m) as [o|].
  - destruct (IH (g_line m) Hs) as [I1 I2]. cbn [chunk_mappings ssorted]. split.
    + split; [apply I2; exact Hm|exact I1].
    + intros a Ha. inversion Ha; subst. constructor; [assumption|apply I2; assumption].
  - destruct (IH al Hs) as [I1 I2]. destruct (al =? g_line m).
    + cbn [chunk_mappings ssorted]. split.
      * split; [|exact I1]. eapply Forall_impl; [|apply (I2 m Hm)]. cbn beta. intros x Hx. exact Hx.
      * intros a Ha. inversion Ha; subst. constructor; [rewrite pos_le_unmapped; assumption|apply I2; assumption].
    + split; [exact I1|]. intros a Ha. inversion Ha; subst. apply I2. assumption.
Qed.

Lemma chunk_mappings_app a b : chunk_mappings (a ++ b) = chunk_mappings a ++ chunk_mappings b.
Proof. rewrite !chunk_mappings_chunks_of, chunks_of_app, map_app. reflexivity. Qed.

Lemma sm_kid v m : map_consistent v m = true -> kid_ok (sm_stream v m oF, v).
Proof.
  intros Hc. unfold kid_ok, tr_events, tr_info, tr_text. cbn [fst snd].
  split; [apply sm_stream_dense_any; exact Hc|]. split; [apply (sm_stream_pos v m true Hc)|].
  split; [apply sm_stream_end|].
  destruct (map_consistent_ok v m Hc) as [Hso _].
  unfold sm_stream, oF. cbn [columns final_source]. unfold sm_stream_final.
  destruct (gen_info v) as [rl rc]. destruct ((rl =? 1) && (rc =? 0)); cbn [fst]; [exact I|].
  rewrite !chunk_mappings_app, (chunk_mappings_chunks_of (announce_sources _ _ _)), announce_sources_chunks.
  rewrite (chunk_mappings_chunks_of (announce_names _ _)), announce_names_chunks. cbn [map app].
  apply final_loop_ssorted. apply sorted_ssorted. exact Hso.
Qed.

Lemma sm_final_text_attr v m : ascii v = true -> map_consistent v m = true ->
  attr_of_final_events (fst (sm_stream v m oF)) v true = attr_of_stream (fst (sm_stream v m oT)) true.
Proof.
  intros Ha Hc. unfold sm_stream, oF, oT. cbn [columns final_source].
  rewrite (sm_final_attr v m Hc), (sm_full_attr v m Ha Hc). reflexivity.
Qed.

Lemma mapped_ascii v n m og r : tree_ascii (SMapped v n m og None r) = true ->
  ascii v = true /\ map_consistent v m = true.
Proof.
  cbn [tree_ascii]. rewrite andb_true_r. intros H. apply andb_true_iff in H. destruct H as [H _].
  apply andb_true_iff in H. destruct H as [H Hmc]. apply andb_true_iff in H. destruct H as [H _].
  apply andb_true_iff in H. destruct H as [Hav _]. split; assumption.
Qed.

(* ------------------------------------------------------------------ *)
(* ConcatSource                                                        *)
(* ------------------------------------------------------------------ *)
Lemma kid_streams_pure o cs : (forall c, In c cs -> forall st, snd (stream st c o) = st) -> forall st,
  kid_streams st cs o = (map (fun c => fst (stream st c o)) cs, st).
Proof.
  induction cs as [|c cs IH]; intros H st; [reflexivity|]. cbn [kid_streams map].
  pose proof (H c (or_introl eq_refl) st) as Hc.
  destruct (stream st c o) as [[evs gi] st1]. cbn [fst snd] in *. subst st1.
  rewrite (IH (fun c' Hin => H c' (or_intror Hin)) st). reflexivity.
Qed.

Lemma Forall2_map_same {A B C} (R : B -> C -> Prop) (f : A -> B) (g : A -> C) (l : list A) :
  (forall x, In x l -> R (f x) (g x)) -> Forall2 R (map f l) (map g l).
Proof.
  induction l as [|x l IH]; intros H; [constructor|]. cbn [map]. constructor.
  - apply H. left. reflexivity.
  - apply IH. intros y Hy. apply H. right. exact Hy.
Qed.

Lemma rsmall_concat cs : rsmall (SConcat cs) = true -> forall c, In c cs -> rsmall c = true.
Proof. cbn [rsmall]. intros H c Hc. rewrite forallb_forall in H. apply H. exact Hc. Qed.

Lemma rshape_concat cs : rshape (SConcat cs) = true -> forall c, In c cs -> rshape c = true.
Proof. cbn [rshape]. intros H c Hc. rewrite forallb_forall in H. apply H. exact Hc. Qed.

Lemma concat_tgood cs : Forall tgood cs -> tgood (SConcat cs).
Proof.
  intros IH st Hsh Ha Hsm.
  pose proof (rshape_concat cs Hsh) as Hsh'. pose proof (treeA_concat cs Ha) as Ha'.
  pose proof (rsmall_concat cs Hsm) as Hsm'. rewrite Forall_forall in IH.
  destruct (Nat.eq_dec (length cs) 1) as [E|E].
  { destruct cs as [|c [|c2 r]]; try discriminate.
    assert (Hin : In c [c]) by (left; reflexivity).
    pose proof (IH c Hin st (Hsh' c Hin) (Ha' c Hin) (Hsm' c Hin)) as X.
    change (stream st (SConcat [c]) oF) with (stream st c oF).
    change (stream st (SConcat [c]) oT) with (stream st c oT).
    cbn [source map concat]. rewrite app_nil_r. exact X. }
  assert (PF : forall c, In c cs -> forall st0, snd (stream st0 c oF) = st0).
  { intros c Hin st0. apply (IH c Hin st0 (Hsh' c Hin) (Ha' c Hin) (Hsm' c Hin)). }
  assert (PT : forall c, In c cs -> forall st0, snd (stream st0 c oT) = st0).
  { intros c Hin st0. apply (rgood_all c st0 true (Hsh' c Hin) (Ha' c Hin) (Hsm' c Hin)). }
  rewrite (stream_concat_fold st cs oF E), (stream_concat_fold st cs oT E).
  rewrite (kid_streams_pure oF cs PF st), (kid_streams_pure oT cs PT st). cbn [fst snd final_source oF oT].
  set (trs := map (fun c => (fst (stream st c oF), source c)) cs : list kid).
  assert (E1 : map (fun c => fst (stream st c oF)) cs = map fst trs).
  { unfold trs. rewrite map_map. apply map_ext. intros c. reflexivity. }
  assert (E2 : map source cs = map tr_text trs).
  { unfold trs. rewrite map_map. apply map_ext. intros c. reflexivity. }
  assert (Hk : Forall kid_ok trs).
  { unfold trs. rewrite Forall_map. apply Forall_forall. intros c Hin.
    apply (IH c Hin st (Hsh' c Hin) (Ha' c Hin) (Hsm' c Hin)). }
  cbn [source]. rewrite E1, E2.
  split; [apply concat_kid_ok; exact Hk|]. split; [reflexivity|].
  apply concat_final_vs_text.
  - exact Hk.
  - rewrite Forall_map. apply Forall_forall. intros c Hin.
    apply dense_tree_any; [apply Hsh'|apply Ha']; exact Hin.
  - unfold trs. apply Forall2_map_same. intros c Hin. unfold tr_events, tr_text. cbn [fst snd].
    apply (IH c Hin st (Hsh' c Hin) (Ha' c Hin) (Hsm' c Hin)).
Qed.

(* ------------------------------------------------------------------ *)
(* ReplaceSource                                                       *)
(* ------------------------------------------------------------------ *)
Lemma cm_ev_pos t evs : Forall (fun m => is_position t (g_line m) (g_col m) = true) (chunk_mappings evs) ->
  Forall (ev_pos t) evs.
Proof.
  induction evs as [|e evs IH]; intros H; [constructor|].
  destruct e as [tx m|i n c|i n]; cbn [chunk_mappings] in H.
  - inversion H; subst. constructor; [assumption|apply IH; assumption].
  - constructor; [exact I|apply IH; exact H].
  - constructor; [exact I|apply IH; exact H].
Qed.

Lemma replace_tgood i rs : tgood (SReplace i rs).
Proof.
  intros st Hsh Ha Hsm.
  pose proof (rgood_all (SReplace i rs) st true Hsh Ha Hsm) as [[A1 A2] [A3 [A4 A5]]]. cbn zeta in *.
  change (stream st (SReplace i rs) oF) with (stream st (SReplace i rs) oT).
  fold oT in A1, A2, A3, A4, A5.
  split; [|split; [exact A5|apply (rshape_self_cols st (SReplace i rs)); assumption]].
  unfold kid_ok, tr_events, tr_info, tr_text. cbn [fst snd].
  pose proof (wp_facts _ [] _ A1 A2) as [W1 W2]. cbn [app] in W2.
  split; [apply dense_tree_any; assumption|]. split; [|split; [exact A4|exact W1]].
  apply cm_ev_pos. eapply Forall_impl; [|exact W2]. intros m [Hm _]. exact Hm.
Qed.

(* ------------------------------------------------------------------ *)
(* the induction                                                       *)
(* ------------------------------------------------------------------ *)
Lemma tgood_all : forall s, tgood s.
Proof.
  apply src_ind'.
  - intros b v st _ _ _. cbn [stream fst snd final_source oF oT].
    split; [apply raw_kid|]. split; [reflexivity|apply raw_final_attr].
  - intros v st _ _ _. cbn [stream fst snd final_source oF oT].
    split; [apply raw_kid|]. split; [reflexivity|apply raw_final_attr].
  - intros v st _ _ _. cbn [stream fst snd final_source oF oT].
    split; [apply raw_kid|]. split; [reflexivity|apply raw_final_attr].
  - intros v n st _ _ _. cbn [stream fst snd source].
    split; [apply original_kid|]. split; [reflexivity|apply original_final_attr].
  - intros v n m og i r st Hsh Ha _. cbn [rshape] in Hsh. destruct i as [im|]; [discriminate|].
    unfold treeA in Ha. apply andb_true_iff in Ha. destruct Ha as [_ Ha].
    destruct (mapped_ascii v n m og r Ha) as [Hav Hmc].
    cbn [stream fst snd source].
    split; [apply sm_kid; exact Hmc|]. split; [reflexivity|apply sm_final_text_attr; assumption].
  - intros cs IH. apply concat_tgood. exact IH.
  - intros i rs _. apply replace_tgood.
  - intros id i _ st Hsh. discriminate.
Qed.

(* ------------------------------------------------------------------ *)
(* G3                                                                  *)
(* ------------------------------------------------------------------ *)
Theorem final_attr_tree (st : store) (s : src) :
  rshape s = true -> treeA s = true -> rsmall s = true ->
  attr_of_final_events (fst (fst (stream st s (mkOpts true true)))) (source s) true =
  attr_of_stream (fst (fst (stream st s (mkOpts true false)))) true.
Proof. intros H1 H2 H3. apply (tgood_all s st H1 H2 H3). Qed.

(* what else the induction gives about the text-less stream: dense announcements, every
   segment on a position of source(), exact end info, segments sorted, store untouched *)
Theorem final_stream_facts (st : store) (s : src) :
  rshape s = true -> treeA s = true -> rsmall s = true ->
  let r := stream st s (mkOpts true true) in
  dense (fst (fst r)) 0 0 = true /\
  positions_of_text (source s) (chunks_of (fst (fst r))) = true /\
  snd (fst r) = advance 1 0 (source s) /\
  sorted_by pos_le (chunk_mappings (fst (fst r))) = true /\
  snd r = st.
Proof.
  intros H1 H2 H3. destruct (tgood_all s st H1 H2 H3) as [[K1 [K2 [K3 K4]]] [S _]].
  unfold tr_events, tr_info, tr_text in *. cbn [fst snd] in *. fold oF. cbn zeta.
  split; [exact K1|]. split; [apply positions_of_events; exact K2|]. split; [exact K3|].
  split; [apply ssorted_sorted; exact K4|exact S].
Qed.


(* ------------------------------------------------------------------ *)
(* G4, clause 1: map() attributes as the stream                          *)
(* ------------------------------------------------------------------ *)
(* the sorted half of `enc_domain` is proved; the half "all fields < 2^30" stays a hypothesis *)
Theorem final_enc_domain (st : store) (s : src) :
  rshape s = true -> treeA s = true -> rsmall s = true ->
  forallb mapping_small (chunk_mappings (fst (fst (stream st s (mkOpts true true))))) = true ->
  enc_domain (chunk_mappings (fst (fst (stream st s (mkOpts true true))))) = true.
Proof.
  intros H1 H2 H3 Hs. destruct (final_stream_facts st s H1 H2 H3) as [_ [_ [_ [So _]]]]. cbn zeta in So.
  unfold enc_domain. rewrite So, Hs. reflexivity.
Qed.

Theorem get_map_attr_tree (st : store) (s : src) :
  rshape s = true -> treeA s = true -> rsmall s = true ->
  forallb mapping_small (chunk_mappings (fst (fst (stream st s (mkOpts true true))))) = true ->
  attr_of_map (fst (get_map st s true)) (source s) true =
  attr_of_stream (fst (fst (stream st s (mkOpts true false)))) true.
Proof.
  intros H1 H2 H3 Hs. pose proof (final_enc_domain st s H1 H2 H3 Hs) as He.
  pose proof (dense_tree_any s st (mkOpts true true) H1 H2) as Hd.
  pose proof (final_attr_tree st s H1 H2 H3) as G3.
  unfold get_map. destruct (stream st s (mkOpts true true)) as [[evs gi] st']. cbn [fst snd] in *.
  rewrite (attr_codec_dense evs (source s) true Hd He). exact G3.
Qed.

(* ------------------------------------------------------------------ *)
(* G4, clause 3: a chunk is mapped in one mode iff one is in the other   *)
(* ------------------------------------------------------------------ *)
Definition asome (a : attr) : bool := match a with Some _ => true | None => false end.
Definition has_some (l : list attr) : bool := existsb asome l.
Definition seg_mapped (x : option text * rseg) : bool := asome (snd (snd x)).
Definition smapped (segs : list rseg) : bool := existsb (fun s => asome (snd s)) segs.

Lemma mce_rsegs : forall evs s n, mapped_chunk_exists evs = existsb seg_mapped (rsegs_of_events evs s n).
Proof.
  unfold mapped_chunk_exists. induction evs as [|e evs IH]; intros s n; [reflexivity|].
  destruct e as [t m|i nm c|i nm]; cbn [chunk_mappings rsegs_of_events existsb]; [|apply IH|apply IH].
  rewrite (IH s n). unfold seg_mapped at 1. cbn [snd]. destruct (m_orig m); reflexivity.
Qed.

Lemma mce_fsegs evs s n : mapped_chunk_exists evs = smapped (fsegs evs s n).
Proof.
  rewrite (mce_rsegs evs s n). unfold smapped, fsegs. induction (rsegs_of_events evs s n) as [|x l IH]; [reflexivity|].
  cbn [map existsb]. rewrite IH. reflexivity.
Qed.

Lemma smapped_app a b : smapped (a ++ b) = smapped a || smapped b.
Proof. apply existsb_app. Qed.

Lemma smapped_shseg lo co segs : smapped (map (shseg lo co) segs) = smapped segs.
Proof. unfold smapped. induction segs as [|x l IH]; [reflexivity|]. cbn [map existsb shseg snd]. rewrite IH. reflexivity. Qed.

(* covering: a mapped byte comes from a mapped chunk; a mapped chunk with bytes gives mapped bytes *)
Lemma const_has_some (a : attr) (t : text) : has_some (map (fun _ => a) t) = true -> asome a = true.
Proof. induction t as [|b t IH]; [discriminate|]. cbn [map has_some existsb]. destruct (asome a); [reflexivity|exact IH]. Qed.

Lemma cover_has_some chs : has_some (attr_cover chs) = true -> existsb seg_mapped chs = true.
Proof.
  induction chs as [|[[t|] [[l c] a]] chs IH]; intros H; [discriminate| |].
  - cbn [attr_cover] in H. unfold has_some in H. rewrite existsb_app in H. cbn [existsb]. unfold seg_mapped at 1. cbn [snd].
    apply orb_true_iff in H. destruct H as [H|H].
    + rewrite (const_has_some a t H). reflexivity.
    + rewrite (IH H). apply orb_true_r.
  - cbn [attr_cover] in H. cbn [existsb]. rewrite (IH H). apply orb_true_r.
Qed.

Definition seg_ne (ch : option text * rseg) : Prop :=
  seg_mapped ch = true -> exists b t, fst ch = Some (b :: t).

Lemma cover_has_some_intro chs : Forall seg_ne chs -> existsb seg_mapped chs = true ->
  has_some (attr_cover chs) = true.
Proof.
  induction 1 as [|ch chs Hch _ IH]; intros H; [discriminate|].
  cbn [existsb] in H. apply orb_true_iff in H. destruct H as [E|H].
  - destruct (Hch E) as [b [t' Ht]]. destruct ch as [ot [[l c] a]]. cbn [fst] in Ht. subst ot.
    cbn [attr_cover map]. unfold has_some. cbn [app existsb].
    unfold seg_mapped in E. cbn [snd] in E. rewrite E. reflexivity.
  - destruct ch as [[t|] [[l c] a]]; cbn [attr_cover]; [|apply (IH H)].
    unfold has_some. rewrite existsb_app. fold (has_some (attr_cover chs)). rewrite (IH H). apply orb_true_r.
Qed.

(* looking up: a mapped byte comes from a mapped segment *)
Lemma seg_lookup_asome segs l c : forall best, asome (seg_lookup segs l c best) = true ->
  asome best = true \/ smapped segs = true.
Proof.
  induction segs as [|s segs IH]; intros best H; [left; exact H|].
  rewrite seg_lookup_cons in H. apply IH in H. unfold smapped. cbn [existsb].
  destruct H as [H|H]; [|right; unfold smapped in H; rewrite H; apply orb_true_r].
  destruct (squal l c s); [right; rewrite H; reflexivity|left; exact H].
Qed.

Lemma lookup_has_some segs t : forall l c, has_some (attr_by_pos segs true t l c) = true -> smapped segs = true.
Proof.
  induction t as [|b t IH]; intros l c H; [discriminate|]. cbn [attr_by_pos has_some existsb] in H.
  apply orb_true_iff in H. destruct H as [H|H].
  - apply seg_lookup_asome in H. destruct H as [H|H]; [discriminate|exact H].
  - destruct (b =? NL); apply (IH _ _ H).
Qed.

(* text-carrying chunks that are mapped carry bytes *)
Definition ne_mapped (e : event) : Prop :=
  match e with
  | EChunk (Some t) mp => m_orig mp <> None -> t <> []
  | EChunk None mp => m_orig mp = None
  | _ => True
  end.

Lemma ne_mapped_segs : forall evs s n, Forall ne_mapped evs -> Forall seg_ne (rsegs_of_events evs s n).
Proof.
  induction evs as [|e evs IH]; intros s n H; [constructor|]. inversion H as [|? ? He Hevs]; subst.
  destruct e as [t m|i nm c|i nm]; cbn [rsegs_of_events]; [|apply IH; exact Hevs|apply IH; exact Hevs].
  constructor; [|apply IH; exact Hevs]. unfold seg_ne, seg_mapped. cbn [fst snd]. intros Hm.
  cbn [ne_mapped] in He. destruct t as [t|].
  - destruct t as [|b t]; [|exists b, t; reflexivity]. exfalso. apply He; [|reflexivity].
    destruct (m_orig m); [discriminate|discriminate].
  - rewrite He in Hm. discriminate.
Qed.

Lemma lab_none_ne e : lab_is None e -> (match e with EChunk None _ => False | _ => True end) -> ne_mapped e.
Proof.
  destruct e as [[t|] m|i nm c|i nm]; cbn [lab_is ne_mapped]; try (intros; exact I).
  - intros H _ Hn. contradiction.
  - intros _ [].
Qed.

Lemma whole_lines_ne suf : forall i cur tg, Forall ne_mapped (whole_lines suf i cur tg).
Proof.
  induction suf as [|l suf IH]; intros i cur tg; [constructor|]. cbn [whole_lines].
  destruct ((cur <=? i) && (i <? tg)); [constructor; [intros H; contradiction|]|]; apply IH.
Qed.

Lemma step_ne ls fl fc st m : Forall ne_mapped (snd (sm_full_step ls fl fc st m)).
Proof.
  rewrite sm_full_step_eq. destruct (step_guard st m); [constructor|].
  assert (H1 : Forall ne_mapped (snd (ph1 ls st m))).
  { unfold ph1. destruct (f_active st && (f_line st <=? len ls)); [|constructor].
    destruct (line_at ls (f_line st)) as [line|]; [|constructor].
    destruct (negb (g_line m =? f_line st)); cbn [snd].
    - destruct (substring line (f_col st) None) as [|b t]; cbn [is_nil]; constructor; [|constructor].
      intros _. discriminate.
    - destruct (substring line (f_col st) (Some (g_col m))) as [|b t]; cbn [is_nil]; constructor; [|constructor].
      intros _. discriminate. }
  destruct (ph1 ls st m) as [st1 ev1]. cbn [snd] in H1.
  assert (H2 : Forall ne_mapped (snd (ph2 ls st1 m))).
  { unfold ph2. destruct ((f_line st1 <? g_line m) && (0 <? f_col st1)); [|constructor]. cbn [snd].
    destruct (f_line st1 <=? len ls); [|constructor].
    destruct (line_at ls (f_line st1)); [|constructor]. cbv zeta.
    match goal with |- context [is_nil ?x] => destruct (is_nil x) end; [constructor|].
    constructor; [intros H; contradiction|constructor]. }
  destruct (ph2 ls st1 m) as [st2 ev2]. cbn [snd] in H2.
  assert (H3 : Forall ne_mapped (snd (ph3 ls st2 m))).
  { unfold ph3. destruct (f_line st2 <? g_line m); [|constructor]. cbn [snd]. apply whole_lines_ne. }
  destruct (ph3 ls st2 m) as [st3 ev3]. cbn [snd] in H3.
  assert (H4 : Forall ne_mapped (snd (ph4 ls st3 m))).
  { unfold ph4. destruct (f_col st3 <? g_col m); [|constructor]. cbn [snd].
    destruct (f_line st3 <=? len ls); [|constructor].
    destruct (line_at ls (f_line st3)); [|constructor]. cbv zeta.
    match goal with |- context [is_nil ?x] => destruct (is_nil x) end; [constructor|].
    constructor; [intros H; contradiction|constructor]. }
  destruct (ph4 ls st3 m) as [st4 ev4]. cbn [snd] in *.
  apply Forall_app. split; [exact H1|]. apply Forall_app. split; [exact H2|]. apply Forall_app. split; assumption.
Qed.

Lemma loop_ne ls fl fc : forall ms st, Forall ne_mapped (snd (sm_full_loop ls fl fc st ms)).
Proof.
  induction ms as [|m ms IH]; intros st; [constructor|]. cbn [sm_full_loop].
  pose proof (step_ne ls fl fc st m) as A. destruct (sm_full_step ls fl fc st m) as [st1 e1].
  pose proof (IH st1) as B. destruct (sm_full_loop ls fl fc st1 ms) as [st2 e2]. cbn [snd] in *.
  apply Forall_app. split; assumption.
Qed.

Lemma announce_sources_ne m srcs : forall i, Forall ne_mapped (announce_sources m srcs i).
Proof. induction srcs as [|x srcs IH]; intros i; cbn [announce_sources]; constructor; [exact I|apply IH]. Qed.

Lemma announce_names_ne names : forall i, Forall ne_mapped (announce_names names i).
Proof. induction names as [|x names IH]; intros i; cbn [announce_names]; constructor; [exact I|apply IH]. Qed.

Lemma sm_full_ne t m : Forall ne_mapped (fst (sm_stream_full t m)).
Proof.
  unfold sm_stream_full. destruct (is_nil (split_lines t)); [constructor|].
  destruct (lines_end_info (split_lines t)) as [fl fc].
  pose proof (loop_ne (split_lines t) fl fc (decode_mappings (sm_mappings m)) (mkF 1 0 false None)) as A.
  destruct (sm_full_loop (split_lines t) fl fc (mkF 1 0 false None) (decode_mappings (sm_mappings m))) as [st evs].
  pose proof (step_ne (split_lines t) fl fc st (unmapped fl fc)) as B.
  destruct (sm_full_step (split_lines t) fl fc st (unmapped fl fc)) as [st' evs']. cbn [fst snd] in *.
  apply Forall_app. split; [apply announce_sources_ne|]. apply Forall_app. split; [apply announce_names_ne|].
  apply Forall_app. split; assumption.
Qed.

(* the text-less stream of a SourceMapSource: every mapped segment is seen by its own byte *)
Fixpoint lt_sorted (ms : list mapping) : Prop :=
  match ms with
  | [] => True
  | a :: ms' => Forall (fun b => pos_lt a b = true) ms' /\ lt_sorted ms'
  end.

Lemma pos_lt_trans a b c : pos_lt a b = true -> pos_lt b c = true -> pos_lt a c = true.
Proof.
  unfold pos_lt. rewrite !orb_true_iff, !andb_true_iff, !N.ltb_lt, !N.eqb_eq. lia.
Qed.

Lemma sorted_lt_sorted : forall ms, sorted_by pos_lt ms = true -> lt_sorted ms.
Proof.
  induction ms as [|a ms IH]; [intros _; exact I|]. destruct ms as [|b ms'].
  - intros _. split; [constructor|exact I].
  - intros H. change (pos_lt a b && sorted_by pos_lt (b :: ms') = true) in H.
    apply andb_true_iff in H. destruct H as [Hab Hs]. specialize (IH Hs). split; [|exact IH].
    constructor; [exact Hab|]. destruct IH as [Hb _]. eapply Forall_impl; [|exact Hb]. cbn beta.
    intros x Hx. eapply pos_lt_trans; eassumption.
Qed.

Lemma lookup_own pre m post : lt_sorted (pre ++ m :: post) ->
  lookup (pre ++ m :: post) (g_line m) (g_col m) = m_orig m.
Proof.
  intros H. assert (Hpost : Forall (fun x => pos_lt m x = true) post).
  { clear - H. induction pre as [|p pre IH]; [destruct H as [H _]; exact H|]. destruct H as [_ H]. apply IH. exact H. }
  change (m :: post) with ([m] ++ post). rewrite app_assoc, lookup_before.
  - rewrite lookup_snoc. unfold qual. rewrite N.eqb_refl, N.leb_refl. reflexivity.
  - eapply Forall_impl; [|exact Hpost]. cbn beta. intros x Hx. unfold pos_lt in Hx. unfold plt, mpos. cbn [fst snd].
    rewrite orb_true_iff, andb_true_iff, N.ltb_lt, N.eqb_eq, N.ltb_lt in Hx. exact Hx.
Qed.

Lemma final_loop_mapped rl rc : forall ms al,
  existsb is_mapped (chunk_mappings (sm_final_loop ms rl rc al)) = true ->
  exists x, In x ms /\ is_mapped x = true /\ plt (mpos x) (rl, rc).
Proof.
  induction ms as [|m ms IH]; intros al H; [discriminate|]. cbn [sm_final_loop] in H.
  destruct ((rl <=? g_line m) && ((rc <=? g_col m) || (rl <? g_line m))) eqn:Esk.
  { destruct (IH al H) as [x [A B]]. exists x. split; [right; exact A|exact B]. }
  destruct (m_orig m) as [o|] eqn:Eo.
  - exists m. split; [left; reflexivity|]. split; [unfold is_mapped; rewrite Eo; reflexivity|].
    unfold plt, mpos. cbn [fst snd]. apply andb_false_iff in Esk.
    destruct Esk as [E|E]; [apply N.leb_gt in E; left; exact E|].
    apply orb_false_iff in E. destruct E as [E1 E2]. apply N.leb_gt in E1. apply N.ltb_ge in E2. lia.
  - destruct (al =? g_line m).
    + cbn [chunk_mappings existsb is_mapped unmapped m_orig orb] in H.
      destruct (IH al H) as [x [A B]]. exists x. split; [right; exact A|exact B].
    + destruct (IH al H) as [x [A B]]. exists x. split; [right; exact A|exact B].
Qed.

Lemma has_some_app a b : has_some (a ++ b) = has_some a || has_some b.
Proof. apply existsb_app. Qed.

Lemma sm_final_visible v m : map_consistent v m = true ->
  mapped_chunk_exists (fst (sm_stream_final v m)) = true ->
  has_some (attr_of_map (Some m) v true) = true.
Proof.
  intros Hc H. pose proof (map_consistent_pos v m Hc) as Hpos.
  assert (Hlt : lt_sorted (decode_mappings (sm_mappings m))).
  { apply sorted_lt_sorted. unfold map_consistent in Hc. apply andb_true_iff in Hc. destruct Hc as [Hc _].
    apply andb_true_iff in Hc. destruct Hc as [Hc _]. exact Hc. }
  rewrite mapped_chunk_exists_eq in H. unfold sm_stream_final in H. rewrite gen_info_advance in H.
  destruct (advance 1 0 v) as [rl rc] eqn:Eadv.
  destruct ((rl =? 1) && (rc =? 0)); cbn [fst] in H; [discriminate|].
  rewrite !chunk_mappings_app, (chunk_mappings_chunks_of (announce_sources _ _ _)), announce_sources_chunks in H.
  rewrite (chunk_mappings_chunks_of (announce_names _ _)), announce_names_chunks in H. cbn [map app] in H.
  destruct (final_loop_mapped rl rc _ 0 H) as [x [Hin [Hx Hp]]].
  rewrite Forall_forall in Hpos. pose proof (Hpos x Hin) as Hxp. unfold seg_pos in Hxp.
  apply is_position_split in Hxp. destruct Hxp as [a [b [Ev Ea]]].
  destruct b as [|y b].
  { exfalso. rewrite app_nil_r in Ev. subst a. rewrite Eadv in Ea. inversion Ea; subst.
    unfold plt, mpos in Hp. cbn [fst snd] in Hp. lia. }
  apply in_split in Hin. destruct Hin as [pre [post Ems]].
  rewrite attr_of_map_some, Ev, attr_by_fun_app, has_some_app, Ea. cbn [fst snd attr_by_fun has_some existsb].
  rewrite Ems, (lookup_own pre x post) by (rewrite <- Ems; exact Hlt).
  unfold is_mapped in Hx. destruct (m_orig x); [|discriminate]. cbn [optF asome orb]. apply orb_true_r.
Qed.

Lemma sm_mapped_same v m : ascii v = true -> map_consistent v m = true ->
  mapped_chunk_exists (fst (sm_stream v m oF)) = mapped_chunk_exists (fst (sm_stream v m oT)).
Proof.
  intros Ha Hc. unfold sm_stream, oF, oT. cbn [columns final_source].
  pose proof (sm_final_attr v m Hc) as EF. pose proof (sm_full_attr v m Ha Hc) as ET.
  destruct (mapped_chunk_exists (fst (sm_stream_full v m))) eqn:E1.
  - (* text -> final *)
    rewrite (mce_rsegs _ [] []) in E1.
    pose proof (cover_has_some_intro _ (ne_mapped_segs _ [] [] (sm_full_ne v m)) E1) as S.
    change (attr_cover (rsegs_of_events (fst (sm_stream_full v m)) [] []))
      with (attr_of_stream (fst (sm_stream_full v m)) true) in S.
    rewrite ET, <- EF in S. unfold attr_of_final_events in S. apply lookup_has_some in S.
    rewrite (mce_fsegs _ [] []). exact S.
  - destruct (mapped_chunk_exists (fst (sm_stream_final v m))) eqn:E2; [|reflexivity].
    pose proof (sm_final_visible v m Hc E2) as S. rewrite <- ET in S.
    apply cover_has_some in S. rewrite <- (mce_rsegs _ [] []) in S. congruence.
Qed.

(* ConcatSource, text-less mode: a chunk of the composite is mapped iff one of a child is *)
Lemma fold_smapped : forall (trs : list kid) st out,
  tabs out [] [] = (c_sources st, c_names st) -> Forall kid_ok trs ->
  smapped (fsegs (snd (concat_fold true (map fst trs) (st, out))) [] []) =
  smapped (fsegs out [] []) || existsb (fun tr => mapped_chunk_exists (tr_events tr)) trs.
Proof.
  induction trs as [|tr trs IH]; intros st out Ht HF.
  - cbn [map concat_fold fold_left snd existsb]. rewrite orb_false_r. reflexivity.
  - inversion HF as [|? ? Hk HF']; subst. cbn [map]. rewrite concat_fold_cons. cbn [fst snd].
    change (fst (fst tr)) with (tr_events tr). change (snd (fst tr)) with (tr_info tr).
    pose proof (child_decomp st out tr Ht Hk) as [B1 [_ [B3 _]]]. cbn zeta in *.
    destruct (concat_child true st (tr_events tr) (tr_info tr)) as [st' o]. cbn [fst snd] in *.
    rewrite (IH st' (out ++ o) B1 HF'), B3, !smapped_app, smapped_shseg. cbn [existsb].
    rewrite <- (mce_fsegs (tr_events tr) [] []).
    replace (smapped (child_cl st tr)) with false.
    2:{ unfold child_cl. destruct (c_close st && need (chunk_mappings (tr_events tr)) (tr_info tr)); reflexivity. }
    cbn [orb]. rewrite orb_assoc. reflexivity.
Qed.

Lemma concat_final_mapped (trs : list kid) : Forall kid_ok trs ->
  mapped_chunk_exists (snd (concat_fold true (map fst trs) (concat_init, []))) =
  existsb (fun tr => mapped_chunk_exists (tr_events tr)) trs.
Proof.
  intros H. rewrite (mce_fsegs _ [] []). apply (fold_smapped trs concat_init [] eq_refl H).
Qed.

(* text-carrying mode *)
Lemma mce_ta evs : mapped_chunk_exists evs = existsb (fun x : tattr => asome (snd x)) (ta (rsegs_of_events evs [] [])).
Proof.
  rewrite (mce_rsegs evs [] []). unfold ta. induction (rsegs_of_events evs [] []) as [|x l IH]; [reflexivity|].
  cbn [map existsb]. rewrite IH. reflexivity.
Qed.

Lemma existsb_flat_map {A B} (p : B -> bool) (f : A -> list B) (l : list A) :
  existsb p (flat_map f l) = existsb (fun x => existsb p (f x)) l.
Proof. induction l as [|x l IH]; [reflexivity|]. cbn [flat_map existsb]. rewrite existsb_app, IH. reflexivity. Qed.

Lemma concat_text_mapped (tks : list (list event * (N * N))) :
  Forall (fun k => dense (fst k) 0 0 = true) tks ->
  mapped_chunk_exists (snd (concat_fold false tks (concat_init, []))) =
  existsb (fun k => mapped_chunk_exists (fst k)) tks.
Proof.
  intros H. rewrite mce_ta, (concat_fold_ta tks H), existsb_flat_map.
  induction tks as [|k tks IH]; [reflexivity|]. cbn [existsb]. rewrite <- mce_ta. f_equal.
  apply IH. inversion H; assumption.
Qed.

Definition msame (s : src) : Prop :=
  forall st, rshape s = true -> treeA s = true -> rsmall s = true ->
    mapped_chunk_exists (fst (fst (stream st s oF))) = mapped_chunk_exists (fst (fst (stream st s oT))).

Lemma existsb_map' {A B} (p : B -> bool) (g : A -> B) (l : list A) :
  existsb p (map g l) = existsb (fun x => p (g x)) l.
Proof. induction l as [|x l IH]; [reflexivity|]. cbn [map existsb]. rewrite IH. reflexivity. Qed.

Lemma existsb_map_same {A} (f g : A -> bool) (l : list A) :
  (forall x, In x l -> f x = g x) -> existsb f l = existsb g l.
Proof.
  induction l as [|x l IH]; intros H; [reflexivity|]. cbn [existsb].
  rewrite (H x (or_introl eq_refl)), IH; [reflexivity|]. intros y Hy. apply H. right. exact Hy.
Qed.

Lemma msame_all : forall s, msame s.
Proof.
  apply src_ind'.
  - intros b v st _ _ _. cbn [stream fst final_source oF oT]. unfold raw_stream. cbn [fst].
    rewrite !mapped_chunk_exists_eq, raw_chunks_unmapped. reflexivity.
  - intros v st _ _ _. cbn [stream fst final_source oF oT]. unfold raw_stream. cbn [fst].
    rewrite !mapped_chunk_exists_eq, raw_chunks_unmapped. reflexivity.
  - intros v st _ _ _. cbn [stream fst final_source oF oT]. unfold raw_stream. cbn [fst].
    rewrite !mapped_chunk_exists_eq, raw_chunks_unmapped. reflexivity.
  - intros v n st _ _ _. cbn [stream fst]. unfold oF, oT.
    rewrite !mapped_chunk_exists_eq, !original_stream_cols_fst. cbn [chunk_mappings]. apply tokens_mapped.
  - intros v n m og i r st Hsh Ha _. cbn [rshape] in Hsh. destruct i as [im|]; [discriminate|].
    unfold treeA in Ha. apply andb_true_iff in Ha. destruct Ha as [_ Ha].
    destruct (mapped_ascii v n m og r Ha) as [Hav Hmc]. cbn [stream fst]. apply sm_mapped_same; assumption.
  - intros cs IH st Hsh Ha Hsm.
    pose proof (rshape_concat cs Hsh) as Hsh'. pose proof (treeA_concat cs Ha) as Ha'.
    pose proof (rsmall_concat cs Hsm) as Hsm'. rewrite Forall_forall in IH.
    destruct (Nat.eq_dec (length cs) 1) as [E|E].
    { destruct cs as [|c [|c2 r]]; try discriminate.
      assert (Hin : In c [c]) by (left; reflexivity).
      change (stream st (SConcat [c]) oF) with (stream st c oF).
      change (stream st (SConcat [c]) oT) with (stream st c oT).
      apply (IH c Hin st (Hsh' c Hin) (Ha' c Hin) (Hsm' c Hin)). }
    assert (PF : forall c, In c cs -> forall st0, snd (stream st0 c oF) = st0).
    { intros c Hin st0. apply (tgood_all c st0 (Hsh' c Hin) (Ha' c Hin) (Hsm' c Hin)). }
    assert (PT : forall c, In c cs -> forall st0, snd (stream st0 c oT) = st0).
    { intros c Hin st0. apply (rgood_all c st0 true (Hsh' c Hin) (Ha' c Hin) (Hsm' c Hin)). }
    rewrite (stream_concat_fold st cs oF E), (stream_concat_fold st cs oT E).
    rewrite (kid_streams_pure oF cs PF st), (kid_streams_pure oT cs PT st). cbn [fst snd final_source oF oT].
    set (trs := map (fun c => (fst (stream st c oF), source c)) cs : list kid).
    assert (E1 : map (fun c => fst (stream st c oF)) cs = map fst trs).
    { unfold trs. rewrite map_map. apply map_ext. intros c. reflexivity. }
    assert (Hk : Forall kid_ok trs).
    { unfold trs. rewrite Forall_map. apply Forall_forall. intros c Hin.
      apply (tgood_all c st (Hsh' c Hin) (Ha' c Hin) (Hsm' c Hin)). }
    rewrite E1, (concat_final_mapped trs Hk), concat_text_mapped.
    2:{ rewrite Forall_map. apply Forall_forall. intros c Hin.
        apply dense_tree_any; [apply Hsh'|apply Ha']; exact Hin. }
    unfold trs. rewrite !existsb_map'. apply existsb_map_same. intros c Hin.
    unfold tr_events. cbn [fst]. apply (IH c Hin st (Hsh' c Hin) (Ha' c Hin) (Hsm' c Hin)).
  - intros i rs _ st _ _ _. reflexivity.
  - intros id i _ st Hsh. discriminate.
Qed.

Theorem mapped_same_tree (st : store) (s : src) :
  rshape s = true -> treeA s = true -> rsmall s = true ->
  mapped_chunk_exists (fst (fst (stream st s (mkOpts true true)))) =
  mapped_chunk_exists (fst (fst (stream st s (mkOpts true false)))).
Proof. intros H1 H2 H3. apply (msame_all s st H1 H2 H3). Qed.

Theorem get_map_none_tree (st : store) (s : src) :
  rshape s = true -> treeA s = true -> rsmall s = true ->
  forallb mapping_small (chunk_mappings (fst (fst (stream st s (mkOpts true true))))) = true ->
  is_none (fst (get_map st s true)) =
  negb (mapped_chunk_exists (fst (fst (stream st s (mkOpts true false))))).
Proof.
  intros H1 H2 H3 Hs. pose proof (final_enc_domain st s H1 H2 H3 Hs) as He.
  rewrite <- (mapped_same_tree st s H1 H2 H3).
  unfold get_map. destruct (stream st s (mkOpts true true)) as [[evs gi] st']. cbn [fst snd] in *.
  apply map_of_events_none. exact He.
Qed.

(* G4: property C03, columns = true, for the class *)
Theorem C03_tree_cols (st : store) (s : src) :
  rshape s = true -> treeA s = true -> rsmall s = true ->
  forallb mapping_small (chunk_mappings (fst (fst (stream st s (mkOpts true true))))) = true ->
  attr_of_map (fst (get_map st s true)) (source s) true =
  attr_of_stream (fst (fst (stream st s (mkOpts true false)))) true /\
  is_none (fst (get_map st s true)) =
  negb (mapped_chunk_exists (fst (fst (stream st s (mkOpts true false))))).
Proof.
  intros H1 H2 H3 Hs. split; [apply get_map_attr_tree|apply get_map_none_tree]; assumption.
Qed.

Print Assumptions final_attr_tree.
Print Assumptions final_stream_facts.
Print Assumptions mapped_same_tree.
Print Assumptions C03_tree_cols.
