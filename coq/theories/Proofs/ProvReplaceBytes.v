(* Property C04 for trees with ReplaceSource nodes (class `pshape`: raw leaves, OriginalSource
   leaves, ConcatSource and ReplaceSource nodes), byte level, columns = true (R1):
     every output byte whose true origin (Sem/Prov.v: `prov`, for a ReplaceSource the splice
     `splice_tags` of the inner tags) is a byte of an OriginalSource resolves, through the map
     returned by map(), to its own file and line, with its own column at statement starts and a
     column not after its own otherwise; raw bytes are unmapped; replacement content is free.
   Route: a chunk-level invariant `CR Rw` between the chunks of the text-carrying stream and the
   tags (a mapped chunk lies on bytes whose columns are at least `chunk column + offset`, a
   statement start only at offset 0 and exactly on the chunk's column) is carried through
   ConcatSource (LawWrappers.concat_kids_ta) and ReplaceSource (ProvReplaceStream.
   replace_stream_chunks: a cut of a chunk moves the column by at most the length cut off);
   `splice_tags` is the attribute splice `aspl` of the tags; map() attributes as the stream does
   (FinalTree.C03_tree_cols). *)
From RS Require Import Base.Prelude Base.Text Rope.RopeModel Codec.Vlq Codec.CodecSpec
  Checkers.ChkCodec Stream.Types Stream.Leaves Stream.Concat Stream.Replace Stream.Tree Api.ApiTree
  Sem.Attr Sem.Prov Checkers.ChkTree Checkers.ChkProv Checkers.ChkComp Proofs.RopeWf
  Proofs.StreamText Proofs.StreamLeaves Proofs.StreamMap Proofs.StreamConcat Proofs.StreamTree
  Proofs.WfStream Proofs.WfFinal Proofs.ReplaceSort Proofs.ReplaceText
  Proofs.RStreamText Proofs.RStreamPos Proofs.RStreamTree
  Proofs.AttrCodec Proofs.AttrSms Proofs.AttrLeaves Proofs.ProvTokens Proofs.ProvOriginal
  Proofs.LawConcatAttr Proofs.LawWrappers Proofs.FinalDense Proofs.FinalConcat Proofs.FinalTree
  Proofs.ReplAttrRef Proofs.ReplAttrStream Proofs.ReplAttrOrigin Proofs.ReplAttrTree
  Proofs.ProvConcatBytes Proofs.ProvReplaceStream.
Require Import Lia List.

Local Open Scope N_scope.

(* ------------------------------------------------------------------ *)
(* the class                                                           *)
(* ------------------------------------------------------------------ *)
Fixpoint pshape (s : src) : bool :=
  match s with
  | SRaw _ _ | SRawString _ | SRawBuffer _ | SOriginal _ _ => true
  | SConcat cs => forallb pshape cs
  | SReplace inner _ => pshape inner
  | _ => false
  end.

Lemma pshape_concat cs : pshape (SConcat cs) = true -> forall c, In c cs -> pshape c = true.
Proof. cbn [pshape]. intros H c Hc. rewrite forallb_forall in H. apply H. exact Hc. Qed.

Lemma pshape_rshape : forall s, pshape s = true -> rshape s = true.
Proof.
  apply (src_ind' (fun s => pshape s = true -> rshape s = true));
    try (intros; reflexivity); try (intros; discriminate).
  - intros cs IH H. cbn [rshape]. apply forallb_forall. intros c Hc.
    rewrite Forall_forall in IH. apply (IH c Hc). apply (pshape_concat cs H c Hc).
  - intros i rs IH H. cbn [rshape pshape] in *. apply IH. exact H.
Qed.

Lemma cshape_pshape : forall s, cshape s = true -> pshape s = true.
Proof.
  apply (src_ind' (fun s => cshape s = true -> pshape s = true));
    try (intros; reflexivity); try (intros; discriminate).
  intros cs IH H. cbn [pshape]. apply forallb_forall. intros c Hc.
  rewrite Forall_forall in IH. apply (IH c Hc). apply (cshape_concat cs H c Hc).
Qed.

(* ------------------------------------------------------------------ *)
(* the tags as a byte function; splice_tags is an attribute splice      *)
(* ------------------------------------------------------------------ *)
Definition tagf (tags : list ptag) (p : N) : ptag := nth (N.to_nat p) tags PRaw.

Lemma nrange_tagf tags : forall k p, (N.to_nat p + k <= length tags)%nat ->
  map (tagf tags) (nrange p k) = firstn k (skipn (N.to_nat p) tags).
Proof.
  induction k as [|k IH]; intros p H; [reflexivity|].
  cbn [nrange map]. rewrite IH by lia.
  replace (N.to_nat (p + 1)) with (S (N.to_nat p)) by lia.
  unfold tagf. set (i := N.to_nat p) in *. clearbody i. clear IH p.
  revert i H. induction tags as [|x tags IHt]; intros i H; [cbn [length] in H; lia|].
  destruct i as [|i].
  - cbn [skipn nth firstn]. reflexivity.
  - cbn [skipn nth]. cbn [length] in H. rewrite <- (IHt i) by lia. reflexivity.
Qed.

Lemma bseg_tagf tags p q : p <= q -> q <= len tags -> bseg (tagf tags) p q = slice p q tags.
Proof.
  intros H1 H2. unfold bseg, slice, take, drop. apply nrange_tagf. unfold len in H2. lia.
Qed.

Definition rfill : repl -> ptag -> list ptag := cfa PRepl.

Lemma splice_tags_aspl tags : forall rs c, c <= len tags ->
  splice_tags tags rs c = aspl (tagf tags) rfill (len tags) rs c.
Proof.
  induction rs as [|r rs IH]; intros c Hc.
  - cbn [splice_tags aspl]. rewrite bseg_tagf by lia. rewrite slice_to_end by lia. reflexivity.
  - cbn [splice_tags aspl]. f_equal; [|f_equal].
    + destruct (N.ltb_spec c (r_start r)) as [H|H].
      * destruct (N.le_gt_cases c (N.min (r_start r) (len tags))) as [K|K].
        -- rewrite bseg_tagf by lia. reflexivity.
        -- rewrite bseg_nil by lia. replace (N.min (r_start r) (len tags)) with c by lia.
           apply slice_nil.
      * rewrite bseg_nil by lia. reflexivity.
    + rewrite IH by lia. f_equal. lia.
Qed.

(* ------------------------------------------------------------------ *)
(* chunk lists                                                         *)
(* ------------------------------------------------------------------ *)
Definition ttext (chs : list tattr) : text :=
  concat (map (fun x : tattr => match fst x with Some t => t | None => [] end) chs).

Lemma ttext_app a b : ttext (a ++ b) = ttext a ++ ttext b.
Proof. unfold ttext. rewrite map_app, concat_app. reflexivity. Qed.

Lemma tchunks_app S G a b :
  tchunks S G (a ++ b) = tchunks S G a ++ tchunks (fst (tabs a S G)) (snd (tabs a S G)) b.
Proof. unfold tchunks. rewrite rsegs_app, ta_app. reflexivity. Qed.

Lemma tchunks_chunk S G t m evs :
  tchunks S G (EChunk (Some t) m :: evs) = (Some t, res S G (m_orig m)) :: tchunks S G evs.
Proof. reflexivity. Qed.

Lemma tchunks_text : forall evs S G t, Reass evs t -> ttext (tchunks S G evs) = t.
Proof.
  induction evs as [|e evs IH]; intros S G t H.
  - rewrite (Reass_fun [] t [] H Reass_nil). reflexivity.
  - destruct e as [ot m|i nm c|i nm].
    + apply Reass_chunk_inv in H. destruct H as [t' [x [-> [-> H]]]].
      rewrite tchunks_chunk. unfold ttext. cbn [map fst concat]. fold (ttext (tchunks S G evs)).
      rewrite (IH S G x H). reflexivity.
    + apply (IH (lm_insert BAD S i nm) G t H).
    + apply (IH S (lm_insert BAD G i nm) t H).
Qed.

Lemma tas_tchunks evs : tas evs = tchunks [] [] evs.
Proof. reflexivity. Qed.

Section CRFacts.
Context {A : Type}.
Variable Rc : attr -> text -> list A -> Prop.

Lemma CR_length chs g : CR Rc chs g -> length g = length (ttext chs).
Proof.
  induction 1 as [|t a g chs gs Hl _ _ IH]; [reflexivity|].
  unfold ttext. cbn [map fst concat]. fold (ttext chs). rewrite !app_length, Hl, IH. reflexivity.
Qed.

Lemma CR_cons_inv t a chs g : CR Rc ((Some t, a) :: chs) g ->
  exists g1 g2, g = g1 ++ g2 /\ length g1 = length t /\ Rc a t g1 /\ CR Rc chs g2.
Proof. intros H. inversion H; subst. eexists; eexists. repeat split; eassumption. Qed.

Lemma CR_app_inv : forall c1 c2 g, CR Rc (c1 ++ c2) g ->
  exists g1 g2, g = g1 ++ g2 /\ CR Rc c1 g1 /\ CR Rc c2 g2.
Proof.
  induction c1 as [|[ot a] c1 IH]; intros c2 g H.
  - exists [], g. split; [reflexivity|]. split; [apply CR_nil|exact H].
  - cbn [app] in H. inversion H as [|t a' g0 chs gs Hl Hr Hc]; subst.
    destruct (IH c2 gs Hc) as [g1 [g2 [-> [H1 H2]]]].
    exists (g0 ++ g1), g2. split; [apply app_assoc|]. split; [|exact H2].
    apply CR_cons; assumption.
Qed.

Lemma CR_flat_map {X} (f : X -> list tattr) (h : X -> list A) (l : list X) :
  (forall x, In x l -> CR Rc (f x) (h x)) -> CR Rc (flat_map f l) (flat_map h l).
Proof.
  induction l as [|x l IH]; intros H; [apply CR_nil|].
  cbn [flat_map]. apply CR_app; [apply H; left; reflexivity|]. apply IH. intros y Hy. apply H. right. exact Hy.
Qed.
End CRFacts.

(* ------------------------------------------------------------------ *)
(* the chunk relation                                                   *)
(* ------------------------------------------------------------------ *)
(* a byte at offset i of a chunk mapped to l *)
Definition bokw (l : loc) (i : N) (g : ptag) : Prop :=
  match g with
  | PRaw => False
  | PRepl => True
  | POrig f ol oc stmt eb =>
    eb = true \/ (f = l_file l /\ ol = l_line l /\ l_col l + i <= oc /\ oc < two32 /\
                  (stmt = true -> i = 0 /\ oc = l_col l))
  end.

Definition bk (a : attr) (i : N) (g : ptag) : Prop :=
  match a with Some l => bokw l i g | None => byte_ok_a None g = true end.

Fixpoint walkP (P : N -> ptag -> Prop) (i : N) (g : list ptag) : Prop :=
  match g with [] => True | x :: g' => P i x /\ walkP P (i + 1) g' end.

Definition Rw (a : attr) (t : text) (g : list ptag) : Prop := walkP (bk a) 0 g.

Lemma walkP_nth (P : N -> ptag -> Prop) d : forall g i j, walkP P i g -> (j < length g)%nat -> P (i + N.of_nat j) (nth j g d).
Proof.
  induction g as [|x g IH]; intros i j H Hj; [cbn [length] in Hj; lia|].
  destruct H as [H1 H2]. destruct j as [|j].
  - cbn [nth]. rewrite N.add_0_r. exact H1.
  - cbn [nth]. cbn [length] in Hj. specialize (IH (i + 1) j H2 ltac:(lia)).
    replace (i + N.of_nat (S j)) with (i + 1 + N.of_nat j) by lia. exact IH.
Qed.

Lemma walkP_nrange (P : N -> ptag -> Prop) (B : N -> ptag) : forall k i p,
  (forall j, j < N.of_nat k -> P (i + j) (B (p + j))) -> walkP P i (map B (nrange p k)).
Proof.
  induction k as [|k IH]; intros i p H; [exact I|].
  cbn [nrange map walkP]. split.
  - specialize (H 0 ltac:(lia)). rewrite !N.add_0_r in H. exact H.
  - apply IH. intros j Hj. specialize (H (j + 1) ltac:(lia)).
    replace (i + 1 + j) with (i + (j + 1)) by lia. replace (p + 1 + j) with (p + (j + 1)) by lia. exact H.
Qed.

Lemma walkP_app (P : N -> ptag -> Prop) : forall g1 g2 i, walkP P i g1 -> walkP P (i + len g1) g2 -> walkP P i (g1 ++ g2).
Proof.
  induction g1 as [|x g1 IH]; intros g2 i H1 H2.
  - rewrite len_nil, N.add_0_r in H2. exact H2.
  - destruct H1 as [A1 A2]. cbn [app walkP]. split; [exact A1|]. apply IH; [exact A2|].
    rewrite slen_cons in H2. replace (i + 1 + len g1) with (i + (len g1 + 1)) by lia. exact H2.
Qed.

Lemma walkP_impl (P Q : N -> ptag -> Prop) : forall g i, (forall j x, P j x -> Q j x) -> walkP P i g -> walkP Q i g.
Proof.
  induction g as [|x g IH]; intros i H W; [exact I|]. destruct W as [W1 W2].
  split; [apply H; exact W1|apply IH; assumption].
Qed.

Lemma Rw_fill a t : Rw a t (cfill PRepl t).
Proof.
  unfold Rw, cfill. generalize 0. induction t as [|b t IH]; intros i; [exact I|].
  cbn [map walkP]. split; [destruct a; exact I || reflexivity|apply IH].
Qed.

(* ------------------------------------------------------------------ *)
(* one inner chunk: the obligations of ProvReplaceStream                *)
(* ------------------------------------------------------------------ *)
Lemma tagf_middle (g1 g gs : list ptag) (pre : text) q : length g1 = length pre -> q < len g ->
  tagf (g1 ++ g ++ gs) (len pre + q) = nth (N.to_nat q) g PRaw.
Proof.
  intros H1 Hq. unfold tagf, len in *.
  replace (N.to_nat (N.of_nat (length pre) + q)) with (length g1 + N.to_nat q)%nat by lia.
  rewrite app_nth2_plus. apply app_nth1. lia.
Qed.

Lemma weak_chunk_ob ievs tags L : dense ievs 0 0 = true -> CR Rw (tchunks [] [] ievs) tags ->
  forall done t m todo pre, ievs = done ++ EChunk (Some t) m :: todo -> Reass done pre ->
  ChunkObC Rw (tagf tags) L (len pre) t (m_orig m) (fst (tabs done [] [])) (snd (tabs done [] [])) (ctab done []).
Proof.
  intros Hd HCR done t m todo pre Hi HRd.
  set (S := fst (tabs done [] [])). set (Nn := snd (tabs done [] [])).
  pose proof (dense_chunk_idx ievs done t m todo Hi Hd) as Hidx. fold S Nn in Hidx.
  rewrite Hi, tchunks_app, tchunks_chunk in HCR. fold S Nn in HCR.
  destruct (CR_app_inv Rw _ _ _ HCR) as [g1 [g2 [Et [C1 C2]]]].
  destruct (CR_cons_inv Rw _ _ _ _ C2) as [g [gs [-> [Hlg [HR _]]]]].
  pose proof (CR_length Rw _ _ C1) as Hl1. rewrite (tchunks_text done [] [] pre HRd) in Hl1.
  assert (HT : forall q, q < len t -> tagf tags (len pre + q) = nth (N.to_nat q) g PRaw).
  { intros q Hq. rewrite Et. apply tagf_middle; [exact Hl1|]. unfold len in *. lia. }
  exists (fun cpos mo => idx_ok S Nn mo /\
            forall q, cpos <= q -> q < len t -> bk (res S Nn mo) (q - cpos) (tagf tags (len pre + q))).
  split; [|split; [|split]].
  - split; [exact Hidx|]. intros q _ Hq. rewrite (HT q Hq), N.sub_0_r.
    pose proof (walkP_nth (bk (res S Nn (m_orig m))) PRaw g 0 (N.to_nat q) HR) as K.
    replace (0 + N.of_nat (N.to_nat q)) with q in K by lia. apply K. unfold len in Hq. lia.
  - intros cpos mo [H _]. exact H.
  - intros st cpos k mo _ [Hix Hc] Hk Hk' _ _. split; [apply idx_ok_adv_col; exact Hix|].
    assert (Hlp : len (slice cpos k t) = k - cpos) by (apply len_slice; lia).
    intros q Hq Hq'. specialize (Hc q ltac:(lia) Hq').
    destruct mo as [o|]; [|exact Hc].
    unfold adv_col. destruct (check_content st o (slice cpos k t)).
    + cbn [res bk l_file l_line l_col] in *. unfold bokw in *. cbn [l_file l_line l_col] in *.
      destruct (tagf tags (len pre + q)) as [|f ol oc stmt eb|]; [exact Hc| |exact I].
      destruct Hc as [Hc|[F1 [F2 [F3 [F4 F5]]]]]; [left; exact Hc|right].
      cbn [o_src o_line o_col o_name]. rewrite Hlp.
      split; [exact F1|]. split; [exact F2|].
      rewrite wrap32_small by lia. split; [lia|]. split; [exact F4|].
      intros Hs. specialize (F5 Hs). lia.
    + cbn [res bk l_file l_line l_col] in *. unfold bokw in *. cbn [l_file l_line l_col] in *.
      destruct (tagf tags (len pre + q)) as [|f ol oc stmt eb|]; [exact Hc| |exact I].
      destruct Hc as [Hc|[F1 [F2 [F3 [F4 F5]]]]]; [left; exact Hc|right].
      split; [exact F1|]. split; [exact F2|]. split; [lia|]. split; [exact F4|].
      intros Hs. specialize (F5 Hs). lia.
  - intros cpos k mo [_ Hc] Hk Hk' _. unfold Rw, bseg. apply walkP_nrange.
    intros j Hj. specialize (Hc (cpos + j) ltac:(lia) ltac:(lia)).
    replace (cpos + j - cpos) with j in Hc by lia. rewrite N.add_0_l.
    replace (len pre + cpos + j) with (len pre + (cpos + j)) by lia. exact Hc.
Qed.

(* ------------------------------------------------------------------ *)
(* the induction over the tree, for any chunk relation                  *)
(* ------------------------------------------------------------------ *)
Lemma prov_replace inner rs :
  prov (SReplace inner rs) = splice_tags (prov inner) (sort_repls rs) 0.
Proof.
  cbn [prov]. destruct (sort_repls rs) as [|r l]; [|reflexivity].
  cbn [is_nil splice_tags]. reflexivity.
Qed.

Lemma treeA_replace inner rs : treeA (SReplace inner rs) = true ->
  treeA inner = true /\ forallb (repl_ok (source inner)) rs = true.
Proof.
  unfold treeA. cbn [tree_wf tree_ascii]. intros HA. apply andb_true_iff in HA. destruct HA as [Hw Ha].
  apply andb_true_iff in Hw. destruct Hw as [Hw1 Hw2]. apply andb_true_iff in Ha. destruct Ha as [Ha1 _].
  rewrite Hw1, Ha1. split; [reflexivity|exact Hw2].
Qed.

Section TreeInd.
Variable Rc : attr -> text -> list ptag -> Prop.
Variable side : src -> Prop.
Hypothesis Rc_fill : forall a t, Rc a t (cfill PRepl t).
Hypothesis side_concat : forall cs, side (SConcat cs) -> forall c, In c cs -> side c.
Hypothesis side_replace : forall i rs, side (SReplace i rs) -> side i.
Hypothesis Hraw : forall t, CR Rc (tchunks [] [] (fst (raw_stream t false))) (map (fun _ => PRaw) t).
Hypothesis Horig : forall v n, side (SOriginal v n) -> treeA (SOriginal v n) = true ->
  CR Rc (tchunks [] [] (fst (original_stream v n oT))) (original_prov v n).
Hypothesis Hstep : forall st inner, pshape inner = true -> treeA inner = true -> rsmall inner = true ->
  side inner ->
  forall tags L, CR Rc (tchunks [] [] (fst (fst (stream st inner oT)))) tags ->
  forall done t m todo pre, fst (fst (stream st inner oT)) = done ++ EChunk (Some t) m :: todo -> Reass done pre ->
  ChunkObC Rc (tagf tags) L (len pre) t (m_orig m) (fst (tabs done [] [])) (snd (tabs done [] [])) (ctab done []).

Definition cgood (s : src) : Prop :=
  forall st, pshape s = true -> treeA s = true -> rsmall s = true -> side s ->
    CR Rc (tchunks [] [] (fst (fst (stream st s oT)))) (prov s).

Lemma stream_Reass st s : pshape s = true -> treeA s = true -> rsmall s = true ->
  Reass (fst (fst (stream st s oT))) (source s) /\ snd (stream st s oT) = st.
Proof.
  intros Hp Ha Hs. pose proof (rshape_stream_good st s true (pshape_rshape s Hp) Ha Hs) as G.
  unfold oT. destruct (stream st s (mkOpts true false)) as [[evs gi] st']. cbn [fst snd].
  destruct G as [G1 [_ [_ G4]]]. split; [apply reassembles_iff; exact G1|exact G4].
Qed.

Lemma cgood_length s st : pshape s = true -> treeA s = true -> rsmall s = true ->
  CR Rc (tchunks [] [] (fst (fst (stream st s oT)))) (prov s) -> length (prov s) = length (source s).
Proof.
  intros Hp Ha Hs H. rewrite (CR_length Rc _ _ H).
  rewrite (tchunks_text _ [] [] (source s) (proj1 (stream_Reass st s Hp Ha Hs))). reflexivity.
Qed.

Lemma raw_cgood s : is_raw s = true -> cgood s.
Proof.
  intros Hr st _ _ _ _.
  assert (E : source_leaf s = source s) by (destruct s as [[|] v|v|v| | | | |]; try discriminate; reflexivity).
  assert (Ep : prov s = map (fun _ => PRaw) (source s)).
  { rewrite <- E. destruct s; try discriminate; reflexivity. }
  assert (Es : fst (fst (stream st s oT)) = fst (raw_stream (source s) false)).
  { destruct s; try discriminate; reflexivity. }
  rewrite Ep, Es. apply Hraw.
Qed.

Lemma concat_cgood cs : Forall cgood cs -> cgood (SConcat cs).
Proof.
  intros IH st Hp Ha Hs Hsd. rewrite Forall_forall in IH.
  pose proof (pshape_concat cs Hp) as Hp'. pose proof (treeA_concat cs Ha) as Ha'.
  assert (Hs' : forall c, In c cs -> rsmall c = true).
  { cbn [rsmall] in Hs. rewrite forallb_forall in Hs. exact Hs. }
  pose proof (side_concat cs Hsd) as Hsd'.
  destruct (Nat.eq_dec (length cs) 1) as [E|E].
  { destruct cs as [|c [|c2 r]]; try discriminate.
    change (stream st (SConcat [c]) oT) with (stream st c oT).
    cbn [prov flat_map]. rewrite app_nil_r.
    apply (IH c (or_introl eq_refl) st); [apply Hp'|apply Ha'|apply Hs'|apply Hsd']; left; reflexivity. }
  assert (PT : forall c, In c cs -> forall st0, snd (stream st0 c oT) = st0).
  { intros c Hin st0. apply (stream_Reass st0 c (Hp' c Hin) (Ha' c Hin) (Hs' c Hin)). }
  assert (Hkd : Forall (fun k => dense (fst k) 0 0 = true) (fst (kid_streams st cs (mkOpts true false)))).
  { fold oT. rewrite (kid_streams_pure oT cs PT st). cbn [fst]. rewrite Forall_map. apply Forall_forall.
    intros c Hin. cbn [fst]. apply dense_tree_any; [apply pshape_rshape; apply Hp'|apply Ha']; exact Hin. }
  pose proof (concat_kids_ta st cs true E Hkd) as [A1 _]. fold oT in A1. unfold evs_of in A1.
  rewrite <- tas_tchunks, A1, (kid_streams_pure oT cs PT st). cbn [fst].
  rewrite flat_map_map. cbn [prov fst].
  apply (CR_flat_map Rc (fun c => tas (fst (fst (stream st c oT)))) prov cs).
  intros c Hin. rewrite tas_tchunks.
  apply (IH c Hin st (Hp' c Hin) (Ha' c Hin) (Hs' c Hin) (Hsd' c Hin)).
Qed.

Lemma replace_cgood i rs : cgood i -> cgood (SReplace i rs).
Proof.
  intros IH st Hp Ha Hs Hsd. cbn [pshape] in Hp. cbn [rsmall] in Hs.
  apply andb_true_iff in Hs. destruct Hs as [Hs _].
  destruct (treeA_replace i rs Ha) as [Hai Hrs].
  pose proof (side_replace i rs Hsd) as Hsdi.
  pose proof (IH st Hp Hai Hs Hsdi) as HC.
  pose proof (cgood_length i st Hp Hai Hs HC) as Hlen.
  pose proof (stream_Reass st i Hp Hai Hs) as [HR _].
  pose proof (tidy_tree i (pshape_rshape i Hp) Hai Hs st) as [D N0].
  pose proof (Hstep st i Hp Hai Hs Hsdi (prov i)
                (cuts_from (len (prov i)) (sort_repls rs) 0) HC) as HCH.
  unfold evs_of, o10 in D, N0.
  rewrite prov_replace. unfold oT in *. rewrite stream_replace_eq.
  destruct (stream st i (mkOpts true false)) as [[ievs gi] st1]. cbn [fst snd] in *.
  assert (Hn : len (prov i) = len (source i)) by (unfold len; rewrite Hlen; reflexivity).
  destruct (replace_stream_chunks Rc PRepl Rc_fill (tagf (prov i)) (len (prov i))
              (cuts_from (len (prov i)) (sort_repls rs) 0) ievs HCH (sort_repls rs) (source i) gi
              (sort_repls_ordered rs (repl_ok_ordered _ _ Hrs)) HR Hn N0 D eq_refl) as [K _].
  rewrite splice_tags_aspl by lia. exact K.
Qed.

Theorem cgood_all : forall s, cgood s.
Proof.
  apply src_ind'.
  - intros b v. apply raw_cgood. reflexivity.
  - intros v. apply raw_cgood. reflexivity.
  - intros v. apply raw_cgood. reflexivity.
  - intros v n st _ Ha _ Hsd. cbn [prov]. unfold oT. rewrite stream_original. apply (Horig v n Hsd Ha).
  - intros v n m og i r st Hc. discriminate.
  - intros cs IH. apply concat_cgood. exact IH.
  - intros i rs IH. apply replace_cgood. exact IH.
  - intros id i _ st Hc. discriminate.
Qed.
End TreeInd.

(* ------------------------------------------------------------------ *)
(* leaves, for Rw                                                       *)
(* ------------------------------------------------------------------ *)
Lemma walk_raw : forall (l : text) i, walkP (bk None) i (map (fun _ => PRaw) l).
Proof. induction l as [|b l IH]; intros i; [exact I|]. split; [reflexivity|apply IH]. Qed.

Lemma raw_chunks_CR S G : forall ls i,
  CR Rw (tchunks S G (raw_chunks ls i)) (map (fun _ => PRaw) (concat ls)).
Proof.
  induction ls as [|l ls IH]; intros i; [apply CR_nil|].
  cbn [raw_chunks concat]. rewrite tchunks_chunk, map_app. cbn [unmapped m_orig res].
  apply CR_cons; [apply map_length|apply walk_raw|apply IH].
Qed.

Lemma raw_stream_CR t : CR Rw (tchunks [] [] (fst (raw_stream t false))) (map (fun _ => PRaw) t).
Proof.
  unfold raw_stream. cbn [fst]. rewrite <- (concat_split_lines t) at 2. apply raw_chunks_CR.
Qed.

(* the bytes of a token after its first one *)
Lemma otg_tail_w n line col b' : no_nl b' -> forall tl col' i, (tl = [] \/ tl = [10]) ->
  col + i <= col' -> col' + len (b' ++ tl) <= two32 ->
  walkP (bk (Some (mkLoc n line col None))) i
        (map snd (otg n (b' ++ tl) (map (fun _ => false) (b' ++ tl)) line col' false)).
Proof.
  induction 1 as [|x b' Hx Hb IH]; intros tl col' i Htl Hc Hs.
  - destruct Htl as [->| ->]; [exact I|].
    cbn [app map otg]. change (10 =? NL) with true. cbn [map snd walkP bk bokw l_file l_line l_col].
    cbn [app] in Hs. rewrite slen_cons, slen_nil in Hs.
    split; [|exact I]. right. repeat split; try reflexivity; try lia; discriminate.
  - cbn [app map otg]. replace (x =? NL) with false by (symmetry; apply N.eqb_neq; exact Hx).
    cbn [map snd walkP bk bokw l_file l_line l_col].
    cbn [app] in Hs. rewrite slen_cons in Hs. split.
    + right. repeat split; try reflexivity; try lia; discriminate.
    + apply IH; [exact Htl|lia|lia].
Qed.

Lemma otg_token_w n tk line col s : piece_shape tk -> lone tk = false -> col + len tk <= two32 ->
  Rw (Some (mkLoc n line col None)) tk (map snd (otg n tk (tok_marks tk) line col s)).
Proof.
  intros Hp Hl Hs. destruct (not_lone_shape tk Hp Hl) as (c0 & b' & tl & -> & Hc0 & Hb & Htl).
  assert (E0 : (c0 =? NL) = false) by (apply N.eqb_neq; exact Hc0).
  unfold Rw. cbn [tok_marks otg]. rewrite E0. cbn [andb negb].
  cbn [map snd walkP bk bokw l_file l_line l_col]. rewrite slen_cons in Hs. split.
  - right. repeat split; try reflexivity; lia.
  - apply otg_tail_w; [exact Hb|exact Htl|lia|lia].
Qed.

Lemma res_one n line col : res [n] [] (Some (mkOrig 0 line col None)) = Some (mkLoc n line col None).
Proof. reflexivity. Qed.

Lemma tokens_CR n toks : forall line col,
  Forall piece_shape toks -> tok_ok (col =? 0) toks -> col + len (concat toks) <= two32 ->
  CR Rw (tchunks [n] [] (fst (original_tokens toks false line col)))
        (map snd (otg n (concat toks) (token_starts toks) line col (col =? 0))).
Proof.
  induction toks as [|tk toks IH]; intros line col Hp Hok Hs; [apply CR_nil|].
  inversion Hp as [|x0 l0 Htk Hp']; subst x0 l0. destruct Hok as [Hlone Hok'].
  pose proof (piece_nonempty tk Htk) as Hne.
  rewrite (otg_tokens_cons n tk toks line col Htk), map_app, original_tokens_cons.
  cbn [concat] in Hs. rewrite len_app in Hs.
  specialize (IH (nxt_line tk line) (nxt_col tk col) Hp').
  rewrite (nxt_col_zero tk col Hne) in IH. specialize (IH Hok').
  rewrite <- (nxt_col_zero tk col Hne) in IH.
  assert (Hs' : nxt_col tk col + len (concat toks) <= two32).
  { unfold nxt_col. destruct (ends_with_nl tk); lia. }
  specialize (IH Hs').
  destruct (lone tk) eqn:El.
  - pose proof (lone_eq tk El) as Etk. specialize (Hlone Etk). subst tk.
    cbn [app]. rewrite tchunks_chunk. cbn [unmapped m_orig res].
    apply CR_cons; [reflexivity| |exact IH].
    unfold Rw. cbn [tok_marks otg map snd walkP bk]. change (10 =? NL) with true. cbn [map snd walkP].
    rewrite Hlone. split; [reflexivity|exact I].
  - cbn [app]. rewrite tchunks_chunk. cbn [orig_at m_orig]. rewrite res_one.
    apply CR_cons; [| |exact IH].
    + rewrite map_length, otg_length by apply tok_marks_len. reflexivity.
    + apply otg_token_w; [exact Htk|exact El|lia].
Qed.

Lemma original_stream_CR v n : len v < two32 ->
  CR Rw (tchunks [] [] (fst (original_stream v n oT))) (original_prov v n).
Proof.
  intros Hl. unfold oT. rewrite original_stream_cols_fst. unfold tchunks. rewrite rsegs_source0.
  fold (tchunks [n] [] (fst (original_tokens (potential_tokens v) false 1 0))).
  assert (Hb : 0 + len (concat (potential_tokens v)) <= two32) by (rewrite concat_potential_tokens; lia).
  pose proof (tokens_CR n (potential_tokens v) 1 0 (potential_tokens_pieces v) (potential_tokens_ok v) Hb) as H.
  rewrite <- otg_v_tokens in H. unfold otg_v in H. rewrite otg_tags in H. exact H.
Qed.

(* ------------------------------------------------------------------ *)
(* all trees of the class                                               *)
(* ------------------------------------------------------------------ *)
Definition side_w (s : src) : Prop := csmall s = true.

Lemma side_w_concat cs : side_w (SConcat cs) -> forall c, In c cs -> side_w c.
Proof. unfold side_w. cbn [csmall]. intros H c Hc. rewrite forallb_forall in H. apply H. exact Hc. Qed.

Lemma side_w_replace i rs : side_w (SReplace i rs) -> side_w i.
Proof. exact (fun H => H). Qed.

Theorem pshape_chunks_w (st : store) (s : src) :
  pshape s = true -> treeA s = true -> rsmall s = true -> csmall s = true ->
  CR Rw (tchunks [] [] (fst (fst (stream st s oT)))) (prov s).
Proof.
  intros Hp Ha Hs Hc.
  apply (cgood_all Rw side_w Rw_fill side_w_concat side_w_replace raw_stream_CR); try assumption.
  - intros v n Hsd _. apply original_stream_CR. unfold side_w in Hsd. cbn [csmall] in Hsd.
    apply N.ltb_lt. exact Hsd.
  - intros st0 inner Hpi Hai _ _ tags L HC done t m todo pre Hi HRd.
    apply (weak_chunk_ob (fst (fst (stream st0 inner oT))) tags L
             (dense_tree_any inner st0 oT (pshape_rshape inner Hpi) Hai) HC done t m todo pre Hi HRd).
Qed.

(* from chunks to bytes *)
Lemma bk_byte_ok a i g : bk a i g -> byte_ok_a a g = true.
Proof.
  destruct a as [l|]; [|exact (fun H => H)]. cbn [bk]. destruct g as [|f ol oc stmt eb|]; cbn [bokw byte_ok_a].
  - intros [].
  - destruct eb; [reflexivity|]. intros [H|[F1 [F2 [F3 [_ F5]]]]]; [discriminate|]. subst f ol.
    rewrite text_eqb_refl, N.eqb_refl. cbn [andb]. destruct stmt.
    + destruct (F5 eq_refl) as [_ ->]. apply N.eqb_refl.
    + apply N.leb_le. lia.
  - reflexivity.
Qed.

Lemma walk_all2 a : forall (t : text) g i, length g = length t -> walkP (bk a) i g ->
  all2 (map (fun _ => a) t) g = true.
Proof.
  induction t as [|b t IH]; intros g i Hl H; [reflexivity|].
  destruct g as [|x g]; [discriminate|]. destruct H as [H1 H2]. cbn [map all2].
  rewrite (bk_byte_ok a i x H1). cbn [andb]. apply (IH g (i + 1)); [cbn [length] in Hl; lia|exact H2].
Qed.

Lemma CR_all2 chs tags : CR Rw chs tags -> all2 (cover chs) tags = true.
Proof.
  induction 1 as [|t a g chs gs Hl Hr _ IH]; [reflexivity|].
  cbn [cover]. rewrite all2_app by (rewrite map_length; symmetry; exact Hl).
  rewrite (walk_all2 a t g 0 Hl Hr), IH. reflexivity.
Qed.

(* the per-byte statement on the text-carrying stream *)
Theorem pshape_stream_prov (st : store) (s : src) :
  pshape s = true -> treeA s = true -> rsmall s = true -> csmall s = true ->
  length (prov s) = length (source s) /\
  all2 (attr_of_stream (fst (fst (stream st s oT))) true) (prov s) = true.
Proof.
  intros Hp Ha Hs Hc. pose proof (pshape_chunks_w st s Hp Ha Hs Hc) as H. split.
  - rewrite (CR_length Rw _ _ H).
    rewrite (tchunks_text _ [] [] (source s) (proj1 (stream_Reass st s Hp Ha Hs))). reflexivity.
  - rewrite attr_of_stream_ta. apply CR_all2. exact H.
Qed.

(* ------------------------------------------------------------------ *)
(* map(): a ReplaceSource without replacements hands over to its inner  *)
(* ------------------------------------------------------------------ *)
Fixpoint peel (s : src) : src :=
  match s with
  | SReplace i rs => match rs with [] => peel i | _ => s end
  | _ => s
  end.

Lemma peel_facts : forall s,
  (forall st c, map_of st s c = map_of st (peel s) c) /\ source s = source (peel s) /\ prov s = prov (peel s) /\
  (pshape s = true -> pshape (peel s) = true) /\ (treeA s = true -> treeA (peel s) = true) /\
  (rsmall s = true -> rsmall (peel s) = true) /\ (csmall s = true -> csmall (peel s) = true) /\
  (forall i, peel s <> SReplace i []).
Proof.
  apply src_ind'; try (intros; cbn [peel]; repeat split; intros; try assumption; try discriminate; reflexivity).
  intros i rs IH. destruct rs as [|r rs].
  - cbn [peel]. destruct IH as [I1 [I2 [I3 [I4 [I5 [I6 [I7 I8]]]]]]]. repeat split.
    + intros st c. cbn [map_of is_nil]. apply I1.
    + cbn [source]. unfold replace_source_text. cbn [sort_repls fold_left is_nil]. exact I2.
    + rewrite prov_replace. cbn [sort_repls fold_left splice_tags drop skipn N.to_nat]. exact I3.
    + cbn [pshape]. exact I4.
    + intros H. apply I5. apply (treeA_replace i [] H).
    + cbn [rsmall]. intros H. apply andb_true_iff in H. apply I6. apply H.
    + cbn [csmall]. exact I7.
    + exact I8.
  - cbn [peel]. repeat split; intros; try assumption; try reflexivity. discriminate.
Qed.

Lemma pshape_map_attr (st : store) (s : src) : pshape s = true -> treeA s = true -> rsmall s = true ->
  (forall i, s <> SReplace i []) -> fields_small st s ->
  attr_of_map (fst (map_of st s true)) (source s) true =
  attr_of_stream (fst (fst (stream st s oT))) true.
Proof.
  intros Hp Ha Hs Hn Hf. destruct (is_raw s) eqn:Er.
  - assert (Em : fst (map_of st s true) = None) by (destruct s; try discriminate; reflexivity).
    assert (Es : fst (fst (stream st s oT)) = fst (raw_stream (source s) false)).
    { destruct s; try discriminate; reflexivity. }
    rewrite Em, Es, raw_stream_attr. reflexivity.
  - assert (Em : map_of st s true = get_map st s true).
    { destruct s as [| | | | |cs|i rs|]; try discriminate; try reflexivity.
      destruct rs as [|r rs]; [exfalso; apply (Hn i); reflexivity|reflexivity]. }
    rewrite Em. apply (C03_tree_cols st s (pshape_rshape s Hp) Ha Hs Hf).
Qed.

(* R1 *)
Theorem replace_c04_bytes (st : store) (s : src) :
  pshape s = true -> treeA s = true -> rsmall s = true -> csmall s = true -> fields_small st (peel s) ->
  let m1 := fst (map_of st s true) in
  let tg := tagged (source s) (prov s) 1 0 in
  let segs := match m1 with Some m => rsegs_of_map m | None => [] end in
  forallb (byte_ok segs) tg = true.
Proof.
  intros Hp Ha Hs Hc Hf. cbn zeta.
  destruct (peel_facts s) as [P1 [P2 [P3 [P4 [P5 [P6 [P7 P8]]]]]]].
  rewrite P1, P2, P3. fold (segs_of (fst (map_of st (peel s) true))).
  rewrite byte_ok_all2, segs_attr, (pshape_map_attr st (peel s) (P4 Hp) (P5 Ha) (P6 Hs) P8 Hf).
  apply (pshape_stream_prov st (peel s) (P4 Hp) (P5 Ha) (P6 Hs) (P7 Hc)).
Qed.

(* a single ReplaceSource over a tree of raw / OriginalSource leaves and ConcatSource nodes *)
Corollary replace_over_concat_c04_bytes (st : store) (inner : src) (r : repl) (rs : list repl) :
  cshape inner = true -> treeA (SReplace inner (r :: rs)) = true ->
  rsmall (SReplace inner (r :: rs)) = true -> csmall inner = true ->
  fields_small st (SReplace inner (r :: rs)) ->
  let s := SReplace inner (r :: rs) in
  let m1 := fst (map_of st s true) in
  let tg := tagged (source s) (prov s) 1 0 in
  let segs := match m1 with Some m => rsegs_of_map m | None => [] end in
  forallb (byte_ok segs) tg = true.
Proof.
  intros Hc Ha Hs Hcs Hf. apply replace_c04_bytes; try assumption.
  cbn [pshape]. apply cshape_pshape. exact Hc.
Qed.

(* non-vacuous instances: deletion across a line break, insertion inside a token, a replacement
   that reaches beyond the end, a ReplaceSource inside a ReplaceSource *)
Example replace_c04_bytes_example :
  let o1 := SOriginal [97; 59; 98; 10; 99; 100] [102] in
  let o2 := SOriginal [123; 97; 125; 10] [103] in
  let inner := SConcat [o1; SRawString [120; 10]; o2] in
  let s := SReplace (SConcat [SReplace inner [mkRepl 2 5 [] None 1; mkRepl 5 5 [121; 10; 122] None 1];
                              SRawString [32]])
                    [mkRepl 1 2 [113] None 1; mkRepl 9 40 [10] None 1] in
  (pshape s, treeA s, rsmall s, csmall s, source s,
   match fst (map_of [] s true) with Some m => rsegs_of_map m | None => [] end) =
  (true, true, true, true, [97; 113; 121; 10; 122; 100; 120; 10; 123; 10],
   [(1, 0, Some (mkLoc [102] 1 0 None)); (1, 1, Some (mkLoc [102] 1 1 None));
    (1, 2, Some (mkLoc [102] 2 1 None)); (2, 0, Some (mkLoc [102] 2 1 None));
    (2, 2, None); (3, 0, Some (mkLoc [103] 1 0 None)); (3, 1, Some (mkLoc [103] 1 1 None))]).
Proof. vm_compute. reflexivity. Qed.

Print Assumptions pshape_chunks_w.
Print Assumptions pshape_stream_prov.
Print Assumptions replace_c04_bytes.
