(* C13 over warm caches, contents (J3), part 2: the tree induction.
   `decl s`: the (file name, content) pairs the leaves of `s` declare: an OriginalSource its
   name with its text, a SourceMapSource the entries of its `sources` / `sourcesContent`.
   Store invariant `Ct`: every map a cache of the tree holds (under any option set) lists only
   files the wrapped source declares, with the declared content up to "absent = empty"
   (`tab_ok (decl inner)`).  Over a store that is `Sound` (WarmTreeDefs.v) and `Ct`, every stream
   of a tree of the class announces declared contents only, map() returns such a table, and
   both invariants are kept - by stream_chunks, map(), observer histories. *)
From RS Require Import Base.Prelude Base.Text Rope.RopeModel Codec.Vlq Codec.CodecSpec
  Stream.Types Stream.Leaves Stream.Concat Stream.Replace Stream.Combined Stream.Tree
  Api.ApiTree Sem.Attr Sem.HashEq Api.ApiHist Checkers.ChkTree Checkers.ChkHist Checkers.ChkCombined
  Proofs.StreamText Proofs.StreamLeaves Proofs.StreamConcat Proofs.StreamTree
  Proofs.WfStream Proofs.AttrCodec Proofs.AttrSms Proofs.AttrLeaves Proofs.LawConcatAttr Proofs.LawWrappers
  Proofs.CacheStore Proofs.FinalConcat Proofs.RStreamTree Proofs.ReplAttrTree Proofs.ProvConcatTables
  Proofs.ColdCache Proofs.ColdCacheTree Proofs.BoundsPos
  Proofs.WarmTreeDefs Proofs.WarmTreeNodes Proofs.WarmTreeMain Proofs.WarmTreeHist
  Proofs.CompWarmContBase.
Require Import Lia List.
Import ListNotations.

Local Open Scope N_scope.

(* ------------------------------------------------------------------ *)
(* declared contents                                                    *)
(* ------------------------------------------------------------------ *)
Fixpoint decl (s : src) : list (text * option text) :=
  match s with
  | SOriginal v n => [(n, Some v)]
  | SMapped _ _ m _ None _ => exp_sources m
  | SConcat cs => flat_map decl cs
  | SReplace i _ => decl i
  | SCached _ i => decl i
  | _ => []
  end.

Lemma decl_child cs ch : In ch cs -> incl (decl ch) (decl (SConcat cs)).
Proof. intros Hc x Hx. cbn [decl]. apply in_flat_map. exists ch. split; assumption. Qed.

Section Cont.
Variable U : src.
Hypothesis HU : ids_distinct U.

Definition Ct (st : store) : Prop :=
  forall id inner, In (id, inner) (nodes U) ->
  forall o v, cache_get (store_get st id) o = Some v -> tab_ok (decl inner) v.

Definition InvC (st : store) : Prop := Sound st U /\ Ct st.

Lemma ct_empty : Ct [].
Proof. intros id inner _ o v H. discriminate. Qed.

Lemma ct_put st id inner o v : In (id, inner) (nodes U) -> Ct st -> tab_ok (decl inner) v ->
  Ct (store_put st id o v).
Proof.
  intros Hin Hs Hv id' inner' Hin' o' x H. apply store_put_get_inv in H.
  destruct H as [H|[Ei [Eo [Ex _]]]].
  - apply (Hs id' inner' Hin' o' x H).
  - subst id' x. rewrite (nodes_inj U HU id inner' inner Hin' Hin). exact Hv.
Qed.

(* the Sound side, and density, from WarmTreeMain.warm_all *)
Lemma sound_stream s st o : incl (nodes s) (nodes U) -> cls s -> Sound st U ->
  dense (fst (fst (stream st s o))) 0 0 = true /\ Sound (snd (stream st s o)) U.
Proof.
  intros Hin Hcl Hs. destruct (warm_all U HU s Hin Hcl) as [A [B _]]. destruct o as [c f]. destruct f.
  - destruct (B st c Hs) as [[[K _] _] S]. split; [exact K|exact S].
  - destruct (A st c Hs) as [[K _] S]. split; [exact K|exact S].
Qed.

Lemma sound_map s st c : incl (nodes s) (nodes U) -> cls s -> Sound st U -> Sound (snd (map_of st s c)) U.
Proof. intros Hin Hcl Hs. destruct (warm_all U HU s Hin Hcl) as [_ [_ M]]. apply (M st c Hs). Qed.

Definition cstream_ok (s : src) : Prop :=
  forall st o, InvC st -> anns_ok (decl s) (anns (fst (fst (stream st s o)))) /\ Ct (snd (stream st s o)).

Definition cmap_ok (s : src) : Prop :=
  forall st c, InvC st -> tab_ok (decl s) (fst (map_of st s c)) /\ Ct (snd (map_of st s c)).

Definition PC (s : src) : Prop := incl (nodes s) (nodes U) -> cls s -> cstream_ok s /\ cmap_ok s.

(* map() of a node that streams *)
Lemma cget_map_ok s : incl (nodes s) (nodes U) -> cls s -> cstream_ok s ->
  forall st c, InvC st -> tab_ok (decl s) (fst (Tree.get_map st s c)) /\ Ct (snd (Tree.get_map st s c)).
Proof.
  intros Hin Hcl K st c Hs. destruct (K st (mkOpts c true) Hs) as [A B].
  destruct (sound_stream s st (mkOpts c true) Hin Hcl (proj1 Hs)) as [D _]. unfold Tree.get_map.
  destruct (stream st s (mkOpts c true)) as [[evs gi] st']. cbn [fst snd] in *.
  split; [apply events_tab_ok; assumption|exact B].
Qed.

(* leaves *)
Lemma raw_leaf_ok s : is_raw s = true -> cstream_ok s /\ cmap_ok s.
Proof.
  intros Hr. destruct s; try discriminate; (split; [intros st o Hs|intros st c Hs]); cbn [stream map_of fst snd];
    try (split; [rewrite raw_anns; apply anns_ok_nil|apply Hs]); (split; [exact I|apply Hs]).
Qed.

(* the children of a ConcatSource, the store threaded through *)
Lemma ckids o : forall cs, (forall ch, In ch cs -> incl (nodes ch) (nodes U) /\ cls ch /\ cstream_ok ch) ->
  forall st, InvC st ->
  anns_ok (flat_map decl cs) (flat_map (fun k : list event * (N * N) => anns (fst k)) (fst (kid_streams st cs o))) /\
  InvC (snd (kid_streams st cs o)).
Proof.
  induction cs as [|ch cs IH]; intros Hall st Hs.
  - cbn [kid_streams fst snd flat_map]. split; [apply anns_ok_nil|exact Hs].
  - cbn [kid_streams]. destruct (Hall ch (or_introl eq_refl)) as [Hin [Hcl K]].
    destruct (K st o Hs) as [A B]. destruct (sound_stream ch st o Hin Hcl (proj1 Hs)) as [_ S].
    destruct (stream st ch o) as [[evs gi] st1]. cbn [fst snd] in *.
    destruct (IH (fun x Hx => Hall x (or_intror Hx)) st1 (conj S B)) as [A2 S2].
    destruct (kid_streams st1 cs o) as [ks st2]. cbn [fst snd flat_map] in *.
    split; [|exact S2]. apply anns_ok_app.
    + apply (anns_ok_mono (decl ch)); [apply incl_appl; apply incl_refl|exact A].
    + apply (anns_ok_mono (flat_map decl cs)); [apply incl_appr; apply incl_refl|exact A2].
Qed.

Theorem cont_all : forall s, PC s.
Proof.
  apply (src_ind' PC); unfold PC.
  - intros b v _ _. apply raw_leaf_ok. reflexivity.
  - intros v _ _. apply raw_leaf_ok. reflexivity.
  - intros v _ _. apply raw_leaf_ok. reflexivity.
  - (* SOriginal *) intros v n Hin Hcl.
    assert (A : cstream_ok (SOriginal v n)).
    { intros st o Hs. cbn [stream fst snd]. rewrite original_anns. split; [apply anns_ok_self|apply Hs]. }
    split; [exact A|]. intros st c Hs.
    change (map_of st (SOriginal v n) c) with (Tree.get_map st (SOriginal v n) c). apply cget_map_ok; assumption.
  - (* SMapped *) intros v n m og i r Hin Hcl. destruct i as [im|].
    + destruct Hcl as [_ [Sh _]]. discriminate.
    + split.
      * intros st o Hs. cbn [stream fst snd decl]. split; [|apply Hs].
        apply (anns_ok_incl _ (exp_sources m)); [apply sm_anns|apply anns_ok_self].
      * intros st c Hs. cbn [map_of fst snd decl tab_ok]. split; [apply anns_ok_self|apply Hs].
  - (* SConcat *) intros cs IH Hin Hcl. rewrite Forall_forall in IH.
    assert (Hkids : forall ch, In ch cs -> incl (nodes ch) (nodes U) /\ cls ch /\ cstream_ok ch).
    { intros ch Hch.
      assert (Hi : incl (nodes ch) (nodes U)) by (intros x Hx; apply Hin; apply (nodes_child cs ch Hch); exact Hx).
      split; [exact Hi|]. split; [apply (cls_concat cs ch Hcl Hch)|].
      apply (IH ch Hch Hi (cls_concat cs ch Hcl Hch)). }
    assert (A : cstream_ok (SConcat cs)).
    { intros st o Hs. destruct (Nat.eq_dec (length cs) 1) as [E|E].
      - destruct cs as [|ch [|c2 r]]; try discriminate.
        change (stream st (SConcat [ch]) o) with (stream st ch o).
        destruct (Hkids ch (or_introl eq_refl)) as [_ [_ K]]. destruct (K st o Hs) as [A B].
        split; [|exact B]. apply (anns_ok_mono (decl ch)); [apply decl_child; left; reflexivity|exact A].
      - rewrite (stream_concat_fold st cs o E). cbn [fst snd].
        destruct (ckids o cs Hkids st Hs) as [K1 K2]. split; [|apply K2].
        eapply anns_ok_incl; [apply concat_fold_anns_incl|]. cbn [contents_of_events app decl]. exact K1. }
    split; [exact A|]. intros st c Hs.
    change (map_of st (SConcat cs) c) with (Tree.get_map st (SConcat cs) c). apply cget_map_ok; assumption.
  - (* SReplace *) intros i rs IH Hin Hcl. destruct (cls_replace i rs Hcl) as [Hci _].
    destruct (IH Hin Hci) as [IA IM].
    assert (A : cstream_ok (SReplace i rs)).
    { intros st o Hs. cbn [stream decl]. destruct (IA st (mkOpts (columns o) false) Hs) as [K1 K2].
      destruct (stream st i (mkOpts (columns o) false)) as [[ievs gi] st']. cbn [fst snd] in *.
      rewrite replace_stream_contents. split; assumption. }
    split; [exact A|]. intros st c Hs.
    change (map_of st (SReplace i rs) c) with
      (if is_nil rs then map_of st i c else Tree.get_map st (SReplace i rs) c).
    destruct (is_nil rs); [apply (IM st c Hs)|apply cget_map_ok; assumption].
  - (* SCached *) intros id i IH Hin Hcl. pose proof (cls_cached id i Hcl) as Hci.
    assert (Hnode : In (id, i) (nodes U)) by (apply Hin; left; reflexivity).
    assert (Hin' : incl (nodes i) (nodes U)) by (intros x Hx; apply Hin; right; exact Hx).
    destruct (IH Hin' Hci) as [IA IM]. split.
    + intros st o Hs. cbn [stream decl].
      destruct (cache_get (store_get st id) o) as [v|] eqn:G.
      * pose proof (proj2 Hs id i Hnode o v G) as T. destruct v as [m|]; cbn [fst snd].
        -- split; [|apply Hs]. apply (anns_ok_incl _ (exp_sources m)); [apply sm_anns|exact T].
        -- split; [rewrite raw_anns; apply anns_ok_nil|apply Hs].
      * destruct (IA st o Hs) as [K1 K2]. destruct (sound_stream i st o Hin' Hci (proj1 Hs)) as [D _].
        destruct (stream st i o) as [[evs gi] st']. cbn [fst snd] in *.
        split; [exact K1|]. apply (ct_put st' id i o _ Hnode K2). apply events_tab_ok; assumption.
    + intros st c Hs. cbn [map_of decl].
      destruct (cache_get (store_get st id) (mkOpts c false)) as [v|] eqn:G.
      * cbn [fst snd]. split; [apply (proj2 Hs id i Hnode _ v G)|apply Hs].
      * destruct (IM st c Hs) as [K1 K2]. destruct (map_of st i c) as [m st']. cbn [fst snd] in *.
        pose proof (ct_put st' id i (mkOpts c false) m Hnode K2 K1) as C'. split; [|exact C'].
        destruct (cache_get (store_get (store_put st' id (mkOpts c false) m) id) (mkOpts c false)) as [m'|] eqn:G';
          [apply (C' id i Hnode _ m' G')|exact K1].
Qed.

End Cont.

(* ------------------------------------------------------------------ *)
(* the statements for a tree                                            *)
(* ------------------------------------------------------------------ *)
Section Tree.
Variable s : src.
Hypothesis Hd : ids_distinct s.
Hypothesis Hcl : cls s.

Let C := cont_all s Hd s (incl_refl _) Hcl.

Theorem invc_empty : InvC s [].
Proof. split; [apply sound_empty|apply ct_empty]. Qed.

Theorem stream_invc (st : store) (o : opts) : InvC s st -> InvC s (snd (stream st s o)).
Proof.
  intros Hs. destruct C as [A _]. split; [|apply (A st o Hs)].
  apply (sound_stream s Hd s st o (incl_refl _) Hcl (proj1 Hs)).
Qed.

Theorem map_invc (st : store) (c : bool) : InvC s st ->
  tab_ok (decl s) (fst (map_of st s c)) /\ InvC s (snd (map_of st s c)).
Proof.
  intros Hs. destruct C as [_ M]. destruct (M st c Hs) as [T K]. split; [exact T|].
  split; [apply (sound_map s Hd s st c (incl_refl _) Hcl (proj1 Hs))|exact K].
Qed.

Theorem hop_invc (st : store) (op : hop) : InvC s st -> InvC s (snd (run_hop st s op)).
Proof.
  intros Hs. destruct op as [| | | |c|c f| |]; cbn [run_hop snd]; try exact Hs.
  - pose proof (map_invc st c Hs) as [_ X]. destruct (map_of st s c) as [m st']. exact X.
  - pose proof (stream_invc st (mkOpts c f) Hs) as X. destruct (stream st s (mkOpts c f)) as [[evs gi] st']. exact X.
Qed.

Theorem hops_invc : forall (ops : list hop) (st : store), InvC s st -> InvC s (snd (run_hops st s ops)).
Proof.
  induction ops as [|op ops IH]; intros st Hs; [exact Hs|].
  cbn [run_hops]. pose proof (hop_invc st op Hs) as H1.
  destruct (run_hop st s op) as [x st1]. cbn [snd] in H1. specialize (IH st1 H1).
  destruct (run_hops st1 s ops) as [as_ st2]. exact IH.
Qed.

End Tree.

Print Assumptions cont_all.
Print Assumptions map_invc.
Print Assumptions hops_invc.
