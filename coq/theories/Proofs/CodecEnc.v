(* T3 (encoder output read by the spec = kept segments), the spec half of T7,
   and encode_full (kept ms) = encode_full ms (used by T5). *)
From RS Require Import Base.Prelude Codec.Vlq Codec.CodecSpec Checkers.ChkCodec
  Proofs.CodecAlphabet Proofs.CodecVlq Proofs.CodecKept Proofs.CodecSplit.

Local Open Scope N_scope.

Definition s30 (n : N) : Prop := n < 1073741824.

(* ---------- mapping_small unpacked ---------- *)
Definition msmall (m : mapping) : Prop :=
  s30 (g_line m) /\ s30 (g_col m) /\ 1 <= g_line m /\
  match m_orig m with
  | Some o => s30 (o_src o) /\ s30 (o_line o) /\ s30 (o_col o) /\
              match o_name o with Some n => s30 n | None => True end
  | None => True
  end.

Lemma mapping_small_msmall m : mapping_small m = true -> msmall m.
Proof.
  unfold mapping_small, msmall, small, s30. intros H.
  rewrite !andb_true_iff in H. destruct H as [[[H1 H2] H3] H4].
  apply N.ltb_lt in H1. apply N.ltb_lt in H2. apply N.leb_le in H3.
  repeat split; try assumption.
  destruct (m_orig m) as [o|]; [|exact I].
  rewrite !andb_true_iff in H4. destruct H4 as [[[H5 H6] H7] H8].
  apply N.ltb_lt in H5. apply N.ltb_lt in H6. apply N.ltb_lt in H7.
  repeat split; try assumption.
  destruct (o_name o); [apply N.ltb_lt in H8; exact H8|exact I].
Qed.

Lemma enc_domain_unpack ms :
  enc_domain ms = true -> ssorted ms /\ Forall msmall ms.
Proof.
  unfold enc_domain. intros H. apply andb_true_iff in H. destruct H as [H1 H2].
  split; [apply sorted_ssorted; exact H1|].
  rewrite forallb_forall in H2. apply Forall_forall. intros m Hm.
  apply mapping_small_msmall. apply H2. exact Hm.
Qed.

(* ---------- the encoder's skip test is the declarative `redundant` ---------- *)
Definition act_of (e : enc) : option (N * orig) :=
  if e_active e then
    Some (e_line e, mkOrig (e_src e) (e_oline e) (e_ocol e)
                           (if e_active_name e then Some (e_name e) else None))
  else None.

Lemma enc_skip_redundant e m : enc_skip e m = redundant (act_of e) m.
Proof.
  unfold enc_skip, redundant, act_of.
  destruct (e_active e); cbn [andb]; [|reflexivity].
  destruct (e_line e =? g_line m); [|reflexivity].
  destruct (m_orig m) as [o|]; [|reflexivity].
  cbn [o_src o_line o_col o_name].
  destruct (o_src o =? e_src e), (o_line o =? e_oline e), (o_col o =? e_ocol e),
    (e_active_name e), (o_name o); reflexivity.
Qed.

(* ---------- enc_step in normal form ---------- *)
Definition enc_adv (e : enc) (m : mapping) : bool := e_line e <? g_line m.
Definition enc_sep (e : enc) (m : mapping) : text :=
  if enc_adv e m then repeat semi (N.to_nat (g_line m - e_line e))
  else if e_initial e then [] else [comma].
Definition enc_col (e : enc) (m : mapping) : N := if enc_adv e m then 0 else e_col e.
Definition enc_line (e : enc) (m : mapping) : N := if enc_adv e m then g_line m else e_line e.

Definition enc_fields (e : enc) (m : mapping) : text :=
  encode_vlq (g_col m) (enc_col e m) ++
  match m_orig m with
  | Some o =>
    encode_vlq (o_src o) (e_src e) ++ encode_vlq (o_line o) (e_oline e) ++
    encode_vlq (o_col o) (e_ocol e) ++
    match o_name o with Some n => encode_vlq n (e_name e) ++ [] | None => [] end
  | None => []
  end.

Definition enc_next (e : enc) (m : mapping) : enc :=
  match m_orig m with
  | Some o =>
    mkEnc (enc_line e m) (g_col m) (o_line o) (o_col o) (o_src o)
          (match o_name o with Some n => n | None => e_name e end)
          true (match o_name o with Some _ => true | None => false end) false
  | None =>
    mkEnc (enc_line e m) (g_col m) (e_oline e) (e_ocol e) (e_src e) (e_name e)
          false (e_active_name e) false
  end.

Lemma if_chA a b : (if a =? b then [chA] else encode_vlq a b) = encode_vlq a b.
Proof.
  destruct (a =? b) eqn:E; [|reflexivity]. apply N.eqb_eq in E. subst.
  symmetry. apply encode_vlq_same.
Qed.

Lemma enc_step_eq e m :
  enc_skip e m = false ->
  enc_step e m = (enc_next e m, enc_sep e m ++ enc_fields e m).
Proof.
  intros Sk. unfold enc_step. rewrite Sk.
  unfold enc_next, enc_sep, enc_fields, enc_col, enc_line, enc_adv.
  destruct (e_line e <? g_line m); [|destruct (e_initial e) eqn:Ei];
  cbv beta iota zeta;
  (destruct (m_orig m) as [o|]; [rewrite !if_chA; destruct (o_name o)|]);
  rewrite ?app_nil_r, <- ?app_assoc; reflexivity.
Qed.

Lemma enc_step_skip e m : enc_skip e m = true -> enc_step e m = (e, []).
Proof. intros Sk. unfold enc_step. rewrite Sk. reflexivity. Qed.

(* ---------- state correspondence ---------- *)
Record einv (e : enc) : Prop := mkEinv {
  ei_col : s30 (e_col e); ei_oline : s30 (e_oline e); ei_ocol : s30 (e_ocol e);
  ei_src : s30 (e_src e); ei_name : s30 (e_name e) }.

Definition run_of (e : enc) : run :=
  mkRun (Z.of_N (e_src e)) (Z.of_N (e_oline e) - 1) (Z.of_N (e_ocol e)) (Z.of_N (e_name e)).

Lemma einv_next e m : einv e -> msmall m -> einv (enc_next e m).
Proof.
  intros [H1 H2 H3 H4 H5] (M1 & M2 & M3 & M4). unfold enc_next.
  destruct (m_orig m) as [o|].
  - destruct M4 as (O1 & O2 & O3 & O4). constructor; cbn; try assumption.
    destruct (o_name o); assumption.
  - constructor; cbn; assumption.
Qed.

Lemma enc_line_eq e m : e_line e <= g_line m -> enc_line e m = g_line m.
Proof.
  intros H. unfold enc_line, enc_adv. destruct (e_line e <? g_line m) eqn:E; [reflexivity|].
  apply N.ltb_ge in E. lia.
Qed.

Lemma act_of_next e m : e_line e <= g_line m -> act_of (enc_next e m) = act_of_m m.
Proof.
  intros H. unfold enc_next, act_of, act_of_m. rewrite (enc_line_eq e m H).
  destruct (m_orig m) as [o|]; cbn; [|reflexivity].
  destruct o as [s l c [n|]]; reflexivity.
Qed.

Lemma enc_col_small e m : einv e -> s30 (enc_col e m).
Proof.
  intros H. unfold enc_col. destruct (enc_adv e m); [unfold s30; lia|apply H].
Qed.

Lemma enc_fields_nosep e m : nosep (enc_fields e m).
Proof.
  assert (H : Forall digit_char (enc_fields e m)).
  { unfold enc_fields.
    destruct (m_orig m) as [o|]; [destruct (o_name o)|];
    repeat (first [apply Forall_app; split | apply encode_vlq_alphabet | apply Forall_nil]). }
  eapply Forall_impl; [|exact H]. intros c [_ Hc]. apply digit_not_sep. exact Hc.
Qed.

Ltac vlq_step :=
  rewrite vlq_ints_encode_app by (unfold s30 in *; lia).

Lemma vlq_ints_fields e m :
  einv e -> msmall m ->
  vlq_ints (enc_fields e m) =
  Some ((Z.of_N (g_col m) - Z.of_N (enc_col e m))%Z ::
        match m_orig m with
        | Some o =>
          (Z.of_N (o_src o) - Z.of_N (e_src e))%Z :: (Z.of_N (o_line o) - Z.of_N (e_oline e))%Z ::
          (Z.of_N (o_col o) - Z.of_N (e_ocol e))%Z ::
          match o_name o with Some n => [(Z.of_N n - Z.of_N (e_name e))%Z] | None => [] end
        | None => []
        end).
Proof.
  intros Hi (M1 & M2 & M3 & M4). pose proof (enc_col_small e m Hi) as Hc.
  destruct Hi as [H1 H2 H3 H4 H5].
  unfold vlq_ints, enc_fields.
  destruct (m_orig m) as [o|].
  - destruct M4 as (O1 & O2 & O3 & O4).
    destruct (o_name o) as [n|]; repeat vlq_step; reflexivity.
  - vlq_step. reflexivity.
Qed.

Lemma nonneg_of_N n : nonneg (Z.of_N n) = true.
Proof. unfold nonneg. apply Z.leb_le. lia. Qed.

Lemma zadd_sub (a b : Z) : (a + (b - a) = b)%Z.
Proof. lia. Qed.
Lemma zline_sub (a b : Z) : (a - 1 + (b - a) + 1 = b)%Z.
Proof. lia. Qed.
Lemma zline_sub' (a b : Z) : (a - 1 + (b - a) = b - 1)%Z.
Proof. lia. Qed.

Lemma rseg_enc e m :
  e_line e <= g_line m ->
  rseg_of (enc_line e m) (Z.of_N (enc_col e m)) (run_of e)
    ((Z.of_N (g_col m) - Z.of_N (enc_col e m))%Z ::
        match m_orig m with
        | Some o =>
          (Z.of_N (o_src o) - Z.of_N (e_src e))%Z :: (Z.of_N (o_line o) - Z.of_N (e_oline e))%Z ::
          (Z.of_N (o_col o) - Z.of_N (e_ocol e))%Z ::
          match o_name o with Some n => [(Z.of_N n - Z.of_N (e_name e))%Z] | None => [] end
        | None => []
        end)
  = Some (Z.of_N (g_col m), run_of (enc_next e m), Some m).
Proof.
  intros Hl. unfold enc_next. rewrite (enc_line_eq e m Hl).
  destruct m as [gl gc [[s l c [n|]]|]]; cbn [m_orig g_line g_col o_src o_line o_col o_name];
  unfold rseg_of, run_of; cbv zeta;
  cbn [r_src r_line r_col r_name e_src e_oline e_ocol e_name];
  rewrite ?zadd_sub, ?zline_sub, ?zline_sub', ?nonneg_of_N; cbn [andb];
  rewrite ?N2Z.id; reflexivity.
Qed.

(* ---------- separators ---------- *)
Lemma rfrom_semi gl gc r s :
  gspec_from rseg_of gl gc r (59 :: s) = gspec_from rseg_of (gl + 1) 0 r s.
Proof.
  change (59 :: s) with ([] ++ 59 :: s).
  rewrite gspec_from_seg; [|constructor|right; reflexivity].
  change (vlq_ints []) with (Some (@nil Z)). cbn [rseg_of].
  rewrite gspec_after_semi. destruct (gspec_from rseg_of (gl + 1) 0 r s); reflexivity.
Qed.

Lemma rfrom_semis r s : forall n gl gc,
  gspec_from rseg_of gl gc r (repeat semi n ++ s) =
  gspec_from rseg_of (gl + N.of_nat n) (match n with O => gc | S _ => 0%Z end) r s.
Proof.
  induction n as [|n IH]; intros gl gc.
  - cbn [repeat app N.of_nat]. rewrite N.add_0_r. reflexivity.
  - cbn [repeat app]. unfold semi at 1. rewrite rfrom_semi, IH.
    replace (gl + 1 + N.of_nat n) with (gl + N.of_nat (S n)) by lia.
    destruct n; reflexivity.
Qed.

Definition spec_at (initial : bool) gl gc r s : option (list mapping) :=
  if initial then gspec_from rseg_of gl gc r s else gspec_after rseg_of gl gc r s.

Lemma spec_at_semis initial gl gc r s n :
  (0 < n)%nat ->
  spec_at initial gl gc r (repeat semi n ++ s) = gspec_from rseg_of (gl + N.of_nat n) 0 r s.
Proof.
  intros Hn. destruct n as [|n]; [lia|]. destruct initial; unfold spec_at.
  - rewrite rfrom_semis. reflexivity.
  - cbn [repeat app]. unfold semi at 1. rewrite gspec_after_semi, rfrom_semis.
    replace (gl + 1 + N.of_nat n) with (gl + N.of_nat (S n)) by lia.
    destruct n; reflexivity.
Qed.

Lemma spec_at_sep e m s :
  e_line e <= g_line m ->
  spec_at (e_initial e) (e_line e) (Z.of_N (e_col e)) (run_of e) (enc_sep e m ++ s) =
  gspec_from rseg_of (enc_line e m) (Z.of_N (enc_col e m)) (run_of e) s.
Proof.
  intros Hl. unfold enc_sep, enc_line, enc_col, enc_adv.
  destruct (e_line e <? g_line m) eqn:E.
  - apply N.ltb_lt in E. rewrite spec_at_semis by lia.
    replace (e_line e + N.of_nat (N.to_nat (g_line m - e_line e))) with (g_line m) by lia.
    reflexivity.
  - unfold spec_at. destruct (e_initial e); reflexivity.
Qed.

Lemma enc_run_sep_start : forall ms e, e_initial e = false -> sep_start (snd (enc_run e ms)).
Proof.
  induction ms as [|m ms IH]; intros e Hi; [exact I|].
  cbn [enc_run]. destruct (enc_skip e m) eqn:Sk.
  - rewrite (enc_step_skip e m Sk). specialize (IH e Hi).
    destruct (enc_run e ms) as [e2 o2]. exact IH.
  - rewrite (enc_step_eq e m Sk).
    destruct (enc_run (enc_next e m) ms) as [e2 o2]. cbn [snd].
    unfold enc_sep, enc_adv. rewrite Hi.
    destruct (e_line e <? g_line m) eqn:E.
    + apply N.ltb_lt in E.
      destruct (N.to_nat (g_line m - e_line e)) as [|k] eqn:Ek; [lia|].
      cbn. right. reflexivity.
    + cbn. left. reflexivity.
Qed.

Lemma enc_next_initial e m : e_initial (enc_next e m) = false.
Proof. unfold enc_next. destruct (m_orig m); reflexivity. Qed.
Lemma enc_next_line e m : e_line (enc_next e m) = enc_line e m.
Proof. unfold enc_next. destruct (m_orig m); reflexivity. Qed.
Lemma enc_next_col e m : e_col (enc_next e m) = g_col m.
Proof. unfold enc_next. destruct (m_orig m); reflexivity. Qed.

Lemma from_nil gl gc r : gspec_from rseg_of gl gc r [] = Some [].
Proof. reflexivity. Qed.

(* ---------- main induction ---------- *)
Lemma enc_run_rspec : forall ms e,
  einv e -> ssorted ms -> Forall msmall ms -> Forall (fun m => e_line e <= g_line m) ms ->
  spec_at (e_initial e) (e_line e) (Z.of_N (e_col e)) (run_of e) (snd (enc_run e ms))
  = Some (kept_from (act_of e) ms).
Proof.
  induction ms as [|m ms IH]; intros e Hi Hs Hm Hl.
  - cbn [enc_run snd kept_from]. unfold spec_at. destruct (e_initial e); reflexivity.
  - destruct Hs as [Hsm Hs]. inversion Hm as [|? ? Hm1 Hm2]; subst.
    inversion Hl as [|? ? Hl1 Hl2]; subst.
    rewrite kept_from_cons, <- enc_skip_redundant. cbn [enc_run].
    destruct (enc_skip e m) eqn:Sk.
    + rewrite (enc_step_skip e m Sk). specialize (IH e Hi Hs Hm2 Hl2).
      destruct (enc_run e ms) as [e2 o2]. exact IH.
    + rewrite (enc_step_eq e m Sk).
      assert (Hl' : Forall (fun m' => e_line (enc_next e m) <= g_line m') ms).
      { rewrite enc_next_line, (enc_line_eq e m Hl1).
        eapply Forall_impl; [|exact Hsm]. intros x Hx. apply pos_le_iff in Hx. lia. }
      specialize (IH (enc_next e m) (einv_next e m Hi Hm1) Hs Hm2 Hl').
      pose proof (enc_run_sep_start ms (enc_next e m) (enc_next_initial e m)) as Hst.
      destruct (enc_run (enc_next e m) ms) as [e2 o2]. cbn [snd] in *.
      rewrite <- app_assoc, (spec_at_sep e m _ Hl1).
      rewrite (gspec_from_seg rseg_of _ _ _ _ _ (enc_fields_nosep e m) Hst).
      rewrite (vlq_ints_fields e m Hi Hm1), (rseg_enc e m Hl1).
      rewrite enc_next_initial, enc_next_line, enc_next_col in IH. unfold spec_at in IH.
      rewrite IH, (act_of_next e m Hl1). reflexivity.
Qed.

(* the relaxed spec reads the encoder's output as exactly the kept segments;
   no hypothesis on original lines *)
Theorem encode_rspec (ms : list mapping) :
  enc_domain ms = true -> rspec_decode (encode_full ms) = Some (kept ms).
Proof.
  intros H. apply enc_domain_unpack in H. destruct H as [Hs Hm].
  unfold rspec_decode. rewrite gspec_decode_from.
  apply (enc_run_rspec ms enc_init); try assumption.
  - constructor; cbn; unfold s30; lia.
  - eapply Forall_impl; [|exact Hm]. intros m (_ & _ & H & _). exact H.
Qed.

(* T3.  The statement
     forall ms, enc_domain ms = true -> spec_decode (encode_full ms) = Some (kept ms)
   is false when an original line is 0 (see encode_spec_counterexample): the
   format's running original line would go to -1.  With all original lines
   >= 1 it holds. *)
Theorem encode_spec_partial (ms : list mapping) :
  enc_domain ms = true -> Forall oline_pos ms ->
  spec_decode (encode_full ms) = Some (kept ms).
Proof.
  intros H Hp. apply rspec_decode_spec; [apply encode_rspec; exact H|].
  apply kept_from_Forall. exact Hp.
Qed.

Lemma encode_spec_counterexample :
  let ms := [mkMapping 1 0 (Some (mkOrig 0 0 0 None))] in
  enc_domain ms = true /\ spec_decode (encode_full ms) = None /\
  decode_mappings (encode_full ms) = kept ms.
Proof. vm_compute. repeat split. Qed.

(* ---------- encode_full (kept ms) = encode_full ms ---------- *)
Lemma enc_run_kept : forall ms e,
  ssorted ms -> Forall (fun m => e_line e <= g_line m) ms ->
  enc_run e (kept_from (act_of e) ms) = enc_run e ms.
Proof.
  induction ms as [|m ms IH]; intros e Hs Hl; [reflexivity|].
  destruct Hs as [Hsm Hs]. inversion Hl as [|? ? Hl1 Hl2]; subst.
  rewrite kept_from_cons, <- enc_skip_redundant.
  destruct (enc_skip e m) eqn:Sk.
  - rewrite (IH e Hs Hl2). cbn [enc_run]. rewrite (enc_step_skip e m Sk).
    destruct (enc_run e ms) as [e2 o2]. reflexivity.
  - cbn [enc_run]. rewrite (enc_step_eq e m Sk).
    rewrite <- (act_of_next e m Hl1). rewrite IH; [reflexivity|exact Hs|].
    rewrite enc_next_line, (enc_line_eq e m Hl1).
    eapply Forall_impl; [|exact Hsm]. intros x Hx. apply pos_le_iff in Hx. lia.
Qed.

Theorem encode_full_kept (ms : list mapping) :
  enc_domain ms = true -> encode_full (kept ms) = encode_full ms.
Proof.
  intros H. apply enc_domain_unpack in H. destruct H as [Hs Hm].
  unfold encode_full, kept. change None with (act_of enc_init).
  rewrite enc_run_kept; [reflexivity|exact Hs|].
  eapply Forall_impl; [|exact Hm]. intros m (_ & _ & H & _). exact H.
Qed.

Print Assumptions encode_rspec.
Print Assumptions encode_spec_partial.
Print Assumptions encode_full_kept.
